import Uft.Model.Graph
/- Helper lemmas for C15: the trie operations seen through `Node.get`. -/
namespace Uft.Graph

/-! ## accessors -/

namespace Node
@[simp] theorem name_mk (a b c d e f) : (Node.mk a b c d e f).name = a := rfl
@[simp] theorem id_mk (a b c d e f) : (Node.mk a b c d e f).id = b := rfl
@[simp] theorem calls_mk (a b c d e f) : (Node.mk a b c d e f).calls = c := rfl
@[simp] theorem time_mk (a b c d e f) : (Node.mk a b c d e f).time = d := rfl
@[simp] theorem child_mk (a b c d e f) : (Node.mk a b c d e f).child = e := rfl
@[simp] theorem kids_mk (a b c d e f) : (Node.mk a b c d e f).kids = f := rfl

@[simp] theorem name_setKids (n : Node) (k) : (n.setKids k).name = n.name := by cases n; rfl
@[simp] theorem calls_setKids (n : Node) (k) : (n.setKids k).calls = n.calls := by cases n; rfl
@[simp] theorem time_setKids (n : Node) (k) : (n.setKids k).time = n.time := by cases n; rfl
@[simp] theorem child_setKids (n : Node) (k) : (n.setKids k).child = n.child := by cases n; rfl
@[simp] theorem kids_setKids (n : Node) (k) : (n.setKids k).kids = k := by cases n; rfl

@[simp] theorem name_incCalls (n : Node) : n.incCalls.name = n.name := by cases n; rfl
@[simp] theorem calls_incCalls (n : Node) : n.incCalls.calls = n.calls + 1 := by cases n; rfl
@[simp] theorem time_incCalls (n : Node) : n.incCalls.time = n.time := by cases n; rfl
@[simp] theorem child_incCalls (n : Node) : n.incCalls.child = n.child := by cases n; rfl
@[simp] theorem kids_incCalls (n : Node) : n.incCalls.kids = n.kids := by cases n; rfl

@[simp] theorem name_addTime (n : Node) (a b) : (n.addTime a b).name = n.name := by cases n; rfl
@[simp] theorem calls_addTime (n : Node) (a b) : (n.addTime a b).calls = n.calls := by cases n; rfl
@[simp] theorem time_addTime (n : Node) (a b) : (n.addTime a b).time = n.time + a := by cases n; rfl
@[simp] theorem child_addTime (n : Node) (a b) : (n.addTime a b).child = n.child + b := by cases n; rfl
@[simp] theorem kids_addTime (n : Node) (a b) : (n.addTime a b).kids = n.kids := by cases n; rfl

@[simp] theorem name_addChild (n : Node) (d) : (n.addChild d).name = n.name := by cases n; rfl
@[simp] theorem calls_addChild (n : Node) (d) : (n.addChild d).calls = n.calls := by cases n; rfl
@[simp] theorem time_addChild (n : Node) (d) : (n.addChild d).time = n.time := by cases n; rfl
@[simp] theorem child_addChild (n : Node) (d) : (n.addChild d).child = n.child + d := by cases n; rfl
@[simp] theorem kids_addChild (n : Node) (d) : (n.addChild d).kids = n.kids := by cases n; rfl
end Node

/-- what the theorems observe of a node -/
def st (n : Node) : Nat × Nat × Int := (n.calls, n.time, n.child)

@[simp] theorem st_setKids (n : Node) (k) : st (n.setKids k) = st n := by simp [st]

/-! ## children lists -/

theorem find_name {x : Name} : ∀ {kids : Nodes} {c : Node}, kids.find x = some c → c.name = x
  | .nil, _, h => by simp [Nodes.find] at h
  | .cons n rest, c, h => by
    simp only [Nodes.find] at h
    split at h
    · rename_i hn; simp at h; subst h; exact hn
    · exact find_name h

theorem find_mapFirst (x y : Name) (g : Node → Node) (hg : ∀ m, (g m).name = m.name) :
    ∀ kids : Nodes, (kids.mapFirst x g).find y = if y = x then (kids.find x).map g else kids.find y
  | .nil => by simp [Nodes.mapFirst, Nodes.find]
  | .cons n rest => by
    have ih := find_mapFirst x y g hg rest
    simp only [Nodes.mapFirst]
    by_cases hn : n.name = x
    · simp only [hn, ↓reduceIte, Nodes.find, hg]
      by_cases hy : y = x
      · simp [hy]
      · have : ¬ x = y := fun e => hy e.symm
        simp [hy, this]
    · simp only [hn, ↓reduceIte, Nodes.find]
      by_cases hy : y = x
      · subst hy; simp [hn, ih]
      · simp only [hy, ↓reduceIte] at ih ⊢
        rw [ih]

theorem find_bump (x y : Name) (id : Nat) :
    ∀ kids : Nodes, (kids.bump x id).find y =
      if y = x then some (match kids.find x with | some n => n.incCalls | none => Node.fresh x id)
      else kids.find y
  | .nil => by
    by_cases hy : y = x
    · subst hy; simp [Nodes.bump, Nodes.find, Node.fresh]
    · have : ¬ x = y := fun e => hy e.symm
      simp [Nodes.bump, Nodes.find, Node.fresh, hy, this]
  | .cons n rest => by
    have ih := find_bump x y id rest
    simp only [Nodes.bump]
    by_cases hn : n.name = x
    · simp only [hn, ↓reduceIte, Nodes.find, Node.name_incCalls]
      by_cases hy : y = x
      · simp [hy]
      · have : ¬ x = y := fun e => hy e.symm
        simp [hy, this]
    · simp only [hn, ↓reduceIte, Nodes.find]
      by_cases hy : y = x
      · subst hy; simp [hn, ih]
      · simp only [hy, ↓reduceIte] at ih ⊢
        rw [ih]

/-! ## paths -/

theorem get_cons (x : Name) (p : Path) (n : Node) :
    n.get (x :: p) = (n.kids.find x).bind (Node.get p) := by
  simp only [Node.get]; cases n.kids.find x <;> rfl

theorem get_append (p r : Path) : ∀ n : Node, n.get (p ++ r) = (n.get p).bind (Node.get r) := by
  induction p with
  | nil => intro n; simp [Node.get]
  | cons x p ih =>
    intro n
    simp only [List.cons_append, get_cons]
    cases n.kids.find x with
    | none => rfl
    | some c => simpa using ih c

theorem has_prefix {p r : Path} {n : Node} (h : (n.get (p ++ r)).isSome) : (n.get p).isSome := by
  rw [get_append] at h
  cases hp : n.get p with
  | none => simp [hp] at h
  | some _ => rfl

theorem has_dropLast {p : Path} {n : Node} (h : (n.get p).isSome) : (n.get p.dropLast).isSome := by
  by_cases hp : p = []
  · subst hp; simpa using h
  · have := List.dropLast_concat_getLast hp
    rw [← this] at h
    exact has_prefix h

theorem name_modifyAt (f : Node → Node) (hf : ∀ m, (f m).name = m.name) :
    ∀ (p : Path) (n : Node), (n.modifyAt p f).name = n.name
  | [], n => by simp [Node.modifyAt, hf]
  | _ :: _, n => by simp [Node.modifyAt]

/-- an update that touches only the counters of the node at `p` -/
theorem get_modifyAt_stat (f : Node → Node) (hn : ∀ m, (f m).name = m.name) (hk : ∀ m, (f m).kids = m.kids) :
    ∀ (p : Path) (n : Node) (q : Path),
      ((n.modifyAt p f).get q).map st = if q = p then (n.get p).map (fun m => st (f m)) else (n.get q).map st
  | [], n, q => by
    cases q with
    | nil => simp [Node.modifyAt, Node.get]
    | cons y r => simp [Node.modifyAt, get_cons, hk]
  | x :: p, n, q => by
    cases q with
    | nil => simp [Node.modifyAt, Node.get]
    | cons y r =>
      simp only [Node.modifyAt, get_cons, Node.kids_setKids]
      rw [find_mapFirst x y _ (fun m => name_modifyAt f hn p m)]
      by_cases hy : y = x
      · subst hy
        simp only [↓reduceIte, List.cons.injEq, true_and]
        cases hc : n.kids.find y with
        | none => simp
        | some c =>
          simp only [Option.map_some, Option.bind_some]
          exact get_modifyAt_stat f hn hk p c r
      · simp [hy]

/-- `add_graph_entry` below the node at `p` -/
def bumpF (x : Name) (id : Nat) : Node → Node := fun m => m.setKids (m.kids.bump x id)

theorem get_modifyAt_bump (x : Name) (id : Nat) :
    ∀ (p : Path) (n : Node), (n.get p).isSome → ∀ q : Path,
      ((n.modifyAt p (bumpF x id)).get q).map st =
        if q = p ++ [x] then
          some (match n.get q with | some m => (m.calls + 1, m.time, m.child) | none => (1, 0, 0))
        else (n.get q).map st
  | [], n, _, q => by
    cases q with
    | nil => simp [Node.modifyAt, Node.get, bumpF]
    | cons y r =>
      simp only [Node.modifyAt, bumpF, get_cons, Node.kids_setKids, List.nil_append, List.cons.injEq]
      rw [find_bump]
      by_cases hy : y = x
      · subst hy
        simp only [↓reduceIte, true_and, Option.bind_some]
        cases r with
        | nil =>
          cases hc : n.kids.find y with
          | none => simp [Node.get, st, Node.fresh]
          | some c => simp [Node.get, st]
        | cons z r' =>
          cases hc : n.kids.find y with
          | none => simp [get_cons, Node.fresh, Nodes.find]
          | some c => simp [get_cons]
      · simp [hy]
  | z :: p, n, h, q => by
    rw [get_cons] at h
    cases hc : n.kids.find z with
    | none => simp [hc] at h
    | some c =>
      simp only [hc, Option.bind_some] at h
      cases q with
      | nil => simp [Node.modifyAt, Node.get]
      | cons y r =>
        simp only [Node.modifyAt, get_cons, Node.kids_setKids, List.cons_append, List.cons.injEq]
        rw [find_mapFirst z y _ (fun m => name_modifyAt _ (by simp [bumpF]) p m)]
        by_cases hy : y = z
        · subst hy
          simp only [↓reduceIte, hc, Option.map_some, Option.bind_some, true_and]
          exact get_modifyAt_bump x id p c h r
        · simp [hy]

theorem isSome_of_map_st {a b : Option Node} (h : a.map st = b.map st) : a.isSome = b.isSome := by
  cases a <;> cases b <;> simp_all

/-! ## the counters at a path -/

def callsN (root : Node) (q : Path) : Nat := ((root.get q).map Node.calls).getD 0
def timeN (root : Node) (q : Path) : Nat := ((root.get q).map Node.time).getD 0

theorem callsN_of_st {a b : Node} {q : Path} (h : (a.get q).map st = (b.get q).map st) :
    callsN a q = callsN b q ∧ timeN a q = timeN b q := by
  unfold callsN timeN
  cases ha : a.get q <;> cases hb : b.get q <;> simp_all [st]

/-- all task pointers point into the trie -/
def Valid (g : G) : Prop := ∀ t, (g.root.get (g.cur t)).isSome

theorem valid_init (rn : Name) : Valid (G.init rn) := by
  intro t; simp [G.init, Node.get]

theorem gEntry_spec (g : G) (hv : Valid g) (tid : Nat) (x : Name) :
    Valid (gEntry g tid x) ∧ ∀ q,
      callsN (gEntry g tid x).root q = callsN g.root q + (if q = g.cur tid ++ [x] then 1 else 0) ∧
      timeN (gEntry g tid x).root q = timeN g.root q := by
  have key := get_modifyAt_bump x g.nextId (g.cur tid) g.root (hv tid)
  have hroot : (gEntry g tid x).root = g.root.modifyAt (g.cur tid) (bumpF x g.nextId) := rfl
  have hcur : (gEntry g tid x).cur = setFn g.cur tid (g.cur tid ++ [x]) := rfl
  constructor
  · intro t
    rw [hroot, hcur]
    simp only [setFn]
    by_cases ht : t = tid
    · simp only [ht, ↓reduceIte]
      have k := key (g.cur tid ++ [x])
      simp only [↓reduceIte] at k
      cases hh : (g.root.modifyAt (g.cur tid) (bumpF x g.nextId)).get (g.cur tid ++ [x]) with
      | none => simp [hh] at k
      | some _ => rfl
    · simp only [ht, ↓reduceIte]
      have k := key (g.cur t)
      by_cases he : g.cur t = g.cur tid ++ [x]
      · simp only [he, ↓reduceIte] at k
        rw [he]
        cases hh : (g.root.modifyAt (g.cur tid) (bumpF x g.nextId)).get (g.cur tid ++ [x]) with
        | none => simp [hh] at k
        | some _ => rfl
      · simp only [he, ↓reduceIte] at k
        rw [isSome_of_map_st k]; exact hv t
  · intro q
    have k := key q
    rw [hroot]
    simp only [callsN, timeN]
    by_cases hq : q = g.cur tid ++ [x]
    · simp only [hq, ↓reduceIte] at k ⊢
      cases hh : (g.root.modifyAt (g.cur tid) (bumpF x g.nextId)).get (g.cur tid ++ [x]) <;>
        cases ho : g.root.get (g.cur tid ++ [x]) <;> simp_all [st]
    · simp only [hq, ↓reduceIte] at k ⊢
      cases hh : (g.root.modifyAt (g.cur tid) (bumpF x g.nextId)).get q <;>
        cases ho : g.root.get q <;> simp_all [st]

theorem gExit_spec (sample : Option Nat) (g : G) (hv : Valid g) (tid total child : Nat) :
    Valid (gExit sample g tid total child) ∧ ∀ q,
      callsN (gExit sample g tid total child).root q = callsN g.root q ∧
      timeN (gExit sample g tid total child).root q =
        timeN g.root q + (if q = g.cur tid then total else 0) := by
  have k1 := get_modifyAt_stat (Node.addTime total child) (by simp) (by simp) (g.cur tid) g.root
  -- the counters after the first update
  have h1 : ∀ q, callsN (g.root.modifyAt (g.cur tid) (Node.addTime total child)) q = callsN g.root q ∧
      timeN (g.root.modifyAt (g.cur tid) (Node.addTime total child)) q =
        timeN g.root q + (if q = g.cur tid then total else 0) := by
    intro q
    have k := k1 q
    have hs := hv tid
    simp only [callsN, timeN]
    by_cases hq : q = g.cur tid
    · subst hq
      simp only [↓reduceIte] at k ⊢
      cases hh : (g.root.modifyAt (g.cur tid) (Node.addTime total child)).get (g.cur tid) <;>
        cases ho : g.root.get (g.cur tid) <;> simp_all [st]
    · simp only [hq, ↓reduceIte] at k ⊢
      cases hh : (g.root.modifyAt (g.cur tid) (Node.addTime total child)).get q <;>
        cases ho : g.root.get q <;> simp_all [st]
  have s1 : ∀ q, ((g.root.modifyAt (g.cur tid) (Node.addTime total child)).get q).isSome = (g.root.get q).isSome := by
    intro q
    have k := k1 q
    by_cases hq : q = g.cur tid
    · subst hq
      simp only [↓reduceIte] at k
      cases hh : (g.root.modifyAt (g.cur tid) (Node.addTime total child)).get (g.cur tid) <;>
        cases ho : g.root.get (g.cur tid) <;> simp_all
    · simp only [hq, ↓reduceIte] at k
      exact isSome_of_map_st k
  -- the optional second update (adjust_fg_time) touches child_time only
  have h2 : ∀ (r1 : Node) (p : Path) (d : Int) (q : Path),
      (callsN (r1.modifyAt p (Node.addChild d)) q = callsN r1 q ∧ timeN (r1.modifyAt p (Node.addChild d)) q = timeN r1 q) ∧
      ((r1.modifyAt p (Node.addChild d)).get q).isSome = (r1.get q).isSome := by
    intro r1 p d q
    have k := get_modifyAt_stat (Node.addChild d) (by simp) (by simp) p r1 q
    by_cases hq : q = p
    · subst hq
      simp only [↓reduceIte] at k
      simp only [callsN, timeN]
      cases hh : (r1.modifyAt q (Node.addChild d)).get q <;> cases ho : r1.get q <;> simp_all [st]
    · simp only [hq, ↓reduceIte] at k
      exact ⟨callsN_of_st k, isSome_of_map_st k⟩
  have hroot : ∀ q, (callsN (gExit sample g tid total child).root q = callsN g.root q ∧
      timeN (gExit sample g tid total child).root q = timeN g.root q + (if q = g.cur tid then total else 0)) ∧
      ((gExit sample g tid total child).root.get q).isSome = (g.root.get q).isSome := by
    intro q
    simp only [gExit]
    cases sample with
    | none => exact ⟨h1 q, s1 q⟩
    | some stv =>
      simp only []
      split
      · exact ⟨h1 q, s1 q⟩
      · have a := h2 (g.root.modifyAt (g.cur tid) (Node.addTime total child)) (g.cur tid).dropLast
          (((total / stv * stv : Nat) : Int) - (total : Int)) q
        refine ⟨⟨a.1.1.trans (h1 q).1, a.1.2.trans (h1 q).2⟩, a.2.trans (s1 q)⟩
  constructor
  · intro t
    have := (hroot ((gExit sample g tid total child).cur t)).2
    rw [this]
    simp only [gExit, setFn]
    by_cases ht : t = tid
    · simp only [ht, ↓reduceIte]; exact has_dropLast (hv tid)
    · simp only [ht, ↓reduceIte]; exact hv t
  · intro q; exact (hroot q).1

/-! ## the whole record sequence -/

theorem callsAt_cons (q p : Path) (o : Out) (a : List (Path × Out)) :
    callsAt q ((p, o) :: a) = (if o.entry = true ∧ p = q then 1 else 0) + callsAt q a := by
  unfold callsAt
  simp only [List.filter_cons]
  by_cases h : o.entry = true ∧ p = q
  · simp [h]; omega
  · have : (o.entry && decide (p = q)) = false := by
      cases ho : o.entry <;> simp_all
    simp [h, this]

theorem timeAt_cons (q p : Path) (o : Out) (a : List (Path × Out)) :
    timeAt q ((p, o) :: a) = (if o.entry = false ∧ p = q then o.total else 0) + timeAt q a := by
  unfold timeAt
  simp only [List.filter_cons]
  by_cases h : o.entry = false ∧ p = q
  · simp [h]
  · have : (!o.entry && decide (p = q)) = false := by
      cases ho : o.entry <;> simp_all
    simp [h, this]

theorem build_counts (sample : Option Nat) : ∀ (os : List Out) (g : G), Valid g →
    Valid (build sample g os) ∧ ∀ q,
      callsN (build sample g os).root q = callsN g.root q + callsAt q (annot g.cur os) ∧
      timeN (build sample g os).root q = timeN g.root q + timeAt q (annot g.cur os)
  | [], g, hv => by simp [build, annot, callsAt, timeAt, hv]
  | o :: os, g, hv => by
    have hb : build sample g (o :: os) = build sample (gStep sample g o) os := rfl
    rw [hb]
    by_cases he : o.entry = true
    · have hs : gStep sample g o = gEntry g o.tid o.name := by simp [gStep, he]
      obtain ⟨hv', hc⟩ := gEntry_spec g hv o.tid o.name
      have hcur : (gEntry g o.tid o.name).cur = setFn g.cur o.tid (g.cur o.tid ++ [o.name]) := rfl
      obtain ⟨hv2, ih⟩ := build_counts sample os (gEntry g o.tid o.name) hv'
      rw [hs]
      refine ⟨hv2, fun q => ?_⟩
      have ha : annot g.cur (o :: os) =
          (g.cur o.tid ++ [o.name], o) :: annot (setFn g.cur o.tid (g.cur o.tid ++ [o.name])) os := by
        simp [annot, he]
      rw [ha, callsAt_cons, timeAt_cons, (ih q).1, (ih q).2, (hc q).1, (hc q).2, hcur]
      have e1 : (g.cur o.tid ++ [o.name] = q) = (q = g.cur o.tid ++ [o.name]) := propext eq_comm
      simp only [he, true_and, e1, Bool.true_eq_false, false_and, ↓reduceIte]
      omega
    · have he' : o.entry = false := by simpa using he
      have hs : gStep sample g o = gExit sample g o.tid o.total o.child := by simp [gStep, he']
      obtain ⟨hv', hc⟩ := gExit_spec sample g hv o.tid o.total o.child
      have hcur : (gExit sample g o.tid o.total o.child).cur = setFn g.cur o.tid (g.cur o.tid).dropLast := by
        simp [gExit]
      obtain ⟨hv2, ih⟩ := build_counts sample os (gExit sample g o.tid o.total o.child) hv'
      rw [hs]
      refine ⟨hv2, fun q => ?_⟩
      have ha : annot g.cur (o :: os) =
          (g.cur o.tid, o) :: annot (setFn g.cur o.tid (g.cur o.tid).dropLast) os := by
        simp [annot, he']
      rw [ha, callsAt_cons, timeAt_cons, (ih q).1, (ih q).2, (hc q).1, (hc q).2, hcur]
      have e1 : (g.cur o.tid = q) = (q = g.cur o.tid) := propext eq_comm
      simp only [he', Bool.false_eq_true, false_and, true_and, e1, ↓reduceIte]
      omega

/-! ## call trees (one task): what the records of a tree of closed calls aggregate to -/

mutual
  inductive Call where
    | node (name : Name) (t0 t1 : Nat) (kids : Calls)
  inductive Calls where
    | nil
    | cons (c : Call) (rest : Calls)
end

def Call.dur : Call → Nat
  | .node _ t0 t1 _ => t1 - t0

def Calls.durSum : Calls → Nat
  | .nil => 0
  | .cons c rest => c.dur + rest.durSum

mutual
  /-- the records libmcount writes for the call (entry, callees, exit) -/
  def Call.recs (tid : Nat) : Call → List Rec
    | .node x t0 t1 kids => ⟨tid, true, x, t0⟩ :: (Calls.recs tid kids ++ [⟨tid, false, x, t1⟩])
  def Calls.recs (tid : Nat) : Calls → List Rec
    | .nil => []
    | .cons c rest => Call.recs tid c ++ Calls.recs tid rest
end

mutual
  /-- what the dump callbacks are expected to see -/
  def Call.outs (tid : Nat) : Call → List Out
    | .node x t0 t1 kids =>
      ⟨tid, true, x, t0, 0, 0⟩ ::
        (Calls.outs tid kids ++ [⟨tid, false, x, t1, t1 - t0, min (0 + kids.durSum) (t1 - t0)⟩])
  def Calls.outs (tid : Nat) : Calls → List Out
    | .nil => []
    | .cons c rest => Call.outs tid c ++ Calls.outs tid rest
end

mutual
  /-- number of calls of the tree (placed below the call path `P`) whose call path is `q` -/
  def Call.countAt (P q : Path) : Call → Nat
    | .node x _ _ kids => (if P ++ [x] = q then 1 else 0) + Calls.countAt (P ++ [x]) q kids
  def Calls.countAt (P q : Path) : Calls → Nat
    | .nil => 0
    | .cons c rest => Call.countAt P q c + Calls.countAt P q rest
end

mutual
  /-- sum of the durations of the calls whose call path is `q` -/
  def Call.durAt (P q : Path) : Call → Nat
    | .node x t0 t1 kids => (if P ++ [x] = q then t1 - t0 else 0) + Calls.durAt (P ++ [x]) q kids
  def Calls.durAt (P q : Path) : Calls → Nat
    | .nil => 0
    | .cons c rest => Call.durAt P q c + Calls.durAt P q rest
end

theorem setFn_same {α : Type} (f : Nat → α) (k : Nat) (v : α) : setFn f k v k = v := by simp [setFn]

theorem setFn_setFn {α : Type} (f : Nat → α) (k : Nat) (a b : α) : setFn (setFn f k a) k b = setFn f k b := by
  funext x; simp only [setFn]; split <;> rfl

theorem setFn_id {α : Type} (f : Nat → α) (k : Nat) : setFn f k (f k) = f := by
  funext x; simp only [setFn]; split
  · rename_i h; rw [h]
  · rfl

theorem addChildTop_zero (S : List Frame) : addChildTop 0 S = S := by
  cases S <;> simp [addChildTop]

theorem addChildTop_add (a b : Nat) (S : List Frame) :
    addChildTop b (addChildTop a S) = addChildTop (a + b) S := by
  cases S with
  | nil => rfl
  | cons f r => simp [addChildTop, Nat.add_assoc]

theorem replay_append (s : RS) (a b : List Rec) :
    replay s (a ++ b) = ((replay (replay s a).1 b).1, (replay s a).2 ++ (replay (replay s a).1 b).2) := by
  induction a generalizing s with
  | nil => simp [replay]
  | cons r rs ih => simp [replay, ih]

mutual
  theorem Call.replay_eq (tid : Nat) : ∀ (c : Call) (s : RS), ∃ l,
      replay s (c.recs tid) =
        (⟨setFn s.stacks tid (addChildTop c.dur (s.stacks tid)), l⟩, c.outs tid)
    | .node x t0 t1 kids, s => by
      obtain ⟨l, hk⟩ := Calls.replay_eq tid kids
        ⟨setFn s.stacks tid (⟨x, t0, 0⟩ :: s.stacks tid), setFn s.last tid t0⟩
      refine ⟨setFn l tid t1, ?_⟩
      simp only [Call.recs, Call.outs, replay, stepRec, ↓reduceIte, replay_append, hk, setFn_same,
        addChildTop, Bool.false_eq_true, setFn_setFn, Call.dur, List.append_nil]
  theorem Calls.replay_eq (tid : Nat) : ∀ (cs : Calls) (s : RS), ∃ l,
      replay s (cs.recs tid) =
        (⟨setFn s.stacks tid (addChildTop cs.durSum (s.stacks tid)), l⟩, cs.outs tid)
    | .nil, s => ⟨s.last, by simp [Calls.recs, Calls.outs, replay, Calls.durSum, addChildTop_zero, setFn_id]⟩
    | .cons c rest, s => by
      obtain ⟨l1, h1⟩ := Call.replay_eq tid c s
      obtain ⟨l2, h2⟩ := Calls.replay_eq tid rest
        ⟨setFn s.stacks tid (addChildTop c.dur (s.stacks tid)), l1⟩
      refine ⟨l2, ?_⟩
      simp only [Calls.recs, Calls.outs, replay_append, h1, h2, setFn_same, setFn_setFn,
        addChildTop_add, Calls.durSum]
end

/-- a tree of closed calls leaves nothing for the "remaining functions" loop -/
theorem outs_calls (tid : Nat) (cs : Calls) : outs [tid] (cs.recs tid) = cs.outs tid := by
  obtain ⟨l, h⟩ := Calls.replay_eq tid cs RS.init
  simp only [outs]
  rw [h]
  simp [tails, RS.init, setFn_same, addChildTop, tailTask]

theorem setFn_back (cur : Nat → Path) (tid : Nat) (x : Name) :
    setFn (setFn cur tid (cur tid ++ [x])) tid (cur tid ++ [x]).dropLast = cur := by
  rw [setFn_setFn]
  simp [setFn_id]

mutual
  theorem Call.annot_counts (tid : Nat) (q : Path) : ∀ (c : Call) (cur : Nat → Path) (rest : List Out),
      callsAt q (annot cur (c.outs tid ++ rest)) = c.countAt (cur tid) q + callsAt q (annot cur rest) ∧
      timeAt q (annot cur (c.outs tid ++ rest)) = c.durAt (cur tid) q + timeAt q (annot cur rest)
    | .node x t0 t1 kids, cur, rest => by
      have ih := Calls.annot_counts tid q kids (setFn cur tid (cur tid ++ [x]))
        (⟨tid, false, x, t1, t1 - t0, min (0 + kids.durSum) (t1 - t0)⟩ :: rest)
      simp only [setFn_same] at ih
      simp only [Call.outs, List.cons_append, List.append_assoc, List.nil_append, annot, ↓reduceIte, callsAt_cons,
        timeAt_cons, Call.countAt, Call.durAt, ih.1, ih.2, setFn_same, Bool.false_eq_true, setFn_back]
      simp only [true_and, false_and, ↓reduceIte, Bool.true_eq_false]
      constructor <;> omega
  theorem Calls.annot_counts (tid : Nat) (q : Path) : ∀ (cs : Calls) (cur : Nat → Path) (rest : List Out),
      callsAt q (annot cur (cs.outs tid ++ rest)) = cs.countAt (cur tid) q + callsAt q (annot cur rest) ∧
      timeAt q (annot cur (cs.outs tid ++ rest)) = cs.durAt (cur tid) q + timeAt q (annot cur rest)
    | .nil, cur, rest => by simp [Calls.outs, Calls.countAt, Calls.durAt]
    | .cons c cs, cur, rest => by
      have h1 := Call.annot_counts tid q c cur (cs.outs tid ++ rest)
      have h2 := Calls.annot_counts tid q cs cur rest
      simp only [Calls.outs, List.append_assoc, h1.1, h1.2, h2.1, h2.2, Calls.countAt, Calls.durAt]
      constructor <;> omega
end

/-! ## sibling names are distinct, and what the pre-order walk visits -/

mutual
  def Node.uniq : Node → Prop
    | .mk _ _ _ _ _ kids => Nodes.uniq kids
  def Nodes.uniq : Nodes → Prop
    | .nil => True
    | .cons n rest => Node.uniq n ∧ rest.find n.name = none ∧ Nodes.uniq rest
end

theorem Node.uniq_iff (n : Node) : n.uniq ↔ n.kids.uniq := by cases n; simp [Node.uniq]

theorem uniq_bump (x : Name) (id : Nat) : ∀ kids : Nodes, kids.uniq → (kids.bump x id).uniq
  | .nil, _ => by simp [Nodes.bump, Nodes.uniq, Node.fresh, Node.uniq, Nodes.find]
  | .cons n rest, h => by
    obtain ⟨h1, h2, h3⟩ := h
    simp only [Nodes.bump]
    split
    · refine ⟨?_, by simpa using h2, h3⟩
      rw [Node.uniq_iff] at h1 ⊢; simpa using h1
    · rename_i hn
      refine ⟨h1, ?_, uniq_bump x id rest h3⟩
      rw [find_bump]; simp [hn, h2]

theorem uniq_mapFirst (x : Name) (g : Node → Node) (hg : ∀ m, (g m).name = m.name)
    (hu : ∀ m, m.uniq → (g m).uniq) : ∀ kids : Nodes, kids.uniq → (kids.mapFirst x g).uniq
  | .nil, _ => by simp [Nodes.mapFirst, Nodes.uniq]
  | .cons n rest, h => by
    obtain ⟨h1, h2, h3⟩ := h
    simp only [Nodes.mapFirst]
    split
    · exact ⟨hu n h1, by simpa [hg] using h2, h3⟩
    · rename_i hn
      refine ⟨h1, ?_, uniq_mapFirst x g hg hu rest h3⟩
      rw [find_mapFirst x _ g hg]; simp [hn, h2]

theorem uniq_modifyAt (f : Node → Node) (hf : ∀ m, (f m).name = m.name) (hu : ∀ m, m.uniq → (f m).uniq) :
    ∀ (p : Path) (n : Node), n.uniq → (n.modifyAt p f).uniq
  | [], n, h => by simpa [Node.modifyAt] using hu n h
  | x :: p, n, h => by
    simp only [Node.modifyAt]
    rw [Node.uniq_iff] at h ⊢
    simp only [Node.kids_setKids]
    exact uniq_mapFirst x _ (fun m => name_modifyAt f hf p m) (fun m hm => uniq_modifyAt f hf hu p m hm) _ h

theorem uniq_gStep (sample : Option Nat) (g : G) (o : Out) (h : g.root.uniq) : (gStep sample g o).root.uniq := by
  have hb : ∀ x id (m : Node), m.uniq → (bumpF x id m).uniq := by
    intro x id m hm
    rw [Node.uniq_iff] at hm ⊢
    simpa [bumpF] using uniq_bump x id _ hm
  have ht : ∀ a b (m : Node), m.uniq → (m.addTime a b).uniq := by
    intro a b m hm; rw [Node.uniq_iff] at hm ⊢; simpa using hm
  have hc : ∀ d (m : Node), m.uniq → (m.addChild d).uniq := by
    intro d m hm; rw [Node.uniq_iff] at hm ⊢; simpa using hm
  unfold gStep
  split
  · exact uniq_modifyAt (bumpF o.name g.nextId) (by simp [bumpF]) (hb _ _) _ _ h
  · have h1 := uniq_modifyAt (Node.addTime o.total o.child) (by simp) (ht _ _) (g.cur o.tid) _ h
    simp only [gExit]
    cases sample with
    | none => exact h1
    | some stv =>
      simp only []
      split
      · exact h1
      · exact uniq_modifyAt _ (by simp) (hc _) _ _ h1

theorem uniq_build (sample : Option Nat) : ∀ (os : List Out) (g : G), g.root.uniq → (build sample g os).root.uniq
  | [], _, h => h
  | o :: os, g, h => uniq_build sample os (gStep sample g o) (uniq_gStep sample g o h)

theorem uniq_init (rn : Name) : (G.init rn).root.uniq := by simp [G.init, Node.uniq, Nodes.uniq]

/-- the children-list view of `Node.get` -/
def Nodes.getP : Path → Nodes → Option Node
  | [], _ => none
  | y :: r, kids => (kids.find y).bind (Node.get r)

/-- the parent of the node reached by `y :: r` from a children list owned by `par` -/
def Nodes.parentP (par : Node) : Path → Nodes → Option Node
  | [], _ => none
  | [_], _ => some par
  | y :: z :: r, kids => (kids.find y).bind (Node.get (z :: r).dropLast)

theorem dfs_of_find {y : Name} {c : Node} (par : Node) (pre : Path) :
    ∀ {kids : Nodes}, kids.find y = some c → ∀ e, e ∈ Node.dfs par pre c → e ∈ Nodes.dfs par pre kids
  | .nil, h, _, _ => by simp [Nodes.find] at h
  | .cons n rest, h, e, he => by
    simp only [Nodes.find] at h
    simp only [Nodes.dfs, List.mem_append]
    split at h
    · simp at h; subst h; exact Or.inl he
    · exact Or.inr (dfs_of_find par pre h e he)

/-- completeness: every node below the root is visited, at its path -/
theorem dfs_complete : ∀ (r : Path) (n m : Node) (par : Node) (pre : Path), n.get r = some m →
    ∃ par', (par', pre ++ n.name :: r, m) ∈ Node.dfs par pre n
  | [], n, m, par, pre, h => by
    simp [Node.get] at h; subst h
    cases n with
    | mk a b c d e f => exact ⟨par, by simp [Node.dfs]⟩
  | y :: r, n, m, par, pre, h => by
    rw [get_cons] at h
    cases hc : n.kids.find y with
    | none => simp [hc] at h
    | some c =>
      simp only [hc, Option.bind_some] at h
      obtain ⟨par', hp⟩ := dfs_complete r c m n (pre ++ [n.name]) h
      have hn := find_name hc
      have := dfs_of_find n (pre ++ [n.name]) hc _ hp
      refine ⟨par', ?_⟩
      cases n with
      | mk a b c' d e f =>
        simp only [Node.dfs, List.mem_cons]
        right
        simpa [hn, List.append_assoc] using this

mutual
  /-- soundness: what is visited is the node at that path, with its parent -/
  theorem Node.dfs_sound (par : Node) (pre : Path) : ∀ (n : Node), n.uniq → ∀ e, e ∈ Node.dfs par pre n →
      ∃ r, e.2.1 = pre ++ n.name :: r ∧ n.get r = some e.2.2 ∧
        (if r = [] then some par else n.get r.dropLast) = some e.1
    | .mk x i c t ch kids, hu, e, he => by
      simp only [Node.dfs, List.mem_cons] at he
      rcases he with he | he
      · subst he; exact ⟨[], by simp [Node.get]⟩
      · obtain ⟨y, r, h1, h2, h3⟩ := Nodes.dfs_sound (.mk x i c t ch kids) (pre ++ [x]) kids hu e he
        refine ⟨y :: r, by simpa [List.append_assoc] using h1, by simpa [get_cons, Nodes.getP] using h2, ?_⟩
        simp only [reduceCtorEq, ↓reduceIte]
        cases r with
        | nil => simpa [Nodes.parentP, Node.get] using h3
        | cons z r' => simpa [Nodes.parentP, get_cons] using h3
  theorem Nodes.dfs_sound (par : Node) (pre : Path) : ∀ (kids : Nodes), kids.uniq → ∀ e, e ∈ Nodes.dfs par pre kids →
      ∃ y r, e.2.1 = pre ++ y :: r ∧ kids.getP (y :: r) = some e.2.2 ∧ kids.parentP par (y :: r) = some e.1
    | .nil, _, e, he => by simp [Nodes.dfs] at he
    | .cons n rest, hu, e, he => by
      obtain ⟨h1, h2, h3⟩ := hu
      simp only [Nodes.dfs, List.mem_append] at he
      rcases he with he | he
      · obtain ⟨r, a, b, c⟩ := Node.dfs_sound par pre n h1 e he
        refine ⟨n.name, r, a, by simp [Nodes.getP, Nodes.find, b], ?_⟩
        cases r with
        | nil => simpa [Nodes.parentP] using c
        | cons z r' => simpa [Nodes.parentP, Nodes.find] using c
      · obtain ⟨y, r, a, b, c⟩ := Nodes.dfs_sound par pre rest h3 e he
        have hy : n.name ≠ y := by
          intro e'
          subst e'
          simp [Nodes.getP, h2] at b
        refine ⟨y, r, a, by simpa [Nodes.getP, Nodes.find, hy] using b, ?_⟩
        cases r with
        | nil => simpa [Nodes.parentP] using c
        | cons z r' => simpa [Nodes.parentP, Nodes.find, hy] using c
end

/-- the walk below the root, in terms of `get` -/
theorem walk_sound (root : Node) (hu : root.uniq) : ∀ e, e ∈ walk root →
    e.2.1 ≠ [] ∧ root.get e.2.1 = some e.2.2 ∧ root.get e.2.1.dropLast = some e.1 := by
  intro e he
  rw [Node.uniq_iff] at hu
  obtain ⟨y, r, a, b, c⟩ := Nodes.dfs_sound root [] root.kids hu e he
  simp only [List.nil_append] at a
  refine ⟨by simp [a], by simpa [a, get_cons, Nodes.getP] using b, ?_⟩
  rw [a]
  cases r with
  | nil => simpa [Nodes.parentP, Node.get] using c
  | cons z r' => simpa [Nodes.parentP, get_cons] using c

theorem walk_complete (root : Node) (p : Path) (m : Node) (hp : p ≠ []) (h : root.get p = some m) :
    ∃ par, (par, p, m) ∈ walk root := by
  cases p with
  | nil => exact absurd rfl hp
  | cons y r =>
    rw [get_cons] at h
    cases hc : root.kids.find y with
    | none => simp [hc] at h
    | some c =>
      simp only [hc, Option.bind_some] at h
      obtain ⟨par', hh⟩ := dfs_complete r c m root [] h
      refine ⟨par', ?_⟩
      have := dfs_of_find root [] hc _ hh
      simpa [walk, find_name hc] using this

theorem get_name {n m : Node} : ∀ {p : Path} (hp : p ≠ []), n.get p = some m → m.name = p.getLast hp
  | [y], _, h => by
    rw [get_cons] at h
    cases hc : n.kids.find y with
    | none => simp [hc] at h
    | some c => simp [hc, Node.get] at h; subst h; simpa using find_name hc
  | y :: z :: r, _, h => by
    rw [get_cons] at h
    cases hc : n.kids.find y with
    | none => simp [hc] at h
    | some c =>
      simp only [hc, Option.bind_some] at h
      have := get_name (n := c) (p := z :: r) (by simp) h
      simpa using this

mutual
  /-- every path is visited once -/
  theorem Node.dfs_nodup (par : Node) (pre : Path) : ∀ (n : Node), n.uniq →
      ((Node.dfs par pre n).map (fun e => e.2.1)).Nodup
    | .mk x i c t ch kids, hu => by
      simp only [Node.dfs, List.map_cons, List.nodup_cons, List.mem_map, not_exists, not_and]
      refine ⟨?_, Nodes.dfs_nodup _ _ kids hu⟩
      intro e he hpath
      obtain ⟨y, r, a, _, _⟩ := Nodes.dfs_sound (.mk x i c t ch kids) (pre ++ [x]) kids hu e he
      rw [a] at hpath
      have := congrArg List.length hpath
      simp at this
  theorem Nodes.dfs_nodup (par : Node) (pre : Path) : ∀ (kids : Nodes), kids.uniq →
      ((Nodes.dfs par pre kids).map (fun e => e.2.1)).Nodup
    | .nil, _ => by simp [Nodes.dfs]
    | .cons n rest, hu => by
      obtain ⟨h1, h2, h3⟩ := hu
      simp only [Nodes.dfs, List.map_append, List.nodup_append, List.mem_map]
      refine ⟨Node.dfs_nodup par pre n h1, Nodes.dfs_nodup par pre rest h3, ?_⟩
      rintro p ⟨e, he, rfl⟩ q ⟨e', he', rfl⟩ heq
      obtain ⟨r, a, _, _⟩ := Node.dfs_sound par pre n h1 e he
      obtain ⟨y, r', a', b', _⟩ := Nodes.dfs_sound par pre rest h3 e' he'
      rw [a, a'] at heq
      have h := List.append_cancel_left heq
      simp only [List.cons.injEq] at h
      rw [← h.1] at b'
      simp [Nodes.getP, h2] at b'
end

theorem walk_nodup (root : Node) (hu : root.uniq) : ((walk root).map (fun e => e.2.1)).Nodup := by
  rw [Node.uniq_iff] at hu
  exact Nodes.dfs_nodup root [] root.kids hu

/-! ## begin/end events of one task are balanced and properly nested -/

/-- run a sequence of (is-entry, name) events against a stack of open names -/
def balRun : List Name → List (Bool × Name) → Option (List Name)
  | st, [] => some st
  | st, (true, x) :: es => balRun (x :: st) es
  | [], (false, _) :: _ => none
  | n :: r, (false, x) :: es => if n = x then balRun r es else none

/-- the events the callbacks see for task `t` -/
def evsOf (t : Nat) (os : List Out) : List (Bool × Name) :=
  (os.filter (fun o => o.tid = t)).map (fun o => (o.entry, o.name))

def names (stk : List Frame) : List Name := stk.map (·.name)

/-- well-formed record sequence: per task the time does not go back and every EXIT record
    closes the innermost open call of its task (same function) -/
def WF : RS → List Rec → Prop
  | _, [] => True
  | s, r :: rs =>
    s.last r.tid ≤ r.time ∧
    (r.entry = false → ∃ f rest, s.stacks r.tid = f :: rest ∧ f.name = r.name) ∧
    WF (stepRec s r).1 rs

/-- no open call started after the task's last record -/
def Started (s : RS) : Prop := ∀ t, ∀ f ∈ s.stacks t, f.start ≤ s.last t

theorem balRun_append (st : List Name) (a b : List (Bool × Name)) :
    balRun st (a ++ b) = (balRun st a).bind (fun st' => balRun st' b) := by
  induction a generalizing st with
  | nil => simp [balRun]
  | cons e es ih =>
    obtain ⟨k, x⟩ := e
    cases k with
    | true => simp [balRun, ih]
    | false =>
      cases st with
      | nil => simp [balRun]
      | cons n r =>
        simp only [List.cons_append, balRun]
        split
        · exact ih r
        · simp

theorem evsOf_append (t : Nat) (a b : List Out) : evsOf t (a ++ b) = evsOf t a ++ evsOf t b := by
  simp [evsOf]

theorem names_addChildTop (d : Nat) (S : List Frame) : names (addChildTop d S) = names S := by
  cases S <;> simp [names, addChildTop]

theorem replay_balanced : ∀ (recs : List Rec) (s : RS), WF s recs → Started s →
    Started (replay s recs).1 ∧
    ∀ t, balRun (names (s.stacks t)) (evsOf t (replay s recs).2) = some (names ((replay s recs).1.stacks t))
  | [], s, _, hs => by simp [replay, evsOf, balRun, hs]
  | r :: rs, s, hw, hs => by
    obtain ⟨hmono, hexit, hw'⟩ := hw
    -- one record
    have hstep : Started (stepRec s r).1 ∧ ∀ t,
        balRun (names (s.stacks t)) (evsOf t [(stepRec s r).2]) = some (names ((stepRec s r).1.stacks t)) := by
      by_cases he : r.entry = true
      · simp only [stepRec, he, ↓reduceIte]
        constructor
        · intro t f hf
          simp only [setFn] at hf ⊢
          by_cases ht : t = r.tid
          · simp only [ht, ↓reduceIte, List.mem_cons] at hf ⊢
            rcases hf with hf | hf
            · subst hf; exact Nat.le_refl _
            · exact Nat.le_trans (hs r.tid f hf) hmono
          · simp only [ht, ↓reduceIte] at hf ⊢; exact hs t f hf
        · intro t
          by_cases ht : r.tid = t
          · subst ht; simp [evsOf, balRun, setFn, names]
          · have ht' : ¬ t = r.tid := fun e => ht e.symm
            simp [evsOf, balRun, setFn, ht, ht']
      · have he' : r.entry = false := by simpa using he
        obtain ⟨f, rest, hst, hname⟩ := hexit he'
        simp only [stepRec, he', Bool.false_eq_true, ↓reduceIte, hst]
        constructor
        · intro t g hg
          simp only [setFn] at hg ⊢
          by_cases ht : t = r.tid
          · simp only [ht, ↓reduceIte] at hg ⊢
            have : ∃ g' ∈ rest, g'.start = g.start := by
              cases rest with
              | nil => simp [addChildTop] at hg
              | cons a b =>
                simp only [addChildTop, List.mem_cons] at hg
                rcases hg with hg | hg
                · exact ⟨a, by simp, by rw [hg]⟩
                · exact ⟨g, by simp [hg], rfl⟩
            obtain ⟨g', hg', hs'⟩ := this
            rw [← hs']
            exact Nat.le_trans (hs r.tid g' (by rw [hst]; simp [hg'])) hmono
          · simp only [ht, ↓reduceIte] at hg ⊢; exact hs t g hg
        · intro t
          by_cases ht : r.tid = t
          · subst ht
            have hn := names_addChildTop (r.time - f.start) rest
            simp only [names] at hn
            simp [evsOf, balRun, setFn, hst, names, hname, hn]
          · have ht' : ¬ t = r.tid := fun e => ht e.symm
            simp [evsOf, balRun, setFn, ht, ht']
    obtain ⟨hs1, hb1⟩ := hstep
    obtain ⟨hs2, hb2⟩ := replay_balanced rs (stepRec s r).1 hw' hs1
    refine ⟨by simpa [replay] using hs2, fun t => ?_⟩
    have : (replay s (r :: rs)).2 = [(stepRec s r).2] ++ (replay (stepRec s r).1 rs).2 := by simp [replay]
    rw [this, evsOf_append, balRun_append, hb1 t]
    simpa [replay] using hb2 t

theorem tailTask_tid (t last : Nat) : ∀ (stk : List Frame) (carry : Nat), ∀ o ∈ tailTask t last carry stk, o.tid = t
  | [], _, o, h => by simp [tailTask] at h
  | f :: rest, carry, o, h => by
    simp only [tailTask] at h
    split at h
    · exact tailTask_tid t last rest 0 o h
    · simp only [List.mem_cons] at h
      rcases h with h | h
      · subst h; rfl
      · exact tailTask_tid t last rest _ o h

theorem tailTask_balanced (t last : Nat) : ∀ (stk : List Frame) (carry : Nat), (∀ f ∈ stk, f.start ≤ last) →
    balRun (names stk) (evsOf t (tailTask t last carry stk)) = some []
  | [], _, _ => by simp [tailTask, evsOf, balRun, names]
  | f :: rest, carry, h => by
    have hf : ¬ last < f.start := Nat.not_lt.mpr (h f (by simp))
    have ih := tailTask_balanced t last rest (max (last - f.start) (f.child + carry)) (fun g hg => h g (by simp [hg]))
    simp only [tailTask, hf, ↓reduceIte]
    simp only [evsOf, List.filter_cons, ↓reduceIte, decide_true, List.map_cons, names, balRun] at ih ⊢
    exact ih

theorem evsOf_other {t t' : Nat} (h : t' ≠ t) {os : List Out} (ho : ∀ o ∈ os, o.tid = t') : evsOf t os = [] := by
  simp only [evsOf, List.map_eq_nil_iff, List.filter_eq_nil_iff, decide_eq_true_eq]
  intro o hm e
  exact h ((ho o hm).symm.trans e)

theorem tails_balanced : ∀ (tids : List Nat) (s : RS), Started s → ∀ t,
    balRun (names (s.stacks t)) (evsOf t (tails s tids)) =
      some (if t ∈ tids then [] else names (s.stacks t))
  | [], s, _, t => by simp [tails, evsOf, balRun]
  | t' :: ts, s, hs, t => by
    have hs' : Started { s with stacks := setFn s.stacks t' [] } := by
      intro u f hf
      simp only [setFn] at hf
      split at hf
      · simp at hf
      · exact hs u f hf
    have ih := tails_balanced ts { s with stacks := setFn s.stacks t' [] } hs' t
    simp only [tails, evsOf_append, balRun_append]
    by_cases ht : t' = t
    · subst ht
      rw [tailTask_balanced t' (s.last t') (s.stacks t') 0 (hs t')]
      simp only [setFn_same, names, List.map_nil] at ih
      simp only [Option.bind_some, ih]
      simp
    · rw [evsOf_other ht (tailTask_tid t' (s.last t') (s.stacks t') 0)]
      have hne : ¬ t = t' := fun e => ht e.symm
      simp only [balRun, Option.bind_some]
      simp only [setFn, hne, ↓reduceIte] at ih
      rw [ih]
      simp [hne]

/-- the callbacks see every record, in order, with its own time stamp -/
theorem replay_faithful : ∀ (recs : List Rec) (s : RS),
    (replay s recs).2.map (fun o => (⟨o.tid, o.entry, o.name, o.time⟩ : Rec)) = recs
  | [], _ => rfl
  | r :: rs, s => by
    have := replay_faithful rs (stepRec s r).1
    simp only [replay, List.map_cons, this, List.cons.injEq, and_true]
    unfold stepRec
    split
    · rename_i h; cases r; simp_all
    · rename_i h
      split <;> (cases r; simp_all)

/-! ## the printers as lists of entries -/

/-- the lines of `dump --flame-graph`: (call path, printed number) -/
def flameEntries (st : Nat) (root : Node) : List (Path × Nat) :=
  ((walk root).filter (fun e => sampleOf st e.2.2 ≠ 0)).map (fun e => (e.2.1, sampleOf st e.2.2))

theorem flameText_eq (fixed : Bool) (st : Nat) (root : Node) :
    flameText fixed st root = (flameEntries st root).flatMap (fun x => flameLine fixed x.1 x.2) := by
  unfold flameText flameEntries
  induction walk root with
  | nil => rfl
  | cons e es ih =>
    obtain ⟨a, b, c⟩ := e
    by_cases h : sampleOf st c = 0
    · simp [List.filter_cons, h, ih]
    · simp [List.filter_cons, h, ih]

/-- the edges of `dump --graphviz`: (parent name, name, label) -/
def gvEdges (root : Node) : List (Name × Name × Nat) :=
  ((walk root).filter (fun e => e.2.2.calls ≠ 0)).map (fun e => (e.1.name, e.2.2.name, e.2.2.calls))

theorem graphvizText_eq (version : List Nat) (cmdline : Option (List Nat)) (root : Node) :
    ((walk root).flatMap fun (e : Node × Path × Node) =>
        if e.2.2.calls = 0 then [] else graphvizLine e.1.name e.2.2.name e.2.2.calls) =
      (gvEdges root).flatMap (fun x => graphvizLine x.1 x.2.1 x.2.2) := by
  unfold gvEdges
  induction walk root with
  | nil => rfl
  | cons e es ih =>
    obtain ⟨a, b, c⟩ := e
    by_cases h : c.calls = 0
    · simp [List.filter_cons, h, ih]
    · simp [List.filter_cons, h, ih]

theorem name_gStep (sample : Option Nat) (g : G) (o : Out) : (gStep sample g o).root.name = g.root.name := by
  unfold gStep
  split
  · exact name_modifyAt _ (by simp) _ _
  · simp only [gExit]
    have h1 : ∀ (p : Path) (n : Node), (n.modifyAt p (Node.addTime o.total o.child)).name = n.name :=
      name_modifyAt _ (by simp)
    cases sample with
    | none => exact h1 _ _
    | some stv =>
      simp only []
      split
      · exact h1 _ _
      · rw [name_modifyAt _ (by simp)]; exact h1 _ _

theorem name_build (sample : Option Nat) : ∀ (os : List Out) (g : G), (build sample g os).root.name = g.root.name
  | [], _ => rfl
  | o :: os, g => (name_build sample os (gStep sample g o)).trans (name_gStep sample g o)

/-! ## print_time_unit -/

/-- the loop of `print_time_unit` written out: which unit is chosen and what the two numbers are.
    `hm` = 60 (repaired) or 24 (as it is) "minutes per hour". -/
theorem tuLoop_cases (hm ns : Nat) :
    tuLoop [1000, 1000, 1000, 60, hm] 0 ns =
      if ns / 1000 < 1000 then (ns / 1000, ns % 1000, 0)
      else if ns / 1000 / 1000 < 1000 then (ns / 1000 / 1000, ns / 1000 % 1000, 1)
      else if ns / 1000 / 1000 / 1000 < 60 then (ns / 1000 / 1000 / 1000, ns / 1000 / 1000 % 1000, 2)
      else if ns / 1000 / 1000 / 1000 / 60 < hm then
        (ns / 1000 / 1000 / 1000 / 60, ns / 1000 / 1000 / 1000 % 60, 3)
      else (ns / 1000 / 1000 / 1000 / 60 / hm, ns / 1000 / 1000 / 1000 / 60 % hm, 4) := by
  simp only [tuLoop]

/-- the repaired table: the printed pair denotes the time rounded down to the three-digit step of
    its unit (ns for us, us for ms, ms for s, seconds for m, minutes for h), for every time below
    1000 hours -/
theorem timeUnit_fixed_exact (ns : Nat) (hlt : ns < 3600000000000000) :
    let r := timeUnit true ns
    r.2.2 ≤ 4 ∧ r.2.1 * subNs r.2.2 < unitNs r.2.2 ∧
    r.1 * unitNs r.2.2 + r.2.1 * subNs r.2.2 ≤ ns ∧ ns < r.1 * unitNs r.2.2 + (r.2.1 + 1) * subNs r.2.2 := by
  simp only [timeUnit, tuLimits, ↓reduceIte, tuLoop_cases]
  split
  · rename_i h
    have : ¬ 999 < ns / 1000 := by omega
    simp only [this, ↓reduceIte, unitNs, subNs]; omega
  · rename_i h
    split
    · rename_i h2
      have : ¬ 999 < ns / 1000 / 1000 := by omega
      simp only [this, ↓reduceIte, unitNs, subNs]; omega
    · rename_i h2
      split
      · rename_i h3
        have : ¬ 999 < ns / 1000 / 1000 / 1000 := by omega
        simp only [this, ↓reduceIte, unitNs, subNs]; omega
      · rename_i h3
        split
        · rename_i h4
          have : ¬ 999 < ns / 1000 / 1000 / 1000 / 60 := by omega
          simp only [this, ↓reduceIte, unitNs, subNs]; omega
        · rename_i h4
          have : ¬ 999 < ns / 1000 / 1000 / 1000 / 60 / 60 := by omega
          simp only [this, ↓reduceIte, unitNs, subNs]; omega

/-- below 24 minutes the table as it is prints the same as the repaired one -/
theorem timeUnit_prefix_small (ns : Nat) (h : ns < 1440000000000) :
    timeUnit false ns = timeUnit true ns := by
  simp only [timeUnit, tuLimits, ↓reduceIte, tuLoop_cases, Bool.false_eq_true]
  have h4 : ns / 1000 / 1000 / 1000 / 60 < 24 := by omega
  have h4' : ns / 1000 / 1000 / 1000 / 60 < 60 := by omega
  simp only [h4, h4', ↓reduceIte]

end Uft.Graph
