import Uft.Lemmas.Mcount
/- lemmas for c02_overflow_drop: the eager view `out ++ pending` is invariant under the
   lazy flushes, also across --max-stack overflow -/
set_option linter.unusedSimpArgs false
namespace Uft.Mcount

mutual
  /-- eager trace of a call at depth `d` when only `b` more levels fit on the shadow stack -/
  def evCallB (d b : Nat) : Call → List Rec
    | .node f t0 t1 kids =>
      if b = 0 then [] else
      [{ time := t0, type := 0, depth := d, addr := f }] ++ evCallsB (d + 1) (b - 1) kids ++
      [{ time := t1, type := 1, depth := d, addr := f }]
  def evCallsB (d b : Nat) : Calls → List Rec
    | .nil => []
    | .cons c rest => evCallB d b c ++ evCallsB d b rest
end

theorem evCallsB_zero : ∀ (d : Nat) (cs : Calls), evCallsB d 0 cs = []
  | _, .nil => rfl
  | d, .cons (.node _ _ _ _) rest => by simp [evCallsB, evCallB, evCallsB_zero d rest]

/-- what has been written plus what is still owed -/
def eager (s : St) : List Rec := s.out ++ pending s.frames

def eraseW (f : Frame) : Frame := { f with written := false }

/-- every written frame has only written frames below it -/
def WClosed : List Frame → Prop
  | [] => True
  | f :: r => (f.written = true → pending r = []) ∧ WClosed r

theorem pending_nil_iff_markTo (fs : List Frame) : pending fs = [] ↔ markTo fs = fs := by
  cases fs with
  | nil => simp [pending, markTo]
  | cons f r =>
    by_cases h : f.written = true
    · simp [pending, markTo, h]
    · have h' : f.written = false := by simpa using h
      simp [pending, markTo, h', markW]
      intro hc
      have := congrArg Frame.written hc
      simp [h'] at this

theorem WClosed_markTo : ∀ (fs : List Frame), WClosed fs → WClosed (markTo fs)
  | [], _ => trivial
  | f :: r, h => by
    simp only [markTo]
    split
    · exact h
    · exact ⟨fun _ => pending_markTo r, WClosed_markTo r h.2⟩

theorem markTo_eraseW (fs : List Frame) : (markTo fs).map eraseW = fs.map eraseW := by
  induction fs with
  | nil => rfl
  | cons f r ih =>
    simp only [markTo]
    split
    · rfl
    · simp [ih, eraseW, markW]

/-- the state between hooks at depth `d`, with the flush bookkeeping -/
structure GoodW (s : St) (d : Nat) : Prop where
  good : Good s d
  closed : WClosed s.frames
  warn : s.warned = true → pending s.frames = []
  open_ : ∀ f ∈ s.frames, f.endT = 0

theorem eraseW_head {F : Frame} {fs gs : List Frame} (h : (F :: fs).map eraseW = gs.map eraseW) :
    ∃ G gs', gs = G :: gs' ∧ G = { F with written := G.written } ∧ fs.map eraseW = gs'.map eraseW := by
  cases gs with
  | nil => simp at h
  | cons G gs' =>
    simp only [List.map_cons, List.cons.injEq] at h
    refine ⟨G, gs', rfl, ?_, h.2⟩
    have := h.1
    cases F; cases G
    simp [eraseW] at this ⊢
    simp [this]

theorem recordTrace_open (fs : List Frame) (hn : NoSkip fs) (ho : ∀ f ∈ fs, f.endT = 0) :
    recordTrace fs = (markTo fs, pending fs) := by
  cases fs with
  | nil => rfl
  | cons top rest =>
    have ht := hn top (by simp)
    have hr : NoSkip rest := fun g hg => hn g (by simp [hg])
    have he : top.endT = 0 := ho top (by simp)
    have hfb := flushBelow_noskip rest hr
    by_cases hw : top.written = true
    · simp [recordTrace, hw, he, markTo, pending]
    · have hw' : top.written = false := by simpa using hw
      simp [recordTrace, hw', he, markTo, pending, hfb, Frame.skip, ht.1, ht.2, markW]

theorem markTo_noskip' (fs : List Frame) (h : NoSkip fs) : NoSkip (markTo fs) := markTo_noskip fs h

theorem markTo_open (fs : List Frame) (ho : ∀ f ∈ fs, f.endT = 0) : ∀ f ∈ markTo fs, f.endT = 0 := by
  induction fs with
  | nil => intro f hf; simp [markTo] at hf
  | cons f r ih =>
    simp only [markTo]
    split
    · exact ho
    · intro g hg
      simp only [List.mem_cons] at hg
      rcases hg with rfl | hg
      · simpa [markW] using ho f (by simp)
      · exact ih (fun x hx => ho x (by simp [hx])) g hg

/-- a call beyond --max-stack on the -pg path: not taken, nothing lost from the eager view -/
theorem entry_overflow (cfg : Cfg) (s : St) (d f t0 : Nat) (hg : GoodW s d) (hm : cfg.maxStack ≤ d) :
    (entry cfg .pg s f t0).2 = false ∧ eager (entry cfg .pg s f t0).1 = eager s ∧
    (entry cfg .pg s f t0).1.frames.map eraseW = s.frames.map eraseW ∧ GoodW (entry cfg .pg s f t0).1 d := by
  obtain ⟨⟨h1, h2, h3, h4, h5, h6, h7, h8, h9, h10, h11⟩, hc, hw, ho⟩ := hg
  have hidx : s.idx ≥ cfg.maxStack := by simp [St.idx, h1, h2]; omega
  have hrt := recordTrace_open s.frames h11 ho
  by_cases hwd : s.warned = true
  · have hp := hw hwd
    simp [entry, entryFilterCheck, checkRstack, hidx, hwd, eager]
    exact ⟨⟨h1, h2, h3, h4, h5, h6, h7, h8, h9, h10, h11⟩, hc, hw, ho⟩
  · have hwd' : s.warned = false := by simpa using hwd
    simp [entry, entryFilterCheck, checkRstack, hidx, hwd', eager, hrt, pending_markTo, markTo_eraseW]
    refine ⟨⟨h1, by simpa [markTo_length] using h2, h3, h4, h5, h6, h7, h8, h9, h10, markTo_noskip _ h11⟩,
      WClosed_markTo _ hc, fun _ => pending_markTo _, markTo_open _ ho⟩

/-- -finstrument-functions beyond --max-stack, after the overflow was reported: the entry hook only
    counts (`idx++`), the exit hook only counts back; whatever is called in between, the state
    comes back exactly -/
theorem exit_over (cfg : Cfg) (s : St) (t : Nat) :
    exit cfg { s with over := s.over + 1 } t = s := by
  cases s; simp [exit]

mutual
theorem cyg_sat_call (cfg : Cfg) : ∀ (c : Call) (s : St), s.idx ≥ cfg.maxStack → s.warned = true →
    runCall cfg .cyg s c = s
  | .node f t0 t1 kids, s, hi, hw => by
    have he : entry cfg .cyg s f t0 = ({ s with over := s.over + 1 }, true) := by
      simp [entry, entryFilterCheck, checkRstack, hi, hw]
    have hk := cyg_sat_calls cfg kids { s with over := s.over + 1 } (by simp [St.idx] at hi ⊢; omega) hw
    simp only [runCall, he, ↓reduceIte, hk]
    exact exit_over cfg s t1
theorem cyg_sat_calls (cfg : Cfg) : ∀ (cs : Calls) (s : St), s.idx ≥ cfg.maxStack → s.warned = true →
    runCalls cfg .cyg s cs = s
  | .nil, s, _, _ => rfl
  | .cons c rest, s, hi, hw => by
    simp only [runCalls]
    rw [cyg_sat_call cfg c s hi hw]
    exact cyg_sat_calls cfg rest s hi hw
end

/-- a call beyond --max-stack on the -finstrument-functions path: the whole call (entry hook,
    everything it calls, exit hook) leaves exactly the state the -pg entry hook leaves
    (overflow reported once, open frames flushed) -/
theorem runCall_cyg_overflow (cfg : Cfg) (s : St) (d : Nat) (c : Call) (f t0 : Nat) (hg : GoodW s d)
    (hm : cfg.maxStack ≤ d) :
    runCall cfg .cyg s c = (entry cfg .pg s f t0).1 := by
  obtain ⟨⟨h1, h2, h3, h4, h5, h6, h7, h8, h9, h10, h11⟩, hc, hw, ho⟩ := hg
  have hidx : s.idx ≥ cfg.maxStack := by simp [St.idx, h1, h2]; omega
  cases c with
  | node g u0 u1 kids =>
  by_cases hwd : s.warned = true
  · have hp : (entry cfg .pg s f t0).1 = s := by
      simp [entry, entryFilterCheck, checkRstack, hidx, hwd]
    rw [hp]; exact cyg_sat_call cfg _ s hidx hwd
  · have hwd' : s.warned = false := by simpa using hwd
    let s1 : St := { s with frames := (recordTrace s.frames).1, out := s.out ++ (recordTrace s.frames).2, warned := true }
    have hp : (entry cfg .pg s f t0).1 = s1 := by
      simp [entry, entryFilterCheck, checkRstack, hidx, hwd', s1]
    have he : entry cfg .cyg s g u0 = ({ s1 with over := s1.over + 1 }, true) := by
      simp [entry, entryFilterCheck, checkRstack, hidx, hwd', s1]
    have hrt := recordTrace_open s.frames h11 ho
    have hi1 : ({ s1 with over := s1.over + 1 } : St).idx ≥ cfg.maxStack := by
      simp [St.idx, s1, hrt, markTo_length] at hidx ⊢; omega
    have hk := cyg_sat_calls cfg kids { s1 with over := s1.over + 1 } hi1 rfl
    rw [hp]
    simp only [runCall, he, ↓reduceIte, hk]
    exact exit_over cfg s1 u1

theorem entry_plain_warned (cfg : Cfg) (hp : Plain cfg) (k : Kind) (s : St) (d f t0 : Nat)
    (hg : Good s d) (hm : d < cfg.maxStack) (hd : d < cfg.depthOpt) :
    (entry cfg k s f t0).1.warned = false := by
  obtain ⟨h1, h2, h3, h4, h5, h6, h7, h8, h9, h10, h11⟩ := hg
  have hidx : ¬ (s.idx ≥ cfg.maxStack) := by simp [St.idx, h1, h2]; omega
  have hnd : ¬ (d ≥ cfg.depthOpt) := by omega
  cases k <;>
  simp [entry, entryFilterCheck, checkRstack, hidx, hp.fast, hp.optIn, hp.locIn, hp.trig,
    saveFilt, matchFilt, earlyOut, trigFilt, depthLimit, trigEnabled,
    entryFilterRecord, h3, h4, h5, h6, h7, h8, h9, h10, hnd, plainFrame, Trigger.changesState]

theorem pending_cons_unwritten' (F : Frame) (fs : List Frame) (h : F.written = false) :
    pending (F :: fs) = pending fs ++ [entryRec F] := by
  simp [pending, h]

theorem eager_exit_eq (out : List Rec) (w : Bool) (G F : Frame) (gs : List Frame) (x : Rec)
    (hG : G = { F with written := w }) :
    (out ++ (if w then [] else pending gs ++ [entryRec F]) ++ [x]) ++ pending (markTo gs) =
    (out ++ pending (G :: gs)) ++ [x] := by
  subst hG
  cases w <;> simp [pending, pending_markTo, entryRec]

mutual
theorem over_call (cfg : Cfg) (hp : Plain cfg) (k : Kind) (hdo : cfg.maxStack ≤ cfg.depthOpt) :
    ∀ (c : Call) (s : St) (d : Nat), GoodW s d → d ≤ cfg.maxStack → c.okFor cfg →
      eager (runCall cfg k s c) = eager s ++ evCallB d (cfg.maxStack - d) c ∧
      (runCall cfg k s c).frames.map eraseW = s.frames.map eraseW ∧
      GoodW (runCall cfg k s c) d
  | .node f t0 t1 kids, s, d, hg, hm, ht => by
    simp only [Call.okFor] at ht
    by_cases hfull : cfg.maxStack ≤ d
    · -- beyond the shadow stack: the call and everything below it is dropped
      have hb : cfg.maxStack - d = 0 := by omega
      obtain ⟨o1, o2, o3, o4⟩ := entry_overflow cfg s d f t0 hg hfull
      cases k with
      | pg =>
        obtain ⟨k1, k2, k3⟩ := over_calls cfg hp .pg hdo kids (entry cfg .pg s f t0).1 d o4 hm ht.2
        simp only [runCall, o1, Bool.false_eq_true, ↓reduceIte]
        refine ⟨?_, k2.trans o3, k3⟩
        rw [k1, o2, hb, evCallsB_zero]; simp [evCallB]
      | cyg =>
        rw [runCall_cyg_overflow cfg s d _ f t0 hg hfull]
        refine ⟨?_, o3, o4⟩
        rw [o2, hb]; simp [evCallB]
    · have hlt : d < cfg.maxStack := by omega
      obtain ⟨e1, e2, e3, e4⟩ := entry_plain cfg hp k s d f t0 hg.good hlt (by omega)
      have ew := entry_plain_warned cfg hp k s d f t0 hg.good hlt (by omega)
      have hFw : (plainFrame k f t0 d).written = false := rfl
      have hgw1 : GoodW (entry cfg k s f t0).1 (d + 1) := by
        refine ⟨e4, ?_, ?_, ?_⟩
        · rw [e3]; exact ⟨fun h => by simp [hFw] at h, hg.closed⟩
        · intro h; simp [ew] at h
        · rw [e3]; intro g hgm
          simp only [List.mem_cons] at hgm
          rcases hgm with rfl | hgm
          · rfl
          · exact hg.open_ g hgm
      obtain ⟨k1, k2, k3⟩ := over_calls cfg hp k hdo kids (entry cfg k s f t0).1 (d + 1) hgw1 (by omega) ht.2
      rw [e3] at k2
      obtain ⟨G, gs, hfr, hG, hgs⟩ := eraseW_head k2.symm
      have hcl := k3.closed
      rw [hfr] at hcl
      have hw : G.written = true → markTo gs = gs := fun h => (pending_nil_iff_markTo gs).1 (hcl.1 h)
      have hfr' : (runCalls cfg k (entry cfg k s f t0).1 kids).frames =
          { plainFrame k f t0 d with written := G.written } :: gs := by rw [hfr, ← hG]
      obtain ⟨x1, x2, x3⟩ := exit_plain' cfg hp k _ d f t0 t1 G.written gs hfr' k3.good ht.1.2 ht.1.1 hw
      simp only [runCall, e1, ↓reduceIte]
      have hopen2 : ∀ g ∈ gs, g.endT = 0 := fun g hgm => k3.open_ g (by rw [hfr]; simp [hgm])
      refine ⟨?_, ?_, ⟨x3, ?_, ?_, ?_⟩⟩
      · have hb : cfg.maxStack - d ≠ 0 := by omega
        have hb1 : cfg.maxStack - d - 1 = cfg.maxStack - (d + 1) := by omega
        simp only [eager, x1, x2]
        rw [eager_exit_eq _ _ G _ gs _ hG]
        have : (runCalls cfg k (entry cfg k s f t0).1 kids).out ++ pending (G :: gs) =
            eager (runCalls cfg k (entry cfg k s f t0).1 kids) := by simp [eager, hfr]
        rw [this, k1]
        simp only [eager, e2, e3, pending_cons_unwritten' _ _ hFw, evCallB, hb, ↓reduceIte, hb1]
        simp [entryRec, plainFrame]
      · rw [x2, markTo_eraseW, ← hgs]
      · rw [x2]; exact WClosed_markTo _ hcl.2
      · intro _; rw [x2]; exact pending_markTo _
      · rw [x2]; exact markTo_open _ hopen2
theorem over_calls (cfg : Cfg) (hp : Plain cfg) (k : Kind) (hdo : cfg.maxStack ≤ cfg.depthOpt) :
    ∀ (cs : Calls) (s : St) (d : Nat), GoodW s d → d ≤ cfg.maxStack → cs.okFor cfg →
      eager (runCalls cfg k s cs) = eager s ++ evCallsB d (cfg.maxStack - d) cs ∧
      (runCalls cfg k s cs).frames.map eraseW = s.frames.map eraseW ∧
      GoodW (runCalls cfg k s cs) d
  | .nil, s, d, hg, _, _ => by simp [runCalls, evCallsB, hg]
  | .cons c rest, s, d, hg, hm, ht => by
    simp only [Calls.okFor] at ht
    obtain ⟨c1, c2, c3⟩ := over_call cfg hp k hdo c s d hg hm ht.1
    obtain ⟨r1, r2, r3⟩ := over_calls cfg hp k hdo rest (runCall cfg k s c) d c3 hm ht.2
    simp only [runCalls]
    refine ⟨?_, r2.trans c2, r3⟩
    rw [r1, c1]; simp [evCallsB]
end

end Uft.Mcount
