import Uft.Lemmas.FstackTop
import Uft.Lemmas.FstackSim
/- C07 helper lemmas, part 8: record time = replay time for option sets with trace_off triggers
   (-F / -N / -D and trace_off on functions that are not -N functions; no trace_on, no -t), for the code with
   the repair of finding F-C07-TRACEOFF-FLUSH.  Both times show the documented selection up to the first
   trace_off trigger that is reached (`offCalls`): the analysis loop (part A) because fstack_entry switches
   fstack_enabled off and nothing is shown afterwards; the hooks (part B) because the pending ENTRY records of
   the open callers are written at the TRACE_OFF update — also when the function is itself rejected — and
   nothing is written afterwards. -/
set_option linter.unusedSimpArgs false
set_option linter.unusedVariables false

/-! # Part A: the analysis loop -/
namespace Uft.Fstack
open Uft.Mcount (Rec Trigger Call Calls evCall evCalls)

/-! ## the documented selection with trace_off triggers (no trace_on): everything up to the first trace_off
    trigger that is reached -/

/-- the trace_off trigger of `f` is reached in the environment `E`: not inside a -N region, `f` is not a -N
    function itself, not rejected by opt-in mode or the location filter -/
def fires (c : RCfg) (E : Env) (f : Nat) : Bool :=
  (c.trig f).traceOff && decide (E.outC = 0) && !((c.trig f).filter == some false) &&
  !(!((c.trig f).filter == some true) && c.optIn && decide (E.inC = 0)) && !locReject c (c.trig f)

mutual
  /-- shown records of a call and whether tracing is still on after it -/
  def offCall (c : RCfg) (E : Env) (d : Nat) : Call → List Rec × Bool
    | .node f t0 t1 kids =>
      if fires c E f then ([], false) else
      let v := visit c E f
      let r := offCalls c v.2 (if v.1 then d + 1 else d) kids
      if v.1 then
        ([{ time := t0, type := 0, depth := d, addr := f }] ++ r.1 ++
           (if r.2 then [{ time := t1, type := 1, depth := d, addr := f }] else []), r.2)
      else r
  def offCalls (c : RCfg) (E : Env) (d : Nat) : Calls → List Rec × Bool
    | .nil => ([], true)
    | .cons x rest =>
      let a := offCall c E d x
      if a.2 then ((a.1 ++ (offCalls c E d rest).1), (offCalls c E d rest).2) else a
end

/-- the trigger table without the trace switches -/
def quietOf (c : RCfg) : RCfg :=
  { c with trig := fun g => { c.trig g with traceOn := false, traceOff := false } }

theorem quiet_quietOf (c : RCfg) : Quiet (quietOf c) := fun _ => ⟨rfl, rfl⟩

theorem visit_quietOf (c : RCfg) (E : Env) (f : Nat) : visit (quietOf c) E f = visit c E f := by
  simp [visit, quietOf, locReject]

/-- no function carries a trace_on trigger -/
def NoOn (c : RCfg) : Prop := ∀ f, (c.trig f).traceOn = false

theorem trig_quietOf (c : RCfg) (f : Nat) (h1 : (c.trig f).traceOn = false) (h2 : (c.trig f).traceOff = false) :
    (quietOf c).trig f = c.trig f := by
  show ({ c.trig f with traceOn := false, traceOff := false } : Trigger) = c.trig f
  cases hc : c.trig f
  simp_all

theorem fsEntry_quietOf (c : RCfg) (s : FS) (f : Nat) (hon : (c.trig f).traceOn = false)
    (h : (c.trig f).traceOff = false ∨ s.outCount > 0 ∨ (c.trig f).filter = some false ∨
         (!isIn (c.trig f) && c.optIn && decide (s.inCount = 0)) = true ∨ locReject c (c.trig f) = true) :
    fsEntry c s f = fsEntry (quietOf c) s f := by
  rcases h with h | h | h | h | h
  · have hx : ∀ (tr : Trigger), tr.traceOn = false → tr.traceOff = false →
        ({ tr with traceOn := false, traceOff := false } : Trigger) = tr := by
      intro tr a b; cases tr; simp_all
    have : (quietOf c).trig f = c.trig f := hx _ hon h
    unfold fsEntry verdict depthAfter locReject
    rw [this]
    rfl
  · simp [fsEntry, verdict, h, Verdict.matched, Verdict.late, Verdict.norecord, quietOf]
  · have hni : isIn (c.trig f) = false := by simp [isIn, h]
    by_cases h1 : s.outCount > 0
    · simp [fsEntry, verdict, h1, Verdict.matched, Verdict.late, Verdict.norecord, quietOf]
    · simp [fsEntry, verdict, h1, h, hni, Verdict.matched, Verdict.late, Verdict.norecord, quietOf, isIn]
  · by_cases h1 : s.outCount > 0
    · simp [fsEntry, verdict, h1, Verdict.matched, Verdict.late, Verdict.norecord, quietOf]
    · by_cases h2 : (c.trig f).filter = some false
      · have hni : isIn (c.trig f) = false := by simp [isIn, h2]
        simp [fsEntry, verdict, h1, h2, hni, Verdict.matched, Verdict.late, Verdict.norecord, quietOf, isIn]
      · have hq : isIn ((quietOf c).trig f) = isIn (c.trig f) := rfl
        have hf : ((quietOf c).trig f).filter = (c.trig f).filter := rfl
        have ho : (quietOf c).optIn = c.optIn := rfl
        simp only [fsEntry, verdict, h1, ↓reduceIte, hf, h2, hq, ho, h, Verdict.matched, Verdict.late,
          Verdict.norecord, Bool.false_and, Bool.false_eq_true, reduceCtorEq, beq_iff_eq]
  · by_cases h1 : s.outCount > 0
    · simp [fsEntry, verdict, h1, Verdict.matched, Verdict.late, Verdict.norecord, quietOf]
    · by_cases h2 : (c.trig f).filter = some false
      · have hni : isIn (c.trig f) = false := by simp [isIn, h2]
        simp [fsEntry, verdict, h1, h2, hni, Verdict.matched, Verdict.late, Verdict.norecord, quietOf, isIn]
      · by_cases h3 : (!isIn (c.trig f) && c.optIn && decide (s.inCount = 0)) = true
        · have hq : isIn ((quietOf c).trig f) = isIn (c.trig f) := rfl
          have hf : ((quietOf c).trig f).filter = (c.trig f).filter := rfl
          have ho : (quietOf c).optIn = c.optIn := rfl
          simp only [fsEntry, verdict, h1, ↓reduceIte, hf, h2, hq, ho, h3, Verdict.matched, Verdict.late,
            Verdict.norecord, Bool.false_and, Bool.false_eq_true, reduceCtorEq, beq_iff_eq]
        · have hq : isIn ((quietOf c).trig f) = isIn (c.trig f) := rfl
          have hf : ((quietOf c).trig f).filter = (c.trig f).filter := rfl
          have ho : (quietOf c).optIn = c.optIn := rfl
          have hl : locReject (quietOf c) ((quietOf c).trig f) = locReject c (c.trig f) := rfl
          simp only [fsEntry, verdict, h1, ↓reduceIte, hf, h2, hq, ho, h3, hl, h, Verdict.matched, Verdict.late,
            Verdict.norecord, Bool.false_and, Bool.false_eq_true, reduceCtorEq, beq_iff_eq]
          rfl

/-- a record that does not reach a trace switch is handled as with the switches removed from the table -/
theorem stepA_quietOf (c : RCfg) (hnl : c.noLibcall = false) (s : FS) (r : Rec)
    (h : r.type = 0 → (c.trig r.addr).traceOn = false ∧
         ((c.trig r.addr).traceOff = false ∨ (account s r).outCount > 0 ∨ (c.trig r.addr).filter = some false ∨
          (!isIn (c.trig r.addr) && c.optIn && decide ((account s r).inCount = 0)) = true ∨
          locReject c (c.trig r.addr) = true)) :
    stepA c s r = stepA (quietOf c) s r := by
  have hnl' : (quietOf c).noLibcall = false := hnl
  rw [stepA_noplt c hnl, stepA_noplt (quietOf c) hnl']
  by_cases ht : r.type = 0
  · obtain ⟨hon, hh⟩ := h ht
    simp only [ht, ↓reduceIte]
    rw [fsEntry_quietOf c (account s r) r.addr hon hh]
  · simp only [ht, ↓reduceIte]
    rfl

/-- once tracing is off and no trace_on trigger exists, the loop shows nothing more -/
theorem stepA_off (c : RCfg) (hnl : c.noLibcall = false) (hno : NoOn c) (s : FS) (r : Rec) (hen : s.enabled = false) :
    (stepA c s r).2 = [] ∧ (stepA c s r).1.enabled = false := by
  rw [stepA_noplt c hnl]
  have ha : (account s r).enabled = false := by
    simp only [account]; split <;> simp [hen]
  by_cases ht : r.type = 0
  · simp only [ht, ↓reduceIte]
    have hea : enAfter (c.trig r.addr) false = false := by simp [enAfter, hno r.addr]
    have hv : verdict c (account s r) r.addr ≠ Verdict.accept := by
      intro hv
      have := (verdict_late c (account s r) r.addr).2 (by rw [hv]; rfl) (by rw [hv]; decide)
      rw [ha, hea] at this
      exact absurd this (by decide)
    have h2 : (fsEntry c (account s r) r.addr).2 = false := by
      show (verdict c (account s r) r.addr == Verdict.accept) = false
      simpa using hv
    simp only [h2, Bool.false_eq_true, ↓reduceIte, true_and]
    simp only [fsEntry, ha, hea, ite_self]
  · simp only [ht, ↓reduceIte]
    by_cases ht1 : r.type = 1
    · simp only [ht1, ↓reduceIte, exitStep, ha, Bool.not_false, Bool.or_true, true_and]
      simp [fsExit, ha]
    · simp only [ht1, ↓reduceIte, true_and]
      exact ha

theorem run_off (c : RCfg) (hnl : c.noLibcall = false) (hno : NoOn c) : ∀ (rs : List Rec) (s : FS), s.enabled = false →
    (run (stepA c) s rs).2 = [] ∧ (run (stepA c) s rs).1.enabled = false
  | [], s, h => ⟨rfl, h⟩
  | r :: rs, s, h => by
    obtain ⟨a, b⟩ := stepA_off c hnl hno s r h
    obtain ⟨a2, b2⟩ := run_off c hnl hno rs _ b
    simp only [run, a, a2, List.append_nil, true_and]
    exact b2

theorem fires_false_cases (c : RCfg) (E : Env) (f : Nat) (h : fires c E f = false) :
    (c.trig f).traceOff = false ∨ E.outC > 0 ∨ (c.trig f).filter = some false ∨
    (!isIn (c.trig f) && c.optIn && decide (E.inC = 0)) = true ∨ locReject c (c.trig f) = true := by
  simp only [fires, isIn] at h ⊢
  by_cases h0 : (c.trig f).traceOff = false
  · exact Or.inl h0
  · by_cases h1 : E.outC > 0
    · exact Or.inr (Or.inl h1)
    · by_cases h2 : (c.trig f).filter = some false
      · exact Or.inr (Or.inr (Or.inl h2))
      · by_cases h3 : (!((c.trig f).filter == some true) && c.optIn && decide (E.inC = 0)) = true
        · exact Or.inr (Or.inr (Or.inr (Or.inl h3)))
        · right; right; right; right
          have h0' : (c.trig f).traceOff = true := by simpa using h0
          have h1' : E.outC = 0 := by omega
          have h2' : ((c.trig f).filter == some false) = false := by simpa using h2
          have h3' : (!((c.trig f).filter == some true) && c.optIn && decide (E.inC = 0)) = false := by simpa using h3
          simpa [h0', h1', h2', h3'] using h

/-- the ENTRY record of a function whose trace_off trigger is reached while tracing is on: nothing is shown,
    tracing is off -/
theorem stepA_fires (c : RCfg) (hnl : c.noLibcall = false) (s : FS) (r : Rec) (ht : r.type = 0) (hs : s.scSet = true)
    (hen : s.enabled = true) (hf : fires c (envOf s) r.addr = true) :
    (stepA c s r).2 = [] ∧ (stepA c s r).1.enabled = false := by
  obtain ⟨a1, a2, a3, a4, a5, a6, a7, a8, a9⟩ := account_fields s r hs (by omega)
  simp only [fires, Bool.and_eq_true, Bool.not_eq_true'] at hf
  obtain ⟨⟨⟨⟨h0, h1⟩, h2⟩, h3⟩, h4⟩ := hf
  have h1n : s.outCount = 0 := of_decide_eq_true h1
  have h2n : ¬ (c.trig r.addr).filter = some false := by simpa using h2
  have hea : enAfter (c.trig r.addr) (account s r).enabled = false := by simp [enAfter, h0]
  have h3' : (!isIn (c.trig r.addr) && c.optIn && decide ((account s r).inCount = 0)) = false := by
    rw [a3]; exact h3
  have hv : verdict c (account s r) r.addr = Verdict.traceOff := by
    have h1' : ¬ (account s r).outCount > 0 := by rw [a4]; omega
    simp only [verdict, h1', ↓reduceIte, h2n, h3', Bool.false_eq_true, h4, hea, Bool.not_false]
  rw [stepA_noplt c hnl]
  simp only [ht, ↓reduceIte]
  have h2f : (fsEntry c (account s r) r.addr).2 = false := by
    show (verdict c (account s r) r.addr == Verdict.accept) = false
    rw [hv]; rfl
  simp only [h2f, Bool.false_eq_true, ↓reduceIte, true_and]
  simp only [fsEntry, hv, Verdict.late, ↓reduceIte, hea]

theorem run_node (step : FS → Rec → FS × List Rec) (s : FS) (e x : Rec) (ks : List Rec) :
    run step s ([e] ++ ks ++ [x]) =
      ((step (run step (step s e).1 ks).1 x).1,
       (step s e).2 ++ ((run step (step s e).1 ks).2 ++ (step (run step (step s e).1 ks).1 x).2)) := by
  simp [run_append, run, List.append_assoc]

mutual
/-- report / graph / dump loop over the eager trace of a call, trace_off triggers allowed (no trace_on): shows
    `offCall`; the state is back if tracing is still on, otherwise tracing is off -/
theorem offA_call (c : RCfg) (hnl : c.noLibcall = false) (hno : NoOn c) : ∀ (x : Call) (d : Nat) (s : FS),
    s.scSet = true → s.enabled = true → s.dispSet = true →
    (run (stepA c) s (evCall d x)).2 = (offCall c (envOf s) s.dispDepth x).1 ∧
    ((offCall c (envOf s) s.dispDepth x).2 = true → (run (stepA c) s (evCall d x)).1 = s) ∧
    ((offCall c (envOf s) s.dispDepth x).2 = false → (run (stepA c) s (evCall d x)).1.enabled = false)
  | .node f t0 t1 kids, d, s, hs, hen, hds => by
    simp only [evCall, run_node]
    by_cases hf : fires c (envOf s) f = true
    · obtain ⟨o, e⟩ := stepA_fires c hnl s { time := t0, type := 0, depth := d, addr := f } rfl hs hen hf
      obtain ⟨o2, e2⟩ := run_off c hnl hno (evCalls (d + 1) kids) _ e
      obtain ⟨o3, e3⟩ := stepA_off c hnl hno _ { time := t1, type := 1, depth := d, addr := f } e2
      simp only [o, o2, o3, offCall, hf, ↓reduceIte, List.append_nil, true_and]
      exact ⟨fun h => absurd h (by decide), fun _ => e3⟩
    · have hf' : fires c (envOf s) f = false := by simpa using hf
      have hq := quiet_quietOf c
      have hnl' : (quietOf c).noLibcall = false := hnl
      have hE : stepA c s { time := t0, type := 0, depth := d, addr := f } =
          stepA (quietOf c) s { time := t0, type := 0, depth := d, addr := f } := by
        apply stepA_quietOf c hnl
        intro _
        obtain ⟨a1, a2, a3, a4, a5, a6, a7, a8, a9⟩ :=
          account_fields s { time := t0, type := 0, depth := d, addr := f } hs (by simp)
        refine ⟨hno f, ?_⟩
        rw [a3, a4]
        exact fires_false_cases c (envOf s) f hf'
      obtain ⟨o1, i1, i2, i4, i5, i6, i7, i8, i9, i10, i11, i12⟩ :=
        stepA_entry_full (quietOf c) hq hnl' s { time := t0, type := 0, depth := d, addr := f } rfl hs hen hds
      simp only [visit_quietOf] at o1 i1 i2 i4 i5 i6 i7 i8 i9 i10 i11 i12
      rw [← hE] at o1 i1 i2 i4 i5 i6 i7 i8 i9 i10
      obtain ⟨k1, k2, k3⟩ := offA_calls c hnl hno kids (d + 1) _ i6 i7 i8
      rw [i10, i9] at k1 k2 k3
      simp only [offCall, hf', Bool.false_eq_true, ↓reduceIte, o1, k1]
      generalize hs1 : (stepA c s { time := t0, type := 0, depth := d, addr := f }).1 = s1 at *
      cases hr : (offCalls c (visit c (envOf s) f).2
          (if (visit c (envOf s) f).1 = true then s.dispDepth + 1 else s.dispDepth) kids).2 with
      | true =>
        have hst := k2 hr
        rw [hst]
        have hX : stepA c s1 { time := t1, type := 1, depth := d, addr := f } =
            stepA (quietOf c) s1 { time := t1, type := 1, depth := d, addr := f } :=
          stepA_quietOf c hnl _ _ (fun h => absurd h (by simp))
        have hx := stepA_exit_full (quietOf c) hnl' s s1 { time := t1, type := 1, depth := d, addr := f } _
          (visit c (envOf s) f).1 rfl i1 i2 i4 i5 i6 i7 i8 i9 i11 i12 hs hen hds
        rw [← hX] at hx
        rw [hx]
        cases hv : (visit c (envOf s) f).1 <;> simp only [hv, Bool.false_eq_true, ↓reduceIte] at hr ⊢ <;>
          simp [shown, hr]
      | false =>
        have he := k3 hr
        obtain ⟨o3, e3⟩ := stepA_off c hnl hno _ { time := t1, type := 1, depth := d, addr := f } he
        simp only [o3, List.append_nil]
        cases hv : (visit c (envOf s) f).1 <;> simp only [hv, Bool.false_eq_true, ↓reduceIte] at hr ⊢ <;>
          simp [shown, hr, e3]
theorem offA_calls (c : RCfg) (hnl : c.noLibcall = false) (hno : NoOn c) : ∀ (xs : Calls) (d : Nat) (s : FS),
    s.scSet = true → s.enabled = true → s.dispSet = true →
    (run (stepA c) s (evCalls d xs)).2 = (offCalls c (envOf s) s.dispDepth xs).1 ∧
    ((offCalls c (envOf s) s.dispDepth xs).2 = true → (run (stepA c) s (evCalls d xs)).1 = s) ∧
    ((offCalls c (envOf s) s.dispDepth xs).2 = false → (run (stepA c) s (evCalls d xs)).1.enabled = false)
  | .nil, d, s, _, _, _ => ⟨rfl, fun _ => rfl, fun h => absurd h (by simp [offCalls])⟩
  | .cons x rest, d, s, hs, hen, hds => by
    obtain ⟨x1, x2, x3⟩ := offA_call c hnl hno x d s hs hen hds
    simp only [evCalls, run_append, offCalls, x1]
    cases hr : (offCall c (envOf s) s.dispDepth x).2 with
    | true =>
      rw [x2 hr]
      obtain ⟨r1, r2, r3⟩ := offA_calls c hnl hno rest d s hs hen hds
      simp only [↓reduceIte, r1, true_and]
      exact ⟨r2, r3⟩
    | false =>
      obtain ⟨o3, e3⟩ := run_off c hnl hno (evCalls d rest) _ (x3 hr)
      simp only [Bool.false_eq_true, ↓reduceIte, o3, List.append_nil, true_and, hr]
      exact ⟨fun h => absurd h (by decide), fun _ => e3⟩
end

end Uft.Fstack

/-! # Part B: the record-time hooks -/
namespace Uft.Fstack
open Uft.Mcount

/-- record-time option sets made of -F, -N, -D and trace_off triggers (not on -N functions); no -t, no trace_on;
    regular build with the repairs of F4, S4 and F-C07-TRACEOFF-FLUSH -/
structure FNDoff (cfg : Cfg) : Prop where
  fast : cfg.fast = false
  fixd : cfg.f4fixed = true
  f7 : cfg.f7fixed = true
  s4 : cfg.s4fixed = true
  locIn : cfg.locIn = false
  caller : cfg.callerMode = false
  minSize : cfg.minSize = 0
  thr : cfg.threshold = 0
  en : cfg.enabled0 = true
  trig : ∀ f, cfg.trig f = { filter := (cfg.trig f).filter, traceOff := (cfg.trig f).traceOff }
  offN : ∀ f, (cfg.trig f).traceOff = true → (cfg.trig f).filter ≠ some false

/-- the same options without the trace_off triggers -/
def quietCfg (cfg : Cfg) : Cfg := { cfg with trig := fun g => { filter := (cfg.trig g).filter } }

theorem fnd_quietCfg (cfg : Cfg) (h : FNDoff cfg) : FND (quietCfg cfg) :=
  ⟨h.fast, h.fixd, h.locIn, h.caller, h.minSize, h.en, fun _ => rfl⟩

theorem entry_trig_congr (cfg : Cfg) (T : Nat → Trigger) (k : Kind) (s : St) (f t0 : Nat) (hT : T f = cfg.trig f) :
    entry { cfg with trig := T } k s f t0 = entry cfg k s f t0 := by
  have h1 : entryFilterCheck { cfg with trig := T } s f = entryFilterCheck cfg s f := by
    unfold entryFilterCheck
    show _ = _
    simp only [hT]
    rfl
  unfold entry
  rw [h1]
  rfl

theorem exit_quietCfg (cfg : Cfg) (s : St) (t : Nat) : exit (quietCfg cfg) s t = exit cfg s t := rfl

/-- the trace_off trigger of `f` is reached by mcount_entry_filter_check in the state `s` -/
def firesR (cfg : Cfg) (s : St) (f : Nat) : Prop :=
  (cfg.trig f).traceOff = true ∧ s.filt.outCount = 0 ∧ earlyOut cfg (cfg.trig f) (saveFilt s.filt) = false

/-- a function whose trace_off trigger is not reached is handled as without the trigger -/
theorem entry_quiet (cfg : Cfg) (h : FNDoff cfg) (k : Kind) (s : St) (f t0 : Nat) (hnf : ¬ firesR cfg s f) :
    entry cfg k s f t0 = entry (quietCfg cfg) k s f t0 := by
  by_cases hoff : (cfg.trig f).traceOff = true
  · have htr : cfg.trig f = { filter := (cfg.trig f).filter, traceOff := true } := by
      have := h.trig f; rw [hoff] at this; exact this
    have hq : (quietCfg cfg).trig f = { filter := (cfg.trig f).filter } := rfl
    generalize hm : (cfg.trig f).filter = m at htr hq
    have hmn : m ≠ some false := by rw [← hm]; exact h.offN f hoff
    have hnf' : ¬ (s.filt.outCount = 0 ∧ earlyOut cfg (cfg.trig f) (saveFilt s.filt) = false) :=
      fun hh => hnf ⟨hoff, hh.1, hh.2⟩
    have e1 : (FR.out == FR.rstack) = false := rfl
    have e2 : (FR.out == FR.in_) = false := rfl
    have e5 : (FR.out != FR.in_) = true := rfl
    have hfq : (quietCfg cfg).fast = false := h.fast
    unfold entry entryFilterCheck
    rw [hq, htr]
    have hck : checkRstack (quietCfg cfg) s = checkRstack cfg s := rfl
    rw [hck]
    cases hc : (checkRstack cfg s).1 with
    | true => simp [hc]
    | false =>
      simp only [hc, Bool.false_eq_true, ↓reduceIte, h.fast, hfq]
      have hsv : (saveFilt (checkRstack cfg s).2.filt).outCount = s.filt.outCount := by
        unfold checkRstack; split <;> (try split) <;> simp [saveFilt]
      have hsi : (saveFilt (checkRstack cfg s).2.filt).inCount = s.filt.inCount := by
        unfold checkRstack; split <;> (try split) <;> simp [saveFilt]
      by_cases hout : s.filt.outCount > 0
      · simp only [hsv, hout, ↓reduceIte]
        cases k <;> rfl
      · have hout0 : s.filt.outCount = 0 := by omega
        simp only [hsv, hout, ↓reduceIte]
        have hearly : earlyOut cfg { filter := m, traceOff := true } (saveFilt s.filt) = true := by
          cases he : earlyOut cfg { filter := m, traceOff := true } (saveFilt s.filt) with
          | true => rfl
          | false => rw [htr] at hnf'; exact absurd ⟨hout0, he⟩ hnf'
        have hmn2 : m = none := by
          simp only [earlyOut, h.locIn, Bool.or_false] at hearly
          cases m with
          | none => rfl
          | some b => simp at hearly
        subst hmn2
        have hE1 : earlyOut cfg { traceOff := true } (saveFilt (checkRstack cfg s).2.filt) = true := by
          simp only [earlyOut, hsi, h.locIn, Bool.or_false] at hearly ⊢
          simp [saveFilt] at hearly ⊢
          exact ⟨hearly.1, of_decide_eq_true hearly.2⟩
        have hE2 : earlyOut (quietCfg cfg) { } (saveFilt (checkRstack cfg s).2.filt) = true := by
          simp only [earlyOut, hsi, h.locIn, Bool.or_false] at hearly ⊢
          have : (quietCfg cfg).optIn = cfg.optIn := rfl
          have h2 : (quietCfg cfg).locIn = cfg.locIn := rfl
          simp only [this, h2, h.locIn, Bool.or_false]
          simp [saveFilt] at hearly ⊢
          exact ⟨hearly.1, of_decide_eq_true hearly.2⟩
        simp only [hE1, hE2, ↓reduceIte, matchFilt]
        cases k with
        | pg => simp [e1, e5, Trigger.changesState]
        | cyg =>
          simp only [e1, e2, Bool.false_eq_true, ↓reduceIte, Bool.not_false]
          simp [entryFilterRecord, h.fast, hfq]
  · have hoff' : (cfg.trig f).traceOff = false := by simpa using hoff
    have hT : (fun g => ({ filter := (cfg.trig g).filter } : Trigger)) f = cfg.trig f := by
      have := h.trig f; rw [hoff'] at this; exact this.symm
    exact (entry_trig_congr cfg _ k s f t0 hT).symm

/-! ### while tracing is off (no trace_on trigger) the hooks write nothing -/

/-- tracing is off and nothing is owed: every recordable frame on the shadow stack is written -/
structure OffI (s : St) : Prop where
  en : s.enabled = false
  aw : Flush.AllWritten s.frames
  over : s.over = 0

theorem flushBelow_allWritten : ∀ (fs : List Frame), Flush.AllWritten fs → flushBelow fs = (fs, [])
  | [], _ => rfl
  | F :: r, h => by
    have hr : Flush.AllWritten r := fun G hG => h G (by simp [hG])
    simp only [flushBelow]
    by_cases hw : F.written = true
    · simp [hw]
    · have hs : F.skip = true := by
        cases hsk : F.skip with
        | true => rfl
        | false => exact absurd (h F (by simp) hsk) hw
      simp [hw, hs, flushBelow_allWritten r hr]

/-- mcount_entry_filter_record on a fresh frame while tracing is off and nothing is owed below it -/
theorem entryFilterRecord_off' (cfg : Cfg) (hfast : cfg.fast = false) (s : St) (F : Frame) (rest : List Frame)
    (tr : Trigger) (hfin : tr.finish = false) (hfr : s.frames = F :: rest) (hen : s.enabled = false)
    (hw : F.written = false) (hend : F.endT = 0) (hm : flushBelow rest = (rest, [])) :
    (entryFilterRecord cfg s tr).out = s.out ∧ (entryFilterRecord cfg s tr).enabled = false ∧
    (entryFilterRecord cfg s tr).over = s.over ∧
    ∃ F', F'.written = false ∧ F'.skip = true ∧ (entryFilterRecord cfg s tr).frames = F' :: rest := by
  unfold entryFilterRecord
  simp only [hfr, hfast, hfin, Bool.false_eq_true, ↓reduceIte, hen, Bool.not_false, Bool.true_and, Bool.or_true]
  split
  · rename_i hnr
    refine ⟨rfl, rfl, rfl, _, ?_, ?_, rfl⟩
    · exact hw
    · simp only [Frame.skip]; rw [hnr]; rfl
  · split
    · rw [Flush.recordTrace_disabled_top _ rest ?_ ?_ ?_ hm]
      · refine ⟨by simp, rfl, rfl, _, ?_, ?_, rfl⟩
        · exact hw
        · simp [Frame.skip]
      · exact hw
      · rfl
      · exact hend
    · refine ⟨by simp, rfl, rfl, _, ?_, ?_, rfl⟩
      · exact hw
      · simp [Frame.skip]

/-- mcount_entry_filter_check while tracing is off -/
theorem check_off (cfg : Cfg) (hfast : cfg.fast = false) (hno : ∀ f, (cfg.trig f).traceOn = false)
    (hfin : ∀ f, (cfg.trig f).finish = false) (s : St) (f : Nat) (hen : s.enabled = false)
    (hidx : s.idx < cfg.maxStack) :
    (entryFilterCheck cfg s f).1 ≠ .rstack ∧ (entryFilterCheck cfg s f).2.2.finish = false ∧
    (entryFilterCheck cfg s f).2.1.frames = s.frames ∧ (entryFilterCheck cfg s f).2.1.out = s.out ∧
    (entryFilterCheck cfg s f).2.1.enabled = false ∧ (entryFilterCheck cfg s f).2.1.over = s.over := by
  have hidx' : ¬ (s.idx ≥ cfg.maxStack) := by omega
  have hte : trigEnabled (cfg.trig f) false = false := by simp [trigEnabled, hno f]
  have hfl : ∀ s' : St, s'.enabled = false → traceOffFlush cfg s' (cfg.trig f) = s' :=
    fun s' h => traceOffFlush_disabled cfg s' _ (hno f) h
  unfold entryFilterCheck checkRstack
  simp only [hidx', ↓reduceIte, hfast, Bool.false_eq_true]
  split
  · exact ⟨by simp, rfl, rfl, rfl, hen, rfl⟩
  · split
    · exact ⟨by simp, hfin f, rfl, rfl, hen, rfl⟩
    · rw [hfl { s with warned := false } hen]
      simp only [hen, hte]
      split
      · exact ⟨by simp, hfin f, rfl, rfl, rfl, rfl⟩
      · exact ⟨by simp, hfin f, rfl, rfl, rfl, rfl⟩

theorem entry_off (cfg : Cfg) (hfast : cfg.fast = false) (hno : ∀ f, (cfg.trig f).traceOn = false)
    (hfin : ∀ f, (cfg.trig f).finish = false) (k : Kind) (s : St) (f t0 : Nat) (ho : OffI s)
    (hlen : s.frames.length < cfg.maxStack) :
    (entry cfg k s f t0).1.out = s.out ∧ OffI (entry cfg k s f t0).1 ∧
    (((entry cfg k s f t0).2 = false ∧ (entry cfg k s f t0).1.frames = s.frames) ∨
     ((entry cfg k s f t0).2 = true ∧ ∃ F, (entry cfg k s f t0).1.frames = F :: s.frames)) := by
  have hidx : s.idx < cfg.maxStack := by simp [St.idx, ho.over]; exact hlen
  obtain ⟨c1, c2, c3, c4, c5, c6⟩ := check_off cfg hfast hno hfin s f ho.en hidx
  have hm := flushBelow_allWritten s.frames ho.aw
  unfold entry
  generalize entryFilterCheck cfg s f = c at c1 c2 c3 c4 c5 c6
  obtain ⟨v, s1, tr⟩ := c
  simp only at c1 c2 c3 c4 c5 c6 ⊢
  have hvr : (v == FR.rstack) = false := by cases v <;> simp_all
  have hpush : ∀ (F0 : Frame), F0.written = false → F0.endT = 0 →
      (entryFilterRecord cfg { s1 with frames := F0 :: s1.frames } tr).out = s.out ∧
      OffI (entryFilterRecord cfg { s1 with frames := F0 :: s1.frames } tr) ∧
      ∃ F, (entryFilterRecord cfg { s1 with frames := F0 :: s1.frames } tr).frames = F :: s.frames := by
    intro F0 hw he
    obtain ⟨o, e, ov, F', hw', hs', hf'⟩ := entryFilterRecord_off' cfg hfast { s1 with frames := F0 :: s1.frames } F0
      s1.frames tr c2 rfl c5 hw he (by rw [c3]; exact hm)
    refine ⟨by rw [o]; exact c4, ⟨e, ?_, by rw [ov]; show s1.over = 0; rw [c6, ho.over]⟩, F', by rw [hf', c3]⟩
    rw [hf', c3]
    intro G hG hsk
    simp only [List.mem_cons] at hG
    rcases hG with rfl | hG
    · rw [hs'] at hsk; exact absurd hsk (by decide)
    · exact ho.aw G hG hsk
  cases k with
  | pg =>
    simp only [hvr, Bool.false_or]
    split
    · exact ⟨c4, ⟨c5, by rw [c3]; exact ho.aw, by rw [c6, ho.over]⟩, Or.inl ⟨rfl, c3⟩⟩
    · obtain ⟨o, i, F, hF⟩ := hpush { addr := f, start := t0, depth := s1.recordIdx, norecord := v != FR.in_ } rfl rfl
      exact ⟨o, i, Or.inr ⟨rfl, F, hF⟩⟩
  | cyg =>
    simp only [hvr, Bool.false_eq_true, ↓reduceIte]
    obtain ⟨o, i, F, hF⟩ := hpush
      { addr := f, start := if (v == FR.in_) = true then t0 else 0, depth := s1.recordIdx, cyg := true,
        norecord := !(v == FR.in_) } rfl rfl
    exact ⟨o, i, Or.inr ⟨by first | rfl | trivial, F, hF⟩⟩

theorem exit_off (cfg : Cfg) (hfast : cfg.fast = false) (s : St) (t : Nat) (ho : OffI s) :
    (exit cfg s t).out = s.out ∧ OffI (exit cfg s t) ∧ (exit cfg s t).frames = s.frames.tail := by
  have hov : ¬ s.over > 0 := by rw [ho.over]; omega
  unfold exit
  rw [if_neg hov]
  cases hfr : s.frames with
  | nil => exact ⟨rfl, ho, by simp [hfr]⟩
  | cons F rest =>
    have haw : Flush.AllWritten rest := fun G hG => ho.aw G (by simp [hfr, hG])
    have key : ∀ (G : Frame),
        (exitFilterRecord cfg { s with frames := G :: rest }).out = s.out ∧
        (exitFilterRecord cfg { s with frames := G :: rest }).enabled = false ∧
        (exitFilterRecord cfg { s with frames := G :: rest }).over = 0 ∧
        (exitFilterRecord cfg { s with frames := G :: rest }).frames = G :: rest := by
      intro G
      unfold exitFilterRecord
      simp only [hfast, Bool.false_eq_true, ↓reduceIte, ho.en, Bool.not_false]
      split
      · exact ⟨rfl, rfl, ho.over, rfl⟩
      · exact ⟨rfl, rfl, ho.over, rfl⟩
    simp only [List.tail_cons]
    split
    · obtain ⟨a, b, c, d⟩ := key F
      exact ⟨a, ⟨b, by rw [d]; exact haw, c⟩, by rw [d]; rfl⟩
    · obtain ⟨a, b, c, d⟩ := key { F with endT := t }
      exact ⟨a, ⟨b, by rw [d]; exact haw, c⟩, by rw [d]; rfl⟩

mutual
theorem off_call (cfg : Cfg) (hfast : cfg.fast = false) (hno : ∀ f, (cfg.trig f).traceOn = false)
    (hfin : ∀ f, (cfg.trig f).finish = false) (k : Kind) : ∀ (x : Call) (s : St), OffI s →
    s.frames.length + x.height ≤ cfg.maxStack →
    (runCall cfg k s x).out = s.out ∧ OffI (runCall cfg k s x) ∧ (runCall cfg k s x).frames = s.frames
  | .node f t0 t1 kids, s, ho, hh => by
    simp only [Call.height] at hh
    obtain ⟨eo, ei, es⟩ := entry_off cfg hfast hno hfin k s f t0 ho (by omega)
    simp only [runCall]
    rcases es with ⟨e2, ef⟩ | ⟨e2, F, ef⟩
    · obtain ⟨ko, ki, kf⟩ := off_calls cfg hfast hno hfin k kids _ ei (by rw [ef]; omega)
      simp only [e2, Bool.false_eq_true, ↓reduceIte]
      exact ⟨by rw [ko, eo], ki, by rw [kf, ef]⟩
    · obtain ⟨ko, ki, kf⟩ := off_calls cfg hfast hno hfin k kids _ ei (by rw [ef]; simp; omega)
      obtain ⟨xo, xi, xf⟩ := exit_off cfg hfast _ t1 ki
      simp only [e2, ↓reduceIte]
      exact ⟨by rw [xo, ko, eo], xi, by rw [xf, kf, ef]; rfl⟩
theorem off_calls (cfg : Cfg) (hfast : cfg.fast = false) (hno : ∀ f, (cfg.trig f).traceOn = false)
    (hfin : ∀ f, (cfg.trig f).finish = false) (k : Kind) : ∀ (xs : Calls) (s : St), OffI s →
    s.frames.length + xs.height ≤ cfg.maxStack →
    (runCalls cfg k s xs).out = s.out ∧ OffI (runCalls cfg k s xs) ∧ (runCalls cfg k s xs).frames = s.frames
  | .nil, s, ho, _ => ⟨rfl, ho, rfl⟩
  | .cons x rest, s, ho, hh => by
    simp only [Calls.height] at hh
    obtain ⟨xo, xi, xf⟩ := off_call cfg hfast hno hfin k x s ho (by omega)
    obtain ⟨ro, ri, rf⟩ := off_calls cfg hfast hno hfin k rest _ xi (by rw [xf]; omega)
    simp only [runCalls]
    exact ⟨by rw [ro, xo], ri, by rw [rf, xf]⟩
end


/-! ### the recorded stream of a forest, up to the first trace_off trigger that is reached -/

theorem rrel_quiet (cfg : Cfg) (s : St) (E : Env) (d : Nat) (hr : RRel cfg s E d) : RRel (quietCfg cfg) s E d :=
  ⟨hr.inC, hr.outC, hr.bud, hr.maxD, hr.time, hr.size, hr.ridx, hr.en, hr.over⟩

theorem rrel_unquiet (cfg : Cfg) (s : St) (E : Env) (d : Nat) (hr : RRel (quietCfg cfg) s E d) : RRel cfg s E d :=
  ⟨hr.inC, hr.outC, hr.bud, hr.maxD, hr.time, hr.size, hr.ridx, hr.en, hr.over⟩

theorem visit_quietCfg (cfg : Cfg) (h : FNDoff cfg) (E : Env) (f : Nat) :
    visit (RCfg.ofRecord (quietCfg cfg)) E f = visit (RCfg.ofRecord cfg) E f := by
  have htr := h.trig f
  unfold visit RCfg.ofRecord quietCfg
  dsimp only
  rw [htr]
  simp [locReject]

theorem fnoff_nofinish (cfg : Cfg) (h : FNDoff cfg) (f : Nat) : (cfg.trig f).finish = false := by
  rw [h.trig f]

theorem fnoff_noon (cfg : Cfg) (h : FNDoff cfg) (f : Nat) : (cfg.trig f).traceOn = false := by
  rw [h.trig f]

/-- under the correspondence of filter state and environment, the specification's `fires` is the hooks' -/
theorem fires_iff (cfg : Cfg) (h : FNDoff cfg) (s : St) (E : Env) (d : Nat) (hr : RRel cfg s E d) (f : Nat) :
    fires (RCfg.ofRecord cfg) E f = true ↔ firesR cfg s f := by
  have htr := h.trig f
  have hN := h.offN f
  unfold fires firesR earlyOut
  show (((cfg.trig f).traceOff && decide (E.outC = 0) && !((cfg.trig f).filter == some false) &&
      !(!((cfg.trig f).filter == some true) && cfg.optIn && decide (E.inC = 0)) &&
      !locReject (RCfg.ofRecord cfg) (cfg.trig f)) = true) ↔ _
  have hloc : locReject (RCfg.ofRecord cfg) (cfg.trig f) = false := by
    rw [htr]; simp [locReject, RCfg.ofRecord, h.locIn]
  have hl2 : (cfg.trig f).loc = none := by rw [htr]
  rw [hloc, hl2]
  simp only [saveFilt, hr.inC, hr.outC, h.locIn, Bool.or_false, Bool.not_false, Bool.and_true]
  cases hb : (cfg.trig f).traceOff with
  | false => simp
  | true =>
    have hne := hN hb
    rcases hm : (cfg.trig f).filter with _ | (_ | _)
    · simp
      intro _
      cases cfg.optIn <;> simp
    · exact absurd hm hne
    · simp

theorem core_runCall_off (cfg : Cfg) (h : FNDoff cfg) (k : Kind) (x : Call) (s : St) (hov : s.over = 0) :
    core (runCall cfg k s x) = core s := by
  cases k with
  | pg => exact Uft.C05.restored_call_pg cfg h.fast h.fixd (fnoff_nofinish cfg h) x s (Or.inl hov)
  | cyg => exact Uft.C05.restored_call cfg h.fast (fnoff_nofinish cfg h) x s (Or.inl hov)

theorem mark_length (fs : List Frame) : (mark fs).length = fs.length := by
  have := congrArg List.length (flushBelow_core fs)
  simpa [mark] using this

/-- the entry hook of a function whose trace_off trigger is reached while tracing is on: the pending ENTRY
    records of the open callers are written, tracing is off, nothing is owed any more -/
theorem entry_fires (cfg : Cfg) (h : FNDoff cfg) (k : Kind) (s : St) (f t0 : Nat) (hf : firesR cfg s f)
    (hlen : s.frames.length < cfg.maxStack) (hov : s.over = 0) (hen : s.enabled = true) (hinv : Flush.Inv s) :
    (entry cfg k s f t0).1.out = s.out ++ pend s.frames ∧ OffI (entry cfg k s f t0).1 ∧
    (((entry cfg k s f t0).2 = false ∧ (entry cfg k s f t0).1.frames.length = s.frames.length) ∨
     ((entry cfg k s f t0).2 = true ∧ (entry cfg k s f t0).1.frames.length = s.frames.length + 1)) := by
  obtain ⟨hoff, hout, hearly⟩ := hf
  have hidx : s.idx < cfg.maxStack := by simp [St.idx, hov]; exact hlen
  obtain ⟨v, flt, hv, _, hc⟩ := Flush.check_traceoff cfg h.f7 h.fast s f hidx hout hearly hoff hen hinv.2
  have haw : Flush.AllWritten (mark s.frames) := Flush.mark_allWritten _ hinv.1
  have hm : flushBelow (mark s.frames) = (mark s.frames, []) := flushBelow_idem s.frames
  have hfin := fnoff_nofinish cfg h f
  unfold entry
  rw [hc]
  have hvr : (v == FR.rstack) = false := by cases v <;> simp_all
  have hpush : ∀ (F0 : Frame), F0.written = false → F0.endT = 0 →
      (entryFilterRecord cfg { s with warned := false, filt := flt, enabled := false, frames := F0 :: mark s.frames,
                                      out := s.out ++ pend s.frames } (cfg.trig f)).out = s.out ++ pend s.frames ∧
      OffI (entryFilterRecord cfg { s with warned := false, filt := flt, enabled := false, frames := F0 :: mark s.frames,
                                           out := s.out ++ pend s.frames } (cfg.trig f)) ∧
      (entryFilterRecord cfg { s with warned := false, filt := flt, enabled := false, frames := F0 :: mark s.frames,
                                      out := s.out ++ pend s.frames } (cfg.trig f)).frames.length =
        s.frames.length + 1 := by
    intro F0 hw he
    obtain ⟨o, e, ov, F', hw', hs', hf'⟩ := entryFilterRecord_off' cfg h.fast
      { s with warned := false, filt := flt, enabled := false, frames := F0 :: mark s.frames,
               out := s.out ++ pend s.frames } F0 (mark s.frames) (cfg.trig f) hfin rfl rfl hw he hm
    refine ⟨o, ⟨e, ?_, by rw [ov]; exact hov⟩, by rw [hf']; simp [mark_length]⟩
    rw [hf']
    intro G hG hsk
    simp only [List.mem_cons] at hG
    rcases hG with rfl | hG
    · rw [hs'] at hsk; exact absurd hsk (by decide)
    · exact haw G hG hsk
  cases k with
  | pg =>
    simp only [hvr, Bool.false_or]
    split
    · exact ⟨rfl, ⟨rfl, haw, hov⟩, Or.inl ⟨rfl, mark_length _⟩⟩
    · obtain ⟨o, i, l⟩ := hpush { addr := f, start := t0, depth := s.recordIdx, norecord := v != FR.in_ } rfl rfl
      exact ⟨o, i, Or.inr ⟨rfl, l⟩⟩
  | cyg =>
    simp only [hvr, Bool.false_eq_true, ↓reduceIte]
    obtain ⟨o, i, l⟩ := hpush
      { addr := f, start := if (v == FR.in_) = true then t0 else 0, depth := s.recordIdx, cyg := true,
        norecord := !(v == FR.in_) } rfl rfl
    exact ⟨o, i, Or.inr ⟨by first | rfl | trivial, l⟩⟩

/-- still tracing: as without trace_off triggers (`rec_calls`) -/
def OnPost (cfg : Cfg) (s s' : St) (E : Env) (d : Nat) (recs : List Rec) : Prop :=
  s'.out = s.out ++ (if recs = [] then [] else pend s.frames) ++ recs ∧
  s'.frames = (if recs = [] then s.frames else mark s.frames) ∧ RRel cfg s' E d

/-- tracing went off: everything owed was written at that point, nothing since -/
def OffPost (s s' : St) (recs : List Rec) : Prop :=
  s'.out = s.out ++ pend s.frames ++ recs ∧ OffI s' ∧ s'.frames.length = s.frames.length

theorem durOk_off (cfg : Cfg) (h : FNDoff cfg) (x : Nat) : durOk cfg x cfg.threshold = true := by
  rw [h.thr]; exact durOk_fixed cfg h.s4 x


theorem offCalls_nil_iff (R : RCfg) (E : Env) (d : Nat) : offCalls R E d .nil = ([], true) := rfl

/-- one call, given what its callees do -/
theorem offR_node (cfg : Cfg) (h : FNDoff cfg) (k : Kind) (f t0 t1 : Nat) (kids : Calls) (s : St) (E : Env) (d : Nat)
    (hr : RRel cfg s E d) (hinv : Flush.Inv s) (hlen : s.frames.length < cfg.maxStack) (ht1 : t1 ≠ 0)
    (hkh : s.frames.length + 1 + kids.height ≤ cfg.maxStack)
    (ih : ∀ (s1 : St) (E1 : Env) (d1 : Nat), RRel cfg s1 E1 d1 → Flush.Inv s1 →
      s1.frames.length ≤ s.frames.length + 1 →
      ((offCalls (RCfg.ofRecord cfg) E1 d1 kids).2 = true →
        OnPost cfg s1 (runCalls cfg k s1 kids) E1 d1 (offCalls (RCfg.ofRecord cfg) E1 d1 kids).1) ∧
      ((offCalls (RCfg.ofRecord cfg) E1 d1 kids).2 = false →
        OffPost s1 (runCalls cfg k s1 kids) (offCalls (RCfg.ofRecord cfg) E1 d1 kids).1)) :
    ((offCall (RCfg.ofRecord cfg) E d (.node f t0 t1 kids)).2 = true →
      OnPost cfg s (runCall cfg k s (.node f t0 t1 kids)) E d (offCall (RCfg.ofRecord cfg) E d (.node f t0 t1 kids)).1) ∧
    ((offCall (RCfg.ofRecord cfg) E d (.node f t0 t1 kids)).2 = false →
      OffPost s (runCall cfg k s (.node f t0 t1 kids)) (offCall (RCfg.ofRecord cfg) E d (.node f t0 t1 kids)).1) := by
  have hq := fnd_quietCfg cfg h
  have hfi := fires_iff cfg h s E d hr f
  by_cases hf : fires (RCfg.ofRecord cfg) E f = true
  · -- the trace_off trigger of f is reached
    obtain ⟨eo, ei, es⟩ := entry_fires cfg h k s f t0 (hfi.mp hf) hlen hr.over hr.en hinv
    simp only [offCall, hf, ↓reduceIte, runCall]
    refine ⟨fun hx => absurd hx (by decide), fun _ => ?_⟩
    rcases es with ⟨e2, el⟩ | ⟨e2, el⟩
    · obtain ⟨ko, ki, kf⟩ := off_calls cfg h.fast (fnoff_noon cfg h) (fnoff_nofinish cfg h) k kids _ ei
        (by rw [el]; omega)
      simp only [e2, Bool.false_eq_true, ↓reduceIte]
      exact ⟨by rw [ko, eo]; simp, ki, by rw [kf, el]⟩
    · obtain ⟨ko, ki, kf⟩ := off_calls cfg h.fast (fnoff_noon cfg h) (fnoff_nofinish cfg h) k kids _ ei
        (by rw [el]; omega)
      obtain ⟨xo, xi, xf⟩ := exit_off cfg h.fast _ t1 ki
      simp only [e2, ↓reduceIte]
      refine ⟨by rw [xo, ko, eo]; simp, xi, ?_⟩
      rw [xf, kf]
      simp only [List.length_tail, el]
      omega
  · -- not reached: the hooks behave as without the trigger
    have hf' : fires (RCfg.ofRecord cfg) E f = false := by simpa using hf
    have hnf : ¬ firesR cfg s f := fun hx => hf (hfi.mpr hx)
    have heq := entry_quiet cfg h k s f t0 hnf
    obtain ⟨eo, erel, eshape⟩ := entry_fnd (quietCfg cfg) hq k s E d f t0 (rrel_quiet cfg s E d hr) hlen
    rw [← heq] at eo erel eshape
    rw [visit_quietCfg cfg h] at erel eshape
    have hcore := core_runCall_off cfg h k (.node f t0 t1 kids) s hr.over
    have hinv1 := Flush.inv_entry cfg k s f t0 hinv
    simp only [offCall, hf', Bool.false_eq_true, ↓reduceIte]
    generalize hv : visit (RCfg.ofRecord cfg) E f = v at eo erel eshape
    obtain ⟨vis, Ek⟩ := v
    simp only at erel eshape ⊢
    simp only [runCall]
    generalize hs1 : (entry cfg k s f t0).1 = s1 at eo erel eshape hinv1
    generalize htook : (entry cfg k s f t0).2 = took at eshape
    have erel' : RRel cfg s1 Ek (if vis then d + 1 else d) := rrel_unquiet cfg _ _ _ erel
    rcases eshape with ⟨htk, F, hfr, hnr, hw, hdis, htrc, hcal, hend, haddr, hdep, hstart⟩ | ⟨htk, hfr, hvis⟩
    · -- a frame was pushed
      subst htk
      simp only [↓reduceIte]
      obtain ⟨kon, koff⟩ := ih s1 Ek (if vis then d + 1 else d) erel' hinv1 (by rw [hfr]; simp)
      generalize hs2 : runCalls cfg k s1 kids = s2 at kon koff
      have hrun : runCall cfg k s (.node f t0 t1 kids) = exit cfg s2 t1 := by
        simp only [runCall, hs1, htook, ↓reduceIte, hs2]
      cases hrk : (offCalls (RCfg.ofRecord cfg) Ek (if vis then d + 1 else d) kids).2 with
      | true =>
        -- the callees leave tracing on
        obtain ⟨ko, kf, krel⟩ := kon hrk
        have hen2 : (exit cfg s2 t1).enabled = true := by rw [exit_enabled]; exact krel.en
        have hrel : RRel cfg (exit cfg s2 t1) E d := by
          rw [← hrun]
          exact rrel_of_core cfg s _ E d hcore (by rw [hrun]; exact hen2) hr
        have hexq : exit cfg s2 t1 = exit (quietCfg cfg) s2 t1 := rfl
        have hdur : ∀ x, durOk (quietCfg cfg) x (quietCfg cfg).threshold = true := fun x => durOk_off cfg h x
        cases vis with
        | false =>
          simp only [Bool.not_false] at hnr
          obtain ⟨p1, p2⟩ := pend_cons_skip F s.frames hw hnr
          simp only [Bool.false_eq_true, ↓reduceIte] at ko kf hrk ⊢
          refine ⟨fun _ => ?_, fun hx => absurd hx (by simp [hrk])⟩
          by_cases hek : (offCalls (RCfg.ofRecord cfg) Ek d kids).1 = []
          · simp only [hek, ↓reduceIte, List.append_nil] at ko kf ⊢
            have hx := exit_fnd (quietCfg cfg) hq s2 F s.frames t1 (by rw [kf, hfr]) krel.over krel.en krel.time hdis
              htrc ht1
            simp only [hnr, Bool.true_or, ↓reduceIte, Bool.not_true, Bool.false_and, Bool.false_eq_true] at hx
            rw [← hexq] at hx
            exact ⟨by rw [hx.1, ko, eo]; simp [hek], by rw [hx.2]; simp [hek], hrel⟩
          · simp only [hek, ↓reduceIte] at ko kf ⊢
            have hx := exit_fnd (quietCfg cfg) hq s2 F (mark s.frames) t1 (by rw [kf, hfr, p2]) krel.over krel.en
              krel.time hdis htrc ht1
            simp only [hnr, Bool.true_or, ↓reduceIte, Bool.not_true, Bool.false_and, Bool.false_eq_true] at hx
            rw [← hexq] at hx
            exact ⟨by rw [hx.1, ko, eo, hfr, p1]; simp [hek], by rw [hx.2]; simp [hek], hrel⟩
        | true =>
          simp only [Bool.not_true] at hnr
          obtain ⟨p1, p2⟩ := pend_cons_vis F s.frames hw hnr hdis
          have hst : F.start = t0 := hstart rfl
          have hER : entryRec F = { time := t0, type := 0, depth := d, addr := f } := by
            simp [entryRec, hst, hdep, haddr]
          simp only [↓reduceIte] at ko kf hrk ⊢
          refine ⟨fun _ => ?_, fun hx => absurd hx (by simp [hrk])⟩
          have hne : ([{ time := t0, type := 0, depth := d, addr := f }] ++
              (offCalls (RCfg.ofRecord cfg) Ek (d + 1) kids).1 ++ [{ time := t1, type := 1, depth := d, addr := f }] : List Rec) ≠ [] := by
            simp
          unfold OnPost
          simp only [hne, ↓reduceIte]
          by_cases hek : (offCalls (RCfg.ofRecord cfg) Ek (d + 1) kids).1 = []
          · simp only [hek, ↓reduceIte, List.append_nil] at ko kf ⊢
            have hx := exit_fnd (quietCfg cfg) hq s2 F s.frames t1 (by rw [kf, hfr]) krel.over krel.en krel.time hdis
              htrc ht1
            simp only [hnr, hw, Bool.false_or, Bool.or_false, Bool.not_false, Bool.true_and, Bool.and_true,
              Bool.false_eq_true, ↓reduceIte, hst, hdur, Bool.not_true] at hx
            rw [← hexq] at hx
            refine ⟨?_, ?_, hrel⟩
            · rw [hx.1, ko, eo, hER, hdep, haddr]; simp [List.append_assoc]
            · rw [hx.2]
          · simp only [hek, ↓reduceIte] at ko kf ⊢
            have hx := exit_fnd (quietCfg cfg) hq s2 { F with written := true } (mark s.frames) t1 (by rw [kf, hfr, p2])
              krel.over krel.en krel.time hdis htrc ht1
            simp only [hnr, Bool.or_true, Bool.not_true, Bool.or_false, Bool.false_eq_true, ↓reduceIte,
              Bool.and_false, List.nil_append] at hx
            rw [← hexq] at hx
            refine ⟨?_, ?_, hrel⟩
            · rw [hx.1, ko, eo, hfr, p1, hER, hdep, haddr]; simp [List.append_assoc]
            · rw [hx.2]
      | false =>
        -- tracing goes off in a callee
        obtain ⟨ko, ki, kl⟩ := koff hrk
        obtain ⟨xo, xi, xf⟩ := exit_off cfg h.fast s2 t1 ki
        have hlen2 : (exit cfg s2 t1).frames.length = s.frames.length := by
          rw [xf]; simp only [List.length_tail, kl, hfr, List.length_cons]; omega
        cases vis with
        | false =>
          simp only [Bool.not_false] at hnr
          obtain ⟨p1, p2⟩ := pend_cons_skip F s.frames hw hnr
          simp only [Bool.false_eq_true, ↓reduceIte] at ko hrk ⊢
          refine ⟨fun hx => absurd hx (by simp [hrk]), fun _ => ?_⟩
          exact ⟨by rw [xo, ko, eo, hfr, p1], xi, hlen2⟩
        | true =>
          simp only [Bool.not_true] at hnr
          obtain ⟨p1, p2⟩ := pend_cons_vis F s.frames hw hnr hdis
          have hst : F.start = t0 := hstart rfl
          have hER : entryRec F = { time := t0, type := 0, depth := d, addr := f } := by
            simp [entryRec, hst, hdep, haddr]
          simp only [↓reduceIte] at ko hrk ⊢
          refine ⟨fun hx => absurd hx (by simp [hrk]), fun _ => ?_⟩
          refine ⟨?_, xi, hlen2⟩
          rw [xo, ko, eo, hfr, p1, hER]
          simp [hrk, List.append_assoc]
    · -- -pg hook that did not take the call: no frame, nothing to undo
      subst htk
      subst hvis
      simp only [Bool.false_eq_true, ↓reduceIte] at erel' ⊢
      obtain ⟨kon, koff⟩ := ih s1 Ek d erel' hinv1 (by rw [hfr]; omega)
      have hrun : runCall cfg k s (.node f t0 t1 kids) = runCalls cfg k s1 kids := by
        simp only [runCall, hs1, htook, Bool.false_eq_true, ↓reduceIte]
      refine ⟨fun hx => ?_, fun hx => ?_⟩
      · obtain ⟨ko, kf, krel⟩ := kon hx
        have hrel : RRel cfg (runCalls cfg k s1 kids) E d := by
          rw [← hrun]
          exact rrel_of_core cfg s _ E d hcore (by rw [hrun]; exact krel.en) hr
        exact ⟨by rw [ko, eo, hfr], by rw [kf, hfr], hrel⟩
      · obtain ⟨ko, ki, kl⟩ := koff hx
        exact ⟨by rw [ko, eo, hfr], ki, by rw [kl, hfr]⟩


mutual
theorem offR_call (cfg : Cfg) (h : FNDoff cfg) (k : Kind) : ∀ (x : Call) (s : St) (E : Env) (d : Nat),
    RRel cfg s E d → Flush.Inv s → s.frames.length + x.height ≤ cfg.maxStack → x.ended →
    ((offCall (RCfg.ofRecord cfg) E d x).2 = true →
      OnPost cfg s (runCall cfg k s x) E d (offCall (RCfg.ofRecord cfg) E d x).1) ∧
    ((offCall (RCfg.ofRecord cfg) E d x).2 = false →
      OffPost s (runCall cfg k s x) (offCall (RCfg.ofRecord cfg) E d x).1)
  | .node f t0 t1 kids, s, E, d, hr, hinv, hh, he => by
    simp only [Call.height] at hh
    simp only [Call.ended] at he
    exact offR_node cfg h k f t0 t1 kids s E d hr hinv (by omega) he.1 (by omega)
      (fun s1 E1 d1 hr1 hi1 hl => offR_calls cfg h k kids s1 E1 d1 hr1 hi1 (by omega) he.2)
theorem offR_calls (cfg : Cfg) (h : FNDoff cfg) (k : Kind) : ∀ (xs : Calls) (s : St) (E : Env) (d : Nat),
    RRel cfg s E d → Flush.Inv s → s.frames.length + xs.height ≤ cfg.maxStack → xs.ended →
    ((offCalls (RCfg.ofRecord cfg) E d xs).2 = true →
      OnPost cfg s (runCalls cfg k s xs) E d (offCalls (RCfg.ofRecord cfg) E d xs).1) ∧
    ((offCalls (RCfg.ofRecord cfg) E d xs).2 = false →
      OffPost s (runCalls cfg k s xs) (offCalls (RCfg.ofRecord cfg) E d xs).1)
  | .nil, s, E, d, hr, _, _, _ => by
    refine ⟨fun _ => ?_, fun hx => absurd hx (by simp [offCalls])⟩
    simp [OnPost, offCalls, runCalls, hr]
  | .cons x rest, s, E, d, hr, hinv, hh, he => by
    simp only [Calls.height] at hh
    simp only [Calls.ended] at he
    obtain ⟨xon, xoff⟩ := offR_call cfg h k x s E d hr hinv (by omega) he.1
    simp only [runCalls, offCalls]
    cases hx : (offCall (RCfg.ofRecord cfg) E d x).2 with
    | true =>
      obtain ⟨xo, xf, xr⟩ := xon hx
      have hlen : (runCall cfg k s x).frames.length = s.frames.length := by
        rw [xf]; split
        · rfl
        · exact mark_length _
      obtain ⟨ron, roff⟩ := offR_calls cfg h k rest (runCall cfg k s x) E d xr (Flush.inv_runCall cfg k x s hinv)
        (by rw [hlen]; omega) he.2
      simp only [↓reduceIte]
      generalize (offCall (RCfg.ofRecord cfg) E d x).1 = ex at xo xf
      generalize hrr : offCalls (RCfg.ofRecord cfg) E d rest = rr at ron roff
      obtain ⟨er, br⟩ := rr
      simp only at ron roff ⊢
      refine ⟨fun hb => ?_, fun hb => ?_⟩
      · obtain ⟨ro, rf, rrl⟩ := ron hb
        refine ⟨?_, ?_, rrl⟩
        · rw [ro, xo, xf]
          by_cases hxe : ex = []
          · subst hxe; simp
          · by_cases hre : er = []
            · subst hre; simp [hxe]
            · simp [hxe, hre, pend_mark, List.append_assoc]
        · rw [rf, xf]
          by_cases hxe : ex = []
          · subst hxe; simp
          · by_cases hre : er = []
            · subst hre; simp [hxe]
            · simp [hxe, hre, mark_mark]
      · obtain ⟨ro, ri, rl⟩ := roff hb
        refine ⟨?_, ri, by rw [rl, hlen]⟩
        rw [ro, xo, xf]
        by_cases hxe : ex = []
        · subst hxe; simp
        · simp [hxe, pend_mark, List.append_assoc]
    | false =>
      obtain ⟨xo, xi, xl⟩ := xoff hx
      obtain ⟨ro, ri, rf⟩ := off_calls cfg h.fast (fnoff_noon cfg h) (fnoff_nofinish cfg h) k rest _ xi
        (by rw [xl]; omega)
      simp only [Bool.false_eq_true, ↓reduceIte, hx]
      refine ⟨fun hb => absurd hb (by decide), fun _ => ?_⟩
      exact ⟨by rw [ro, xo], ri, by rw [rf, xl]⟩
end

/-- C07, record side with trace_off triggers: what the hooks write for a forest under -F / -N / -D and
    trace_off triggers is the documented selection up to the first trace_off trigger that is reached -/
theorem record_out_off (cfg : Cfg) (h : FNDoff cfg) (k : Kind) (cs : Calls) (hh : cs.height ≤ cfg.maxStack)
    (he : cs.ended) :
    (runCalls cfg k (St.init cfg) cs).out =
      (offCalls (RCfg.ofRecord cfg) (Env.init (RCfg.ofRecord cfg)) 0 cs).1 := by
  have hr : RRel cfg (St.init cfg) (Env.init (RCfg.ofRecord cfg)) 0 := by
    constructor <;> simp [St.init, Env.init, RCfg.ofRecord, h.minSize, h.en]
  obtain ⟨on, off⟩ := offR_calls cfg h k cs (St.init cfg) (Env.init (RCfg.ofRecord cfg)) 0 hr (Flush.inv_init cfg)
    (by simp [St.init]; exact hh) he
  cases hb : (offCalls (RCfg.ofRecord cfg) (Env.init (RCfg.ofRecord cfg)) 0 cs).2 with
  | true =>
    obtain ⟨o, _, _⟩ := on hb
    rw [o]; simp [St.init, pend, flushBelow]
  | false =>
    obtain ⟨o, _, _⟩ := off hb
    rw [o]; simp [St.init, pend, flushBelow]

end Uft.Fstack

/-! # Part C: both times -/
namespace Uft.Fstack
open Uft.Mcount (Rec Trigger Call Calls evCall evCalls)

/-- every command is the fstack_check_filter loop on the look-ahead's output (no --no-libcall, no -r; any
    trigger table): replay by the simulation of FstackSim, script by `stepC_eq_stepA` -/
theorem cmdOut_stepA (c : RCfg) (hnl : c.noLibcall = false) (hr : NoRange c) (xs : Calls) (ho : Calls.ordered xs)
    (cmd : Cmd) :
    cmdOut c cmd (evCalls 0 xs) = runSteps (stepA c) (FS.init c) (lookahead c (evCalls 0 xs)) := by
  have hla := lookahead_forest c hr xs ho
  cases cmd with
  | replay =>
    show runB c ⟨FS.init c, none⟩ (lookahead c (evCalls 0 xs)) = _
    rw [hla, sim_run c hnl _ 0 (FS.init c) ⟨FS.init c, none⟩ [] (Sim.idle _ _) (WFD_forest _)]
    rfl
  | script =>
    show runSteps (stepC c) _ _ = _
    rw [stepC_eq_stepA c hnl]
  | report => rfl
  | graph => rfl
  | dump => rfl

/-- C07, replay side with trace_off triggers (no trace_on, no time filter of any kind): every command shows the
    documented selection up to the first trace_off trigger that is reached -/
theorem replay_out_off (c : RCfg) (hnl : c.noLibcall = false) (hr : NoRange c) (hen : c.enabled0 = true)
    (hno : NoOn c) (hnt : NoTimeFilter c) (xs : Calls) (ho : Calls.ordered xs) (cmd : Cmd) :
    cmdOut c cmd (evCalls 0 xs) = (offCalls c (Env.init c) 0 xs).1 := by
  have hg := good_initSet c hen hr
  rw [cmdOut_stepA c hnl hr xs ho cmd, lookahead_forest c hr xs ho, hnt.1, prune_id_calls c hnt, runSteps_init,
    ← run_snd, (offA_calls c hnl hno xs 0 (initSet c) hg.scSet hg.en hg.ds).1, envOf_initSet]
  rfl

end Uft.Fstack

namespace Uft.Fstack
open Uft.Mcount

mutual
theorem ended_of_nestOK : ∀ (x : Call), Call.nestOK x → x.ended
  | .node _ _ _ kids, h => by
    simp only [Call.nestOK] at h
    simp only [Call.ended]
    exact ⟨h.2.1, ended_of_allDurLe kids _ h.2.2⟩
theorem ended_of_allDurLe : ∀ (xs : Calls) (n : Nat), Calls.allDurLe n xs → xs.ended
  | .nil, _, _ => trivial
  | .cons x rest, n, h => by
    simp only [Calls.allDurLe] at h
    simp only [Calls.ended]
    exact ⟨ended_of_nestOK x h.2.1, ended_of_allDurLe rest n h.2.2⟩
end

/-- record time = replay time for -F / -N / -D with trace_off triggers -/
theorem record_eq_replay_off (cfg : Cfg) (h : FNDoff cfg) (k : Kind) (cs : Calls) (n : Nat)
    (hh : cs.height ≤ cfg.maxStack) (hn : Calls.allDurLe n cs) (cmd : Cmd) :
    (runCalls cfg k (St.init cfg) cs).out = cmdOut (RCfg.ofRecord cfg) cmd (evCalls 0 cs) := by
  have hno : NoOn (RCfg.ofRecord cfg) := fun f => fnoff_noon cfg h f
  have hnt : NoTimeFilter (RCfg.ofRecord cfg) :=
    ⟨h.thr, h.caller, fun f => by show (cfg.trig f).time = none; rw [h.trig f]⟩
  rw [record_out_off cfg h k cs hh (ended_of_allDurLe cs n hn),
    replay_out_off (RCfg.ofRecord cfg) rfl ⟨rfl, rfl⟩ h.en hno hnt cs (ordered_of_allDurLe cs n hn) cmd]

end Uft.Fstack
