import Uft.Model.PyHook
import Uft.Lemmas.PyTrace
import Uft.Lemmas.McountOverflow
import Uft.Lemmas.StreamShape
/- helper lemmas for the end-to-end part of Props/C19 (Model/PyHook.lean) -/
namespace Uft.PyHook
open Uft.PyTrace

variable {β : Type}

/-- `strcmp(a, b) == 0` exactly for equal names — all the lookup needs of the comparison -/
def CmpEq (cmp : β → β → Ordering) : Prop := ∀ a b, cmp a b = .eq ↔ a = b

/-! ### the tree: lookup after link -/

theorem find_link_self (cmp : β → β → Ordering) (hc : CmpEq cmp) : ∀ (t : Tree β) (x : Sym β),
    t.find cmp x.name = none → (t.link cmp x).find cmp x.name = some x
  | .leaf, x, _ => by
    simp [Tree.link, Tree.find, (hc x.name x.name).2 rfl]
  | .node l s r, x, h => by
    simp only [Tree.find] at h
    simp only [Tree.link]
    cases hcm : cmp s.name x.name with
    | eq => simp [hcm] at h
    | lt =>
      simp only [hcm] at h
      simp only [Tree.find, hcm]
      exact find_link_self cmp hc l x h
    | gt =>
      simp only [hcm] at h
      simp only [Tree.find, hcm]
      exact find_link_self cmp hc r x h

theorem find_link_other (cmp : β → β → Ordering) (hc : CmpEq cmp) : ∀ (t : Tree β) (x : Sym β) (n : β),
    t.find cmp x.name = none → n ≠ x.name → (t.link cmp x).find cmp n = t.find cmp n
  | .leaf, x, n, _, hn => by
    have : cmp x.name n ≠ .eq := fun h => hn ((hc _ _).1 h).symm
    simp only [Tree.link, Tree.find]
    cases hcm : cmp x.name n <;> simp_all
  | .node l s r, x, n, h, hn => by
    simp only [Tree.find] at h
    simp only [Tree.link]
    cases hcm : cmp s.name x.name with
    | eq => simp [hcm] at h
    | lt =>
      simp only [hcm] at h
      simp only [Tree.find]
      cases hcn : cmp s.name n with
      | eq => rfl
      | lt => exact find_link_other cmp hc l x n h hn
      | gt => rfl
    | gt =>
      simp only [hcm] at h
      simp only [Tree.find]
      cases hcn : cmp s.name n with
      | eq => rfl
      | lt => rfl
      | gt => exact find_link_other cmp hc r x n h hn

/-! ### `convert_function_addr` -/

/-- the symbol handed back is the one the tree holds for the name afterwards -/
theorem find_convert (cmp : β → β → Ordering) (hc : CmpEq cmp) (isLib : β → Bool) (t : Tree β) (shm : Shm β)
    (n : β) : (convert cmp isLib t shm n).1.find cmp n = some (convert cmp isLib t shm n).2.2 := by
  unfold convert
  cases h : t.find cmp n with
  | some s => simp [h]
  | none =>
    simp only
    exact find_link_self cmp hc t _ h

/-- an entry, once in the tree, is never changed by later lookups -/
theorem convert_keeps (cmp : β → β → Ordering) (hc : CmpEq cmp) (isLib : β → Bool) (t : Tree β) (shm : Shm β)
    (n m : β) (s : Sym β) (h : t.find cmp m = some s) :
    (convert cmp isLib t shm n).1.find cmp m = some s := by
  unfold convert
  cases hn : t.find cmp n with
  | some s' => simpa [hn] using h
  | none =>
    simp only
    have hne : m ≠ n := by
      intro e; subst e; simp [hn] at h
    rw [find_link_other cmp hc t _ m hn hne]
    exact h

/-- a lookup that finds nothing new leaves tree and region alone -/
theorem convert_found (cmp : β → β → Ordering) (isLib : β → Bool) (t : Tree β) (shm : Shm β) (n : β) (s : Sym β)
    (h : t.find cmp n = some s) : convert cmp isLib t shm n = (t, shm, s) := by
  simp [convert, h]

/-! ### the shared region and the trees that refer to it -/

structure ShmOk (shm : Shm β) : Prop where
  cnt : shm.count = shm.lines.length
  pos : ∀ (i : Nat) (h : i < shm.lines.length), (shm.lines[i]).addr = i + 1

/-- every entry of the tree is what the region says about its address -/
def TreeOk (cmp : β → β → Ordering) (isLib : β → Bool) (shm : Shm β) (t : Tree β) : Prop :=
  ∀ n s, t.find cmp n = some s →
    s.name = n ∧ s.lib = isLib n ∧ ∃ l ∈ shm.lines, l.addr = s.addr ∧ l.lib = s.lib ∧ l.name = n

theorem shmOk_empty : ShmOk (Shm.empty : Shm β) := ⟨rfl, fun i h => by simp [Shm.empty] at h⟩

theorem treeOk_leaf (cmp : β → β → Ordering) (isLib : β → Bool) (shm : Shm β) : TreeOk cmp isLib shm .leaf := by
  intro n s h; simp [Tree.find] at h

theorem shmOk_newSym (shm : Shm β) (n : β) (lib : Bool) (h : ShmOk shm) : ShmOk (newSym shm n lib).1 := by
  refine ⟨by simp [newSym, h.cnt], ?_⟩
  intro i hi
  simp only [newSym, List.length_append, List.length_cons, List.length_nil] at hi
  by_cases hlt : i < shm.lines.length
  · simp only [newSym]
    rw [List.getElem_append_left hlt]
    exact h.pos i hlt
  · have : i = shm.lines.length := by omega
    subst this
    simp [newSym, h.cnt]

theorem convert_shm_mono (cmp : β → β → Ordering) (isLib : β → Bool) (t : Tree β) (shm : Shm β) (n : β) :
    ∃ extra, (convert cmp isLib t shm n).2.1.lines = shm.lines ++ extra := by
  unfold convert
  cases h : t.find cmp n with
  | some s => exact ⟨[], by simp⟩
  | none => exact ⟨_, rfl⟩

theorem convert_shmOk (cmp : β → β → Ordering) (isLib : β → Bool) (t : Tree β) (shm : Shm β) (n : β)
    (h : ShmOk shm) : ShmOk (convert cmp isLib t shm n).2.1 := by
  unfold convert
  cases hf : t.find cmp n with
  | some s => simpa using h
  | none => simpa using shmOk_newSym shm n (isLib n) h

/-- a tree that was fine for a region stays fine when the region grows -/
theorem treeOk_mono (cmp : β → β → Ordering) (isLib : β → Bool) (shm shm' : Shm β) (t : Tree β) (extra : List (Line β))
    (he : shm'.lines = shm.lines ++ extra) (h : TreeOk cmp isLib shm t) : TreeOk cmp isLib shm' t := by
  intro n s hf
  obtain ⟨h1, h2, l, hl, h3⟩ := h n s hf
  exact ⟨h1, h2, l, by rw [he]; exact List.mem_append_left _ hl, h3⟩

theorem convert_treeOk (cmp : β → β → Ordering) (hc : CmpEq cmp) (isLib : β → Bool) (t : Tree β) (shm : Shm β)
    (n : β) (h : TreeOk cmp isLib shm t) :
    TreeOk cmp isLib (convert cmp isLib t shm n).2.1 (convert cmp isLib t shm n).1 := by
  unfold convert
  cases hf : t.find cmp n with
  | some s => simpa using h
  | none =>
    simp only
    intro m s hm
    by_cases hmn : m = n
    · subst hmn
      rw [find_link_self cmp hc t ⟨m, (newSym shm m (isLib m)).2, isLib m⟩ hf] at hm
      cases hm
      exact ⟨rfl, rfl, ⟨shm.count + 1, isLib m, m⟩, by simp [newSym], rfl, rfl, rfl⟩
    · rw [find_link_other cmp hc t ⟨n, _, _⟩ m hf hmn] at hm
      obtain ⟨h1, h2, l, hl, h3⟩ := h m s hm
      exact ⟨h1, h2, l, by simp [newSym, hl], h3⟩

/-! ### the `.sym` file resolves the addresses of the region -/

theorem resolve_consec : ∀ (L : List (SymLine β)) (b j : Nat),
    (∀ (i : Nat) (h : i < L.length), (L[i]).addr = b + i) → (hj : j + 1 < L.length) →
    resolve L (b + j) = (L[j]'(by omega)).name
  | [], _, _, _, hj => by simp at hj
  | [_], _, _, _, hj => by simp at hj
  | x :: y :: rest, b, j, hc, hj => by
    have hx : x.addr = b := by
      have := hc 0 (by simp)
      simp only [List.getElem_cons_zero] at this
      omega
    have hy : y.addr = b + 1 := by
      have := hc 1 (by simp)
      simp only [List.getElem_cons_succ, List.getElem_cons_zero] at this
      omega
    cases j with
    | zero => simp [resolve, hx, hy]
    | succ j' =>
      have hnot : ¬ (x.addr ≤ b + (j' + 1) ∧ b + (j' + 1) < y.addr) := by omega
      simp only [resolve, hnot, ↓reduceIte]
      have := resolve_consec (y :: rest) (b + 1) j'
        (fun i h => by
          have := hc (i + 1) (by simpa using h)
          simp only [List.getElem_cons_succ] at this
          omega)
        (by simpa using hj)
      have e : b + (j' + 1) = b + 1 + j' := by omega
      rw [e, this]
      simp

theorem symFile_consec (shm : Shm β) (h : ShmOk shm) (i : Nat) (hi : i < (symFile shm).length) :
    ((symFile shm)[i]).addr = 1 + i := by
  simp only [symFile, List.length_append, List.length_map, List.length_cons, List.length_nil] at hi
  by_cases hlt : i < shm.lines.length
  · simp only [symFile]
    rw [List.getElem_append_left (by simpa using hlt)]
    simp only [List.getElem_map]
    have := h.pos i hlt
    omega
  · have : i = shm.lines.length := by omega
    subst this
    simp [symFile, h.cnt]; omega

/-- every line of the region is found again, by its address, in the written file -/
theorem resolve_line (shm : Shm β) (h : ShmOk shm) (l : Line β) (hl : l ∈ shm.lines) :
    resolve (symFile shm) l.addr = some l.name := by
  obtain ⟨i, hi, rfl⟩ := List.getElem_of_mem hl
  have hp := h.pos i hi
  have hlen : i + 1 < (symFile shm).length := by simp [symFile]; omega
  have := resolve_consec (symFile shm) 1 i (fun k hk => symFile_consec shm h k hk) hlen
  have e : (shm.lines[i]).addr = 1 + i := by omega
  rw [e, this]
  simp only [symFile]
  rw [List.getElem_append_left (by simpa using hi)]
  simp

/-- two lines of a well-formed region with the same address are the same line -/
theorem line_addr_inj (shm : Shm β) (h : ShmOk shm) (l1 l2 : Line β) (h1 : l1 ∈ shm.lines) (h2 : l2 ∈ shm.lines)
    (e : l1.addr = l2.addr) : l1 = l2 := by
  obtain ⟨i, hi, rfl⟩ := List.getElem_of_mem h1
  obtain ⟨j, hj, rfl⟩ := List.getElem_of_mem h2
  have := h.pos i hi
  have := h.pos j hj
  have : i = j := by omega
  subst this
  rfl

/-! ### several processes -/

structure WorldOk (cmp : β → β → Ordering) (isLib : β → Bool) (w : World β) : Prop where
  shm : ShmOk w.shm
  trees : ∀ p, TreeOk cmp isLib w.shm (w.trees p)

theorem worldOk_init (cmp : β → β → Ordering) (isLib : β → Bool) : WorldOk cmp isLib (World.init : World β) :=
  ⟨shmOk_empty, fun _ => treeOk_leaf cmp isLib _⟩

theorem worldOk_step (cmp : β → β → Ordering) (hc : CmpEq cmp) (isLib : β → Bool) (w : World β) (op : Op β)
    (h : WorldOk cmp isLib w) : WorldOk cmp isLib (w.step cmp isLib op) := by
  cases op with
  | lookup p n =>
    refine ⟨convert_shmOk cmp isLib _ _ n h.shm, ?_⟩
    intro q
    simp only [World.step]
    by_cases hq : q = p
    · subst hq
      simpa using convert_treeOk cmp hc isLib (w.trees q) w.shm n (h.trees q)
    · simp only [hq, ↓reduceIte]
      obtain ⟨extra, he⟩ := convert_shm_mono cmp isLib (w.trees p) w.shm n
      exact treeOk_mono cmp isLib w.shm _ (w.trees q) extra he (h.trees q)
  | fork p c =>
    refine ⟨h.shm, ?_⟩
    intro q
    simp only [World.step]
    by_cases hq : q = c
    · simp [hq]; exact h.trees p
    · simp [hq]; exact h.trees q

theorem worldOk_run (cmp : β → β → Ordering) (hc : CmpEq cmp) (isLib : β → Bool) : ∀ (ops : List (Op β)) (w : World β),
    WorldOk cmp isLib w → WorldOk cmp isLib (w.run cmp isLib ops)
  | [], _, h => h
  | op :: ops, w, h => by
    simp only [World.run, List.foldl]
    exact worldOk_run cmp hc isLib ops _ (worldOk_step cmp hc isLib w op h)

/-- the entry a process holds for a name survives everything that happens later, unless the
    pid is given to a new child -/
theorem world_keeps (cmp : β → β → Ordering) (hc : CmpEq cmp) (isLib : β → Bool) : ∀ (ops : List (Op β)) (w : World β)
    (p : Nat) (n : β) (s : Sym β), (∀ q c, Op.fork q c ∈ ops → c ≠ p) →
    (w.trees p).find cmp n = some s → ((w.run cmp isLib ops).trees p).find cmp n = some s
  | [], _, _, _, _, _, h => h
  | op :: ops, w, p, n, s, hf, h => by
    simp only [World.run, List.foldl]
    apply world_keeps cmp hc isLib ops _ p n s (fun q c hm => hf q c (List.mem_cons_of_mem _ hm))
    cases op with
    | lookup q m =>
      simp only [World.step]
      by_cases hq : p = q
      · subst hq
        simpa using convert_keeps cmp hc isLib (w.trees p) w.shm m n s h
      · simpa [hq] using h
    | fork q c =>
      have : c ≠ p := hf q c (by simp)
      simp only [World.step]
      have hpc : ¬ p = c := fun e => this e.symm
      simpa [hpc] using h

/-! ### libmcount's side: with the guard the wrapper is the shared hook model -/

/-- the shared model's reading of a hook call (its `exit` does nothing when no frame is open) -/
def mOut (cfg : Uft.Mcount.Cfg) (addr now : Nat) (m : Uft.Mcount.St) : Out (Node β) → Uft.Mcount.St
  | .enter _ => (Uft.Mcount.entry cfg .cyg m addr now).1
  | .exit => Uft.Mcount.exit cfg m now

theorem exit_idx_zero (cfg : Uft.Mcount.Cfg) (m : Uft.Mcount.St) (now : Nat) (h : m.idx = 0) :
    Uft.Mcount.exit cfg m now = m := by
  unfold Uft.Mcount.St.idx at h
  have h1 : m.over = 0 := by omega
  have h2 : m.frames = [] := List.eq_nil_of_length_eq_zero (by omega)
  simp [Uft.Mcount.exit, h1, h2]

theorem entry_cyg_snd (cfg : Uft.Mcount.Cfg) (m : Uft.Mcount.St) (a t : Nat) :
    (Uft.Mcount.entry cfg .cyg m a t).2 = true := by
  unfold Uft.Mcount.entry
  simp only
  split <;> rfl

/-- between hooks: a thread that never entered a hook has nothing on its stack; nothing outside
    the array has been touched -/
def HInv (s : HSt) : Prop := (s.prepared = false → s.m.idx = 0) ∧ s.oob = false

theorem hInv_init (h : HookCfg) : HInv (HSt.init h) := by
  simp [HInv, HSt.init, Uft.Mcount.St.init, Uft.Mcount.St.idx]

theorem hookOut_guard (h : HookCfg) (hg : h.guard = true) (a t : Nat) (s : HSt) (o : Out (Node β))
    (hi : HInv s) : (hookOut h a t s o).m = mOut h.m a t s.m o ∧ HInv (hookOut h a t s o) := by
  cases o with
  | enter n => simp [hookOut, cygEnter, mOut, HInv, hi.2]
  | exit =>
    simp only [hookOut, cygExit, mOut]
    cases hp : s.prepared with
    | false =>
      simp only [Bool.not_false, ↓reduceIte]
      exact ⟨(exit_idx_zero h.m s.m t (hi.1 hp)).symm, hi⟩
    | true =>
      simp only [Bool.not_true, Bool.false_eq_true, ↓reduceIte]
      by_cases hz : s.m.idx = 0
      · simp only [hz, ↓reduceIte, hg]
        exact ⟨(exit_idx_zero h.m s.m t hz).symm, hi⟩
      · simp only [hz, ↓reduceIte]
        constructor <;> simp [HInv, hp, hi.2]

theorem foldl_hookOut_guard (h : HookCfg) (hg : h.guard = true) (a t : Nat) : ∀ (os : List (Out (Node β))) (s : HSt),
    HInv s → (os.foldl (hookOut h a t) s).m = os.foldl (mOut h.m a t) s.m ∧ HInv (os.foldl (hookOut h a t) s)
  | [], _, hi => ⟨rfl, hi⟩
  | o :: os, s, hi => by
    obtain ⟨h1, h2⟩ := hookOut_guard h hg a t s o hi
    obtain ⟨h3, h4⟩ := foldl_hookOut_guard h hg a t os _ h2
    simp only [List.foldl]
    exact ⟨by rw [h3, h1], h4⟩

/-- the decision and the shared hook model only -/
def mstepA (c : PCfg β) (addr : β → Nat) (s : St × Uft.Mcount.St) (e : Ev (Node β)) : St × Uft.Mcount.St :=
  (stepSt (liftCfg c.py) s.1 e,
   (stepOut (liftCfg c.py) s.1 e).foldl (mOut c.hk.m (addr e.name.name) (evTime e)) s.2)

def mrunA (c : PCfg β) (addr : β → Nat) (s : St × Uft.Mcount.St) (evs : List (Ev (Node β))) : St × Uft.Mcount.St :=
  evs.foldl (mstepA c addr) s

theorem prunA_guard (c : PCfg β) (hg : c.hk.guard = true) (addr : β → Nat) : ∀ (evs : List (Ev (Node β)))
    (s : St × HSt), HInv s.2 →
    (prunA c addr s evs).1 = (mrunA c addr (s.1, s.2.m) evs).1 ∧
    (prunA c addr s evs).2.m = (mrunA c addr (s.1, s.2.m) evs).2 ∧ HInv (prunA c addr s evs).2
  | [], _, hi => ⟨rfl, rfl, hi⟩
  | e :: es, s, hi => by
    obtain ⟨h1, h2⟩ := foldl_hookOut_guard c.hk hg (addr e.name.name) (evTime e)
      (stepOut (liftCfg c.py) s.1 e) s.2 hi
    have := prunA_guard c hg addr es (pstepA c addr s e) h2
    simp only [prunA, mrunA, List.foldl] at this ⊢
    simp only [pstepA] at this
    simp only [pstepA, mstepA]
    rw [← h1]
    exact this

theorem mrunA_append (c : PCfg β) (addr : β → Nat) (s : St × Uft.Mcount.St) (a b : List (Ev (Node β))) :
    mrunA c addr s (a ++ b) = mrunA c addr (mrunA c addr s a) b := by
  simp [mrunA, List.foldl_append]

theorem mrunA_cons (c : PCfg β) (addr : β → Nat) (s : St × Uft.Mcount.St) (e : Ev (Node β)) (es : List (Ev (Node β))) :
    mrunA c addr s (e :: es) = mrunA c addr (mstepA c addr s e) es := rfl

/-! ### the composed machine on a call tree: the libmcount state after the events of a tree is
    the shared model's `runCalls` on the documented selection of that tree -/

theorem liftCfg_fixed (c : Cfg β) : (liftCfg c).fixed = c.fixed := rfl

mutual
theorem mrun_call (c : PCfg β) (hf : c.py.fixed = true) (addr : β → Nat) :
    ∀ (t : Call (Node β)) (s : St) (m : Uft.Mcount.St), WF (liftCfg c.py) s →
      (mrunA c addr (s, m) (events t)).1 = s ∧
      ∀ rest, Uft.Mcount.runCalls c.hk.m .cyg (mrunA c addr (s, m) (events t)).2 rest =
        Uft.Mcount.runCalls c.hk.m .cyg m (selCall (liftCfg c.py) addr (envA s) (envB s) (envL s) t rest)
  | .node n k kids, s, m, hw => by
    obtain ⟨w1, ha, hb, hl, ho1, hs2, ho2⟩ := node_step (liftCfg c.py) hf s hw n k
    simp only [events]
    rw [mrunA_cons, mrunA_append]
    -- the entry event
    have e1 : mstepA c addr (s, m) ⟨k.entry, n⟩ =
        (stepSt (liftCfg c.py) s ⟨k.entry, n⟩,
         (stepOut (liftCfg c.py) s ⟨k.entry, n⟩).foldl (mOut c.hk.m (addr n.name) n.t0) m) := by
      simp [mstepA, evTime]
    rw [e1]
    obtain ⟨k1, k2⟩ := mrun_calls c hf addr kids (stepSt (liftCfg c.py) s ⟨k.entry, n⟩)
      ((stepOut (liftCfg c.py) s ⟨k.entry, n⟩).foldl (mOut c.hk.m (addr n.name) n.t0) m) w1
    generalize hM : mrunA c addr (stepSt (liftCfg c.py) s ⟨k.entry, n⟩,
      (stepOut (liftCfg c.py) s ⟨k.entry, n⟩).foldl (mOut c.hk.m (addr n.name) n.t0) m) (eventsL kids) = M at k1 k2
    obtain ⟨M1, M2⟩ := M
    simp only at k1 k2
    subst k1
    -- the exit event
    have e2 : mrunA c addr (stepSt (liftCfg c.py) s ⟨k.entry, n⟩, M2) [⟨k.exit, n⟩] =
        (s, (stepOut (liftCfg c.py) (stepSt (liftCfg c.py) s ⟨k.entry, n⟩) ⟨k.exit, n⟩).foldl
          (mOut c.hk.m (addr n.name) n.t1) M2) := by
      simp [mrunA, mstepA, evTime, hs2]
    rw [e2]
    refine ⟨rfl, ?_⟩
    intro rest
    rw [ha, hb, hl, ho1] at k2
    rw [ho2]
    simp only [selCall]
    split
    · -- recorded: entry hook, callees, exit hook = `runCall` of the shared model
      rename_i htr
      simp only [htr, ↓reduceIte, List.foldl, mOut] at k2
      simp only [List.foldl, mOut, Uft.Mcount.runCalls, Uft.Mcount.runCall, entry_cyg_snd, ↓reduceIte]
      have := k2 .nil
      simp only [Uft.Mcount.runCalls] at this
      rw [← this]
    · rename_i htr
      simp only [htr, ↓reduceIte, List.foldl, Bool.false_eq_true] at k2
      simp only [List.foldl]
      exact k2 rest
theorem mrun_calls (c : PCfg β) (hf : c.py.fixed = true) (addr : β → Nat) :
    ∀ (ts : Calls (Node β)) (s : St) (m : Uft.Mcount.St), WF (liftCfg c.py) s →
      (mrunA c addr (s, m) (eventsL ts)).1 = s ∧
      ∀ rest, Uft.Mcount.runCalls c.hk.m .cyg (mrunA c addr (s, m) (eventsL ts)).2 rest =
        Uft.Mcount.runCalls c.hk.m .cyg m (selCalls (liftCfg c.py) addr (envA s) (envB s) (envL s) ts rest)
  | .nil, s, m, _ => by simp [eventsL, mrunA, selCalls]
  | .cons x r, s, m, hw => by
    obtain ⟨c1, c2⟩ := mrun_call c hf addr x s m hw
    simp only [eventsL, mrunA_append]
    generalize hM : mrunA c addr (s, m) (events x) = M at c1 c2
    obtain ⟨M1, M2⟩ := M
    simp only at c1 c2
    subst c1
    obtain ⟨r1, r2⟩ := mrun_calls c hf addr r M1 M2 hw
    refine ⟨r1, ?_⟩
    intro rest
    rw [r2 rest, c2]
    simp only [selCalls]
end

/-! ### the first-frame test -/

/-- the events that survive `skip_first_frame && frame == first_frame` once `first_frame = F` -/
def keepEv (F : Nat) (e : Ev (Node β)) : Bool := e.name.frame != F

theorem pstep_first (c : PCfg β) (s : PSt β) (e : Ev (Node β)) (F : Nat) (hs : s.first = some F) :
    (pstep c s e).first = some F := by
  unfold pstep
  split <;> simp [firstOf, hs]

theorem pstep_skip (c : PCfg β) (hk : c.skipFirst = true) (s : PSt β) (e : Ev (Node β)) (F : Nat)
    (hs : s.first = some F) (he : e.name.frame = F) : pstep c s e = s := by
  obtain ⟨first, tree, shm, py, hkst⟩ := s
  simp only at hs
  subst hs
  simp [pstep, skips, firstOf, hk, he]

/-- the very first event: its frame is remembered and the event is dropped -/
theorem pstep_init (c : PCfg β) (hk : c.skipFirst = true) (e : Ev (Node β)) :
    pstep c (PSt.init c) e = { PSt.init c with first := some e.name.frame } := by
  simp [pstep, skips, firstOf, hk, PSt.init]

theorem prun_cons (c : PCfg β) (s : PSt β) (e : Ev (Node β)) (es : List (Ev (Node β))) :
    prun c s (e :: es) = prun c (pstep c s e) es := rfl

theorem prun_append (c : PCfg β) (s : PSt β) (a b : List (Ev (Node β))) :
    prun c s (a ++ b) = prun c (prun c s a) b := by
  simp [prun, List.foldl_append]

/-- as coded: every event that carries the first frame's address is invisible -/
theorem prun_filter (c : PCfg β) (hk : c.skipFirst = true) (F : Nat) : ∀ (evs : List (Ev (Node β))) (s : PSt β),
    s.first = some F → prun c s evs = prun c s (evs.filter (keepEv F))
  | [], _, _ => rfl
  | e :: es, s, hs => by
    by_cases he : e.name.frame = F
    · have : keepEv F e = false := by simp [keepEv, he]
      rw [List.filter_cons_of_neg (by simp [this]), prun_cons, pstep_skip c hk s e F hs he]
      exact prun_filter c hk F es s hs
    · have : keepEv F e = true := by simp [keepEv, he]
      rw [List.filter_cons_of_pos this, prun_cons, prun_cons]
      exact prun_filter c hk F es _ (pstep_first c s e F hs)

/- on a forest, dropping the events of frame `F` is dropping the calls whose frame object sits
   at `F` (and their direct C calls, which carry the caller's frame): the callees move up -/
mutual
theorem filter_events (F : Nat) : ∀ (t : Call (Node β)) (rest : Calls (Node β)),
    (events t).filter (keepEv F) ++ eventsL rest = eventsL (pruneCall F t rest)
  | .node n k kids, rest => by
    by_cases hn : n.frame = F
    · have h1 : keepEv F (⟨k.entry, n⟩ : Ev (Node β)) = false := by simp [keepEv, hn]
      have h2 : keepEv F (⟨k.exit, n⟩ : Ev (Node β)) = false := by simp [keepEv, hn]
      have hp : (n.frame == F) = true := by simp [hn]
      simp only [events, pruneCall, hp, ↓reduceIte]
      rw [List.filter_cons_of_neg (by simp [h1]), List.filter_append,
        List.filter_cons_of_neg (by simp [h2])]
      simp only [List.filter_nil, List.append_nil]
      exact filter_eventsL F kids rest
    · have h1 : keepEv F (⟨k.entry, n⟩ : Ev (Node β)) = true := by simp [keepEv, hn]
      have h2 : keepEv F (⟨k.exit, n⟩ : Ev (Node β)) = true := by simp [keepEv, hn]
      have hp : (n.frame == F) = false := by simp [hn]
      simp only [events, pruneCall, hp]
      rw [List.filter_cons_of_pos h1, List.filter_append, List.filter_cons_of_pos h2]
      have := filter_eventsL F kids .nil
      simp only [eventsL, List.append_nil] at this
      simp [eventsL, events, this]
theorem filter_eventsL (F : Nat) : ∀ (ts : Calls (Node β)) (rest : Calls (Node β)),
    (eventsL ts).filter (keepEv F) ++ eventsL rest = eventsL (pruneCalls F ts rest)
  | .nil, rest => by simp [eventsL, pruneCalls]
  | .cons x r, rest => by
    simp only [eventsL, pruneCalls, List.filter_append, List.append_assoc]
    rw [filter_eventsL F r rest]
    exact filter_events F x _
end

/-! ### the tables along a run of one process -/

theorem pstep_keeps (c : PCfg β) (hc : CmpEq c.cmp) (s : PSt β) (e : Ev (Node β)) (n : β) (sym : Sym β)
    (h : s.tree.find c.cmp n = some sym) : (pstep c s e).tree.find c.cmp n = some sym := by
  unfold pstep
  split
  · exact h
  · exact convert_keeps c.cmp hc c.py.isLib s.tree s.shm e.name.name n sym h

theorem prun_keeps (c : PCfg β) (hc : CmpEq c.cmp) : ∀ (evs : List (Ev (Node β))) (s : PSt β) (n : β) (sym : Sym β),
    s.tree.find c.cmp n = some sym → (prun c s evs).tree.find c.cmp n = some sym
  | [], _, _, _, h => h
  | e :: es, s, n, sym, h => prun_keeps c hc es _ n sym (pstep_keeps c hc s e n sym h)

structure TabOk (c : PCfg β) (s : PSt β) : Prop where
  shm : ShmOk s.shm
  tree : TreeOk c.cmp c.py.isLib s.shm s.tree

theorem tabOk_init (c : PCfg β) : TabOk c (PSt.init c) :=
  ⟨shmOk_empty, treeOk_leaf _ _ _⟩

theorem tabOk_pstep (c : PCfg β) (hc : CmpEq c.cmp) (s : PSt β) (e : Ev (Node β)) (h : TabOk c s) :
    TabOk c (pstep c s e) := by
  unfold pstep
  split
  · exact ⟨h.shm, h.tree⟩
  · exact ⟨convert_shmOk _ _ _ _ _ h.shm, convert_treeOk _ hc _ _ _ _ h.tree⟩

theorem tabOk_prun (c : PCfg β) (hc : CmpEq c.cmp) : ∀ (evs : List (Ev (Node β))) (s : PSt β),
    TabOk c s → TabOk c (prun c s evs)
  | [], _, h => h
  | e :: es, s, h => tabOk_prun c hc es _ (tabOk_pstep c hc s e h)

/-- an event that is not dropped leaves its function in the table -/
theorem pstep_seen (c : PCfg β) (hc : CmpEq c.cmp) (s : PSt β) (e : Ev (Node β))
    (hns : skips c s.first e.name.frame = false) :
    ∃ sym, (pstep c s e).tree.find c.cmp e.name.name = some sym := by
  unfold pstep
  simp only [hns, Bool.false_eq_true, ↓reduceIte]
  exact ⟨_, find_convert c.cmp hc c.py.isLib s.tree s.shm e.name.name⟩

theorem skips_false (c : PCfg β) (F fr : Nat) (h : fr ≠ F) : skips c (some F) fr = false := by
  have : (F == fr) = false := by simp [Ne.symm h]
  simp [skips, firstOf, this]

theorem prun_seen (c : PCfg β) (hc : CmpEq c.cmp) (F : Nat) : ∀ (evs : List (Ev (Node β))) (s : PSt β) (e : Ev (Node β)),
    s.first = some F → e ∈ evs → e.name.frame ≠ F →
    ∃ sym, (prun c s evs).tree.find c.cmp e.name.name = some sym
  | [], _, _, _, h, _ => by simp at h
  | x :: xs, s, e, hs, hm, hf => by
    rw [prun_cons]
    rcases List.mem_cons.mp hm with rfl | hm
    · obtain ⟨sym, h⟩ := pstep_seen c hc s e (by rw [hs]; exact skips_false c F _ hf)
      exact ⟨sym, prun_keeps c hc xs _ _ _ h⟩
    · exact prun_seen c hc F xs _ e (pstep_first c s x F hs) hm hf

/-- whatever the final tree says about a name resolves, through the written file, to that name -/
theorem tab_resolves (c : PCfg β) (s : PSt β) (h : TabOk c s) (n : β) (sym : Sym β)
    (hf : s.tree.find c.cmp n = some sym) : resolve (symFile s.shm) sym.addr = some n := by
  obtain ⟨_, _, l, hl, ha, _, hn⟩ := h.tree n sym hf
  rw [← ha, ← hn]
  exact resolve_line s.shm h.shm l hl

/-- two names with the same address are the same name -/
theorem tab_injective (c : PCfg β) (s : PSt β) (h : TabOk c s) (a b : β) (sa sb : Sym β)
    (ha : s.tree.find c.cmp a = some sa) (hb : s.tree.find c.cmp b = some sb) (e : sa.addr = sb.addr) : a = b := by
  obtain ⟨_, _, l1, hl1, ha1, _, hn1⟩ := h.tree a sa ha
  obtain ⟨_, _, l2, hl2, ha2, _, hn2⟩ := h.tree b sb hb
  have := line_addr_inj s.shm h.shm l1 l2 hl1 hl2 (by rw [ha1, ha2, e])
  rw [← hn1, ← hn2, this]

/-- the hook calls of a run are those of the table-free machine with the addresses of the final
    tree -/
theorem prun_eq_prunA (c : PCfg β) (hc : CmpEq c.cmp) (F : Nat) (addr : β → Nat) :
    ∀ (evs : List (Ev (Node β))) (s : PSt β), s.first = some F → (∀ e ∈ evs, e.name.frame ≠ F) →
      (∀ n sym, (prun c s evs).tree.find c.cmp n = some sym → addr n = sym.addr) →
      ((prun c s evs).py, (prun c s evs).hk) = prunA c addr (s.py, s.hk) evs
  | [], _, _, _, _ => rfl
  | e :: es, s, hs, hfr, ha => by
    rw [prun_cons] at ha ⊢
    have hne := hfr e (by simp)
    have hsk : skips c s.first e.name.frame = false := by rw [hs]; exact skips_false c F _ hne
    have ih := prun_eq_prunA c hc F addr es (pstep c s e) (pstep_first c s e F hs)
      (fun x hx => hfr x (by simp [hx])) ha
    rw [ih]
    have hfind : (pstep c s e).tree.find c.cmp e.name.name =
        some (convert c.cmp c.py.isLib s.tree s.shm e.name.name).2.2 := by
      unfold pstep
      simp only [hsk, Bool.false_eq_true, ↓reduceIte]
      exact find_convert c.cmp hc c.py.isLib s.tree s.shm e.name.name
    have haddr := ha _ _ (prun_keeps c hc es _ _ _ hfind)
    have hstep : ((pstep c s e).py, (pstep c s e).hk) = pstepA c addr (s.py, s.hk) e := by
      unfold pstep pstepA
      simp only [hsk, Bool.false_eq_true, ↓reduceIte, haddr]
    simp only [prunA, List.foldl]
    rw [hstep]

/-! ### the clock -/
mutual
  /-- libmcount reads 0 as "still running": no call ends at clock reading 0 -/
  def ClockOk : Call (Node β) → Prop
    | .node n _ kids => n.t1 ≠ 0 ∧ ClockOkL kids
  def ClockOkL : Calls (Node β) → Prop
    | .nil => True
    | .cons x r => ClockOk x ∧ ClockOkL r
end

mutual
theorem selCall_okFor (cfg : Uft.Mcount.Cfg) (hs4 : cfg.s4fixed = true) (c : Cfg (Node β)) (addr : β → Nat) :
    ∀ (t : Call (Node β)) (a b : Bool) (ld : Nat) (rest : Uft.Mcount.Calls), ClockOk t → rest.okFor cfg →
      (selCall c addr a b ld t rest).okFor cfg
  | .node n k kids, a, b, ld, rest, ht, hr => by
    simp only [ClockOk] at ht
    simp only [selCall]
    split
    · simp only [Uft.Mcount.Calls.okFor, Uft.Mcount.Call.okFor]
      exact ⟨⟨⟨Uft.Mcount.durOk_fixed cfg hs4 _, ht.1⟩, selCalls_okFor cfg hs4 c addr kids _ _ _ .nil ht.2 trivial⟩, hr⟩
    · exact selCalls_okFor cfg hs4 c addr kids _ _ _ rest ht.2 hr
theorem selCalls_okFor (cfg : Uft.Mcount.Cfg) (hs4 : cfg.s4fixed = true) (c : Cfg (Node β)) (addr : β → Nat) :
    ∀ (ts : Calls (Node β)) (a b : Bool) (ld : Nat) (rest : Uft.Mcount.Calls), ClockOkL ts → rest.okFor cfg →
      (selCalls c addr a b ld ts rest).okFor cfg
  | .nil, _, _, _, rest, _, hr => by simpa [selCalls] using hr
  | .cons x r, a, b, ld, rest, ht, hr => by
    simp only [ClockOkL] at ht
    simp only [selCalls]
    exact selCall_okFor cfg hs4 c addr x a b ld _ ht.1 (selCalls_okFor cfg hs4 c addr r a b ld rest ht.2 hr)
end

/- the eager trace of a selection followed by `rest` -/
mutual
theorem evB_selCall (c : Cfg (Node β)) (addr : β → Nat) : ∀ (t : Call (Node β)) (a b : Bool) (ld d bd : Nat)
    (rest : Uft.Mcount.Calls),
    Uft.Mcount.evCallsB d bd (selCall c addr a b ld t rest) =
      Uft.Mcount.evCallsB d bd (selCall c addr a b ld t .nil) ++ Uft.Mcount.evCallsB d bd rest
  | .node n k kids, a, b, ld, d, bd, rest => by
    simp only [selCall]
    split
    · simp [Uft.Mcount.evCallsB]
    · exact evB_selCalls c addr kids _ _ _ d bd rest
theorem evB_selCalls (c : Cfg (Node β)) (addr : β → Nat) : ∀ (ts : Calls (Node β)) (a b : Bool) (ld d bd : Nat)
    (rest : Uft.Mcount.Calls),
    Uft.Mcount.evCallsB d bd (selCalls c addr a b ld ts rest) =
      Uft.Mcount.evCallsB d bd (selCalls c addr a b ld ts .nil) ++ Uft.Mcount.evCallsB d bd rest
  | .nil, _, _, _, d, bd, rest => by simp [selCalls, Uft.Mcount.evCallsB]
  | .cons x r, a, b, ld, d, bd, rest => by
    simp only [selCalls]
    rw [evB_selCall c addr x a b ld d bd (selCalls c addr a b ld r rest),
      evB_selCall c addr x a b ld d bd (selCalls c addr a b ld r .nil),
      evB_selCalls c addr r a b ld d bd rest]
    simp
end

/-! ### a whole run: program forest, then lone exits with whatever runs after each -/

theorem liftCfg_flist_none (c : Cfg β) (n : Node β) :
    firstMatch (liftCfg c).flist n = firstMatch c.flist n.name := by
  unfold liftCfg Cfg.flist
  cases c.filters with
  | none => rfl
  | some fs =>
    simp only [Option.map]
    induction fs with
    | nil => rfl
    | cons f fs ih => simp [firstMatch, ih]

/-- a lone exit event at program level (all counters 0, a function no filter names): the
    counters stay 0 (the clamp of `libcall_count`) -/
theorem stepSt_stray (c : Cfg (Node β)) (n : Node β) (k : CKind) (hm : firstMatch c.flist n = none) :
    stepSt c St.init ⟨k.exit, n⟩ = St.init := by
  cases hg : c.gmode <;> cases hlm : c.lmode <;> cases hl : c.isLib n <;>
    simp [stepSt, reaches, skipDecision, cinAfter, coutAfter, libAfter, St.init, hm, hg, hlm, hl]

/-- … and at most one hook call is made, an exit -/
theorem stepOut_stray (c : Cfg (Node β)) (s : St) (n : Node β) (k : CKind) :
    stepOut c s ⟨k.exit, n⟩ = [] ∨ stepOut c s ⟨k.exit, n⟩ = [.exit] := by
  unfold stepOut
  split <;> simp

/-- with nothing on libmcount's stack: nothing changes -/
theorem mstep_stray (c : PCfg β) (addr : β → Nat) (n : Node β) (k : CKind) (m : Uft.Mcount.St)
    (hm : firstMatch (liftCfg c.py).flist n = none) (hidx : m.idx = 0) :
    mstepA c addr (St.init, m) ⟨k.exit, n⟩ = (St.init, m) := by
  unfold mstepA
  simp only [stepSt_stray (liftCfg c.py) n k hm]
  rcases stepOut_stray (liftCfg c.py) St.init n k with h2 | h2
  · simp [h2]
  · simp [h2, mOut, exit_idx_zero _ _ _ hidx]

theorem goodW_idx (m : Uft.Mcount.St) (h : Uft.Mcount.GoodW m 0) : m.idx = 0 := by
  have h1 := h.good.over
  have h2 := h.good.len
  simp [Uft.Mcount.St.idx, h1, h2]

theorem progEvents_cons {α : Type} (f0 : Calls α) (k : CKind) (n : α) (f1 : Calls α)
    (r : List (CKind × α × Calls α)) :
    progEvents f0 ((k, n, f1) :: r) = eventsL f0 ++ (⟨k.exit, n⟩ :: progEvents f1 r) := by
  simp [progEvents, tailEvents]

theorem selProg_cons (c : Cfg (Node β)) (addr : β → Nat) (f0 : Calls (Node β)) (x : CKind × Node β × Calls (Node β))
    (r : List (CKind × Node β × Calls (Node β))) :
    selProg c addr f0 (x :: r) = selCalls c addr false false 0 f0 (selProg c addr x.2.2 r) := by
  simp [selProg]

/-- the libmcount state after a whole run, from a state between hooks at depth 0 -/
theorem mrun_prog (c : PCfg β) (hf : c.py.fixed = true) (hp : Uft.Mcount.Plain c.hk.m) (hs4 : c.hk.m.s4fixed = true)
    (hdo : c.hk.m.maxStack ≤ c.hk.m.depthOpt) (addr : β → Nat) :
    ∀ (tl : List (CKind × Node β × Calls (Node β))) (f0 : Calls (Node β)) (m : Uft.Mcount.St),
      Uft.Mcount.GoodW m 0 → ClockOkL f0 → (∀ x ∈ tl, ClockOkL x.2.2) →
      (∀ x ∈ tl, firstMatch (liftCfg c.py).flist x.2.1 = none) →
      (mrunA c addr (St.init, m) (progEvents f0 tl)).1 = St.init ∧
      Uft.Mcount.eager (mrunA c addr (St.init, m) (progEvents f0 tl)).2 =
        Uft.Mcount.eager m ++ Uft.Mcount.evCallsB 0 c.hk.m.maxStack (selProg (liftCfg c.py) addr f0 tl) ∧
      Uft.Mcount.GoodW (mrunA c addr (St.init, m) (progEvents f0 tl)).2 0
  | [], f0, m, hg, hck, _, _ => by
    obtain ⟨h1, h2⟩ := mrun_calls c hf addr f0 St.init m (wf_init _)
    have h2' := h2 .nil
    simp only [Uft.Mcount.runCalls] at h2'
    have hok := selCalls_okFor c.hk.m hs4 (liftCfg c.py) addr f0 false false 0 .nil hck trivial
    obtain ⟨o1, _, o3⟩ := Uft.Mcount.over_calls c.hk.m hp .cyg hdo _ m 0 hg (Nat.zero_le _) hok
    have he : progEvents f0 [] = eventsL f0 := by simp [progEvents, tailEvents]
    have hA : envA St.init = false := by simp [envA, St.init]
    have hB : envB St.init = false := by simp [envB, St.init]
    have hL : envL St.init = 0 := by simp [envL, St.init]
    rw [hA, hB, hL] at h2'
    rw [he, h2']
    refine ⟨h1, ?_, o3⟩
    simpa [selProg] using o1
  | (k, n, f1) :: r, f0, m, hg, hck, hcl, hnm => by
    obtain ⟨h1, h2⟩ := mrun_calls c hf addr f0 St.init m (wf_init _)
    have h2' := h2 .nil
    simp only [Uft.Mcount.runCalls] at h2'
    have hA : envA St.init = false := by simp [envA, St.init]
    have hB : envB St.init = false := by simp [envB, St.init]
    have hL : envL St.init = 0 := by simp [envL, St.init]
    rw [hA, hB, hL] at h2'
    have hok := selCalls_okFor c.hk.m hs4 (liftCfg c.py) addr f0 false false 0 .nil hck trivial
    obtain ⟨o1, _, o3⟩ := Uft.Mcount.over_calls c.hk.m hp .cyg hdo _ m 0 hg (Nat.zero_le _) hok
    rw [progEvents_cons, mrunA_append, mrunA_cons]
    generalize hM : mrunA c addr (St.init, m) (eventsL f0) = M at h1 h2'
    obtain ⟨M1, M2⟩ := M
    simp only at h1 h2'
    subst h1
    rw [← h2'] at o1 o3
    rw [mstep_stray c addr n k M2 (hnm (k, n, f1) (by simp)) (goodW_idx M2 o3)]
    obtain ⟨i1, i2, i3⟩ := mrun_prog c hf hp hs4 hdo addr r f1 M2 o3 (hcl (k, n, f1) (by simp))
      (fun x hx => hcl x (by simp [hx])) (fun x hx => hnm x (by simp [hx]))
    refine ⟨i1, ?_, i3⟩
    rw [i2, o1, selProg_cons,
      evB_selCalls (liftCfg c.py) addr f0 false false 0 0 c.hk.m.maxStack (selProg (liftCfg c.py) addr f1 r)]
    simp

/-! ### code objects (Model/PyHook §6) -/

/-- the final tables of a sequence of events -/
def runCodeTab (cmp : β → β → Ordering) (isLib : β → Bool) : Tree β → Shm β → List (CEv β) → Tree β × Shm β
  | t, shm, [] => (t, shm)
  | t, shm, e :: es =>
    let r := convertCode cmp isLib t shm e
    runCodeTab cmp isLib r.1 r.2.1 es

theorem convertCode_ok (cmp : β → β → Ordering) (hc : CmpEq cmp) (isLib : β → Bool) (t : Tree β) (shm : Shm β)
    (e : CEv β) (hs : ShmOk shm) (ht : TreeOk cmp isLib shm t) :
    ShmOk (convertCode cmp isLib t shm e).2.1 ∧
    TreeOk cmp isLib (convertCode cmp isLib t shm e).2.1 (convertCode cmp isLib t shm e).1 := by
  unfold convertCode
  cases h : e.heap e.code with
  | none => exact ⟨hs, ht⟩
  | some n => exact ⟨convert_shmOk _ _ _ _ _ hs, convert_treeOk _ hc _ _ _ _ ht⟩

/-- the symbol of an event carries the name of the code object that lives at the event's
    address at that moment, and it is the table's entry for that name afterwards -/
theorem convertCode_name (cmp : β → β → Ordering) (hc : CmpEq cmp) (isLib : β → Bool) (t : Tree β) (shm : Shm β)
    (e : CEv β) (ht : TreeOk cmp isLib shm t) :
    (convertCode cmp isLib t shm e).2.2.map Sym.name = e.heap e.code ∧
    ∀ s, (convertCode cmp isLib t shm e).2.2 = some s →
      (convertCode cmp isLib t shm e).1.find cmp s.name = some s := by
  unfold convertCode
  cases h : e.heap e.code with
  | none => simp
  | some n =>
    have hf := find_convert cmp hc isLib t shm n
    have hn := (convert_treeOk cmp hc isLib t shm n ht) n _ hf
    constructor
    · simp [hn.1]
    · intro s hs
      simp only [Option.some.injEq] at hs
      subst hs
      rw [hn.1]; exact hf

theorem convertCode_keeps (cmp : β → β → Ordering) (hc : CmpEq cmp) (isLib : β → Bool) (t : Tree β) (shm : Shm β)
    (e : CEv β) (m : β) (s : Sym β) (h : t.find cmp m = some s) :
    (convertCode cmp isLib t shm e).1.find cmp m = some s := by
  unfold convertCode
  cases he : e.heap e.code with
  | none => exact h
  | some n => exact convert_keeps cmp hc isLib t shm n m s h

theorem runCodeTab_keeps (cmp : β → β → Ordering) (hc : CmpEq cmp) (isLib : β → Bool) :
    ∀ (evs : List (CEv β)) (t : Tree β) (shm : Shm β) (m : β) (s : Sym β), t.find cmp m = some s →
      (runCodeTab cmp isLib t shm evs).1.find cmp m = some s
  | [], _, _, _, _, h => h
  | e :: es, t, shm, m, s, h =>
    runCodeTab_keeps cmp hc isLib es _ _ m s (convertCode_keeps cmp hc isLib t shm e m s h)

theorem runCodeTab_ok (cmp : β → β → Ordering) (hc : CmpEq cmp) (isLib : β → Bool) :
    ∀ (evs : List (CEv β)) (t : Tree β) (shm : Shm β), ShmOk shm → TreeOk cmp isLib shm t →
      ShmOk (runCodeTab cmp isLib t shm evs).2 ∧
      TreeOk cmp isLib (runCodeTab cmp isLib t shm evs).2 (runCodeTab cmp isLib t shm evs).1
  | [], _, _, hs, ht => ⟨hs, ht⟩
  | e :: es, t, shm, hs, ht =>
    have h := convertCode_ok cmp hc isLib t shm e hs ht
    runCodeTab_ok cmp hc isLib es _ _ h.1 h.2

theorem runCode_names (cmp : β → β → Ordering) (hc : CmpEq cmp) (isLib : β → Bool) :
    ∀ (evs : List (CEv β)) (t : Tree β) (shm : Shm β), ShmOk shm → TreeOk cmp isLib shm t →
      (runCode cmp isLib t shm evs).map (Option.map Sym.name) = evs.map (fun e => e.heap e.code)
  | [], _, _, _, _ => rfl
  | e :: es, t, shm, hs, ht => by
    have h := convertCode_ok cmp hc isLib t shm e hs ht
    simp only [runCode, List.map_cons, (convertCode_name cmp hc isLib t shm e ht).1]
    rw [runCode_names cmp hc isLib es _ _ h.1 h.2]

/-- every symbol handed back during the run is the final table's entry for its name -/
theorem runCode_final (cmp : β → β → Ordering) (hc : CmpEq cmp) (isLib : β → Bool) :
    ∀ (evs : List (CEv β)) (t : Tree β) (shm : Shm β), TreeOk cmp isLib shm t → ShmOk shm →
      ∀ s, some s ∈ runCode cmp isLib t shm evs → (runCodeTab cmp isLib t shm evs).1.find cmp s.name = some s
  | [], _, _, _, _, s, h => by simp [runCode] at h
  | e :: es, t, shm, ht, hs, s, h => by
    have hok := convertCode_ok cmp hc isLib t shm e hs ht
    simp only [runCode, List.mem_cons] at h
    rcases h with h | h
    · have := (convertCode_name cmp hc isLib t shm e ht).2 s h.symm
      exact runCodeTab_keeps cmp hc isLib es _ _ _ _ this
    · exact runCode_final cmp hc isLib es _ _ hok.2 hok.1 s h

/-! ### the launcher (Model/PyHook §7) -/

theorem isPrefixOf_append_self (a b : Path) : a.isPrefixOf (a ++ b) = true := by
  induction a with
  | nil => simp [List.isPrefixOf]
  | cons x xs ih => simp [ih]

end Uft.PyHook
