/-
C02 — shape of the eager trace `evCalls`: an independent stack-machine checker
(nesting, matching addresses, depth = number of open calls) accepts it, and its
time stamps never decrease when the clock readings of the execution do not.
These are facts about the specification side; `c02_emit_exact` transfers them to
what the hooks write.
-/
import Uft.Model.CallTree
import Uft.Lemmas.McountOverflow
namespace Uft.Mcount

/-- Independent checker of a record stream: a stack of the addresses of the open
    calls.  ENTRY must carry depth = number of open calls; EXIT must close the
    innermost open call (same address) and carry the depth it was opened at. -/
def nestStep : Option (List Nat) → Rec → Option (List Nat)
  | none, _ => none
  | some st, r =>
    if r.type = 0 then (if r.depth = st.length then some (r.addr :: st) else none)
    else if r.type = 1 then
      match st with
      | a :: rest => if a = r.addr ∧ r.depth = rest.length then some rest else none
      | [] => none
    else none

def nestRun (st : Option (List Nat)) (rs : List Rec) : Option (List Nat) := rs.foldl nestStep st

/-- the stream is a well-nested sequence of ENTRY/EXIT records that closes every call -/
def WellNested (rs : List Rec) : Prop := nestRun (some []) rs = some []

instance (rs : List Rec) : Decidable (WellNested rs) := by unfold WellNested; infer_instance

/-- the stream is a prefix of a well-nested one: the checker never rejects; `open` are the
    addresses of the calls still open, innermost first -/
def NestedPrefix (rs : List Rec) (opened : List Nat) : Prop := nestRun (some []) rs = some opened

theorem nestRun_append (st : Option (List Nat)) (a b : List Rec) :
    nestRun st (a ++ b) = nestRun (nestRun st a) b := by
  simp [nestRun, List.foldl_append]

mutual
theorem nest_evCall : ∀ (c : Call) (st : List Nat),
    nestRun (some st) (evCall st.length c) = some st
  | .node f t0 t1 kids, st => by
    have hk := nest_evCalls kids (f :: st)
    simp only [List.length_cons] at hk
    simp only [evCall, nestRun_append]
    have h1 : nestRun (some st) [{ time := t0, type := 0, depth := st.length, addr := f }] = some (f :: st) := by
      simp [nestRun, nestStep]
    rw [h1, hk]
    simp [nestRun, nestStep]
theorem nest_evCalls : ∀ (cs : Calls) (st : List Nat),
    nestRun (some st) (evCalls st.length cs) = some st
  | .nil, st => by simp [evCalls, nestRun]
  | .cons c rest, st => by
    simp only [evCalls, nestRun_append]
    rw [nest_evCall c st, nest_evCalls rest st]
end

mutual
theorem nest_evCallB : ∀ (c : Call) (st : List Nat) (b : Nat),
    nestRun (some st) (evCallB st.length b c) = some st
  | .node f t0 t1 kids, st, b => by
    by_cases hb : b = 0
    · simp [evCallB, hb, nestRun]
    · have hk := nest_evCallsB kids (f :: st) (b - 1)
      simp only [List.length_cons] at hk
      simp only [evCallB, hb, ↓reduceIte, nestRun_append]
      have h1 : nestRun (some st) [{ time := t0, type := 0, depth := st.length, addr := f }] = some (f :: st) := by
        simp [nestRun, nestStep]
      rw [h1, hk]
      simp [nestRun, nestStep]
theorem nest_evCallsB : ∀ (cs : Calls) (st : List Nat) (b : Nat),
    nestRun (some st) (evCallsB st.length b cs) = some st
  | .nil, st, b => by simp [evCallsB, nestRun]
  | .cons c rest, st, b => by
    simp only [evCallsB, nestRun_append]
    rw [nest_evCallB c st b, nest_evCallsB rest st b]
end

theorem evCalls_wellNested (cs : Calls) : WellNested (evCalls 0 cs) := nest_evCalls cs []

/-! ### time stamps -/

/-- time stamps never decrease, starting from the reading `lo` -/
def TimeMono : Nat → List Rec → Prop
  | _, [] => True
  | lo, r :: rs => lo ≤ r.time ∧ TimeMono r.time rs

def lastTime : Nat → List Rec → Nat
  | lo, [] => lo
  | _, r :: rs => lastTime r.time rs

theorem timeMono_append : ∀ (a b : List Rec) (lo : Nat),
    TimeMono lo (a ++ b) ↔ TimeMono lo a ∧ TimeMono (lastTime lo a) b
  | [], b, lo => by simp [TimeMono, lastTime]
  | r :: a, b, lo => by simp [TimeMono, lastTime, timeMono_append a b r.time, and_assoc]

theorem lastTime_append : ∀ (a b : List Rec) (lo : Nat), lastTime lo (a ++ b) = lastTime (lastTime lo a) b
  | [], b, lo => by simp [lastTime]
  | r :: a, b, lo => by simp [lastTime, lastTime_append a b r.time]

theorem timeMono_lower : ∀ (rs : List Rec) (lo : Nat), TimeMono lo rs → ∀ r ∈ rs, lo ≤ r.time
  | [], _, _ => by simp
  | x :: rs, lo, h => by
    intro r hr
    simp only [TimeMono] at h
    rcases List.mem_cons.mp hr with rfl | hr
    · exact h.1
    · exact Nat.le_trans h.1 (timeMono_lower rs x.time h.2 r hr)

theorem timeMono_pairwise : ∀ (rs : List Rec) (lo : Nat), TimeMono lo rs →
    rs.Pairwise (fun a b => a.time ≤ b.time)
  | [], _, _ => List.Pairwise.nil
  | x :: rs, lo, h => by
    simp only [TimeMono] at h
    exact List.Pairwise.cons (timeMono_lower rs x.time h.2) (timeMono_pairwise rs x.time h.2)

def Call.t1 : Call → Nat
  | .node _ _ t1 _ => t1

mutual
  /-- the last clock reading of a forest executed after the reading `lo` -/
  def Calls.lastT (lo : Nat) : Calls → Nat
    | .nil => lo
    | .cons c rest => rest.lastT c.t1
end

mutual
  /-- the clock readings taken by the hooks along the execution never decrease
      (`lo` = the reading before): what CLOCK_MONOTONIC guarantees -/
  def Call.clocked (lo : Nat) : Call → Prop
    | .node _ t0 t1 kids => lo ≤ t0 ∧ kids.clocked t0 ∧ kids.lastT t0 ≤ t1
  def Calls.clocked (lo : Nat) : Calls → Prop
    | .nil => True
    | .cons c rest => c.clocked lo ∧ rest.clocked c.t1
end

mutual
theorem time_evCall : ∀ (c : Call) (d lo : Nat), c.clocked lo →
    TimeMono lo (evCall d c) ∧ lastTime lo (evCall d c) = c.t1
  | .node f t0 t1 kids, d, lo, h => by
    simp only [Call.clocked] at h
    obtain ⟨k1, k2⟩ := time_evCalls kids (d + 1) t0 h.2.1
    simp only [evCall, Call.t1]
    refine ⟨?_, ?_⟩
    · rw [timeMono_append, timeMono_append]
      refine ⟨⟨by simp [TimeMono, h.1], by simpa [lastTime] using k1⟩, ?_⟩
      rw [lastTime_append]
      simp only [lastTime, TimeMono, and_true]
      rw [k2]; exact h.2.2
    · rw [lastTime_append]; simp [lastTime]
theorem time_evCalls : ∀ (cs : Calls) (d lo : Nat), cs.clocked lo →
    TimeMono lo (evCalls d cs) ∧ lastTime lo (evCalls d cs) = cs.lastT lo
  | .nil, d, lo, _ => by simp [evCalls, TimeMono, lastTime, Calls.lastT]
  | .cons c rest, d, lo, h => by
    simp only [Calls.clocked] at h
    obtain ⟨c1, c2⟩ := time_evCall c d lo h.1
    obtain ⟨r1, r2⟩ := time_evCalls rest d c.t1 h.2
    simp only [evCalls, Calls.lastT]
    refine ⟨?_, ?_⟩
    · rw [timeMono_append, c2]; exact ⟨c1, r1⟩
    · rw [lastTime_append, c2, r2]
end

theorem evCalls_time_pairwise (cs : Calls) (lo : Nat) (h : cs.clocked lo) :
    (evCalls 0 cs).Pairwise (fun a b => a.time ≤ b.time) :=
  timeMono_pairwise _ lo (time_evCalls cs 0 lo h).1

end Uft.Mcount
