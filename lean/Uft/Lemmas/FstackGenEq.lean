/-
C07 — the definitions generated from utils/fstack.c by translators/c2lean.py
(`Uft.Gen.FstackC.fstack_entry`, `fstack_exit`, `fstack_update`) compute what the hand-written model
`Uft/Model/Fstack.lean` (`fsEntry`, `fsExit`, `updEntry`, `updExit`) computes.

The mapping between the generated field structure `St` (one field per C memory location, C `int` as `Int`)
and the model's state record `FS` (counters as `Nat`) is the relation `Rel`; the func_stack slot
(`fstack->flags`, `fstack->orig_depth`) corresponds to a model frame `Fr` by `SlotRel`.

What the hand model abstracts is explicit here, as hypotheses on the opaque callees (`EntryEnv`):
  * `uftrace_match_filter` on the session's filter tree leaves in `*tr` an encoding (`TrEnc`) of the model's
    `Trigger` value `c.trig addr` and of the hide flag `c.hide addr` — pattern matching itself is not modelled;
  * no fix-up symbol matches (the model leaves the exec/setjmp/longjmp/fork fix-ups out);
  * the record is a user record of a known session (`is_kernel_record` false, `find_task_session` non-NULL);
  * the func_stack slot exists (`fstack_get` non-NULL: the model does not cover streams deeper than max_stack).
The model counts in `Nat` where the C code counts in `int`: `fstack_exit` is equivalent on states where the
counter it decrements is positive (hypotheses `hin`, `hout`) — on other states C goes to -1, the model stays 0.
-/
import Uft.Model.Fstack
import Uft.Gen.FstackC
import Uft.Lemmas.CommonGenEq
namespace Uft.FstackGenEq
open Uft.Fstack Uft.Gen.C Uft.Gen.FstackC Uft.GenEq
open Uft.Mcount (Trigger)

/-! ### model-side normal forms -/

theorem optb_eq_some_false (o : Option Bool) :
    (o = some false) ↔ (o.isSome = true ∧ (o == some true) = false) := by
  rcases o with _ | _ | _ <;> simp

theorem isIn_eq (t : Trigger) : isIn t = (t.filter == some true) := rfl

theorem locReject_eq (c : RCfg) (t : Trigger) :
    locReject c t = if t.loc.isSome then (t.loc == some false) else c.locIn := by
  unfold locReject; rcases t.loc with _ | _ | _ <;> simp

/-- the value of a `depth=` trigger (0 when there is none) -/
def optVal : Option Nat → Nat
  | some d => d
  | none => 0

theorem getD_eq (o : Option Nat) (x : Nat) : o.getD x = if o.isSome then optVal o else x := by
  cases o <;> simp [optVal]

/-! ### the mapping -/

/-- how `struct uftrace_trigger` (as left by uftrace_match_filter) encodes the model's `Trigger` value and the
    hide flag: every test fstack_entry makes on `tr->flags`, `tr->fmode`, `tr->lmode`, `tr->depth` has the
    outcome the model reads off the `Trigger`.  The numerals are the values of TRIGGER_FL_FILTER, _LOC, _DEPTH,
    _TRACE_ON, _TRACE_OFF, _HIDE, FILTER_MODE_IN and FILTER_MODE_OUT as they appear in the generated file. -/
structure TrEnc (t : Trigger) (hide : Bool) (flags fmode lmode : Nat) (depth : Int) : Prop where
  filter : ((flags &&& 2) != 0) = t.filter.isSome
  fmode : t.filter.isSome → (fmode == 1) = (t.filter == some true)
  loc : ((flags &&& 262144) != 0) = t.loc.isSome
  lmode : t.loc.isSome → (lmode == 2) = (t.loc == some false)
  depthF : ((flags &&& 1) != 0) = t.depth.isSome
  depthV : t.depth.isSome → depth = ((optVal t.depth : Nat) : Int)
  traceOn : ((flags &&& 16) != 0) = t.traceOn
  traceOff : ((flags &&& 32) != 0) = t.traceOff
  hide : ((flags &&& 131072) != 0) = hide

/-- the model's reader state `fs` (options `c`) and the generated field structure `s` describe the same state -/
structure Rel (c : RCfg) (fs : FS) (s : St) : Prop where
  inC : s.task_filter_in_count = (fs.inCount : Int)
  outC : s.task_filter_out_count = (fs.outCount : Int)
  depth : s.task_filter_depth = (fs.depth : Int)
  sc : s.task_stack_count = (fs.sc : Int)
  en : s.fstack_enabled = fs.enabled
  dd : s.task_display_depth = (fs.dispDepth : Int)
  dset : s.task_display_depth_set = fs.dispSet
  hdepth : s.task_h_depth = (c.depthOpt : Int)
  optIn : decide (s.fstack_triggers_filter_count > 0) = c.optIn
  locIn : decide (s.fstack_triggers_loc_count > 0) = c.locIn

/-- the func_stack slot `*fstack` holds the model frame `fr` (numerals: FSTACK_FL_FILTERED, _NOTRACE, _NORECORD) -/
structure SlotRel (fr : Fr) (s : St) : Prop where
  orig : s.fstack_orig_depth = (fr.origDepth : Int)
  filtered : ((s.fstack_flags &&& 1) != 0) = fr.filtered
  notrace : ((s.fstack_flags &&& 2) != 0) = fr.notrace
  norecord : ((s.fstack_flags &&& 4) != 0) = fr.norecord

/-! ### fstack_exit -/

/-- `fstack_exit` on a state related to `fs`, with the slot holding the model's top frame, gives a state related
    to `fsExit c fs`. -/
theorem fstack_exit_eq (c : RCfg) (o : Oracles) (task : Ptr) (s : St) (fs : FS)
    (hr : Rel c fs s) (hsl : SlotRel (topFr c fs) s)
    (hget : (o.fstack_get "fstack_exit:1" task s.task_stack_count {}).1 ≠ Ptr.null)
    (hin : (topFr c fs).filtered = true → 0 < fs.inCount)
    (hout : (topFr c fs).notrace = true → 0 < fs.outCount) :
    Rel c (fsExit c fs) (fstack_exit o task s) := by
  obtain ⟨h1, h2, h3, h4, h5, h6, h7, h8, h9, h10⟩ := hr
  obtain ⟨g1, g2, g3, g4⟩ := hsl
  have hget' : ((o.fstack_get "fstack_exit:1" task s.task_stack_count {}).1 == Ptr.null) = false := by
    simpa using hget
  unfold fstack_exit fsExit
  simp only [Id.run, pure, hget', g2, g3]
  cases hf : (topFr c fs).filtered <;> cases hn : (topFr c fs).notrace <;>
    (simp [hf, hn] at hin hout; constructor <;> simp <;> omega)

/-- … it clears the slot's flags, restores the depth from the slot and touches nothing but the two counters:
    putting the old values of these four locations back gives the old state. -/
theorem fstack_exit_frame (o : Oracles) (task : Ptr) (s : St)
    (hget : (o.fstack_get "fstack_exit:1" task s.task_stack_count {}).1 ≠ Ptr.null) :
    (fstack_exit o task s).fstack_flags = 0 ∧ (fstack_exit o task s).task_filter_depth = s.fstack_orig_depth ∧
    { (fstack_exit o task s) with
        fstack_flags := s.fstack_flags
        task_filter_depth := s.task_filter_depth
        task_filter_in_count := s.task_filter_in_count
        task_filter_out_count := s.task_filter_out_count } = s := by
  have hget' : ((o.fstack_get "fstack_exit:1" task s.task_stack_count {}).1 == Ptr.null) = false := by
    simpa using hget
  unfold fstack_exit
  simp only [Id.run, pure, hget', Bool.false_eq_true, ↓reduceIte]
  and_intros <;> first | trivial | rfl

/-- without a slot (`fstack_get` returns NULL) `fstack_exit` does nothing -/
theorem fstack_exit_noslot (o : Oracles) (task : Ptr) (s : St)
    (hget : (o.fstack_get "fstack_exit:1" task s.task_stack_count {}).1 = Ptr.null) :
    fstack_exit o task s = s := by
  unfold fstack_exit
  simp [Id.run, hget, pure]

/-! ### fstack_entry -/

/-- assumptions on the opaque callees of fstack_entry (see the head of this file) -/
structure EntryEnv (c : RCfg) (o : Oracles) (task rstack tr : Ptr) (s : St) : Prop where
  slot : (o.fstack_get "fstack_entry:1" task (s.task_stack_count - 1) {}).1 ≠ Ptr.null
  user : o.is_kernel_record "fstack_entry:3" task rstack = false
  sess : ∀ p q t, o.find_task_session "fstack_entry:2" p q t ≠ Ptr.null
  nofix : ∀ p w, o.uftrace_match_filter "fstack_entry:5" s.rstack_addr p tr w = (Ptr.null, w)
  trig : ∀ p w, TrEnc (c.trig s.rstack_addr) (c.hide s.rstack_addr)
          (o.uftrace_match_filter "fstack_entry:12" s.rstack_addr p tr w).2.tr_flags
          (o.uftrace_match_filter "fstack_entry:12" s.rstack_addr p tr w).2.tr_fmode
          (o.uftrace_match_filter "fstack_entry:12" s.rstack_addr p tr w).2.tr_lmode
          (o.uftrace_match_filter "fstack_entry:12" s.rstack_addr p tr w).2.tr_depth

/-- `fstack_entry` on a state related to `fs` gives a state related to `(fsEntry c fs addr).1`, returns 0 exactly
    when the model accepts the record, and leaves in the slot the frame the model pushes. -/
theorem fstack_entry_eq (c : RCfg) (o : Oracles) (task rstack tr : Ptr) (s : St) (fs : FS)
    (hr : Rel c fs s) (he : EntryEnv c o task rstack tr s) :
    Rel c (fsEntry c fs s.rstack_addr).1 (fstack_entry o task rstack tr s).1 ∧
    ((fstack_entry o task rstack tr s).2 == 0) = (fsEntry c fs s.rstack_addr).2 ∧
    SlotRel (topFr c (fsEntry c fs s.rstack_addr).1) (fstack_entry o task rstack tr s).1 := by
  obtain ⟨h1, h2, h3, h4, h5, h6, h7, h8, h9, h10⟩ := hr
  obtain ⟨e1, e2, e3, e4, e5⟩ := he
  have e1' : ((o.fstack_get "fstack_entry:1" task (s.task_stack_count - 1) {}).1 == Ptr.null) = false := by
    simpa using e1
  have e3' : ∀ p q t, (o.find_task_session "fstack_entry:2" p q t != Ptr.null) = true := by
    intro p q t; simpa using e3 p q t
  have e5' := e5 (Ptr.fld (o.find_task_session "fstack_entry:2" (Ptr.fld s.task_h "sessions") s.task_t s.rstack_time)
      "filters") { tr_depth := s.tr_depth, tr_flags := s.tr_flags, tr_fmode := s.tr_fmode, tr_lmode := s.tr_lmode }
  generalize hw : (o.uftrace_match_filter "fstack_entry:12" s.rstack_addr
      (Ptr.fld (o.find_task_session "fstack_entry:2" (Ptr.fld s.task_h "sessions") s.task_t s.rstack_time) "filters") tr
      { tr_depth := s.tr_depth, tr_flags := s.tr_flags, tr_fmode := s.tr_fmode, tr_lmode := s.tr_lmode }).2 = w
    at e5'
  obtain ⟨t1, t2, t3, t4, t5, t6, t7, t8, t9⟩ := e5'
  generalize hres : fstack_entry o task rstack tr s = r
  unfold fstack_entry fstack_get_filter_mode fstack_get_loc_mode at hres
  simp only [Id.run, pure, e1', e2, e3', e4, hw, t1, t3, t5, t7, t8, t9, Bool.false_eq_true, ↓reduceIte,
    Bool.not_true, Bool.not_false, bne_self_eq_false, Bool.false_and, Bool.and_false] at hres
  simp only [h1, h2, h3, h4, h5, h6, h7, h8, h9, h10, mode_eq] at hres
  -- one goal per `return`; the facts about `*tr` that hold once its flag is known are specialised on the way
  repeat' ((replace hres := ite_eq_elim hres; rcases hres with ⟨hc, hres⟩ | ⟨hc, hres⟩) <;>
    (try simp only [t2 hc] at hres) <;> (try simp only [t4 hc] at hres) <;> (try simp only [t6 hc] at hres))
  all_goals subst hres
  all_goals (
    simp only [fsEntry, verdict, depthAfter, enAfter, isIn_eq, locReject_eq, topFr, optb_eq_some_false,
      getD_eq, Verdict.matched, Verdict.late, Verdict.norecord]
    grind [Rel, SlotRel])


/-- … returns 0 or -1, and leaves alone what the model does not have: the fix-up bookkeeping
    (setjmp_depth / setjmp_count / fork_display_depth), stack_count, the ghost fields. -/
theorem fstack_entry_frame (c : RCfg) (o : Oracles) (task rstack tr : Ptr) (s : St)
    (he : EntryEnv c o task rstack tr s) :
    ((fstack_entry o task rstack tr s).2 = 0 ∨ (fstack_entry o task rstack tr s).2 = -1) ∧
    (fstack_entry o task rstack tr s).1.setjmp_count = s.setjmp_count ∧
    (fstack_entry o task rstack tr s).1.setjmp_depth = s.setjmp_depth ∧
    (fstack_entry o task rstack tr s).1.task_fork_display_depth = s.task_fork_display_depth ∧
    (fstack_entry o task rstack tr s).1.task_stack_count = s.task_stack_count ∧
    (fstack_entry o task rstack tr s).1.calls = s.calls ∧
    (fstack_entry o task rstack tr s).1.aborted = s.aborted := by
  obtain ⟨e1, e2, e3, e4, e5⟩ := he
  have e1' : ((o.fstack_get "fstack_entry:1" task (s.task_stack_count - 1) {}).1 == Ptr.null) = false := by
    simpa using e1
  have e3' : ∀ p q t, (o.find_task_session "fstack_entry:2" p q t != Ptr.null) = true := by
    intro p q t; simpa using e3 p q t
  generalize hres : fstack_entry o task rstack tr s = r
  unfold fstack_entry fstack_get_filter_mode fstack_get_loc_mode at hres
  simp only [Id.run, pure, e1', e2, e3', e4, Bool.false_eq_true, ↓reduceIte,
    Bool.not_true, Bool.not_false, bne_self_eq_false, Bool.false_and, Bool.and_false] at hres
  walk_ite hres
  all_goals subst hres
  all_goals simp

/-! ### fstack_update -/

/-- `fstack_update(UFTRACE_ENTRY, task, fstack)` for a frame without the EXEC / LONGJMP fix-up flags is the
    model's `updEntry`; the value returned is the new display depth; the slot keeps the model frame. -/
theorem fstack_update_entry_eq (c : RCfg) (o : Oracles) (task fstack : Ptr) (s : St) (fs : FS) (fr : Fr)
    (hr : Rel c fs s) (hsl : SlotRel fr s) (hp : fstack ≠ Ptr.null)
    (hx : ((s.fstack_flags &&& 8) != 0) = false) (hl : ((s.fstack_flags &&& 16) != 0) = false) :
    Rel c (updEntry fs) (fstack_update o 0 task fstack s).1 ∧
    (fstack_update o 0 task fstack s).2 = ((updEntry fs).dispDepth : Int) ∧
    SlotRel fr (fstack_update o 0 task fstack s).1 := by
  obtain ⟨h1, h2, h3, h4, h5, h6, h7, h8, h9, h10⟩ := hr
  obtain ⟨g1, g2, g3, g4⟩ := hsl
  have hp' : (fstack == Ptr.null) = false := by simpa using hp
  have m1 : (18446744073709551591 : Nat) &&& 1 = 1 := by decide
  have m2 : (18446744073709551591 : Nat) &&& 2 = 2 := by decide
  have m4 : (18446744073709551591 : Nat) &&& 4 = 4 := by decide
  unfold fstack_update updEntry
  simp only [Id.run, pure, hp', hx, hl, Bool.false_eq_true, ↓reduceIte, Bool.not_false, Bool.true_and,
    Bool.and_true, beq_self_eq_true]
  refine ⟨⟨?_, ?_, ?_, ?_, ?_, ?_, ?_, ?_, ?_, ?_⟩, ?_, ⟨?_, ?_, ?_, ?_⟩⟩
  case refine_12 => exact g1
  case refine_13 => simp only [Nat.and_assoc, m1, g2]
  case refine_14 => simp only [Nat.and_assoc, m2, g3]
  case refine_15 => simp only [Nat.and_assoc, m4, g4]
  all_goals (simp [*] <;> omega)

/-- `fstack_update(UFTRACE_EXIT, task, fstack)` is the model's `updExit` -/
theorem fstack_update_exit_eq (c : RCfg) (o : Oracles) (task fstack : Ptr) (s : St) (fs : FS)
    (hr : Rel c fs s) (hp : fstack ≠ Ptr.null) :
    Rel c (updExit fs) (fstack_update o 1 task fstack s).1 ∧
    (fstack_update o 1 task fstack s).2 = ((updExit fs).dispDepth : Int) ∧
    (fstack_update o 1 task fstack s).1.fstack_flags = s.fstack_flags := by
  obtain ⟨h1, h2, h3, h4, h5, h6, h7, h8, h9, h10⟩ := hr
  have hp' : (fstack == Ptr.null) = false := by simpa using hp
  unfold fstack_update updExit
  simp only [Id.run, pure, hp', Bool.false_eq_true, ↓reduceIte, h4, h6, h7,
    show ((1 : Int) == 0) = false from rfl, beq_self_eq_true]
  cases hd : fs.dispSet <;>
    (refine ⟨⟨?_, ?_, ?_, ?_, ?_, ?_, ?_, ?_, ?_, ?_⟩, ?_, ?_⟩ <;> simp [*] <;> (try split) <;> omega)

/-! ### the hypotheses can be met: for every trigger table there are opaque callees as assumed -/

/-- an encoding of a `Trigger` value and the hide flag in `tr->flags` / `fmode` / `lmode` / `depth` -/
def encW (t : Trigger) (hide : Bool) : W_uftrace_match_filter :=
  { tr_flags := (if t.filter.isSome then 2 else 0) ||| (if t.loc.isSome then 262144 else 0) |||
                (if t.depth.isSome then 1 else 0) ||| (if t.traceOn then 16 else 0) |||
                (if t.traceOff then 32 else 0) ||| (if hide then 131072 else 0)
    tr_fmode := match t.filter with | some true => 1 | some false => 2 | none => 0
    tr_lmode := match t.loc with | some true => 1 | some false => 2 | none => 0
    tr_depth := (optVal t.depth : Nat) }

theorem trEnc_encW (t : Trigger) (hide : Bool) :
    TrEnc t hide (encW t hide).tr_flags (encW t hide).tr_fmode (encW t hide).tr_lmode (encW t hide).tr_depth := by
  obtain ⟨f, l, d, on, off, _, _, _, _, _⟩ := t
  rcases f with _ | _ | _ <;> rcases l with _ | _ | _ <;> rcases d with _ | d <;>
    cases on <;> cases off <;> cases hide <;> constructor <;> simp [encW, optVal]

/-- opaque callees that behave as `EntryEnv` assumes, for the trigger table of `c` -/
def demoOracles (c : RCfg) : Oracles :=
  { find_task_session := fun _ _ _ _ => Ptr.obj 2
    fstack_get := fun _ _ _ w => (Ptr.obj 1, w)
    get_kernel_address := fun _ _ a => a
    is_kernel_record := fun _ _ _ => false
    strcmp := fun _ _ _ => 1
    strncmp := fun _ _ _ _ => 1
    strstr := fun _ _ _ => Ptr.null
    uftrace_match_filter := fun site a _ _ w =>
      if site = "fstack_entry:12" then (Ptr.null, encW (c.trig a) (c.hide a)) else (Ptr.null, w) }

theorem entryEnv_demo (c : RCfg) (task rstack tr : Ptr) (s : St) :
    EntryEnv c (demoOracles c) task rstack tr s := by
  constructor
  · simp [demoOracles]
  · rfl
  · intro p q t; simp [demoOracles]
  · intro p w; simp [demoOracles]
  · intro p w; simpa [demoOracles] using trEnc_encW (c.trig s.rstack_addr) (c.hide s.rstack_addr)

end Uft.FstackGenEq
