import Uft.Lemmas.FstackLA
import Uft.Lemmas.FstackReplay
import Uft.Lemmas.FstackRecord
/- C07 helper lemmas, part 6: from the reader's initial state; the `>` / `≥` boundary;
   the raw dump. -/
set_option linter.unusedSimpArgs false
set_option linter.unusedVariables false
namespace Uft.Fstack
open Uft.Mcount (Rec Trigger Call Calls evCall evCalls)

/-- the first record of a task file fixes stack_count from its depth field: for a trace
    that starts at depth 0 this is the value stack_count already has -/
theorem account_first (s : FS) (r : Rec) (hsc : s.sc = r.depth) (ht : r.type = 0) :
    account s r = account { s with scSet := true } r := by
  have h2 : ¬ r.type ≥ 2 := by omega
  simp only [account, h2, ↓reduceIte, ht]
  cases s.scSet <;> simp [hsc]

theorem evCalls_head (d : Nat) (xs : Calls) :
    evCalls d xs = [] ∨ ∃ r rest, evCalls d xs = r :: rest ∧ r.type = 0 ∧ r.depth = d := by
  cases xs with
  | nil => left; rfl
  | cons x rest =>
    right
    cases x with
    | node f t0 t1 kids =>
      exact ⟨{ time := t0, type := 0, depth := d, addr := f },
        evCalls (d + 1) kids ++ { time := t1, type := 1, depth := d, addr := f } :: evCalls d rest,
        by simp [evCalls, evCall], rfl, rfl⟩

theorem stepA_first (c : RCfg) (s : FS) (r : Rec) (hsc : s.sc = r.depth) (ht : r.type = 0) :
    stepA c s r = stepA c { s with scSet := true } r := by
  simp only [stepA, account_first s r hsc ht]

theorem stepB_first (c : RCfg) (s : FS) (r : Rec) (hsc : s.sc = r.depth) (ht : r.type = 0) :
    stepB c ⟨s, none⟩ r = stepB c ⟨{ s with scSet := true }, none⟩ r := by
  simp only [stepB, stepBmain, account_first s r hsc ht]

def initSet (c : RCfg) : FS := { FS.init c with scSet := true }

theorem good_initSet (c : RCfg) (hen : c.enabled0 = true) (hr : NoRange c) : Good (initSet c) := by
  constructor <;> simp [initSet, FS.init, hen, hr.1]

theorem envOf_initSet (c : RCfg) : envOf (initSet c) = Env.init c := rfl

theorem runSteps_init (c : RCfg) (xs : Calls) :
    runSteps (stepA c) (FS.init c) (evCalls 0 xs) = runSteps (stepA c) (initSet c) (evCalls 0 xs) := by
  rcases evCalls_head 0 xs with h | ⟨r, rest, h, ht, hd⟩
  · rw [h]; rfl
  · rw [h]
    simp only [runSteps]
    rw [stepA_first c (FS.init c) r (by simp [FS.init, hd]) ht]
    rfl

theorem runB_init (c : RCfg) (xs : Calls) :
    runB c ⟨FS.init c, none⟩ (evCalls 0 xs) = runB c ⟨initSet c, none⟩ (evCalls 0 xs) := by
  rcases evCalls_head 0 xs with h | ⟨r, rest, h, ht, hd⟩
  · rw [h]; rfl
  · rw [h]
    simp only [runB]
    rw [stepB_first c (FS.init c) r (by simp [FS.init, hd]) ht]
    rfl

theorem stepC_eq_stepA (c : RCfg) (hnl : c.noLibcall = false) : stepC c = stepA c := by
  funext s r
  simp only [stepC, stepA, isPlt_false c hnl r, Bool.false_eq_true, ↓reduceIte]

/-! ### `>` versus `≥` -/

mutual
  /-- no call ran exactly as long as the threshold that applies to it -/
  def Call.noBoundary (c : RCfg) (thr : Nat) : Call → Prop
    | .node f t0 t1 kids =>
      t1 - t0 ≠ (c.trig f).time.getD thr ∧ Calls.noBoundary c ((c.trig f).time.getD thr) kids
  def Calls.noBoundary (c : RCfg) (thr : Nat) : Calls → Prop
    | .nil => True
    | .cons x rest => Call.noBoundary c thr x ∧ Calls.noBoundary c thr rest
end

mutual
theorem prune_strict_call (c : RCfg) : ∀ (x : Call) (thr : Nat), Call.noBoundary c thr x →
    pruneCall c true thr x = pruneCall c false thr x
  | .node f t0 t1 kids, thr, h => by
    simp only [Call.noBoundary] at h
    have hk := prune_strict_calls c kids _ h.2
    have hd : keepDur true (t1 - t0) ((c.trig f).time.getD thr) = keepDur false (t1 - t0) ((c.trig f).time.getD thr) := by
      simp only [keepDur, Bool.false_eq_true, ↓reduceIte]
      have := h.1
      by_cases hgt : t1 - t0 > (c.trig f).time.getD thr
      · have : t1 - t0 ≥ (c.trig f).time.getD thr := by omega
        simp [hgt, this]
      · have : ¬ (t1 - t0 ≥ (c.trig f).time.getD thr) := by omega
        simp [hgt, this]
    simp only [pruneCall, hk, hd]
theorem prune_strict_calls (c : RCfg) : ∀ (xs : Calls) (thr : Nat), Calls.noBoundary c thr xs →
    pruneCalls c true thr xs = pruneCalls c false thr xs
  | .nil, _, _ => rfl
  | .cons x rest, thr, h => by
    simp only [Calls.noBoundary] at h
    simp only [pruneCalls, prune_strict_call c x thr h.1, prune_strict_calls c rest thr h.2]
end

mutual
theorem ordered_of_nestOK : ∀ (x : Call), Call.nestOK x → Call.ordered x
  | .node f t0 t1 kids, h => by
    simp only [Call.nestOK] at h
    simp only [Call.ordered]
    exact ⟨h.1, ordered_of_allDurLe kids _ h.2.2⟩
theorem ordered_of_allDurLe : ∀ (xs : Calls) (n : Nat), Calls.allDurLe n xs → Calls.ordered xs
  | .nil, _, _ => trivial
  | .cons x rest, n, h => by
    simp only [Calls.allDurLe] at h
    simp only [Calls.ordered]
    exact ⟨ordered_of_nestOK x h.2.1, ordered_of_allDurLe rest n h.2.2⟩
end

/-! ### no time filter: the look-ahead keeps everything -/

def NoTimeFilter (c : RCfg) : Prop := c.threshold = 0 ∧ c.callerMode = false ∧ ∀ f, (c.trig f).time = none

mutual
theorem prune_id_call (c : RCfg) (h : NoTimeFilter c) : ∀ (x : Call), pruneCall c false 0 x = some x
  | .node f t0 t1 kids => by
    simp only [pruneCall, h.2.2 f, Option.getD_none, prune_id_calls c h kids, keepDur, Bool.false_eq_true,
      ↓reduceIte, h.2.1]
    simp
theorem prune_id_calls (c : RCfg) (h : NoTimeFilter c) : ∀ (xs : Calls), pruneCalls c false 0 xs = xs
  | .nil => rfl
  | .cons x rest => by
    simp only [pruneCalls, prune_id_call c h x, prune_id_calls c h rest]
end

theorem filter_inRange (c : RCfg) (hr : NoRange c) (rs : List Rec) : rs.filter (fun r => inRange c r.time) = rs := by
  simp [inRange_of_noRange c hr]

end Uft.Fstack

namespace Uft.Fstack
open Uft.Mcount (Rec Trigger Call Calls evCall evCalls)

/-! ### --no-libcall after the repair of F-C07-NOLIBCALL: script against report/graph/dump -/

/-- the two readers agree on everything the filters look at (they may differ in display depth) -/
structure FEq (a b : FS) : Prop where
  inC : a.inCount = b.inCount
  outC : a.outCount = b.outCount
  depth : a.depth = b.depth
  stack : a.stack = b.stack
  sc : a.sc = b.sc
  scSet : a.scSet = b.scSet
  en : a.enabled = b.enabled

def eraseD (rs : List Rec) : List Rec := rs.map (fun r => { r with depth := 0 })

theorem eraseD_append (a b : List Rec) : eraseD (a ++ b) = eraseD a ++ eraseD b := by simp [eraseD]

theorem feq_account (a b : FS) (h : FEq a b) (r : Rec) : FEq (account a r) (account b r) := by
  unfold account
  split
  · exact h
  · exact ⟨h.inC, h.outC, h.depth, h.stack, by simp only [h.scSet, h.sc], rfl, h.en⟩

theorem feq_verdict (c : RCfg) (a b : FS) (h : FEq a b) (f : Nat) : verdict c a f = verdict c b f := by
  obtain ⟨h1, h2, h3, h4, h5, h6, h7⟩ := h
  cases a; cases b
  simp only at h1 h2 h3 h4 h5 h6 h7
  subst h1 h2 h3 h4 h5 h6 h7
  rfl

theorem feq_fsEntry (c : RCfg) (a b : FS) (h : FEq a b) (f : Nat) :
    FEq (fsEntry c a f).1 (fsEntry c b f).1 ∧ (fsEntry c a f).2 = (fsEntry c b f).2 := by
  have hv := feq_verdict c a b h f
  refine ⟨⟨?_, ?_, ?_, ?_, ?_, ?_, ?_⟩, ?_⟩ <;>
    simp only [fsEntry, hv, h.inC, h.outC, h.depth, h.stack, h.sc, h.scSet, h.en, depthAfter]

theorem feq_fsExit (c : RCfg) (a b : FS) (h : FEq a b) : FEq (fsExit c a) (fsExit c b) := by
  have ht : topFr c a = topFr c b := by simp only [topFr, h.stack]
  refine ⟨?_, ?_, ?_, ?_, ?_, ?_, ?_⟩ <;> simp only [fsExit, ht, h.inC, h.outC, h.stack, h.sc, h.scSet, h.en]

theorem feq_updEntry_l (a b : FS) (h : FEq a b) : FEq (updEntry a) b := ⟨h.inC, h.outC, h.depth, h.stack, h.sc, h.scSet, h.en⟩
theorem feq_updEntry_r (a b : FS) (h : FEq a b) : FEq a (updEntry b) := ⟨h.inC, h.outC, h.depth, h.stack, h.sc, h.scSet, h.en⟩
theorem feq_updExit_l (a b : FS) (h : FEq a b) : FEq (updExit a) b := ⟨h.inC, h.outC, h.depth, h.stack, h.sc, h.scSet, h.en⟩
theorem feq_updExit_r (a b : FS) (h : FEq a b) : FEq a (updExit b) := ⟨h.inC, h.outC, h.depth, h.stack, h.sc, h.scSet, h.en⟩

theorem feq_exitStep (c : RCfg) (a b : FS) (h : FEq a b) (r : Rec) (q : Bool) :
    FEq (exitStep c a r q).1 (exitStep c b r q).1 ∧ eraseD (exitStep c a r q).2 = eraseD (exitStep c b r q).2 := by
  have ht : topFr c a = topFr c b := by simp only [topFr, h.stack]
  unfold exitStep
  rw [ht, h.en]
  split
  · exact ⟨feq_fsExit c a b h, rfl⟩
  · refine ⟨feq_fsExit c _ _ (feq_updExit_l _ _ (feq_updExit_r _ _ h)), ?_⟩
    cases q <;> simp [eraseD, shown]

theorem feq_exitStep_hidden (c : RCfg) (a b : FS) (h : FEq a b) (r : Rec) :
    FEq (fsExit c a) (exitStep c b r true).1 ∧ (exitStep c b r true).2 = [] := by
  unfold exitStep
  split
  · exact ⟨feq_fsExit c a b h, rfl⟩
  · exact ⟨feq_fsExit c _ _ (feq_updExit_r _ _ h), rfl⟩

/-- one record: script (repaired) against the fstack_check_filter loop -/
theorem feq_step (c : RCfg) (hfix : c.pltFixed = true) (a b : FS) (h : FEq a b) (r : Rec) :
    FEq (stepC c a r).1 (stepA c b r).1 ∧ eraseD (stepC c a r).2 = eraseD (stepA c b r).2 := by
  have ha := feq_account a b h r
  obtain ⟨he, hb⟩ := feq_fsEntry c _ _ ha r.addr
  unfold stepC stepA
  simp only [hfix, ↓reduceIte]
  cases hp : isPlt c r with
  | true =>
    simp only [↓reduceIte, stepHidden]
    by_cases h0 : r.type = 0
    · simp only [h0, ↓reduceIte]
      cases hacc : (fsEntry c (account b r) r.addr).2 with
      | true => exact ⟨feq_updEntry_r _ _ he, rfl⟩
      | false => exact ⟨he, rfl⟩
    · simp only [h0, ↓reduceIte]
      by_cases h1 : r.type = 1
      · simp only [h1, ↓reduceIte]
        obtain ⟨x1, x2⟩ := feq_exitStep_hidden c _ _ ha r
        exact ⟨x1, by rw [x2]⟩
      · simp only [h1, ↓reduceIte]
        exact ⟨ha, trivial⟩
  | false =>
    simp only [Bool.false_eq_true, ↓reduceIte]
    by_cases h0 : r.type = 0
    · simp only [h0, ↓reduceIte, hb]
      cases hacc : (fsEntry c (account b r) r.addr).2 with
      | true =>
        simp only [↓reduceIte]
        exact ⟨feq_updEntry_l _ _ (feq_updEntry_r _ _ he), by simp [eraseD, shown]⟩
      | false => exact ⟨he, rfl⟩
    · simp only [h0, ↓reduceIte]
      by_cases h1 : r.type = 1
      · simp only [h1, ↓reduceIte]
        exact feq_exitStep c _ _ ha r false
      · simp only [h1, ↓reduceIte]
        exact ⟨ha, trivial⟩

theorem feq_run (c : RCfg) (hfix : c.pltFixed = true) : ∀ (rs : List Rec) (a b : FS), FEq a b →
    eraseD (runSteps (stepC c) a rs) = eraseD (runSteps (stepA c) b rs)
  | [], _, _, _ => rfl
  | r :: rest, a, b, h => by
    obtain ⟨h1, h2⟩ := feq_step c hfix a b h r
    simp only [runSteps, eraseD_append, h2, feq_run c hfix rest _ _ h1]

theorem feq_refl (a : FS) : FEq a a := ⟨rfl, rfl, rfl, rfl, rfl, rfl, rfl⟩

end Uft.Fstack
