import Uft.Lemmas.FstackLA
import Uft.Lemmas.FstackReplay
import Uft.Lemmas.FstackRecord
/- C07 helper lemmas, part 6: from the reader's initial state; the `>` / `≥` boundary;
   the raw dump. -/
set_option linter.unusedSimpArgs false
set_option linter.unusedVariables false
namespace Uft.Fstack
open Uft.Mcount (Rec Trigger Call Calls evCall evCalls)

/-- the first record of a task file fixes stack_count from its depth field: for a trace
    that starts at depth 0 this is the value stack_count already has -/
theorem account_first (s : FS) (r : Rec) (hsc : s.sc = r.depth) (ht : r.type = 0) :
    account s r = account { s with scSet := true } r := by
  have h2 : ¬ r.type ≥ 2 := by omega
  simp only [account, h2, ↓reduceIte, ht]
  cases s.scSet <;> simp [hsc]

theorem evCalls_head (d : Nat) (xs : Calls) :
    evCalls d xs = [] ∨ ∃ r rest, evCalls d xs = r :: rest ∧ r.type = 0 ∧ r.depth = d := by
  cases xs with
  | nil => left; rfl
  | cons x rest =>
    right
    cases x with
    | node f t0 t1 kids =>
      exact ⟨{ time := t0, type := 0, depth := d, addr := f },
        evCalls (d + 1) kids ++ { time := t1, type := 1, depth := d, addr := f } :: evCalls d rest,
        by simp [evCalls, evCall], rfl, rfl⟩

theorem stepA_first (c : RCfg) (s : FS) (r : Rec) (hsc : s.sc = r.depth) (ht : r.type = 0) :
    stepA c s r = stepA c { s with scSet := true } r := by
  simp only [stepA, account_first s r hsc ht]

theorem stepB_first (c : RCfg) (s : FS) (r : Rec) (hsc : s.sc = r.depth) (ht : r.type = 0) :
    stepB c ⟨s, none⟩ r = stepB c ⟨{ s with scSet := true }, none⟩ r := by
  simp only [stepB, stepBmain, account_first s r hsc ht]

def initSet (c : RCfg) : FS := { FS.init c with scSet := true }

theorem good_initSet (c : RCfg) (hen : c.enabled0 = true) (hr : NoRange c) : Good (initSet c) := by
  constructor <;> simp [initSet, FS.init, hen, hr.1]

theorem envOf_initSet (c : RCfg) : envOf (initSet c) = Env.init c := rfl

theorem runSteps_init (c : RCfg) (xs : Calls) :
    runSteps (stepA c) (FS.init c) (evCalls 0 xs) = runSteps (stepA c) (initSet c) (evCalls 0 xs) := by
  rcases evCalls_head 0 xs with h | ⟨r, rest, h, ht, hd⟩
  · rw [h]; rfl
  · rw [h]
    simp only [runSteps]
    rw [stepA_first c (FS.init c) r (by simp [FS.init, hd]) ht]
    rfl

theorem runB_init (c : RCfg) (xs : Calls) :
    runB c ⟨FS.init c, none⟩ (evCalls 0 xs) = runB c ⟨initSet c, none⟩ (evCalls 0 xs) := by
  rcases evCalls_head 0 xs with h | ⟨r, rest, h, ht, hd⟩
  · rw [h]; rfl
  · rw [h]
    simp only [runB]
    rw [stepB_first c (FS.init c) r (by simp [FS.init, hd]) ht]
    rfl

theorem stepC_eq_stepA (c : RCfg) (hnl : c.noLibcall = false) : stepC c = stepA c := by
  funext s r
  simp only [stepC, stepA, isPlt_false c hnl r, Bool.false_eq_true, ↓reduceIte]

/-! ### `>` versus `≥` -/

mutual
  /-- no call ran exactly as long as the threshold that applies to it -/
  def Call.noBoundary (c : RCfg) (thr : Nat) : Call → Prop
    | .node f t0 t1 kids =>
      t1 - t0 ≠ (c.trig f).time.getD thr ∧ Calls.noBoundary c ((c.trig f).time.getD thr) kids
  def Calls.noBoundary (c : RCfg) (thr : Nat) : Calls → Prop
    | .nil => True
    | .cons x rest => Call.noBoundary c thr x ∧ Calls.noBoundary c thr rest
end

mutual
theorem prune_strict_call (c : RCfg) : ∀ (x : Call) (thr : Nat), Call.noBoundary c thr x →
    pruneCall c true thr x = pruneCall c false thr x
  | .node f t0 t1 kids, thr, h => by
    simp only [Call.noBoundary] at h
    have hk := prune_strict_calls c kids _ h.2
    have hd : keepDur true (t1 - t0) ((c.trig f).time.getD thr) = keepDur false (t1 - t0) ((c.trig f).time.getD thr) := by
      simp only [keepDur, Bool.false_eq_true, ↓reduceIte]
      have := h.1
      by_cases hgt : t1 - t0 > (c.trig f).time.getD thr
      · have : t1 - t0 ≥ (c.trig f).time.getD thr := by omega
        simp [hgt, this]
      · have : ¬ (t1 - t0 ≥ (c.trig f).time.getD thr) := by omega
        simp [hgt, this]
    simp only [pruneCall, hk, hd]
theorem prune_strict_calls (c : RCfg) : ∀ (xs : Calls) (thr : Nat), Calls.noBoundary c thr xs →
    pruneCalls c true thr xs = pruneCalls c false thr xs
  | .nil, _, _ => rfl
  | .cons x rest, thr, h => by
    simp only [Calls.noBoundary] at h
    simp only [pruneCalls, prune_strict_call c x thr h.1, prune_strict_calls c rest thr h.2]
end

mutual
theorem ordered_of_nestOK : ∀ (x : Call), Call.nestOK x → Call.ordered x
  | .node f t0 t1 kids, h => by
    simp only [Call.nestOK] at h
    simp only [Call.ordered]
    exact ⟨by omega, ordered_of_allDurLe kids _ h.2⟩
theorem ordered_of_allDurLe : ∀ (xs : Calls) (n : Nat), Calls.allDurLe n xs → Calls.ordered xs
  | .nil, _, _ => trivial
  | .cons x rest, n, h => by
    simp only [Calls.allDurLe] at h
    simp only [Calls.ordered]
    exact ⟨ordered_of_nestOK x h.2.1, ordered_of_allDurLe rest n h.2.2⟩
end

mutual
/-- with -t 0 a timed call never sits on the boundary -/
theorem noBoundary_zero_call (c : RCfg) (hnt : ∀ f, (c.trig f).time = none) : ∀ (x : Call), Call.nestOK x →
    Call.noBoundary c 0 x
  | .node f t0 t1 kids, h => by
    simp only [Call.nestOK] at h
    simp only [Call.noBoundary, hnt f, Option.getD_none]
    exact ⟨by omega, noBoundary_zero_calls c hnt kids _ h.2⟩
theorem noBoundary_zero_calls (c : RCfg) (hnt : ∀ f, (c.trig f).time = none) : ∀ (xs : Calls) (n : Nat),
    Calls.allDurLe n xs → Calls.noBoundary c 0 xs
  | .nil, _, _ => trivial
  | .cons x rest, n, h => by
    simp only [Calls.allDurLe] at h
    simp only [Calls.noBoundary]
    exact ⟨noBoundary_zero_call c hnt x h.2.1, noBoundary_zero_calls c hnt rest n h.2.2⟩
end

/-! ### no time filter: the look-ahead keeps everything -/

def NoTimeFilter (c : RCfg) : Prop := c.threshold = 0 ∧ c.callerMode = false ∧ ∀ f, (c.trig f).time = none

mutual
theorem prune_id_call (c : RCfg) (h : NoTimeFilter c) : ∀ (x : Call), pruneCall c false 0 x = some x
  | .node f t0 t1 kids => by
    simp only [pruneCall, h.2.2 f, Option.getD_none, prune_id_calls c h kids, keepDur, Bool.false_eq_true,
      ↓reduceIte, h.2.1]
    simp
theorem prune_id_calls (c : RCfg) (h : NoTimeFilter c) : ∀ (xs : Calls), pruneCalls c false 0 xs = xs
  | .nil => rfl
  | .cons x rest => by
    simp only [pruneCalls, prune_id_call c h x, prune_id_calls c h rest]
end

theorem filter_inRange (c : RCfg) (hr : NoRange c) (rs : List Rec) : rs.filter (fun r => inRange c r.time) = rs := by
  simp [inRange_of_noRange c hr]

end Uft.Fstack
