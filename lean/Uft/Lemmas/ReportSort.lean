/- C08 helper lemmas: the sort key chain is a total preorder; insertion keeps the list ordered. -/
import Uft.Model.Report
namespace Uft.Report

/-- a three-way comparison that behaves like one (sign-antisymmetric, transitive) -/
structure IsCmp (c : Row → Row → Int) : Prop where
  neg : ∀ a b, c a b = - c b a
  lt_trans : ∀ a b d, c a b < 0 → c b d < 0 → c a d < 0
  eq_trans : ∀ a b d, c a b = 0 → c b d = 0 → c a d = 0
  eq_lt : ∀ a b d, c a b = 0 → c b d < 0 → c a d < 0
  lt_eq : ∀ a b d, c a b < 0 → c b d = 0 → c a d < 0

theorem cmpNat_isCmp (p : Row → Nat) : IsCmp (fun a b => cmpNat (p a) (p b)) := by
  refine ⟨?_, ?_, ?_, ?_, ?_⟩ <;> intros <;> simp only [cmpNat] at * <;> (repeat' split at *) <;> omega

theorem cmpNat_rev_isCmp (p : Row → Nat) : IsCmp (fun a b => cmpNat (p b) (p a)) := by
  refine ⟨?_, ?_, ?_, ?_, ?_⟩ <;> intros <;> simp only [cmpNat] at * <;> (repeat' split at *) <;> omega

theorem Key.cmp_isCmp (k : Key) : IsCmp k.cmp := by
  cases k
  · exact cmpNat_isCmp (·.tsum)
  · exact cmpNat_isCmp (·.tavg)
  · exact cmpNat_isCmp (·.tmin)
  · exact cmpNat_isCmp (·.tmax)
  · exact cmpNat_isCmp (·.ssum)
  · exact cmpNat_isCmp (·.savg)
  · exact cmpNat_isCmp (·.smin)
  · exact cmpNat_isCmp (·.smax)
  · exact cmpNat_isCmp (·.call)
  · exact cmpNat_rev_isCmp (·.key)
  · exact cmpNat_isCmp (·.size)

theorem cmpChain_isCmp (cs : List (Row → Row → Int)) (h : ∀ c ∈ cs, IsCmp c) : IsCmp (cmpChain cs) := by
  induction cs with
  | nil => refine ⟨?_, ?_, ?_, ?_, ?_⟩ <;> intros <;> simp [cmpChain] at *
  | cons c rest ih =>
    have hc := h c List.mem_cons_self
    have hr := ih (fun x hx => h x (List.mem_cons_of_mem _ hx))
    refine ⟨?_, ?_, ?_, ?_, ?_⟩
    · intro a b
      have := hc.neg a b
      have := hr.neg a b
      simp only [cmpChain]
      split <;> split <;> omega
    · intro a b d h1 h2
      simp only [cmpChain] at *
      have n1 := hc.neg a b; have n2 := hc.neg b d; have n3 := hc.neg a d
      by_cases e1 : c a b = 0 <;> by_cases e2 : c b d = 0
      · have := hc.eq_trans a b d e1 e2
        simp only [e1, e2, this, ne_eq, not_true_eq_false, if_false] at *
        exact hr.lt_trans a b d h1 h2
      · simp only [e1, e2, ne_eq, not_true_eq_false, not_false_eq_true, if_false, if_true] at h1 h2
        have := hc.eq_lt a b d e1 h2
        have ne : c a d ≠ 0 := by omega
        simp only [ne, ne_eq, not_false_eq_true, if_true]; exact this
      · simp only [e1, e2, ne_eq, not_true_eq_false, not_false_eq_true, if_false, if_true] at h1 h2
        have := hc.lt_eq a b d h1 e2
        have ne : c a d ≠ 0 := by omega
        simp only [ne, ne_eq, not_false_eq_true, if_true]; exact this
      · simp only [e1, e2, ne_eq, not_false_eq_true, if_true] at h1 h2
        have := hc.lt_trans a b d h1 h2
        have ne : c a d ≠ 0 := by omega
        simp only [ne, ne_eq, not_false_eq_true, if_true]; exact this
    · intro a b d h1 h2
      simp only [cmpChain] at *
      by_cases e1 : c a b = 0 <;> by_cases e2 : c b d = 0
      · have := hc.eq_trans a b d e1 e2
        simp only [e1, e2, this, ne_eq, not_true_eq_false, if_false] at *
        exact hr.eq_trans a b d h1 h2
      · simp only [e1, e2, ne_eq, not_true_eq_false, not_false_eq_true, if_false, if_true] at h1 h2
      · simp only [e1, e2, ne_eq, not_true_eq_false, not_false_eq_true, if_false, if_true] at h1 h2
      · simp only [e1, e2, ne_eq, not_false_eq_true, if_true] at h1 h2
    · intro a b d h1 h2
      simp only [cmpChain] at *
      by_cases e1 : c a b = 0 <;> by_cases e2 : c b d = 0
      · have := hc.eq_trans a b d e1 e2
        simp only [e1, e2, this, ne_eq, not_true_eq_false, if_false] at *
        exact hr.eq_lt a b d h1 h2
      · simp only [e1, e2, ne_eq, not_true_eq_false, not_false_eq_true, if_false, if_true] at h1 h2
        have := hc.eq_lt a b d e1 h2
        have ne : c a d ≠ 0 := by omega
        simp only [ne, ne_eq, not_false_eq_true, if_true]; exact this
      · simp only [e1, e2, ne_eq, not_true_eq_false, not_false_eq_true, if_false, if_true] at h1 h2
      · simp only [e1, e2, ne_eq, not_false_eq_true, if_true] at h1 h2
    · intro a b d h1 h2
      simp only [cmpChain] at *
      by_cases e1 : c a b = 0 <;> by_cases e2 : c b d = 0
      · have := hc.eq_trans a b d e1 e2
        simp only [e1, e2, this, ne_eq, not_true_eq_false, if_false] at *
        exact hr.lt_eq a b d h1 h2
      · simp only [e1, e2, ne_eq, not_true_eq_false, not_false_eq_true, if_false, if_true] at h1 h2
      · simp only [e1, e2, ne_eq, not_true_eq_false, not_false_eq_true, if_false, if_true] at h1 h2
        have := hc.lt_eq a b d h1 e2
        have ne : c a d ≠ 0 := by omega
        simp only [ne, ne_eq, not_false_eq_true, if_true]; exact this
      · simp only [e1, e2, ne_eq, not_false_eq_true, if_true] at h1 h2

/-! ### insertion -/

theorem insertRow_perm (cmp : Row → Row → Int) (node : Row) (l : List Row) :
    (insertRow cmp node l).Perm (node :: l) := by
  induction l with
  | nil => exact List.Perm.refl _
  | cons iter rest ih =>
    simp only [insertRow]
    split
    · exact List.Perm.refl _
    · exact (List.Perm.cons iter ih).trans (List.Perm.swap node iter rest)

/-- "no row is followed by a greater one" -/
def Desc (cmp : Row → Row → Int) (l : List Row) : Prop := l.Pairwise (fun a b => ¬ cmp a b < 0)

theorem insertRow_desc (cmp : Row → Row → Int) (hc : IsCmp cmp) (node : Row) (l : List Row)
    (h : Desc cmp l) : Desc cmp (insertRow cmp node l) := by
  induction l with
  | nil => simp [insertRow, Desc]
  | cons iter rest ih =>
    simp only [Desc, List.pairwise_cons] at h
    obtain ⟨h1, h2⟩ := h
    simp only [insertRow]
    split
    · next hlt =>
      simp only [Desc, List.pairwise_cons]
      refine ⟨?_, h1, h2⟩
      intro x hx
      rcases List.mem_cons.mp hx with e | e
      · subst e
        have := hc.neg node x
        omega
      · intro hnx
        exact h1 x e (hc.lt_trans _ _ _ hlt hnx)
    · next hge =>
      simp only [Desc, List.pairwise_cons]
      refine ⟨?_, ih h2⟩
      intro x hx
      have := (insertRow_perm cmp node rest).mem_iff.mp hx
      rcases List.mem_cons.mp this with e | e
      · subst e; exact hge
      · exact h1 x e

theorem sortRows_spec (cmp : Row → Row → Int) (hc : IsCmp cmp) (rows : List Row) :
    (sortRows cmp rows).Perm rows ∧ Desc cmp (sortRows cmp rows) := by
  have gen : ∀ (rows acc : List Row), Desc cmp acc →
      (rows.foldl (fun acc r => insertRow cmp r acc) acc).Perm (rows.reverse ++ acc) ∧
      Desc cmp (rows.foldl (fun acc r => insertRow cmp r acc) acc) := by
    intro rows
    induction rows with
    | nil => intro acc h; exact ⟨List.Perm.refl _, h⟩
    | cons r rows ih =>
      intro acc h
      obtain ⟨p, d⟩ := ih (insertRow cmp r acc) (insertRow_desc cmp hc r acc h)
      refine ⟨?_, d⟩
      simp only [List.foldl_cons, List.reverse_cons, List.append_assoc, List.singleton_append]
      exact p.trans (List.Perm.append_left _ (insertRow_perm cmp r acc))
  obtain ⟨p, d⟩ := gen rows [] (by simp [Desc])
  refine ⟨?_, d⟩
  simp only [List.append_nil] at p
  exact p.trans (List.reverse_perm rows)

/-! ### a repeated key adds nothing -/

theorem cmpChain_dedupAux (a b : Row) : ∀ (ks seen : List Key), (∀ s ∈ seen, s.cmp a b = 0) →
    cmpChain ((dedupAux seen ks).map Key.cmp) a b = cmpChain (ks.map Key.cmp) a b
  | [], _, _ => rfl
  | k :: ks, seen, h => by
    by_cases hk : k ∈ seen
    · have hz := h k hk
      simp only [dedupAux, hk, if_true, List.map_cons, cmpChain, hz, ne_eq, not_true_eq_false, if_false]
      exact cmpChain_dedupAux a b ks seen h
    · simp only [dedupAux, hk, if_false, List.map_cons, cmpChain]
      by_cases hz : k.cmp a b = 0
      · simp only [hz, ne_eq, not_true_eq_false, if_false]
        exact cmpChain_dedupAux a b ks (k :: seen) (by
          intro s hs
          rcases List.mem_cons.mp hs with e | e
          · subst e; exact hz
          · exact h s e)
      · simp only [hz, ne_eq, not_false_eq_true, if_true]

theorem cmpChain_dedup (ks : List Key) :
    cmpChain ((dedupKeys ks).map Key.cmp) = cmpChain (ks.map Key.cmp) := by
  funext a b
  exact cmpChain_dedupAux a b ks [] (by intro s hs; cases hs)

end Uft.Report
