import Uft.Model.Argbuf
/-
Helper lemmas for C09 (model `Argbuf`): little-endian bytes, memory reads,
the closed form of the string copy loop, one packer step = one chunk,
readers on chunks.
-/
namespace Uft.Argbuf

/-! ## little endian -/

@[simp] theorem leBytes_length (n v : Nat) : (leBytes n v).length = n := by
  induction n generalizing v with
  | zero => rfl
  | succ n ih => simp [leBytes, ih]

theorem toNat_ofNat_mod (v : Nat) : (UInt8.ofNat (v % 256)).toNat = v % 256 := by
  simp [UInt8.toNat_ofNat']

theorem ofLe_leBytes (n v : Nat) : ofLe (leBytes n v) = v % 256 ^ n := by
  induction n generalizing v with
  | zero => simp [leBytes, ofLe, Nat.mod_one]
  | succ n ih =>
    simp only [leBytes, ofLe, ih, toNat_ofNat_mod]
    rw [Nat.pow_succ, Nat.mul_comm (256 ^ n) 256, Nat.mod_mul]

theorem leBytes_take : ∀ (k n v : Nat), k ≤ n → (leBytes n v).take k = leBytes k v := by
  intro k
  induction k with
  | zero => intro n v _; simp [leBytes]
  | succ k ih =>
    intro n v h
    cases n with
    | zero => omega
    | succ n => simp [leBytes, ih n (v / 256) (by omega)]

theorem getD_append_lt {l r : List Byte} {i : Nat} (h : i < l.length) : (l ++ r).getD i 0 = l.getD i 0 := by
  simp [List.getD_eq_getElem?_getD, List.getElem?_append_left h]

theorem getD_append_ge {l r : List Byte} {i : Nat} (h : l.length ≤ i) :
    (l ++ r).getD i 0 = r.getD (i - l.length) 0 := by
  simp [List.getD_eq_getElem?_getD, List.getElem?_append_right h]

theorem getD_take_lt {l : List Byte} {i k : Nat} (h : i < k) : (l.take k).getD i 0 = l.getD i 0 := by
  simp [List.getD_eq_getElem?_getD, List.getElem?_take, h]

/-! ## memory -/

@[simp] theorem rd_length (m : Mem) (a n : Nat) : (m.rd a n).length = n := by
  induction n generalizing a with
  | zero => rfl
  | succ n ih => simp [Mem.rd, ih]

theorem rd_append (m : Mem) (a n k : Nat) : m.rd a (n + k) = m.rd a n ++ m.rd (a + n) k := by
  induction n generalizing a with
  | zero => simp [Mem.rd]
  | succ n ih =>
    have : n + 1 + k = (n + k) + 1 := by omega
    rw [this]
    have e : a + 1 + n = a + (n + 1) := by omega
    simp only [Mem.rd, List.cons_append, ih (a + 1), e]

theorem rd_congr (m m' : Mem) (a n : Nat) (h : ∀ j, a ≤ j → j < a + n → m.get j = m'.get j) :
    m.rd a n = m'.rd a n := by
  induction n generalizing a with
  | zero => rfl
  | succ n ih =>
    simp only [Mem.rd]
    rw [h a (by omega) (by omega), ih (a + 1) (fun j h1 h2 => h j (by omega) (by omega))]

theorem rd_eq_of_get (m : Mem) (a : Nat) (l : List Byte)
    (h : ∀ k, k < l.length → m.get (a + k) = l.getD k 0) : m.rd a l.length = l := by
  induction l generalizing a with
  | nil => rfl
  | cons x r ih =>
    simp only [List.length_cons, Mem.rd]
    have h0 := h 0 (by simp)
    simp at h0
    rw [h0, ih (a + 1)]
    intro k hk
    have := h (k + 1) (by simp; omega)
    simpa [Nat.add_assoc, Nat.add_comm 1 k] using this

@[simp] theorem get_wr (m : Mem) (i j : Nat) (b : Byte) :
    (m.wr i b).get j = if j = i then b else m.get j := rfl

@[simp] theorem hi_wr (m : Mem) (i : Nat) (b : Byte) : (m.wr i b).hi = max m.hi (i + 1) := rfl

@[simp] theorem get_blit (m : Mem) (off j : Nat) (bs : List Byte) :
    (m.blit off bs).get j = if off ≤ j ∧ j < off + bs.length then bs.getD (j - off) 0 else m.get j := rfl

theorem hi_blit_le (m : Mem) (off : Nat) (bs : List Byte) :
    (m.blit off bs).hi ≤ max m.hi (off + bs.length) := by
  simp only [Mem.blit]
  split <;> omega

theorem rd_blit_same (m : Mem) (off : Nat) (bs : List Byte) : (m.blit off bs).rd off bs.length = bs := by
  apply rd_eq_of_get
  intro k hk
  simp [hk]

/-! ## the copy loop -/

def NoNul (s : List Byte) : Prop := ∀ b ∈ s, b ≠ 0

theorem getD_ne_zero_of_lt {s : List Byte} (hs : NoNul s) {i : Nat} (h : i < s.length) : s.getD i 0 ≠ 0 := by
  have : s.getD i 0 = s[i] := by simp [List.getD, h]
  rw [this]
  exact hs _ (List.getElem_mem h)

theorem getD_zero_of_ge (s : List Byte) {i : Nat} (h : s.length ≤ i) : s.getD i 0 = 0 := by
  simp [List.getD, h]

/-- the value of `i` (= `len`) when the loop is left -/
def copyLen (n room : Nat) : Nat := min (min n 98) room

/-- what the loop leaves at dst[0 ..] -/
def copyImg (s : List Byte) (room : Nat) : List Byte :=
  if copyLen s.length room = room then s.take room
  else if s.length < 98 then s ++ [0]
  else s.take (95) ++ [DOT, DOT, DOT, 0]

theorem copyLoop_post (s : List Byte) (room d : Nat) (hs : NoNul s) :
    ∀ (fuel i : Nat) (m : Mem), i ≤ copyLen s.length room → 98 < fuel + i →
      (∀ k, k < i → m.get (d + k) = s.getD k 0) →
      (copyLoop s room d fuel i m).2 = copyLen s.length room ∧
      (∀ j, (copyLoop s room d fuel i m).1.get j =
        if d ≤ j ∧ j < d + (copyImg s room).length then (copyImg s room).getD (j - d) 0 else m.get j) ∧
      (copyLoop s room d fuel i m).1.hi ≤ max m.hi (d + (copyImg s room).length) := by
  intro fuel
  induction fuel with
  | zero =>
    intro i m hi hf
    simp only [copyLen] at hi
    omega
  | succ fuel ih =>
    intro i m hi hf hpre
    have hL : copyLen s.length room = min (min s.length 98) room := rfl
    unfold copyLoop
    by_cases hroom : i < room
    · simp only [hroom, if_true]
      by_cases h98 : i = 98
      · -- truncation
        subst h98
        have hn : 98 ≤ s.length := by rw [hL] at hi; omega
        have hLv : copyLen s.length room = 98 := by rw [hL] at hi ⊢; omega
        have himg : copyImg s room = s.take 95 ++ [DOT, DOT, DOT, 0] := by
          unfold copyImg
          rw [hLv, if_neg (by omega), if_neg (by omega)]
        have hl95 : (s.take 95).length = 95 := by simp only [List.length_take]; omega
        have hlen : (copyImg s room).length = 99 := by
          rw [himg, List.length_append, hl95]; rfl
        have a1 : d + 98 - 1 = d + 97 := by omega
        have a2 : d + 98 - 2 = d + 96 := by omega
        have a3 : d + 98 - 3 = d + 95 := by omega
        simp only [if_true, get_wr, a1, a2, a3]
        refine ⟨hLv.symm, ?_, ?_⟩
        · intro j
          rw [hlen, himg]
          by_cases hj : d ≤ j ∧ j < d + 99
          · rw [if_pos hj]
            obtain ⟨k, rfl⟩ : ∃ k, j = d + k := ⟨j - d, by omega⟩
            have hk : k < 99 := by omega
            have hdk : d + k - d = k := by omega
            rw [hdk]
            by_cases hk95 : k < 95
            · have e1 : ¬ (d + k = d + 98) := by omega
              have e2 : ¬ (d + k = d + 97) := by omega
              have e3 : ¬ (d + k = d + 96) := by omega
              have e4 : ¬ (d + k = d + 95) := by omega
              simp only [e1, e2, e3, e4, if_false]
              rw [hpre k (by omega), getD_append_lt (by omega), getD_take_lt hk95]
            · have hk' : k = 95 ∨ k = 96 ∨ k = 97 ∨ k = 98 := by omega
              rw [getD_append_ge (by omega), hl95]
              rcases hk' with rfl | rfl | rfl | rfl <;> simp
          · rw [if_neg hj]
            have e1 : ¬ (j = d + 98) := by omega
            have e2 : ¬ (j = d + 97) := by omega
            have e3 : ¬ (j = d + 96) := by omega
            have e4 : ¬ (j = d + 95) := by omega
            simp only [e1, e2, e3, e4, if_false]
        · rw [hlen]
          simp only [hi_wr]
          omega
      · -- plain copy of one byte
        simp only [h98, if_false, get_wr, if_true]
        by_cases hz : s.getD i 0 = 0
        · -- the terminator
          simp only [hz, if_true]
          have hin : i = s.length := by
            have h1 : ¬ i < s.length := fun h => getD_ne_zero_of_lt hs h hz
            rw [hL] at hi; omega
          have hn98 : s.length < 98 := by rw [hL] at hi; omega
          have hLv : copyLen s.length room = s.length := by rw [hL]; omega
          have himg : copyImg s room = s ++ [0] := by
            unfold copyImg
            rw [hLv, if_neg (by omega), if_pos hn98]
          refine ⟨by rw [hLv, hin], ?_, ?_⟩
          · intro j
            rw [himg]
            simp only [List.length_append, List.length_singleton]
            by_cases hj : d ≤ j ∧ j < d + (s.length + 1)
            · rw [if_pos hj]
              obtain ⟨k, rfl⟩ : ∃ k, j = d + k := ⟨j - d, by omega⟩
              have hdk : d + k - d = k := by omega
              rw [hdk]
              by_cases hk : k = i
              · subst hk
                rw [get_wr, if_pos rfl, getD_append_ge (by omega), hin]
                simp
              · have hki : k < i := by omega
                have e : ¬ (d + k = d + i) := by omega
                rw [get_wr, if_neg e, hpre k hki, getD_append_lt (by omega)]
            · rw [if_neg hj]
              have e : ¬ (j = d + i) := by omega
              rw [get_wr, if_neg e]
          · rw [himg]
            simp only [hi_wr, List.length_append, List.length_singleton]
            omega
        · -- continue
          simp only [hz, if_false]
          have hlt : i < s.length := by
            by_cases h : i < s.length
            · exact h
            · exact absurd (getD_zero_of_ge s (by omega)) hz
          have h98' : i < 98 := by rw [hL] at hi; omega
          have hi' : i + 1 ≤ copyLen s.length room := by rw [hL]; omega
          have hpre' : ∀ k, k < i + 1 → ((m.wr (d + i) (s.getD i 0)).get (d + k)) = s.getD k 0 := by
            intro k hk
            simp only [get_wr]
            by_cases hki : k = i
            · subst hki; simp
            · have e : ¬ (d + k = d + i) := by omega
              rw [if_neg e]; exact hpre k (by omega)
          obtain ⟨r1, r2, r3⟩ := ih (i + 1) (m.wr (d + i) (s.getD i 0)) hi' (by omega) hpre'
          have hW : i + 1 ≤ (copyImg s room).length := by
            unfold copyImg
            split
            · simp only [List.length_take]; rw [hL] at hi'; omega
            · split
              · simp only [List.length_append, List.length_singleton]; omega
              · simp only [List.length_append, List.length_take, List.length_cons, List.length_nil]; omega
          refine ⟨r1, ?_, ?_⟩
          · intro j
            rw [r2 j]
            by_cases hj : d ≤ j ∧ j < d + (copyImg s room).length
            · rw [if_pos hj, if_pos hj]
            · rw [if_neg hj, if_neg hj]
              have e : ¬ (j = d + i) := by omega
              simp only [get_wr, if_neg e]
          · have := r3
            simp only [hi_wr] at this
            omega
    · -- no room left
      simp only [hroom, if_false]
      have hir : i = room := by rw [hL] at hi; omega
      have hLv : copyLen s.length room = room := by rw [hL] at hi ⊢; omega
      have himg : copyImg s room = s.take room := by unfold copyImg; rw [if_pos hLv]
      have hlen : (s.take room).length = room := by
        simp only [List.length_take]; rw [hL] at hLv; omega
      refine ⟨by rw [hLv, hir], ?_, by omega⟩
      intro j
      rw [himg, hlen]
      by_cases hj : d ≤ j ∧ j < d + room
      · rw [if_pos hj]
        obtain ⟨k, rfl⟩ : ∃ k, j = d + k := ⟨j - d, by omega⟩
        have hdk : d + k - d = k := by omega
        rw [hdk, hpre k (by omega), getD_take_lt (by omega)]
      · rw [if_neg hj]

/-! ## one packer step stores one chunk -/

/-- what parse_argspec can produce: strings have a non-zero size field, characters 1..4 bytes -/
def WF (sp : Spec) : Prop := (sp.isStr = true → sp.size ≠ 0) ∧ (sp.fmt = .chr → 1 ≤ sp.size ∧ sp.size ≤ 4)

/-- string sources are C strings -/
def ValOk (v : Val) : Prop := ∀ s, v.src = some s → NoNul s

def strBody (fx : Fix) (v : Val) : List Byte :=
  match v.src with
  | some s => strObs s
  | none => nullBytes fx

theorem strBody_length_le (fx : Fix) (v : Val) : (strBody fx v).length ≤ 98 := by
  unfold strBody
  split
  · unfold strObs
    split
    · omega
    · simp only [List.length_append, List.length_take, List.length_cons, List.length_nil]; omega
  · unfold nullBytes; split <;> simp

def IsChunk (fx : Fix) (sp : Spec) (v : Val) (c : List Byte) : Prop :=
  if sp.isStr = true then
    ∃ junk, c = leBytes 2 (strBody fx v).length ++ strBody fx v ++ junk ∧
      c.length = align4 ((strBody fx v).length + 2)
  else if sp.fmt = .strct then c.length = align4 sp.size
  else c = leBytes (align4 sp.size) v.asWord

theorem IsChunk.length_mod {fx sp v c} (h : IsChunk fx sp v c) : c.length % 4 = 0 := by
  unfold IsChunk at h
  split at h
  · obtain ⟨_, _, h2⟩ := h; rw [h2]; unfold align4; omega
  · split at h
    · rw [h]; unfold align4; omega
    · rw [h, leBytes_length]; unfold align4; omega

theorem roomOf_le {fx : Fix} {t : Nat} (h : t ≤ maxSize fx) : roomOf fx t = maxSize fx - t := by
  unfold roomOf; rw [if_pos h]

theorem packStr_some_chunk (fx : Fix) (s : List Byte) (st : St) (hs : NoNul s)
    (ht : st.total ≤ maxSize fx) (hle : (packStr fx (some s) st).total ≤ maxSize fx) :
    st.total ≤ (packStr fx (some s) st).total ∧
    (∀ j, j < 4 + st.total → (packStr fx (some s) st).mem.get j = st.mem.get j) ∧
    ∃ junk, (packStr fx (some s) st).mem.rd (4 + st.total) ((packStr fx (some s) st).total - st.total) =
        leBytes 2 (strObs s).length ++ strObs s ++ junk ∧
      (packStr fx (some s) st).total - st.total = align4 ((strObs s).length + 2) := by
  have hroom := roomOf_le ht
  obtain ⟨p1, p2, _⟩ := copyLoop_post s (roomOf fx st.total) (4 + st.total + 2) hs 100 0 st.mem
    (Nat.zero_le _) (by omega) (fun k hk => absurd hk (Nat.not_lt_zero k))
  simp only [packStr] at hle ⊢
  generalize hr : copyLoop s (roomOf fx st.total) (4 + st.total + 2) 100 0 st.mem = r at p1 p2 hle ⊢
  have hL : copyLen s.length (roomOf fx st.total) = min (min s.length 98) (roomOf fx st.total) := rfl
  have hfit : r.2 + 2 ≤ roomOf fx st.total := by
    have : r.2 + 2 ≤ align4 (r.2 + 2) := by unfold align4; omega
    omega
  have hne : copyLen s.length (roomOf fx st.total) ≠ roomOf fx st.total := by omega
  -- the stored length is the length of the observed string
  have hobs : (strObs s).length = r.2 := by
    unfold strObs
    split
    · rw [p1, hL]; omega
    · simp only [List.length_append, List.length_take, List.length_cons, List.length_nil]
      rw [p1, hL]; omega
  -- the image starts with the observed string
  have himg : ∀ k, k < r.2 → (copyImg s (roomOf fx st.total)).getD k 0 = (strObs s).getD k 0 := by
    intro k hk
    unfold copyImg strObs
    rw [if_neg hne]
    split
    · rw [getD_append_lt (by rw [p1, hL] at hk; omega)]
    · have hl95 : (s.take 95).length = 95 := by simp only [List.length_take]; omega
      by_cases hk95 : k < 95
      · rw [getD_append_lt (by omega), getD_append_lt (by omega)]
      · rw [getD_append_ge (by omega), getD_append_ge (by omega), hl95]
        have : k = 95 ∨ k = 96 ∨ k = 97 := by rw [p1, hL] at hk; omega
        rcases this with rfl | rfl | rfl <;> rfl
  have himgLen : r.2 < (copyImg s (roomOf fx st.total)).length := by
    unfold copyImg
    rw [if_neg hne]
    split
    · simp only [List.length_append, List.length_singleton]; rw [p1, hL]; omega
    · simp only [List.length_append, List.length_take, List.length_cons, List.length_nil]; rw [p1, hL]; omega
  refine ⟨by omega, ?_, ?_⟩
  · intro j hj
    simp only [get_blit, leBytes_length]
    rw [if_neg (by omega), p2 j, if_neg (by omega)]
  · have e : st.total + align4 (r.2 + 2) - st.total = 2 + (r.2 + (align4 (r.2 + 2) - (r.2 + 2))) := by
      have : r.2 + 2 ≤ align4 (r.2 + 2) := by unfold align4; omega
      omega
    refine ⟨(r.1.blit (4 + st.total) (leBytes 2 r.2)).rd (4 + st.total + 2 + r.2) (align4 (r.2 + 2) - (r.2 + 2)), ?_, ?_⟩
    · have hA : (r.1.blit (4 + st.total) (leBytes 2 r.2)).rd (4 + st.total) 2 = leBytes 2 (strObs s).length := by
        have := rd_blit_same r.1 (4 + st.total) (leBytes 2 r.2)
        rw [leBytes_length] at this
        rw [this, hobs]
      have hB : (r.1.blit (4 + st.total) (leBytes 2 r.2)).rd (4 + st.total + 2) r.2 = strObs s := by
        rw [← hobs]
        apply rd_eq_of_get
        intro k hk
        rw [hobs] at hk
        simp only [get_blit, leBytes_length]
        rw [if_neg (by omega)]
        have := p2 (4 + st.total + 2 + k)
        rw [if_pos (by omega)] at this
        have e2 : 4 + st.total + 2 + k - (4 + st.total + 2) = k := by omega
        rw [e2] at this
        rw [this, himg k hk]
      rw [e, rd_append, rd_append, hA, hB, List.append_assoc]
    · rw [hobs]; omega

theorem nullBytes_length (fx : Fix) : (nullBytes fx).length = 4 := by
  unfold nullBytes; split <;> rfl

theorem packStr_none_chunk (fx : Fix) (st : St) :
    (packStr fx none st).total = st.total + 8 ∧
    (∀ j, j < 4 + st.total → (packStr fx none st).mem.get j = st.mem.get j) ∧
    ∃ junk, (packStr fx none st).mem.rd (4 + st.total) 8 = leBytes 2 4 ++ nullBytes fx ++ junk := by
  simp only [packStr]
  refine ⟨rfl, ?_, ?_⟩
  · intro j hj
    simp only [get_blit, leBytes_length, nullBytes_length]
    rw [if_neg (by omega), if_neg (by omega)]
  · refine ⟨((st.mem.blit (4 + st.total) (leBytes 2 4)).blit (4 + st.total + 2) (nullBytes fx)).rd (4 + st.total + 2 + 4) 2, ?_⟩
    have e : (8 : Nat) = 2 + (4 + 2) := rfl
    have hA : ((st.mem.blit (4 + st.total) (leBytes 2 4)).blit (4 + st.total + 2) (nullBytes fx)).rd (4 + st.total) 2
        = leBytes 2 4 := by
      have : (leBytes 2 4).length = 2 := leBytes_length 2 4
      rw [← this]
      apply rd_eq_of_get
      intro k hk
      rw [this] at hk
      simp only [get_blit, leBytes_length, nullBytes_length]
      rw [if_neg (by omega), if_pos (by omega)]
      congr 1; omega
    have hB : ((st.mem.blit (4 + st.total) (leBytes 2 4)).blit (4 + st.total + 2) (nullBytes fx)).rd (4 + st.total + 2) 4
        = nullBytes fx := by
      have := rd_blit_same (st.mem.blit (4 + st.total) (leBytes 2 4)) (4 + st.total + 2) (nullBytes fx)
      rw [nullBytes_length] at this
      exact this
    rw [e, rd_append, rd_append, hA, hB, List.append_assoc]

theorem packOne_stop_total (fx : Fix) (sp : Spec) (v : Val) (st : St)
    (h : (packOne fx sp v st).stop = true) : (packOne fx sp v st).total > maxSize fx := by
  unfold packOne at h ⊢
  split at h
  · rename_i hc
    rw [if_pos hc]
    exact hc.2
  · rename_i hc
    rw [if_neg hc]
    split at h
    · rename_i hc2
      rw [if_pos hc2]
      exact hc2.2
    · rename_i hc2
      split at h
      · simp [packStr] at h
        split at h <;> simp at h
      · split at h <;> simp at h

theorem packOne_chunk (fx : Fix) (sp : Spec) (v : Val) (st : St) (hv : ValOk v)
    (ht : st.total ≤ maxSize fx) (hns : (packOne fx sp v st).stop = false)
    (hle : (packOne fx sp v st).total ≤ maxSize fx) :
    st.total ≤ (packOne fx sp v st).total ∧
    (∀ j, j < 4 + st.total → (packOne fx sp v st).mem.get j = st.mem.get j) ∧
    IsChunk fx sp v ((packOne fx sp v st).mem.rd (4 + st.total) ((packOne fx sp v st).total - st.total)) := by
  have hc1 : ¬ (fx.bounds = true ∧ st.total > maxSize fx) := by omega
  unfold packOne at hns hle ⊢
  rw [if_neg hc1] at hns hle ⊢
  by_cases hc2 : sp.fmt = .strct ∧ st.total + sp.size > maxSize fx
  · rw [if_pos hc2] at hns; simp at hns
  · rw [if_neg hc2] at hle ⊢
    by_cases hstr : sp.isStr = true
    · rw [if_pos hstr] at hle ⊢
      unfold IsChunk
      rw [if_pos hstr]
      unfold strBody
      cases hsrc : v.src with
      | some s =>
        rw [hsrc] at hle
        simp only
        obtain ⟨a1, a2, junk, a3, a4⟩ := packStr_some_chunk fx s st (hv s hsrc) ht hle
        exact ⟨a1, a2, junk, a3, by rw [rd_length]; exact a4⟩
      | none =>
        obtain ⟨a1, a2, junk, a3⟩ := packStr_none_chunk fx st
        simp only
        rw [a1]
        refine ⟨by omega, ?_, junk, ?_, ?_⟩
        · intro j hj; exact a2 j hj
        · have : st.total + 8 - st.total = 8 := by omega
          rw [this, a3, nullBytes_length]
        · rw [rd_length, nullBytes_length]; unfold align4; omega
    · rw [if_neg hstr] at hle ⊢
      unfold IsChunk
      rw [if_neg hstr]
      by_cases hst : sp.fmt = .strct
      · rw [if_pos hst, if_pos hst]
        refine ⟨by simp, ?_, ?_⟩
        · intro j hj
          simp only [get_blit]
          rw [if_neg (by omega)]
        · rw [rd_length]; simp
      · rw [if_neg hst, if_neg hst]
        refine ⟨by simp, ?_, ?_⟩
        · intro j hj
          simp only [get_blit, leBytes_length]
          rw [if_neg (by omega)]
        · have : st.total + align4 sp.size - st.total = (leBytes (align4 sp.size) v.asWord).length := by
            rw [leBytes_length]; omega
          simp only
          rw [this]
          exact rd_blit_same _ _ _

/-! ## a whole run = a sequence of chunks -/

def Chunks (fx : Fix) : List Spec → List Val → List Byte → Prop
  | sp :: specs, v :: vals, cs => ∃ c cs', cs = c ++ cs' ∧ IsChunk fx sp v c ∧ Chunks fx specs vals cs'
  | [], _, cs => cs = []
  | _ :: _, [], _ => False

theorem packOne_total_ge (fx : Fix) (sp : Spec) (v : Val) (st : St) : st.total ≤ (packOne fx sp v st).total := by
  unfold packOne
  split
  · exact Nat.le_refl _
  · split
    · simp
    · split
      · unfold packStr; split <;> simp
      · split <;> simp

theorem packRun_total_ge (fx : Fix) : ∀ (specs : List Spec) (vals : List Val) (st : St),
    st.total ≤ (packRun fx specs vals st).total := by
  intro specs
  induction specs with
  | nil => intro vals st; simp [packRun]
  | cons sp specs ih =>
    intro vals st
    cases vals with
    | nil => simp [packRun]
    | cons v vals =>
      simp only [packRun]
      split
      · exact packOne_total_ge fx sp v st
      · exact Nat.le_trans (packOne_total_ge fx sp v st) (ih vals _)

theorem packRun_chunks (fx : Fix) : ∀ (specs : List Spec) (vals : List Val) (st : St),
    vals.length = specs.length → (∀ v ∈ vals, ValOk v) → st.total ≤ maxSize fx →
    (packRun fx specs vals st).total ≤ maxSize fx →
    ∃ cs, (packRun fx specs vals st).mem.rd 4 (packRun fx specs vals st).total = st.mem.rd 4 st.total ++ cs ∧
      Chunks fx specs vals cs := by
  intro specs
  induction specs with
  | nil =>
    intro vals st _ _ _ _
    exact ⟨[], by simp [packRun], by simp [Chunks]⟩
  | cons sp specs ih =>
    intro vals st hlen hv ht hfin
    cases vals with
    | nil => simp at hlen
    | cons v vals =>
      simp only [packRun] at hfin ⊢
      by_cases hstop : (packOne fx sp v st).stop = true
      · rw [if_pos hstop] at hfin
        have := packOne_stop_total fx sp v st hstop
        omega
      · rw [if_neg hstop] at hfin ⊢
        have hns : (packOne fx sp v st).stop = false := by simpa using hstop
        have hmid : (packOne fx sp v st).total ≤ maxSize fx :=
          Nat.le_trans (packRun_total_ge fx specs vals _) hfin
        obtain ⟨c1, c2, c3⟩ := packOne_chunk fx sp v st (hv v (by simp)) ht hns hmid
        obtain ⟨cs', d1, d2⟩ := ih vals (packOne fx sp v st) (by simpa using hlen)
          (fun w hw => hv w (by simp [hw])) hmid hfin
        refine ⟨(packOne fx sp v st).mem.rd (4 + st.total) ((packOne fx sp v st).total - st.total) ++ cs', ?_, ?_⟩
        · rw [d1]
          have e : (packOne fx sp v st).total = st.total + ((packOne fx sp v st).total - st.total) := by omega
          rw [e, rd_append, ← e, List.append_assoc]
          congr 1
          apply rd_congr
          intro j _ hj
          exact c2 j (by omega)
        · exact ⟨_, _, rfl, c3, d2⟩

/-! ## the readers on chunks -/

theorem leBytes_two (n : Nat) : leBytes 2 n = [UInt8.ofNat (n % 256), UInt8.ofNat (n / 256 % 256)] := rfl

theorem align4_pad (n : Nat) :
    (if n % 4 ≠ 0 then n + (4 - n % 4) else n) = align4 n := by
  unfold align4; split <;> omega

theorem readArg_chunk (fx : Fix) (sp : Spec) (v : Val) (c data rest : List Byte)
    (hc : IsChunk fx sp v c) (hwf : WF sp) (hd : data.length % 4 = 0) :
    readArg sp data (c ++ rest) = some (data ++ c, rest) := by
  unfold readArg
  unfold IsChunk at hc
  by_cases hz : sp.size = 0
  · rw [if_pos hz]
    have hns : ¬ sp.isStr = true := fun h => hwf.1 h hz
    rw [if_neg hns] at hc
    have hnil : c = [] := by
      split at hc
      · rw [hz] at hc; exact List.eq_nil_of_length_eq_zero (by simpa [align4] using hc)
      · rw [hz] at hc; simpa [align4, leBytes] using hc
    simp [hnil]
  · rw [if_neg hz]
    by_cases hstr : sp.isStr = true
    · rw [if_pos hstr] at hc ⊢
      obtain ⟨junk, h1, h2⟩ := hc
      have hb := strBody_length_le fx v
      generalize strBody fx v = body at h1 h2 hb
      have hcons : c ++ rest = UInt8.ofNat (body.length % 256) :: UInt8.ofNat (body.length / 256 % 256) ::
          (body ++ junk ++ rest) := by
        rw [h1, leBytes_two]; simp
      rw [hcons]
      simp only
      have hslen : (UInt8.ofNat (body.length % 256)).toNat + 256 * (UInt8.ofNat (body.length / 256 % 256)).toNat
          = body.length := by
        rw [toNat_ofNat_mod, toNat_ofNat_mod]; omega
      rw [hslen]
      have hjl : body.length + junk.length + 2 = align4 (body.length + 2) := by
        rw [← h2, h1]; simp; omega
      have hsize : (if (data.length + 2 + body.length) % 4 ≠ 0 then
          body.length + (4 - (data.length + 2 + body.length) % 4) else body.length)
          = body.length + junk.length := by
        unfold align4 at hjl; split <;> omega
      rw [hsize]
      have hlt : ¬ ((body ++ junk ++ rest).length < body.length + junk.length) := by simp
      rw [if_neg hlt]
      have ht : (body ++ junk ++ rest).take (body.length + junk.length) = body ++ junk :=
        List.take_left' (by simp)
      have hdr : (body ++ junk ++ rest).drop (body.length + junk.length) = rest :=
        List.drop_left' (by simp)
      rw [ht, hdr, h1, leBytes_two]
      simp
    · rw [if_neg hstr] at hc ⊢
      have hcl : c.length = align4 sp.size := by
        split at hc
        · exact hc
        · rw [hc, leBytes_length]
      simp only
      have hsize : (if (data.length + sp.size) % 4 ≠ 0 then sp.size + (4 - (data.length + sp.size) % 4) else sp.size)
          = c.length := by
        rw [hcl]; unfold align4; split <;> omega
      rw [hsize]
      have hlt : ¬ ((c ++ rest).length < c.length) := by simp
      rw [if_neg hlt, List.take_left' rfl, List.drop_left' rfl]

theorem readLoop_chunks (fx : Fix) : ∀ (specs : List Spec) (vals : List Val) (cs data rest : List Byte),
    (∀ sp ∈ specs, WF sp) → Chunks fx specs vals cs → data.length % 4 = 0 →
    readLoop specs data (cs ++ rest) = some (data ++ cs, rest) := by
  intro specs
  induction specs with
  | nil =>
    intro vals cs data rest _ hc _
    simp only [Chunks] at hc
    subst hc
    simp [readLoop]
  | cons sp specs ih =>
    intro vals cs data rest hwf hc hd
    cases vals with
    | nil => simp [Chunks] at hc
    | cons v vals =>
      simp only [Chunks] at hc
      obtain ⟨c, cs', rfl, h1, h2⟩ := hc
      simp only [readLoop]
      rw [List.append_assoc, readArg_chunk fx sp v c data (cs' ++ rest) h1 (hwf sp (by simp)) hd]
      simp only
      rw [ih vals cs' (data ++ c) rest (fun s hs => hwf s (by simp [hs])) h2
        (by have := h1.length_mod; simp; omega)]
      simp

theorem obs_str (fx : Fix) (sp : Spec) (v : Val) (h : sp.isStr = true) : obs fx sp v = .str (strBody fx v) := by
  unfold obs strBody
  rw [if_pos h]
  cases v.src <;> rfl

theorem decode_chunk (fx : Fix) (sp : Spec) (v : Val) (r : List Spec) (c more : List Byte)
    (hc : IsChunk fx sp v c) (hwf : WF sp) :
    decodeVals (sp :: r) (c ++ more) = obs fx sp v :: decodeVals r more := by
  unfold IsChunk at hc
  simp only [decodeVals]
  by_cases hstr : sp.isStr = true
  · rw [if_pos hstr] at hc ⊢
    obtain ⟨junk, h1, h2⟩ := hc
    rw [obs_str fx sp v hstr]
    have hb := strBody_length_le fx v
    generalize strBody fx v = body at h1 h2 hb
    have ht2 : (c ++ more).take 2 = leBytes 2 body.length := by
      rw [h1, List.append_assoc, List.append_assoc]
      exact List.take_left' (leBytes_length _ _)
    have hof : ofLe (leBytes 2 body.length) = body.length := by
      rw [ofLe_leBytes]; omega
    rw [ht2, hof]
    have hd2 : (c ++ more).drop 2 = body ++ (junk ++ more) := by
      rw [h1, List.append_assoc, List.append_assoc]
      exact List.drop_left' (leBytes_length _ _)
    rw [hd2, List.take_left' rfl, ← h2, List.drop_left' rfl]
  · rw [if_neg hstr] at hc ⊢
    unfold obs
    rw [if_neg hstr]
    by_cases hchr : sp.fmt = .chr
    · have hns : ¬ sp.fmt = .strct := by rw [hchr]; simp
      rw [if_neg hns] at hc
      rw [if_pos hchr, if_pos hchr]
      obtain ⟨h1, h4⟩ := hwf.2 hchr
      have ha : align4 sp.size = 4 := by unfold align4; omega
      rw [ha] at hc
      have hc' : c = [UInt8.ofNat (v.asWord % 256), UInt8.ofNat (v.asWord / 256 % 256),
          UInt8.ofNat (v.asWord / 256 / 256 % 256), UInt8.ofNat (v.asWord / 256 / 256 / 256 % 256)] := by
        rw [hc]; rfl
      rw [hc']
      simp [align4]
    · rw [if_neg hchr, if_neg hchr]
      by_cases hst : sp.fmt = .strct
      · rw [if_pos hst] at hc
        rw [if_pos hst, if_pos hst, ← hc, List.drop_left' rfl]
      · rw [if_neg hst] at hc
        rw [if_neg hst, if_neg hst]
        have hl : c.length = align4 sp.size := by rw [hc, leBytes_length]
        have hle : sp.size ≤ align4 sp.size := by unfold align4; omega
        rw [List.take_append_of_le_length (by omega), ← hl, List.drop_left' rfl, hc,
          leBytes_take _ _ _ hle, ofLe_leBytes]

theorem decode_chunks (fx : Fix) : ∀ (specs : List Spec) (vals : List Val) (cs : List Byte),
    (∀ sp ∈ specs, WF sp) → Chunks fx specs vals cs →
    decodeVals specs cs = (specs.zip vals).map (fun p => obs fx p.1 p.2) := by
  intro specs
  induction specs with
  | nil => intro vals cs _ _; simp [decodeVals]
  | cons sp specs ih =>
    intro vals cs hwf hc
    cases vals with
    | nil => simp [Chunks] at hc
    | cons v vals =>
      simp only [Chunks] at hc
      obtain ⟨c, cs', rfl, h1, h2⟩ := hc
      rw [decode_chunk fx sp v specs c cs' h1 (hwf sp (by simp)),
        ih vals cs' (fun s hs => hwf s (by simp [hs])) h2]
      simp

/-! ## run-level statements used by Props/C09 -/
open Uft.Gen.Layout

theorem parse_accepted (fx : Fix) (specs : List Spec) (vals : List Val) (m0 : Mem)
    (payload rest : List Byte)
    (hlen : vals.length = specs.length) (hwf : ∀ sp ∈ specs, WF sp) (hv : ∀ v ∈ vals, ValOk v)
    (h : accepted fx specs vals m0 = some payload) :
    readArgs specs (payload ++ padTo8 payload.length ++ rest) = some (payload, rest) ∧
    decodeVals specs payload = (specs.zip vals).map (fun p => obs fx p.1 p.2) := by
  unfold accepted at h
  simp only at h
  split at h
  · cases h
  · rename_i htot
    injection h with h
    obtain ⟨cs, h1, h2⟩ := packRun_chunks fx specs vals (St.init m0) hlen hv (Nat.zero_le _) (by omega)
    have hp : payload = cs := by
      rw [← h]; unfold St.payload; rw [h1]; simp [St.init, Mem.rd]
    subst hp
    refine ⟨?_, decode_chunks fx specs vals payload hwf h2⟩
    unfold readArgs
    rw [List.append_assoc, readLoop_chunks fx specs vals payload [] (padTo8 payload.length ++ rest) hwf h2 rfl]
    simp only [List.nil_append]
    congr 2
    have hpl : (padTo8 payload.length).length = align8 payload.length - payload.length := by
      simp [padTo8]
    split
    · rw [List.drop_left']
      rw [hpl]; unfold align8; omega
    · have : padTo8 payload.length = [] := by
        apply List.eq_nil_of_length_eq_zero
        rw [hpl]; unfold align8; omega
      rw [this]; rfl

theorem accepted_of_ok {fx : Fix} {specs : List Spec} {vals : List Val} {m0 : Mem} {p : List Byte}
    (h : packArgs fx specs vals m0 = .ok p) : accepted fx specs vals m0 = some p := by
  unfold packArgs at h
  unfold accepted
  simp only at h ⊢
  split at h
  · cases h
  · split at h
    · cases h
    · rename_i _ ht
      rw [if_neg ht]
      injection h with h
      rw [h]

theorem parse_pack (fx : Fix) (specs : List Spec) (vals : List Val) (m0 : Mem)
    (payload rest : List Byte)
    (hlen : vals.length = specs.length) (hwf : ∀ sp ∈ specs, WF sp) (hv : ∀ v ∈ vals, ValOk v)
    (h : packArgs fx specs vals m0 = .ok payload) :
    readArgs specs (payload ++ padTo8 payload.length ++ rest) = some (payload, rest) ∧
    decodeVals specs payload = (specs.zip vals).map (fun p => obs fx p.1 p.2) :=
  parse_accepted fx specs vals m0 payload rest hlen hwf hv (accepted_of_ok h)


/-- one recorded ENTRY/EXIT with its fetched values -/
structure Call where
  time : Nat
  type : Nat
  depth : Nat
  addr : Nat
  specs : List Spec       -- all specs registered for `addr`
  vals : List Val         -- the fetched values of the selected specs
  m0 : Mem                -- the slice before the call


def Call.chosen (c : Call) : List Spec := Uft.Argbuf.sel (c.type == 1) c.specs


/-- save_argument / save_retval: data that is too big is dropped, the record has no payload -/
def Call.payload (fx : Fix) (c : Call) : Option (List Byte) := accepted fx c.chosen c.vals c.m0


def Call.bytes (fx : Fix) (c : Call) : List Byte := recordBytes c.time c.type c.depth c.addr (c.payload fx)


def Call.toRec (fx : Fix) (c : Call) : Rec := ⟨c.time, c.type, c.depth, c.addr, c.payload fx⟩


def CallOk (specOf : Nat → List Spec) (c : Call) : Prop :=
  c.type < 2 ∧ c.depth < 1024 ∧ c.addr < 2 ^ 48 ∧ c.time < 2 ^ 64 ∧ specOf c.addr = c.specs ∧
  c.vals.length = c.chosen.length ∧ (∀ sp ∈ c.specs, WF sp) ∧ ∀ v ∈ c.vals, ValOk v


theorem unpack_pack (type depth addr : Nat) (more : Bool)
    (ht : type < 4) (hd : depth < 1024) (ha : addr < 2 ^ 48) :
    unpackType (packWord type more depth addr) = type ∧
    unpackMore (packWord type more depth addr) = (if more then 1 else 0) ∧
    unpackMagic (packWord type more depth addr) = RECORD_MAGIC ∧
    unpackDepth (packWord type more depth addr) = depth ∧
    unpackAddr (packWord type more depth addr) = addr := by
  have h4 : type = 0 ∨ type = 1 ∨ type = 2 ∨ type = 3 := by omega
  have hm : depth &&& 1023 = depth % 1024 := Nat.and_two_pow_sub_one_eq_mod depth 10
  rcases h4 with rfl | rfl | rfl | rfl <;> cases more <;>
    simp [packWord, unpackType, unpackMore, unpackMagic, unpackDepth, unpackAddr, field,
      RECORD_MAGIC, typeShift, typeWidth, moreShift, moreWidth, magicShift, magicWidth,
      depthShift, depthWidth, addrShift, addrWidth, Nat.shiftLeft_eq, Nat.shiftRight_eq_div_pow, hm] <;>
    omega


theorem packWord_lt (type depth addr : Nat) (more : Bool) : packWord type more depth addr < 2 ^ 64 := by
  unfold packWord; exact Nat.mod_lt _ (by decide)


theorem sel_wf {specs : List Spec} (b : Bool) (h : ∀ sp ∈ specs, WF sp) : ∀ sp ∈ sel b specs, WF sp := by
  intro sp hsp
  unfold sel at hsp
  exact h sp (List.mem_filter.mp hsp).1


theorem decode_step (fx : Fix) (specOf : Nat → List Spec) (c : Call) (hok : CallOk specOf c)
    (fuel : Nat) (tail : List Byte) :
    decodeAll specOf (fuel + 1) (c.bytes fx ++ tail) =
      match decodeAll specOf fuel tail with
      | some rs => some (c.toRec fx :: rs)
      | none => none := by
  obtain ⟨ht, hd, ha, htime, hspec, hlen, hwf, hv⟩ := hok
  obtain ⟨u1, u2, u3, u4, u5⟩ := unpack_pack c.type c.depth c.addr (c.payload fx).isSome (by omega) hd ha
  -- shape of the bytes
  have hbytes : c.bytes fx ++ tail = leBytes 8 c.time ++ (leBytes 8 (packWord c.type (c.payload fx).isSome c.depth c.addr) ++
      ((match c.payload fx with | some p => p ++ padTo8 p.length | none => []) ++ tail)) := by
    unfold Call.bytes recordBytes hdrBytes
    cases c.payload fx <;> simp
  rw [hbytes]
  conv => lhs; unfold decodeAll
  have hne : (leBytes 8 c.time ++ (leBytes 8 (packWord c.type (c.payload fx).isSome c.depth c.addr) ++
      ((match c.payload fx with | some p => p ++ padTo8 p.length | none => []) ++ tail))).isEmpty = false := by
    simp [leBytes]
  have hlen16 : ¬ (leBytes 8 c.time ++ (leBytes 8 (packWord c.type (c.payload fx).isSome c.depth c.addr) ++
      ((match c.payload fx with | some p => p ++ padTo8 p.length | none => []) ++ tail))).length < 16 := by
    simp; omega
  rw [hne]
  simp only [Bool.false_eq_true, if_false]
  rw [if_neg hlen16]
  have htk : ∀ (x : List Byte), (leBytes 8 c.time ++ x).take 8 = leBytes 8 c.time :=
    fun x => List.take_left' (leBytes_length _ _)
  have hdr8 : ∀ (x : List Byte), (leBytes 8 c.time ++ x).drop 8 = x :=
    fun x => List.drop_left' (leBytes_length _ _)
  have hdr16 : ∀ (w : Nat) (x : List Byte), (leBytes 8 c.time ++ (leBytes 8 w ++ x)).drop 16 = x := by
    intro w x
    have : (leBytes 8 c.time ++ (leBytes 8 w ++ x)) = (leBytes 8 c.time ++ leBytes 8 w) ++ x := by simp
    rw [this]; exact List.drop_left' (by simp)
  rw [htk, hdr8, List.take_left' (leBytes_length _ _), hdr16, ofLe_leBytes, ofLe_leBytes]
  have e64 : (256 : Nat) ^ 8 = 2 ^ 64 := by decide
  have hm1 : c.time % 256 ^ 8 = c.time := Nat.mod_eq_of_lt (by rw [e64]; exact htime)
  have hm2 : packWord c.type (c.payload fx).isSome c.depth c.addr % 256 ^ 8
      = packWord c.type (c.payload fx).isSome c.depth c.addr :=
    Nat.mod_eq_of_lt (by rw [e64]; exact packWord_lt _ _ _ _)
  rw [hm1, hm2, u1, u2, u3, u4, u5]
  simp only [ne_eq, not_true_eq_false, if_false]
  cases hp : c.payload fx with
  | none =>
    simp only [Option.isSome_none, Bool.false_eq_true, if_false, List.nil_append]
    have : (0 : Nat) ≠ 1 := by decide
    rw [if_neg this]
    unfold Call.toRec
    rw [hp]
    rfl
  | some p =>
    simp only [Option.isSome_some, if_true]
    have hnot : ¬ c.type ≥ 2 := by omega
    rw [if_neg hnot, hspec]
    obtain ⟨r1, _⟩ := parse_accepted fx c.chosen c.vals c.m0 p tail hlen (sel_wf _ hwf) hv hp
    unfold Call.chosen at r1
    rw [r1]
    simp only
    unfold Call.toRec
    rw [hp]
    rfl


theorem decodeAll_calls (fx : Fix) (specOf : Nat → List Spec) :
    ∀ (cs : List Call) (fuel : Nat), (∀ c ∈ cs, CallOk specOf c) → cs.length ≤ fuel →
      decodeAll specOf fuel (cs.flatMap (Call.bytes fx)) = some (cs.map (Call.toRec fx)) := by
  intro cs
  induction cs with
  | nil =>
    intro fuel _ _
    cases fuel <;> simp [decodeAll]
  | cons c cs ih =>
    intro fuel hok hf
    cases fuel with
    | zero => simp at hf
    | succ fuel =>
      rw [List.flatMap_cons, decode_step fx specOf c (hok c (by simp)) fuel,
        ih fuel (fun x hx => hok x (by simp [hx])) (by simpa using hf)]
      simp


theorem bytes_length_pos (fx : Fix) (c : Call) : 1 ≤ (c.bytes fx).length := by
  unfold Call.bytes recordBytes hdrBytes
  cases c.payload fx <;> simp <;> omega


theorem flatMap_length_ge (fx : Fix) : ∀ (cs : List Call), cs.length ≤ (cs.flatMap (Call.bytes fx)).length := by
  intro cs
  induction cs with
  | nil => simp
  | cons c cs ih =>
    rw [List.flatMap_cons, List.length_append, List.length_cons]
    have := bytes_length_pos fx c
    omega


/-- sizes parse_argspec can produce and the fetchers respect: scalars at most 32 bytes, a struct's
    stored bytes exceed its size by at most four registers -/
def Sized (sp : Spec) (v : Val) : Prop :=
  (sp.isStr = false → sp.fmt ≠ .strct → sp.size ≤ 32) ∧ (sp.fmt = .strct → v.asBlob.length ≤ sp.size + 32)


theorem copyImg_length_le (s : List Byte) (room : Nat) : (copyImg s room).length ≤ room := by
  have hL : copyLen s.length room = min (min s.length 98) room := rfl
  unfold copyImg
  split
  · simp only [List.length_take]; omega
  · rename_i hne
    split
    · simp only [List.length_append, List.length_singleton]; omega
    · simp only [List.length_append, List.length_take, List.length_cons, List.length_nil]; omega


theorem maxSize_fixed {fx : Fix} (hb : fx.bounds = true) : maxSize fx = 988 := by
  unfold maxSize; rw [if_pos hb]; rfl


theorem packOne_hi (fx : Fix) (hb : fx.bounds = true) (sp : Spec) (v : Val) (st : St)
    (hs : Sized sp v) (hv : ValOk v) (hhi : st.mem.hi ≤ SLICE) : (packOne fx sp v st).mem.hi ≤ SLICE := by
  have hmax := maxSize_fixed hb
  unfold packOne
  by_cases hc1 : fx.bounds = true ∧ st.total > maxSize fx
  · rw [if_pos hc1]; exact hhi
  · rw [if_neg hc1]
    have ht : st.total ≤ 988 := by
      rw [hmax] at hc1
      by_cases h : st.total ≤ 988
      · exact h
      · exact absurd ⟨hb, by omega⟩ hc1
    by_cases hc2 : sp.fmt = .strct ∧ st.total + sp.size > maxSize fx
    · rw [if_pos hc2]; exact hhi
    · rw [if_neg hc2]
      by_cases hstr : sp.isStr = true
      · rw [if_pos hstr]
        unfold packStr
        cases hsrc : v.src with
        | some s =>
          simp only
          obtain ⟨_, _, p3⟩ := copyLoop_post s (roomOf fx st.total) (4 + st.total + 2) (hv s hsrc) 100 0 st.mem
            (Nat.zero_le _) (by omega) (fun k hk => absurd hk (Nat.not_lt_zero k))
          have hroom : roomOf fx st.total = 988 - st.total := by
            rw [roomOf_le (by omega), hmax]
          have hW := copyImg_length_le s (roomOf fx st.total)
          have := hi_blit_le (copyLoop s (roomOf fx st.total) (4 + st.total + 2) 100 0 st.mem).1 (4 + st.total)
            (leBytes 2 (copyLoop s (roomOf fx st.total) (4 + st.total + 2) 100 0 st.mem).2)
          rw [leBytes_length] at this
          unfold SLICE at hhi ⊢
          omega
        | none =>
          simp only
          have h1 := hi_blit_le st.mem (4 + st.total) (leBytes 2 4)
          have h2 := hi_blit_le (st.mem.blit (4 + st.total) (leBytes 2 4)) (4 + st.total + 2) (nullBytes fx)
          rw [leBytes_length] at h1
          rw [nullBytes_length] at h2
          unfold SLICE at hhi ⊢
          omega
      · rw [if_neg hstr]
        by_cases hst : sp.fmt = .strct
        · rw [if_pos hst]
          simp only
          have h1 := hi_blit_le st.mem (4 + st.total) v.asBlob
          have h2 := hs.2 hst
          rw [hmax] at hc2
          unfold SLICE at hhi ⊢
          have : st.total + sp.size ≤ 988 := by
            by_cases h : st.total + sp.size ≤ 988
            · exact h
            · exact absurd ⟨hst, by omega⟩ hc2
          omega
        · rw [if_neg hst]
          simp only
          have h1 := hi_blit_le st.mem (4 + st.total) (leBytes (align4 sp.size) v.asWord)
          rw [leBytes_length] at h1
          have h2 := hs.1 (by simpa using hstr) hst
          have ha : align4 sp.size ≤ 32 := by unfold align4; omega
          unfold SLICE at hhi ⊢
          omega


theorem packRun_hi (fx : Fix) (hb : fx.bounds = true) : ∀ (specs : List Spec) (vals : List Val) (st : St),
    (∀ p ∈ specs.zip vals, Sized p.1 p.2 ∧ ValOk p.2) → st.mem.hi ≤ SLICE →
    (packRun fx specs vals st).mem.hi ≤ SLICE := by
  intro specs
  induction specs with
  | nil => intro vals st _ h; simpa [packRun] using h
  | cons sp specs ih =>
    intro vals st hp h
    cases vals with
    | nil => simpa [packRun] using h
    | cons v vals =>
      simp only [packRun]
      have h0 := hp (sp, v) (by simp)
      have h1 := packOne_hi fx hb sp v st h0.1 h0.2 h
      split
      · exact h1
      · exact ih vals _ (fun p hpm => hp p (by simp [List.zip_cons_cons, hpm])) h1


def w18 : List Byte := [65, 65, 65, 65, 65, 65, 65, 65, 65, 65, 65, 65, 65, 65, 65, 65, 65, 65]


theorem isStr_not_strct {sp : Spec} (h : sp.isStr = true) : sp.fmt ≠ .strct := by
  intro hf; unfold Spec.isStr at h; rw [hf] at h; simp at h


theorem maxSize_ge (fx : Fix) : 988 ≤ maxSize fx := by
  unfold maxSize SLICE; split <;> omega


theorem single_str_ok (fx : Fix) (sp : Spec) (hsp : sp.isStr = true) (v : Val) (hv : ValOk v)
    (hsv : v = .null ∨ ∃ s, v.src = some s) (m0 : Mem) :
    ∃ p, packArgs fx [sp] [v] m0 = .ok p := by
  have hm := maxSize_ge fx
  have hst : (packRun fx [sp] [v] (St.init m0)) = packStr fx v.src (St.init m0) := by
    simp only [packRun]
    have e : packOne fx sp v (St.init m0) = packStr fx v.src (St.init m0) := by
      unfold packOne
      rw [if_neg (by simp [St.init]), if_neg (by intro h; exact isStr_not_strct hsp h.1), if_pos hsp]
    rw [e]
    split <;> rfl
  unfold packArgs
  simp only
  rw [hst]
  cases hsrc : v.src with
  | none =>
    have hhi : (packStr fx none (St.init m0)).mem.hi ≤ SLICE := by
      simp only [packStr, St.init]
      have h1 := hi_blit_le { m0 with hi := 0 } (4 + 0) (leBytes 2 4)
      have h2 := hi_blit_le (Mem.blit { m0 with hi := 0 } (4 + 0) (leBytes 2 4)) (4 + 0 + 2) (nullBytes fx)
      rw [leBytes_length] at h1
      rw [nullBytes_length] at h2
      unfold SLICE
      simp only at h1
      omega
    have htot : (packStr fx none (St.init m0)).total = 8 := by simp [packStr, St.init, align4]
    rw [if_neg (by omega), if_neg (by omega)]
    exact ⟨_, rfl⟩
  | some s =>
    obtain ⟨p1, _, p3⟩ := copyLoop_post s (roomOf fx 0) (4 + 0 + 2) (hv s hsrc) 100 0 { m0 with hi := 0 }
      (Nat.zero_le _) (by omega) (fun k hk => absurd hk (Nat.not_lt_zero k))
    have hroom : roomOf fx 0 = maxSize fx := by rw [roomOf_le (Nat.zero_le _)]; omega
    have hW : (copyImg s (roomOf fx 0)).length ≤ 99 := by
      unfold copyImg
      have hL : copyLen s.length (roomOf fx 0) = min (min s.length 98) (roomOf fx 0) := rfl
      split
      · simp only [List.length_take]; omega
      · split
        · simp only [List.length_append, List.length_singleton]; omega
        · simp only [List.length_append, List.length_take, List.length_cons, List.length_nil]; omega
    have hL : (copyLoop s (roomOf fx 0) (4 + 0 + 2) 100 0 { m0 with hi := 0 }).2 ≤ 98 := by
      rw [p1]; unfold copyLen; omega
    have hhi : (packStr fx (some s) (St.init m0)).mem.hi ≤ SLICE := by
      simp only [packStr, St.init]
      have := hi_blit_le (copyLoop s (roomOf fx 0) (4 + 0 + 2) 100 0 { m0 with hi := 0 }).1 (4 + 0)
        (leBytes 2 (copyLoop s (roomOf fx 0) (4 + 0 + 2) 100 0 { m0 with hi := 0 }).2)
      rw [leBytes_length] at this
      unfold SLICE
      simp only at p3
      omega
    have htot : (packStr fx (some s) (St.init m0)).total ≤ 100 := by
      simp only [packStr, St.init]
      unfold align4; omega
    rw [if_neg (by omega), if_neg (by omega)]
    exact ⟨_, rfl⟩



theorem single_word_ok (fx : Fix) (sp : Spec) (hns : sp.isStr = false) (hst : sp.fmt ≠ .strct)
    (hsz : sp.size ≤ 32) (w : Nat) (m0 : Mem) :
    ∃ p, packArgs fx [sp] [.word w] m0 = .ok p := by
  have hm := maxSize_ge fx
  have ha : align4 sp.size ≤ 32 := by unfold align4; omega
  have hst' : packRun fx [sp] [.word w] (St.init m0) =
      { mem := (St.init m0).mem.blit (4 + 0) (leBytes (align4 sp.size) w), total := 0 + align4 sp.size,
        stop := false } := by
    simp only [packRun]
    have e : packOne fx sp (.word w) (St.init m0) =
        { mem := (St.init m0).mem.blit (4 + 0) (leBytes (align4 sp.size) w), total := 0 + align4 sp.size,
          stop := false } := by
      unfold packOne
      rw [if_neg (by simp [St.init]), if_neg (by intro h; exact hst h.1), if_neg (by simp [hns]), if_neg hst]
      rfl
    rw [e]
    simp
  unfold packArgs
  simp only
  rw [hst']
  have hhi := hi_blit_le (St.init m0).mem (4 + 0) (leBytes (align4 sp.size) w)
  rw [leBytes_length] at hhi
  have h0 : (St.init m0).mem.hi = 0 := rfl
  rw [if_neg (by simp only; unfold SLICE; omega), if_neg (by simp only; omega)]
  exact ⟨_, rfl⟩

theorem sel_single_arg (sp : Spec) (h : 1 ≤ sp.idx) : sel false [sp] = [sp] := by
  unfold sel Spec.isRet
  have : (sp.idx == 0) = false := by simp; omega
  simp [this]

theorem setLow_zero (n x : Nat) : setLow 0 n x = x % 256 ^ n := by
  unfold setLow; simp

/-! ## option sources: the writer's and the reader's spec lists -/

/-- a retval action carries no location (`retval%…` means nothing to mcount_arch_get_retval) -/
def SpecSrcOk (sp : Spec) : Prop := sp.isRet = true → sp.ty = 0

def ListOk (l : List LSpec) : Prop := ∀ o ∈ l, SpecSrcOk o.sp

theorem sameKey_isRet (a o : Spec) (ha : SpecSrcOk a) (ho : SpecSrcOk o) (h : sameKey a o = true) :
    a.isRet = o.isRet := by
  unfold sameKey at h
  unfold SpecSrcOk Spec.isRet at *
  rw [Bool.and_eq_true] at h
  obtain ⟨hty, hk⟩ := h
  have hty : a.ty = o.ty := by simpa using hty
  by_cases ha0 : a.idx = 0
  · have h0 : a.ty = 0 := ha (by simp [ha0])
    rw [h0, if_pos (by omega)] at hk
    have : a.idx = o.idx := by simpa using hk
    simp [ha0, ← this]
  · by_cases ho0 : o.idx = 0
    · have h0 : o.ty = 0 := ho (by simp [ho0])
      rw [hty, h0, if_pos (by omega)] at hk
      have : a.idx = o.idx := by simpa using hk
      omega
    · rw [beq_false_of_ne ha0, beq_false_of_ne ho0]

theorem addArgSpec_nil (e : Bool) (a : Spec) : addArgSpec e [] a = [⟨a, e⟩] := rfl
theorem addArgSpec_cons (e : Bool) (o : LSpec) (r : List LSpec) (a : Spec) :
    addArgSpec e (o :: r) a = if sameKey a o.sp then overwrite o a e :: r else o :: addArgSpec e r a := rfl

theorem overwrite_isRet (o : LSpec) (a : Spec) (e : Bool) : (overwrite o a e).sp.isRet = o.sp.isRet := by
  unfold overwrite
  split <;> rfl

theorem overwrite_ok (o : LSpec) (a : Spec) (e : Bool) (ho : SpecSrcOk o.sp)
    (h : sameKey a o.sp = true) : SpecSrcOk (overwrite o a e).sp := by
  intro hr
  rw [overwrite_isRet] at hr
  have h1 := ho hr
  unfold overwrite
  split
  · show a.ty = 0
    unfold sameKey at h
    simp only [Bool.and_eq_true, beq_iff_eq] at h
    omega
  · exact h1

theorem addArgSpec_ok (e : Bool) (l : List LSpec) (a : Spec) (ha : SpecSrcOk a) (hl : ListOk l) :
    ListOk (addArgSpec e l a) := by
  induction l with
  | nil => intro o ho; simp [addArgSpec_nil] at ho; subst ho; exact ha
  | cons o r ih =>
    rw [addArgSpec_cons]
    split
    · rename_i hk
      intro x hx
      simp only [List.mem_cons] at hx
      rcases hx with rfl | hx
      · exact overwrite_ok o a e (hl o (by simp)) hk
      · exact hl x (by simp [hx])
    · intro x hx
      simp only [List.mem_cons] at hx
      rcases hx with rfl | hx
      · exact hl _ (by simp)
      · exact ih (fun y hy => hl y (by simp [hy])) x hx

/-- the entries of one class (arguments / return values) -/
def part (b : Bool) (l : List LSpec) : List LSpec := l.filter (fun o => o.sp.isRet == b)

theorem part_cons (b : Bool) (o : LSpec) (r : List LSpec) :
    part b (o :: r) = if o.sp.isRet == b then o :: part b r else part b r := by
  unfold part; rw [List.filter_cons]

theorem part_addArgSpec (b e : Bool) (l : List LSpec) (a : Spec) (ha : SpecSrcOk a) (hl : ListOk l) :
    part b (addArgSpec e l a) = if a.isRet == b then addArgSpec e (part b l) a else part b l := by
  induction l with
  | nil =>
    rw [addArgSpec_nil, part_cons]
    show (if (a.isRet == b) = true then _ else _) = _
    split <;> rfl
  | cons o r ih =>
    have ho : SpecSrcOk o.sp := hl o (by simp)
    have hr : ListOk r := fun y hy => hl y (by simp [hy])
    have ih := ih hr
    rw [addArgSpec_cons]
    by_cases hk : sameKey a o.sp = true
    · have hro := sameKey_isRet a o.sp ha ho hk
      rw [if_pos hk, part_cons, part_cons, overwrite_isRet, ← hro]
      by_cases hb : (a.isRet == b) = true
      · simp only [if_pos hb]
        rw [addArgSpec_cons, if_pos hk]
      · simp only [if_neg hb]
    · rw [if_neg hk, part_cons, part_cons, ih]
      by_cases hob : (o.sp.isRet == b) = true
      · simp only [if_pos hob]
        by_cases hb : (a.isRet == b) = true
        · simp only [if_pos hb]
          rw [addArgSpec_cons, if_neg hk]
        · simp only [if_neg hb]
      · simp only [if_neg hob]

def AddsOk (adds : List (Bool × Spec)) : Prop := ∀ a ∈ adds, SpecSrcOk a.2

theorem part_buildFrom (b : Bool) (adds : List (Bool × Spec)) (l : List LSpec) (ha : AddsOk adds) (hl : ListOk l) :
    part b (buildFrom l adds) = buildFrom (part b l) (adds.filter (fun a => a.2.isRet == b)) := by
  induction adds generalizing l with
  | nil => rfl
  | cons a r ih =>
    have h1 : SpecSrcOk a.2 := ha a (by simp)
    have h2 : AddsOk r := fun x hx => ha x (by simp [hx])
    unfold buildFrom at *
    simp only [List.foldl_cons, List.filter_cons]
    rw [ih (addArgSpec a.1 l a.2) h2 (addArgSpec_ok a.1 l a.2 h1 hl), part_addArgSpec b a.1 l a.2 h1 hl]
    split <;> simp_all

theorem part_build (b : Bool) (adds : List (Bool × Spec)) (ha : AddsOk adds) :
    part b (build adds) = build (adds.filter (fun a => a.2.isRet == b)) := by
  unfold build
  rw [part_buildFrom b adds [] ha (by intro o ho; cases ho)]
  rfl

theorem layout_eq_part (b : Bool) (l : List LSpec) : layout b l = (part b l).map (·.sp) := by
  unfold layout sel part
  rw [List.filter_map]
  rfl


/-! ### the two sequences of add_arg_spec calls -/

/-- what the auto-args table / DWARF know about a function: argument specs for arguments,
    return-value specs for return values -/
def AutoOk (auto : Nat → Bool → List Spec) : Prop :=
  ∀ f b, ∀ sp ∈ auto f b, sp.isRet = b ∧ SpecSrcOk sp

def ItemsOk (items : List Item) : Prop := ∀ it ∈ items, ∀ sp ∈ it.specs, SpecSrcOk sp

theorem filter_compat_trig (l : List Spec) : l.filter (compat .trig) = l := by
  induction l with
  | nil => rfl
  | cons a r ih => rw [List.filter_cons]; simp only [compat, if_true]; rw [ih]

theorem filter_all {α : Type} (p : α → Bool) (l : List α) (h : ∀ x ∈ l, p x = true) : l.filter p = l := by
  induction l with
  | nil => rfl
  | cons a r ih =>
    rw [List.filter_cons, if_pos (h a (by simp)), ih (fun x hx => h x (by simp [hx]))]

theorem filter_none {α : Type} (p : α → Bool) (l : List α) (h : ∀ x ∈ l, p x = false) : l.filter p = [] := by
  induction l with
  | nil => rfl
  | cons a r ih =>
    rw [List.filter_cons, h a (by simp), ih (fun x hx => h x (by simp [hx]))]
    rfl

theorem filter_tag (p : Spec → Bool) (e : Bool) (l : List Spec) :
    (l.map (fun sp => (e, sp))).filter (fun a => p a.2) = (l.filter p).map (fun sp => (e, sp)) := by
  induction l with
  | nil => rfl
  | cons a r ih =>
    simp only [List.map_cons, List.filter_cons]
    split <;> simp [ih]

theorem filter_idem {α : Type} (p : α → Bool) (l : List α) : (l.filter p).filter p = l.filter p :=
  filter_all p _ (fun x hx => (List.mem_filter.mp hx).2)

/-- arguments: what a trigger item contributes at the writer = what its extracted items contribute at the reader -/
theorem itemAdds_trig_args (auto : Nat → Bool → List Spec) (hauto : AutoOk auto) (xf : XFix) (hx : xf.auto = true)
    (it : Item) (f : Nat) :
    (itemAdds auto .trig it f).filter (fun a => !a.2.isRet)
      = (xArgs xf it).flatMap (fun it' => itemAdds auto .arg it' f) := by
  have hA : ∀ sp ∈ auto f false, (!sp.isRet) = true := fun sp h => by rw [(hauto f false sp h).1]; rfl
  have hR : ∀ sp ∈ auto f true, (!sp.isRet) = false := fun sp h => by rw [(hauto f true sp h).1]; rfl
  unfold itemAdds xArgs xAuto
  by_cases hf : it.fns.contains f = true
  · rw [if_pos hf, filter_compat_trig, filter_tag (fun sp => !sp.isRet)]
    cases hs : it.specs with
    | nil =>
      cases ha : it.autoArgs
      · simp
      · have hf' : f ∈ it.fns := by simpa using hf
        simp [hf', compat, filter_all _ _ hA, filter_none _ _ hR]
    | cons s r =>
      rw [hx]
      simp only [List.isEmpty_cons, Bool.false_eq_true, if_false, Bool.not_false, Bool.and_true, Bool.not_true,
        Bool.and_false, List.append_nil]
      by_cases he : ((s :: r).filter (fun sp => !sp.isRet)).isEmpty = true
      · rw [if_pos he]
        rw [List.isEmpty_iff.mp he]
        rfl
      · rw [if_neg he]
        simp only [List.flatMap_cons, List.flatMap_nil, List.append_nil, hf, if_true]
        have : ((s :: r).filter (fun sp => !sp.isRet)).filter (compat .arg) = (s :: r).filter (fun sp => !sp.isRet) :=
          filter_idem _ _
        rw [this, if_neg he]
  · rw [if_neg hf]
    simp only [List.filter_nil]
    symm
    rw [List.flatMap_eq_nil_iff]
    intro it' hit'
    have : it'.fns = it.fns := by
      simp only [List.mem_append] at hit'
      rcases hit' with h | h
      · split at h
        · cases h
        · simp at h; subst h; rfl
      · split at h
        · simp at h; subst h; rfl
        · cases h
    rw [this, if_neg hf]

/-- return values, with the format kept (C09-TRIGRET repaired) -/
theorem itemAdds_trig_rets (auto : Nat → Bool → List Spec) (hauto : AutoOk auto) (xf : XFix) (hx : xf.auto = true)
    (hr : xf.ret = true) (it : Item) (f : Nat) :
    (itemAdds auto .trig it f).filter (fun a => a.2.isRet)
      = (xRets xf it).flatMap (fun it' => itemAdds auto .ret it' f) := by
  have hA : ∀ sp ∈ auto f false, sp.isRet = false := fun sp h => (hauto f false sp h).1
  have hR : ∀ sp ∈ auto f true, sp.isRet = true := fun sp h => (hauto f true sp h).1
  unfold itemAdds xRets xAuto
  by_cases hf : it.fns.contains f = true
  · rw [if_pos hf, filter_compat_trig, filter_tag (fun sp => sp.isRet)]
    cases hs : it.specs with
    | nil =>
      cases ha : it.autoArgs
      · simp
      · have hf' : f ∈ it.fns := by simpa using hf
        simp [hf', compat, filter_all _ _ hR, filter_none _ _ hA]
    | cons s r =>
      rw [hx, hr]
      simp only [List.isEmpty_cons, Bool.false_eq_true, if_false, Bool.not_false, Bool.and_true, Bool.not_true,
        Bool.and_false, List.append_nil, if_true]
      by_cases he : ((s :: r).filter (fun sp => sp.isRet)).isEmpty = true
      · rw [if_pos he]
        rw [List.isEmpty_iff.mp he]
        rfl
      · rw [if_neg he]
        simp only [List.flatMap_cons, List.flatMap_nil, List.append_nil, hf, if_true]
        have : ((s :: r).filter (fun sp => sp.isRet)).filter (compat .ret) = (s :: r).filter (fun sp => sp.isRet) :=
          filter_idem _ _
        rw [this, if_neg he]
  · rw [if_neg hf]
    simp only [List.filter_nil]
    symm
    rw [List.flatMap_eq_nil_iff]
    intro it' hit'
    have : it'.fns = it.fns := by
      simp only [List.mem_append] at hit'
      rcases hit' with h | h
      · split at h
        · cases h
        · simp at h; subst h; rfl
      · split at h
        · simp at h; subst h; rfl
        · cases h
    rw [this, if_neg hf]


def argF (a : Bool × Spec) : Bool := !a.2.isRet
def retF (a : Bool × Spec) : Bool := a.2.isRet

theorem addsOf_append (auto : Nat → Bool → List Spec) (s : Src) (x y : List Item) (f : Nat) :
    addsOf auto s (x ++ y) f = addsOf auto s x f ++ addsOf auto s y f := by
  unfold addsOf; rw [List.flatMap_append]

theorem addsOf_flatMap (auto : Nat → Bool → List Spec) (s : Src) (T : List Item) (g : Item → List Item) (f : Nat) :
    addsOf auto s (T.flatMap g) f = T.flatMap (fun it => (g it).flatMap (fun it' => itemAdds auto s it' f)) := by
  unfold addsOf; rw [List.flatMap_assoc]

theorem addsOf_filter (auto : Nat → Bool → List Spec) (s : Src) (T : List Item) (f : Nat) (p : Bool × Spec → Bool) :
    (addsOf auto s T f).filter p = T.flatMap (fun it => (itemAdds auto s it f).filter p) := by
  unfold addsOf; rw [List.filter_flatMap]

/-- everything -A contributes is an argument spec, everything -R contributes a return-value spec -/
theorem itemAdds_arg_class (auto : Nat → Bool → List Spec) (hauto : AutoOk auto) (it : Item) (f : Nat) :
    ∀ a ∈ itemAdds auto .arg it f, a.2.isRet = false := by
  intro a ha
  unfold itemAdds at ha
  split at ha
  · simp only [List.mem_map] at ha
    obtain ⟨sp, hsp, rfl⟩ := ha
    split at hsp
    · simp at hsp
      exact (hauto f false sp hsp).1
    · have := (List.mem_filter.mp hsp).2
      simpa [compat] using this
  · cases ha

theorem itemAdds_ret_class (auto : Nat → Bool → List Spec) (hauto : AutoOk auto) (it : Item) (f : Nat) :
    ∀ a ∈ itemAdds auto .ret it f, a.2.isRet = true := by
  intro a ha
  unfold itemAdds at ha
  split at ha
  · simp only [List.mem_map] at ha
    obtain ⟨sp, hsp, rfl⟩ := ha
    split at hsp
    · simp at hsp
      exact (hauto f true sp hsp).1
    · have := (List.mem_filter.mp hsp).2
      simpa [compat] using this
  · cases ha

theorem addsOf_arg_argF (auto : Nat → Bool → List Spec) (hauto : AutoOk auto) (A : List Item) (f : Nat) :
    (addsOf auto .arg A f).filter argF = addsOf auto .arg A f ∧ (addsOf auto .arg A f).filter retF = [] := by
  have h : ∀ a ∈ addsOf auto .arg A f, a.2.isRet = false := by
    intro a ha
    unfold addsOf at ha
    obtain ⟨it, _, hit⟩ := List.mem_flatMap.mp ha
    exact itemAdds_arg_class auto hauto it f a hit
  exact ⟨filter_all _ _ (fun a ha => by unfold argF; rw [h a ha]; rfl),
         filter_none _ _ (fun a ha => by unfold retF; exact h a ha)⟩

theorem addsOf_ret_retF (auto : Nat → Bool → List Spec) (hauto : AutoOk auto) (R : List Item) (f : Nat) :
    (addsOf auto .ret R f).filter retF = addsOf auto .ret R f ∧ (addsOf auto .ret R f).filter argF = [] := by
  have h : ∀ a ∈ addsOf auto .ret R f, a.2.isRet = true := by
    intro a ha
    unfold addsOf at ha
    obtain ⟨it, _, hit⟩ := List.mem_flatMap.mp ha
    exact itemAdds_ret_class auto hauto it f a hit
  exact ⟨filter_all _ _ (fun a ha => by unfold retF; exact h a ha),
         filter_none _ _ (fun a ha => by unfold argF; rw [h a ha]; rfl)⟩

/-- the argument specs the reader adds, in order = the argument specs the writer adds, in order -/
theorem adds_args_agree (auto : Nat → Bool → List Spec) (hauto : AutoOk auto) (xf : XFix) (hx : xf.auto = true)
    (T A R : List Item) (f : Nat) :
    (readerAdds auto xf T A R f).filter argF = (writerAdds auto T A R f).filter argF := by
  unfold readerAdds readerAddsOf writerAdds infoArgs infoRets
  simp only [List.filter_append]
  rw [(addsOf_ret_retF auto hauto R f).2, (addsOf_arg_argF auto hauto A f).1,
    (addsOf_ret_retF auto hauto (extractRets xf T ++ R) f).2]
  have hold : (if oldPass xf (extractArgs xf T ++ A) (extractRets xf T ++ R) = true
      then addsOf auto .ret (extractArgs xf T ++ A) f else []).filter argF = [] := by
    split
    · exact (addsOf_ret_retF auto hauto _ f).2
    · rfl
  rw [hold, addsOf_append, List.filter_append, (addsOf_arg_argF auto hauto A f).1,
    (addsOf_arg_argF auto hauto (extractArgs xf T) f).1]
  simp only [List.append_nil]
  congr 1
  unfold extractArgs
  rw [addsOf_flatMap, addsOf_filter]
  congr 1
  funext it
  exact (itemAdds_trig_args auto hauto xf hx it f).symm

theorem adds_rets_agree (auto : Nat → Bool → List Spec) (hauto : AutoOk auto) (xf : XFix) (hx : xf.auto = true)
    (hr : xf.ret = true) (T A R : List Item) (f : Nat)
    (hold : oldPass xf (infoArgs xf T A) (infoRets xf T R) = false) :
    (readerAdds auto xf T A R f).filter retF = (writerAdds auto T A R f).filter retF := by
  unfold readerAdds readerAddsOf writerAdds
  rw [hold]
  unfold infoArgs infoRets
  simp only [List.filter_append, Bool.false_eq_true, if_false, List.append_nil]
  rw [(addsOf_arg_argF auto hauto A f).2, (addsOf_arg_argF auto hauto (extractArgs xf T ++ A) f).2,
    addsOf_append, List.filter_append, (addsOf_ret_retF auto hauto R f).1,
    (addsOf_ret_retF auto hauto (extractRets xf T) f).1]
  simp only [List.nil_append, List.append_nil]
  congr 1
  unfold extractRets
  rw [addsOf_flatMap, addsOf_filter]
  congr 1
  funext it
  exact (itemAdds_trig_rets auto hauto xf hx hr it f).symm

/-- when (with C09-OLDFMT repaired) the old-format pass runs, there is no `retspec:` line: no trigger and
    no -R asked for a return value, so the writer's list has no return-value entry -/
theorem adds_rets_empty (auto : Nat → Bool → List Spec) (hauto : AutoOk auto) (xf : XFix) (hx : xf.auto = true)
    (hr : xf.ret = true) (hc : xf.compat = true) (T A R : List Item) (f : Nat)
    (hold : oldPass xf (infoArgs xf T A) (infoRets xf T R) = true) :
    (writerAdds auto T A R f).filter retF = [] := by
  unfold oldPass at hold
  rw [hc] at hold
  simp only [Bool.true_and, Bool.and_eq_true, Bool.not_eq_true', Bool.not_eq_false'] at hold
  have hrs : infoRets xf T R = [] := List.isEmpty_iff.mp hold.2
  unfold infoRets at hrs
  obtain ⟨h1, h2⟩ := List.append_eq_nil_iff.mp hrs
  unfold writerAdds
  simp only [List.filter_append]
  rw [(addsOf_arg_argF auto hauto A f).2, h2]
  simp only [List.append_nil]
  rw [addsOf_filter]
  have : (fun it => (itemAdds auto .trig it f).filter retF) =
      (fun it => (xRets xf it).flatMap (fun it' => itemAdds auto .ret it' f)) := by
    funext it
    exact itemAdds_trig_rets auto hauto xf hx hr it f
  rw [this, ← addsOf_flatMap]
  show addsOf auto .ret (extractRets xf T) f ++ addsOf auto .ret [] f = []
  rw [h1]
  rfl

theorem defret_ok : SpecSrcOk DEFRET := fun _ => rfl

theorem itemAdds_ok (auto : Nat → Bool → List Spec) (hauto : AutoOk auto) (s : Src) (it : Item)
    (hit : ∀ sp ∈ it.specs, SpecSrcOk sp) (f : Nat) : AddsOk (itemAdds auto s it f) := by
  intro a ha
  unfold itemAdds at ha
  split at ha
  · simp only [List.mem_map] at ha
    obtain ⟨sp, hsp, rfl⟩ := ha
    split at hsp
    · simp only [List.mem_append] at hsp
      rcases hsp with h | h
      · split at h
        · exact (hauto f false sp h).2
        · cases h
      · split at h
        · exact (hauto f true sp h).2
        · cases h
    · exact hit sp (List.mem_filter.mp hsp).1
  · cases ha

theorem addsOf_ok (auto : Nat → Bool → List Spec) (hauto : AutoOk auto) (s : Src) (items : List Item)
    (hi : ItemsOk items) (f : Nat) : AddsOk (addsOf auto s items f) := by
  intro a ha
  unfold addsOf at ha
  obtain ⟨it, hit, h⟩ := List.mem_flatMap.mp ha
  exact itemAdds_ok auto hauto s it (hi it hit) f a h

theorem addsOk_append (x y : List (Bool × Spec)) (hx : AddsOk x) (hy : AddsOk y) : AddsOk (x ++ y) := by
  intro a ha
  rcases List.mem_append.mp ha with h | h
  · exact hx a h
  · exact hy a h

theorem itemsOk_append (x y : List Item) (hx : ItemsOk x) (hy : ItemsOk y) : ItemsOk (x ++ y) := by
  intro a ha
  rcases List.mem_append.mp ha with h | h
  · exact hx a h
  · exact hy a h

theorem xAuto_ok (xf : XFix) (it : Item) : ItemsOk (xAuto xf it) := by
  intro x hx sp hsp
  unfold xAuto at hx
  split at hx
  · simp at hx; subst hx; cases hsp
  · cases hx

theorem extractArgs_ok (xf : XFix) (T : List Item) (hT : ItemsOk T) : ItemsOk (extractArgs xf T) := by
  intro x hx
  unfold extractArgs at hx
  obtain ⟨it, hit, h⟩ := List.mem_flatMap.mp hx
  unfold xArgs at h
  rcases List.mem_append.mp h with h | h
  · split at h
    · cases h
    · simp at h; subst h
      intro sp hsp
      exact hT it hit sp (List.mem_filter.mp hsp).1
  · exact xAuto_ok xf it x h

theorem extractRets_ok (xf : XFix) (T : List Item) (hT : ItemsOk T) : ItemsOk (extractRets xf T) := by
  intro x hx
  unfold extractRets at hx
  obtain ⟨it, hit, h⟩ := List.mem_flatMap.mp hx
  unfold xRets at h
  rcases List.mem_append.mp h with h | h
  · split at h
    · cases h
    · simp at h; subst h
      intro sp hsp
      simp only at hsp
      split at hsp
      · exact hT it hit sp (List.mem_filter.mp hsp).1
      · simp at hsp; subst hsp; exact defret_ok
  · exact xAuto_ok xf it x h

theorem writerAdds_ok (auto : Nat → Bool → List Spec) (hauto : AutoOk auto) (T A R : List Item)
    (hT : ItemsOk T) (hA : ItemsOk A) (hR : ItemsOk R) (f : Nat) : AddsOk (writerAdds auto T A R f) :=
  addsOk_append _ _ (addsOk_append _ _ (addsOf_ok auto hauto _ T hT f) (addsOf_ok auto hauto _ A hA f))
    (addsOf_ok auto hauto _ R hR f)

theorem readerAdds_ok (auto : Nat → Bool → List Spec) (hauto : AutoOk auto) (xf : XFix) (T A R : List Item)
    (hT : ItemsOk T) (hA : ItemsOk A) (hR : ItemsOk R) (f : Nat) : AddsOk (readerAdds auto xf T A R f) := by
  have ha : ItemsOk (infoArgs xf T A) := itemsOk_append _ _ (extractArgs_ok xf T hT) hA
  have hr : ItemsOk (infoRets xf T R) := itemsOk_append _ _ (extractRets_ok xf T hT) hR
  unfold readerAdds readerAddsOf
  refine addsOk_append _ _ (addsOk_append _ _ (addsOf_ok auto hauto _ _ ha f) (addsOf_ok auto hauto _ _ hr f)) ?_
  split
  · exact addsOf_ok auto hauto _ _ ha f
  · intro a h; cases h

theorem part_false_filter (adds : List (Bool × Spec)) :
    adds.filter (fun a => a.2.isRet == false) = adds.filter argF := by
  congr 1; funext a; unfold argF; cases a.2.isRet <;> rfl

theorem part_true_filter (adds : List (Bool × Spec)) :
    adds.filter (fun a => a.2.isRet == true) = adds.filter retF := by
  congr 1; funext a; unfold retF; cases a.2.isRet <;> rfl

/-! ## dump (raw) -/

theorem dumpRaw_fixed (size : Nat) (data : List Byte) :
    (dumpRaw true size data).1 = ofLe (data.take size) ∧ (dumpRaw true size data).2 ≤ 8 := by
  unfold dumpRaw
  by_cases h : size > 8
  · simp [h]
  · have h8 : min size 8 = size := by omega
    simp [h, h8]
    omega

/-- the `list_add_tail` loop of deep_copy_filter appends in order -/
theorem copyArgs_tail_aux (l acc : List LSpec) :
    l.foldl (fun acc a => acc ++ [a]) acc = acc ++ l := by
  induction l generalizing acc with
  | nil => rw [List.foldl_nil, List.append_nil]
  | cons a l ih => rw [List.foldl_cons, ih, List.append_assoc]; rfl

end Uft.Argbuf
