import Uft.Model.Crash
import Uft.Lemmas.Shmem
/- Further invariants of the hand-off (LOST accounting, whole records) and lemmas about the crash
   handler and the recorder's shutdown (helper lemmas for Props/C03, C04). -/
namespace Uft.Shmem
open Uft.Writers

/-! ### LOST accounting: the shape of a thread's emission log -/

/-- where a thread is with respect to dropped records -/
inductive LSt where
  | normal     -- nothing pending
  | failed     -- an allocation just failed (the record that needed the buffer is dropped next)
  | run        -- inside a run of dropped records
  | marked     -- the LOST marker was placed; the next event is the surviving record
  deriving DecidableEq, Repr

/-- the log is accepted iff: records are dropped only in runs that begin with an allocation failure,
    every run ends with exactly one LOST marker of positive count, immediately followed by a kept
    record, and there is no LOST marker anywhere else -/
def lstep : LSt → Ev → Option LSt
  | .normal, .kept _ => some .normal
  | .normal, .allocFail => some .failed
  | .failed, .dropped _ => some .run
  | .run, .dropped _ => some .run
  | .run, .allocFail => some .failed
  | .run, .lostMark n => if n > 0 then some .marked else none
  | .marked, .kept _ => some .normal
  | .run, .lostReport n => if n > 0 then some .normal else none   -- the thread ends: trailing loss reported
  | _, _ => none

def lrun : LSt → List Ev → Option LSt
  | st, [] => some st
  | st, e :: l =>
    match lstep st e with
    | some st' => lrun st' l
    | none => none

/-- counts of the LOST markers in the log (what the file carries) -/
def marks : List Ev → List Nat
  | [] => []
  | .lostMark n :: l => n :: marks l
  | _ :: l => marks l

/-- counts of all LOST reports: the markers (each comes with a LOST message) and the message at the end of the thread -/
def reports : List Ev → List Nat
  | [] => []
  | .lostMark n :: l => n :: reports l
  | .lostReport n :: l => n :: reports l
  | _ :: l => reports l

def nDropped : List Ev → Nat
  | [] => 0
  | .dropped _ :: l => nDropped l + 1
  | _ :: l => nDropped l

theorem reports_append (a b : List Ev) : reports (a ++ b) = reports a ++ reports b := by
  induction a with
  | nil => simp [reports]
  | cons e l ih => cases e <;> simp [reports, ih]

theorem nDropped_append (a b : List Ev) : nDropped (a ++ b) = nDropped a + nDropped b := by
  induction a with
  | nil => simp [nDropped]
  | cons e l ih => cases e <;> simp [nDropped, ih] <;> omega

theorem nDropped_map (rs : List Rec) : nDropped (rs.map Ev.dropped) = rs.length := by
  induction rs with
  | nil => rfl
  | cons r l ih => simp [nDropped, ih]

theorem reports_map (rs : List Rec) : reports (rs.map Ev.dropped) = [] := by
  induction rs with
  | nil => rfl
  | cons r l ih => simpa [reports] using ih

theorem lrun_append (st : LSt) (a b : List Ev) :
    lrun st (a ++ b) = (lrun st a).bind (fun st' => lrun st' b) := by
  induction a generalizing st with
  | nil => simp [lrun]
  | cons e l ih =>
    simp only [List.cons_append, lrun]
    cases lstep st e with
    | none => simp
    | some st' => simp [ih]

theorem marks_append (a b : List Ev) : marks (a ++ b) = marks a ++ marks b := by
  induction a with
  | nil => simp [marks]
  | cons e l ih => cases e <;> simp [marks, ih]

/-- how the automaton state, the program counter and `losts` go together -/
def PcOk (pc : Pc) (losts : Nat) (curr : Option Nat) (st : LSt) : Prop :=
  match pc with
  | .idle => (st = .normal ∧ losts = 0) ∨ (st = .run ∧ losts > 0 ∧ curr = none)
  | .needBuf _ | .picked _ | .started _ => (st = .normal ∧ losts = 0) ∨ (st = .run ∧ losts > 0)
  | .wrote _ | .hdr _ => (st = .normal ∨ st = .marked) ∧ losts = 0

structure LInv (p : Prod) : Prop where
  ex : ∃ st, lrun .normal p.log = some st ∧ PcOk p.pc p.losts p.curr st
  msgs : p.lostMsgs = reports p.log

/-- LInv depends on these fields only -/
theorem LInv.congr {p p' : Prod} (h : LInv p) (h1 : p'.pc = p.pc) (h2 : p'.log = p.log) (h3 : p'.losts = p.losts)
    (h4 : p'.curr = p.curr) (h5 : p'.lostMsgs = p.lostMsgs) : LInv p' := by
  obtain ⟨⟨st, hst, hok⟩, hm⟩ := h
  exact ⟨⟨st, by rw [h2]; exact hst, by rw [h1, h3, h4]; exact hok⟩, by rw [h5, h2]; exact hm⟩

def LostInv (s : State) : Prop := ∀ t, LInv (s.prod t)

theorem lostInv_setProd {s : State} {t : Tid} {p' : Prod} (h : LostInv s) (hp : LInv p') :
    LostInv (s.setProd t p') := by
  intro x
  by_cases hx : x = t
  · subst hx; simpa using hp
  · rw [setProd_prod_ne _ _ hx]; exact h x

theorem lostInv_same {s s' : State} (h : LostInv s) (hp : s'.prod = s.prod) : LostInv s' := by
  intro x; rw [hp]; exact h x

theorem fits_curr {cfg : Cfg} {p : Prod} {r : Rec} (h : fits cfg p r = true) : ∃ c, p.curr = some c := by
  unfold fits at h
  split at h
  · simp at h
  · exact ⟨_, by assumption⟩

theorem lostInv_writeOut {s : State} {wb : WBuf} {fl : Bool} {pool : Pool} (h : LostInv s) :
    LostInv (writeOut { s with pool := pool } wb fl) := by
  intro x
  unfold writeOut
  cases hb : (s.prod wb.tid).bufs[wb.idx]? with
  | none => simp only [hb]; exact h x
  | some b =>
    simp only [hb]
    by_cases hx : x = wb.tid
    · subst hx
      simp only [State.setProd, if_true]
      exact (h wb.tid).congr rfl rfl rfl rfl rfl
    · simp only [State.setProd, hx, if_false]; exact h x

theorem lostInv_recordMmap {s : State} {wb : WBuf} (h : LostInv s) : LostInv (recordMmap s wb) := by
  unfold recordMmap
  split
  · exact h
  · split
    · exact lostInv_same h rfl
    · exact h

theorem lostInv_send {s : State} {m : Msg} (h : LostInv s) : LostInv (s.send m) := by
  unfold State.send; split
  · exact h
  · exact lostInv_same h rfl

theorem lostInv_finishCore {s s' : State} {t : Tid} (h : LostInv s) (hs : finishCore s t = some s') :
    LostInv s' ∧ (s'.prod t).pc = .idle := by
  simp only [finishCore] at hs
  split at hs
  · rename_i hg
    simp only [Bool.and_eq_true, beq_iff_eq] at hg
    obtain ⟨_, hpc⟩ := hg
    obtain ⟨⟨st, hst, hok⟩, hm⟩ := h t
    simp only [PcOk, hpc] at hok
    have key : ∀ o, LInv { s.prod t with done := true, curr := none, opn := o } := by
      intro o
      refine ⟨⟨st, hst, ?_⟩, hm⟩
      show PcOk (s.prod t).pc (s.prod t).losts none st
      rw [hpc]; simp only [PcOk]
      rcases hok with h1 | ⟨h1, h2, _⟩
      · exact Or.inl h1
      · exact Or.inr ⟨h1, h2, trivial⟩
    cases hc : (s.prod t).curr with
    | none =>
      simp only [hc] at hs; injection hs with hs; subst hs
      exact ⟨lostInv_setProd h (key _), by simpa using hpc⟩
    | some c =>
      simp only [hc] at hs
      have ite_some : ∀ (c : Prop) [Decidable c] (A B : State),
          (if c then some A else some B) = some s' → s' = A ∨ s' = B := by
        intro c _ A B h; split at h <;> injection h with h <;> simp [h]
      rcases ite_some _ _ _ hs with e | e
      · subst e; exact ⟨lostInv_send (lostInv_setProd h (key _)), by simpa [send_prod] using hpc⟩
      · subst e; exact ⟨lostInv_setProd h (key _), by simpa using hpc⟩
  · simp at hs

theorem lostInv_reportTail {cfg : Cfg} {s : State} {t : Tid} (h : LostInv s) (hpc : (s.prod t).pc = .idle) :
    LostInv (reportTail cfg t s) := by
  unfold reportTail
  simp only []
  split
  · rename_i hg
    simp only [Bool.and_eq_true, decide_eq_true_eq] at hg
    have hl := hg.1.2
    apply lostInv_send
    apply lostInv_setProd h
    obtain ⟨⟨st, hst, hok⟩, hm⟩ := h t
    simp only [PcOk, hpc] at hok
    have hst' : st = .run := by
      rcases hok with ⟨_, h0⟩ | ⟨e, _⟩
      · omega
      · exact e
    refine ⟨⟨.normal, ?_, by simp [PcOk, hpc]⟩, by simp [reports_append, reports, hm]⟩
    rw [lrun_append, hst, hst']
    simp [lrun, lstep, hl]
  · exact h

theorem lostInv_step {cfg : Cfg} {s s' : State} {a : Action} (hi : Inv s) (h : LostInv s)
    (hs : step cfg s a = some s') :
    LostInv s' := by
  cases a with
  | pPrepare t =>
    simp only [step] at hs
    split at hs
    · simp at hs
    · rename_i hg
      simp only [Bool.or_eq_true, not_or, Bool.not_eq_true] at hg
      obtain ⟨_, hl, hpc, _, _, hl0⟩ := (hi.view t).c.unstarted hg.1
      injection hs with hs; subst hs
      apply lostInv_send
      apply lostInv_setProd h
      obtain ⟨⟨st, hst, _⟩, hm⟩ := h t
      rw [hl] at hst
      simp only [lrun, Option.some.injEq] at hst
      exact ⟨⟨st, by simp [hl, lrun, hst], by simp [PcOk, hpc, hl0, ← hst]⟩, hm⟩
  | pWrite t r =>
    simp only [step] at hs
    split at hs
    · rename_i hg
      simp only [Bool.and_eq_true, beq_iff_eq] at hg
      obtain ⟨⟨_, hpc⟩, hfit⟩ := hg
      obtain ⟨c, hc⟩ := fits_curr hfit
      injection hs with hs; subst hs
      apply lostInv_setProd h
      obtain ⟨⟨st, hst, hok⟩, hm⟩ := h t
      refine ⟨⟨st, hst, ?_⟩, hm⟩
      simp only [PcOk, hpc, hc] at hok ⊢
      rcases hok with ⟨h1, h2⟩ | ⟨_, _, h3⟩
      · exact ⟨Or.inl h1, h2⟩
      · simp at h3
    · simp at hs
  | pBump t =>
    simp only [step] at hs
    split at hs
    · rename_i r c hpc hc
      split at hs
      · simp at hs
      · obtain ⟨⟨st, hst, hok⟩, hm⟩ := h t
        simp only [PcOk, hpc] at hok
        split at hs
        · injection hs with hs; subst hs
          apply lostInv_setProd h
          exact ⟨⟨st, hst, by simpa [PcOk] using hok⟩, hm⟩
        · injection hs with hs; subst hs
          apply lostInv_setProd h
          refine ⟨⟨.normal, ?_, by simp [PcOk, hok.2]⟩, by simp [reports_append, reports, hm]⟩
          rw [lrun_append, hst]
          rcases hok.1 with e | e <;> simp [e, lrun, lstep]
    · simp at hs
  | pBump2 t =>
    simp only [step] at hs
    split at hs
    · rename_i r c hpc hc
      split at hs
      · simp at hs
      · obtain ⟨⟨st, hst, hok⟩, hm⟩ := h t
        simp only [PcOk, hpc] at hok
        injection hs with hs; subst hs
        apply lostInv_setProd h
        refine ⟨⟨.normal, ?_, by simp [PcOk, hok.2]⟩, by simp [reports_append, reports, hm]⟩
        rw [lrun_append, hst]
        rcases hok.1 with e | e <;> simp [e, lrun, lstep]
    · simp at hs
  | pEnd t r =>
    simp only [step] at hs
    split at hs
    · rename_i hg
      simp only [Bool.and_eq_true, beq_iff_eq] at hg
      obtain ⟨⟨_, hpc⟩, _⟩ := hg
      obtain ⟨⟨st, hst, hok⟩, hm⟩ := h t
      simp only [PcOk, hpc] at hok
      have hok' : PcOk (.needBuf r) (s.prod t).losts (s.prod t).curr st := by
        simp only [PcOk]
        rcases hok with h1 | ⟨h1, h2, _⟩
        · exact Or.inl h1
        · exact Or.inr ⟨h1, h2⟩
      split at hs
      · injection hs with hs; subst hs
        exact lostInv_send (lostInv_setProd h ⟨⟨st, hst, hok'⟩, hm⟩)
      · injection hs with hs; subst hs
        exact lostInv_setProd h ⟨⟨st, hst, hok'⟩, hm⟩
    · simp at hs
  | pPick t ok =>
    simp only [step] at hs
    split at hs
    · rename_i r hpc
      split at hs
      · simp at hs
      · obtain ⟨⟨st, hst, hok⟩, hm⟩ := h t
        simp only [PcOk, hpc] at hok
        split at hs
        · split at hs
          · injection hs with hs; subst hs
            exact lostInv_setProd h ⟨⟨st, hst, by simpa [PcOk] using hok⟩, hm⟩
          · simp at hs
        · split at hs
          · injection hs with hs; subst hs
            exact lostInv_setProd h ⟨⟨st, hst, by simpa [PcOk] using hok⟩, hm⟩
          · injection hs with hs; subst hs
            apply lostInv_setProd h
            refine ⟨⟨.run, ?_, by simp only [PcOk]; right; exact ⟨trivial, by split <;> omega, trivial⟩⟩,
              by simp [reports_append, reports, hm]⟩
            rw [lrun_append, hst]
            rcases hok with ⟨e, _⟩ | ⟨e, _⟩ <;> simp [e, lrun, lstep]
    · simp at hs
  | pStart t =>
    simp only [step] at hs
    split at hs
    · rename_i r c hpc hc
      split at hs
      · simp at hs
      · obtain ⟨⟨st, hst, hok⟩, hm⟩ := h t
        simp only [PcOk, hpc] at hok
        injection hs with hs; subst hs
        exact lostInv_send (lostInv_setProd h ⟨⟨st, hst, by simpa [PcOk] using hok⟩, hm⟩)
    · simp at hs
  | pMark t =>
    simp only [step] at hs
    split at hs
    · rename_i r c hpc hc
      split at hs
      · simp at hs
      · obtain ⟨⟨st, hst, hok⟩, hm⟩ := h t
        simp only [PcOk, hpc] at hok
        split at hs
        · rename_i hl
          injection hs with hs; subst hs
          apply lostInv_send
          apply lostInv_setProd h
          have hst' : st = .run := by
            rcases hok with ⟨_, h0⟩ | ⟨e, _⟩
            · omega
            · exact e
          refine ⟨⟨.marked, ?_, by simp [PcOk]⟩, by simp [reports_append, reports, hm]⟩
          rw [lrun_append, hst, hst']
          simp [lrun, lstep, hl]
        · rename_i hl
          injection hs with hs; subst hs
          apply lostInv_setProd h
          have : (s.prod t).losts = 0 := by omega
          refine ⟨⟨st, hst, ?_⟩, hm⟩
          simp only [PcOk]
          rcases hok with ⟨e, _⟩ | ⟨_, h0⟩
          · exact ⟨Or.inl e, this⟩
          · omega
    · simp at hs
  | pAbandon t rs cn =>
    simp only [step] at hs
    split at hs
    · rename_i hg
      simp only [Bool.and_eq_true, beq_iff_eq, decide_eq_true_eq, Option.isNone_iff_eq_none] at hg
      obtain ⟨⟨⟨_, hpc⟩, hc⟩, hl⟩ := hg
      obtain ⟨⟨st, hst, hok⟩, hm⟩ := h t
      simp only [PcOk, hpc] at hok
      injection hs with hs; subst hs
      apply lostInv_setProd h
      have hst' : st = .run := by
        rcases hok with ⟨_, h0⟩ | ⟨e, _⟩
        · omega
        · exact e
      refine ⟨⟨.run, ?_, by simp only [PcOk, hpc]; right; exact ⟨trivial, by omega, hc⟩⟩,
        by simp [reports_append, reports_map, hm]⟩
      rw [lrun_append, hst, hst']
      have : ∀ l : List Rec, lrun .run (l.map Ev.dropped) = some .run := by
        intro l; induction l with
        | nil => rfl
        | cons r l ih => simpa [lrun, lstep] using ih
      simp [this]
    · simp at hs
  | pFinish t =>
    simp only [step] at hs
    split at hs
    · rename_i s1 h1
      injection hs with hs; subst hs
      obtain ⟨hl1, hpc1⟩ := lostInv_finishCore h h1
      exact lostInv_reportTail hl1 hpc1
    · simp at hs
  | pFinishTrigger t =>
    simp only [step] at hs
    split at hs
    · injection hs with hs; subst hs; exact lostInv_same h rfl
    · simp at hs
  | kill t =>
    simp only [step] at hs
    injection hs with hs; subst hs
    exact lostInv_setProd h ((h t).congr rfl rfl rfl rfl rfl)
  | rRead =>
    simp only [step] at hs
    split at hs
    · simp at hs
    · injection hs with hs; subst hs; exact lostInv_same h rfl
    · injection hs with hs; subst hs; exact lostInv_recordMmap (lostInv_same h rfl)
    · injection hs with hs; subst hs; exact lostInv_same h rfl
    · injection hs with hs; subst hs; exact lostInv_same h rfl
  | rFlush t i =>
    simp only [step] at hs
    split at hs
    · injection hs with hs; subst hs
      apply lostInv_recordMmap
      apply lostInv_setProd (lostInv_same h rfl)
      exact (h t).congr rfl rfl rfl rfl rfl
    · simp at hs
  | rStop =>
    simp only [step] at hs
    injection hs with hs; subst hs; exact lostInv_same h rfl
  | rRemaining =>
    simp only [step] at hs
    split at hs
    · simp at hs
    · split at hs
      · injection hs with hs; subst hs; exact lostInv_writeOut h
      · simp at hs
  | wPick w =>
    simp only [step] at hs
    split at hs
    · injection hs with hs; subst hs; exact lostInv_same h rfl
    · simp at hs
  | wWrite w =>
    simp only [step] at hs
    split at hs
    · injection hs with hs; subst hs; exact lostInv_writeOut h
    · simp at hs
  | wSplice w =>
    simp only [step] at hs
    split at hs
    · injection hs with hs; subst hs; exact lostInv_same h rfl
    · simp at hs

theorem lostInv_init (nw : Nat) : LostInv (State.init nw) := by
  intro t
  exact ⟨⟨.normal, rfl, Or.inl ⟨rfl, rfl⟩⟩, rfl⟩

theorem lostInv_reachable {cfg : Cfg} {nw : Nat} {s : State} (h : Reachable cfg nw s) : LostInv s := by
  induction h with
  | init => exact lostInv_init nw
  | step a hr hs ih => exact lostInv_step (inv_reachable hr) ih hs


/-! ### whole records only (with the single size update) -/

def ntBufs (l : List Buf) : Prop := ∀ b ∈ l, ∀ it ∈ b.data, it.isTorn = false

def NT (s : State) : Prop := ∀ t, (∀ it ∈ s.file t, it.isTorn = false) ∧ ntBufs (s.prod t).bufs

theorem ntBufs_set {l : List Buf} {i : Nat} {b : Buf} (h : ntBufs l) (hb : ∀ it ∈ b.data, it.isTorn = false) :
    ntBufs (l.set i b) := by
  intro x hx
  rcases List.mem_or_eq_of_mem_set hx with hx | hx
  · exact h x hx
  · subst hx; exact hb

theorem ntBufs_shrink {l : List Buf} {k : Nat} (h : ntBufs l) : ntBufs (shrink l k) := by
  rcases shrink_cases l k with e | ⟨e, _⟩
  · rw [e]; exact h
  · rw [e]; intro b hb; exact h b (List.dropLast_subset l hb)

theorem ntBufs_modData {l : List Buf} {c : Nat} {g : List Item → List Item} (h : ntBufs l)
    (hg : ∀ d : List Item, (∀ it ∈ d, it.isTorn = false) → ∀ it ∈ g d, it.isTorn = false) :
    ntBufs (modData l c g) := by
  unfold modData
  split
  · exact h
  · rename_i b hb
    exact ntBufs_set h (hg b.data (h b (List.mem_of_getElem? hb)))

theorem nt_setProd {s : State} {t : Tid} {p' : Prod} (h : NT s) (hp : ntBufs p'.bufs) : NT (s.setProd t p') := by
  intro x
  by_cases hx : x = t
  · subst hx; exact ⟨(h x).1, by simpa using hp⟩
  · rw [setProd_prod_ne _ _ hx]; exact h x

theorem nt_same {s s' : State} (h : NT s) (hp : s'.prod = s.prod) (hf : s'.file = s.file) : NT s' := by
  intro x; rw [hp, hf]; exact h x

theorem nt_send {s : State} {m : Msg} (h : NT s) : NT (s.send m) := by
  unfold State.send; split
  · exact h
  · exact nt_same h rfl rfl

theorem nt_recordMmap {s : State} {wb : WBuf} (h : NT s) : NT (recordMmap s wb) := by
  unfold recordMmap
  split
  · exact h
  · split
    · exact nt_same h rfl rfl
    · exact h

theorem nt_writeOut {s : State} {wb : WBuf} {fl : Bool} {pool : Pool} (h : NT s) :
    NT (writeOut { s with pool := pool } wb fl) := by
  intro x
  unfold writeOut
  cases hb : (s.prod wb.tid).bufs[wb.idx]? with
  | none => simp only [hb]; exact h x
  | some b =>
    simp only [hb]
    by_cases hx : x = wb.tid
    · subst hx
      simp only [State.setProd, if_true]
      refine ⟨?_, ?_⟩
      · intro it hit
        simp only [List.mem_append] at hit
        rcases hit with hit | hit
        · exact (h wb.tid).1 it hit
        · exact (h wb.tid).2 b (List.mem_of_getElem? hb) it hit
      · apply ntBufs_set (h wb.tid).2
        split <;> simp
    · simp only [State.setProd, hx, if_false]; exact h x

theorem nt_step {cfg : Cfg} {s s' : State} {a : Action} (hf : cfg.fixed = true) (h : NT s)
    (hs : step cfg s a = some s') : NT s' := by
  cases a with
  | pPrepare t =>
    simp only [step] at hs
    split at hs
    · simp at hs
    · injection hs with hs; subst hs
      apply nt_send
      apply nt_setProd h
      intro b hb; simp at hb; rcases hb with hb | hb <;> subst hb <;> simp
  | pWrite t r =>
    simp only [step] at hs
    split at hs
    · injection hs with hs; subst hs; exact nt_setProd h (h t).2
    · simp at hs
  | pBump t =>
    simp only [step] at hs
    split at hs
    · split at hs
      · simp at hs
      · simp only [hf, Bool.not_true, Bool.and_false, Bool.false_eq_true, if_false] at hs
        injection hs with hs; subst hs
        apply nt_setProd h
        dsimp only
        rw [appendData_eq]
        apply ntBufs_modData (h t).2
        intro d hd it hit
        simp only [List.mem_append, List.mem_cons, List.not_mem_nil, or_false] at hit
        rcases hit with hit | hit
        · exact hd it hit
        · subst hit; rfl
    · simp at hs
  | pBump2 t =>
    simp only [step] at hs
    split at hs
    · split at hs
      · simp at hs
      · injection hs with hs; subst hs
        apply nt_setProd h
        dsimp only
        rw [completeData_eq]
        apply ntBufs_modData (h t).2
        intro d hd it hit
        simp only [List.mem_append, List.mem_cons, List.not_mem_nil, or_false] at hit
        rcases hit with hit | hit
        · exact hd it (List.dropLast_subset d hit)
        · subst hit; rfl
    · simp at hs
  | pEnd t r =>
    simp only [step] at hs
    split at hs
    · split at hs
      · injection hs with hs; subst hs; exact nt_send (nt_setProd h (h t).2)
      · injection hs with hs; subst hs; exact nt_setProd h (h t).2
    · simp at hs
  | pPick t ok =>
    simp only [step] at hs
    split at hs
    · split at hs
      · simp at hs
      · split at hs
        · split at hs
          · injection hs with hs; subst hs
            apply nt_setProd h
            exact ntBufs_shrink (ntBufs_set (h t).2 (by simp))
          · simp at hs
        · split at hs
          · injection hs with hs; subst hs
            apply nt_setProd h
            apply ntBufs_shrink
            intro b hb
            simp only [List.mem_append, List.mem_cons, List.not_mem_nil, or_false] at hb
            rcases hb with hb | hb
            · exact (h t).2 b hb
            · subst hb; simp
          · injection hs with hs; subst hs; exact nt_setProd h (h t).2
    · simp at hs
  | pStart t =>
    simp only [step] at hs
    split at hs
    · split at hs
      · simp at hs
      · injection hs with hs; subst hs; exact nt_send (nt_setProd h (h t).2)
    · simp at hs
  | pMark t =>
    simp only [step] at hs
    split at hs
    · split at hs
      · simp at hs
      · split at hs
        · injection hs with hs; subst hs
          apply nt_send
          apply nt_setProd h
          dsimp only
          rw [appendData_eq]
          apply ntBufs_modData (h t).2
          intro d hd it hit
          simp only [List.mem_append, List.mem_cons, List.not_mem_nil, or_false] at hit
          rcases hit with hit | hit
          · exact hd it hit
          · subst hit; rfl
        · injection hs with hs; subst hs; exact nt_setProd h (h t).2
    · simp at hs
  | pAbandon t rs cn =>
    simp only [step] at hs
    split at hs
    · injection hs with hs; subst hs; exact nt_setProd h (h t).2
    · simp at hs
  | pFinish t =>
    simp only [step] at hs
    split at hs
    · rename_i s1 h1
      injection hs with hs; subst hs
      have hn1 : NT s1 := by
        simp only [finishCore] at h1
        split at h1
        · have ite_some : ∀ (c : Prop) [Decidable c] (A B : State),
              (if c then some A else some B) = some s1 → s1 = A ∨ s1 = B := by
            intro c _ A B h; split at h <;> injection h with h <;> simp [h]
          cases hc : (s.prod t).curr with
          | none => simp only [hc] at h1; injection h1 with h1; subst h1; exact nt_setProd h (h t).2
          | some c =>
            simp only [hc] at h1
            rcases ite_some _ _ _ h1 with e | e
            · subst e; exact nt_send (nt_setProd h (h t).2)
            · subst e; exact nt_setProd h (h t).2
        · simp at h1
      unfold reportTail
      simp only []
      split
      · exact nt_send (nt_setProd hn1 (hn1 t).2)
      · exact hn1
    · simp at hs
  | pFinishTrigger t =>
    simp only [step] at hs
    split at hs
    · injection hs with hs; subst hs; exact nt_same h rfl rfl
    · simp at hs
  | kill t =>
    simp only [step] at hs
    injection hs with hs; subst hs; exact nt_setProd h (h t).2
  | rRead =>
    simp only [step] at hs
    split at hs
    · simp at hs
    · injection hs with hs; subst hs; exact nt_same h rfl rfl
    · injection hs with hs; subst hs; exact nt_recordMmap (nt_same h rfl rfl)
    · injection hs with hs; subst hs; exact nt_same h rfl rfl
    · injection hs with hs; subst hs; exact nt_same h rfl rfl
  | rFlush t i =>
    simp only [step] at hs
    split at hs
    · injection hs with hs; subst hs
      apply nt_recordMmap
      exact nt_setProd (nt_same h rfl rfl) (h t).2
    · simp at hs
  | rStop =>
    simp only [step] at hs
    injection hs with hs; subst hs; exact nt_same h rfl rfl
  | rRemaining =>
    simp only [step] at hs
    split at hs
    · simp at hs
    · split at hs
      · injection hs with hs; subst hs; exact nt_writeOut h
      · simp at hs
  | wPick w =>
    simp only [step] at hs
    split at hs
    · injection hs with hs; subst hs; exact nt_same h rfl rfl
    · simp at hs
  | wWrite w =>
    simp only [step] at hs
    split at hs
    · injection hs with hs; subst hs; exact nt_writeOut h
    · simp at hs
  | wSplice w =>
    simp only [step] at hs
    split at hs
    · injection hs with hs; subst hs; exact nt_same h rfl rfl
    · simp at hs

theorem nt_reachable {cfg : Cfg} {nw : Nat} {s : State} (hf : cfg.fixed = true) (h : Reachable cfg nw s) : NT s := by
  induction h with
  | init => intro t; exact ⟨by simp [State.init], by intro b hb; simp [State.init] at hb⟩
  | step a _ hs ih => exact nt_step hf ih hs

theorem clean_of_nt {l : List Item} (h : ∀ it ∈ l, it.isTorn = false) : clean l = l := by
  simp only [clean, List.filter_eq_self]
  intro it hit; simp [h it hit]

/-! ### every loss is reported (with the repaired counting and the report at the end of the thread) -/

/-- LOST counts of `t` still in the pipe -/
def pendingLost (t : Tid) : List Msg → Nat
  | [] => 0
  | .lost t' n :: l => (if t' = t then n else 0) + pendingLost t l
  | _ :: l => pendingLost t l

/-- what the recorder has added to shmem_lost_count on behalf of `t` -/
def lostFrom (s : State) (t : Tid) : Nat := ((s.lostLog.filter (fun e => e.1 = t)).map (·.2)).sum

theorem pendingLost_append (t : Tid) (a b : List Msg) : pendingLost t (a ++ b) = pendingLost t a + pendingLost t b := by
  induction a with
  | nil => simp [pendingLost]
  | cons m l ih => cases m <;> simp [pendingLost, ih] <;> omega

/-- accounting: drops of a thread = what it reported + what it still has pending; what it reported = what the
    recorder counted for it + what is still in the pipe; shmem_lost_count = sum of what was read -/
structure AInv (cfg : Cfg) (s : State) : Prop where
  acct : cfg.countFix = true → ∀ t, nDropped (s.prod t).log = (s.prod t).lostMsgs.sum + (s.prod t).losts
  deliv : ∀ t, lostFrom s t + pendingLost t s.pipe = (s.prod t).lostMsgs.sum
  total : s.lostCount = (s.lostLog.map (·.2)).sum

/-- a thread that ended through mtd_dtor has nothing pending, unless tracing had been finished before -/
def TailInv (cfg : Cfg) (s : State) : Prop :=
  cfg.tailFix = true → ∀ t, (s.prod t).done = true → (s.prod t).losts = 0 ∨ s.pipeClosed = true

def key (p : Prod) : Nat × List Nat × Nat × Bool := (nDropped p.log, p.lostMsgs, p.losts, p.done)

theorem ainv_frame {cfg : Cfg} {s s' : State} (h : AInv cfg s)
    (hk : ∀ t, nDropped (s'.prod t).log = nDropped (s.prod t).log ∧ (s'.prod t).lostMsgs = (s.prod t).lostMsgs ∧
      (s'.prod t).losts = (s.prod t).losts)
    (hp : ∀ t, pendingLost t s'.pipe = pendingLost t s.pipe) (hl : s'.lostLog = s.lostLog)
    (hc : s'.lostCount = s.lostCount) : AInv cfg s' := by
  refine ⟨?_, ?_, ?_⟩
  · intro hf t; obtain ⟨h1, h2, h3⟩ := hk t; rw [h1, h2, h3]; exact h.acct hf t
  · intro t; obtain ⟨_, h2, _⟩ := hk t
    rw [h2, hp t]; simp only [lostFrom, hl]; exact h.deliv t
  · rw [hc, hl]; exact h.total

theorem tail_frame {cfg : Cfg} {s s' : State} (h : TailInv cfg s)
    (hk : ∀ t, (s'.prod t).losts = (s.prod t).losts ∧ (s'.prod t).done = (s.prod t).done)
    (hcl : s.pipeClosed = true → s'.pipeClosed = true) : TailInv cfg s' := by
  intro hf t hd
  obtain ⟨h3, h4⟩ := hk t
  rw [h3]; rcases h hf t (by rw [← h4]; exact hd) with e | e
  · exact Or.inl e
  · exact Or.inr (hcl e)

/-- both, when every thread keeps its `key` and the recorder's LOST bookkeeping is untouched -/
theorem both_frame {cfg : Cfg} {s s' : State} (h : AInv cfg s ∧ TailInv cfg s)
    (hk : ∀ t, key (s'.prod t) = key (s.prod t))
    (hp : ∀ t, pendingLost t s'.pipe = pendingLost t s.pipe) (hl : s'.lostLog = s.lostLog)
    (hc : s'.lostCount = s.lostCount) (hcl : s.pipeClosed = true → s'.pipeClosed = true) :
    AInv cfg s' ∧ TailInv cfg s' := by
  have hk' : ∀ t, nDropped (s'.prod t).log = nDropped (s.prod t).log ∧ (s'.prod t).lostMsgs = (s.prod t).lostMsgs ∧
      (s'.prod t).losts = (s.prod t).losts ∧ (s'.prod t).done = (s.prod t).done := by
    intro t; have := hk t; unfold key at this
    injection this with a b; injection b with b c; injection c with c d
    exact ⟨a, b, c, d⟩
  exact ⟨ainv_frame h.1 (fun t => ⟨(hk' t).1, (hk' t).2.1, (hk' t).2.2.1⟩) hp hl hc,
         tail_frame h.2 (fun t => ⟨(hk' t).2.2.1, (hk' t).2.2.2⟩) hcl⟩

theorem key_setProd {s : State} {t : Tid} {p' : Prod} (hp : key p' = key (s.prod t)) (x : Tid) :
    key ((s.setProd t p').prod x) = key (s.prod x) := by
  by_cases hx : x = t
  · subst hx; simpa using hp
  · rw [setProd_prod_ne _ _ hx]

theorem pendingLost_send {s : State} {m : Msg} (t : Tid) (hm : pendingLost t [m] = 0) :
    pendingLost t (s.send m).pipe = pendingLost t s.pipe := by
  unfold State.send; split
  · rfl
  · simp [pendingLost_append, hm]

@[simp] theorem send_lostLog (s : State) (m : Msg) : (s.send m).lostLog = s.lostLog := by
  unfold State.send; split <;> rfl
@[simp] theorem send_lostCount (s : State) (m : Msg) : (s.send m).lostCount = s.lostCount := by
  unfold State.send; split <;> rfl
@[simp] theorem send_closed' (s : State) (m : Msg) : (s.send m).pipeClosed = s.pipeClosed := by
  unfold State.send; split <;> rfl

/-- producer step: `s.setProd t p'` with the same key, optionally followed by a message that is not LOST -/
theorem both_setProd {cfg : Cfg} {s : State} {t : Tid} {p' : Prod} (h : AInv cfg s ∧ TailInv cfg s)
    (hp : key p' = key (s.prod t)) : AInv cfg (s.setProd t p') ∧ TailInv cfg (s.setProd t p') :=
  both_frame h (key_setProd hp) (fun _ => rfl) rfl rfl id

theorem both_send {cfg : Cfg} {s : State} {m : Msg} (h : AInv cfg s ∧ TailInv cfg s)
    (hm : ∀ t, pendingLost t [m] = 0) : AInv cfg (s.send m) ∧ TailInv cfg (s.send m) :=
  both_frame h (fun t => by rw [send_prod]) (fun t => pendingLost_send t (hm t)) (by simp) (by simp) (by simp)

theorem both_recordMmap {cfg : Cfg} {s : State} {wb : WBuf} (h : AInv cfg s ∧ TailInv cfg s) :
    AInv cfg (recordMmap s wb) ∧ TailInv cfg (recordMmap s wb) := by
  unfold recordMmap
  split
  · exact h
  · split
    · exact both_frame h (fun _ => rfl) (fun _ => rfl) rfl rfl id
    · exact h

theorem both_writeOut {cfg : Cfg} {s : State} {wb : WBuf} {fl : Bool} {pool : Pool} (h : AInv cfg s ∧ TailInv cfg s) :
    AInv cfg (writeOut { s with pool := pool } wb fl) ∧ TailInv cfg (writeOut { s with pool := pool } wb fl) := by
  unfold writeOut
  cases hb : (s.prod wb.tid).bufs[wb.idx]? with
  | none => simp only [hb]; exact both_frame h (fun _ => rfl) (fun _ => rfl) rfl rfl id
  | some b =>
    simp only [hb]
    apply both_frame h
    · intro x
      by_cases hx : x = wb.tid
      · subst hx; simp [State.setProd, key]
      · simp [State.setProd, hx]
    · intro _; rfl
    · rfl
    · rfl
    · exact id

theorem rec_msgs_not_lost (t x : Tid) (i : Nat) :
    pendingLost x [Msg.recStart t i] = 0 ∧ pendingLost x [Msg.recEnd t i] = 0 ∧ pendingLost x [Msg.finish] = 0 := by
  simp [pendingLost]

/-- thread `t0` took a step that matters; the recorder's LOST bookkeeping is untouched -/
theorem both_of {cfg : Cfg} {s s' : State} (h : AInv cfg s ∧ TailInv cfg s) (t0 : Tid)
    (hother : ∀ t, t ≠ t0 → s'.prod t = s.prod t)
    (hpo : ∀ t, t ≠ t0 → pendingLost t s'.pipe = pendingLost t s.pipe)
    (hl : s'.lostLog = s.lostLog) (hc : s'.lostCount = s.lostCount)
    (hcl : s.pipeClosed = true → s'.pipeClosed = true)
    (hacct : cfg.countFix = true → nDropped (s'.prod t0).log = (s'.prod t0).lostMsgs.sum + (s'.prod t0).losts)
    (htail : cfg.tailFix = true → (s'.prod t0).done = true → (s'.prod t0).losts = 0 ∨ s'.pipeClosed = true)
    (hdel : lostFrom s t0 + pendingLost t0 s'.pipe = (s'.prod t0).lostMsgs.sum) :
    AInv cfg s' ∧ TailInv cfg s' := by
  refine ⟨⟨?_, ?_, ?_⟩, ?_⟩
  · intro hf t
    by_cases ht : t = t0
    · subst ht; exact hacct hf
    · rw [hother t ht]; exact h.1.acct hf t
  · intro t
    by_cases ht : t = t0
    · subst ht; simp only [lostFrom, hl]; exact hdel
    · rw [hother t ht, hpo t ht]; simp only [lostFrom, hl]; exact h.1.deliv t
  · rw [hc, hl]; exact h.1.total
  · intro hf t hd
    by_cases ht : t = t0
    · subst ht; exact htail hf hd
    · rw [hother t ht] at hd ⊢
      rcases h.2 hf t hd with e | e
      · exact Or.inl e
      · exact Or.inr (hcl e)

theorem pendingLost_lost_self (t n : Nat) : pendingLost t [Msg.lost t n] = n := by simp [pendingLost]
theorem pendingLost_lost_other {t x : Tid} (n : Nat) (h : x ≠ t) : pendingLost x [Msg.lost t n] = 0 := by
  simp [pendingLost, Ne.symm h]

theorem ainv_reportTail {cfg : Cfg} {s : State} {t : Tid} (ha : AInv cfg s) : AInv cfg (reportTail cfg t s) := by
  unfold reportTail
  simp only []
  split
  · rename_i hg
    simp only [Bool.and_eq_true, Bool.not_eq_true', decide_eq_true_eq] at hg
    have hcl := hg.2
    rw [send_open _ (by simpa using hcl)]
    refine ⟨?_, ?_, ha.total⟩
    · intro hf x
      by_cases hx : x = t
      · subst hx
        have := ha.acct hf x
        simp [State.setProd, nDropped_append, nDropped, List.sum_append]
        omega
      · simp only [State.setProd, hx, if_false]; exact ha.acct hf x
    · intro x
      by_cases hx : x = t
      · subst hx
        have := ha.deliv x
        simp only [lostFrom] at this ⊢
        simp [State.setProd, pendingLost_append, pendingLost, List.sum_append]
        omega
      · have := ha.deliv x
        simp only [lostFrom] at this ⊢
        simp [State.setProd, hx, pendingLost_append, pendingLost, Ne.symm hx]
        omega
  · exact ha

theorem reportTail_other {cfg : Cfg} {s : State} {t x : Tid} (hx : x ≠ t) :
    (reportTail cfg t s).prod x = s.prod x ∧ (reportTail cfg t s).pipeClosed = s.pipeClosed := by
  unfold reportTail; simp only []; split
  · exact ⟨by rw [send_prod]; exact setProd_prod_ne _ _ hx, by simp⟩
  · exact ⟨rfl, rfl⟩

theorem reportTail_tail {cfg : Cfg} {s : State} {t : Tid} (hf : cfg.tailFix = true) :
    ((reportTail cfg t s).prod t).losts = 0 ∨ (reportTail cfg t s).pipeClosed = true := by
  unfold reportTail
  simp only [hf, Bool.true_and]
  split
  · left; rw [send_prod]; simp
  · rename_i hg
    simp only [Bool.and_eq_true, decide_eq_true_eq, Bool.not_eq_true', not_and, Bool.not_eq_false] at hg
    by_cases hl : (s.prod t).losts > 0
    · exact Or.inr (hg hl)
    · left; omega

theorem finishCore_facts {s s' : State} {t : Tid} (hs : finishCore s t = some s') :
    (∀ x, nDropped (s'.prod x).log = nDropped (s.prod x).log ∧ (s'.prod x).lostMsgs = (s.prod x).lostMsgs ∧
      (s'.prod x).losts = (s.prod x).losts) ∧ (∀ x, x ≠ t → s'.prod x = s.prod x) ∧
    (∀ x, pendingLost x s'.pipe = pendingLost x s.pipe) ∧ s'.lostLog = s.lostLog ∧ s'.lostCount = s.lostCount ∧
    s'.pipeClosed = s.pipeClosed := by
  simp only [finishCore] at hs
  split at hs
  · have ite_some : ∀ (c : Prop) [Decidable c] (A B : State),
        (if c then some A else some B) = some s' → s' = A ∨ s' = B := by
      intro c _ A B h; split at h <;> injection h with h <;> simp [h]
    have base : ∀ (o : Option Nat),
        (∀ x, nDropped ((s.setProd t { s.prod t with done := true, curr := none, opn := o }).prod x).log =
            nDropped (s.prod x).log ∧
          ((s.setProd t { s.prod t with done := true, curr := none, opn := o }).prod x).lostMsgs = (s.prod x).lostMsgs ∧
          ((s.setProd t { s.prod t with done := true, curr := none, opn := o }).prod x).losts = (s.prod x).losts) ∧
        (∀ x, x ≠ t → (s.setProd t { s.prod t with done := true, curr := none, opn := o }).prod x = s.prod x) := by
      intro o
      refine ⟨?_, fun x hx => setProd_prod_ne _ _ hx⟩
      intro x
      by_cases hx : x = t
      · subst hx; simp
      · rw [setProd_prod_ne _ _ hx]; exact ⟨rfl, rfl, rfl⟩
    cases hc : (s.prod t).curr with
    | none =>
      simp only [hc] at hs; injection hs with hs; subst hs
      obtain ⟨b1, b2⟩ := base _
      exact ⟨b1, b2, fun _ => rfl, rfl, rfl, rfl⟩
    | some c =>
      simp only [hc] at hs
      rcases ite_some _ _ _ hs with e | e
      · subst e
        obtain ⟨b1, b2⟩ := base _
        refine ⟨fun x => by rw [send_prod]; exact b1 x, fun x hx => by rw [send_prod]; exact b2 x hx,
          fun x => pendingLost_send x (rec_msgs_not_lost t x c).2.1, by rw [send_lostLog]; rfl,
          by rw [send_lostCount]; rfl, by rw [send_closed']; rfl⟩
      · subst e
        obtain ⟨b1, b2⟩ := base _
        exact ⟨b1, b2, fun _ => rfl, rfl, rfl, rfl⟩
  · simp at hs

theorem both_step {cfg : Cfg} {s s' : State} {a : Action} (h : AInv cfg s ∧ TailInv cfg s)
    (hs : step cfg s a = some s') : AInv cfg s' ∧ TailInv cfg s' := by
  cases a with
  | pPrepare t =>
    simp only [step] at hs
    split at hs
    · simp at hs
    · injection hs with hs; subst hs
      exact both_send (both_setProd h rfl) (fun x => (rec_msgs_not_lost t x 0).1)
  | pWrite t r =>
    simp only [step] at hs
    split at hs
    · injection hs with hs; subst hs; exact both_setProd h rfl
    · simp at hs
  | pBump t =>
    simp only [step] at hs
    split at hs
    · split at hs
      · simp at hs
      · split at hs
        · injection hs with hs; subst hs; exact both_setProd h rfl
        · injection hs with hs; subst hs
          exact both_setProd h (by simp [key, nDropped_append, nDropped])
    · simp at hs
  | pBump2 t =>
    simp only [step] at hs
    split at hs
    · split at hs
      · simp at hs
      · injection hs with hs; subst hs
        exact both_setProd h (by simp [key, nDropped_append, nDropped])
    · simp at hs
  | pEnd t r =>
    simp only [step] at hs
    split at hs
    · split at hs
      · rename_i c _
        injection hs with hs; subst hs
        exact both_send (both_setProd h rfl) (fun x => (rec_msgs_not_lost t x c).2.1)
      · injection hs with hs; subst hs; exact both_setProd h rfl
    · simp at hs
  | pPick t ok =>
    simp only [step] at hs
    split at hs
    · split at hs
      · simp at hs
      · rename_i hce
        have hce : s.canEmit t = true := by simpa using hce
        obtain ⟨_, _, hdn, _⟩ := canEmit_iff.mp hce
        split at hs
        · split at hs
          · injection hs with hs; subst hs; exact both_setProd h rfl
          · simp at hs
        · split at hs
          · injection hs with hs; subst hs; exact both_setProd h rfl
          · injection hs with hs; subst hs
            apply both_of h t (fun x hx => setProd_prod_ne _ _ hx) (fun _ _ => rfl) rfl rfl id
            · intro hf
              have := h.1.acct hf t
              simp [nDropped_append, nDropped, hf]
              omega
            · intro _ hd; simp [hdn] at hd
            · simpa using h.1.deliv t
    · simp at hs
  | pStart t =>
    simp only [step] at hs
    split at hs
    · rename_i r c _ _
      split at hs
      · simp at hs
      · injection hs with hs; subst hs
        exact both_send (both_setProd h rfl) (fun x => (rec_msgs_not_lost t x c).1)
    · simp at hs
  | pMark t =>
    simp only [step] at hs
    split at hs
    · split at hs
      · simp at hs
      · rename_i hce
        have hce : s.canEmit t = true := by simpa using hce
        obtain ⟨_, _, hdn, hcl⟩ := canEmit_iff.mp hce
        split at hs
        · injection hs with hs; subst hs
          rw [send_open _ (by simpa using hcl)]
          apply both_of h t
          · intro x hx; exact setProd_prod_ne _ _ hx
          · intro x hx; simp [pendingLost_append, pendingLost, Ne.symm hx]
          · rfl
          · rfl
          · exact id
          · intro hf
            have := h.1.acct hf t
            simp [nDropped_append, nDropped, List.sum_append]
            omega
          · intro _ hd; simp [hdn] at hd
          · have := h.1.deliv t
            simp [pendingLost_append, pendingLost, List.sum_append]
            omega
        · injection hs with hs; subst hs; exact both_setProd h rfl
    · simp at hs
  | pAbandon t rs cn =>
    simp only [step] at hs
    split at hs
    · rename_i hg
      simp only [Bool.and_eq_true] at hg
      obtain ⟨⟨⟨hce, _⟩, _⟩, _⟩ := hg
      obtain ⟨_, _, hdn, _⟩ := canEmit_iff.mp hce
      injection hs with hs; subst hs
      apply both_of h t (fun x hx => setProd_prod_ne _ _ hx) (fun _ _ => rfl) rfl rfl id
      · intro hf
        have := h.1.acct hf t
        simp [nDropped_append, nDropped_map, hf]
        omega
      · intro _ hd; simp [hdn] at hd
      · simpa using h.1.deliv t
    · simp at hs
  | pFinish t =>
    simp only [step] at hs
    split at hs
    · rename_i s1 h1
      injection hs with hs; subst hs
      obtain ⟨f1, f2, f3, f4, f5, f6⟩ := finishCore_facts h1
      have ha1 : AInv cfg s1 := ainv_frame h.1 f1 f3 f4 f5
      refine ⟨ainv_reportTail ha1, ?_⟩
      intro hf x hd
      by_cases hx : x = t
      · subst hx; exact reportTail_tail hf
      · obtain ⟨r1, r2⟩ := reportTail_other (cfg := cfg) (s := s1) hx
        rw [r1] at hd ⊢; rw [r2, f2 x hx, f6]
        rw [f2 x hx] at hd
        exact h.2 hf x hd
    · simp at hs
  | pFinishTrigger t =>
    simp only [step] at hs
    split at hs
    · injection hs with hs; subst hs
      exact both_frame h (fun _ => rfl) (fun x => by simp [pendingLost_append, pendingLost]) rfl rfl (fun _ => rfl)
    · simp at hs
  | kill t =>
    simp only [step] at hs
    injection hs with hs; subst hs; exact both_setProd h rfl
  | rRead =>
    simp only [step] at hs
    split at hs
    · simp at hs
    · rename_i t i rest hp
      injection hs with hs; subst hs
      exact both_frame h (fun _ => rfl) (fun x => by simp [hp, pendingLost]) rfl rfl id
    · rename_i t i rest hp
      injection hs with hs; subst hs
      apply both_recordMmap
      exact both_frame h (fun _ => rfl) (fun x => by simp [hp, pendingLost]) rfl rfl id
    · rename_i t n rest hp
      injection hs with hs; subst hs
      refine ⟨⟨h.1.acct, ?_, ?_⟩, h.2⟩
      · intro x
        have := h.1.deliv x
        simp only [lostFrom, hp, pendingLost] at this ⊢
        by_cases hx : t = x
        · subst hx; simp [List.filter_append, List.sum_append] at this ⊢; omega
        · simp [List.filter_append, hx] at this ⊢; omega
      · have := h.1.total
        simp [List.sum_append, this]
    · rename_i rest hp
      injection hs with hs; subst hs
      exact both_frame h (fun _ => rfl) (fun x => by simp [hp, pendingLost]) rfl rfl id
  | rFlush t i =>
    simp only [step] at hs
    split at hs
    · injection hs with hs; subst hs
      apply both_recordMmap
      exact both_frame h (key_setProd (s := { s with shmemList := s.shmemList.erase ⟨t, i⟩ }) rfl)
        (fun _ => rfl) rfl rfl id
    · simp at hs
  | rStop =>
    simp only [step] at hs
    injection hs with hs; subst hs
    exact both_frame h (fun _ => rfl) (fun _ => rfl) rfl rfl id
  | rRemaining =>
    simp only [step] at hs
    split at hs
    · simp at hs
    · split at hs
      · injection hs with hs; subst hs; exact both_writeOut h
      · simp at hs
  | wPick w =>
    simp only [step] at hs
    split at hs
    · injection hs with hs; subst hs
      exact both_frame h (fun _ => rfl) (fun _ => rfl) rfl rfl id
    · simp at hs
  | wWrite w =>
    simp only [step] at hs
    split at hs
    · injection hs with hs; subst hs; exact both_writeOut h
    · simp at hs
  | wSplice w =>
    simp only [step] at hs
    split at hs
    · injection hs with hs; subst hs
      exact both_frame h (fun _ => rfl) (fun _ => rfl) rfl rfl id
    · simp at hs

theorem both_reachable {cfg : Cfg} {nw : Nat} {s : State} (h : Reachable cfg nw s) : AInv cfg s ∧ TailInv cfg s := by
  induction h with
  | init =>
    refine ⟨⟨fun _ t => by simp [State.init, nDropped], fun t => by simp [State.init, lostFrom, pendingLost], rfl⟩, ?_⟩
    intro _ t hd; simp [State.init] at hd
  | step a _ hs ih => exact both_step ih hs

/-! ### threads exist only through mcount_prepare -/

def stKey (p : Prod) : Bool := p.started

theorem started_frame {s s' : State} {t : Tid} (hk : (s'.prod t).started = (s.prod t).started)
    (h : (s'.prod t).started = true) : (s.prod t).started = true := by rw [← hk]; exact h

theorem started_setProd {s : State} {t x : Tid} {p' : Prod} (hp : p'.started = (s.prod t).started) :
    ((s.setProd t p').prod x).started = (s.prod x).started := by
  by_cases hx : x = t
  · subst hx; simpa using hp
  · rw [setProd_prod_ne _ _ hx]

theorem started_setProd' {s : State} {t x : Tid} {p' : Prod} (h : ((s.setProd t p').prod x).started = true)
    (hp : p'.started = (s.prod t).started) : (s.prod x).started = true := by
  rwa [started_setProd hp] at h

theorem started_recordMmap (s : State) (wb : WBuf) (x : Tid) :
    ((recordMmap s wb).prod x).started = (s.prod x).started := by
  unfold recordMmap; split
  · rfl
  · split <;> rfl

theorem started_writeOut (s : State) (wb : WBuf) (fl : Bool) (x : Tid) :
    ((writeOut s wb fl).prod x).started = (s.prod x).started := by
  unfold writeOut
  cases hb : (s.prod wb.tid).bufs[wb.idx]? with
  | none => simp only [hb]
  | some b =>
    simp only [hb]
    by_cases hx : x = wb.tid
    · subst hx; simp [State.setProd]
    · simp [State.setProd, hx]

/-- `started` becomes true only by `pPrepare` -/
theorem started_step {cfg : Cfg} {s s' : State} {a : Action} {x : Tid} (hs : step cfg s a = some s')
    (h : (s'.prod x).started = true) : (s.prod x).started = true ∨ a = .pPrepare x := by
  cases a with
  | pPrepare t =>
    by_cases hx : x = t
    · subst hx; exact Or.inr rfl
    · left
      simp only [step] at hs
      split at hs
      · simp at hs
      · injection hs with hs; subst hs
        rw [send_prod, setProd_prod_ne _ _ hx] at h; exact h
  | pWrite t r =>
    left; simp only [step] at hs
    split at hs
    · injection hs with hs; subst hs; exact started_setProd' h rfl
    · simp at hs
  | pBump t =>
    left; simp only [step] at hs
    split at hs
    · split at hs
      · simp at hs
      · split at hs <;> (injection hs with hs; subst hs; exact started_setProd' h rfl)
    · simp at hs
  | pBump2 t =>
    left; simp only [step] at hs
    split at hs
    · split at hs
      · simp at hs
      · injection hs with hs; subst hs; exact started_setProd' h rfl
    · simp at hs
  | pEnd t r =>
    left; simp only [step] at hs
    split at hs
    · split at hs
      · injection hs with hs; subst hs; (rw [send_prod] at h; exact started_setProd' h rfl)
      · injection hs with hs; subst hs; exact started_setProd' h rfl
    · simp at hs
  | pPick t ok =>
    left; simp only [step] at hs
    split at hs
    · split at hs
      · simp at hs
      · split at hs
        · split at hs
          · injection hs with hs; subst hs; exact started_setProd' h rfl
          · simp at hs
        · split at hs <;> (injection hs with hs; subst hs; exact started_setProd' h rfl)
    · simp at hs
  | pStart t =>
    left; simp only [step] at hs
    split at hs
    · split at hs
      · simp at hs
      · injection hs with hs; subst hs; (rw [send_prod] at h; exact started_setProd' h rfl)
    · simp at hs
  | pMark t =>
    left; simp only [step] at hs
    split at hs
    · split at hs
      · simp at hs
      · split at hs
        · injection hs with hs; subst hs; (rw [send_prod] at h; exact started_setProd' h rfl)
        · injection hs with hs; subst hs; exact started_setProd' h rfl
    · simp at hs
  | pAbandon t rs cn =>
    left; simp only [step] at hs
    split at hs
    · injection hs with hs; subst hs; exact started_setProd' h rfl
    · simp at hs
  | pFinish t =>
    left; simp only [step] at hs
    split at hs
    · rename_i s1 h1
      injection hs with hs; subst hs
      have h1s : (s1.prod x).started = (s.prod x).started := by
        simp only [finishCore] at h1
        split at h1
        · have ite_some : ∀ (c : Prop) [Decidable c] (A B : State),
              (if c then some A else some B) = some s1 → s1 = A ∨ s1 = B := by
            intro c _ A B h; split at h <;> injection h with h <;> simp [h]
          cases hc : (s.prod t).curr with
          | none => simp only [hc] at h1; injection h1 with h1; subst h1; exact started_setProd rfl
          | some c =>
            simp only [hc] at h1
            rcases ite_some _ _ _ h1 with e | e
            · subst e; rw [send_prod]; exact started_setProd rfl
            · subst e; exact started_setProd rfl
        · simp at h1
      have h2 : ((reportTail cfg t s1).prod x).started = (s1.prod x).started := by
        unfold reportTail; simp only []; split
        · rw [send_prod]; exact started_setProd rfl
        · rfl
      rw [h2, h1s] at h; exact h
    · simp at hs
  | pFinishTrigger t =>
    left; simp only [step] at hs
    split at hs
    · injection hs with hs; subst hs; exact h
    · simp at hs
  | kill t =>
    left; simp only [step] at hs
    injection hs with hs; subst hs; exact started_setProd' h rfl
  | rRead =>
    left; simp only [step] at hs
    split at hs
    · simp at hs
    · injection hs with hs; subst hs; exact h
    · injection hs with hs; subst hs; rwa [started_recordMmap] at h
    · injection hs with hs; subst hs; exact h
    · injection hs with hs; subst hs; exact h
  | rFlush t i =>
    left; simp only [step] at hs
    split at hs
    · injection hs with hs; subst hs
      rw [started_recordMmap] at h
      exact started_setProd' (s := { s with shmemList := s.shmemList.erase ⟨t, i⟩ }) h rfl
    · simp at hs
  | rStop =>
    left; simp only [step] at hs
    injection hs with hs; subst hs; exact h
  | rRemaining =>
    left; simp only [step] at hs
    split at hs
    · simp at hs
    · split at hs
      · injection hs with hs; subst hs; rwa [started_writeOut] at h
      · simp at hs
  | wPick w =>
    left; simp only [step] at hs
    split at hs
    · injection hs with hs; subst hs; exact h
    · simp at hs
  | wWrite w =>
    left; simp only [step] at hs
    split at hs
    · injection hs with hs; subst hs; rwa [started_writeOut] at h
    · simp at hs
  | wSplice w =>
    left; simp only [step] at hs
    split at hs
    · injection hs with hs; subst hs; exact h
    · simp at hs

theorem started_run {cfg : Cfg} : ∀ (acts : List Action) (s s' : State) (x : Tid), run cfg s acts = some s' →
    (s'.prod x).started = true → (s.prod x).started = true ∨ .pPrepare x ∈ acts
  | [], s, s', x, hr, h => by simp [run] at hr; subst hr; exact Or.inl h
  | a :: as, s, s', x, hr, h => by
    simp only [run] at hr
    split at hr
    · rename_i s1 hs1
      rcases started_run as s1 s' x hr h with e | e
      · rcases started_step hs1 e with e2 | e2
        · exact Or.inl e2
        · exact Or.inr (by simp [e2])
      · exact Or.inr (by simp [e])
    · simp at hr

end Uft.Shmem

namespace Uft.Crash
open Uft.Shmem Uft.Writers

/-! ### the crash handler -/

/-- every frame that is not skipped (NORECORD / DISABLED) has its ENTRY written -/
def AllW (fs : List Mcount.Frame) : Prop := ∀ f ∈ fs, f.skip = false → f.written = true

/-- record_trace_data's premise (lines 1090-1116): below a written frame everything is written -/
def WClosed : List Mcount.Frame → Prop
  | [] => True
  | f :: r => (f.written = true → AllW r) ∧ WClosed r

theorem flushBelow_allW : ∀ (fs : List Mcount.Frame), WClosed fs → AllW (Mcount.flushBelow fs).1
  | [], _ => by intro f hf; simp [Mcount.flushBelow] at hf
  | f :: r, h => by
    unfold Mcount.flushBelow
    by_cases hw : f.written = true
    · simp only [hw, if_true]
      intro g hg _
      simp only [List.mem_cons] at hg
      rcases hg with hg | hg
      · rw [hg]; exact hw
      · exact h.1 hw g hg ‹_›
    · simp only [hw, Bool.false_eq_true, if_false]
      have ih := flushBelow_allW r h.2
      split
      · rename_i hs
        intro g hg hgs
        simp only [List.mem_cons] at hg
        rcases hg with hg | hg
        · rw [hg] at hgs; simp [hs] at hgs
        · exact ih g hg hgs
      · intro g hg hgs
        simp only [List.mem_cons] at hg
        rcases hg with hg | hg
        · rw [hg]
        · exact ih g hg hgs

theorem flushBelow_recs : ∀ (fs : List Mcount.Frame), WClosed fs →
    ∀ f ∈ fs, f.skip = false → f.written = false → Mcount.entryRec f ∈ (Mcount.flushBelow fs).2
  | [], _ => by intro f hf; simp at hf
  | g :: r, h => by
    intro f hf hfs hfw
    unfold Mcount.flushBelow
    by_cases hw : g.written = true
    · exfalso
      simp only [List.mem_cons] at hf
      rcases hf with hf | hf
      · rw [hf] at hfw; rw [hw] at hfw; simp at hfw
      · have := h.1 hw f hf hfs; rw [this] at hfw; simp at hfw
    · simp only [hw, Bool.false_eq_true, if_false]
      simp only [List.mem_cons] at hf
      have ih := flushBelow_recs r h.2
      split
      · rename_i hs
        rcases hf with hf | hf
        · rw [hf] at hfs; simp [hs] at hfs
        · exact ih f hf hfs hfw
      · rcases hf with hf | hf
        · rw [hf]; simp
        · simp only [List.mem_append]; exact Or.inl (ih f hf hfs hfw)

/-- shape of record_trace_data's result -/
theorem recordTrace_top (top : Mcount.Frame) (rest : List Mcount.Frame) :
    ∃ top2, (Mcount.recordTrace (top :: rest)).1 =
        top2 :: (if top.written then rest else (Mcount.flushBelow rest).1) ∧
      top2.skip = top.skip ∧ (top.skip = false → top2.written = true) := by
  unfold Mcount.recordTrace
  cases hw : top.written <;> cases hn : top.norecord <;> cases hd : top.disabled <;>
    by_cases hx : (top.endT != 0) = true <;>
    simp [hw, hn, hd, hx, Mcount.Frame.skip]

/-- after record_trace_data on the top frame every open, non-skipped frame is written … -/
theorem recordTrace_allW {fs : List Mcount.Frame} (h : WClosed fs) : AllW (Mcount.recordTrace fs).1 := by
  cases fs with
  | nil => intro f hf; simp [Mcount.recordTrace] at hf
  | cons top rest =>
    obtain ⟨top2, e, hsk, hwr⟩ := recordTrace_top top rest
    rw [e]
    intro g hg hgs
    simp only [List.mem_cons] at hg
    rcases hg with hg | hg
    · rw [hg] at hgs ⊢; exact hwr (by rw [← hsk]; exact hgs)
    · by_cases hw : top.written = true
      · simp only [hw, if_true] at hg; exact h.1 hw g hg hgs
      · simp only [hw, Bool.false_eq_true, if_false] at hg
        exact flushBelow_allW rest h.2 g hg hgs

/-- … and the ENTRY of each one that was not is among the records handed to the buffer -/
theorem recordTrace_recs {fs : List Mcount.Frame} (h : WClosed fs) :
    ∀ f ∈ fs, f.skip = false → f.written = false → Mcount.entryRec f ∈ (Mcount.recordTrace fs).2 := by
  cases fs with
  | nil => intro f hf; simp at hf
  | cons top rest =>
    intro f hf hfs hfw
    unfold Mcount.recordTrace
    simp only [List.mem_cons] at hf
    by_cases hw : top.written = true
    · exfalso
      rcases hf with hf | hf
      · rw [hf, hw] at hfw; simp at hfw
      · have := h.1 hw f hf hfs; rw [this] at hfw; simp at hfw
    · have hw' : top.written = false := by simpa using hw
      simp only [hw', Bool.false_eq_true, if_false, Bool.not_false, Bool.true_and]
      rcases hf with hf | hf
      · rw [hf] at hfs
        simp [hf, hfs]
      · simp only [List.mem_append]
        exact Or.inl (Or.inl (flushBelow_recs rest h.2 f hf hfs hfw))

/-- the shadow stack keeps `WClosed`: a new call is pushed unwritten, a return pops the top, and
    record_trace_data itself leaves it closed -/
theorem WClosed_push {fs : List Mcount.Frame} (f : Mcount.Frame) (hf : f.written = false) (h : WClosed fs) :
    WClosed (f :: fs) := ⟨by simp [hf], h⟩

theorem WClosed_tail {f : Mcount.Frame} {fs : List Mcount.Frame} (h : WClosed (f :: fs)) : WClosed fs := h.2

/-- the ENTRY records still owed for a shadow stack (innermost first): those of the frames that are neither filtered
    out (NORECORD / DISABLED) nor written, outermost first -/
def pendingEntries : List Mcount.Frame → List Mcount.Rec
  | [] => []
  | f :: r => pendingEntries r ++ (if !f.skip && !f.written then [Mcount.entryRec f] else [])

theorem pendingEntries_nil_of_allW : ∀ {fs : List Mcount.Frame}, AllW fs → pendingEntries fs = []
  | [], _ => rfl
  | f :: r, h => by
    have hr : AllW r := fun g hg => h g (List.mem_cons_of_mem _ hg)
    have hf := h f (List.mem_cons_self ..)
    simp only [pendingEntries, pendingEntries_nil_of_allW hr, List.nil_append]
    cases hs : f.skip
    · simp [hf hs]
    · simp

theorem mem_pendingEntries : ∀ {fs : List Mcount.Frame} {r : Mcount.Rec},
    r ∈ pendingEntries fs ↔ ∃ f ∈ fs, f.skip = false ∧ f.written = false ∧ r = Mcount.entryRec f
  | [], r => by simp [pendingEntries]
  | g :: l, r => by
    simp only [pendingEntries, List.mem_append, mem_pendingEntries (fs := l), List.mem_cons]
    constructor
    · rintro (⟨f, hf, h⟩ | h)
      · exact ⟨f, Or.inr hf, h⟩
      · split at h
        · rename_i hc
          simp only [List.mem_singleton] at h
          simp only [Bool.and_eq_true, Bool.not_eq_eq_eq_not, Bool.not_true] at hc
          exact ⟨g, Or.inl rfl, hc.1, hc.2, h⟩
        · simp at h
    · rintro ⟨f, hf | hf, hs, hw, hr⟩
      · right; subst hf; simp [hs, hw, hr]
      · left; exact ⟨f, hf, hs, hw, hr⟩

/-- the downward walk hands over exactly the owed ENTRY records, outermost first -/
theorem flushBelow_exact : ∀ (fs : List Mcount.Frame), WClosed fs → (Mcount.flushBelow fs).2 = pendingEntries fs
  | [], _ => rfl
  | f :: r, h => by
    unfold Mcount.flushBelow
    by_cases hw : f.written = true
    · have : AllW (f :: r) := by
        intro g hg hgs
        simp only [List.mem_cons] at hg
        rcases hg with hg | hg
        · rw [hg]; exact hw
        · exact h.1 hw g hg hgs
      simp [hw, pendingEntries_nil_of_allW this]
    · have hw' : f.written = false := by simpa using hw
      simp only [hw', Bool.false_eq_true, if_false, pendingEntries, Bool.not_false, Bool.and_true]
      have ih := flushBelow_exact r h.2
      cases hs : f.skip <;> simp [ih]

/-- the EXIT record of the frame record_trace_data is called for (only on the exit path: `end_time` set) -/
def exitPart : List Mcount.Frame → List Mcount.Rec
  | [] => []
  | top :: _ => if top.endT != 0 then [Mcount.exitRec top] else []

/-- **record_trace_data, exactly.**  Called for the top frame of ANY stack that satisfies its premise - with filtered-out
    (NORECORD) or DISABLED frames anywhere, the top frame included - it hands over the ENTRY records of all recordable
    open calls that were not written yet, outermost first, then the top frame's EXIT if it is returning; nothing else. -/
theorem recordTrace_exact {fs : List Mcount.Frame} (h : WClosed fs) :
    (Mcount.recordTrace fs).2 = pendingEntries fs ++ exitPart fs := by
  cases fs with
  | nil => rfl
  | cons top rest =>
    unfold Mcount.recordTrace
    by_cases hw : top.written = true
    · have : AllW (top :: rest) := by
        intro g hg hgs
        simp only [List.mem_cons] at hg
        rcases hg with hg | hg
        · rw [hg]; exact hw
        · exact h.1 hw g hg hgs
      simp [hw, pendingEntries_nil_of_allW this, exitPart]
    · have hw' : top.written = false := by simpa using hw
      simp only [hw', Bool.false_eq_true, if_false, Bool.not_false, Bool.true_and, pendingEntries, Bool.and_true,
        exitPart, flushBelow_exact rest h.2]

/-- a filtered-out top frame changes nothing for its callers: their owed ENTRY records are handed over all the same -/
theorem recordTrace_filtered_top {top : Mcount.Frame} {rest : List Mcount.Frame} (h : WClosed (top :: rest))
    (hs : top.skip = true) (hw : top.written = false) :
    (Mcount.recordTrace (top :: rest)).2 = pendingEntries rest ++ exitPart (top :: rest) := by
  rw [recordTrace_exact h]
  simp [pendingEntries, hs]

theorem flushBelow_WClosed : ∀ (fs : List Mcount.Frame), WClosed fs → WClosed (Mcount.flushBelow fs).1
  | [], _ => by simp [Mcount.flushBelow, WClosed]
  | f :: r, h => by
    unfold Mcount.flushBelow
    by_cases hw : f.written = true
    · simpa [hw] using h
    · simp only [hw, Bool.false_eq_true, if_false]
      have ih := flushBelow_WClosed r h.2
      have ha := flushBelow_allW r h.2
      split
      · exact ⟨fun _ => ha, ih⟩
      · exact ⟨fun _ => ha, ih⟩

/-- record_trace_data leaves the shadow stack closed -/
theorem recordTrace_WClosed {fs : List Mcount.Frame} (h : WClosed fs) : WClosed (Mcount.recordTrace fs).1 := by
  cases fs with
  | nil => simp [Mcount.recordTrace, WClosed]
  | cons top rest =>
    obtain ⟨top2, e, _, _⟩ := recordTrace_top top rest
    rw [e]
    by_cases hw : top.written = true
    · simp only [hw, if_true]
      exact ⟨fun _ => h.1 hw, h.2⟩
    · simp only [hw, Bool.false_eq_true, if_false]
      exact ⟨fun _ => flushBelow_allW rest h.2, flushBelow_WClosed rest h.2⟩

/-- the flags an entry hook puts on the frame it has just pushed (NORECORD, DISABLED, FILTERED …) keep it closed: the
    frame is not written yet -/
theorem WClosed_retag {f f' : Mcount.Frame} {fs : List Mcount.Frame} (hf : f'.written = false)
    (h : WClosed (f :: fs)) : WClosed (f' :: fs) := ⟨by simp [hf], h.2⟩


/-! ### the hooks keep record_trace_data's premise (`WClosed`)

Every function of the hook model that touches the shadow stack: mcount_check_rstack, the TRACE_OFF flush,
mcount_entry_filter_check, mcount_entry_filter_record (the flags it puts on the new frame: NORECORD, DISABLED, …; the
finish trigger; the flush when tracing goes off), mcount_exit_filter_record, the entry and exit hooks of both families,
the crash handler's flush and the fork child handler. -/

theorem WClosed_retag_same {f f' : Mcount.Frame} {fs : List Mcount.Frame} (hw : f'.written = f.written)
    (h : WClosed (f :: fs)) : WClosed (f' :: fs) := ⟨by rw [hw]; exact h.1, h.2⟩

theorem WClosed_tail' : ∀ {fs : List Mcount.Frame}, WClosed fs → WClosed fs.tail
  | [], _ => by simp [WClosed]
  | _ :: _, h => h.2

theorem WClosed_allWritten : ∀ (fs : List Mcount.Frame), WClosed (fs.map fun f => { f with written := true })
  | [] => by simp [WClosed]
  | f :: r => by
    refine ⟨fun _ => ?_, WClosed_allWritten r⟩
    intro g hg _
    simp only [List.mem_map] at hg
    obtain ⟨g0, _, e⟩ := hg
    rw [← e]

theorem checkRstack_WClosed (cfg : Mcount.Cfg) (s : Mcount.St) (h : WClosed s.frames) :
    WClosed (Mcount.checkRstack cfg s).2.frames := by
  unfold Mcount.checkRstack
  split
  · split
    · exact recordTrace_WClosed h
    · exact h
  · exact h

theorem traceOffFlush_WClosed (cfg : Mcount.Cfg) (s : Mcount.St) (tr : Mcount.Trigger) (h : WClosed s.frames) :
    WClosed (Mcount.traceOffFlush cfg s tr).frames := by
  rw [Mcount.traceOffFlush_frames]
  split
  · exact recordTrace_WClosed h
  · exact h

theorem entryFilterCheck_WClosed (cfg : Mcount.Cfg) (s : Mcount.St) (addr : Nat) (h : WClosed s.frames) :
    WClosed (Mcount.entryFilterCheck cfg s addr).2.1.frames := by
  have hc := checkRstack_WClosed cfg s h
  unfold Mcount.entryFilterCheck
  simp only []
  repeat' split
  all_goals first
    | exact hc
    | exact traceOffFlush_WClosed cfg _ _ hc

theorem entryFilterRecord_WClosed (cfg : Mcount.Cfg) (s : Mcount.St) (tr : Mcount.Trigger) (h : WClosed s.frames)
    (hw : ∀ f r, s.frames = f :: r → f.written = false) :
    WClosed (Mcount.entryFilterRecord cfg s tr).frames := by
  unfold Mcount.entryFilterRecord
  split
  · exact h
  · rename_i f rest hfr
    have hfw := hw f rest hfr
    rw [hfr] at h
    simp only []
    repeat' split
    all_goals first
      | (rw [hfr]; exact h)
      | exact recordTrace_WClosed (WClosed_retag (by simpa using hfw) h)
      | exact WClosed_retag (by simpa using hfw) h

theorem exitFilterRecord_WClosed (cfg : Mcount.Cfg) (s : Mcount.St) (h : WClosed s.frames) :
    WClosed (Mcount.exitFilterRecord cfg s).frames := by
  unfold Mcount.exitFilterRecord
  split
  · exact h
  · rename_i f rest hfr
    rw [hfr] at h
    simp only []
    repeat' split
    all_goals first
      | exact recordTrace_WClosed h
      | exact h
      | (rw [hfr]; exact h)

theorem entry_WClosed (cfg : Mcount.Cfg) (k : Mcount.Kind) (s : Mcount.St) (addr now : Nat) (h : WClosed s.frames) :
    WClosed (Mcount.entry cfg k s addr now).1.frames := by
  have h1 := entryFilterCheck_WClosed cfg s addr h
  unfold Mcount.entry
  simp only []
  cases k with
  | pg =>
    simp only []
    split
    · exact h1
    · apply entryFilterRecord_WClosed
      · exact WClosed_push _ rfl h1
      · intro f r e
        simp only [List.cons.injEq] at e
        rw [← e.1]
  | cyg =>
    simp only []
    split
    · exact h1
    · apply entryFilterRecord_WClosed
      · exact WClosed_push _ rfl h1
      · intro f r e
        simp only [List.cons.injEq] at e
        rw [← e.1]

theorem exit_WClosed (cfg : Mcount.Cfg) (s : Mcount.St) (now : Nat) (h : WClosed s.frames) :
    WClosed (Mcount.exit cfg s now).frames := by
  unfold Mcount.exit
  split
  · exact h
  · split
    · exact h
    · rename_i f rest hfr
      rw [hfr] at h
      simp only []
      apply WClosed_tail'
      apply exitFilterRecord_WClosed
      exact WClosed_retag_same (by split <;> rfl) h

theorem flushTop_WClosed (s : Mcount.St) (h : WClosed s.frames) : WClosed (Mcount.flushTop s).frames :=
  recordTrace_WClosed h

theorem forkChild_WClosed (s : Mcount.St) : WClosed (Mcount.forkChild s).frames := WClosed_allWritten s.frames

theorem hookStep_WClosed (cfg : Mcount.Cfg) (s : Mcount.St) (o : HookOp) (h : WClosed s.frames) :
    WClosed (hookStep cfg s o).frames := by
  cases o with
  | enter k addr now => exact entry_WClosed cfg k s addr now h
  | leave now => exact exit_WClosed cfg s now h
  | flush => exact flushTop_WClosed s h
  | forkChild => exact forkChild_WClosed s

theorem runHooks_WClosed (cfg : Mcount.Cfg) : ∀ (ops : List HookOp) (s : Mcount.St), WClosed s.frames →
    WClosed (runHooks cfg s ops).frames
  | [], _, h => h
  | o :: os, s, h => runHooks_WClosed cfg os _ (hookStep_WClosed cfg s o h)

/-! ### the shutdown measure -/

def wcost (w : Warg) : Nat := 2 * w.head.length + 4 * w.bufs.length + (if w.tid.isSome then 1 else 0)
def poolCost (p : Pool) : Nat := 4 * p.writeList.length + (p.writers.map wcost).sum

theorem mu_eq (s : State) : mu s = 6 * s.pipe.length + 5 * s.shmemList.length + poolCost s.pool := by
  have : (fun w : Warg => 2 * w.head.length + 4 * w.bufs.length + (if w.tid.isSome then 1 else 0)) = wcost := rfl
  simp only [mu, poolCost, this]; omega

theorem sum_replace (l1 l2 : List Warg) (w : Warg) :
    ((l1 ++ w :: l2).map wcost).sum = (l1.map wcost).sum + wcost w + (l2.map wcost).sum := by
  simp [List.sum_append, Nat.add_assoc]

theorem enqueue_cost (p : Pool) (wb : WBuf) : poolCost (p.enqueue wb) = poolCost p + 4 := by
  unfold Pool.enqueue
  cases hh : handTo wb p.writers with
  | none => simp [poolCost]; omega
  | some ws' =>
    obtain ⟨l1, w, l2, e, _, e'⟩ := handTo_some hh
    simp only [poolCost]
    rw [e', e, sum_replace, sum_replace]
    simp [wcost]; omega

theorem popHead_cost {p p' : Pool} {i : Nat} {wb : WBuf} (h : p.popHead i = some (p', wb)) :
    poolCost p' + 2 = poolCost p := by
  obtain ⟨l1, w, l2, rest, e, hh, e'⟩ := popHead_some h
  subst e'
  simp only [poolCost]
  rw [e, sum_replace, sum_replace]
  simp [wcost, hh]; omega

theorem splice_cost {p p' : Pool} {i : Nat} (h : p.splice i = some p') : poolCost p' < poolCost p := by
  obtain ⟨l1, w, l2, t0, e, ht, hh, e'⟩ := splice_some h
  subst e'
  simp only [poolCost]
  rw [e, sum_replace, sum_replace]
  by_cases hb : w.bufs = []
  · simp [wcost, hb, ht, hh]
  · have : w.bufs.length > 0 := List.length_pos_iff.mpr hb
    simp [wcost, hb, ht, hh, List.isEmpty_iff]; omega

theorem popRemaining_cost {p p' : Pool} {wb : WBuf} (h : p.popRemaining = some (p', wb)) :
    poolCost p' + 4 = poolCost p := by
  obtain ⟨rest, _, hl, e'⟩ := popRemaining_some h
  subst e'
  simp [poolCost, hl]; omega

theorem mu_recordMmap_le (s : State) (wb : WBuf) : mu (recordMmap s wb) ≤ mu s + 4 := by
  unfold recordMmap
  split
  · omega
  · split
    · simp only [mu_eq, enqueue_cost]; omega
    · omega

theorem mu_writeOut (s : State) (wb : WBuf) (fl : Bool) : mu (writeOut s wb fl) = mu s := by
  unfold writeOut
  cases hb : (s.prod wb.tid).bufs[wb.idx]? <;> simp only [hb] <;> rfl

theorem mu_setProd (s : State) (t : Tid) (p : Prod) : mu (s.setProd t p) = mu s := rfl

/-- every action of the shutdown sequence strictly decreases the measure -/
theorem mu_step {cfg : Cfg} {s s' : State} {a : Action} (ha : isShutdownAct a = true)
    (hs : step cfg s a = some s') : mu s' < mu s := by
  cases a with
  | rRead =>
    simp only [step] at hs
    split at hs
    · simp at hs
    · rename_i t i rest hp
      injection hs with hs; subst hs
      simp [mu_eq, hp]; omega
    · rename_i t i rest hp
      injection hs with hs; subst hs
      have := mu_recordMmap_le { s with pipe := rest, shmemList := s.shmemList.erase ⟨t, i⟩ } ⟨t, i⟩
      have hl := List.length_erase_le (a := (⟨t, i⟩ : WBuf)) (l := s.shmemList)
      simp only [mu_eq, hp, List.length_cons] at this ⊢
      omega
    · rename_i t n rest hp
      injection hs with hs; subst hs
      simp [mu_eq, hp]
    · rename_i rest hp
      injection hs with hs; subst hs
      simp [mu_eq, hp]
  | rFlush t i =>
    simp only [step] at hs
    split at hs
    · rename_i hg
      simp only [Bool.and_eq_true, List.contains_iff_mem] at hg
      have hmem := hg.1.1
      injection hs with hs; subst hs
      have := mu_recordMmap_le (({ s with shmemList := s.shmemList.erase ⟨t, i⟩ } : State).setProd t
        { s.prod t with opn := if (s.prod t).opn = some i then none else (s.prod t).opn }) ⟨t, i⟩
      have hl := List.length_erase_of_mem hmem
      have hpos : s.shmemList.length > 0 := List.length_pos_of_mem hmem
      simp only [mu_eq, setProd_pipe, setProd_shm, setProd_pool] at this ⊢
      omega
    · simp at hs
  | rRemaining =>
    simp only [step] at hs
    split at hs
    · simp at hs
    · split at hs
      · rename_i pool wb hp
        injection hs with hs; subst hs
        rw [mu_writeOut]
        have := popRemaining_cost hp
        simp only [mu_eq]; omega
      · simp at hs
  | wWrite w =>
    simp only [step] at hs
    split at hs
    · rename_i pool wb hp
      injection hs with hs; subst hs
      rw [mu_writeOut]
      have := popHead_cost hp
      simp only [mu_eq]; omega
    · simp at hs
  | wSplice w =>
    simp only [step] at hs
    split at hs
    · rename_i pool hp
      injection hs with hs; subst hs
      have := splice_cost hp
      simp only [mu_eq]; omega
    · simp at hs
  | _ => simp [isShutdownAct] at ha

/-- hence every schedule of shutdown actions is at most `mu s` steps long -/
theorem run_shutdown_bounded {cfg : Cfg} : ∀ (acts : List Action) (s s' : State),
    (∀ a ∈ acts, isShutdownAct a = true) → run cfg s acts = some s' → acts.length + mu s' ≤ mu s
  | [], s, s', _, h => by simp [run] at h; subst h; simp
  | a :: as, s, s', ha, h => by
    simp only [run] at h
    split at h
    · rename_i s1 hs1
      have h1 := mu_step (ha a (by simp)) hs1
      have h2 := run_shutdown_bounded as s1 s' (fun b hb => ha b (by simp [hb])) h
      simp only [List.length_cons]; omega
    · simp at h


/-! ### order of a tid's buffers across exec -/

def ofTid (t : Int) (l : List (Int × Nat)) : List (Int × Nat) := l.filter (fun e => e.1 = t)

theorem ofTid_append (t : Int) (a b : List (Int × Nat)) : ofTid t (a ++ b) = ofTid t a ++ ofTid t b := by
  simp [ofTid]

theorem ofTid_erase_other {t u : Int} (h : u ≠ t) (b : Nat) (l : List (Int × Nat)) :
    ofTid t (l.erase (u, b)) = ofTid t l := by
  induction l with
  | nil => rfl
  | cons e l ih =>
    rw [List.erase_cons]
    by_cases he : e = (u, b)
    · subst he; simp [ofTid, h]
    · simp only [beq_iff_eq, he, if_false]
      simp only [ofTid, List.filter_cons] at ih ⊢
      rw [ih]

theorem ofTid_erase_self (t : Int) (b : Nat) (l : List (Int × Nat)) :
    ofTid t (l.erase (t, b)) = (ofTid t l).erase (t, b) := by
  induction l with
  | nil => rfl
  | cons e l ih =>
    rw [List.erase_cons]
    by_cases he : e = (t, b)
    · subst he; simp [ofTid]
    · simp only [beq_iff_eq, he, if_false]
      by_cases ht : e.1 = t
      · simp only [ofTid, List.filter_cons, ht, decide_true, if_true] at ih ⊢
        rw [List.erase_cons]; simp [he, ih]
      · simp only [ofTid, List.filter_cons, ht, decide_false, Bool.false_eq_true, if_false] at ih ⊢
        exact ih

theorem flushOld_none {t : Int} {l : List (Int × Nat)} (h : flushOld t l = none) : ofTid t l = [] := by
  induction l with
  | nil => rfl
  | cons e l ih =>
    unfold flushOld at h
    by_cases he : e.1 = t
    · simp [he] at h
    · simp only [he, if_false] at h
      cases hf : flushOld t l with
      | none =>
        have := ih hf
        simp only [ofTid, List.filter_cons, he, decide_false, Bool.false_eq_true, if_false] at this ⊢
        exact this
      | some x => simp [hf] at h

theorem flushOld_some {t : Int} {l l' : List (Int × Nat)} {e : Int × Nat} (h : flushOld t l = some (e, l')) :
    e.1 = t ∧ ofTid t l = e :: ofTid t l' ∧ ∀ u, u ≠ t → ofTid u l' = ofTid u l := by
  induction l generalizing l' with
  | nil => simp [flushOld] at h
  | cons x l ih =>
    unfold flushOld at h
    by_cases hx : x.1 = t
    · simp only [hx, if_true, Option.some.injEq, Prod.mk.injEq] at h
      obtain ⟨h1, h2⟩ := h
      subst h1; subst h2
      refine ⟨hx, by simp [ofTid, hx], ?_⟩
      intro u hu
      have : ¬ x.1 = u := by rw [hx]; exact fun e => hu e.symm
      simp [ofTid, this]
    · simp only [hx, if_false] at h
      cases hf : flushOld t l with
      | none => simp [hf] at h
      | some y =>
        obtain ⟨y1, y2⟩ := y
        simp only [hf, Option.some.injEq, Prod.mk.injEq] at h
        obtain ⟨h1, h2⟩ := h
        subst h1; subst h2
        obtain ⟨i1, i2, i3⟩ := ih hf
        refine ⟨i1, by simp [ofTid, hx] at i2 ⊢; exact i2, ?_⟩
        intro u hu
        have := i3 u hu
        simp only [ofTid, List.filter_cons] at this ⊢
        rw [this]

theorem any_known {known : Int → Int → Int → Int → Bool}
    (hk : ∀ pp pt mp mt, known pp pt mp mt = (pt == mt)) (s : RecState) (pid t : Int) :
    s.tasks.any (fun pos => known pos.pid pos.tid pid t) = knownTid s t := by
  simp [knownTid, hk]

/-- one message: what the recorder has queued for `t`, followed by what it still holds announced for `t`, grows
    exactly by the buffers `t` starts -/
theorem handle_order {known : Int → Int → Int → Int → Bool}
    (hk : ∀ pp pt mp mt, known pp pt mp mt = (pt == mt)) (s : RecState) (m : CMsg) (hok : msgOk s m = true) (t : Int) :
    ofTid t (handle known s m).enq ++ ofTid t (handle known s m).shm =
      ofTid t s.enq ++ ofTid t s.shm ++ startsOf t [m] := by
  cases m with
  | recStart u b =>
    by_cases hu : u = t
    · subst hu; simp [handle, startsOf, ofTid_append, ofTid]
    · simp [handle, startsOf, ofTid_append, ofTid, hu]
  | recEnd u b =>
    simp only [handle, startsOf, List.append_nil, ofTid_append]
    by_cases hu : u = t
    · subst hu
      simp only [msgOk, shmOf, beq_iff_eq] at hok
      have hs : ofTid u s.shm = [(u, b)] := hok
      rw [ofTid_erase_self, hs]
      simp [ofTid]
    · rw [ofTid_erase_other hu]
      simp [ofTid, hu]
  | taskStart pid u =>
    simp only [handle, startsOf, List.append_nil, any_known hk]
    by_cases hkn : knownTid s u = true
    · simp only [hkn, if_true]
      cases hf : flushOld u s.shm with
      | none => rfl
      | some x =>
        obtain ⟨e, l⟩ := x
        obtain ⟨h1, h2, h3⟩ := flushOld_some hf
        simp only [ofTid_append]
        by_cases hu : u = t
        · subst hu
          rw [h2]
          simp [ofTid, h1]
        · have : ¬ e.1 = t := by rw [h1]; exact hu
          rw [h3 t (Ne.symm hu)]
          simp [ofTid, this]
    · simp [hkn]
  | forkStart pid => simp [handle, startsOf]
  | forkEnd pid tid => simp [handle, startsOf]
  | taskEnd tid => simp [handle, startsOf]

theorem startsOf_cons (t : Int) (m : CMsg) (l : List CMsg) : startsOf t (m :: l) = startsOf t [m] ++ startsOf t l := by
  cases m <;> simp [startsOf]
  split <;> simp

theorem fold_order {known : Int → Int → Int → Int → Bool}
    (hk : ∀ pp pt mp mt, known pp pt mp mt = (pt == mt)) (t : Int) :
    ∀ (msgs : List CMsg) (s : RecState), valid known s msgs = true →
      ofTid t (finishRec (msgs.foldl (handle known) s)).enq = ofTid t s.enq ++ ofTid t s.shm ++ startsOf t msgs
  | [], s, _ => by simp [finishRec, ofTid_append, startsOf]
  | m :: l, s, hv => by
    simp only [valid, Bool.and_eq_true] at hv
    rw [List.foldl_cons, fold_order hk t l _ hv.2, handle_order hk s m hv.1 t, startsOf_cons t m l]
    simp [List.append_assoc]

end Uft.Crash
