/- C08 helper lemmas for the extensions of the report model (Uft.Model.ReportExt):
   the name-keyed function report over call forests, the task report's sort, the percent policy. -/
import Uft.Model.ReportExt
import Uft.Lemmas.ReportTree
import Uft.Lemmas.ReportSort
import Uft.Lemmas.ReportDiff
namespace Uft.Report
open Uft.Mcount (Call Calls)

/-! ### the reader's state does not depend on how the nodes are keyed -/

theorem stepFK_fst (ky : Keying) (t : Task) (r : Rec) : (stepFK ky t r).1 = (stepF t r).1 := by
  unfold stepFK stepF
  by_cases h1 : r.typ = 1
  · simp only [h1, if_true]
    split
    · next heq => simp [heq]
    · next fs heq => simp [heq]
  · by_cases h2 : r.typ = 2
    · simp [h2]
    · simp [h1, h2]

theorem stepFK_snd_entry (ky : Keying) (t : Task) (r : Rec) (h : r.typ = 0) : (stepFK ky t r).2 = [] := by
  unfold stepFK
  simp [h]

theorem runTG_append (stp : Task → Rec → Task × List Upd) (t : Task) (a b : List Rec) :
    runTG stp t (a ++ b) =
      ((runTG stp (runTG stp t a).1 b).1, (runTG stp t a).2 ++ (runTG stp (runTG stp t a).1 b).2) := by
  induction a generalizing t with
  | nil => simp [runTG]
  | cons r rs ih => simp [runTG, ih, List.append_assoc]

theorem runTG_fst (ky : Keying) : ∀ (rs : List Rec) (t : Task),
    (runTG (stepFK ky) t rs).1 = (runT t rs).1
  | [], _ => rfl
  | r :: rs, t => by
    simp only [runTG, runT, stepFK_fst]
    exact runTG_fst ky rs _

/-! ### EXIT under a keying -/

/-- the node update of an EXIT (`find_insert_node` + `report_update_node`) -/
def exitUpdK (ky : Keying) (stk : List Fs) (n : Nat) (r : Rec) (fs : Fs) : Upd :=
  let delta := sub64 r.time fs.total
  let child := if fs.child > delta then delta else fs.child
  { key := ky.name r.addr, total := delta, self := sub64 delta child,
    recursive := isRecK ky (exitStk stk n r.time fs) n fs.addr r.addr }

theorem stepFK_exit (ky : Keying) (t : Task) (n : Nat) (r : Rec) (fs : Fs) (hs : t.sc = (n : Int) + 1)
    (hl : t.lost = false) (hf : t.fset = true) (hty : r.typ = 1) (hget : t.stk[n]? = some fs)
    (hv : fs.valid = true) :
    stepFK ky t r = (exitTask t n r fs, [exitUpdK ky t.stk n r fs]) := by
  have hi : acctInit t r = t := by simp [acctInit, hf]
  have hn : n < t.stk.length := (List.getElem?_eq_some_iff.mp hget).1
  have h1 : t.sc - 1 = (n : Int) := by omega
  have h3 : t.sc > 0 := by omega
  have hset : ∀ v : Fs, (t.stk.set n v)[n]? = some v := fun v => by simp [hn]
  unfold exitTask exitUpdK exitStk
  by_cases hn1 : n ≥ 1
  · have h2 : 1 < t.sc := by omega
    have h4 : ¬ (n = n - 1) := by omega
    simp [stepFK, consume, account, hty, hi, hl, acctResync, acctExit, h1, hget, hv, updCount, h3, h2, hn1,
      bump_getElem?, h4, hset, updOfK]
  · have h2 : ¬ (1 < t.sc) := by omega
    simp [stepFK, consume, account, hty, hi, hl, acctResync, acctExit, h1, hget, hv, updCount, h3, h2, hn1,
      hset, updOfK]

theorem isRecK_eq (ky : Keying) (stk : List Fs) (n a k : Nat) :
    isRecK ky stk n a k = recK ky (ctxOf stk n) a k := by
  unfold isRecK recK ctxOf
  rw [List.any_map]
  rfl

/-! ### call trees under a keying -/

mutual
  /-- the node updates a call tree stands for under a keying, in exit order (as the reader
      computes the times); `ctx` = addresses of the open callers -/
  def updsK (ky : Keying) (ctx : List Nat) : Call → List Upd
    | .node f t0 t1 kids =>
      let delta := sub64 t1 t0
      let ch := childTime 0 kids
      let child := if ch > delta then delta else ch
      updsLK ky (ctx ++ [f]) kids ++
        [{ key := ky.name f, total := delta, self := sub64 delta child, recursive := recK ky ctx f f }]
  def updsLK (ky : Keying) (ctx : List Nat) : Calls → List Upd
    | .nil => []
    | .cons c rest => updsK ky ctx c ++ updsLK ky ctx rest
end

/-- the reader's state when the EXIT of a call is due: its own slot holds the entry time and the
    callees' time, the slots below are those of the start -/
theorem exit_facts (f t0 : Nat) (kids : Calls) (t : Task) (n d : Nat) (hs : t.sc = n) (hl : t.lost = false)
    (hf : t.fset = true ∨ (n = 0 ∧ d = 0)) (hh : n + (kids.height + 1) ≤ t.stk.length) :
    let tE := entryTask t n { time := t0, typ := 0, depth := d, addr := f }
    let rk := (runT tE (evCalls (d + 1) kids)).1
    stepF t { time := t0, typ := 0, depth := d, addr := f } = (tE, []) ∧
    rk.stk[n]? = some { addr := f, total := t0, child := childTime 0 kids, valid := true } ∧
    rk.sc = ((n : Int) + 1) ∧ rk.lost = false ∧ rk.fset = true ∧
    (∀ k, k < n → rk.stk[k]? = t.stk[k]?) ∧ ctxOf tE.stk (n + 1) = ctxOf t.stk n ++ [f] ∧
    tE.sc = ((n + 1 : Nat) : Int) ∧ tE.lost = false ∧ tE.fset = true ∧ tE.stk.length = t.stk.length := by
  intro tE rk
  have hn : n < t.stk.length := by omega
  have hE := stepF_entry t n { time := t0, typ := 0, depth := d, addr := f } hs hl hf rfl hn
  have hEsc : tE.sc = ((n + 1 : Nat) : Int) := by simp [tE, entryTask]
  have hEl : tE.lost = false := hl
  have hEf : tE.fset = true := rfl
  have hEstk : tE.stk = t.stk.set n { addr := f, total := t0, child := 0, valid := true } := rfl
  have hElen : tE.stk.length = t.stk.length := by rw [hEstk]; simp
  obtain ⟨_, ihP⟩ := run_calls kids tE (n + 1) (d + 1) hEsc hEl (Or.inl hEf) (by rw [hElen]; omega)
  have hctx : ctxOf tE.stk (n + 1) = ctxOf t.stk n ++ [f] := by
    rw [hEstk]; exact ctxOf_set_succ _ _ _ hn
  have hslot : rk.stk[n]? = some { addr := f, total := t0, child := childTime 0 kids, valid := true } := by
    have := ihP.below n (Nat.lt_succ_self n)
    simp only [if_true] at this
    rw [this, hEstk]
    simp [hn, Fs.kidsDone]
  have hKf : rk.fset = true := by rcases ihP.fset with h | ⟨h, _⟩; exact h; omega
  have hbelow : ∀ k, k < n → rk.stk[k]? = t.stk[k]? := by
    intro k hk'
    have := ihP.below k (by omega)
    have hne : ¬ (k = n) := by omega
    have hne2 : ¬ (n = k) := by omega
    rw [this]; simp [hne, hEstk, List.getElem?_set, hne2]
  refine ⟨hE, hslot, ?_, ihP.lost, hKf, hbelow, hctx, hEsc, hEl, hEf, hElen⟩
  rw [ihP.sc]; simp

theorem ctxOf_exitStk (stk stk0 : List Fs) (n t1 : Nat) (fs : Fs)
    (hbelow : ∀ k, k < n → stk[k]? = stk0[k]?) : ctxOf (exitStk stk n t1 fs) n = ctxOf stk0 n := by
  apply ctxOf_congr
  intro k hk'
  rw [exitStk_below _ _ _ _ _ hk', hbelow k hk']
  split
  · exact map_addr_addChild _ _
  · rfl

mutual
theorem run_callK (ky : Keying) : ∀ (c : Call) (t : Task) (n d : Nat), t.sc = n → t.lost = false →
    (t.fset = true ∨ (n = 0 ∧ d = 0)) → n + c.height ≤ t.stk.length →
    (runTG (stepFK ky) t (evCall d c)).2 = updsK ky (ctxOf t.stk n) c
  | .node f t0 t1 kids, t, n, d, hs, hl, hf, hh => by
    have hh' : n + (kids.height + 1) ≤ t.stk.length := by simpa [Call.height] using hh
    obtain ⟨hE, hslot, hsc, hlost, hfset, hbelow, hctx, hEsc, hEl, hEf, hElen⟩ :=
      exit_facts f t0 kids t n d hs hl hf hh'
    generalize hte : entryTask t n { time := t0, typ := 0, depth := d, addr := f } = tE at *
    have hE1 : (stepFK ky t { time := t0, typ := 0, depth := d, addr := f }).1 = tE := by
      rw [stepFK_fst, hE]
    have hE2 : (stepFK ky t { time := t0, typ := 0, depth := d, addr := f }).2 = [] :=
      stepFK_snd_entry ky t _ rfl
    have ihU := run_callsK ky kids tE (n + 1) (d + 1) hEsc hEl (Or.inl hEf) (by rw [hElen]; omega)
    have hk1 : (runTG (stepFK ky) tE (evCalls (d + 1) kids)).1 = (runT tE (evCalls (d + 1) kids)).1 :=
      runTG_fst ky _ _
    generalize hrk : (runT tE (evCalls (d + 1) kids)).1 = rk at *
    have hX := stepFK_exit ky rk n { time := t1, typ := 1, depth := d, addr := f } _ hsc hlost hfset rfl hslot rfl
    have hc := ctxOf_exitStk rk.stk t.stk n t1
      { addr := f, total := t0, child := childTime 0 kids, valid := true } hbelow
    simp only [evCall, runTG, hE1, hE2, runTG_append, hk1, hX, List.nil_append, List.append_nil, ihU, hctx,
      updsK, exitUpdK, isRecK_eq, hc]

theorem run_callsK (ky : Keying) : ∀ (cs : Calls) (t : Task) (n d : Nat), t.sc = n → t.lost = false →
    (t.fset = true ∨ (n = 0 ∧ d = 0)) → n + cs.height ≤ t.stk.length →
    (runTG (stepFK ky) t (evCalls d cs)).2 = updsLK ky (ctxOf t.stk n) cs
  | .nil, t, n, d, _, _, _, _ => by simp [evCalls, runTG, updsLK]
  | .cons c rest, t, n, d, hs, hl, hf, hh => by
    have hh1 : n + c.height ≤ t.stk.length := by
      have : c.height ≤ (Calls.cons c rest).height := by simp [Calls.height]; exact Nat.le_max_left _ _
      omega
    have hh2 : n + rest.height ≤ t.stk.length := by
      have : rest.height ≤ (Calls.cons c rest).height := by simp [Calls.height]; exact Nat.le_max_right _ _
      omega
    have h1U := run_callK ky c t n d hs hl hf hh1
    obtain ⟨_, h1P⟩ := run_call c t n d hs hl hf hh1
    have hk1 : (runTG (stepFK ky) t (evCall d c)).1 = (runT t (evCall d c)).1 := runTG_fst ky _ _
    generalize hr1 : (runT t (evCall d c)).1 = r1 at *
    have hctx : ctxOf r1.stk n = ctxOf t.stk n := by
      apply ctxOf_congr
      intro k hk'
      rw [h1P.below k hk']
      split
      · exact map_addr_addChild _ _
      · rfl
    have h2U := run_callsK ky rest r1 n d h1P.sc h1P.lost h1P.fset (by rw [h1P.len]; exact hh2)
    simp only [evCalls, runTG_append, hk1, h1U, h2U, hctx, updsLK]
end

/-! ### the whole data set under a per-task step -/

theorem runG_cons (stp : Nat → Task → Rec → Task × List Upd) (s : St) (e : Nat × Rec) (evs : List (Nat × Rec)) :
    runG stp s (e :: evs) = runG stp (stepG stp s e) evs := rfl

theorem runG_tasks (stp : Nat → Task → Rec → Task × List Upd) (evs : List (Nat × Rec)) : ∀ (s : St) (i : Nat),
    (runG stp s evs).tasks i = (runTG (stp i) (s.tasks i) (proj i evs)).1 := by
  induction evs with
  | nil => intro s i; rfl
  | cons e evs ih =>
    intro s i
    rw [runG_cons, ih]
    by_cases h : i = e.1
    · subst h; rw [proj_cons_eq]; simp [stepG, runTG]
    · rw [proj_cons_ne i e evs h]; simp [stepG, h]

/-- the updates of a whole run, task by task -/
def blocksG (stp : Nat → Task → Rec → Task × List Upd) (n : Nat) (tasks : Nat → Task)
    (evs : List (Nat × Rec)) : List Upd :=
  (List.range n).flatMap (fun i => (runTG (stp i) (tasks i) (proj i evs)).2)

theorem runG_nodes (stp : Nat → Task → Rec → Task × List Upd) (n : Nat) (evs : List (Nat × Rec)) :
    ∀ (s : St), (∀ e ∈ evs, e.1 < n) →
    ∃ us, (runG stp s evs).nodes = s.nodes.upds us ∧ us.Perm (blocksG stp n s.tasks evs) := by
  induction evs with
  | nil =>
    intro s _
    refine ⟨[], rfl, ?_⟩
    have : blocksG stp n s.tasks [] = [] := by
      unfold blocksG
      induction (List.range n) with
      | nil => rfl
      | cons a l ih => simp [List.flatMap_cons, proj, runTG, ih]
    rw [this]
  | cons e evs ih =>
    intro s hlt
    obtain ⟨us', h1, h2⟩ := ih (stepG stp s e) (fun x hx => hlt x (List.mem_cons_of_mem _ hx))
    refine ⟨(stp e.1 (s.tasks e.1) e.2).2 ++ us', ?_, ?_⟩
    · rw [runG_cons, h1, Nodes.upds_append]; rfl
    · have he : e.1 < n := hlt e List.mem_cons_self
      have hb : blocksG stp n s.tasks (e :: evs) =
          (List.range n).flatMap (fun i => if i = e.1 then (stp e.1 (s.tasks e.1) e.2).2 ++
            (runTG (stp i) ((stepG stp s e).tasks i) (proj i evs)).2
              else (runTG (stp i) ((stepG stp s e).tasks i) (proj i evs)).2) := by
        unfold blocksG
        apply flatMap_eq_of_forall
        intro i _
        by_cases h : i = e.1
        · subst h; rw [proj_cons_eq]; simp [stepG, runTG]
        · rw [proj_cons_ne i e evs h]; simp [stepG, h]
      rw [hb]
      refine List.Perm.trans ?_ (flatMap_insert _ e.1 _ _ (List.mem_range.mpr he) List.nodup_range).symm
      exact List.Perm.append_left _ h2

/-- what the reader's arithmetic makes of the forests under a keying -/
def allUpdsK (ky : Keying) (forests : List Calls) : List Upd := forests.flatMap (updsLK ky [])

theorem runTG_forest (ky : Keying) (m : Nat) (cs : Calls) (h : cs.height ≤ m) :
    (runTG (stepFK ky) (Task.init m) (evCalls 0 cs)).2 = updsLK ky [] cs ∧
    (runTG (stepFK ky) (Task.init m) (evCalls 0 cs)).1.sc = 0 := by
  have := run_callsK ky cs (Task.init m) 0 0 rfl rfl (Or.inr ⟨rfl, rfl⟩) (by simp [Task.init]; exact h)
  refine ⟨?_, ?_⟩
  · rw [this]; simp [ctxOf]
  · rw [runTG_fst]; exact (runT_forest m cs h).2

theorem finishFK_nil (ky : Keying) (t : Task) (h : t.sc = 0) : finishFK ky t = [] := by simp [finishFK, h]

/-- the name-keyed function report over complete forests -/
theorem report_forestsK (ky : Keying) (m : Nat) (forests : List Calls) (hfit : ∀ cs ∈ forests, cs.height ≤ m) :
    reportNodesK ky m (streamsOf forests) = Nodes.upds (fun _ => {}) (allUpdsK ky forests) := by
  obtain ⟨hproj, hlt⟩ := mergeAll_proj (streamsOf forests)
  have hlen : (streamsOf forests).length = forests.length := by simp [streamsOf]
  obtain ⟨us, hn, hp⟩ := runG_nodes (fun _ => stepFK ky) (streamsOf forests).length
    (mergeAll (streamsOf forests)) (St.init m) hlt
  have htask : ∀ i, (runG (fun _ => stepFK ky) (St.init m) (mergeAll (streamsOf forests))).tasks i =
      (runTG (stepFK ky) (Task.init m) (evCalls 0 (forests.getD i .nil))).1 := by
    intro i
    rw [runG_tasks, hproj i, getD_streamsOf]; rfl
  have hfin : ∀ i, finishFK ky ((runG (fun _ => stepFK ky) (St.init m) (mergeAll (streamsOf forests))).tasks i) = [] := by
    intro i
    rw [htask i]
    exact finishFK_nil ky _ (runTG_forest ky m _ (height_getD forests m hfit i)).2
  have hblocks : blocksG (fun _ => stepFK ky) (streamsOf forests).length (St.init m).tasks
      (mergeAll (streamsOf forests)) = allUpdsK ky forests := by
    unfold blocksG allUpdsK
    rw [hlen, ← flatMap_range_getD forests .nil (updsLK ky [])]
    apply flatMap_eq_of_forall
    intro i _
    rw [hproj i, getD_streamsOf]
    exact (runTG_forest ky m _ (height_getD forests m hfit i)).1
  unfold reportNodesK finishG
  rw [foldl_upds_nil _ _ _ hfin, hn, Nodes.upds_perm _ (hblocks ▸ hp)]
  rfl

/-! ### rows as the property defines them: a row is a NAME -/

mutual
  /-- the invocations of a call tree under a keying, with exact durations -/
  def invsK (ky : Keying) (ctx : List Nat) : Call → List Upd
    | .node f t0 t1 kids =>
      invsLK ky (ctx ++ [f]) kids ++
        [{ key := ky.name f, total := t1 - t0, self := (t1 - t0) - durSum kids, recursive := recK ky ctx f f }]
  def invsLK (ky : Keying) (ctx : List Nat) : Calls → List Upd
    | .nil => []
    | .cons c rest => invsK ky ctx c ++ invsLK ky ctx rest
end

mutual
  /-- the invocations of a call tree as the rows of the report see them: the row is the function's
      NAME (`name f`), the duration (`total`), the duration minus the callees' durations (`self`),
      and `recursive` = an open caller (`ctx`) belongs to the same row, i.e. has the same name -/
  def invsN (name : Nat → Nat) (ctx : List Nat) : Call → List Upd
    | .node f t0 t1 kids =>
      invsLN name (ctx ++ [f]) kids ++
        [{ key := name f, total := t1 - t0, self := (t1 - t0) - durSum kids,
           recursive := ctx.any (fun c => name c == name f) }]
  def invsLN (name : Nat → Nat) (ctx : List Nat) : Calls → List Upd
    | .nil => []
    | .cons c rest => invsN name ctx c ++ invsLN name ctx rest
end

def allInvsK (ky : Keying) (forests : List Calls) : List Upd := forests.flatMap (invsLK ky [])

/-- the invocations of the data set, row by row -/
def allInvsN (name : Nat → Nat) (forests : List Calls) : List Upd := forests.flatMap (invsLN name [])

mutual
theorem updsK_eq (ky : Keying) : ∀ (c : Call) (ctx : List Nat), wt c → updsK ky ctx c = invsK ky ctx c
  | .node f t0 t1 kids, ctx, h => by
    simp only [wt] at h
    obtain ⟨h1, h2, h3, h4⟩ := h
    have hd : sub64 t1 t0 = t1 - t0 := sub64_eq _ _ h1 h2
    have hc : childTime 0 kids = durSum kids := by
      rw [childTime_eq kids 0 h4 (by omega)]; omega
    have hcl : ¬ (durSum kids > t1 - t0) := by omega
    simp only [updsK, invsK, hd, hc, hcl, if_false, updsLK_eq ky kids _ h4]
    rw [sub64_eq _ _ h3 (by omega)]
theorem updsLK_eq (ky : Keying) : ∀ (cs : Calls) (ctx : List Nat), wtL cs → updsLK ky ctx cs = invsLK ky ctx cs
  | .nil, _, _ => rfl
  | .cons c rest, ctx, h => by
    simp only [wtL] at h
    simp only [updsLK, invsLK, updsK_eq ky c ctx h.1, updsLK_eq ky rest ctx h.2]
end

mutual
theorem updsK_tags (ky : Keying) : ∀ (c : Call) (ctx : List Nat),
    (updsK ky ctx c).map Upd.tag = (invsK ky ctx c).map Upd.tag
  | .node f t0 t1 kids, ctx => by
    simp only [updsK, invsK, List.map_append, updsLK_tags ky kids, List.map_cons, List.map_nil, Upd.tag]
theorem updsLK_tags (ky : Keying) : ∀ (cs : Calls) (ctx : List Nat),
    (updsLK ky ctx cs).map Upd.tag = (invsLK ky ctx cs).map Upd.tag
  | .nil, _ => rfl
  | .cons c rest, ctx => by
    simp only [updsLK, invsLK, List.map_append, updsK_tags ky c, updsLK_tags ky rest]
end

theorem allUpdsK_eq (ky : Keying) (forests : List Calls) (hwt : ∀ cs ∈ forests, wtL cs) :
    allUpdsK ky forests = allInvsK ky forests := by
  unfold allUpdsK allInvsK
  exact flatMap_eq_of_forall _ _ _ (fun cs h => updsLK_eq ky cs [] (hwt cs h))

theorem allUpdsK_tags (ky : Keying) (forests : List Calls) :
    (allUpdsK ky forests).map Upd.tag = (allInvsK ky forests).map Upd.tag := by
  unfold allUpdsK allInvsK
  rw [List.map_flatMap, List.map_flatMap]
  exact flatMap_eq_of_forall _ _ _ (fun cs _ => updsLK_tags ky cs [])

/-- row, duration, self time of an invocation (everything but the recursion flag) -/
def Upd.fig (u : Upd) : Nat × Nat × Nat := (u.key, u.total, u.self)

mutual
theorem invsK_figs (ky : Keying) : ∀ (c : Call) (ctx : List Nat),
    (invsK ky ctx c).map Upd.fig = (invsN ky.name ctx c).map Upd.fig
  | .node f t0 t1 kids, ctx => by
    simp only [invsK, invsN, List.map_append, invsLK_figs ky kids, List.map_cons, List.map_nil, Upd.fig]
theorem invsLK_figs (ky : Keying) : ∀ (cs : Calls) (ctx : List Nat),
    (invsLK ky ctx cs).map Upd.fig = (invsLN ky.name ctx cs).map Upd.fig
  | .nil, _ => rfl
  | .cons c rest, ctx => by
    simp only [invsLK, invsLN, List.map_append, invsK_figs ky c, invsLK_figs ky rest]
end

theorem allInvsK_figs (ky : Keying) (forests : List Calls) :
    (allInvsK ky forests).map Upd.fig = (allInvsN ky.name forests).map Upd.fig := by
  unfold allInvsK allInvsN
  rw [List.map_flatMap, List.map_flatMap]
  exact flatMap_eq_of_forall _ _ _ (fun cs _ => invsLK_figs ky cs [])

mutual
/-- a row collects the invocations of every address of that name: same durations and self times
    as the address-level invocations `invs`, keyed by the name -/
theorem invsN_figs (name : Nat → Nat) : ∀ (c : Call) (ctx : List Nat),
    (invsN name ctx c).map Upd.fig = (invs ctx c).map (fun u => (name u.key, u.total, u.self))
  | .node f t0 t1 kids, ctx => by
    simp only [invsN, invs, List.map_append, invsLN_figs name kids, List.map_cons, List.map_nil, Upd.fig]
theorem invsLN_figs (name : Nat → Nat) : ∀ (cs : Calls) (ctx : List Nat),
    (invsLN name ctx cs).map Upd.fig = (invsL ctx cs).map (fun u => (name u.key, u.total, u.self))
  | .nil, _ => rfl
  | .cons c rest, ctx => by
    simp only [invsLN, invsL, List.map_append, invsN_figs name c, invsLN_figs name rest]
end

theorem allInvsN_figs (name : Nat → Nat) (forests : List Calls) :
    (allInvsN name forests).map Upd.fig = (allInvs forests).map (fun u => (name u.key, u.total, u.self)) := by
  unfold allInvsN allInvs
  rw [List.map_flatMap, List.map_flatMap]
  exact flatMap_eq_of_forall _ _ _ (fun cs _ => invsLN_figs name cs [])

/-- lists with the same figures have the same per-row counts and self sums -/
theorem forKey_of_figs (k : Nat) : ∀ (us vs : List Upd), us.map Upd.fig = vs.map Upd.fig →
    (forKey k us).length = (forKey k vs).length ∧
    ((forKey k us).map (·.self)) = ((forKey k vs).map (·.self)) ∧
    ((forKey k us).map (·.total)) = ((forKey k vs).map (·.total))
  | [], [], _ => ⟨rfl, rfl, rfl⟩
  | [], _ :: _, h => by simp at h
  | _ :: _, [], h => by simp at h
  | u :: us, v :: vs, h => by
    simp only [List.map_cons, List.cons.injEq, Upd.fig, Prod.mk.injEq] at h
    obtain ⟨⟨hk, ht, hs⟩, hr⟩ := h
    obtain ⟨i1, i2, i3⟩ := forKey_of_figs k us vs hr
    simp only [forKey, List.filter_cons, hk]
    simp only [forKey] at i1 i2 i3
    split <;> simp [i1, i2, i3, ht, hs]

/-- … and the same figures as a list keyed through `name` -/
theorem forKey_of_named (name : Nat → Nat) (k : Nat) : ∀ (us vs : List Upd),
    us.map Upd.fig = vs.map (fun u => (name u.key, u.total, u.self)) →
    (forKey k us).map (fun u => (u.total, u.self)) =
      (vs.filter (fun u => name u.key == k)).map (fun u => (u.total, u.self))
  | [], [], _ => rfl
  | [], _ :: _, h => by simp at h
  | _ :: _, [], h => by simp at h
  | u :: us, v :: vs, h => by
    simp only [List.map_cons, List.cons.injEq, Upd.fig, Prod.mk.injEq] at h
    obtain ⟨⟨hk, ht, hs⟩, hr⟩ := h
    have ih := forKey_of_named name k us vs hr
    simp only [forKey, List.filter_cons, hk]
    simp only [forKey] at ih
    split <;> simp [ih, ht, hs]

/-! ### the repaired recursion test is the test on names -/

/-- the symbol table is sane: two different addresses share a name only if both lie in symbols
    (the name of an address without symbol is the text of the address itself) -/
def Keying.WF (ky : Keying) : Prop :=
  ∀ a b, ky.name a = ky.name b → a = b ∨ (ky.sym a = true ∧ ky.sym b = true)

theorem any_congr_mem {α : Type} (l : List α) (p q : α → Bool) (h : ∀ c ∈ l, p c = q c) : l.any p = l.any q := by
  induction l with
  | nil => rfl
  | cons a l ih =>
    simp only [List.any_cons, h a List.mem_cons_self, ih (fun c hc => h c (List.mem_cons_of_mem _ hc))]

theorem recK_byName (ky : Keying) (hb : ky.byName = true) (hw : ky.WF) (ctx : List Nat) (f : Nat) :
    recK ky ctx f f = ctx.any (fun c => ky.name c == ky.name f) := by
  unfold recK
  apply any_congr_mem
  intro c _
  by_cases hn : ky.name c = ky.name f
  · rcases hw c f hn with e | ⟨h1, h2⟩
    · simp [e]
    · simp [hb, h1, h2, hn]
  · have hne : ¬ c = f := fun e => hn (by rw [e])
    have h1 : (c == f) = false := by simp [hne]
    have h2 : (ky.name c == ky.name f) = false := by simp [hn]
    simp only [h1, h2, Bool.and_false, Bool.or_false]

mutual
theorem invsK_eq_invsN (ky : Keying) (hb : ky.byName = true) (hw : ky.WF) : ∀ (c : Call) (ctx : List Nat),
    invsK ky ctx c = invsN ky.name ctx c
  | .node f t0 t1 kids, ctx => by
    simp only [invsK, invsN, invsLK_eq_invsLN ky hb hw kids, recK_byName ky hb hw]
theorem invsLK_eq_invsLN (ky : Keying) (hb : ky.byName = true) (hw : ky.WF) : ∀ (cs : Calls) (ctx : List Nat),
    invsLK ky ctx cs = invsLN ky.name ctx cs
  | .nil, _ => rfl
  | .cons c rest, ctx => by
    simp only [invsLK, invsLN, invsK_eq_invsN ky hb hw c, invsLK_eq_invsLN ky hb hw rest]
end

theorem allInvsK_eq_allInvsN (ky : Keying) (hb : ky.byName = true) (hw : ky.WF) (forests : List Calls) :
    allInvsK ky forests = allInvsN ky.name forests := by
  unfold allInvsK allInvsN
  exact flatMap_eq_of_forall _ _ _ (fun cs _ => invsLK_eq_invsLN ky hb hw cs [])

/-! ### the outermost invocations of a row do not overlap: Total ≤ the top-level durations -/

/-- summed duration of the non-recursive invocations of row `k` -/
def nonrecSum (k : Nat) (us : List Upd) : Nat :=
  (((forKey k us).filter (fun u => !u.recursive)).map (·.total)).sum

theorem nonrecSum_append (k : Nat) (a b : List Upd) : nonrecSum k (a ++ b) = nonrecSum k a + nonrecSum k b := by
  simp [nonrecSum, forKey, List.filter_append]

theorem nonrecSum_nil (k : Nat) : nonrecSum k [] = 0 := rfl

theorem nonrecSum_single (k : Nat) (u : Upd) :
    nonrecSum k [u] = if u.key = k ∧ u.recursive = false then u.total else 0 := by
  by_cases hk : u.key = k <;> cases hr : u.recursive <;> simp [nonrecSum, forKey, hk, hr]

mutual
theorem nonrec_zero (name : Nat → Nat) (k : Nat) : ∀ (c : Call) (ctx : List Nat), (∃ a ∈ ctx, name a = k) →
    nonrecSum k (invsN name ctx c) = 0
  | .node f t0 t1 kids, ctx, h => by
    obtain ⟨a, ha, hk⟩ := h
    have h' : ∃ a ∈ ctx ++ [f], name a = k := ⟨a, List.mem_append_left _ ha, hk⟩
    rw [invsN, nonrecSum_append, nonrecs_zero name k kids _ h']
    rw [nonrecSum_single]
    by_cases hf : name f = k
    · have : ctx.any (fun c => name c == name f) = true := by
        apply List.any_eq_true.mpr
        exact ⟨a, ha, by simp [hk, hf]⟩
      simp [this]
    · simp [hf]
theorem nonrecs_zero (name : Nat → Nat) (k : Nat) : ∀ (cs : Calls) (ctx : List Nat), (∃ a ∈ ctx, name a = k) →
    nonrecSum k (invsLN name ctx cs) = 0
  | .nil, _, _ => rfl
  | .cons c rest, ctx, h => by
    rw [invsLN, nonrecSum_append, nonrec_zero name k c ctx h, nonrecs_zero name k rest ctx h]
end

mutual
theorem nonrec_le_call (name : Nat → Nat) (k : Nat) : ∀ (c : Call) (ctx : List Nat), wt c →
    nonrecSum k (invsN name ctx c) ≤ durI c
  | .node f t0 t1 kids, ctx, h => by
    simp only [wt] at h
    obtain ⟨_, _, h3, h4⟩ := h
    rw [invsN, nonrecSum_append, nonrecSum_single]
    simp only [durI]
    by_cases hf : name f = k
    · have hz := nonrecs_zero name k kids (ctx ++ [f]) ⟨f, by simp, hf⟩
      rw [hz]
      split <;> omega
    · have hle := nonrec_le_calls name k kids (ctx ++ [f]) h4
      simp only [hf, false_and, if_false]; omega
theorem nonrec_le_calls (name : Nat → Nat) (k : Nat) : ∀ (cs : Calls) (ctx : List Nat), wtL cs →
    nonrecSum k (invsLN name ctx cs) ≤ durSum cs
  | .nil, _, _ => by simp [invsLN, nonrecSum_nil]
  | .cons c rest, ctx, h => by
    simp only [wtL] at h
    rw [invsLN, nonrecSum_append]
    have h1 := nonrec_le_call name k c ctx h.1
    have h2 := nonrec_le_calls name k rest ctx h.2
    simp only [durSum]; omega
end

theorem nonrec_le_forests (name : Nat → Nat) (k : Nat) : ∀ (forests : List Calls), (∀ cs ∈ forests, wtL cs) →
    nonrecSum k (allInvsN name forests) ≤ (forests.map durSum).sum
  | [], _ => by simp [allInvsN, nonrecSum_nil]
  | cs :: rest, h => by
    have h1 := nonrec_le_calls name k cs [] (h cs List.mem_cons_self)
    have h2 := nonrec_le_forests name k rest (fun x hx => h x (List.mem_cons_of_mem _ hx))
    unfold allInvsN at h2 ⊢
    simp only [List.flatMap_cons, nonrecSum_append, List.map_cons, List.sum_cons]
    omega

mutual
theorem invsN_lt (name : Nat → Nat) : ∀ (c : Call) (ctx : List Nat), wt c →
    ∀ u ∈ invsN name ctx c, u.total < M64 ∧ u.self < M64
  | .node f t0 t1 kids, ctx, h => by
    simp only [wt] at h
    intro u hu
    simp only [invsN, List.mem_append, List.mem_singleton] at hu
    rcases hu with hu | hu
    · exact invsLN_lt name kids _ h.2.2.2 u hu
    · subst hu; simp only; omega
theorem invsLN_lt (name : Nat → Nat) : ∀ (cs : Calls) (ctx : List Nat), wtL cs →
    ∀ u ∈ invsLN name ctx cs, u.total < M64 ∧ u.self < M64
  | .nil, _, _ => by intro u hu; simp [invsLN] at hu
  | .cons c rest, ctx, h => by
    simp only [wtL] at h
    intro u hu
    simp only [invsLN, List.mem_append] at hu
    rcases hu with hu | hu
    · exact invsN_lt name c ctx h.1 u hu
    · exact invsLN_lt name rest ctx h.2 u hu
end

mutual
theorem invsN_self_sum (name : Nat → Nat) : ∀ (c : Call) (ctx : List Nat), wt c →
    ((invsN name ctx c).map (·.self)).sum = durI c
  | .node f t0 t1 kids, ctx, h => by
    simp only [wt] at h
    simp only [invsN, List.map_append, List.sum_append, invsLN_self_sum name kids _ h.2.2.2, durI,
      List.map_cons, List.map_nil, List.sum_cons, List.sum_nil]
    omega
theorem invsLN_self_sum (name : Nat → Nat) : ∀ (cs : Calls) (ctx : List Nat), wtL cs →
    ((invsLN name ctx cs).map (·.self)).sum = durSum cs
  | .nil, _, _ => rfl
  | .cons c rest, ctx, h => by
    simp only [wtL] at h
    simp only [invsLN, List.map_append, List.sum_append, invsN_self_sum name c ctx h.1,
      invsLN_self_sum name rest ctx h.2, durSum]
end

/-! ### the task report's sort -/

theorem zero_isCmp : IsCmp (fun _ _ => (0 : Int)) := by
  refine ⟨?_, ?_, ?_, ?_, ?_⟩ <;> intros <;> simp at *

theorem taskCmpT_isCmp (s : String) (c : Row → Row → Int) (h : taskCmpT true s = some c) : IsCmp c := by
  unfold taskCmpT at h
  split at h
  · cases h; exact cmpNat_isCmp (·.tsum)
  · cases h; exact cmpNat_isCmp (·.ssum)
  · cases h; exact cmpNat_isCmp (·.call)
  · cases h; simp only [if_true]; exact cmpNat_rev_isCmp (·.key)
  · cases h; exact zero_isCmp
  · cases h

theorem sortTaskRows_spec (names : List String) (rows out : List Row)
    (h : sortTaskRows true names rows = some out) :
    out.Perm rows ∧
    Desc (cmpChain ((names.map (taskCmpT true)).filterMap id)) out := by
  unfold sortTaskRows at h
  simp only at h
  split at h
  · cases h
  · cases h
    apply sortRows_spec
    apply cmpChain_isCmp
    intro c hc
    obtain ⟨o, ho, hoc⟩ := List.mem_filterMap.mp hc
    obtain ⟨s, _, hs⟩ := List.mem_map.mp ho
    simp only [id] at hoc
    subst hoc
    exact taskCmpT_isCmp s c hs

/-! ### `--diff-policy percent` of a table against itself -/

theorem pcntOf_self (v : Nat) : (pcntOf (diff64 v v) v).1 = 0 := by
  unfold pcntOf
  rw [diff64_self]
  split <;> simp

/-! ### a 1-1 symbol table: the keyed report is the plain one -/

/-- every address is its own name, recursion is tested by address (the code as found) -/
def Keying.plain (sym : Nat → Bool) : Keying := { name := id, sym := sym, byName := false }

theorem updOfK_plain (sym : Nat → Bool) (stk : List Fs) (i : Nat) (fs : Fs) (k : Nat) :
    updOfK (Keying.plain sym) stk i fs k = updOf stk i fs k := by
  simp [updOfK, updOf, isRecK, isRec, Keying.plain]

theorem lostUpdsK_plain (sym : Nat → Bool) (stk : List Fs) : ∀ (n : Nat) (i : Int),
    lostUpdsK (Keying.plain sym) stk n i = lostUpds stk n i
  | 0, _ => rfl
  | n + 1, i => by
    simp only [lostUpdsK, lostUpds]
    cases slot? stk i with
    | none => exact lostUpdsK_plain sym stk n _
    | some fs => simp only [updOfK_plain, lostUpdsK_plain sym stk n]

theorem remLoopK_plain (sym : Nat → Bool) (last : Nat) : ∀ (n : Nat) (stk : List Fs),
    remLoopK (Keying.plain sym) last n stk = remLoop last none n stk
  | 0, _ => rfl
  | n + 1, stk => by
    simp only [remLoopK, remLoop]
    cases stk[n]? with
    | none => exact remLoopK_plain sym last n stk
    | some fs =>
      simp only [updOfK_plain, Option.isSome_none, Bool.false_and, Bool.false_eq_true, if_false, Option.getD_none]
      split
      · exact remLoopK_plain sym last n stk
      · simp only [remLoopK_plain sym last n]

theorem stepFK_plain (sym : Nat → Bool) (t : Task) (r : Rec) : stepFK (Keying.plain sym) t r = stepF t r := by
  simp only [stepFK, stepF, updOfK_plain, lostUpdsK_plain]
  by_cases h1 : r.typ = 1
  · simp only [h1, if_true]
    cases slot? (consume t r).stk (consume t r).sc <;> rfl
  · simp only [h1, if_false]

theorem finishFK_plain (sym : Nat → Bool) (t : Task) : finishFK (Keying.plain sym) t = finishF t := by
  simp only [finishFK, finishF, remLoopK_plain]

theorem runG_plain (sym : Nat → Bool) (evs : List (Nat × Rec)) : ∀ (s : St),
    runG (fun _ => stepFK (Keying.plain sym)) s evs = run false s evs := by
  induction evs with
  | nil => intro s; rfl
  | cons e evs ih =>
    intro s
    have : stepG (fun _ => stepFK (Keying.plain sym)) s e = step false s e := by
      simp [stepG, step, stepFK_plain]
    show runG _ (stepG _ s e) evs = run false (step false s e) evs
    rw [this, ih]

theorem reportNodesK_plain (sym : Nat → Bool) (m : Nat) (streams : List (List Rec)) :
    reportNodesK (Keying.plain sym) m streams = reportNodes false m streams := by
  unfold reportNodesK reportNodes finishG finish
  simp only [runG_plain, finishFK_plain, Bool.false_eq_true, if_false]

mutual
/-- names that are the addresses themselves: the keyed tree updates are the plain ones, with
    either recursion test -/
theorem updsK_id (ky : Keying) (hid : ∀ a, ky.name a = a) : ∀ (c : Call) (ctx : List Nat),
    updsK ky ctx c = upds ctx c
  | .node f t0 t1 kids, ctx => by
    have hr : recK ky ctx f f = ctx.any (· == f) := by
      unfold recK
      apply any_congr_mem
      intro c _
      by_cases h : c = f <;> simp [h, hid]
    simp only [updsK, upds, updsLK_id ky hid kids, hr, hid]
theorem updsLK_id (ky : Keying) (hid : ∀ a, ky.name a = a) : ∀ (cs : Calls) (ctx : List Nat),
    updsLK ky ctx cs = updsL ctx cs
  | .nil, _ => rfl
  | .cons c rest, ctx => by
    simp only [updsLK, updsL, updsK_id ky hid c, updsLK_id ky hid rest]
end

theorem allUpdsK_id (ky : Keying) (hid : ∀ a, ky.name a = a) (forests : List Calls) :
    allUpdsK ky forests = allUpds forests := by
  unfold allUpdsK allUpds
  exact flatMap_eq_of_forall _ _ _ (fun cs _ => updsLK_id ky hid cs [])

end Uft.Report
