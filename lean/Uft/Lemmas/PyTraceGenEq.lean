/-
C19 — the definitions generated from python/trace-python.c by translators/c2lean.py
(`Uft.Gen.PyTraceC.can_trace`, `match_filter`, …) compute what the hand-written model
`Uft/Model/PyTrace.lean` computes.

Mapping: `filter_state.count_in/count_out`, `libcall_count` are the model's `St.cin/cout/lib` (all `Int` on both
sides); `libcall_mode` encodes `Cfg.lmode`; `sym->flag & UFT_PYSYM_F_LIBCALL` is `Cfg.isLib name`.
What the model abstracts (names are an arbitrary type, pattern matching is a predicate per filter) enters as
hypotheses on the encoding, never as an assumption about the control flow.
-/
import Uft.Model.PyTrace
import Uft.Gen.PyTraceC
import Uft.Lemmas.CommonGenEq
namespace Uft.PyTraceGenEq
open Uft.PyTrace Uft.Gen.C Uft.GenEq
open Uft.Gen.PyTraceC (Oracles can_trace match_filter apply_filters match_filter__elem__sym_name Elem_uftrace_python_filter)
/-- the generated field structure (the model's own state record is `Uft.PyTrace.St`) -/
abbrev GSt := Uft.Gen.PyTraceC.St

/-- `libcall_mode` holds the model's `lmode`: the two values `can_trace` tests for (UFT_PY_LIBCALL_NONE = 0,
    UFT_PY_LIBCALL_NESTED = 2, as they appear in the generated file); every other value is the single mode -/
structure LibEnc (m : LibMode) (code : Nat) : Prop where
  none : (code == 0) = (m == .none)
  nested : (code == 2) = (m == .nested)

/-- **can_trace.**  For every configuration, name, counter value and direction: the generated `can_trace` returns
    the model's `canTrace`, leaves `libAfter` in `libcall_count`, and changes nothing else. -/
theorem can_trace_eq {α : Type} (c : Cfg α) (n : α) (o : Oracles) (isEntry : Bool) (sym : Ptr) (s : GSt)
    (hflag : ((s.sym_flag &&& 1) == 0) = !c.isLib n) (hmode : LibEnc c.lmode s.libcall_mode) :
    can_trace o isEntry sym s =
      ({ s with libcall_count := libAfter c s.libcall_count isEntry n }, canTrace c s.libcall_count isEntry n) := by
  obtain ⟨m0, m2⟩ := hmode
  unfold can_trace libAfter canTrace
  simp only [Id.run, pure, hflag, m0, m2]
  cases hl : c.isLib n <;> cases hm : c.lmode <;> cases isEntry <;> simp <;> (try split) <;>
    (try split) <;> simp_all <;> omega

/-- `match_filter` changes no memory; its value is the outcome of the comparison selected by `filter->p.type`
    (PATT_SIMPLE = 1: strcmp, PATT_REGEX = 2: regexec, PATT_GLOB = 3: fnmatch; anything else: no match).  The model
    takes this value as the predicate `Filter.hit`. -/
theorem match_filter_eq (o : Oracles) (filter fname : Ptr) (s : GSt) :
    match_filter o filter fname s =
      (s, if s.filter_p_type = 1 then o.strcmp "match_filter:1" s.filter_p_patt fname == 0
          else if s.filter_p_type = 2 then
            o.regexec "match_filter:2" (Ptr.fld (Ptr.fld filter "p") "re") fname 0 Ptr.null 0 == 0
          else if s.filter_p_type = 3 then o.fnmatch "match_filter:3" s.filter_p_patt fname 0 == 0
          else false) := by
  unfold match_filter
  simp only [Id.run, pure]
  split <;> (try split) <;> (try split) <;> simp_all <;> rfl


/-! ### apply_filters: the `list_for_each_entry … break` loop is the model's `firstMatch`

The generated loop is `for filter_e in s0.filters_elems do …` with the mutable tuple
(count_in, count_out, cursor, broke-out flag).  `forIn_first` is the induction over the list, stated for any loop
body that skips an element whose filter does not match and stops at the first one that does; the concrete body is
supplied by unification and only has to be shown to have that shape (no induction there). -/

abbrev Elem := Elem_uftrace_python_filter
abbrev LSt := Int × Int × Option Elem × Bool

/-- two lists related element by element -/
inductive All₂ {α β : Type} (R : α → β → Prop) : List α → List β → Prop
  | nil : All₂ R [] []
  | cons {a b as bs} : R a b → All₂ R as bs → All₂ R (a :: as) (b :: bs)

/-- the first filter that matches, with its list element -/
def firstHit {α : Type} (n : α) : List (Filter α) → List Elem → Option (Filter α × Elem)
  | f :: fs, e :: es => if f.hit n then some (f, e) else firstHit n fs es
  | _, _ => none

/-- the last element visited when nothing matches -/
def lastOr (x : Option Elem) : List Elem → Option Elem
  | [] => x
  | e :: es => lastOr (some e) es

theorem forIn_first {α : Type} (n : α) (R : Filter α → Elem → Prop)
    (body : Elem → LSt → Id (ForInStep LSt)) (upd : Filter α → Elem → Int × Int → Int × Int)
    (hskip : ∀ f e st, R f e → f.hit n = false → body e st = ForInStep.yield (st.1, st.2.1, some e, st.2.2.2))
    (hhit : ∀ f e st, R f e → f.hit n = true →
      body e st = ForInStep.done ((upd f e (st.1, st.2.1)).1, (upd f e (st.1, st.2.1)).2, some e, true)) :
    ∀ fl es, All₂ R fl es → ∀ st : LSt,
      forIn (m := Id) es st body =
        match firstHit n fl es with
        | none => (st.1, st.2.1, lastOr st.2.2.1 es, st.2.2.2)
        | some (f, e) => ((upd f e (st.1, st.2.1)).1, (upd f e (st.1, st.2.1)).2, some e, true) := by
  intro fl es h
  induction h with
  | nil => intro st; simp [firstHit, lastOr]; rfl
  | @cons f e fs es hr _ ih =>
    intro st
    rw [List.forIn_cons]
    cases hh : f.hit n
    · rw [hskip f e st hr hh]
      simp only [firstHit, hh, lastOr]
      exact ih _
    · rw [hhit f e st hr hh]
      simp [firstHit, hh]
      rfl


theorem firstHit_spec {α : Type} (n : α) (R : Filter α → Elem → Prop) :
    ∀ fl es, All₂ R fl es →
      firstMatch fl n = (firstHit n fl es).map (fun p => p.1.mode) ∧
      ∀ f e, firstHit n fl es = some (f, e) → R f e := by
  intro fl es h
  induction h with
  | nil => simp [firstMatch, firstHit]
  | @cons f e fs es hr _ ih =>
    cases hh : f.hit n
    · simp only [firstMatch, firstHit, hh]; simpa using ih
    · simp [firstMatch, firstHit, hh]; exact hr

structure ElemRel {α : Type} (o : Oracles) (n : α) (sname : Ptr) (f : Filter α) (e : Elem) : Prop where
  modeIn : (e.mode == 1) = (f.mode == .fin)
  modeOut : (e.mode == 2) = (f.mode == .fout)
  hit : ∀ st, (match_filter__elem__sym_name o e.self e sname st).2 = f.hit n

structure GEnc (g : GMode) (code : Nat) : Prop where
  fin : (code == 1) = (g == .fin)
  fout : (code == 2) = (g == .fout)

def isEntryOf (o : Oracles) (event : Ptr) : Bool :=
  (o.strcmp "apply_filters:1" event (Ptr.str "call") == 0) || (o.strcmp "apply_filters:2" event (Ptr.str "c_call") == 0)

/-- **apply_filters.**  For every configuration (filter list in option order, each filter a match predicate and a
    mode), name, event and counter values: the generated `apply_filters` leaves the model's `cinAfter` / `coutAfter`
    in `filter_state.count_in` / `count_out`, changes nothing else, and returns the model's `skipDecision` with
    `fixed = true` (the code has the repair of finding F2).  Hypotheses: the list `filters` holds, element by
    element, the model's filters (`ElemRel`: mode, and match_filter on the element is the filter's predicate);
    `filter_state.mode` encodes `Cfg.gmode`. -/
theorem apply_filters_eq {α : Type} (c : Cfg α) (n : α) (o : Oracles) (event sym : Ptr) (isPy : Bool) (s : GSt)
    (hel : All₂ (ElemRel o n s.sym_name) c.flist s.filters_elems) (hmode : GEnc c.gmode s.filter_state_mode) :
    apply_filters o event sym isPy s =
      ({ s with filter_state_count_in := cinAfter (firstMatch c.flist n) s.filter_state_count_in (isEntryOf o event)
                filter_state_count_out := coutAfter (firstMatch c.flist n) s.filter_state_count_out (isEntryOf o event) },
       skipDecision true c.gmode (firstMatch c.flist n)
         (cinAfter (firstMatch c.flist n) s.filter_state_count_in (isEntryOf o event))
         (coutAfter (firstMatch c.flist n) s.filter_state_count_out (isEntryOf o event)) (isEntryOf o event)) := by
  obtain ⟨g1, g2⟩ := hmode
  have hent : (!o.strcmp "apply_filters:1" event (Ptr.str "call") != 0 ||
               !o.strcmp "apply_filters:2" event (Ptr.str "c_call") != 0) = isEntryOf o event := by
    simp [isEntryOf, bne]
  unfold apply_filters
  simp only [Id.run, pure, bind, hent]
  rw [forIn_first n (ElemRel o n s.sym_name) _
    (fun _ e p => (if e.mode == 1 then p.1 + (if isEntryOf o event then 1 else -1) else p.1,
                   if (!(e.mode == 1) && e.mode == 2) then p.2 + (if isEntryOf o event then 1 else -1) else p.2))
    ?hskip ?hhit c.flist s.filters_elems hel]
  case hskip => intro f e st hr hh; simp [hr.hit, hh]
  case hhit => intro f e st hr hh; simp [hr.hit, hh]
  obtain ⟨hm, hR⟩ := firstHit_spec n (ElemRel o n s.sym_name) c.flist s.filters_elems hel
  rw [hm]
  rcases hfh : firstHit n c.flist s.filters_elems with _ | ⟨f, e⟩
  · cases hg : c.gmode <;> simp [hg] at g1 g2 <;>
      simp [cinAfter, coutAfter, skipDecision, g1, g2] <;> grind
  · obtain ⟨r1, r2, _⟩ := hR f e hfh
    cases hf : f.mode <;> simp [hf] at r1 r2 <;> cases hg : c.gmode <;> simp [hg] at g1 g2 <;>
      cases he : isEntryOf o event <;>
      simp [cinAfter, coutAfter, skipDecision, g1, g2, r1, r2, hf] <;> grind

/-! the hypotheses can be met: for every filter list there are a linked list and opaque callees as assumed -/

/-- opaque callees for which a PATT_SIMPLE filter matches every name and nothing else matches -/
def demoOracles : Oracles :=
  { fnmatch := fun _ _ _ _ => 1, regexec := fun _ _ _ _ _ _ => 1, strcmp := fun _ _ _ => 0 }

/-- the list element of a model filter: PATT_SIMPLE (1) when the filter matches the name, no pattern type otherwise -/
def encElem {α : Type} (n : α) (f : Filter α) : Elem :=
  { self := Ptr.obj 1, mode := if f.mode == .fin then 1 else 2, p_type := if f.hit n then 1 else 0 }

theorem all₂_demo {α : Type} (n : α) (sname : Ptr) (fl : List (Filter α)) :
    All₂ (ElemRel demoOracles n sname) fl (fl.map (encElem n)) := by
  induction fl with
  | nil => exact .nil
  | cons f fs ih =>
    refine .cons ⟨?_, ?_, ?_⟩ ih
    · cases hf : f.mode <;> simp [encElem, hf]
    · cases hf : f.mode <;> simp [encElem, hf]
    · intro st
      cases hh : f.hit n <;>
        simp [match_filter__elem__sym_name, encElem, hh, Id.run, demoOracles, pure]

end Uft.PyTraceGenEq
