/- C06: what a reader of a coherent record stream expects to see (`specStep`: one stack of
   open calls per task, indent = the record's depth field, duration = exit - entry of the
   call on top), and the proof that `replayX` without folding shows exactly that
   (`replayX_refines_spec`).  Coherent: depth fields agree with the stack, a longjmp goes
   back to the jump point armed last, a forked child starts where its parent's fork() was
   (`cohB`).  Core only. -/
import Uft.Lemmas.ReplayX
namespace Uft.Replay
open Uft.Merge

/-! ### the reader's view -/

/-- an open call: function and entry time -/
structure SFrame where
  addr : Nat
  tin : Nat
deriving DecidableEq, Repr, Inhabited

def SFrame.slot (f : SFrame) : Frame := { addr := f.addr, total := f.tin, valid := true }

structure STask where
  /-- the open calls, outermost first -/
  stk : List SFrame
  /-- number of open calls, fork() included, at the task's last fork-family entry (0 = none yet) -/
  fork : Nat
  /-- the open calls at an exec-family entry whose outcome is not known yet -/
  pend : Option (List SFrame)
deriving DecidableEq, Repr

structure Spec where
  /-- `none`: no record of the task seen yet -/
  task : Nat → Option STask
  /-- number of open calls, setjmp() included, at the last setjmp-family entry of any task -/
  armed : Nat

/-- what task.txt says: the task with tid = ppid (if it is a task of the data), forked or not -/
structure Static where
  par : Nat → Option Nat
  forked : Nat → Bool

def updT (f : Nat → Option STask) (i : Nat) (T : STask) : Nat → Option STask := fun j => if j = i then some T else f j

def Spec.forkOf (S : Spec) : Option Nat → Nat
  | some p => match S.task p with
    | some T => T.fork
    | none => 0
  | none => 0

/-- the task at its first record: it inherits `firstCount r` open calls of unknown origin -/
def startT (S : Spec) (i : Nat) (r : Rec) : STask :=
  match S.task i with
  | some T => T
  | none => { stk := List.replicate (firstCount r) ⟨0, r.time⟩, fork := 0, pend := none }

/-- a task's first record: a forked child starts where the fork() it returns from was called
    (without the FORK-LATEST repair: only if that is the parent's latest fork so far); any other
    task starts with an ENTRY at depth 0 (with the TID-ORPHAN repair: a forked task anywhere) -/
def startOK (fx : Fixes) (st : Static) (S : Spec) (i : Nat) (r : Rec) : Bool :=
  match S.task i with
  | some _ => true
  | none =>
    if S.forkOf (st.par i) ≠ 0 then fx.forkLatest || S.forkOf (st.par i) == firstCount r
    else (fx.orphan && st.forked i) || firstCount r == 0

/-- the stack an EXIT pops: after an exec-family entry, the EXIT is that call returning (it failed) -/
def exitStk (T : STask) : List SFrame :=
  match T.pend with
  | some l => l
  | none => T.stk

def stepOK (fx : Fixes) (cls : Nat → Fix) (st : Static) (S : Spec) (i : Nat) (r : Rec) : Bool :=
  startOK fx st S i r &&
  (if r.exit then
    ((startT S i r).pend.isNone || fx.execFail) && exitStk (startT S i r) != [] &&
      r.depth + 1 == (exitStk (startT S i r)).length
   else
    r.depth == (startT S i r).stk.length &&
      (cls r.addr != .longjmp || decide (S.armed ≤ (startT S i r).stk.length + 1)))

/-- the task's record after an ENTRY of `r`: the new call is open -/
def pushT (T : STask) (r : Rec) : List SFrame := T.stk ++ [⟨r.addr, r.time⟩]

def entrySpec (cls : Nat → Fix) (S : Spec) (i : Nat) (r : Rec) (T : STask) : Spec :=
  match cls r.addr with
  | .none => { S with task := updT S.task i { T with stk := pushT T r, pend := none } }
  | .fork => { S with task := updT S.task i { stk := pushT T r, fork := T.stk.length + 1, pend := none } }
  | .setjmp => { task := updT S.task i { T with stk := pushT T r, pend := none }, armed := T.stk.length + 1 }
  | .exec => { S with task := updT S.task i { T with stk := [], pend := some (pushT T r) } }
  | .longjmp => { S with task := updT S.task i { T with stk := (pushT T r).take S.armed, pend := none } }

def specStep (cls : Nat → Fix) (S : Spec) (i : Nat) (r : Rec) : Spec × Ev :=
  if r.exit then
    ({ S with task := updT S.task i { startT S i r with stk := (exitStk (startT S i r)).dropLast, pend := none } },
     { kind := .exit, task := i, indent := r.depth, fn := r.addr,
       addr := ((exitStk (startT S i r)).getLast?.getD default).addr,
       dur := r.time - ((exitStk (startT S i r)).getLast?.getD default).tin, time := r.time })
  else
    (entrySpec cls S i r (startT S i r),
     { kind := .entry, task := i, indent := r.depth, fn := r.addr, addr := r.addr, dur := 0, time := r.time })

/-- the stream is coherent from the reader's state `S` on -/
def cohB (fx : Fixes) (cls : Nat → Fix) (st : Static) : Spec → List (Nat × Rec) → Bool
  | _, [] => true
  | S, (i, r) :: rest => stepOK fx cls st S i r && cohB fx cls st (specStep cls S i r).1 rest

/-- the lines the reader expects -/
def specLines (cls : Nat → Fix) : Spec → List (Nat × Rec) → List Ev
  | _, [] => []
  | S, (i, r) :: rest => (specStep cls S i r).2 :: specLines cls (specStep cls S i r).1 rest

def spec0 : Spec := { task := fun _ => none, armed := 0 }

/-! ### stack slots against a list of open calls -/

def SlotsAre (slots : Nat → Frame) (l : List SFrame) : Prop := ∀ k (h : k < l.length), slots k = l[k].slot

theorem SlotsAre.nil (slots : Nat → Frame) : SlotsAre slots [] := fun k h => absurd h (Nat.not_lt_zero k)

theorem SlotsAre.push {slots : Nat → Frame} {l : List SFrame} (h : SlotsAre slots l) (f : SFrame) :
    SlotsAre (setSlot slots l.length f.slot) (l ++ [f]) := by
  intro k hk
  by_cases hkl : k < l.length
  · have : k ≠ l.length := by omega
    simp [setSlot, this, List.getElem_append_left hkl, h k hkl]
  · have hke : k = l.length := by simp at hk; omega
    subst hke
    simp [setSlot]

theorem SlotsAre.pop {slots : Nat → Frame} {l : List SFrame} (h : SlotsAre slots l) (f : Frame) :
    SlotsAre (setSlot slots (l.length - 1) f) l.dropLast := by
  intro k hk
  have hk' : k < l.length - 1 := by simpa using hk
  have : k ≠ l.length - 1 := by omega
  simp [setSlot, this, h k (by omega)]

theorem SlotsAre.take {slots : Nat → Frame} {l : List SFrame} (h : SlotsAre slots l) (c : Nat) :
    SlotsAre slots (l.take c) := by
  intro k hk
  have hk' : k < l.length := by
    simp only [List.length_take] at hk
    omega
  simp [h k hk']

theorem SlotsAre.congr {s1 s2 : Nat → Frame} {l : List SFrame} (h : SlotsAre s1 l) (he : ∀ k, k < l.length → s2 k = s1 k) :
    SlotsAre s2 l := fun k hk => (he k hk).trans (h k hk)

/-! ### the reader's view against replay's state -/

def RelT (w : W) (i : Nat) : Option STask → Prop
  | none => (w.g i).started = false ∧ (w.g i).disp = 0 ∧ (∀ k, ((w.g i).slots k).addr = 0) ∧
      (w.g i).forkDisp = 0 ∧ w.fc i = 0 ∧ w.xp i = none
  | some T => (w.g i).started = true ∧ (w.g i).stackCount = T.stk.length ∧ (w.g i).disp = T.stk.length ∧
      SlotsAre (w.g i).slots T.stk ∧ (w.g i).forkDisp = T.fork ∧ w.fc i = T.fork ∧
      (match T.pend with
       | none => w.xp i = none
       | some l => T.stk = [] ∧ w.xp i = some (l.length, l.length) ∧ SlotsAre (w.g i).slots l)

structure Rel (st : Static) (w : W) (S : Spec) : Prop where
  task : ∀ i, RelT w i (S.task i)
  par : ∀ i, (w.g i).parent = st.par i
  forked : ∀ i, w.forked i = st.forked i
  sjd : w.sjDepth = S.armed
  sjc : w.sjCount = S.armed

theorem RelT_congr {w w' : W} {j : Nat} {o : Option STask} (hg : w'.g j = w.g j) (hf : w'.fc j = w.fc j)
    (hx : w'.xp j = w.xp j) (h : RelT w j o) : RelT w' j o := by
  cases o with
  | none => simpa only [RelT, hg, hf, hx] using h
  | some T => simpa only [RelT, hg, hf, hx] using h

/-- the task right before `consume` accounts the record: started, with the open calls `L` -/
structure Ready (s : TaskSt) (L : List SFrame) (F : Nat) : Prop where
  started : s.started = true
  count : s.stackCount = L.length
  disp : s.disp = L.length
  slots : SlotsAre s.slots L
  fork : s.forkDisp = F

theorem Rel.forkDisp_parent {st : Static} {w : W} {S : Spec} (h : Rel st w S) (i : Nat) :
    (match (w.g i).parent with | some p => (w.g p).forkDisp | none => 0) = S.forkOf (st.par i) ∧
    (match (w.g i).parent with | some p => w.fc p | none => 0) = S.forkOf (st.par i) := by
  rw [h.par i]
  cases hp : st.par i with
  | none => simp [Spec.forkOf]
  | some p =>
    have := h.task p
    cases hT : S.task p with
    | none => rw [hT] at this; simp [Spec.forkOf, hT, this.2.2.2.1, this.2.2.2.2.1]
    | some T => rw [hT] at this; simp [Spec.forkOf, hT, this.2.2.2.2.1, this.2.2.2.2.2.1]

theorem inhX_of_rel {fx : Fixes} {st : Static} {w : W} {S : Spec} (h : Rel st w S) (i : Nat) (r : Rec) :
    inhX fx w i r =
      if S.forkOf (st.par i) = 0 then (if fx.orphan && st.forked i then firstCount r else 0)
      else if fx.forkLatest then S.forkOf (st.par i) + firstCount r - S.forkOf (st.par i)
      else S.forkOf (st.par i) := by
  obtain ⟨h1, h2⟩ := h.forkDisp_parent i
  unfold inhX
  rw [← h.forked i]
  cases hp : (w.g i).parent with
  | none =>
    rw [hp] at h1
    simp only at h1
    simp [← h1]
  | some p =>
    rw [hp] at h1 h2
    simp only at h1 h2
    simp only [h1, h2]

/-- the first record of a task: `startTask` gives it the inherited calls and the depth to match -/
theorem ready_fresh {fx : Fixes} {st : Static} {w : W} {S : Spec} (h : Rel st w S) (i : Nat) (r : Rec)
    (hT : S.task i = none) (hok : startOK fx st S i r = true) :
    Ready (startTask (inhX fx w i r) (w.g i) r) (List.replicate (firstCount r) ⟨0, r.time⟩) 0 := by
  have hr := h.task i
  rw [hT] at hr
  obtain ⟨hs, hd, hsl, hf, _, _⟩ := hr
  have hinh : (if inhX fx w i r = 0 then 0 else inhX fx w i r) = firstCount r := by
    rw [inhX_of_rel h]
    simp only [startOK, hT] at hok
    by_cases hF : S.forkOf (st.par i) = 0
    · simp only [hF, ne_eq, not_true_eq_false, if_false, Bool.or_eq_true, beq_iff_eq] at hok
      simp only [hF, if_true]
      rcases hok with ho | ho
      · simp only [ho, if_true]; split <;> omega
      · by_cases hb : (fx.orphan && st.forked i) = true
        · simp only [hb, if_true]; split <;> omega
        · simp [hb, ho]
    · simp only [ne_eq, hF, not_false_eq_true, if_true, Bool.or_eq_true, beq_iff_eq] at hok
      simp only [hF, if_false]
      have e : S.forkOf (st.par i) + firstCount r - S.forkOf (st.par i) = firstCount r := by omega
      rcases hok with ho | ho
      · rw [if_pos ho, e]; split <;> omega
      · by_cases hb : fx.forkLatest = true
        · rw [if_pos hb, e]; split <;> omega
        · rw [if_neg hb]; split <;> omega
  refine ⟨rfl, ?_, ?_, ?_, ?_⟩
  · simp [startTask, hs]
  · simp only [startTask, hs, Bool.false_eq_true, if_false, hd, List.length_replicate]
    exact hinh
  · intro k hk
    have hk' : k < firstCount r := by simpa using hk
    have ha := hsl k
    simp only [startTask, hs, Bool.false_eq_true, if_false, hk', if_true, List.getElem_replicate, SFrame.slot, ha]
  · simp [startTask, hf]

/-- any record of a task whose stream is coherent so far -/
theorem ready_of_rel {fx : Fixes} {cls : Nat → Fix} {st : Static} {w : W} {S : Spec} (h : Rel st w S) (i : Nat) (r : Rec)
    (hok : stepOK fx cls st S i r = true) :
    Ready (startTask (inhX fx w i r) (restoreX fx w i r) r)
      (if r.exit then exitStk (startT S i r) else (startT S i r).stk) (startT S i r).fork ∧
    (restoreX fx w i r).forkDisp = (startT S i r).fork ∧ (restoreX fx w i r).parent = (w.g i).parent ∧
    w.fc i = (startT S i r).fork := by
  simp only [stepOK, Bool.and_eq_true] at hok
  obtain ⟨hst, hrest⟩ := hok
  have hr := h.task i
  cases hT : S.task i with
  | none =>
    rw [hT] at hr
    have hx : w.xp i = none := hr.2.2.2.2.2
    have hre : restoreX fx w i r = w.g i := by simp [restoreX, hx]
    have := ready_fresh h i r hT hst
    rw [hre]
    simp only [startT, hT, exitStk, ite_self]
    exact ⟨this, hr.2.2.2.1, by simp, hr.2.2.2.2.1⟩
  | some T =>
    rw [hT] at hr
    obtain ⟨hs, hc, hd, hsl, hf, hfc, hp⟩ := hr
    simp only [startT, hT]
    cases hpe : T.pend with
    | none =>
      rw [hpe] at hp
      simp only at hp
      have hre : restoreX fx w i r = w.g i := by simp [restoreX, hp]
      rw [hre, startTask_started hs]
      simp only [exitStk, hpe, ite_self]
      exact ⟨⟨hs, hc, hd, hsl, hf⟩, hf, by simp, hfc⟩
    | some l =>
      rw [hpe] at hp
      simp only at hp
      obtain ⟨hnil, hxp, hsl2⟩ := hp
      by_cases hx : r.exit = true
      · -- the exec returned
        simp only [hx, if_true, startT, hT, hpe, Option.isNone_some, Bool.false_or, Bool.and_eq_true] at hrest
        have hef : fx.execFail = true := hrest.1.1
        have hc0 : (w.g i).stackCount = 0 := by rw [hc, hnil]; rfl
        have hre : restoreX fx w i r = { w.g i with disp := l.length, stackCount := l.length } := by
          simp [restoreX, hxp, hef, hx, hc0]
        rw [hre]
        have hs' : ({ w.g i with disp := l.length, stackCount := l.length } : TaskSt).started = true := hs
        rw [startTask_started hs']
        simp only [hx, if_true, exitStk, hpe]
        exact ⟨⟨hs, rfl, rfl, hsl2, hf⟩, hf, by simp, hfc⟩
      · have hx : r.exit = false := by simpa using hx
        have hre : restoreX fx w i r = w.g i := by simp [restoreX, hxp, hx]
        rw [hre, startTask_started hs]
        simp only [hx, Bool.false_eq_true, if_false]
        exact ⟨⟨hs, hc, hd, hsl, hf⟩, hf, by simp, hfc⟩

theorem getLast_getD_eq {L : List SFrame} (hne : L ≠ []) :
    L.getLast?.getD default = L[L.length - 1]'(by have := List.length_pos_iff.2 hne; omega) := by
  have hl := List.length_pos_iff.2 hne
  rw [List.getLast?_eq_getElem?, List.getElem?_eq_getElem (by omega)]
  rfl

theorem consume_entry_ready {inh : Nat} {rst : TaskSt} {r : Rec} {L : List SFrame} {F : Nat}
    (h : Ready (startTask inh rst r) L F) (hr : r.exit = false) (i : Nat) :
    (consume inh rst r).stackCount = L.length + 1 ∧ (consume inh rst r).disp = L.length ∧
    SlotsAre (consume inh rst r).slots (L ++ [⟨r.addr, r.time⟩]) ∧
    entryEv i (consume inh rst r) r =
      { kind := .entry, task := i, indent := L.length, fn := r.addr, addr := r.addr, dur := 0, time := r.time } := by
  have hsl : (consume inh rst r).slots = setSlot (startTask inh rst r).slots L.length (SFrame.slot ⟨r.addr, r.time⟩) := by
    simp [consume, accountSlots, hr, h.count, SFrame.slot]
  refine ⟨by simp [consume, newCount, hr, h.count], by simp [consume, h.disp], ?_, ?_⟩
  · rw [hsl]; exact h.slots.push _
  · simp only [entryEv, hsl]
    simp [consume, newCount, hr, h.count, h.disp, setSlot, SFrame.slot]

theorem consume_exit_ready {inh : Nat} {rst : TaskSt} {r : Rec} {L : List SFrame} {F : Nat}
    (h : Ready (startTask inh rst r) L F) (hr : r.exit = true) (hne : L ≠ []) (i : Nat) :
    (consume inh rst r).stackCount = L.length - 1 ∧ (consume inh rst r).disp = L.length ∧
    SlotsAre (consume inh rst r).slots L.dropLast ∧
    exitEv i (consume inh rst r) r =
      { kind := .exit, task := i, indent := L.length - 1, fn := r.addr, addr := (L.getLast?.getD default).addr,
        dur := r.time - (L.getLast?.getD default).tin, time := r.time } := by
  have hl := List.length_pos_iff.2 hne
  have hc0 : (startTask inh rst r).stackCount ≠ 0 := by rw [h.count]; omega
  have htop := h.slots (L.length - 1) (by omega)
  have hsl : (consume inh rst r).slots = setSlot (startTask inh rst r).slots (L.length - 1)
      { addr := (L.getLast?.getD default).addr, total := r.time - (L.getLast?.getD default).tin, valid := false } := by
    simp [consume, accountSlots, hr, hne, h.count, htop, SFrame.slot, getLast_getD_eq hne]
  refine ⟨by simp [consume, newCount, hr, h.count], by simp [consume, h.disp], ?_, ?_⟩
  · rw [hsl]; exact h.slots.pop _
  · simp only [exitEv, hsl]
    simp [consume, newCount, hr, h.count, h.disp, setSlot]

@[simp] theorem consume_forkDisp' (inh : Nat) (st : TaskSt) (r : Rec) : (consume inh st r).forkDisp = st.forkDisp := rfl

theorem updT_same (f : Nat → Option STask) (i : Nat) (T : STask) : updT f i T i = some T := by simp [updT]
theorem updT_other {f : Nat → Option STask} {i j : Nat} (T : STask) (h : j ≠ i) : updT f i T j = f j := by simp [updT, h]

theorem RelT.mk_some {w : W} {i : Nat} {T : STask} (h1 : (w.g i).started = true)
    (h2 : (w.g i).stackCount = T.stk.length) (h3 : (w.g i).disp = T.stk.length) (h4 : SlotsAre (w.g i).slots T.stk)
    (h5 : (w.g i).forkDisp = T.fork) (h6 : w.fc i = T.fork) (hp : T.pend = none) (h7 : w.xp i = none) :
    RelT w i (some T) := by
  refine ⟨h1, h2, h3, h4, h5, h6, ?_⟩
  rw [hp]; exact h7

theorem RelT.mk_pend {w : W} {i : Nat} {T : STask} {l : List SFrame} (h1 : (w.g i).started = true)
    (h2 : (w.g i).stackCount = T.stk.length) (h3 : (w.g i).disp = T.stk.length) (h4 : SlotsAre (w.g i).slots T.stk)
    (h5 : (w.g i).forkDisp = T.fork) (h6 : w.fc i = T.fork) (hp : T.pend = some l) (h7 : T.stk = [])
    (h8 : w.xp i = some (l.length, l.length)) (h9 : SlotsAre (w.g i).slots l) :
    RelT w i (some T) := by
  refine ⟨h1, h2, h3, h4, h5, h6, ?_⟩
  rw [hp]; exact ⟨h7, h8, h9⟩

/-- one record: replay's state stays in step with the reader's, and prints the reader's line -/
theorem step_rel {fx : Fixes} {cls : Nat → Fix} {st : Static} {w : W} {S : Spec} (h : Rel st w S) (i : Nat) (r : Rec)
    (hok : stepOK fx cls st S i r = true) :
    Rel st (stepX fx cls w i r).1 (specStep cls S i r).1 ∧ (stepX fx cls w i r).2 = (specStep cls S i r).2 := by
  obtain ⟨hrdy, hfd, hpar, hfc⟩ := ready_of_rel h i r hok
  simp only [stepOK, Bool.and_eq_true] at hok
  obtain ⟨_, hrest⟩ := hok
  -- the tasks other than `i` are untouched
  have others : ∀ (w' : W) (S' : Spec), (∀ j, j ≠ i → w'.g j = w.g j) → (∀ j, j ≠ i → w'.fc j = w.fc j) →
      (∀ j, j ≠ i → w'.xp j = w.xp j) → (∀ j, j ≠ i → S'.task j = S.task j) → ∀ j, j ≠ i → RelT w' j (S'.task j) := by
    intro w' S' h1 h2 h3 h4 j hj
    rw [h4 j hj]
    exact RelT_congr (h1 j hj) (h2 j hj) (h3 j hj) (h.task j)
  by_cases hx : r.exit = true
  · -- EXIT
    simp only [hx, if_true, Bool.and_eq_true, bne_iff_ne, ne_eq, beq_iff_eq] at hrest hrdy
    obtain ⟨⟨_, hne⟩, hdep⟩ := hrest
    obtain ⟨c1, c2, c3, c4⟩ := consume_exit_ready hrdy hx hne i
    have hlen : (exitStk (startT S i r)).length - 1 = r.depth := by omega
    simp only [stepX, specStep, hx, if_true, consumeX]
    refine ⟨⟨?_, ?_, ?_, h.sjd, h.sjc⟩, ?_⟩
    · intro j
      by_cases hj : j = i
      · subst hj
        simp only [updT_same]
        refine RelT.mk_some ?_ ?_ ?_ ?_ ?_ ?_ rfl ?_
        · simp [exitW, exitState]
        · simp [exitW, exitState, c1]
        · simp [exitW, exitState, c2]
        · simpa [exitW, exitState] using c3
        · simpa [exitW, exitState] using hfd
        · simpa [exitW] using hfc
        · simp [exitW, updO]
      · refine others _ _ ?_ ?_ ?_ ?_ j hj
        · intro j hj; simp [exitW, upd, hj]
        · intro j hj; rfl
        · intro j hj; simp [exitW, updO, hj]
        · intro j hj; simp [updT_other _ hj]
    · intro j
      by_cases hj : j = i
      · subst hj; simp [exitW, exitState, hpar, h.par j]
      · simp [exitW, upd, hj, h.par j]
    · exact h.forked
    · rw [c4, hlen]
  · -- ENTRY
    have hx : r.exit = false := by simpa using hx
    simp only [hx, Bool.false_eq_true, if_false, Bool.and_eq_true, beq_iff_eq, Bool.or_eq_true, bne_iff_ne, ne_eq,
      decide_eq_true_eq] at hrest hrdy
    obtain ⟨hdep, hlj⟩ := hrest
    obtain ⟨c1, c2, c3, c4⟩ := consume_entry_ready hrdy hx i
    simp only [stepX, specStep, hx, Bool.false_eq_true, if_false, consumeX]
    refine ⟨?_, by rw [c4, hdep]⟩
    have hparent : ∀ j, ((entryW cls w i (consume (inhX fx w i r) (restoreX fx w i r) r) r).g j).parent = st.par j := by
      intro j
      by_cases hj : j = i
      · subst hj
        simp only [entryW_g, upd_same]
        rw [← h.par j, ← hpar]
        unfold entryStateX
        split <;> rfl
      · simp [upd, hj, h.par j]
    have hforked : ∀ j, (entryW cls w i (consume (inhX fx w i r) (restoreX fx w i r) r) r).forked j = st.forked j := by
      intro j; simp only [entryW, noteW_forked]; exact h.forked j
    have hoth : ∀ (S' : Spec), (∀ j, j ≠ i → S'.task j = S.task j) → ∀ j, j ≠ i →
        RelT (entryW cls w i (consume (inhX fx w i r) (restoreX fx w i r) r) r) j (S'.task j) := by
      intro S' h4
      refine others _ S' (fun j hj => by simp [upd, hj]) ?_ ?_ h4
      · intro j hj; simp only [entryW, noteW]; split <;> simp [updN, hj]
      · intro j hj; simp only [entryW, noteW]; split <;> simp [updO, hj]
    have hpl : (pushT (startT S i r) r).length = (startT S i r).stk.length + 1 := by simp [pushT]
    have c3 : SlotsAre (consume (inhX fx w i r) (restoreX fx w i r) r).slots (pushT (startT S i r) r) := c3
    cases hcls : cls r.addr with
    | none =>
      refine ⟨?_, hparent, hforked, ?_, ?_⟩
      · intro j
        by_cases hj : j = i
        · subst hj
          have e : (entrySpec cls S j r (startT S j r)).task j =
              some { startT S j r with stk := pushT (startT S j r) r, pend := none } := by
            simp [entrySpec, hcls, updT_same]
          rw [e]
          refine RelT.mk_some ?_ ?_ ?_ ?_ ?_ ?_ rfl ?_
          · simp [entryW, entryStateX, hcls, entryState]
          · simp [entryW, entryStateX, hcls, entryState, c1, hpl]
          · simp [entryW, entryStateX, hcls, entryState, c2, hpl]
          · simpa [entryW, entryStateX, hcls, entryState] using c3
          · simpa [entryW, entryStateX, hcls, entryState, isForkOf] using hfd
          · simpa [entryW, noteW, hcls] using hfc
          · simp [entryW, noteW, hcls, updO]
        · exact hoth _ (fun j hj => by simp [entrySpec, hcls, updT_other _ hj]) j hj
      · simp [entryW, noteW, hcls, entrySpec, h.sjd]
      · simp [entryW, noteW, hcls, entrySpec, h.sjc]
    | fork =>
      refine ⟨?_, hparent, hforked, ?_, ?_⟩
      · intro j
        by_cases hj : j = i
        · subst hj
          have e : (entrySpec cls S j r (startT S j r)).task j =
              some { stk := pushT (startT S j r) r, fork := (startT S j r).stk.length + 1, pend := none } := by
            simp [entrySpec, hcls, updT_same]
          rw [e]
          refine RelT.mk_some ?_ ?_ ?_ ?_ ?_ ?_ rfl ?_
          · simp [entryW, entryStateX, hcls, entryState]
          · simp [entryW, entryStateX, hcls, entryState, c1, hpl]
          · simp [entryW, entryStateX, hcls, entryState, c2, hpl]
          · simpa [entryW, entryStateX, hcls, entryState] using c3
          · simp [entryW, entryStateX, hcls, entryState, isForkOf, c2]
          · simp [entryW, noteW, hcls, updN, c1]
          · simp [entryW, noteW, hcls, updO]
        · exact hoth _ (fun j hj => by simp [entrySpec, hcls, updT_other _ hj]) j hj
      · simp [entryW, noteW, hcls, entrySpec, h.sjd]
      · simp [entryW, noteW, hcls, entrySpec, h.sjc]
    | setjmp =>
      refine ⟨?_, hparent, hforked, ?_, ?_⟩
      · intro j
        by_cases hj : j = i
        · subst hj
          have e : (entrySpec cls S j r (startT S j r)).task j =
              some { startT S j r with stk := pushT (startT S j r) r, pend := none } := by
            simp [entrySpec, hcls, updT_same]
          rw [e]
          refine RelT.mk_some ?_ ?_ ?_ ?_ ?_ ?_ rfl ?_
          · simp [entryW, entryStateX, hcls, entryState]
          · simp [entryW, entryStateX, hcls, entryState, c1, hpl]
          · simp [entryW, entryStateX, hcls, entryState, c2, hpl]
          · simpa [entryW, entryStateX, hcls, entryState] using c3
          · simpa [entryW, entryStateX, hcls, entryState, isForkOf] using hfd
          · simpa [entryW, noteW, hcls] using hfc
          · simp [entryW, noteW, hcls, updO]
        · exact hoth _ (fun j hj => by simp [entrySpec, hcls, updT_other _ hj]) j hj
      · simp [entryW, noteW, hcls, entrySpec, c2]
      · simp [entryW, noteW, hcls, entrySpec, c1]
    | exec =>
      refine ⟨?_, hparent, hforked, ?_, ?_⟩
      · intro j
        by_cases hj : j = i
        · subst hj
          have e : (entrySpec cls S j r (startT S j r)).task j =
              some { startT S j r with stk := [], pend := some (pushT (startT S j r) r) } := by
            simp [entrySpec, hcls, updT_same]
          rw [e]
          refine RelT.mk_pend (l := pushT (startT S j r) r) ?_ ?_ ?_ ?_ ?_ ?_ rfl rfl ?_ ?_
          · simp [entryW, entryStateX, hcls]
          · simp [entryW, entryStateX, hcls]
          · simp [entryW, entryStateX, hcls]
          · exact SlotsAre.nil _
          · simpa [entryW, entryStateX, hcls] using hfd
          · simpa [entryW, noteW, hcls] using hfc
          · simp [entryW, noteW, hcls, updO, c1, c2, hpl]
          · simpa [entryW, entryStateX, hcls] using c3
        · exact hoth _ (fun j hj => by simp [entrySpec, hcls, updT_other _ hj]) j hj
      · simp [entryW, noteW, hcls, entrySpec, h.sjd]
      · simp [entryW, noteW, hcls, entrySpec, h.sjc]
    | longjmp =>
      have harm : S.armed ≤ (startT S i r).stk.length + 1 := by
        rcases hlj with hl | hl
        · exact absurd hcls hl
        · exact hl
      have hlt : (List.take S.armed (pushT (startT S i r) r)).length = S.armed := by
        simp [List.length_take, hpl]; omega
      refine ⟨?_, hparent, hforked, ?_, ?_⟩
      · intro j
        by_cases hj : j = i
        · subst hj
          have e : (entrySpec cls S j r (startT S j r)).task j =
              some { startT S j r with stk := (pushT (startT S j r) r).take S.armed, pend := none } := by
            simp [entrySpec, hcls, updT_same]
          rw [e]
          refine RelT.mk_some ?_ ?_ ?_ ?_ ?_ ?_ rfl ?_
          · simp [entryW, entryStateX, hcls]
          · simp [entryW, entryStateX, hcls, noteW, hlt, h.sjc]
          · simp [entryW, entryStateX, hcls, noteW, hlt, h.sjd]
          · simpa [entryW, entryStateX, hcls] using c3.take S.armed
          · simpa [entryW, entryStateX, hcls] using hfd
          · simpa [entryW, noteW, hcls] using hfc
          · simp [entryW, noteW, hcls, updO]
        · exact hoth _ (fun j hj => by simp [entrySpec, hcls, updT_other _ hj]) j hj
      · simp [entryW, noteW, hcls, entrySpec, h.sjd]
      · simp [entryW, noteW, hcls, entrySpec, h.sjc]

/-! ### the whole stream -/

/-- the reader's state after the stream -/
def specEnd (cls : Nat → Fix) : Spec → List (Nat × Rec) → Spec
  | S, [] => S
  | S, (i, r) :: rest => specEnd cls (specStep cls S i r).1 rest

theorem replayX_refines_spec (fx : Fixes) (cls : Nat → Fix) (st : Static) :
    ∀ (m : List (Nat × Rec)) (w : W) (S : Spec), Rel st w S → cohB fx cls st S m = true →
      (replayX fx cls false w m).2 = specLines cls S m ∧ Rel st (replayX fx cls false w m).1 (specEnd cls S m) := by
  intro m
  induction m with
  | nil => intro w S h _; exact ⟨by simp [replayX, specLines], by simpa [replayX, specEnd] using h⟩
  | cons p rest ih =>
    intro w S h hc
    obtain ⟨i, r⟩ := p
    simp only [cohB, Bool.and_eq_true] at hc
    obtain ⟨h1, h2⟩ := step_rel h i r hc.1
    obtain ⟨i1, i2⟩ := ih _ _ h1 hc.2
    rw [replayX_false_cons]
    exact ⟨by simp only [specLines, h2, i1], by simpa only [specEnd] using i2⟩

def static0 (parents : List (Option Nat)) (forked : List Bool) : Static :=
  { par := fun i => parents.getD i none, forked := fun i => forked.getD i false }

theorem rel0 (parents : List (Option Nat)) (forked : List Bool) :
    Rel (static0 parents forked) (w0 parents forked) spec0 := by
  refine ⟨?_, ?_, ?_, rfl, rfl⟩
  · intro i
    simp [spec0, RelT, w0, g0, TaskSt.fresh]
  · intro i; simp [w0, g0, TaskSt.fresh, static0]
  · intro i; simp [w0, static0]

/-- every record gets one line: kind, task, function and time of the record, at the record's depth -/
theorem specLines_shape (cls : Nat → Fix) : ∀ (m : List (Nat × Rec)) (S : Spec),
    (specLines cls S m).map (fun e => (e.kind, e.task, e.indent, e.fn, e.time)) =
      m.map (fun p => ((if p.2.exit then Kind.exit else Kind.entry), p.1, p.2.depth, p.2.addr, p.2.time)) := by
  intro m
  induction m with
  | nil => intro S; simp [specLines]
  | cons p rest ih =>
    intro S
    obtain ⟨i, r⟩ := p
    simp only [specLines, List.map_cons, ih]
    congr 1
    unfold specStep
    split <;> simp

/-! ### what coherence means around a longjmp -/

theorem specStep_task_other (cls : Nat → Fix) (S : Spec) {i j : Nat} (r : Rec) (h : i ≠ j) :
    (specStep cls S j r).1.task i = S.task i := by
  unfold specStep
  split
  · simp [updT_other _ h]
  · simp only [entrySpec]
    split <;> simp [updT_other _ h]

theorem specEnd_task_other (cls : Nat → Fix) (i : Nat) : ∀ (m : List (Nat × Rec)) (S : Spec),
    (∀ p ∈ m, p.1 ≠ i) → (specEnd cls S m).task i = S.task i := by
  intro m
  induction m with
  | nil => intro S _; rfl
  | cons p rest ih =>
    intro S h
    obtain ⟨j, r⟩ := p
    simp only [specEnd]
    rw [ih _ (fun q hq => h q (List.mem_cons_of_mem _ hq))]
    exact specStep_task_other cls S r (fun e => h (j, r) (by simp) e.symm)

theorem specStep_armed (cls : Nat → Fix) (S : Spec) (i : Nat) (r : Rec) (h : r.exit = false → cls r.addr ≠ .setjmp) :
    (specStep cls S i r).1.armed = S.armed := by
  unfold specStep
  split
  · rfl
  · rename_i hx
    have := h (by simpa using hx)
    simp only [entrySpec]
    split <;> simp_all

theorem specEnd_armed (cls : Nat → Fix) : ∀ (m : List (Nat × Rec)) (S : Spec),
    (∀ p ∈ m, p.2.exit = false → cls p.2.addr ≠ .setjmp) → (specEnd cls S m).armed = S.armed := by
  intro m
  induction m with
  | nil => intro S _; rfl
  | cons p rest ih =>
    intro S h
    obtain ⟨j, r⟩ := p
    simp only [specEnd]
    rw [ih _ (fun q hq => h q (List.mem_cons_of_mem _ hq))]
    exact specStep_armed cls S j r (h (j, r) (by simp))

theorem cohB_append (fx : Fixes) (cls : Nat → Fix) (st : Static) : ∀ (a b : List (Nat × Rec)) (S : Spec),
    cohB fx cls st S (a ++ b) = (cohB fx cls st S a && cohB fx cls st (specEnd cls S a) b) := by
  intro a
  induction a with
  | nil => intro b S; simp [cohB, specEnd]
  | cons p rest ih =>
    intro b S
    obtain ⟨i, r⟩ := p
    simp only [List.cons_append, cohB, specEnd, ih, Bool.and_assoc]

theorem specEnd_append (cls : Nat → Fix) : ∀ (a b : List (Nat × Rec)) (S : Spec),
    specEnd cls S (a ++ b) = specEnd cls (specEnd cls S a) b := by
  intro a
  induction a with
  | nil => intro b S; rfl
  | cons p rest ih => intro b S; obtain ⟨i, r⟩ := p; simp only [List.cons_append, specEnd, ih]

/-- the number of open calls of a task as the reader counts them (0 before its first record) -/
def Spec.depthOf (S : Spec) (i : Nat) : Nat :=
  match S.task i with
  | some T => T.stk.length
  | none => 0

/-- In a coherent stream, a setjmp-family call at depth `d`, then (no other setjmp-family call in
    between, of any task) a longjmp-family call of the same task, then that task's next two
    records `x` (the second return of setjmp) and `e` (the next call): both carry depth `d`. -/
theorem coh_longjmp_depths (fx : Fixes) (cls : Nat → Fix) (st : Static) (S : Spec) (i : Nat) (sj lj x e : Rec)
    (mid mid2 mid3 rest : List (Nat × Rec))
    (hsj : sj.exit = false ∧ cls sj.addr = .setjmp) (hlj : lj.exit = false ∧ cls lj.addr = .longjmp)
    (hx : x.exit = true) (he : e.exit = false)
    (hmid : ∀ p ∈ mid, p.2.exit = false → cls p.2.addr ≠ .setjmp)
    (hmid2 : ∀ p ∈ mid2, p.1 ≠ i) (hmid3 : ∀ p ∈ mid3, p.1 ≠ i)
    (hc : cohB fx cls st S ((i, sj) :: (mid ++ (i, lj) :: (mid2 ++ (i, x) :: (mid3 ++ (i, e) :: rest)))) = true) :
    x.depth = sj.depth ∧ e.depth = sj.depth := by
  simp only [cohB, cohB_append, Bool.and_eq_true] at hc
  obtain ⟨hsjok, hmidok, hljok, hmid2ok, hxok, hmid3ok, heok, _⟩ := hc
  -- after the setjmp entry: armed = sj.depth + 1, and it stays so through `mid`
  have ha0 : (specStep cls S i sj).1.armed = sj.depth + 1 := by
    simp only [stepOK, hsj.1, Bool.false_eq_true, if_false, Bool.and_eq_true, beq_iff_eq] at hsjok
    simp [specStep, hsj.1, entrySpec, hsj.2, hsjok.2.1]
  generalize hS1 : specEnd cls (specStep cls S i sj).1 mid = S1 at *
  have ha1 : S1.armed = sj.depth + 1 := by rw [← hS1, specEnd_armed cls mid _ hmid, ha0]
  -- the longjmp entry cuts the stack to `armed` calls
  have hlen : ∃ T, (specStep cls S1 i lj).1.task i = some T ∧ T.stk.length = sj.depth + 1 ∧ T.pend = none := by
    simp only [stepOK, hlj.1, Bool.false_eq_true, if_false, Bool.and_eq_true, beq_iff_eq, Bool.or_eq_true,
      bne_iff_ne, ne_eq, decide_eq_true_eq] at hljok
    have harm : S1.armed ≤ (startT S1 i lj).stk.length + 1 := by
      rcases hljok.2.2 with h | h
      · exact absurd hlj.2 h
      · exact h
    refine ⟨{ startT S1 i lj with stk := (pushT (startT S1 i lj) lj).take S1.armed, pend := none },
      by simp [specStep, hlj.1, entrySpec, hlj.2, updT_same], ?_, rfl⟩
    simp [pushT, List.length_take, ha1] at harm ⊢
    omega
  obtain ⟨T, hT, hTl, hTp⟩ := hlen
  generalize hS2 : specEnd cls (specStep cls S1 i lj).1 mid2 = S2 at *
  have hT2 : S2.task i = some T := by rw [← hS2, specEnd_task_other cls i mid2 _ hmid2, hT]
  -- the EXIT pops one of them
  have hxd : x.depth = sj.depth := by
    simp only [stepOK, hx, if_true, Bool.and_eq_true, beq_iff_eq, startT, hT2, exitStk, hTp] at hxok
    omega
  have hT3 : ∃ T', (specStep cls S2 i x).1.task i = some T' ∧ T'.stk.length = sj.depth := by
    refine ⟨{ startT S2 i x with stk := (exitStk (startT S2 i x)).dropLast, pend := none },
      by simp [specStep, hx, updT_same], ?_⟩
    simp [startT, hT2, exitStk, hTp, hTl]
  obtain ⟨T', hT', hT'l⟩ := hT3
  generalize hS3 : specEnd cls (specStep cls S2 i x).1 mid3 = S3 at *
  have hT4 : S3.task i = some T' := by rw [← hS3, specEnd_task_other cls i mid3 _ hmid3, hT']
  refine ⟨hxd, ?_⟩
  simp only [stepOK, he, Bool.false_eq_true, if_false, Bool.and_eq_true, beq_iff_eq, startT, hT4] at heok
  omega

/-- In a coherent stream the task's next ENTRY after an exec-family ENTRY (the new program image)
    carries depth 0. -/
theorem coh_exec_depth (fx : Fixes) (cls : Nat → Fix) (st : Static) (S : Spec) (i : Nat) (ex e : Rec)
    (mid rest : List (Nat × Rec)) (hex : ex.exit = false ∧ cls ex.addr = .exec) (he : e.exit = false)
    (hmid : ∀ p ∈ mid, p.1 ≠ i)
    (hc : cohB fx cls st S ((i, ex) :: (mid ++ (i, e) :: rest)) = true) : e.depth = 0 := by
  simp only [cohB, cohB_append, Bool.and_eq_true] at hc
  obtain ⟨_, _, heok, _⟩ := hc
  have hT : (specStep cls S i ex).1.task i =
      some { startT S i ex with stk := [], pend := some (pushT (startT S i ex) ex) } := by
    simp [specStep, hex.1, entrySpec, hex.2, updT_same]
  generalize hS1 : specEnd cls (specStep cls S i ex).1 mid = S1 at *
  have hT1 : S1.task i = some { startT S i ex with stk := [], pend := some (pushT (startT S i ex) ex) } := by
    rw [← hS1, specEnd_task_other cls i mid _ hmid, hT]
  simp only [stepOK, he, Bool.false_eq_true, if_false, Bool.and_eq_true, beq_iff_eq, startT, hT1] at heok
  simpa using heok.2.1

/-- the calls replay still has on a task's stack are the reader's open calls -/
theorem openAddrs_of_rel {st : Static} {w : W} {S : Spec} (h : Rel st w S) (i : Nat) :
    openAddrs (w.g i) = match S.task i with
      | some T => if T.pend.isSome then [] else T.stk.map (·.addr)
      | none => (List.range (w.g i).stackCount).map (fun _ => 0) := by
  have hr := h.task i
  cases hT : S.task i with
  | none =>
    rw [hT] at hr
    simp only [openAddrs]
    apply List.map_congr_left
    intro k _
    exact hr.2.2.1 k
  | some T =>
    rw [hT] at hr
    obtain ⟨_, hc, _, hsl, _, _, hp⟩ := hr
    cases hpe : T.pend with
    | some l =>
      rw [hpe] at hp
      simp only at hp
      simp [openAddrs, hc, hp.1]
    | none =>
      simp only [hpe, Option.isSome_none, Bool.false_eq_true, if_false]
      apply List.ext_getElem
      · simp [openAddrs, hc]
      · intro k h1 h2
        have hk : k < T.stk.length := by simpa using h2
        simp [openAddrs, hsl k hk, SFrame.slot]

end Uft.Replay
