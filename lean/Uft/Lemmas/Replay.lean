/- Lemmas about the replay model (C06). Core only. -/
import Uft.Model.Replay
import Uft.Lemmas.Merge
namespace Uft.Replay
open Uft.Merge

/-! ### one step, unfolded -/

theorem startTask_started {inh : Nat} {st : TaskSt} {r : Rec} (h : st.started = true) :
    startTask inh st r = st := by
  cases st
  simp only at h
  simp [startTask, h]

@[simp] theorem startTask_isStarted (inh : Nat) (st : TaskSt) (r : Rec) :
    (startTask inh st r).started = true := rfl

@[simp] theorem consume_started (inh : Nat) (st : TaskSt) (r : Rec) : (consume inh st r).started = true := rfl
@[simp] theorem consume_parent (inh : Nat) (st : TaskSt) (r : Rec) : (consume inh st r).parent = st.parent := rfl
@[simp] theorem consume_forkDisp (inh : Nat) (st : TaskSt) (r : Rec) : (consume inh st r).forkDisp = st.forkDisp := rfl

theorem consume_of_started {inh : Nat} {st : TaskSt} {r : Rec} (h : st.started = true) :
    consume inh st r = consume 0 st r := by
  simp [consume, startTask_started h]

/-- the step taken for an EXIT record, whatever follows -/
theorem replay_cons_exit {b : Bool} {f : Nat → Bool} {g : G} {i : Nat} {r : Rec}
    (rest : List (Nat × Rec)) (h : r.exit = true) :
    replay b f g ((i, r) :: rest) =
      ((replay b f (upd g i (exitState (consume (inhOf g i) (g i) r))) rest).1,
       exitEv i (consume (inhOf g i) (g i) r) r ::
         (replay b f (upd g i (exitState (consume (inhOf g i) (g i) r))) rest).2) := by
  cases rest with
  | nil => simp [replay, h]
  | cons p rest => obtain ⟨j, x⟩ := p; simp [replay, h]

/-- the step taken for an ENTRY record that is not folded -/
theorem replay_cons_entry {b : Bool} {f : Nat → Bool} {g : G} {i : Nat} {r : Rec}
    (rest : List (Nat × Rec)) (h : r.exit = false)
    (hn : b = false ∨ rest = [] ∨ ∃ j x rest', rest = (j, x) :: rest' ∧ foldsWith i r j x = false) :
    replay b f g ((i, r) :: rest) =
      ((replay b f (upd g i (entryState f (consume (inhOf g i) (g i) r) r)) rest).1,
       entryEv i (consume (inhOf g i) (g i) r) r ::
         (replay b f (upd g i (entryState f (consume (inhOf g i) (g i) r) r)) rest).2) := by
  cases rest with
  | nil => simp [replay, h]
  | cons p rest =>
    obtain ⟨j, x⟩ := p
    rcases hn with hb | hr | ⟨j', x', rest', he, hf⟩
    · simp [replay, h, hb]
    · simp at hr
    · simp only [List.cons.injEq, Prod.mk.injEq] at he
      obtain ⟨⟨rfl, rfl⟩, rfl⟩ := he
      simp [replay, h, hf]

/-- the step taken for an ENTRY record folded with the following EXIT -/
theorem replay_cons_leaf {f : Nat → Bool} {g : G} {i : Nat} {r : Rec} {j : Nat} {x : Rec}
    (rest : List (Nat × Rec)) (h : r.exit = false) (hf : foldsWith i r j x = true) :
    replay true f g ((i, r) :: (j, x) :: rest) =
      ((replay true f (upd g i (leafState f (consume (inhOf g i) (g i) r)
          (consume 0 (consume (inhOf g i) (g i) r) x) r)) rest).1,
       leafEv i (consume (inhOf g i) (g i) r) (consume 0 (consume (inhOf g i) (g i) r) x) r ::
         (replay true f (upd g i (leafState f (consume (inhOf g i) (g i) r)
          (consume 0 (consume (inhOf g i) (g i) r) x) r)) rest).2) := by
  simp [replay, h, hf]

@[simp] theorem upd_same (g : G) (i : Nat) (s : TaskSt) : upd g i s i = s := by simp [upd]
theorem upd_other {g : G} {i j : Nat} (s : TaskSt) (h : j ≠ i) : upd g i s j = g j := by simp [upd, h]

theorem inhOf_upd_same_parent {g : G} {i : Nat} {s : TaskSt} (hp : s.parent = (g i).parent)
    (hf : s.forkDisp = (g i).forkDisp) (j : Nat) : inhOf (upd g i s) j = inhOf g j := by
  unfold inhOf
  by_cases hj : j = i
  · subst hj
    simp only [upd_same, hp]
    cases (g j).parent with
    | none => rfl
    | some p =>
      by_cases hpj : p = j
      · subst hpj; simp [hf]
      · simp [upd_other _ hpj]
  · rw [upd_other _ hj]
    cases (g j).parent with
    | none => rfl
    | some p =>
      by_cases hpi : p = i
      · subst hpi; simp [hf]
      · simp [upd_other _ hpi]

/-! ### leaf folding is presentation -/

/-- what the folding theorem needs from the data: an EXIT that directly follows the
    ENTRY of the same task at the same depth is that call's EXIT (same function, not earlier) -/
def PairsOK : List (Nat × Rec) → Prop
  | (i, r) :: (j, x) :: rest =>
    (r.exit = false → foldsWith i r j x = true → x.addr = r.addr ∧ r.time ≤ x.time) ∧ PairsOK ((j, x) :: rest)
  | _ => True

theorem pairsOK_tail {p : Nat × Rec} {m : List (Nat × Rec)} (h : PairsOK (p :: m)) : PairsOK m := by
  cases m with
  | nil => simp [PairsOK]
  | cons q m => obtain ⟨i, r⟩ := p; obtain ⟨j, x⟩ := q; exact h.2

/-- state after ENTRY then EXIT (unfolded) = state after the folded leaf -/
theorem leaf_state_eq (f : Nat → Bool) (inh : Nat) (s : TaskSt) (r x : Rec) (hs : s.started = true) :
    exitState (consume inh (entryState f s r) x) = leafState f s (consume 0 s x) r := by
  have h1 : (entryState f s r).started = true := by simp [entryState, hs]
  rw [consume_of_started h1]
  simp only [exitState, leafState, consume, entryState, startTask, hs, newCount, accountSlots]
  simp

/-- after consuming an ENTRY its frame is on top of the stack -/
theorem consume_entry_top (inh : Nat) (st : TaskSt) {r : Rec} (h : r.exit = false) :
    ∃ c, (consume inh st r).stackCount = c + 1 ∧
      (consume inh st r).slots c = { addr := r.addr, total := r.time, valid := true } := by
  refine ⟨(startTask inh st r).stackCount, ?_, ?_⟩
  · simp [consume, newCount, h]
  · simp [consume, accountSlots, h, setSlot]

theorem consume_exit_count {st : TaskSt} {x : Rec} (hs : st.started = true) (hx : x.exit = true) (inh : Nat) :
    (consume inh st x).stackCount = st.stackCount - 1 := by
  simp [consume, newCount, hx, startTask, hs]

theorem consume_exit_slot {st : TaskSt} {x : Rec} {c : Nat} (hs : st.started = true) (hx : x.exit = true)
    (hc : st.stackCount = c + 1) (inh : Nat) :
    (consume inh st x).slots c =
      { addr := (st.slots c).addr, total := if (st.slots c).valid then x.time - (st.slots c).total else 0,
        valid := false } := by
  simp [consume, accountSlots, hx, startTask, hs, hc, setSlot]

theorem leaf_events_eq (f : Nat → Bool) (i inh : Nat) (s : TaskSt) (r x : Rec) (c : Nat)
    (hs : s.started = true) (hc : s.stackCount = c + 1)
    (hslot : s.slots c = { addr := r.addr, total := r.time, valid := true })
    (hx : x.exit = true) (haddr : x.addr = r.addr) (htime : r.time ≤ x.time) :
    entryEv i s r = (leafEv i s (consume 0 s x) r).asEntry ∧
    exitEv i (consume inh (entryState f s r) x) x = (leafEv i s (consume 0 s x) r).asExit := by
  have hs' : (entryState f s r).started = true := by simp [entryState, hs]
  have hc' : (entryState f s r).stackCount = c + 1 := by simp [entryState, hc]
  have h1 := consume_exit_slot hs hx hc 0
  have h2 := consume_exit_slot hs' hx hc' inh
  have h3 := consume_exit_count hs' hx inh
  have hsl' : (entryState f s r).slots c = s.slots c := by simp [entryState]
  constructor
  · simp [entryEv, leafEv, Ev.asEntry, hc, h1]
  · simp only [exitEv, leafEv, Ev.asExit, h3, hc', hc, Nat.add_sub_cancel, h1, h2, hsl', hslot]
    simp [consume, entryState, startTask, hs, haddr]
    omega

theorem fold_eq_nomerge (f : Nat → Bool) :
    ∀ (n : Nat) (m : List (Nat × Rec)), m.length ≤ n → ∀ g : G, PairsOK m →
      (replay true f g m).1 = (replay false f g m).1 ∧
      unfold (replay true f g m).2 = (replay false f g m).2 := by
  intro n
  induction n with
  | zero =>
    intro m hm g _
    have : m = [] := List.eq_nil_of_length_eq_zero (Nat.le_zero.1 hm)
    subst this
    simp [replay, unfold]
  | succ n ih =>
    intro m hm g hok
    match m, hm, hok with
    | [], _, _ => simp [replay, unfold]
    | (i, r) :: rest, hm, hok =>
      have hlen : rest.length ≤ n := by simp at hm; omega
      have hokr := pairsOK_tail hok
      by_cases hx : r.exit = true
      · rw [replay_cons_exit rest hx, replay_cons_exit rest hx]
        have := ih rest hlen (upd g i (exitState (consume (inhOf g i) (g i) r))) hokr
        simp only [unfold, exitEv]
        exact ⟨this.1, by rw [this.2]⟩
      · have hx : r.exit = false := by simpa using hx
        rw [replay_cons_entry (b := false) rest hx (Or.inl rfl)]
        match rest, hlen, hok, hokr with
        | [], _, _, _ =>
          rw [replay_cons_entry (b := true) [] hx (Or.inr (Or.inl rfl))]
          simp [replay, unfold, entryEv]
        | (j, x) :: rest', hlen, hok, hokr =>
          by_cases hf : foldsWith i r j x = true
          · -- folded
            rw [replay_cons_leaf rest' hx hf]
            have hj : (j = i ∧ x.depth = r.depth) ∧ x.exit = true := by
              simpa [foldsWith, Bool.and_eq_true] using hf
            obtain ⟨⟨rfl, hd⟩, hxe⟩ := hj
            obtain ⟨hok1, _⟩ := hok
            obtain ⟨haddr, htime⟩ := hok1 hx hf
            rw [replay_cons_exit rest' hxe]
            have hlen' : rest'.length ≤ n := by simp at hlen; omega
            have hst := leaf_state_eq f
              (inhOf (upd g j (entryState f (consume (inhOf g j) (g j) r) r)) j)
              (consume (inhOf g j) (g j) r) r x rfl
            simp only [upd_same]
            rw [hst]
            have hupd : upd (upd g j (entryState f (consume (inhOf g j) (g j) r) r)) j
                (leafState f (consume (inhOf g j) (g j) r) (consume 0 (consume (inhOf g j) (g j) r) x) r)
                = upd g j (leafState f (consume (inhOf g j) (g j) r) (consume 0 (consume (inhOf g j) (g j) r) x) r) := by
              funext k; by_cases hk : k = j <;> simp [upd, hk]
            rw [hupd]
            have := ih rest' hlen' (upd g j (leafState f (consume (inhOf g j) (g j) r)
              (consume 0 (consume (inhOf g j) (g j) r) x) r)) (pairsOK_tail hokr)
            refine ⟨this.1, ?_⟩
            simp only [unfold, leafEv]
            rw [this.2]
            obtain ⟨c, hc, hslot⟩ := consume_entry_top (inhOf g j) (g j) hx
            have hs1 : (consume (inhOf g j) (g j) r).started = true := rfl
            have he := leaf_events_eq f j
              (inhOf (upd g j (entryState f (consume (inhOf g j) (g j) r) r)) j)
              (consume (inhOf g j) (g j) r) r x c hs1 hc hslot hxe haddr htime
            rw [he.1, he.2]
            simp [leafEv]
          · have hf : foldsWith i r j x = false := by simpa using hf
            rw [replay_cons_entry (b := true) ((j, x) :: rest') hx (Or.inr (Or.inr ⟨j, x, rest', rfl, hf⟩))]
            have := ih ((j, x) :: rest') hlen (upd g i (entryState f (consume (inhOf g i) (g i) r) r)) hokr
            simp only [unfold, entryEv]
            exact ⟨this.1, by rw [this.2]⟩

end Uft.Replay
