import Uft.Lemmas.FstackReplay
/- C07 helper lemmas, part 7: the replay loop (fstack_skip look-ahead, leaf folding) shows
   the same records as the fstack_check_filter loop for EVERY option set — trace_on /
   trace_off triggers, --trace=off, any trigger table — on every depth-consistent record
   stream.  Simulation: while replay holds back the line of an accepted ENTRY, the other
   loop is one display level ahead and has printed that line already. -/
set_option linter.unusedSimpArgs false
set_option linter.unusedVariables false
namespace Uft.Fstack
open Uft.Mcount (Rec Trigger Call Calls evCall evCalls)

/-- the depth fields of an ENTRY/EXIT stream are the nesting depths, `k` calls being open -/
def WFD : Nat → List Rec → Prop
  | _, [] => True
  | k, r :: rs => (r.type = 0 ∧ r.depth = k ∧ WFD (k + 1) rs) ∨ (r.type = 1 ∧ 1 ≤ k ∧ r.depth = k - 1 ∧ WFD (k - 1) rs)

theorem WFD_append_exit (k : Nat) (x : Rec) (hx : x.type = 1) (hd : x.depth = k) (tail : List Rec) (h : WFD k tail) :
    WFD (k + 1) (x :: tail) := by
  simp only [WFD]
  right
  exact ⟨hx, by omega, by simpa using hd, by simpa using h⟩

mutual
theorem WFD_evCall : ∀ (x : Call) (d : Nat) (tail : List Rec), WFD d tail → WFD d (evCall d x ++ tail)
  | .node f t0 t1 kids, d, tail, h => by
    simp only [evCall, List.singleton_append, List.cons_append, List.append_assoc, List.nil_append, WFD]
    left
    refine ⟨trivial, trivial, ?_⟩
    exact WFD_evCalls kids (d + 1) _ (WFD_append_exit d _ rfl rfl tail h)
theorem WFD_evCalls : ∀ (xs : Calls) (d : Nat) (tail : List Rec), WFD d tail → WFD d (evCalls d xs ++ tail)
  | .nil, d, tail, h => by simpa [evCalls] using h
  | .cons x rest, d, tail, h => by
    simp only [evCalls, List.append_assoc]
    exact WFD_evCall x d _ (WFD_evCalls rest d tail h)
end

theorem WFD_forest (xs : Calls) : WFD 0 (evCalls 0 xs) := by
  have := WFD_evCalls xs 0 [] trivial
  simpa using this

/-- the relation between the two loops: state of report/graph/dump, state of replay, and the
    line replay still owes -/
inductive Sim (c : RCfg) : Nat → FS → RS → List Rec → Prop
  | idle (k : Nat) (s : FS) : Sim c k s ⟨s, none⟩ []
  | pend (k : Nat) (fs : FS) (e : Rec) (d : Nat) (extra : List Fr) (fe : Fr) (rest : List Fr)
      (hen : fs.enabled = true) (hds : fs.dispSet = true) (hdd : fs.dispDepth = d)
      (hst : fs.stack = extra ++ fe :: rest) (hfe : fe.norecord = false)
      (hex : ∀ x ∈ extra, x.norecord = true) (hk : k = e.depth + 1 + extra.length) :
      Sim c k (updEntry fs) ⟨fs, some (e, d)⟩ [shown e d]

theorem account_updEntry (s : FS) (r : Rec) : account (updEntry s) r = updEntry (account s r) := by
  simp only [account, updEntry]
  split <;> rfl

theorem verdict_updEntry (c : RCfg) (s : FS) (f : Nat) : verdict c (updEntry s) f = verdict c s f := rfl

theorem fsEntry_reject_comm (c : RCfg) (s : FS) (f : Nat) (h : (fsEntry c s f).2 = false) :
    fsEntry c (updEntry s) f = (updEntry (fsEntry c s f).1, false) := by
  have hv : (verdict c s f == Verdict.accept) = false := h
  have hv' : verdict c s f ≠ Verdict.accept := by simpa using hv
  have hvu : verdict c (updEntry s) f = verdict c s f := rfl
  have hda : ∀ tr, depthAfter c (updEntry s) tr = depthAfter c s tr := fun _ => rfl
  refine Prod.ext ?_ ?_
  · apply fs_ext <;> simp only [fsEntry, hvu, hda] <;> simp [updEntry, hv']
  · show (verdict c (updEntry s) f == Verdict.accept) = false
    rw [hvu]; exact hv

theorem fsExit_updEntry (c : RCfg) (s : FS) : fsExit c (updEntry s) = updEntry (fsExit c s) := by
  apply fs_ext <;> simp [fsExit, updEntry, topFr]

/-- facts about a rejected ENTRY that leaves tracing on -/
theorem fsEntry_reject_facts (c : RCfg) (s : FS) (f : Nat) (h : (fsEntry c s f).2 = false)
    (hen : (fsEntry c s f).1.enabled = true) (hs : s.enabled = true) :
    (fsEntry c s f).1.dispSet = s.dispSet ∧ (fsEntry c s f).1.dispDepth = s.dispDepth ∧
    (entryFr c s f).norecord = true := by
  have hv : (verdict c s f == Verdict.accept) = false := h
  have hv' : verdict c s f ≠ Verdict.accept := by simpa using hv
  have hntr : verdict c s f ≠ Verdict.traceOff := by
    intro ht
    have : (fsEntry c s f).1.enabled = enAfter (c.trig f) s.enabled := by simp [fsEntry, ht, Verdict.late]
    rw [this] at hen
    -- verdict traceOff means enAfter is false
    unfold verdict at ht
    split at ht <;> try exact absurd ht (by decide)
    split at ht <;> try exact absurd ht (by decide)
    split at ht <;> try exact absurd ht (by decide)
    split at ht <;> try exact absurd ht (by decide)
    split at ht
    · rename_i hoff; simp [hen] at hoff
    · split at ht <;> exact absurd ht (by decide)
  have hoffl : ((verdict c s f).late && (c.trig f).traceOff) = false := by
    -- late and traceOff would have given verdict traceOff
    cases hl : (verdict c s f).late with
    | false => rfl
    | true =>
      cases hto : (c.trig f).traceOff with
      | false => rfl
      | true =>
        exfalso
        have hea : enAfter (c.trig f) s.enabled = false := by simp [enAfter, hto]
        unfold verdict at hl hntr hv'
        split at hl <;> try (simp [Verdict.late] at hl)
        split at hl <;> try (simp [Verdict.late] at hl)
        split at hl <;> try (simp [Verdict.late] at hl)
        split at hl <;> try (simp [Verdict.late] at hl)
        simp [hea] at hntr
  refine ⟨?_, ?_, ?_⟩
  · simp [fsEntry, hv', hoffl]
  · simp [fsEntry, hv']
  · simp only [entryFr]
    cases hvv : verdict c s f <;> simp_all [Verdict.norecord]

/-- facts about an accepted ENTRY -/
theorem fsEntry_accept_facts (c : RCfg) (s : FS) (f : Nat) (h : (fsEntry c s f).2 = true) :
    (fsEntry c s f).1.enabled = true ∧ (fsEntry c s f).1.dispSet = true ∧ (entryFr c s f).norecord = false := by
  have hv : verdict c s f = Verdict.accept := by
    have : (verdict c s f == Verdict.accept) = true := h
    simpa using this
  have hea : enAfter (c.trig f) s.enabled = true := by
    have hv2 := hv
    unfold verdict at hv2
    split at hv2 <;> try exact absurd hv2 (by decide)
    split at hv2 <;> try exact absurd hv2 (by decide)
    split at hv2 <;> try exact absurd hv2 (by decide)
    split at hv2 <;> try exact absurd hv2 (by decide)
    split at hv2
    · exact absurd hv2 (by decide)
    · rename_i hoff; simpa using hoff
  refine ⟨?_, ?_, ?_⟩
  · simp [fsEntry, hv, Verdict.late, hea]
  · simp [fsEntry, hv]
  · simp [entryFr, hv, Verdict.norecord]

/-- fstack_check_skip never skips an ENTRY that fstack_entry would accept (any option set, tracing on) -/
theorem checkSkip_sound_gen (c : RCfg) (s : FS) (r : Rec) (ht : r.type = 0) (hen : s.enabled = true)
    (h : checkSkip c s r = true) : verdict c s r.addr ≠ Verdict.accept := by
  intro hv
  simp only [checkSkip, ht, Nat.zero_ne_one, ↓reduceIte, decide_true, Bool.true_and, isIn] at h
  unfold verdict at hv
  split at hv <;> try exact absurd hv (by decide)
  rename_i h1
  simp only [h1, ↓reduceIte] at h
  split at hv <;> try exact absurd hv (by decide)
  rename_i h2
  simp only [h2, ↓reduceIte] at h
  split at hv <;> try exact absurd hv (by decide)
  rename_i h3
  split at hv <;> try exact absurd hv (by decide)
  rename_i h4
  split at hv <;> try exact absurd hv (by decide)
  rename_i h5
  split at hv <;> try exact absurd hv (by decide)
  rename_i h6
  -- all rejecting conditions of fstack_entry are false; show checkSkip is false
  have hoff : (c.trig r.addr).traceOff = false := by
    cases hto : (c.trig r.addr).traceOff with
    | false => rfl
    | true => simp [enAfter, hto] at h5
  have hloc : (c.trig r.addr).loc.isNone = true → c.locIn = false := by
    intro hl
    cases hl2 : (c.trig r.addr).loc with
    | none => simpa [locReject, hl2] using h4
    | some v => simp [hl2] at hl
  have h3' : (!isIn (c.trig r.addr) && c.optIn && decide (s.inCount = 0)) = false := by simpa using h3
  simp only [isIn] at h3'
  have h6' : (decide (depthAfter c s (c.trig r.addr) = 0) || c.hide r.addr) = false := by simpa using h6
  simp only [Bool.or_eq_false_iff, decide_eq_false_iff_not] at h6'
  by_cases hA : (!((c.trig r.addr).filter == some true) && (c.trig r.addr).loc.isNone && (c.optIn || c.locIn) &&
      decide (s.inCount = 0)) = true
  · simp only [Bool.and_eq_true, Bool.or_eq_true, decide_eq_true_eq, Bool.not_eq_true'] at hA
    obtain ⟨⟨⟨ha1, ha2⟩, ha3⟩, ha4⟩ := hA
    have hl := hloc ha2
    rcases ha3 with ho | hl2
    · simp [ha1, ho, ha4] at h3'
    · rw [hl] at hl2; exact absurd hl2 (by decide)
  · simp only [hA, Bool.false_eq_true, ↓reduceIte, hoff, Bool.false_or] at h
    cases hd : (c.trig r.addr).depth with
    | some v => simp [hd] at h
    | none =>
      simp only [hd, Option.isSome_none, Bool.false_or] at h
      by_cases hon : (c.trig r.addr).traceOn = true
      · simp [hon] at h
      · simp only [hon, Bool.false_eq_true, ↓reduceIte, Bool.or_eq_true, decide_eq_true_eq] at h
        rcases h with hh | hz
        · exact absurd hh (by simp [h6'.2])
        · apply h6'.1
          simp only [depthAfter, hd, Option.getD_none, isIn]
          exact hz

end Uft.Fstack
