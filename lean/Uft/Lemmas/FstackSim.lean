import Uft.Lemmas.FstackReplay
/- C07 helper lemmas, part 7: the replay loop (fstack_skip look-ahead, leaf folding) shows
   the same records as the fstack_check_filter loop for EVERY option set — trace_on /
   trace_off triggers, --trace=off, any trigger table — on every depth-consistent record
   stream.  Simulation: while replay holds back the line of an accepted ENTRY, the other
   loop is one display level ahead and has printed that line already. -/
set_option linter.unusedSimpArgs false
set_option linter.unusedVariables false
namespace Uft.Fstack
open Uft.Mcount (Rec Trigger Call Calls evCall evCalls)

/-- the depth fields of an ENTRY/EXIT stream are the nesting depths, `k` calls being open -/
def WFD : Nat → List Rec → Prop
  | _, [] => True
  | k, r :: rs => (r.type = 0 ∧ r.depth = k ∧ WFD (k + 1) rs) ∨ (r.type = 1 ∧ 1 ≤ k ∧ r.depth = k - 1 ∧ WFD (k - 1) rs)

theorem WFD_append_exit (k : Nat) (x : Rec) (hx : x.type = 1) (hd : x.depth = k) (tail : List Rec) (h : WFD k tail) :
    WFD (k + 1) (x :: tail) := by
  simp only [WFD]
  right
  exact ⟨hx, by omega, by simpa using hd, by simpa using h⟩

mutual
theorem WFD_evCall : ∀ (x : Call) (d : Nat) (tail : List Rec), WFD d tail → WFD d (evCall d x ++ tail)
  | .node f t0 t1 kids, d, tail, h => by
    simp only [evCall, List.singleton_append, List.cons_append, List.append_assoc, List.nil_append, WFD]
    left
    refine ⟨trivial, trivial, ?_⟩
    exact WFD_evCalls kids (d + 1) _ (WFD_append_exit d _ rfl rfl tail h)
theorem WFD_evCalls : ∀ (xs : Calls) (d : Nat) (tail : List Rec), WFD d tail → WFD d (evCalls d xs ++ tail)
  | .nil, d, tail, h => by simpa [evCalls] using h
  | .cons x rest, d, tail, h => by
    simp only [evCalls, List.append_assoc]
    exact WFD_evCall x d _ (WFD_evCalls rest d tail h)
end

theorem WFD_forest (xs : Calls) : WFD 0 (evCalls 0 xs) := by
  have := WFD_evCalls xs 0 [] trivial
  simpa using this

/-- the relation between the two loops: state of report/graph/dump, state of replay, and the
    line replay still owes -/
inductive Sim (c : RCfg) : Nat → FS → RS → List Rec → Prop
  | idle (k : Nat) (s : FS) : Sim c k s ⟨s, none⟩ []
  | pend (k : Nat) (fs : FS) (e : Rec) (d : Nat) (extra : List Fr) (fe : Fr) (rest : List Fr)
      (hen : fs.enabled = true) (hds : fs.dispSet = true) (hdd : fs.dispDepth = d)
      (hst : fs.stack = extra ++ fe :: rest) (hfe : fe.norecord = false)
      (hex : ∀ x ∈ extra, x.norecord = true) (hk : k = e.depth + 1 + extra.length) :
      Sim c k (updEntry fs) ⟨fs, some (e, d)⟩ [shown e d]

theorem account_updEntry (s : FS) (r : Rec) : account (updEntry s) r = updEntry (account s r) := by
  simp only [account, updEntry]
  split <;> rfl

theorem verdict_updEntry (c : RCfg) (s : FS) (f : Nat) : verdict c (updEntry s) f = verdict c s f := rfl

theorem fsEntry_reject_comm (c : RCfg) (s : FS) (f : Nat) (h : (fsEntry c s f).2 = false) :
    fsEntry c (updEntry s) f = (updEntry (fsEntry c s f).1, false) := by
  have hv : (verdict c s f == Verdict.accept) = false := h
  have hv' : verdict c s f ≠ Verdict.accept := by simpa using hv
  have hvu : verdict c (updEntry s) f = verdict c s f := rfl
  have hda : ∀ tr, depthAfter c (updEntry s) tr = depthAfter c s tr := fun _ => rfl
  refine Prod.ext ?_ ?_
  · apply fs_ext <;> simp only [fsEntry, hvu, hda] <;> simp [updEntry, hv']
  · show (verdict c (updEntry s) f == Verdict.accept) = false
    rw [hvu]; exact hv

theorem fsExit_updEntry (c : RCfg) (s : FS) : fsExit c (updEntry s) = updEntry (fsExit c s) := rfl

/-- a verdict past the location check is `traceOff` exactly when tracing is off after the trigger -/
theorem verdict_late (c : RCfg) (s : FS) (f : Nat) :
    (verdict c s f = Verdict.traceOff → enAfter (c.trig f) s.enabled = false) ∧
    ((verdict c s f).late = true → verdict c s f ≠ Verdict.traceOff → enAfter (c.trig f) s.enabled = true) := by
  unfold verdict
  by_cases h1 : s.outCount > 0
  · simp [h1, Verdict.late]
  · by_cases h2 : (c.trig f).filter = some false
    · simp [h1, h2, Verdict.late]
    · by_cases h3 : (!isIn (c.trig f) && c.optIn && decide (s.inCount = 0)) = true
      · simp only [h1, h2, h3, ↓reduceIte, Verdict.late]; simp
      · by_cases h4 : locReject c (c.trig f) = true
        · simp only [h1, h2, h3, h4, ↓reduceIte, Verdict.late]; simp
        · by_cases h5 : (!enAfter (c.trig f) s.enabled) = true
          · simp only [h1, h2, h3, h4, h5, ↓reduceIte, Verdict.late]
            simp at h5; simp [h5]
          · have h5' : enAfter (c.trig f) s.enabled = true := by simpa using h5
            simp only [h1, h2, h3, h4, h5, ↓reduceIte, Verdict.late]
            refine ⟨?_, fun _ _ => h5'⟩
            intro hh
            by_cases h6 : (decide (depthAfter c s (c.trig f) = 0) || c.hide f) = true <;> simp [h6] at hh

/-- facts about a rejected ENTRY that leaves tracing on -/
theorem fsEntry_reject_facts (c : RCfg) (s : FS) (f : Nat) (h : (fsEntry c s f).2 = false)
    (hen : (fsEntry c s f).1.enabled = true) (hs : s.enabled = true) :
    (fsEntry c s f).1.dispSet = s.dispSet ∧ (fsEntry c s f).1.dispDepth = s.dispDepth ∧
    (entryFr c s f).norecord = true := by
  have hv : (verdict c s f == Verdict.accept) = false := h
  have hv' : verdict c s f ≠ Verdict.accept := by simpa using hv
  obtain ⟨vl1, vl2⟩ := verdict_late c s f
  have hntr : verdict c s f ≠ Verdict.traceOff := by
    intro ht
    have h1 : (fsEntry c s f).1.enabled = enAfter (c.trig f) s.enabled := by simp [fsEntry, ht, Verdict.late]
    rw [h1, vl1 ht] at hen
    exact absurd hen (by decide)
  have hoffl : ((verdict c s f).late && (c.trig f).traceOff) = false := by
    cases hl : (verdict c s f).late with
    | false => rfl
    | true =>
      cases hto : (c.trig f).traceOff with
      | false => rfl
      | true =>
        exfalso
        have := vl2 hl hntr
        simp [enAfter, hto] at this
  refine ⟨?_, ?_, ?_⟩
  · simp [fsEntry, hv', hoffl]
  · simp [fsEntry, hv']
  · simp only [entryFr]
    cases hvv : verdict c s f <;> simp_all [Verdict.norecord]

/-- facts about an accepted ENTRY -/
theorem fsEntry_accept_facts (c : RCfg) (s : FS) (f : Nat) (h : (fsEntry c s f).2 = true) :
    (fsEntry c s f).1.enabled = true ∧ (fsEntry c s f).1.dispSet = true ∧ (entryFr c s f).norecord = false := by
  have hv : verdict c s f = Verdict.accept := by
    have : (verdict c s f == Verdict.accept) = true := h
    simpa using this
  have hea : enAfter (c.trig f) s.enabled = true :=
    (verdict_late c s f).2 (by rw [hv]; rfl) (by rw [hv]; decide)
  refine ⟨?_, ?_, ?_⟩
  · simp [fsEntry, hv, Verdict.late, hea]
  · simp [fsEntry, hv]
  · simp [entryFr, hv, Verdict.norecord]

/-- fstack_check_skip never skips an ENTRY that fstack_entry would accept (any option set, tracing on) -/
theorem checkSkip_sound_gen (c : RCfg) (s : FS) (r : Rec) (ht : r.type = 0) (hen : s.enabled = true)
    (h : checkSkip c s r = true) : verdict c s r.addr ≠ Verdict.accept := by
  intro hv
  simp only [checkSkip, ht, Nat.zero_ne_one, ↓reduceIte, decide_true, Bool.true_and, isIn] at h
  unfold verdict at hv
  split at hv <;> try exact absurd hv (by decide)
  rename_i h1
  simp only [h1, ↓reduceIte] at h
  split at hv <;> try exact absurd hv (by decide)
  rename_i h2
  simp only [h2, ↓reduceIte] at h
  split at hv <;> try exact absurd hv (by decide)
  rename_i h3
  split at hv <;> try exact absurd hv (by decide)
  rename_i h4
  split at hv <;> try exact absurd hv (by decide)
  rename_i h5
  split at hv <;> try exact absurd hv (by decide)
  rename_i h6
  -- all rejecting conditions of fstack_entry are false; show checkSkip is false
  have hoff : (c.trig r.addr).traceOff = false := by
    cases hto : (c.trig r.addr).traceOff with
    | false => rfl
    | true => simp [enAfter, hto] at h5
  have hloc : (c.trig r.addr).loc.isNone = true → c.locIn = false := by
    intro hl
    cases hl2 : (c.trig r.addr).loc with
    | none => simpa [locReject, hl2] using h4
    | some v => simp [hl2] at hl
  have h3' : (!isIn (c.trig r.addr) && c.optIn && decide (s.inCount = 0)) = false := by simpa using h3
  simp only [isIn] at h3'
  have h6' : (decide (depthAfter c s (c.trig r.addr) = 0) || c.hide r.addr) = false := by simpa using h6
  simp only [Bool.or_eq_false_iff, decide_eq_false_iff_not] at h6'
  by_cases hA : (!((c.trig r.addr).filter == some true) && (c.trig r.addr).loc.isNone && (c.optIn || c.locIn) &&
      decide (s.inCount = 0)) = true
  · simp only [Bool.and_eq_true, Bool.or_eq_true, decide_eq_true_eq, Bool.not_eq_true'] at hA
    obtain ⟨⟨⟨ha1, ha2⟩, ha3⟩, ha4⟩ := hA
    have hl := hloc ha2
    rcases ha3 with ho | hl2
    · simp [ha1, ho, ha4] at h3'
    · rw [hl] at hl2; exact absurd hl2 (by decide)
  · simp only [hA, Bool.false_eq_true, ↓reduceIte, hoff, Bool.false_or] at h
    cases hd : (c.trig r.addr).depth with
    | some v => simp [hd] at h
    | none =>
      simp only [hd, Option.isSome_none, Bool.false_or] at h
      by_cases hon : (c.trig r.addr).traceOn = true
      · simp [hon] at h
      · simp only [hon, Bool.false_eq_true, ↓reduceIte, Bool.or_eq_true, decide_eq_true_eq] at h
        rcases h with hh | hz
        · exact absurd hh (by simp [h6'.2])
        · apply h6'.1
          simp only [depthAfter, hd, Option.getD_none, isIn]
          exact hz

theorem stepA_noplt (c : RCfg) (hnl : c.noLibcall = false) (s : FS) (r : Rec) :
    stepA c s r =
      (if r.type = 0 then
         (if (fsEntry c (account s r) r.addr).2 then
            (updEntry (fsEntry c (account s r) r.addr).1, [shown r (fsEntry c (account s r) r.addr).1.dispDepth])
          else ((fsEntry c (account s r) r.addr).1, []))
       else if r.type = 1 then exitStep c (account s r) r false else (account s r, [])) := by
  simp only [stepA, isPlt_false c hnl, Bool.false_eq_true, ↓reduceIte]

/-- one record handled by replay's main loop, against the other loop -/
theorem stepMain_sim (c : RCfg) (hnl : c.noLibcall = false) (s : FS) (r : Rec) (k : Nat)
    (hr : (r.type = 0 ∧ r.depth = k) ∨ (r.type = 1 ∧ 1 ≤ k ∧ r.depth = k - 1)) :
    ∃ owed, Sim c (if r.type = 0 then k + 1 else k - 1) (stepA c s r).1 (stepBmain c s r).1 owed ∧
      (stepA c s r).2 = (stepBmain c s r).2 ++ owed := by
  rcases hr with ⟨h0, hd⟩ | ⟨h1, hk, hd⟩
  · rw [stepA_noplt c hnl, stepBmain_entry c hnl s r h0]
    simp only [h0, ↓reduceIte]
    cases hp : (fsEntry c (account s r) r.addr).2 with
    | false => exact ⟨[], by simpa using Sim.idle _ _, by simp⟩
    | true =>
      simp only [Bool.not_true, Bool.false_eq_true, ↓reduceIte]
      cases hm : c.noMerge with
      | true => exact ⟨[], by simpa using Sim.idle _ _, by simp⟩
      | false =>
        simp only [Bool.false_eq_true, ↓reduceIte]
        obtain ⟨a1, a2, a3⟩ := fsEntry_accept_facts c (account s r) r.addr hp
        refine ⟨[shown r (fsEntry c (account s r) r.addr).1.dispDepth], ?_, by simp⟩
        exact Sim.pend (k + 1) _ r _ [] (entryFr c (account s r) r.addr) (account s r).stack a1 a2 rfl
          (by simp [fsEntry_stack]) a3 (by simp) (by simp [hd])
  · have h0 : ¬ r.type = 0 := by omega
    rw [stepA_noplt c hnl, stepBmain_exit c hnl s r h1]
    simp only [h0, h1, ↓reduceIte]
    exact ⟨[], by simpa using Sim.idle _ _, by simp⟩

theorem runB_cons (c : RCfg) (s : RS) (r : Rec) (rs : List Rec) :
    runB c s (r :: rs) = (stepB c s r).2 ++ runB c (stepB c s r).1 rs := rfl

theorem runSteps_cons (step : FS → Rec → FS × List Rec) (s : FS) (r : Rec) (rs : List Rec) :
    runSteps step s (r :: rs) = (step s r).2 ++ runSteps step (step s r).1 rs := rfl

/-- replay's loop shows what the fstack_check_filter loop shows: any option set, any depth-consistent stream -/
theorem sim_run (c : RCfg) (hnl : c.noLibcall = false) : ∀ (rs : List Rec) (k : Nat) (sA : FS) (sB : RS) (owed : List Rec),
    Sim c k sA sB owed → WFD k rs → runB c sB rs = owed ++ runSteps (stepA c) sA rs
  | [], k, sA, sB, owed, hs, _ => by
    cases hs with
    | idle => rfl
    | pend => rfl
  | r :: rs, k, sA, sB, owed, hs, hw => by
    simp only [WFD] at hw
    have hr : (r.type = 0 ∧ r.depth = k) ∨ (r.type = 1 ∧ 1 ≤ k ∧ r.depth = k - 1) := by
      rcases hw with ⟨a, b, _⟩ | ⟨a, b, c', _⟩
      · exact Or.inl ⟨a, b⟩
      · exact Or.inr ⟨a, b, c'⟩
    have hw' : WFD (if r.type = 0 then k + 1 else k - 1) rs := by
      rcases hw with ⟨a, b, w⟩ | ⟨a, b, c', w⟩
      · simpa [a] using w
      · have : ¬ r.type = 0 := by omega
        simpa [this] using w
    have ht : r.type ≤ 1 := by rcases hr with ⟨a, _⟩ | ⟨a, _⟩ <;> omega
    rw [runB_cons, runSteps_cons]
    cases hs with
    | idle =>
      obtain ⟨ow, hsim, hout⟩ := stepMain_sim c hnl sA r k hr
      have hB : stepB c ⟨sA, none⟩ r = stepBmain c sA r := rfl
      rw [hB, sim_run c hnl rs _ _ _ ow hsim hw', hout]
      simp [List.append_assoc]
    | pend fs e d extra fe rest hen hds hdd hst hfe hex hk =>
      by_cases hle : r.depth ≤ e.depth
      · -- only the EXIT of the pending ENTRY is not deeper: folded leaf
        have hx : r.type = 1 ∧ extra = [] ∧ r.depth = e.depth := by
          rcases hr with ⟨a, b⟩ | ⟨a, b, c'⟩
          · omega
          · have : extra.length = 0 := by omega
            exact ⟨a, List.eq_nil_of_length_eq_zero this, by omega⟩
        obtain ⟨h1, hnil, hd⟩ := hx
        subst hnil
        rw [stepB_pend_leaf c fs e d r hd h1]
        have h0 : ¬ r.type = 0 := by omega
        rw [stepA_noplt c hnl]
        simp only [h0, h1, ↓reduceIte]
        have hacc := account_updEntry fs r
        obtain ⟨a1, a2, a3, a4, a5, a6, a7, a8, a9⟩ :
            (account fs r).stack = fs.stack ∧ (account fs r).enabled = fs.enabled ∧
            (account fs r).dispDepth = fs.dispDepth ∧ (account fs r).dispSet = fs.dispSet ∧ True ∧ True ∧ True ∧ True ∧ True := by
          simp only [account]; split <;> simp
        have htop : topFr c (account (updEntry fs) r) = fe := by
          rw [hacc]; simp [topFr, updEntry, a1, hst]
        have hen' : (account (updEntry fs) r).enabled = true := by rw [hacc]; simp [updEntry, a2, hen]
        have hback : updExit (updEntry (account fs r)) = account fs r := by
          have e3 := a3; have e4 := a4
          rw [hds] at e4
          generalize account fs r = A at e3 e4
          cases A
          simp only at e4
          subst e4
          simp [updExit, updEntry]
        have hstate : fsExit c (updExit (account (updEntry fs) r)) = fsExit c (account fs r) := by
          rw [hacc, hback]
        have hdisp : (updExit (account (updEntry fs) r)).dispDepth = d := by
          rw [hacc]; simp [updExit, updEntry, a3, a4, hds, hdd]
        unfold exitStep
        rw [htop, hfe, hen']
        simp only [Bool.not_true, Bool.or_self, Bool.false_eq_true, ↓reduceIte, hstate, hdisp]
        rw [sim_run c hnl rs _ _ _ [] (Sim.idle _ _) hw']
        simp
      · have hlt : e.depth < r.depth := by omega
        rw [stepB_pend_deeper c hnl fs e d r hlt ht]
        by_cases hk2 : checkSkip c fs r = true
        · simp only [hk2, ↓reduceIte]
          rcases hr with ⟨h0, hd⟩ | ⟨h1, hk1, hd⟩
          · -- a skipped ENTRY: fstack_entry rejects it
            simp only [h0, ↓reduceIte]
            have hrej : (fsEntry c (account fs r) r.addr).2 = false := by
              have hen2 : (account fs r).enabled = true := by
                simp only [account]; split <;> simp [hen]
              have hcs : checkSkip c (account fs r) r = true := by
                have : ∀ s' : FS, s'.inCount = fs.inCount → s'.outCount = fs.outCount → s'.depth = fs.depth →
                    checkSkip c s' r = checkSkip c fs r := by
                  intro s' e1 e2 e3
                  simp only [checkSkip, h0, Nat.zero_ne_one, ↓reduceIte, e1, e2, e3]
                rw [this _ (by simp only [account]; split <;> rfl) (by simp only [account]; split <;> rfl)
                  (by simp only [account]; split <;> rfl)]
                exact hk2
              have := checkSkip_sound_gen c (account fs r) r h0 hen2 hcs
              show (verdict c (account fs r) r.addr == Verdict.accept) = false
              simpa using this
            have hcomm : stepA c (updEntry fs) r = (updEntry (fsEntry c (account fs r) r.addr).1, []) := by
              rw [stepA_noplt c hnl]
              simp only [h0, ↓reduceIte, account_updEntry, fsEntry_reject_comm c _ _ hrej, Bool.false_eq_true]
            rw [hcomm]
            cases hen3 : (fsEntry c (account fs r) r.addr).1.enabled with
            | false =>
              simp only [Bool.not_false, ↓reduceIte]
              rw [sim_run c hnl rs _ _ _ [] (Sim.idle _ _) (by simpa [h0] using hw')]
            | true =>
              simp only [Bool.not_true, Bool.false_eq_true, ↓reduceIte]
              have hen2 : (account fs r).enabled = true := by
                simp only [account]; split <;> simp [hen]
              obtain ⟨f1, f2, f3⟩ := fsEntry_reject_facts c (account fs r) r.addr hrej hen3 hen2
              have hacs : (account fs r).stack = fs.stack ∧ (account fs r).dispSet = fs.dispSet ∧
                  (account fs r).dispDepth = fs.dispDepth := by
                simp only [account]; split <;> simp
              have hsim : Sim c (k + 1) (updEntry (fsEntry c (account fs r) r.addr).1)
                  ⟨(fsEntry c (account fs r) r.addr).1, some (e, d)⟩ [shown e d] :=
                Sim.pend (k + 1) _ e d (entryFr c (account fs r) r.addr :: extra) fe rest hen3
                  (by rw [f1, hacs.2.1, hds]) (by rw [f2, hacs.2.2, hdd])
                  (by rw [fsEntry_stack, hacs.1, hst]; rfl) hfe
                  (by intro x hx; simp only [List.mem_cons] at hx; rcases hx with rfl | hx; exact f3; exact hex x hx)
                  (by simp only [List.length_cons]; omega)
              rw [sim_run c hnl rs _ _ _ _ hsim (by simpa [h0] using hw')]
              simp
          · -- a skipped EXIT: of a frame pushed while skipping (NORECORD)
            have h0 : ¬ r.type = 0 := by omega
            simp only [h0, ↓reduceIte]
            have hne : extra ≠ [] := by
              intro hn; subst hn; simp at hk; omega
            obtain ⟨x0, xs, hxs⟩ := List.exists_cons_of_ne_nil hne
            subst hxs
            have hacs : (account fs r).stack = fs.stack ∧ (account fs r).enabled = fs.enabled ∧
                (account fs r).dispSet = fs.dispSet ∧ (account fs r).dispDepth = fs.dispDepth := by
              simp only [account]; split <;> simp
            have hen4 : (fsExit c (account fs r)).enabled = true := by simp [fsExit, hacs.2.1, hen]
            have hcomm : stepA c (updEntry fs) r = (updEntry (fsExit c (account fs r)), []) := by
              rw [stepA_noplt c hnl]
              simp only [h0, h1, ↓reduceIte, account_updEntry]
              unfold exitStep
              have htop : topFr c (updEntry (account fs r)) = x0 := by simp [topFr, updEntry, hacs.1, hst]
              rw [htop, hex x0 (by simp)]
              simp [fsExit_updEntry]
            rw [hcomm, hen4]
            simp only [Bool.not_true, Bool.false_eq_true, ↓reduceIte]
            have hsim : Sim c (k - 1) (updEntry (fsExit c (account fs r))) ⟨fsExit c (account fs r), some (e, d)⟩
                [shown e d] :=
              Sim.pend (k - 1) _ e d xs fe rest hen4 (by simp [fsExit, hacs.2.2.1, hds])
                (by simp [fsExit, hacs.2.2.2, hdd]) (by simp [fsExit, hacs.1, hst]) hfe
                (fun x hx => hex x (by simp [hx])) (by simp only [List.length_cons] at hk; omega)
            rw [sim_run c hnl rs _ _ _ _ hsim (by simpa [h0] using hw')]
            simp
        · -- not skipped: the pending line is printed, the main loop handles the record
          simp only [hk2, Bool.false_eq_true, ↓reduceIte]
          obtain ⟨ow, hsim, hout⟩ := stepMain_sim c hnl (updEntry fs) r k hr
          rw [sim_run c hnl rs _ _ _ ow hsim hw', hout]
          simp [List.append_assoc]

end Uft.Fstack
