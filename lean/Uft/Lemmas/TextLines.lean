import Uft.Model.InfoFile
import Uft.Model.TaskTxt
/-
C12 — lemmas about lines: with the C12-F18 fixes (`nlGate true`) every line reader sees exactly
the newline-terminated lines of a file, so reading a file and reading its longest whole-line
prefix (`wholeLines`) are the same thing.
-/
namespace Uft.TextScan

/-! ### `wholeLines` -/

theorem wholeLines_cons (c : UInt8) (r : Bytes) :
    wholeLines (c :: r) = if (c :: r).contains NL then c :: wholeLines r else [] := rfl

theorem wholeLines_length_le (s : Bytes) : (wholeLines s).length ≤ s.length := by
  induction s with
  | nil => simp [wholeLines]
  | cons c r ih =>
    rw [wholeLines_cons]
    split
    · simp; omega
    · simp

theorem wholeLines_of_not_contains {s : Bytes} (h : s.contains NL = false) : wholeLines s = [] := by
  cases s with
  | nil => rfl
  | cons c r => rw [wholeLines_cons, h]; rfl

/-- a string that ends with a newline is its own whole-line prefix -/
theorem wholeLines_append_nl (s : Bytes) : wholeLines (s ++ [NL]) = s ++ [NL] := by
  induction s with
  | nil => simp [wholeLines]
  | cons c r ih =>
    rw [List.cons_append, wholeLines_cons, ih]
    have : (c :: (r ++ [NL])).contains NL = true := by simp
    rw [this]; rfl

/-- whole lines in front stay -/
theorem wholeLines_nl_append (l t : Bytes) :
    wholeLines (l ++ NL :: t) = l ++ NL :: wholeLines t := by
  induction l with
  | nil =>
    rw [List.nil_append, wholeLines_cons]
    have : (NL :: t).contains NL = true := by simp
    rw [this]; rfl
  | cons c r ih =>
    rw [List.cons_append, wholeLines_cons, ih]
    have : (c :: (r ++ NL :: t)).contains NL = true := by simp
    rw [this]; rfl

theorem wholeLines_idem (s : Bytes) : wholeLines (wholeLines s) = wholeLines s := by
  induction s with
  | nil => rfl
  | cons c r ih =>
    rw [wholeLines_cons]
    split
    · rename_i h
      rw [wholeLines_cons, ih]
      by_cases hc : c = NL
      · subst hc
        have : (NL :: wholeLines r).contains NL = true := by simp
        rw [this]; rfl
      · have hr : r.contains NL = true := by
          simp only [List.contains_cons, Bool.or_eq_true, beq_iff_eq] at h
          rcases h with h | h
          · exact absurd h.symm hc
          · exact h
        have : (wholeLines r).contains NL = true := by
          cases r with
          | nil => simp at hr
          | cons d q =>
            rw [wholeLines_cons, hr]
            simp only [↓reduceIte]
            by_cases hd : d = NL
            · subst hd; simp
            · -- the first whole line of `d :: q` is kept, and it ends with NL
              clear ih h
              induction q generalizing d with
              | nil =>
                simp only [List.contains_cons, List.contains_nil, Bool.or_false, beq_iff_eq] at hr
                exact absurd hr.symm hd
              | cons e q ih2 =>
                have hq : (e :: q).contains NL = true := by
                  simp only [List.contains_cons, Bool.or_eq_true, beq_iff_eq] at hr ⊢
                  rcases hr with hr | hr
                  · exact absurd hr.symm hd
                  · exact hr
                rw [wholeLines_cons, hq]
                simp only [↓reduceIte]
                by_cases he : e = NL
                · subst he; simp
                · have := ih2 e hq he
                  simp only [List.contains_cons, Bool.or_eq_true, beq_iff_eq] at this ⊢
                  rcases this with this | this
                  · exact absurd this.symm he
                  · right; right; exact this
        simp only [List.contains_cons, this, Bool.or_true, ↓reduceIte]
    · rfl

theorem wholeLines_eq_nil_iff (s : Bytes) : wholeLines s = [] ↔ s.contains NL = false := by
  cases s with
  | nil => simp [wholeLines]
  | cons c r =>
    rw [wholeLines_cons]
    cases h : (c :: r).contains NL <;> simp

/-- `wholeLines s` is the prefix of `s` that ends at its last newline: what is behind it holds no
    newline … -/
theorem wholeLines_prefix (s : Bytes) : ∃ t, s = wholeLines s ++ t ∧ t.contains NL = false := by
  induction s with
  | nil => exact ⟨[], rfl, rfl⟩
  | cons c r ih =>
    rw [wholeLines_cons]
    cases h : (c :: r).contains NL with
    | false => exact ⟨c :: r, rfl, h⟩
    | true =>
      obtain ⟨t, ht, hn⟩ := ih
      refine ⟨t, ?_, hn⟩
      simp only [↓reduceIte, List.cons_append]
      rw [← ht]

/-- … and it is empty or ends with a newline -/
theorem wholeLines_last (s : Bytes) : wholeLines s = [] ∨ (wholeLines s).getLast? = some NL := by
  induction s with
  | nil => exact .inl rfl
  | cons c r ih =>
    rw [wholeLines_cons]
    cases h : (c :: r).contains NL with
    | false => exact .inl rfl
    | true =>
      right
      simp only [↓reduceIte]
      rcases ih with ih | ih
      · rw [ih]
        have hr := (wholeLines_eq_nil_iff r).1 ih
        simp only [List.contains_cons, hr, Bool.or_false, beq_iff_eq] at h
        simp [h]
      · rw [List.getLast?_cons]
        simp [ih]

/-! ### `fgets` / `getline` against `wholeLines` -/

theorem fgetsAux_append (n : Nat) (s : Bytes) : (fgetsAux n s).1 ++ (fgetsAux n s).2 = s := by
  induction n generalizing s with
  | zero => simp [fgetsAux]
  | succ n ih =>
    cases s with
    | nil => simp [fgetsAux]
    | cons c r =>
      simp only [fgetsAux]
      split
      · simp
      · simp [ih r]

theorem contains_of_fgetsAux {n : Nat} {s : Bytes} (h : (fgetsAux n s).1.contains NL = true) :
    s.contains NL = true := by
  have := fgetsAux_append n s
  rw [← this]
  simp only [List.contains_eq_mem, List.mem_append, decide_eq_true_eq] at h ⊢
  exact Or.inl h

/-- a chunk that holds its newline is read the same from the whole-line prefix, and what is left
    is the whole-line prefix of what was left -/
theorem fgetsAux_whole (n : Nat) (s : Bytes) (h : (fgetsAux n s).1.contains NL = true) :
    fgetsAux n (wholeLines s) = ((fgetsAux n s).1, wholeLines (fgetsAux n s).2) := by
  induction n generalizing s with
  | zero => simp [fgetsAux] at h
  | succ n ih =>
    cases s with
    | nil => simp [fgetsAux] at h
    | cons c r =>
      have hs := contains_of_fgetsAux h
      rw [wholeLines_cons, hs]
      simp only [↓reduceIte, fgetsAux] at h ⊢
      split
      · rfl
      · rename_i hc
        rw [if_neg hc] at h
        have h' : (fgetsAux n r).1.contains NL = true := by
          simp only [List.contains_cons, Bool.or_eq_true] at h
          rcases h with h | h
          · exact absurd (by rw [beq_iff_eq] at h ⊢; exact h.symm) hc
          · exact h
        rw [ih r h']

/-- a chunk without newline: the chunk read from the whole-line prefix has none either -/
theorem fgetsAux_whole_none (n : Nat) (s : Bytes) (h : (fgetsAux n s).1.contains NL = false) :
    (fgetsAux n (wholeLines s)).1.contains NL = false := by
  induction n generalizing s with
  | zero => simp [fgetsAux]
  | succ n ih =>
    cases s with
    | nil => simp [fgetsAux, wholeLines]
    | cons c r =>
      rw [wholeLines_cons]
      split
      · simp only [fgetsAux] at h ⊢
        split
        · rename_i hc; rw [if_pos hc] at h
          have hc' : c = NL := by simpa using hc
          subst hc'
          simp at h
        · rename_i hc; rw [if_neg hc] at h
          simp only [List.contains_cons, Bool.or_eq_false_iff] at h ⊢
          exact ⟨h.1, ih r h.2⟩
      · simp [fgetsAux]

theorem fgetsAux_cap (n m : Nat) (s : Bytes) (hn : s.length ≤ n) (hm : s.length ≤ m) :
    fgetsAux n s = fgetsAux m s := by
  induction s generalizing n m with
  | nil => cases n <;> cases m <;> simp [fgetsAux]
  | cons c r ih =>
    cases n with
    | zero => simp at hn
    | succ n =>
      cases m with
      | zero => simp at hm
      | succ m =>
        simp only [fgetsAux]
        simp only [List.length_cons] at hn hm
        rw [ih n m (by omega) (by omega)]

theorem terminated_contains {l : Bytes} (h : terminated l = true) : l.contains NL = true := by
  unfold terminated cstr at h
  simp only [List.contains_eq_mem, decide_eq_true_eq] at h ⊢
  exact (List.takeWhile_sublist _).subset h

theorem wholeLines_ne_nil_of_chunk {n : Nat} {s : Bytes} (h : (fgetsAux n s).1.contains NL = true) :
    wholeLines s ≠ [] := by
  have hs := contains_of_fgetsAux h
  cases s with
  | nil => simp at hs
  | cons c r => rw [wholeLines_cons, hs]; simp

/-- how a gated line source behaves on the whole-line prefix of the stream -/
def WholeGet (get : Bytes → Option (Bytes × Bytes)) : Prop :=
  ∀ s, (get s = none → get (wholeLines s) = none) ∧
       (∀ l r, get s = some (l, r) → get (wholeLines s) = some (l, wholeLines r))

theorem nlGate_fgetsAux_whole (n m : Nat) (s : Bytes) (hs : s ≠ [])
    (hm : fgetsAux m (wholeLines s) = fgetsAux n (wholeLines s)) :
    (nlGate true (some (fgetsAux n s)) = none →
        wholeLines s = [] ∨ nlGate true (some (fgetsAux m (wholeLines s))) = none) ∧
    (∀ l r, nlGate true (some (fgetsAux n s)) = some (l, r) →
        wholeLines s ≠ [] ∧ nlGate true (some (fgetsAux m (wholeLines s))) = some (l, wholeLines r)) := by
  rw [hm]
  constructor
  · intro hg
    simp only [nlGate, Bool.true_and, Bool.not_eq_eq_eq_not, Bool.not_true] at hg
    split at hg
    · rename_i ht
      by_cases hc : (fgetsAux n s).1.contains NL = true
      · right
        rw [fgetsAux_whole n s hc]
        simp only [nlGate, Bool.true_and, Bool.not_eq_eq_eq_not, Bool.not_true, ht, ↓reduceIte]
      · right
        have hc' := fgetsAux_whole_none n s (by simpa using hc)
        have : terminated (fgetsAux n (wholeLines s)).1 = false := by
          cases h : terminated (fgetsAux n (wholeLines s)).1 with
          | false => rfl
          | true => have := terminated_contains h; rw [hc'] at this; simp at this
        simp only [nlGate, Bool.true_and, Bool.not_eq_eq_eq_not, Bool.not_true, this, ↓reduceIte]
    · simp at hg
  · intro l r hg
    simp only [nlGate, Bool.true_and, Bool.not_eq_eq_eq_not, Bool.not_true] at hg
    split at hg
    · simp at hg
    · rename_i ht
      simp only [Bool.not_eq_false] at ht
      simp only [Option.some.injEq] at hg
      have hc := terminated_contains ht
      refine ⟨wholeLines_ne_nil_of_chunk hc, ?_⟩
      rw [fgetsAux_whole n s hc]
      obtain ⟨h1, h2⟩ := Prod.mk.inj hg
      subst h1 h2
      simp [nlGate, ht]

theorem fgets_of_ne_nil {cap : Nat} {s : Bytes} (h : s ≠ []) : fgets cap s = some (fgetsAux (cap - 1) s) := by
  unfold fgets
  cases s with
  | nil => exact absurd rfl h
  | cons c r => rfl

/-- `fgets(buf, cap, fp)` behind the newline gate -/
theorem wholeGet_fgets (cap : Nat) : WholeGet (fun s => nlGate true (fgets cap s)) := by
  intro s
  by_cases hs : s = []
  · subst hs
    simp [wholeLines, fgets, nlGate]
  · have key := nlGate_fgetsAux_whole (cap - 1) (cap - 1) s hs rfl
    simp only [fgets_of_ne_nil hs]
    constructor
    · intro hg
      rcases key.1 hg with hw | hw
      · rw [hw]; simp [fgets, nlGate]
      · by_cases hw0 : wholeLines s = []
        · rw [hw0]; simp [fgets, nlGate]
        · rw [fgets_of_ne_nil hw0]; exact hw
    · intro l r hg
      obtain ⟨hw0, hw⟩ := key.2 l r hg
      rw [fgets_of_ne_nil hw0]; exact hw

/-- `getline` behind the newline gate -/
theorem wholeGet_getline : WholeGet (fun s => nlGate true (getline s)) := by
  intro s
  by_cases hs : s = []
  · subst hs
    simp [wholeLines, getline, fgets, nlGate]
  · have hcap : fgetsAux ((wholeLines s).length + 2 - 1) (wholeLines s) =
        fgetsAux (s.length + 2 - 1) (wholeLines s) := by
      apply fgetsAux_cap
      · omega
      · have := wholeLines_length_le s; omega
    have key := nlGate_fgetsAux_whole (s.length + 2 - 1) ((wholeLines s).length + 2 - 1) s hs hcap
    simp only [getline, fgets_of_ne_nil hs]
    constructor
    · intro hg
      rcases key.1 hg with hw | hw
      · rw [hw]; simp [fgets, nlGate]
      · by_cases hw0 : wholeLines s = []
        · rw [hw0]; simp [fgets, nlGate]
        · rw [fgets_of_ne_nil hw0]; exact hw
    · intro l r hg
      obtain ⟨hw0, hw⟩ := key.2 l r hg
      rw [fgets_of_ne_nil hw0]; exact hw

/-! ### the line loop -/

/-- the loop reads the same from the stream and from its whole-line prefix (same fuel) -/
theorem lineLoop_whole {σ : Type} {get : Bytes → Option (Bytes × Bytes)} (hg : WholeGet get)
    (step : σ → Bytes → PR (σ × Bool)) (n : Nat) (s : Bytes) (st : σ) :
    lineLoop get step n (wholeLines s) st = lineLoop get step n s st := by
  induction n generalizing s st with
  | zero => rfl
  | succ n ih =>
    unfold lineLoop
    cases h : get s with
    | none => rw [(hg s).1 h]
    | some p =>
      obtain ⟨l, r⟩ := p
      rw [(hg s).2 l r h]
      simp only
      cases step st l with
      | ok q =>
        obtain ⟨st1, c⟩ := q
        cases c with
        | true => exact ih r st1
        | false => rfl
      | err e => rfl
      | oob t => rfl

/-- a line source that consumes at least one byte per line -/
def Shrinks (get : Bytes → Option (Bytes × Bytes)) : Prop :=
  ∀ s l r, get s = some (l, r) → r.length < s.length

/-- any fuel above the length of the stream gives the same result -/
theorem lineLoop_fuel {σ : Type} {get : Bytes → Option (Bytes × Bytes)} (hg : Shrinks get)
    (step : σ → Bytes → PR (σ × Bool)) (n m : Nat) (s : Bytes) (st : σ)
    (hn : s.length < n) (hm : s.length < m) :
    lineLoop get step n s st = lineLoop get step m s st := by
  induction n generalizing m s st with
  | zero => omega
  | succ n ih =>
    cases m with
    | zero => omega
    | succ m =>
      unfold lineLoop
      cases h : get s with
      | none => rfl
      | some p =>
        obtain ⟨l, r⟩ := p
        simp only
        have := hg s l r h
        cases step st l with
        | ok q =>
          obtain ⟨st1, c⟩ := q
          cases c with
          | true => exact ih m r st1 (by omega) (by omega)
          | false => rfl
        | err e => rfl
        | oob t => rfl

theorem fgetsAux_shrinks {n : Nat} {c : UInt8} {r : Bytes} :
    (fgetsAux (n + 1) (c :: r)).2.length < (c :: r).length := by
  have := fgetsAux_append (n + 1) (c :: r)
  have h1 : (fgetsAux (n + 1) (c :: r)).1.length ≥ 1 := by
    simp only [fgetsAux]
    split <;> simp
  have h2 := congrArg List.length this
  simp only [List.length_append] at h2
  omega

theorem nlGate_some {nl : Bool} {x : Option (Bytes × Bytes)} {l r : Bytes}
    (h : nlGate nl x = some (l, r)) : x = some (l, r) := by
  unfold nlGate at h
  split at h
  · split at h
    · simp at h
    · exact h ▸ rfl
  · simp at h

theorem shrinks_fgets (nl : Bool) (cap : Nat) (hc : 2 ≤ cap) :
    Shrinks (fun s => nlGate nl (fgets cap s)) := by
  intro s l r h
  have h := nlGate_some h
  cases s with
  | nil => simp [fgets] at h
  | cons c q =>
    rw [fgets_of_ne_nil (by simp)] at h
    simp only [Option.some.injEq] at h
    obtain ⟨k, hk⟩ : ∃ k, cap - 1 = k + 1 := ⟨cap - 2, by omega⟩
    rw [hk] at h
    have := @fgetsAux_shrinks k c q
    rw [h] at this
    exact this

theorem shrinks_getline (nl : Bool) : Shrinks (fun s => nlGate nl (getline s)) := by
  intro s l r h
  have h := nlGate_some h
  cases s with
  | nil => simp [getline, fgets] at h
  | cons c q =>
    unfold getline at h
    rw [fgets_of_ne_nil (by simp)] at h
    simp only [Option.some.injEq] at h
    have := @fgetsAux_shrinks ((c :: q).length) c q
    have e : (c :: q).length + 2 - 1 = (c :: q).length + 1 := by omega
    rw [e] at h
    rw [h] at this
    exact this

/-- reading a stream with the fuel `length + 1` = reading its whole-line prefix with its own -/
theorem lineLoop_whole_fuel {σ : Type} {get : Bytes → Option (Bytes × Bytes)} (hw : WholeGet get)
    (hs : Shrinks get) (step : σ → Bytes → PR (σ × Bool)) (s : Bytes) (st : σ) :
    lineLoop get step ((wholeLines s).length + 1) (wholeLines s) st =
      lineLoop get step (s.length + 1) s st := by
  rw [← lineLoop_whole hw step (s.length + 1) s st]
  exact lineLoop_fuel hs step _ _ _ _ (by omega) (by have := wholeLines_length_le s; omega)

/-! ### lines as records -/

theorem wholeLines_joinLines (ls : List Bytes) : wholeLines (joinLines ls) = joinLines ls := by
  induction ls with
  | nil => rfl
  | cons l ls ih => rw [joinLines, wholeLines_nl_append, ih]

/-- the whole-line prefix of a cut file is the file made of the lines that are completely present -/
theorem wholeLines_take_joinLines (ls : List Bytes) (hl : ∀ l ∈ ls, l.contains NL = false) (k : Nat) :
    wholeLines ((joinLines ls).take k) = joinLines (ls.take (wholeLinesBefore ls k)) := by
  induction ls generalizing k with
  | nil => simp [joinLines, wholeLinesBefore, wholeLines]
  | cons l ls ih =>
    have hl0 : l.contains NL = false := hl l (by simp)
    have hls : ∀ x ∈ ls, x.contains NL = false := fun x hx => hl x (by simp [hx])
    simp only [wholeLinesBefore]
    split
    · rename_i hk
      -- the first line is whole
      have e : (joinLines (l :: ls)).take k = l ++ NL :: (joinLines ls).take (k - (l.length + 1)) := by
        rw [joinLines, List.take_append]
        have : l.take k = l := List.take_of_length_le (by omega)
        rw [this]
        congr 1
        have : k - l.length = (k - (l.length + 1)) + 1 := by omega
        rw [this, List.take_succ_cons]
      rw [e, wholeLines_nl_append, ih hls]
      have : 1 + wholeLinesBefore ls (k - (l.length + 1)) = wholeLinesBefore ls (k - (l.length + 1)) + 1 := by omega
      rw [this, List.take_succ_cons, joinLines]
    · rename_i hk
      -- the cut is inside the first line: no newline at all
      simp only [List.take_zero, joinLines]
      apply wholeLines_of_not_contains
      have : (l ++ NL :: joinLines ls).take k = l.take k := by
        rw [List.take_append]
        have : k - l.length = 0 := by omega
        rw [this]; simp
      rw [this]
      cases h : (l.take k).contains NL with
      | false => rfl
      | true =>
        simp only [List.contains_eq_mem, decide_eq_true_eq] at h
        have := List.mem_of_mem_take h
        simp only [List.contains_eq_mem, decide_eq_false_iff_not] at hl0
        exact absurd this hl0

/-! ### a file of whole lines is read line by line -/

/-- what the loop does with a list of line buffers -/
def foldLines {σ : Type} (step : σ → Bytes → PR (σ × Bool)) : List Bytes → σ → PR σ
  | [], st => .ok st
  | l :: ls, st =>
    match step st l with
    | .ok (st1, true) => foldLines step ls st1
    | .ok (st1, false) => .ok st1
    | .err e => .err e
    | .oob t => .oob t

theorem fgetsAux_line (n : Nat) (l t : Bytes) (hl : l.contains NL = false) (hn : l.length < n) :
    fgetsAux n (l ++ NL :: t) = (l ++ [NL], t) := by
  induction l generalizing n with
  | nil =>
    cases n with
    | zero => omega
    | succ n => simp [fgetsAux]
  | cons c r ih =>
    cases n with
    | zero => omega
    | succ n =>
      simp only [List.contains_cons, Bool.or_eq_false_iff] at hl
      simp only [List.cons_append, fgetsAux]
      have hc : (c == NL) = false := by
        cases h : c == NL with
        | false => rfl
        | true =>
          have : c = NL := by simpa using h
          subst this
          simp at hl
      rw [hc]
      simp only [Bool.false_eq_true, ↓reduceIte]
      rw [ih n hl.2 (by simp only [List.length_cons] at hn; omega)]

theorem takeWhile_all {α : Type} (p : α → Bool) (l : List α) (h : ∀ x ∈ l, p x = true) :
    l.takeWhile p = l := by
  induction l with
  | nil => rfl
  | cons c r ih =>
    simp only [List.takeWhile, h c (by simp)]
    rw [ih (fun x hx => h x (by simp [hx]))]

/-- a line without NUL bytes that ends with its newline passes the gate -/
theorem terminated_line (l : Bytes) (h0 : l.contains 0 = false) : terminated (l ++ [NL]) = true := by
  unfold terminated cstr
  have : (l ++ [NL]).takeWhile (· != 0) = l ++ [NL] := by
    apply takeWhile_all
    intro x hx
    simp only [List.mem_append, List.mem_cons, List.not_mem_nil, or_false] at hx
    rcases hx with hx | hx
    · simp only [bne_iff_ne, ne_eq]
      intro hx0
      subst hx0
      simp only [List.contains_eq_mem, decide_eq_false_iff_not] at h0
      exact h0 hx
    · subst hx; decide
  rw [this]
  simp

theorem getline_line (nl : Bool) (l t : Bytes) (hl : l.contains NL = false) (h0 : l.contains 0 = false) :
    nlGate nl (getline (l ++ NL :: t)) = some (l ++ [NL], t) := by
  unfold getline
  rw [fgets_of_ne_nil (by simp)]
  rw [fgetsAux_line _ l t hl (by simp; omega)]
  simp [nlGate, terminated_line l h0]

/-- on a file made of whole lines the `getline` loops (with or without the newline fix) handle
    exactly those lines, in order -/
theorem lineLoop_joinLines {σ : Type} (nl : Bool) (step : σ → Bytes → PR (σ × Bool)) (ls : List Bytes)
    (hl : ∀ l ∈ ls, CleanLine l) (n : Nat) (hn : (joinLines ls).length < n) (st : σ) :
    lineLoop (fun s => nlGate nl (getline s)) step n (joinLines ls) st =
      foldLines step (ls.map (· ++ [NL])) st := by
  induction ls generalizing n st with
  | nil =>
    cases n with
    | zero => simp [joinLines] at hn
    | succ n => simp [lineLoop, joinLines, getline, fgets, nlGate, foldLines]
  | cons l ls ih =>
    cases n with
    | zero => omega
    | succ n =>
      have hc := hl l (by simp)
      simp only [joinLines, lineLoop, List.map_cons, foldLines]
      rw [getline_line nl l _ hc.1 hc.2]
      simp only
      cases step st (l ++ [NL]) with
      | ok q =>
        obtain ⟨st1, c⟩ := q
        cases c with
        | true =>
          simp only
          apply ih (fun x hx => hl x (by simp [hx]))
          simp only [joinLines, List.length_append, List.length_cons] at hn
          omega
        | false => rfl
      | err e => rfl
      | oob t => rfl

end Uft.TextScan

namespace Uft.TaskTxt
open Uft.TextScan

theorem wholeGet_getLineG : WholeGet (getLineG true) := wholeGet_getline
theorem shrinks_getLineG (nl : Bool) : Shrinks (getLineG nl) := shrinks_getline nl
theorem wholeGet_getMapLineG : WholeGet (getMapLineG true) := wholeGet_fgets 4096
theorem shrinks_getMapLineG (nl : Bool) : Shrinks (getMapLineG nl) := shrinks_fgets nl 4096 (by omega)

/-- task.txt: reading the file = reading its longest whole-line prefix -/
theorem parseTaskTxt_whole (fixed : Bool) (s : Bytes) :
    parseTaskTxt fixed true (wholeLines s) = parseTaskTxt fixed true s := by
  unfold parseTaskTxt parseLines
  rw [lineLoop_whole_fuel wholeGet_getLineG (shrinks_getLineG true)]

theorem parseMap_whole (fixed : Bool) (s : Bytes) :
    parseMap fixed true (wholeLines s) = parseMap fixed true s := by
  unfold parseMap mapLines
  rw [lineLoop_whole_fuel wholeGet_getMapLineG (shrinks_getMapLineG true)]

theorem checkSymFile_whole (fixed : Bool) (s : Bytes) :
    checkSymFile fixed true (wholeLines s) = checkSymFile fixed true s := by
  unfold checkSymFile checkLoop
  rw [lineLoop_whole_fuel wholeGet_getLineG (shrinks_getLineG true)]

theorem symLines_whole (fixed : Bool) (s : Bytes) :
    symLines fixed true ((wholeLines s).length + 1) (wholeLines s) = symLines fixed true (s.length + 1) s := by
  unfold symLines
  rw [lineLoop_whole_fuel wholeGet_getLineG (shrinks_getLineG true)]

theorem parseSym_whole (fixed : Bool) (modname s : Bytes) :
    parseSym fixed true modname (wholeLines s) = parseSym fixed true modname s := by
  unfold parseSym
  rw [checkSymFile_whole, symLines_whole]

end Uft.TaskTxt

namespace Uft.InfoFile
open Uft.TextScan

/-- apply `f` to the rest of the stream a reader hands back -/
def mapRest {α : Type} (f : Bytes → Bytes) : PR (α × Bytes) → PR (α × Bytes)
  | .ok (a, r) => .ok (a, f r)
  | .err e => .err e
  | .oob t => .oob t

theorem bind_whole {α β : Type} (x : PR (α × Bytes)) (f : α × Bytes → PR (β × Bytes))
    (h : ∀ a r, f (a, wholeLines r) = mapRest wholeLines (f (a, r))) :
    (mapRest wholeLines x >>= f) = mapRest wholeLines (x >>= f) := by
  cases x with
  | ok p => obtain ⟨a, r⟩ := p; exact h a r
  | err e => rfl
  | oob t => rfl

theorem bufLine_whole (s : Bytes) : bufLine true (wholeLines s) = mapRest wholeLines (bufLine true s) := by
  unfold bufLine
  have := wholeGet_fgets PATH_MAX s
  simp only at this
  cases h : nlGate true (fgets PATH_MAX s) with
  | none => rw [this.1 h]; rfl
  | some p => obtain ⟨l, r⟩ := p; rw [this.2 l r h]; rfl

theorem gLine_whole (s : Bytes) : gLine true (wholeLines s) = mapRest wholeLines (gLine true s) := by
  unfold gLine
  have := wholeGet_getline s
  simp only at this
  cases h : nlGate true (getline s) with
  | none => rw [this.1 h]; rfl
  | some p => obtain ⟨l, r⟩ := p; rw [this.2 l r h]; rfl

theorem pure_whole {α : Type} (a : α) (r : Bytes) :
    (pure (a, wholeLines r) : PR (α × Bytes)) = mapRest wholeLines (pure (a, r)) := rfl

/-- `x >>= fun v => pure (g v, r)`: the rest is handed through -/
theorem bind_pure_whole {α β : Type} (x : PR α) (g : α → β) (r : Bytes) :
    (x >>= fun v => (pure (g v, wholeLines r) : PR (β × Bytes))) =
      mapRest wholeLines (x >>= fun v => pure (g v, r)) := by
  cases x <;> rfl

theorem bind_whole' {α β : Type} (x : PR α) (f g : α → PR (β × Bytes))
    (h : ∀ a, f a = mapRest wholeLines (g a)) :
    (x >>= f) = mapRest wholeLines (x >>= g) := by
  cases x with
  | ok a => exact h a
  | err e => rfl
  | oob t => rfl

theorem readKV_whole (fixed : Bool) (key : String) (i : Info) (s : Bytes) :
    readKV fixed true key i (wholeLines s) = mapRest wholeLines (readKV fixed true key i s) := by
  unfold readKV
  rw [bufLine_whole]
  apply bind_whole
  intro l r
  simp only
  split
  · rfl
  · exact bind_pure_whole _ _ _

theorem sectionLoop_whole (fixed : Bool) (pre : String) (keys : List String) (n : Nat) (i : Info) (s : Bytes) :
    sectionLoop fixed true pre keys n i (wholeLines s) =
      mapRest wholeLines (sectionLoop fixed true pre keys n i s) := by
  induction n generalizing i s with
  | zero => rfl
  | succ n ih =>
    unfold sectionLoop
    rw [bufLine_whole]
    apply bind_whole
    intro l r
    simp only
    split
    · rfl
    · split
      · apply bind_whole'
        intro v
        exact ih _ _
      · exact ih _ _

theorem readSection_whole (fixed : Bool) (pre : String) (max : Nat) (keys : List String) (i : Info) (s : Bytes) :
    readSection fixed true pre max keys i (wholeLines s) =
      mapRest wholeLines (readSection fixed true pre max keys i s) := by
  unfold readSection
  rw [bufLine_whole]
  apply bind_whole
  intro l r
  simp only
  split
  · rfl
  · apply bind_whole'
    intro n
    exact sectionLoop_whole _ _ _ _ _ _

theorem taskLoop_whole (fixed : Bool) (n : Nat) (i : Info) (s : Bytes) :
    taskLoop fixed true n i (wholeLines s) = mapRest wholeLines (taskLoop fixed true n i s) := by
  induction n generalizing i s with
  | zero => rfl
  | succ n ih =>
    unfold taskLoop
    rw [gLine_whole]
    apply bind_whole
    intro l r
    simp only
    split
    · rfl
    · split
      · exact ih _ _
      · split
        · split
          · rfl
          · apply bind_whole'
            intro tids
            split
            · rfl
            · exact ih _ _
        · rfl

theorem readTaskinfo_whole (fixed : Bool) (i : Info) (s : Bytes) :
    readTaskinfo fixed true i (wholeLines s) = mapRest wholeLines (readTaskinfo fixed true i s) := by
  unfold readTaskinfo
  rw [gLine_whole]
  apply bind_whole
  intro l r
  simp only
  split
  · rfl
  · apply bind_whole'
    intro n
    exact taskLoop_whole _ _ _ _

theorem argLoop_whole (fixed : Bool) (n : Nat) (i : Info) (s : Bytes) :
    argLoop fixed true n i (wholeLines s) = mapRest wholeLines (argLoop fixed true n i s) := by
  induction n generalizing i s with
  | zero => rfl
  | succ n ih =>
    unfold argLoop
    rw [gLine_whole]
    apply bind_whole
    intro l r
    simp only
    split
    · apply bind_whole'
      intro v
      exact ih _ _
    · split
      · exact ih _ _
      · rfl

theorem readArgSpec_whole (fixed : Bool) (i : Info) (s : Bytes) :
    readArgSpec fixed true i (wholeLines s) = mapRest wholeLines (readArgSpec fixed true i s) := by
  unfold readArgSpec
  rw [gLine_whole]
  apply bind_whole
  intro l r
  simp only
  split
  · rfl
  · split
    · exact bind_pure_whole _ _ _
    · apply bind_whole'
      intro n
      exact argLoop_whole _ _ _ _

theorem readPrefixOnly_whole (key : String) (i : Info) (s : Bytes) :
    readPrefixOnly true key i (wholeLines s) = mapRest wholeLines (readPrefixOnly true key i s) := by
  unfold readPrefixOnly
  rw [bufLine_whole]
  apply bind_whole
  intro l r
  simp only
  split <;> rfl

theorem readExitStatus_whole (i : Info) (s : Bytes) :
    readExitStatus true i (wholeLines s) = mapRest wholeLines (readExitStatus true i s) := by
  unfold readExitStatus
  rw [bufLine_whole]
  apply bind_whole
  intro l r
  simp only
  split
  · rfl
  · split <;> rfl

theorem readRecordDate_whole (fixed : Bool) (i : Info) (s : Bytes) :
    readRecordDate fixed true i (wholeLines s) = mapRest wholeLines (readRecordDate fixed true i s) := by
  unfold readRecordDate
  rw [readKV_whole]
  apply bind_whole
  intro i1 r1
  exact readKV_whole _ _ _ _

theorem readPatternType_whole (i : Info) (s : Bytes) :
    readPatternType true i (wholeLines s) = mapRest wholeLines (readPatternType true i s) := by
  unfold readPatternType
  rw [bufLine_whole]
  apply bind_whole
  intro l r
  simp only
  split <;> rfl

theorem handler_whole (fixed : Bool) (bit : Nat) (i : Info) (s : Bytes) :
    handler fixed true bit i (wholeLines s) = mapRest wholeLines (handler fixed true bit i s) := by
  unfold handler
  split
  · exact readKV_whole _ _ _ _
  · rfl
  · exact readExitStatus_whole _ _
  · exact readKV_whole _ _ _ _
  · exact readSection_whole _ _ _ _ _ _
  · exact readKV_whole _ _ _ _
  · exact readSection_whole _ _ _ _ _ _
  · exact readTaskinfo_whole _ _ _
  · exact readSection_whole _ _ _ _ _ _
  · exact readPrefixOnly_whole _ _ _
  · exact readArgSpec_whole _ _ _
  · exact readRecordDate_whole _ _ _
  · exact readPatternType_whole _ _
  · exact readKV_whole _ _ _ _
  · exact readKV_whole _ _ _ _
  · rfl

theorem readHandlers_whole (fixed : Bool) (mask : Nat) (bits : List Nat) (i : Info) (s : Bytes) :
    readHandlers fixed true mask bits i (wholeLines s) = readHandlers fixed true mask bits i s := by
  induction bits generalizing i s with
  | nil => rfl
  | cons bit rest ih =>
    unfold readHandlers
    split
    · exact ih _ _
    · rw [handler_whole]
      cases handler fixed true bit i s with
      | ok p => obtain ⟨i1, s1⟩ := p; exact ih _ _
      | err e => rfl
      | oob t => rfl

theorem parseInfo_whole (fixed : Bool) (s : Bytes) :
    parseInfo fixed true (infoWhole s) = parseInfo fixed true s := by
  unfold infoWhole
  split
  · rfl
  · rename_i h
    have hlen : (s.take 40).length = 40 := by simp; omega
    have h1 : parseHdr (s.take 40 ++ wholeLines (s.drop 40)) =
        (match parseHdr s with
         | .ok (hd, _) => .ok (hd, wholeLines (s.drop 40))
         | .err e => .err e
         | .oob t => .oob t) := by
      unfold parseHdr
      have e1 : (s.take 40 ++ wholeLines (s.drop 40)).take 40 = s.take 40 := by
        rw [List.take_append_of_le_length (by omega)]
        rw [List.take_take]; simp
      have e2 : (s.take 40 ++ wholeLines (s.drop 40)).drop 40 = wholeLines (s.drop 40) := by
        rw [List.drop_append_of_le_length (by omega)]
        rw [List.drop_eq_nil_of_le (by omega)]; rfl
      have e3 : ¬ (s.take 40 ++ wholeLines (s.drop 40)).length < 40 := by
        simp only [List.length_append]; omega
      simp only [e1, e2, e3, h, ↓reduceIte]
      split
      · rfl
      · split
        · rfl
        · split
          · rfl
          · rfl
    unfold parseInfo
    rw [h1]
    have h2 : ∀ hd r, parseHdr s = .ok (hd, r) → r = s.drop 40 := by
      intro hd r hp
      unfold parseHdr at hp
      simp only [h, ↓reduceIte] at hp
      split at hp
      · simp at hp
      · split at hp
        · simp at hp
        · split at hp
          · simp at hp
          · simp only [PR.ok.injEq, Prod.mk.injEq] at hp
            exact hp.2.symm
    cases hp : parseHdr s with
    | ok p =>
      obtain ⟨hd, r⟩ := p
      simp only
      rw [h2 hd r hp, readHandlers_whole]
    | err e => rfl
    | oob t => rfl

end Uft.InfoFile
