import Uft.Model.Events
import Uft.Lemmas.Mcount
import Uft.Model.CallTree
/- helper lemmas for Props/C17 -/
set_option linter.unusedSimpArgs false
set_option linter.unusedVariables false
namespace Uft.Events
open Uft.Mcount

/-! ### uint64 durations -/

theorem subU64_of_le (a b : Nat) (h : b ≤ a) (ha : a < u64) : subU64 a b = a - b := by
  unfold subU64
  have hb : b < u64 := by omega
  rw [Nat.mod_eq_of_lt ha, Nat.mod_eq_of_lt hb]
  have : a + u64 - b = (a - b) + u64 := by omega
  rw [this, Nat.add_mod_right, Nat.mod_eq_of_lt (by omega)]

/-- a call that takes measurable time on the 64-bit clock passes a zero threshold (for the code
    before the repair of S4 as well) -/
theorem durOk_sub_of_lt (cfg : Cfg) (t0 t1 : Nat) (h : t0 < t1) (h1 : t1 < u64) : durOk cfg (subU64 t1 t0) 0 = true := by
  rw [subU64_of_le t1 t0 (by omega) h1]
  exact durOk_of_lt cfg t0 t1 h

/-! ### takeAsync -/

theorem takeAsync_append (p : List Ev) (ts : Nat) :
    (takeAsync p ts).1 ++ (takeAsync p ts).2 = p := by
  induction p with
  | nil => rfl
  | cons e r ih =>
    simp only [takeAsync]
    split
    · simp [ih]
    · simp

@[simp] theorem takeAsync_nil (ts : Nat) : takeAsync [] ts = ([], []) := rfl

theorem takeAsync_all (p : List Ev) (ts : Nat) (h : ∀ e ∈ p, e.time < ts) :
    takeAsync p ts = (p, []) := by
  induction p with
  | nil => rfl
  | cons e r ih =>
    have he := h e (by simp)
    have hr := ih (fun x hx => h x (by simp [hx]))
    simp [takeAsync, he, hr]

theorem takeAsync_written_lt (p : List Ev) (ts : Nat) : ∀ e ∈ (takeAsync p ts).1, e.time < ts := by
  induction p with
  | nil => simp
  | cons e r ih =>
    simp only [takeAsync]
    split
    · rename_i h
      intro x hx
      simp only [List.mem_cons] at hx
      rcases hx with rfl | hx
      · exact h
      · exact ih x hx
    · simp

/-! ### save_trigger_read: what it leaves alone, and the events it adds -/

theorem saveReadOne_b (pair : Bool) (off now midx : Nat) (diff : Bool) (o : Obs) (mask : Nat) (f : EFrame) (src : ReadSrc) :
    (saveReadOne pair off now midx diff o mask f src).b = f.b ∧
    (saveReadOne pair off now midx diff o mask f src).argFl = f.argFl ∧
    (saveReadOne pair off now midx diff o mask f src).argSz = f.argSz ∧
    (saveReadOne pair off now midx diff o mask f src).retFl = f.retFl ∧
    (saveReadOne pair off now midx diff o mask f src).readFl = f.readFl := by
  unfold saveReadOne
  split
  · simp
  · split
    · simp
    · split
      · simp
      · split <;> simp

theorem saveReadL_b (pair : Bool) (off now midx : Nat) (diff : Bool) (o : Obs) (mask : Nat) (srcs : List ReadSrc) :
    ∀ f : EFrame,
    (saveReadL pair off now midx diff o mask srcs f).b = f.b ∧
    (saveReadL pair off now midx diff o mask srcs f).argFl = f.argFl ∧
    (saveReadL pair off now midx diff o mask srcs f).argSz = f.argSz ∧
    (saveReadL pair off now midx diff o mask srcs f).retFl = f.retFl ∧
    (saveReadL pair off now midx diff o mask srcs f).readFl = f.readFl := by
  induction srcs with
  | nil => intro f; simp [saveReadL]
  | cons s r ih =>
    intro f
    simp only [saveReadL]
    have h1 := saveReadOne_b pair off now midx diff o mask f s
    have h2 := ih (saveReadOne pair off now midx diff o mask f s)
    refine ⟨h2.1.trans h1.1, h2.2.1.trans h1.2.1, h2.2.2.1.trans h1.2.2.1, h2.2.2.2.1.trans h1.2.2.2.1,
      h2.2.2.2.2.trans h1.2.2.2.2⟩

theorem saveRead_b (cfg : ECfg) (f : EFrame) (mask midx : Nat) (diff : Bool) (o : Obs) :
    (saveRead cfg f mask midx diff o).b = f.b ∧
    (saveRead cfg f mask midx diff o).argFl = f.argFl ∧
    (saveRead cfg f mask midx diff o).argSz = f.argSz ∧
    (saveRead cfg f mask midx diff o).retFl = f.retFl ∧
    (saveRead cfg f mask midx diff o).readFl = f.readFl := by
  unfold saveRead
  split
  · simp
  · exact saveReadL_b _ _ _ _ _ _ _ _ f

theorem mkReadEv_time (f : EFrame) (now midx : Nat) (diff : Bool) (src : ReadSrc) (v : List Nat) :
    (mkReadEv f now midx diff src v).time = now := by
  unfold mkReadEv
  split <;> rfl

theorem saveReadOne_evs (pair : Bool) (off now midx : Nat) (diff : Bool) (o : Obs) (mask : Nat) (f : EFrame) (src : ReadSrc) :
    ∃ new, (saveReadOne pair off now midx diff o mask f src).evs = new ++ f.evs ∧ ∀ e ∈ new, e.time = now := by
  unfold saveReadOne
  split
  · exact ⟨[], by simp⟩
  · split
    · exact ⟨[], by simp⟩
    · split
      · exact ⟨[], by simp⟩
      · split
        · exact ⟨[], by simp⟩
        · rename_i v _
          exact ⟨[mkReadEv f now midx diff src v], by simp [mkReadEv_time]⟩

theorem saveReadL_evs (pair : Bool) (off now midx : Nat) (diff : Bool) (o : Obs) (mask : Nat) (srcs : List ReadSrc) :
    ∀ f : EFrame, ∃ new, (saveReadL pair off now midx diff o mask srcs f).evs = new ++ f.evs ∧
      ∀ e ∈ new, e.time = now := by
  induction srcs with
  | nil => intro f; exact ⟨[], by simp [saveReadL]⟩
  | cons s r ih =>
    intro f
    obtain ⟨n1, h1, t1⟩ := saveReadOne_evs pair off now midx diff o mask f s
    obtain ⟨n2, h2, t2⟩ := ih (saveReadOne pair off now midx diff o mask f s)
    refine ⟨n2 ++ n1, ?_, ?_⟩
    · simp only [saveReadL]; rw [h2, h1]; simp
    · intro e he
      simp only [List.mem_append] at he
      rcases he with he | he
      · exact t2 e he
      · exact t1 e he

/-- the events a hook adds to a frame's area all carry the hook's time -/
theorem saveRead_evs (cfg : ECfg) (f : EFrame) (mask midx : Nat) (diff : Bool) (o : Obs) :
    ∃ new, (saveRead cfg f mask midx diff o).evs = new ++ f.evs ∧ ∀ e ∈ new, e.time = hookTime f.b := by
  unfold saveRead
  split
  · exact ⟨[], by simp⟩
  · exact saveReadL_evs _ _ _ _ _ _ _ _ f

/-! ### frames: owed ENTRY records, written marks -/

/-- ENTRY records (with their read events) still owed for the open frames -/
def pendingE : List EFrame → List Out
  | [] => []
  | f :: r => if f.b.written then [] else pendingE r ++ ([entryOut f] ++ (entryEvs f).map .event)

def markToE : List EFrame → List EFrame
  | [] => []
  | f :: r => if f.b.written then f :: r else setWritten f :: markToE r

def NoSkipE (fs : List EFrame) : Prop := ∀ f ∈ fs, f.b.norecord = false ∧ f.b.disabled = false

@[simp] theorem setWritten_b_written (f : EFrame) : (setWritten f).b.written = true := rfl

theorem flushBelowE_noskip (fs : List EFrame) (h : NoSkipE fs) :
    flushBelowE fs [] = (markToE fs, [], pendingE fs) := by
  induction fs with
  | nil => rfl
  | cons f r ih =>
    have hf := h f (by simp)
    have hr : NoSkipE r := fun g hg => h g (by simp [hg])
    simp only [flushBelowE, markToE, pendingE]
    split
    · rfl
    · simp [Frame.skip, hf.1, hf.2, ih hr, recEntry]

theorem pendingE_markToE (fs : List EFrame) : pendingE (markToE fs) = [] := by
  cases fs with
  | nil => rfl
  | cons f r =>
    simp only [markToE]
    split
    · rename_i h; simp [pendingE, h]
    · simp [pendingE]

theorem markToE_markToE (fs : List EFrame) : markToE (markToE fs) = markToE fs := by
  cases fs with
  | nil => rfl
  | cons f r =>
    simp only [markToE]
    split
    · rename_i h; simp [markToE, h]
    · simp [markToE]

theorem markToE_length (fs : List EFrame) : (markToE fs).length = fs.length := by
  induction fs with
  | nil => rfl
  | cons f r ih => simp only [markToE]; split <;> simp [ih]

theorem markToE_noskip (fs : List EFrame) (h : NoSkipE fs) : NoSkipE (markToE fs) := by
  induction fs with
  | nil => exact h
  | cons f r ih =>
    have hf := h f (by simp)
    have hr : NoSkipE r := fun g hg => h g (by simp [hg])
    simp only [markToE]
    split
    · exact h
    · intro g hg
      simp only [List.mem_cons] at hg
      rcases hg with rfl | hg
      · simpa [setWritten] using hf
      · exact ih hr g hg


/-! ### hooks without filters and without watchpoints -/

/-- no filter, trigger or threshold in the underlying hook configuration; read triggers,
    arguments and return values are free; no watchpoints -/
structure PlainE (cfg : ECfg) : Prop where
  plain : Plain cfg.base
  nocpu : cfg.watchCpu = false
  novars : cfg.varSizes = []

/-- the thread state between hooks, at nesting depth `d`, when nothing is filtered and no
    asynchronous event is pending -/
structure GoodE (s : ESt) (d : Nat) : Prop where
  over : s.over = 0
  len : s.frames.length = d
  ridx : s.recordIdx = d
  en : s.enabled = true
  inc : s.filt.inCount = 0
  outc : s.filt.outCount = 0
  fdepth : s.filt.depth = d
  fmax : s.filt.maxDepth = noMaxDepth
  ftime : s.filt.time = noTime
  fsize : s.filt.size = 0
  noskip : NoSkipE s.frames
  pend : s.pend = []

/-- the frame the entry hook pushes for a call of `f` at depth `d` before save_argument /
    save_trigger_read -/
def freshFrame (cfg : ECfg) (k : Kind) (f t0 d : Nat) : EFrame :=
  { b := plainFrame k f t0 d, retFl := (k == .pg) && (cfg.retSize f).isSome }

/-- … and after them -/
def entryFrame (cfg : ECfg) (k : Kind) (f t0 d : Nat) (o : Obs) : EFrame :=
  entryArea cfg (freshFrame cfg k f t0 d) true (k == .pg) (d + 1) o

@[simp] theorem setEnd_endT (F : EFrame) (t : Nat) : (setEnd F t).b.endT = t := rfl
@[simp] theorem setEnd_start (F : EFrame) (t : Nat) : (setEnd F t).b.start = F.b.start := rfl
@[simp] theorem setEnd_addr (F : EFrame) (t : Nat) : (setEnd F t).b.addr = F.b.addr := rfl
@[simp] theorem setEnd_depth (F : EFrame) (t : Nat) : (setEnd F t).b.depth = F.b.depth := rfl
@[simp] theorem setEnd_cyg (F : EFrame) (t : Nat) : (setEnd F t).b.cyg = F.b.cyg := rfl
@[simp] theorem setEnd_norecord (F : EFrame) (t : Nat) : (setEnd F t).b.norecord = F.b.norecord := rfl
@[simp] theorem setEnd_disabled (F : EFrame) (t : Nat) : (setEnd F t).b.disabled = F.b.disabled := rfl
@[simp] theorem setEnd_filtered (F : EFrame) (t : Nat) : (setEnd F t).b.filtered = F.b.filtered := rfl
@[simp] theorem setEnd_notrace (F : EFrame) (t : Nat) : (setEnd F t).b.notrace = F.b.notrace := rfl
@[simp] theorem setEnd_trace (F : EFrame) (t : Nat) : (setEnd F t).b.trace = F.b.trace := rfl
@[simp] theorem setEnd_caller (F : EFrame) (t : Nat) : (setEnd F t).b.caller = F.b.caller := rfl
@[simp] theorem setEnd_written (F : EFrame) (t : Nat) : (setEnd F t).b.written = F.b.written := rfl
@[simp] theorem setEnd_sDepth (F : EFrame) (t : Nat) : (setEnd F t).b.sDepth = F.b.sDepth := rfl
@[simp] theorem setEnd_sMaxDepth (F : EFrame) (t : Nat) : (setEnd F t).b.sMaxDepth = F.b.sMaxDepth := rfl
@[simp] theorem setEnd_sTime (F : EFrame) (t : Nat) : (setEnd F t).b.sTime = F.b.sTime := rfl
@[simp] theorem setEnd_sSize (F : EFrame) (t : Nat) : (setEnd F t).b.sSize = F.b.sSize := rfl
@[simp] theorem setEnd_evs (F : EFrame) (t : Nat) : (setEnd F t).evs = F.evs := rfl
@[simp] theorem setEnd_retFl (F : EFrame) (t : Nat) : (setEnd F t).retFl = F.retFl := rfl
@[simp] theorem setEnd_readFl (F : EFrame) (t : Nat) : (setEnd F t).readFl = F.readFl := rfl
@[simp] theorem setEnd_argFl (F : EFrame) (t : Nat) : (setEnd F t).argFl = F.argFl := rfl
@[simp] theorem setEnd_argSz (F : EFrame) (t : Nat) : (setEnd F t).argSz = F.argSz := rfl

/-- the same frame after the exit hook's save_trigger_read -/
def exitFrame (cfg : ECfg) (F : EFrame) (t1 d : Nat) (o : Obs) : EFrame :=
  exitArea cfg (setEnd F t1) (d + 1) o

theorem saveArgument_b (cfg : ECfg) (f : EFrame) :
    (saveArgument cfg f).b = f.b ∧ (saveArgument cfg f).evs = f.evs ∧ (saveArgument cfg f).retFl = f.retFl ∧
    (saveArgument cfg f).readFl = f.readFl := by
  unfold saveArgument
  split
  · split <;> simp
  · simp

theorem entryArea_b (cfg : ECfg) (f : EFrame) (matched argok : Bool) (midx : Nat) (o : Obs) :
    (entryArea cfg f matched argok midx o).b = f.b := by
  unfold entryArea
  cases argok <;> simp <;> split <;> simp [setReadFl, (saveRead_b _ _ _ _ _ _).1, (saveArgument_b _ _).1]

theorem entryE_plain (cfg : ECfg) (hp : PlainE cfg) (k : Kind) (s : ESt) (d f t0 : Nat) (o : Obs)
    (hg : GoodE s d) (hm : d < cfg.base.maxStack) (hd : d < cfg.base.depthOpt) :
    (entryE cfg k s f t0 o).2 = true ∧
    (entryE cfg k s f t0 o).1.out = s.out ∧
    (entryE cfg k s f t0 o).1.frames = entryFrame cfg k f t0 d o :: s.frames ∧
    GoodE (entryE cfg k s f t0 o).1 (d + 1) := by
  obtain ⟨h1, h2, h3, h4, h5, h6, h7, h8, h9, h10, h11, h12⟩ := hg
  have hidx : ¬ (s.idx ≥ cfg.base.maxStack) := by simp [ESt.idx, h1, h2]; omega
  have hnd : ¬ (d ≥ cfg.base.depthOpt) := by omega
  have hw : cfg.watch = false := by simp [ECfg.watch, hp.nocpu, hp.novars]
  cases k <;>
  simp [entryE, entryFilterCheckE, checkRstackE, hidx, hp.plain.optIn, hp.plain.locIn, hp.plain.trig,
    saveFilt, matchFilt, earlyOut, trigFilt, depthLimit, trigEnabled,
    entryFilterRecordE, entryEvents, entryFinish, watchStep, hw, hasAsync, h3, h4, h5, h6, h7, h8, h9, h10, h12, hnd, entryFrame, freshFrame,
    plainFrame, h2]
  all_goals refine ⟨by simp [show (Kind.pg == Kind.cyg) = false from rfl, show (Kind.cyg == Kind.pg) = false from rfl], ?_⟩
  all_goals (constructor <;> simp_all [NoSkipE, entryArea_b])


/-! ### the exit hook -/

def withW (F : EFrame) (w : Bool) : EFrame := { F with b := { F.b with written := w } }

@[simp] theorem withW_b_written (F : EFrame) (w : Bool) : (withW F w).b.written = w := rfl
@[simp] theorem withW_evs (F : EFrame) (w : Bool) : (withW F w).evs = F.evs := rfl
@[simp] theorem withW_retFl (F : EFrame) (w : Bool) : (withW F w).retFl = F.retFl := rfl
@[simp] theorem withW_readFl (F : EFrame) (w : Bool) : (withW F w).readFl = F.readFl := rfl
@[simp] theorem withW_argFl (F : EFrame) (w : Bool) : (withW F w).argFl = F.argFl := rfl
@[simp] theorem withW_argSz (F : EFrame) (w : Bool) : (withW F w).argSz = F.argSz := rfl
@[simp] theorem withW_eventIdx (F : EFrame) (w : Bool) : (withW F w).eventIdx = F.eventIdx := rfl
@[simp] theorem withW_addr (F : EFrame) (w : Bool) : (withW F w).b.addr = F.b.addr := rfl
@[simp] theorem withW_start (F : EFrame) (w : Bool) : (withW F w).b.start = F.b.start := rfl
@[simp] theorem withW_endT (F : EFrame) (w : Bool) : (withW F w).b.endT = F.b.endT := rfl
@[simp] theorem withW_withW (F : EFrame) (w v : Bool) : withW (withW F w) v = withW F v := rfl
theorem setWritten_eq (F : EFrame) : setWritten F = withW F true := rfl
theorem setEnd_withW (F : EFrame) (w : Bool) (t : Nat) : setEnd (withW F w) t = withW (setEnd F t) w := rfl

theorem withW_self (F : EFrame) (w : Bool) (h : F.b.written = w) : withW F w = F := by
  cases F with
  | mk b evs ei af asz rf rdf =>
    cases b
    simp_all [withW]

@[simp] theorem entryOut_withW (F : EFrame) (w : Bool) : entryOut (withW F w) = entryOut F := rfl
@[simp] theorem entryEvs_withW (F : EFrame) (w : Bool) : entryEvs (withW F w) = entryEvs F := rfl
@[simp] theorem exitEvs_withW (F : EFrame) (w : Bool) : exitEvs (withW F w) = exitEvs F := rfl
@[simp] theorem hookTime_withW (F : EFrame) (w : Bool) : hookTime (withW F w).b = hookTime F.b := rfl
@[simp] theorem argDataOff_withW (cfg : ECfg) (F : EFrame) (w : Bool) (p : Nat) :
    argDataOff cfg (withW F w) p = argDataOff cfg F p := rfl

@[simp] theorem hasRead_withW (F : EFrame) (w : Bool) (src : ReadSrc) : hasRead (withW F w) src = hasRead F src := rfl

theorem saveReadOne_withW (pair : Bool) (off now midx : Nat) (diff : Bool) (o : Obs) (mask : Nat) (f : EFrame) (src : ReadSrc)
    (w : Bool) :
    saveReadOne pair off now midx diff o mask (withW f w) src = withW (saveReadOne pair off now midx diff o mask f src) w := by
  unfold saveReadOne
  simp only [withW_eventIdx, hasRead_withW]
  by_cases h1 : (mask &&& src.bit == 0) = true
  · simp [h1]
  · by_cases h0 : (pair && diff && !hasRead f src) = true
    · simp only [h1, h0, ↓reduceIte, Bool.false_eq_true]
    · by_cases h2 : f.eventIdx < src.evsize + off
      · simp only [h1, h0, h2, ↓reduceIte, Bool.false_eq_true]
      · cases h3 : o.reads src.bit with
        | none => simp only [h1, h0, h2, h3, ↓reduceIte, Bool.false_eq_true]
        | some v => simp only [h1, h0, h2, h3, ↓reduceIte, Bool.false_eq_true]; rfl

theorem saveReadL_withW (pair : Bool) (off now midx : Nat) (diff : Bool) (o : Obs) (mask : Nat) (srcs : List ReadSrc) (w : Bool) :
    ∀ f : EFrame, saveReadL pair off now midx diff o mask srcs (withW f w) =
      withW (saveReadL pair off now midx diff o mask srcs f) w := by
  induction srcs with
  | nil => intro f; rfl
  | cons s r ih => intro f; simp only [saveReadL, saveReadOne_withW, ih]

/-- at exit (`diff`) there is no up-front test -/
theorem saveRead_exit (cfg : ECfg) (f : EFrame) (mask midx : Nat) (o : Obs) :
    saveRead cfg f mask midx true o =
      saveReadL cfg.fixPair (argDataOff cfg f o.probe) (hookTime f.b) midx true o mask readEvents f := by
  simp [saveRead]

theorem saveRead_withW (cfg : ECfg) (F : EFrame) (w : Bool) (mask midx : Nat) (diff : Bool) (o : Obs) :
    saveRead cfg (withW F w) mask midx diff o = withW (saveRead cfg F mask midx diff o) w := by
  unfold saveRead
  simp only [argDataOff_withW, hookTime_withW, withW_eventIdx, saveReadL_withW]
  exact (apply_ite (fun x => withW x w) _ _ _).symm

theorem exitArea_withW (cfg : ECfg) (F : EFrame) (w : Bool) (n : Nat) (o : Obs) :
    exitArea cfg (withW F w) n o = withW (exitArea cfg F n o) w := by
  unfold exitArea
  simp only [withW_readFl]
  by_cases h : F.readFl = true
  · simp only [h, ↓reduceIte, withW_addr, saveRead_withW]
  · simp [h]


theorem exitArea_b (cfg : ECfg) (F : EFrame) (n : Nat) (o : Obs) :
    (exitArea cfg F n o).b = F.b ∧ (exitArea cfg F n o).argFl = F.argFl ∧ (exitArea cfg F n o).argSz = F.argSz ∧
    (exitArea cfg F n o).retFl = F.retFl := by
  unfold exitArea
  split
  · have h := saveRead_b cfg F (cfg.read F.b.addr) n true o
    exact ⟨h.1, h.2.1, h.2.2.1, h.2.2.2.1⟩
  · simp

theorem exitArea_evs (cfg : ECfg) (F : EFrame) (n : Nat) (o : Obs) :
    ∃ new, (exitArea cfg F n o).evs = new ++ F.evs ∧ ∀ e ∈ new, e.time = hookTime F.b := by
  unfold exitArea
  split
  · exact saveRead_evs cfg F _ n true o
  · exact ⟨[], by simp⟩

theorem hookTime_setEnd (F : EFrame) (t1 : Nat) (h : t1 ≠ 0) : hookTime (setEnd F t1).b = t1 := by
  simp [hookTime, h]

theorem takeWhile_all {α : Type} (p : α → Bool) (l : List α) (h : ∀ a ∈ l, p a = true) : l.takeWhile p = l := by
  induction l with
  | nil => rfl
  | cons a r ih => simp [List.takeWhile, h a (by simp), ih (fun x hx => h x (by simp [hx]))]

theorem entryEvs_of_all (F : EFrame) (hev : ∀ e ∈ F.evs, e.time = F.b.start) : entryEvs F = F.evs.reverse := by
  unfold entryEvs
  apply takeWhile_all
  intro e he
  simp only [List.mem_reverse] at he
  simp [hev e he]

theorem entryEvs_exitFrame (cfg : ECfg) (F : EFrame) (t1 d : Nat) (o : Obs)
    (hev : ∀ e ∈ F.evs, e.time = F.b.start) (ht : F.b.start ≠ t1) (ht1 : t1 ≠ 0) :
    entryEvs (exitFrame cfg F t1 d o) = F.evs.reverse := by
  obtain ⟨new, h1, h2⟩ := exitArea_evs cfg (setEnd F t1) (d + 1) o
  have hb := (exitArea_b cfg (setEnd F t1) (d + 1) o).1
  unfold entryEvs exitFrame
  rw [h1, hb]
  simp only [List.reverse_append, setEnd_start, setEnd_evs]
  rw [List.takeWhile_append_of_pos]
  · have : List.takeWhile (fun e => e.time == F.b.start) new.reverse = [] := by
      cases hn : new.reverse with
      | nil => rfl
      | cons a r =>
        have ha : a ∈ new := by
          have : a ∈ new.reverse := by rw [hn]; simp
          simpa using this
        have := h2 a ha
        rw [hookTime_setEnd F t1 ht1] at this
        have hne : (t1 == F.b.start) = false := by simp; omega
        simp [List.takeWhile, this, hne]
    simp [this]
  · intro e he
    simp only [List.mem_reverse] at he
    simp [hev e he]


/-- record_trace_data for a top frame that has returned, nothing pending, no skipped frame below -/
theorem recordTraceE_exit (cfg : ECfg) (retv : Bool) (top : EFrame) (rest : List EFrame)
    (hns : NoSkipE rest) (hnr : top.b.norecord = false) (hdis : top.b.disabled = false) (hend : top.b.endT ≠ 0) :
    (recordTraceE cfg retv (top :: rest) []).2.2 =
      (if top.b.written then [] else pendingE rest ++ ([entryOut top] ++ (entryEvs top).map .event)) ++
        ((exitEvs top).map .event ++ [.record (exitRec top.b) (retPayload cfg retv top)]) ∧
    (recordTraceE cfg retv (top :: rest) []).2.1 = [] ∧
    (recordTraceE cfg retv (top :: rest) []).1.tail = (if top.b.written then rest else markToE rest) := by
  have hfb := flushBelowE_noskip rest hns
  have he : (top.b.endT != 0) = true := by simp [hend]
  cases hw : top.b.written <;>
  simp [recordTraceE, hw, hfb, Frame.skip, hnr, hdis, he, recEntry, recExit]

/-- what the exit hook writes for the frame `F` (its ENTRY still owed iff `w = false`) -/
def exitOut (cfg : ECfg) (F : EFrame) (t1 d : Nat) (o : Obs) : List Out :=
  (exitEvs (exitFrame cfg F t1 d o)).map .event ++
    [.record (exitRec (exitFrame cfg F t1 d o).b) (retPayload cfg (!F.b.cyg && F.retFl) (exitFrame cfg F t1 d o))]


/-- the exit hook of a recorded frame without filters: one record_trace_data call -/
theorem exitE_unfold (cfg : ECfg) (hp : PlainE cfg) (s2 : ESt) (top : EFrame) (rest : List EFrame) (t1 : Nat) (o : Obs)
    (hfr : s2.frames = top :: rest) (hover : s2.over = 0) (hnr : top.b.norecord = false)
    (hen : s2.enabled = true) (hft : s2.filt.time = noTime)
    (hdur : durOk cfg.base (subU64 t1 top.b.start) 0 = true) (hpend : s2.pend = []) :
    exitE cfg s2 t1 o =
      { s2 with
        filt := { s2.filt with
          inCount := if top.b.filtered then s2.filt.inCount - 1 else s2.filt.inCount,
          outCount := if !top.b.filtered && top.b.notrace then s2.filt.outCount - 1 else s2.filt.outCount,
          depth := top.b.sDepth, maxDepth := top.b.sMaxDepth, time := top.b.sTime, size := top.b.sSize },
        recordIdx := s2.recordIdx - 1,
        frames := (recordTraceE cfg (!top.b.cyg && top.retFl)
          (exitArea cfg (setEnd top t1) (rest.length + 1) o :: rest) []).1.tail,
        pend := (recordTraceE cfg (!top.b.cyg && top.retFl)
          (exitArea cfg (setEnd top t1) (rest.length + 1) o :: rest) []).2.1,
        out := s2.out ++ (recordTraceE cfg (!top.b.cyg && top.retFl)
          (exitArea cfg (setEnd top t1) (rest.length + 1) o :: rest) []).2.2 } := by
  have hwt : cfg.watch = false := by simp [ECfg.watch, hp.nocpu, hp.novars]
  have hxb := (exitArea_b cfg (setEnd top t1) (rest.length + 1) o).1
  simp [exitE, hover, hfr, hnr, exitFilterRecordE, exitEvents, exitFinish, watchStep, hwt, hft, hp.plain.thr, hp.plain.caller, hen, hpend,
    ESt.recorded, hdur]


theorem exitE_plain (cfg : ECfg) (hp : PlainE cfg) (k : Kind) (s2 : ESt) (d f t0 t1 : Nat) (w : Bool) (F : EFrame)
    (rest : List EFrame) (o : Obs)
    (hb : F.b = plainFrame k f t0 d) (hev : ∀ e ∈ F.evs, e.time = t0)
    (hfr : s2.frames = withW F w :: rest)
    (hg : GoodE s2 (d + 1)) (ht : t0 < t1) (htu : t1 < u64)
    (hw : w = true → markToE rest = rest) :
    (exitE cfg s2 t1 o).out =
      s2.out ++ (if w then [] else pendingE rest ++ ([entryOut F] ++ (entryEvs F).map .event)) ++
        exitOut cfg F t1 d o ∧
    (exitE cfg s2 t1 o).frames = markToE rest ∧
    GoodE (exitE cfg s2 t1 o) d := by
  obtain ⟨h1, h2, h3, h4, h5, h6, h7, h8, h9, h10, h11, h12⟩ := hg
  have hrest : NoSkipE rest := fun g hg => h11 g (by simp [hfr, hg])
  have hlen : rest.length = d := by simpa [hfr] using h2
  have ht2 : ¬ t1 = 0 := by omega
  have hst : F.b.start = t0 := by rw [hb]; rfl
  have hev' : ∀ e ∈ F.evs, e.time = F.b.start := by rw [hst]; exact hev
  have hEE := entryEvs_exitFrame cfg F t1 d o hev' (by omega) ht2
  have hEF := entryEvs_of_all F hev'
  have hnr : (withW F w).b.norecord = false := by simp [withW, hb, plainFrame]
  have hdis : (withW F w).b.disabled = false := by simp [withW, hb, plainFrame]
  have hdur : durOk cfg.base (subU64 t1 (withW F w).b.start) 0 = true := by
    have : (withW F w).b.start = t0 := by simp [withW, hst]
    rw [this]; exact durOk_sub_of_lt cfg.base t0 t1 ht htu
  have hu := exitE_unfold cfg hp s2 (withW F w) rest t1 o hfr h1 hnr h4 h9 hdur h12
  -- the frame record_trace_data sees
  have hX : exitArea cfg (setEnd (withW F w) t1) (rest.length + 1) o = withW (exitFrame cfg F t1 d o) w := by
    rw [setEnd_withW, exitArea_withW, hlen]; rfl
  rw [hX] at hu
  have hXb := exitArea_b cfg (setEnd F t1) (d + 1) o
  have hXnr : (withW (exitFrame cfg F t1 d o) w).b.norecord = false := by
    simp [withW, exitFrame, hXb.1, hb, plainFrame]
  have hXdis : (withW (exitFrame cfg F t1 d o) w).b.disabled = false := by
    simp [withW, exitFrame, hXb.1, hb, plainFrame]
  have hXend : (withW (exitFrame cfg F t1 d o) w).b.endT ≠ 0 := by
    simp [withW, exitFrame, hXb.1, ht2]
  simp only [show (withW F w).b.cyg = F.b.cyg from rfl, withW_retFl] at hu
  obtain ⟨r1, r2, r3⟩ := recordTraceE_exit cfg (!F.b.cyg && F.retFl)
    (withW (exitFrame cfg F t1 d o) w) rest hrest hXnr hXdis hXend
  have hmm : (if w = true then rest else markToE rest) = markToE rest := by
    cases w
    · rfl
    · simp [hw rfl]
  have hEO : entryOut (exitFrame cfg F t1 d o) = entryOut F := by
    simp [entryOut, exitFrame, hXb.1, hXb.2.1, hXb.2.2.1, entryRec]
  have hRP : retPayload cfg (!F.b.cyg && F.retFl) (withW (exitFrame cfg F t1 d o) w) =
      retPayload cfg (!F.b.cyg && F.retFl) (exitFrame cfg F t1 d o) := rfl
  have hER : exitRec (withW (exitFrame cfg F t1 d o) w).b = exitRec (exitFrame cfg F t1 d o).b := rfl
  refine ⟨?_, ?_, ?_⟩
  · rw [hu]
    simp only [r1, withW_b_written, entryOut_withW, entryEvs_withW, exitEvs_withW, hEO, hEE, hEF,
      hRP, hER, exitOut]
    cases w <;> simp
  · rw [hu]
    simp only [r3, withW_b_written]
    exact hmm
  · rw [hu]
    have r3' : (recordTraceE cfg (!F.b.cyg && F.retFl) (withW (exitFrame cfg F t1 d o) w :: rest) []).1.tail =
        markToE rest := by rw [r3]; simp only [withW_b_written]; exact hmm
    constructor <;> simp only [r2, r3'] <;>
      simp_all [withW, plainFrame, noMaxDepth, noTime, markToE_length, markToE_noskip]


/-! ### the specified stream of a call history (no watchpoints, no asynchronous events) -/

theorem entryFrame_b (cfg : ECfg) (k : Kind) (f t0 d : Nat) (o : Obs) :
    (entryFrame cfg k f t0 d o).b = plainFrame k f t0 d := by
  simp [entryFrame, entryArea_b, freshFrame]

theorem entryFrame_evs_time (cfg : ECfg) (k : Kind) (f t0 d : Nat) (o : Obs) :
    ∀ e ∈ (entryFrame cfg k f t0 d o).evs, e.time = t0 := by
  unfold entryFrame entryArea
  have hsa : ∀ g : EFrame, (saveArgument cfg g).evs = g.evs := fun g => (saveArgument_b cfg g).2.1
  have hsb : ∀ g : EFrame, (saveArgument cfg g).b = g.b := fun g => (saveArgument_b cfg g).1
  have hfe : (freshFrame cfg k f t0 d).evs = [] := rfl
  have hft : hookTime (freshFrame cfg k f t0 d).b = t0 := by simp [hookTime, freshFrame, plainFrame]
  cases hk : (k == Kind.pg) <;> simp only [↓reduceIte, Bool.false_eq_true] <;> split
  · obtain ⟨new, h1, h2⟩ := saveRead_evs cfg (freshFrame cfg k f t0 d) (cfg.read (freshFrame cfg k f t0 d).b.addr) (d + 1) false o
    intro e he
    simp only [setReadFl] at he
    rw [h1, hfe] at he
    simp only [List.append_nil] at he
    rw [h2 e he, hft]
  · simp [hfe]
  · obtain ⟨new, h1, h2⟩ := saveRead_evs cfg (saveArgument cfg (freshFrame cfg k f t0 d))
      (cfg.read (freshFrame cfg k f t0 d).b.addr) (d + 1) false o
    intro e he
    simp only [setReadFl] at he
    rw [h1, hsa, hfe] at he
    simp only [List.append_nil] at he
    rw [h2 e he, hsb, hft]
  · simp [hsa, hfe]

mutual
  def ECall.height : ECall → Nat
    | .node _ _ _ _ _ kids => kids.height + 1
  def ECalls.height : ECalls → Nat
    | .nil => 0
    | .cons c rest => max c.height rest.height
end

mutual
  /-- every call takes measurable time on the (64-bit) clock: t0 < t1 < 2^64 -/
  def ECall.timed : ECall → Prop
    | .node _ t0 t1 _ _ kids => t0 < t1 ∧ t1 < u64 ∧ kids.timed
  def ECalls.timed : ECalls → Prop
    | .nil => True
    | .cons c rest => c.timed ∧ rest.timed
end

mutual
  /-- the stream the property specifies for a call executed at nesting depth `d`:
      ENTRY (with its argument payload), the read events of the entry hook, the callees,
      the events of the exit hook, EXIT (with the return value payload) -/
  def specCall (cfg : ECfg) (k : Kind) (d : Nat) : ECall → List Out
    | .node f t0 t1 oE oX kids =>
      ([entryOut (entryFrame cfg k f t0 d oE)] ++ (entryEvs (entryFrame cfg k f t0 d oE)).map .event) ++
        specCalls cfg k (d + 1) kids ++ exitOut cfg (entryFrame cfg k f t0 d oE) t1 d oX
  def specCalls (cfg : ECfg) (k : Kind) (d : Nat) : ECalls → List Out
    | .nil => []
    | .cons c rest => specCall cfg k d c ++ specCalls cfg k d rest
end

theorem pendingE_cons_unwritten (F : EFrame) (fs : List EFrame) (h : F.b.written = false) :
    pendingE (F :: fs) = pendingE fs ++ ([entryOut F] ++ (entryEvs F).map .event) := by
  simp [pendingE, h]

theorem markToE_cons_unwritten (F : EFrame) (fs : List EFrame) (h : F.b.written = false) :
    markToE (F :: fs) = withW F true :: markToE fs := by
  simp [markToE, h, setWritten_eq]

mutual
theorem emitE_call (cfg : ECfg) (hp : PlainE cfg) (k : Kind) :
    ∀ (c : ECall) (s : ESt) (d : Nat), GoodE s d → d + c.height ≤ cfg.base.maxStack →
      d + c.height ≤ cfg.base.depthOpt → c.timed →
      (runECall cfg k s c).out = s.out ++ pendingE s.frames ++ specCall cfg k d c ∧
      (runECall cfg k s c).frames = markToE s.frames ∧
      GoodE (runECall cfg k s c) d
  | .node f t0 t1 oE oX kids, s, d, hg, hm, hd, ht => by
    simp only [ECall.height] at hm hd
    simp only [ECall.timed] at ht
    obtain ⟨e1, e2, e3, e4⟩ := entryE_plain cfg hp k s d f t0 oE hg (by omega) (by omega)
    have hk := emitE_calls cfg hp k kids (entryE cfg k s f t0 oE).1 (d + 1) e4 (by omega) (by omega) ht.2.2
    have hFb := entryFrame_b cfg k f t0 d oE
    have hFev := entryFrame_evs_time cfg k f t0 d oE
    have hFw : (entryFrame cfg k f t0 d oE).b.written = false := by rw [hFb]; rfl
    simp only [runECall, e1, ↓reduceIte]
    cases kids with
    | nil =>
      simp only [runECalls]
      obtain ⟨x1, x2, x3⟩ := exitE_plain cfg hp k (entryE cfg k s f t0 oE).1 d f t0 t1 false
        (entryFrame cfg k f t0 d oE) s.frames oX hFb hFev
        (by rw [e3, withW_self _ _ hFw]) e4 ht.1 ht.2.1 (by simp)
      refine ⟨?_, x2, x3⟩
      rw [x1, e2]
      simp [specCall, specCalls]
    | cons c rest =>
      obtain ⟨k1, k2, k3⟩ := hk
      simp only at k1 k2
      rw [e3, markToE_cons_unwritten _ _ hFw] at k2
      rw [e3, pendingE_cons_unwritten _ _ hFw, e2] at k1
      obtain ⟨x1, x2, x3⟩ := exitE_plain cfg hp k
        (runECalls cfg k (entryE cfg k s f t0 oE).1 (.cons c rest)) d f t0 t1 true
        (entryFrame cfg k f t0 d oE) (markToE s.frames) oX hFb hFev k2 k3 ht.1 ht.2.1 (fun _ => markToE_markToE _)
      refine ⟨?_, by rw [x2, markToE_markToE], x3⟩
      rw [x1, k1]
      simp [specCall]
theorem emitE_calls (cfg : ECfg) (hp : PlainE cfg) (k : Kind) :
    ∀ (cs : ECalls) (s : ESt) (d : Nat), GoodE s d → d + cs.height ≤ cfg.base.maxStack →
      d + cs.height ≤ cfg.base.depthOpt → cs.timed →
      (runECalls cfg k s cs).out =
        s.out ++ (match cs with | .nil => [] | .cons _ _ => pendingE s.frames) ++ specCalls cfg k d cs ∧
      (runECalls cfg k s cs).frames = (match cs with | .nil => s.frames | .cons _ _ => markToE s.frames) ∧
      GoodE (runECalls cfg k s cs) d
  | .nil, s, d, hg, _, _, _ => by simp [runECalls, specCalls, hg]
  | .cons c rest, s, d, hg, hm, hd, ht => by
    simp only [ECalls.height] at hm hd
    simp only [ECalls.timed] at ht
    obtain ⟨c1, c2, c3⟩ := emitE_call cfg hp k c s d hg (by omega) (by omega) ht.1
    obtain ⟨r1, r2, r3⟩ := emitE_calls cfg hp k rest (runECall cfg k s c) d c3 (by omega) (by omega) ht.2
    simp only [runECalls]
    refine ⟨?_, ?_, r3⟩
    · rw [r1, c1]
      cases rest with
      | nil => simp [specCalls]
      | cons c' r' => simp [specCalls, c2, pendingE_markToE]
    · rw [r2]
      cases rest with
      | nil => simp [c2]
      | cons c' r' => simp [c2, markToE_markToE]
end


/-! ### values: what the read events of the entry hook hold, and what the exit hook's events are made from -/

/-- the ids of a source table do not collide -/
def DistinctIds (srcs : List ReadSrc) : Prop :=
  (srcs.map (·.idRead)).Nodup ∧ ∀ s ∈ srcs, ∀ s' ∈ srcs, s.idDiff ≠ s'.idRead

theorem readEvents_distinct : DistinctIds readEvents := by
  constructor
  · decide
  · decide

/-- an event that holds the reading `o` gave for its source -/
def HoldsReading (o : Obs) (tbl : List ReadSrc) (e : Ev) : Prop :=
  ∃ s ∈ tbl, ∃ v, o.reads s.bit = some v ∧ e.id = s.idRead ∧ e.data = v.map (· % u64)

/-- Lemma B: every event of the entry hook is a READ event holding the reading of its source -/
theorem saveReadL_entry_events (pair : Bool) (off now midx : Nat) (o : Obs) (mask : Nat) (tbl srcs : List ReadSrc) :
    (∀ x ∈ srcs, x ∈ tbl) → ∀ f : EFrame, (∀ e ∈ f.evs, HoldsReading o tbl e) →
      ∀ e ∈ (saveReadL pair off now midx false o mask srcs f).evs, HoldsReading o tbl e := by
  induction srcs with
  | nil => intro _ f h; simpa [saveReadL] using h
  | cons s r ih =>
    intro hsub f h
    simp only [saveReadL]
    apply ih (fun x hx => hsub x (by simp [hx]))
    intro e' he'
    unfold saveReadOne at he'
    split at he'
    · exact h e' he'
    · split at he'
      · exact h e' he'
      · split at he'
        · exact h e' he'
        · split at he'
          · exact h e' he'
          · rename_i v hv
            simp only [List.mem_cons] at he'
            rcases he' with rfl | he'
            · exact ⟨s, hsub s (by simp), v, hv, by simp [mkReadEv], by simp [mkReadEv]⟩
            · exact h e' he'


/-- what an event of the exit hook is made from: the reading `o` gave for its source and, if the
    frame already held a READ event of that source (`base`), the difference to that one -/
def FromExit (o : Obs) (tbl : List ReadSrc) (base : List Ev) (e : Ev) : Prop :=
  ∃ s ∈ tbl, ∃ vX, o.reads s.bit = some vX ∧
    match base.find? (fun x => x.id == s.idRead) with
    | some old => e.id = s.idDiff ∧ e.data = zipSub vX old.data
    | none => e.id = s.idRead ∧ e.data = vX.map (· % u64)

theorem find_pre_none (pre : List Ev) (id : Nat) (h : ∀ e ∈ pre, e.id ≠ id) :
    pre.find? (fun x => x.id == id) = none := by
  apply List.find?_eq_none.mpr
  intro x hx
  simp [h x hx]

theorem saveReadOne_cases (pair : Bool) (off now midx : Nat) (diff : Bool) (o : Obs) (mask : Nat) (f : EFrame) (s : ReadSrc) :
    saveReadOne pair off now midx diff o mask f s = f ∨
    ∃ v, o.reads s.bit = some v ∧ ¬ (f.eventIdx < s.evsize + off) ∧ (mask &&& s.bit == 0) = false ∧
      (pair && diff && !hasRead f s) = false ∧
      (saveReadOne pair off now midx diff o mask f s).evs = mkReadEv f now midx diff s v :: f.evs ∧
      (saveReadOne pair off now midx diff o mask f s).eventIdx = f.eventIdx - s.evsize := by
  unfold saveReadOne
  by_cases h1 : (mask &&& s.bit == 0) = true
  · left; simp [h1]
  · by_cases h0 : (pair && diff && !hasRead f s) = true
    · left; simp only [h1, h0, ↓reduceIte, Bool.false_eq_true]
    · by_cases h2 : f.eventIdx < s.evsize + off
      · left; simp only [h1, h0, h2, ↓reduceIte, Bool.false_eq_true]
      · cases h3 : o.reads s.bit with
        | none => left; simp only [h1, h0, h2, h3, ↓reduceIte, Bool.false_eq_true]
        | some v =>
          right
          exact ⟨v, rfl, h2, by simpa using h1, by simpa using h0,
            by simp only [h1, h0, h2, h3, ↓reduceIte, Bool.false_eq_true],
            by simp only [h1, h0, h2, h3, ↓reduceIte, Bool.false_eq_true]⟩

/-- Lemma A: the exit hook's loop -/
theorem saveReadL_exit_events (pair : Bool) (off now midx : Nat) (o : Obs) (mask : Nat) (tbl : List ReadSrc) (base : List Ev)
    (srcs : List ReadSrc) :
    (∀ x ∈ srcs, x ∈ tbl) → (srcs.map (·.idRead)).Nodup → (∀ s ∈ srcs, ∀ s' ∈ srcs, s.idDiff ≠ s'.idRead) →
    ∀ (f : EFrame) (pre : List Ev), f.evs = pre ++ base → (∀ e ∈ pre, ∀ s ∈ srcs, e.id ≠ s.idRead) →
      (∀ e ∈ pre, FromExit o tbl base e) →
      ∃ new, (saveReadL pair off now midx true o mask srcs f).evs = new ++ base ∧ ∀ e ∈ new, FromExit o tbl base e := by
  induction srcs with
  | nil => intro _ _ _ f pre h1 _ h3; exact ⟨pre, by simpa [saveReadL] using h1, h3⟩
  | cons s r ih =>
    intro hsub hnd hdr f pre hf hpre hfrom
    simp only [saveReadL]
    have hsub' : ∀ x ∈ r, x ∈ tbl := fun x hx => hsub x (by simp [hx])
    have hnd2 : s.idRead ∉ r.map (·.idRead) ∧ (r.map (·.idRead)).Nodup := by
      have := hnd
      simp only [List.map_cons] at this
      exact List.nodup_cons.mp this
    have hnd' := hnd2.2
    have hsr : ∀ s' ∈ r, s.idRead ≠ s'.idRead := by
      intro s' hs' heq
      exact hnd2.1 (List.mem_map.mpr ⟨s', hs', heq.symm⟩)
    have hdr' : ∀ a ∈ r, ∀ b ∈ r, a.idDiff ≠ b.idRead :=
      fun a ha b hb => hdr a (by simp [ha]) b (by simp [hb])
    have hpre' : ∀ e ∈ pre, ∀ s' ∈ r, e.id ≠ s'.idRead := fun e he s' hs' => hpre e he s' (by simp [hs'])
    rcases saveReadOne_cases pair off now midx true o mask f s with h | ⟨v, hv, _, _, _, hevs, _⟩
    · rw [h]; exact ih hsub' hnd' hdr' f pre hf hpre' hfrom
    · have hfind : f.evs.find? (fun x => x.id == s.idRead) = base.find? (fun x => x.id == s.idRead) := by
        rw [hf, List.find?_append, find_pre_none pre s.idRead (fun e he => hpre e he s (by simp))]
        simp
      have he0 : FromExit o tbl base (mkReadEv f now midx true s v) := by
        refine ⟨s, hsub s (by simp), v, hv, ?_⟩
        unfold mkReadEv
        simp only [↓reduceIte, hfind]
        cases base.find? (fun x => x.id == s.idRead) <;> simp
      have hid : ∀ s' ∈ r, (mkReadEv f now midx true s v).id ≠ s'.idRead := by
        intro s' hs'
        unfold mkReadEv
        split
        · exact hdr s (by simp) s' (by simp [hs'])
        · exact hsr s' hs'
      apply ih hsub' hnd' hdr' _ (mkReadEv f now midx true s v :: pre)
      · simp [hevs, hf]
      · intro e he
        simp only [List.mem_cons] at he
        rcases he with rfl | he
        · exact hid
        · exact hpre' e he
      · intro e he
        simp only [List.mem_cons] at he
        rcases he with rfl | he
        · exact he0
        · exact hfrom e he


theorem entryFrame_holds (cfg : ECfg) (k : Kind) (f t0 d : Nat) (o : Obs) :
    ∀ e ∈ (entryFrame cfg k f t0 d o).evs, HoldsReading o readEvents e := by
  unfold entryFrame entryArea
  have hsa : ∀ g : EFrame, (saveArgument cfg g).evs = g.evs := fun g => (saveArgument_b cfg g).2.1
  have hfe : (freshFrame cfg k f t0 d).evs = [] := rfl
  cases hk : (k == Kind.pg) <;> simp only [↓reduceIte, Bool.false_eq_true] <;> split
  · simp only [setReadFl, saveRead]
    split
    · simp [hfe]
    · exact saveReadL_entry_events _ _ _ _ o _ readEvents readEvents (fun x hx => hx) _ (by simp [hfe])
  · simp [hfe]
  · simp only [setReadFl, saveRead]
    split
    · simp [hsa, hfe]
    · exact saveReadL_entry_events _ _ _ _ o _ readEvents readEvents (fun x hx => hx) _ (by simp [hsa, hfe])
  · simp [hsa, hfe]

/-- the events the exit hook adds to the frame `F`, oldest first, are what is written before EXIT -/
theorem exitFrame_events (cfg : ECfg) (F : EFrame) (t1 d : Nat) (o : Obs)
    (hev : ∀ e ∈ F.evs, e.time = F.b.start) (ht : F.b.start ≠ t1) (ht1 : t1 ≠ 0) :
    ∃ new, (exitFrame cfg F t1 d o).evs = new ++ F.evs ∧ (∀ e ∈ new, e.time = t1) ∧
      (∀ e ∈ new, FromExit o readEvents F.evs e) ∧
      exitEvs (exitFrame cfg F t1 d o) = new.reverse := by
  have hb := (exitArea_b cfg (setEnd F t1) (d + 1) o).1
  have hex : ∃ new, (exitFrame cfg F t1 d o).evs = new ++ F.evs ∧ (∀ e ∈ new, e.time = t1) ∧
      (∀ e ∈ new, FromExit o readEvents F.evs e) := by
    unfold exitFrame exitArea
    split
    · obtain ⟨n1, h1, h2⟩ := saveRead_evs cfg (setEnd F t1) (cfg.read (setEnd F t1).b.addr) (d + 1) true o
      obtain ⟨n2, h3, h4⟩ := saveReadL_exit_events cfg.fixPair (argDataOff cfg (setEnd F t1) o.probe) (hookTime (setEnd F t1).b)
        (d + 1) o (cfg.read (setEnd F t1).b.addr) readEvents F.evs readEvents (fun x hx => hx)
        readEvents_distinct.1 readEvents_distinct.2 (setEnd F t1) [] (by simp) (by simp) (by simp)
      have hn : n1 = n2 := by
        have : n1 ++ F.evs = n2 ++ F.evs := by
          rw [← setEnd_evs F t1, ← h1, saveRead_exit]; exact h3
        exact List.append_cancel_right this
      refine ⟨n1, by rw [h1]; rfl, ?_, by rw [hn]; exact h4⟩
      intro e he
      rw [h2 e he, hookTime_setEnd F t1 ht1]
    · exact ⟨[], by simp, by simp, by simp⟩
  obtain ⟨new, h1, h2, h3⟩ := hex
  refine ⟨new, h1, h2, h3, ?_⟩
  unfold exitEvs
  have hbe : (exitFrame cfg F t1 d o).b.endT = t1 := by
    unfold exitFrame; rw [hb]; rfl
  rw [h1, hbe, List.reverse_append, List.filter_append]
  have hA : F.evs.reverse.filter (fun e => e.time == t1) = [] := by
    apply List.filter_eq_nil_iff.mpr
    intro e he
    simp only [List.mem_reverse] at he
    simp [hev e he, ht]
  have hB : new.reverse.filter (fun e => e.time == t1) = new.reverse := by
    apply List.filter_eq_self.mpr
    intro e he
    simp only [List.mem_reverse] at he
    simp [h2 e he]
  rw [hA, hB]; simp


/-! ### the records of one call, spelled out -/

/-- the `more` payload of an ENTRY record: -A on a -pg/fentry hook, if save_to_argbuf accepted the size -/
def argPayload (cfg : ECfg) (k : Kind) (f : Nat) : Option Nat :=
  if k == .pg then (match cfg.argSize f with | some n => if n ≤ ARG_MAX then some n else none | none => none) else none

/-- the `more` payload of an EXIT record -/
def retPayloadOf (cfg : ECfg) (k : Kind) (f : Nat) : Option Nat :=
  if k == .pg then (match cfg.retSize f with | some n => if n ≤ ARG_MAX then some n else none | none => none) else none

theorem entryArea_arg (cfg : ECfg) (g : EFrame) (matched argok : Bool) (midx : Nat) (o : Obs) :
    (entryArea cfg g matched argok midx o).argFl = (if argok then (saveArgument cfg g).argFl else g.argFl) ∧
    (entryArea cfg g matched argok midx o).argSz = (if argok then (saveArgument cfg g).argSz else g.argSz) ∧
    (entryArea cfg g matched argok midx o).retFl = g.retFl := by
  unfold entryArea
  cases argok <;> simp <;> split <;>
    simp [setReadFl, (saveRead_b _ _ _ _ _ _).2.1, (saveRead_b _ _ _ _ _ _).2.2.1, (saveRead_b _ _ _ _ _ _).2.2.2.1,
      (saveArgument_b _ _).2.2.1]

theorem entryOut_entryFrame (cfg : ECfg) (k : Kind) (f t0 d : Nat) (o : Obs) :
    entryOut (entryFrame cfg k f t0 d o) =
      .record { time := t0, type := 0, depth := d, addr := f } (argPayload cfg k f) := by
  have hb := entryFrame_b cfg k f t0 d o
  have ha := entryArea_arg cfg (freshFrame cfg k f t0 d) true (k == .pg) (d + 1) o
  unfold entryOut
  rw [hb]
  unfold entryFrame
  rw [ha.1, ha.2.1]
  cases k <;> simp [entryRec, plainFrame, argPayload, saveArgument, freshFrame]
  cases cfg.argSize f with
  | none => simp
  | some n => by_cases h : n ≤ ARG_MAX <;> simp [h]

theorem exitRecord_exitFrame (cfg : ECfg) (k : Kind) (f t0 t1 d : Nat) (oE oX : Obs) :
    Out.record (exitRec (exitFrame cfg (entryFrame cfg k f t0 d oE) t1 d oX).b)
        (retPayload cfg (!(entryFrame cfg k f t0 d oE).b.cyg && (entryFrame cfg k f t0 d oE).retFl)
          (exitFrame cfg (entryFrame cfg k f t0 d oE) t1 d oX)) =
      .record { time := t1, type := 1, depth := d, addr := f } (retPayloadOf cfg k f) := by
  have hb := entryFrame_b cfg k f t0 d oE
  have hx := exitArea_b cfg (setEnd (entryFrame cfg k f t0 d oE) t1) (d + 1) oX
  have hr : (entryFrame cfg k f t0 d oE).retFl = ((k == .pg) && (cfg.retSize f).isSome) := by
    unfold entryFrame; rw [(entryArea_arg _ _ _ _ _ _).2.2]; rfl
  have hdep : (entryFrame cfg k f t0 d oE).b.depth = d := by rw [hb]; rfl
  have haddr : (entryFrame cfg k f t0 d oE).b.addr = f := by rw [hb]; rfl
  have hcyg : (entryFrame cfg k f t0 d oE).b.cyg = (k == .cyg) := by rw [hb]; rfl
  unfold exitFrame retPayload
  rw [hx.1, hx.2.2.2]
  simp only [setEnd_retFl, setEnd_addr, setEnd_depth, setEnd_endT, hr, exitRec, hdep, haddr, hcyg]
  cases k <;> simp [retPayloadOf]
  cases cfg.retSize f with
  | none => simp
  | some n => by_cases h : n ≤ ARG_MAX <;> simp [h]


/-! ### events do not disturb the ENTRY/EXIT records -/

/-- the ENTRY/EXIT record of a stream element, if it is one -/
def recOf : Out → Option Rec
  | .record r _ => some r
  | .event _ => none

mutual
  /-- a call history without the observations -/
  def ECall.erase : ECall → Call
    | .node f t0 t1 _ _ kids => .node f t0 t1 kids.erase
  def ECalls.erase : ECalls → Calls
    | .nil => .nil
    | .cons c rest => .cons c.erase rest.erase
end

theorem filterMap_recOf_events (l : List Ev) : (l.map Out.event).filterMap recOf = [] := by
  induction l with
  | nil => rfl
  | cons e r ih => simp [recOf, ih]

mutual
theorem recs_specCall (cfg : ECfg) (k : Kind) : ∀ (d : Nat) (c : ECall),
    (specCall cfg k d c).filterMap recOf = evCall d c.erase
  | d, .node f t0 t1 oE oX kids => by
    have hk := recs_specCalls cfg k (d + 1) kids
    simp only [specCall, exitOut, entryOut_entryFrame, exitRecord_exitFrame, List.filterMap_append,
      filterMap_recOf_events, hk, ECall.erase, evCall]
    simp [recOf]
theorem recs_specCalls (cfg : ECfg) (k : Kind) : ∀ (d : Nat) (cs : ECalls),
    (specCalls cfg k d cs).filterMap recOf = evCalls d cs.erase
  | d, .nil => by simp [specCalls, ECalls.erase, evCalls]
  | d, .cons c rest => by
    simp [specCalls, ECalls.erase, evCalls, recs_specCall cfg k d c, recs_specCalls cfg k d rest]
end


/-! ### save_watchpoint -/

/-- `s'` differs from `s` at most in the pending events and the watch state -/
structure SameBut (s s' : ESt) : Prop where
  frames : s'.frames = s.frames
  over : s'.over = s.over
  recordIdx : s'.recordIdx = s.recordIdx
  warned : s'.warned = s.warned
  filt : s'.filt = s.filt
  enabled : s'.enabled = s.enabled
  enableCached : s'.enableCached = s.enableCached
  finished : s'.finished = s.finished
  out : s'.out = s.out

theorem SameBut.refl (s : ESt) : SameBut s s := by constructor <;> rfl

theorem SameBut.trans {a b c : ESt} (h1 : SameBut a b) (h2 : SameBut b c) : SameBut a c := by
  constructor
  · rw [h2.frames, h1.frames]
  · rw [h2.over, h1.over]
  · rw [h2.recordIdx, h1.recordIdx]
  · rw [h2.warned, h1.warned]
  · rw [h2.filt, h1.filt]
  · rw [h2.enabled, h1.enabled]
  · rw [h2.enableCached, h1.enableCached]
  · rw [h2.finished, h1.finished]
  · rw [h2.out, h1.out]

/-- a watch event saved at time `t` with tag `ridx` -/
def IsWatchEv (t ridx : Nat) (e : Ev) : Prop :=
  e.time = t ∧ e.idx = ridx ∧ (e.id = EVENT_ID_WATCH_CPU ∨ e.id = EVENT_ID_WATCH_VAR)

theorem saveWatchCpu_spec (s : ESt) (t ridx cpu : Nat) (init : Bool) :
    SameBut s (saveWatchCpu s t ridx cpu init) ∧
    ∃ W, (saveWatchCpu s t ridx cpu init).pend = s.pend ++ W ∧ ∀ e ∈ W, IsWatchEv t ridx e := by
  unfold saveWatchCpu
  refine ⟨by constructor <;> rfl, ?_⟩
  simp only
  split
  · exact ⟨[cpuEv t ridx cpu], rfl, by simp [IsWatchEv, cpuEv]⟩
  · exact ⟨[], by simp, by simp⟩

theorem saveWatchVar_spec (cfg : ECfg) (t ridx : Nat) (s : ESt) (k size v : Nat) :
    SameBut s (saveWatchVar cfg t ridx s k size v) ∧
    ∃ W, (saveWatchVar cfg t ridx s k size v).pend = s.pend ++ W ∧ ∀ e ∈ W, IsWatchEv t ridx e := by
  unfold saveWatchVar
  by_cases h1 : s.pend.length ≥ MAX_EVENT
  · simp only [h1, ↓reduceIte]
    exact ⟨SameBut.refl s, [], by simp, by simp⟩
  · by_cases h2 : (s.wcopy[k]? == some v) = true
    · simp only [h1, h2, ↓reduceIte]
      exact ⟨SameBut.refl s, [], by simp, by simp⟩
    · by_cases h3 : (s.glob[k]? == some (some v)) = true
      · simp only [h1, h2, h3, ↓reduceIte]
        cases cfg.fixVar
        · exact ⟨SameBut.refl s, [], by simp, by simp⟩
        · exact ⟨by constructor <;> rfl, [], by simp, by simp⟩
      · simp only [h1, h2, h3, ↓reduceIte]
        cases cfg.fixVar
        · exact ⟨by constructor <;> rfl, [varEv t ridx k size v], rfl, by simp [IsWatchEv, varEv]⟩
        · exact ⟨by constructor <;> rfl, [varEv t ridx k size v], rfl, by simp [IsWatchEv, varEv]⟩

theorem saveWatchVars_spec (cfg : ECfg) (t ridx : Nat) : ∀ (szs vs : List Nat) (s : ESt) (k : Nat),
    SameBut s (saveWatchVars cfg t ridx s k szs vs) ∧
    ∃ W, (saveWatchVars cfg t ridx s k szs vs).pend = s.pend ++ W ∧ ∀ e ∈ W, IsWatchEv t ridx e
  | [], vs, s, k => by
    simp only [saveWatchVars]
    exact ⟨SameBut.refl s, [], by simp, by simp⟩
  | size :: szs, [], s, k => by
    simp only [saveWatchVars]
    exact ⟨SameBut.refl s, [], by simp, by simp⟩
  | size :: szs, v :: vs, s, k => by
    simp only [saveWatchVars]
    obtain ⟨a1, W1, b1, c1⟩ := saveWatchVar_spec cfg t ridx s k size v
    obtain ⟨a2, W2, b2, c2⟩ := saveWatchVars_spec cfg t ridx szs vs (saveWatchVar cfg t ridx s k size v) (k + 1)
    refine ⟨a1.trans a2, W1 ++ W2, by rw [b2, b1]; simp, ?_⟩
    intro e he
    simp only [List.mem_append] at he
    rcases he with he | he
    · exact c1 e he
    · exact c2 e he

theorem saveWatchCpu_winited (s : ESt) (t ridx cpu : Nat) (init : Bool) :
    (saveWatchCpu s t ridx cpu init).winited = s.winited := rfl

theorem saveWatchVar_winited (cfg : ECfg) (t ridx : Nat) (s : ESt) (k size v : Nat) :
    (saveWatchVar cfg t ridx s k size v).winited = s.winited := by
  unfold saveWatchVar
  by_cases h1 : s.pend.length ≥ MAX_EVENT
  · simp [h1]
  · by_cases h2 : (s.wcopy[k]? == some v) = true
    · simp [h1, h2]
    · by_cases h3 : (s.glob[k]? == some (some v)) = true <;> simp only [h1, h2, h3, ↓reduceIte] <;>
        cases cfg.fixVar <;> rfl

theorem saveWatchVars_winited (cfg : ECfg) (t ridx : Nat) : ∀ (szs vs : List Nat) (s : ESt) (k : Nat),
    (saveWatchVars cfg t ridx s k szs vs).winited = s.winited
  | [], vs, s, k => by simp [saveWatchVars]
  | size :: szs, [], s, k => by simp [saveWatchVars]
  | size :: szs, v :: vs, s, k => by
    simp only [saveWatchVars]
    rw [saveWatchVars_winited cfg t ridx szs vs, saveWatchVar_winited]

/-- the time stamp save_watchpoint gives its events: one behind the hook's record, or one ahead
    of it for the thread's very first observation -/
def watchTime (b : Frame) (inited : Bool) : Nat := hookTime b + (if !inited then 2 else 0) - 1

/-- the tag save_watchpoint gives its events -/
def watchTag (cfg : ECfg) (ri : Nat) : Nat := if cfg.fixIdx then ri + 1 else ri

theorem saveWatch_spec (cfg : ECfg) (s : ESt) (b : Frame) (ri : Nat) (o : Obs) :
    SameBut s (saveWatch cfg s b ri o) ∧
    (saveWatch cfg s b ri o).winited = true ∧
    ∃ W, (saveWatch cfg s b ri o).pend = s.pend ++ W ∧
      ∀ e ∈ W, IsWatchEv (watchTime b s.winited) (watchTag cfg ri) e := by
  unfold saveWatch
  simp only
  have h0 : SameBut s { s with winited := true } := by constructor <;> rfl
  by_cases hc : cfg.watchCpu = true
  · simp only [hc, ↓reduceIte]
    obtain ⟨a1, W1, b1, c1⟩ := saveWatchCpu_spec { s with winited := true }
      (hookTime b + (if (!s.winited) = true then 2 else 0) - 1) (if cfg.fixIdx = true then ri + 1 else ri) o.cpu (!s.winited)
    obtain ⟨a2, W2, b2, c2⟩ := saveWatchVars_spec cfg
      (hookTime b + (if (!s.winited) = true then 2 else 0) - 1) (if cfg.fixIdx = true then ri + 1 else ri)
      cfg.varSizes o.vars (saveWatchCpu { s with winited := true }
        (hookTime b + (if (!s.winited) = true then 2 else 0) - 1) (if cfg.fixIdx = true then ri + 1 else ri) o.cpu (!s.winited)) 0
    refine ⟨h0.trans (a1.trans a2), ?_, W1 ++ W2, by rw [b2, b1]; simp, ?_⟩
    · rw [saveWatchVars_winited, saveWatchCpu_winited]
    · intro e he
      simp only [List.mem_append] at he
      rcases he with he | he
      · exact c1 e he
      · exact c2 e he
  · simp only [hc, Bool.false_eq_true, ↓reduceIte]
    obtain ⟨a2, W2, b2, c2⟩ := saveWatchVars_spec cfg
      (hookTime b + (if (!s.winited) = true then 2 else 0) - 1) (if cfg.fixIdx = true then ri + 1 else ri)
      cfg.varSizes o.vars { s with winited := true } 0
    refine ⟨h0.trans a2, ?_, W2, by rw [b2], c2⟩
    rw [saveWatchVars_winited]


theorem watchStep_spec (cfg : ECfg) (s : ESt) (b : Frame) (ri : Nat) (o : Obs) :
    SameBut s (watchStep cfg s b ri o) ∧
    ∃ W, (watchStep cfg s b ri o).pend = s.pend ++ W ∧
      ∀ e ∈ W, IsWatchEv (watchTime b s.winited) (watchTag cfg ri) e := by
  unfold watchStep
  split
  · obtain ⟨a, _, c⟩ := saveWatch_spec cfg s b ri o
    exact ⟨a, c⟩
  · exact ⟨SameBut.refl s, [], by simp, by simp⟩

/-! ### calls dropped by the time filter -/

/-- no filter or trigger in the underlying hook configuration; any threshold (-t), any
    watchpoints, read triggers, arguments -/
structure PlainT (cfg : ECfg) : Prop where
  optIn : cfg.base.optIn = false
  locIn : cfg.base.locIn = false
  caller : cfg.base.callerMode = false
  trig : ∀ f, cfg.base.trig f = {}
  maxs : cfg.base.maxStack < ASYNC_IDX

/-- the thread state between hooks at nesting depth `d`: nothing filtered; the pending watch events
    belong to the open frames (tags below `d + 1`), none is asynchronous -/
structure GoodT (s : ESt) (d : Nat) : Prop where
  over : s.over = 0
  len : s.frames.length = d
  ridx : s.recordIdx = d
  en : s.enabled = true
  inc : s.filt.inCount = 0
  outc : s.filt.outCount = 0
  fdepth : s.filt.depth = d
  fmax : s.filt.maxDepth = noMaxDepth
  ftime : s.filt.time = noTime
  fsize : s.filt.size = 0
  noskip : NoSkipE s.frames
  pend : ∀ e ∈ s.pend, e.idx < d + 1

theorem hasAsync_false (p : List Ev) (h : ∀ e ∈ p, e.idx < ASYNC_IDX) : hasAsync p = false := by
  unfold hasAsync
  apply List.any_eq_false.mpr
  intro e he
  have := h e he
  simp; omega

theorem dropWhile_append_all {α : Type} (p : α → Bool) (a b : List α) (h : ∀ x ∈ a, p x = true) :
    (a ++ b).dropWhile p = b.dropWhile p := by
  induction a with
  | nil => rfl
  | cons x r ih => simp [List.dropWhile, h x (by simp), ih (fun y hy => h y (by simp [hy]))]

theorem dropWhile_none {α : Type} (p : α → Bool) (b : List α) (h : ∀ x ∈ b, p x = false) : b.dropWhile p = b := by
  cases b with
  | nil => rfl
  | cons x r => simp [List.dropWhile, h x (by simp)]

/-- `mtdp->nr_events = k`: the events of the frame being left and of deeper frames go, the rest stays -/
theorem keepSync_split (p0 W : List Ev) (n : Nat) (h0 : ∀ e ∈ p0, e.idx < n) (hW : ∀ e ∈ W, ¬ e.idx < n) :
    keepSync (p0 ++ W) n = p0 := by
  unfold keepSync
  rw [List.reverse_append, dropWhile_append_all _ _ _ (by
    intro x hx
    simp only [List.mem_reverse] at hx
    simpa using hW x hx), dropWhile_none _ _ (by
    intro x hx
    simp only [List.mem_reverse] at hx
    simpa using h0 x hx)]
  simp

/-- the end of the entry hook when no asynchronous event is pending -/
theorem entryFinish_spec (cfg : ECfg) (sB : ESt) (F : EFrame) (rest : List EFrame) (o : Obs)
    (hp : ∀ e ∈ sB.pend, e.idx < ASYNC_IDX) (htag : watchTag cfg rest.length < ASYNC_IDX) :
    (entryFinish cfg sB F rest o).frames = F :: rest ∧
    (entryFinish cfg sB F rest o).out = sB.out ∧
    (entryFinish cfg sB F rest o).over = sB.over ∧
    (entryFinish cfg sB F rest o).recordIdx = sB.recordIdx ∧
    (entryFinish cfg sB F rest o).filt = sB.filt ∧
    (entryFinish cfg sB F rest o).enabled = sB.enabled ∧
    ∃ W, (entryFinish cfg sB F rest o).pend = sB.pend ++ W ∧
      ∀ e ∈ W, IsWatchEv (watchTime F.b sB.winited) (watchTag cfg rest.length) e := by
  obtain ⟨hs, W, hW, hWe⟩ := watchStep_spec cfg sB F.b rest.length o
  have hna : hasAsync (watchStep cfg sB F.b rest.length o).pend = false := by
    apply hasAsync_false
    intro e he
    rw [hW] at he
    simp only [List.mem_append] at he
    rcases he with he | he
    · exact hp e he
    · rw [(hWe e he).2.1]; exact htag
  unfold entryFinish
  simp only [hna, Bool.false_eq_true, ↓reduceIte]
  refine ⟨?_, hs.out, hs.over, hs.recordIdx, hs.filt, hs.enabled, W, hW, hWe⟩
  first | rfl | trivial

/-- the end of the entry hook when no asynchronous event is pending, as an equation -/
theorem entryFinish_eq (cfg : ECfg) (sB : ESt) (F : EFrame) (rest : List EFrame) (o : Obs)
    (hp : ∀ e ∈ sB.pend, e.idx < ASYNC_IDX) (htag : watchTag cfg rest.length < ASYNC_IDX) :
    entryFinish cfg sB F rest o = { watchStep cfg sB F.b rest.length o with frames := F :: rest } := by
  obtain ⟨hs, W, hW, hWe⟩ := watchStep_spec cfg sB F.b rest.length o
  have hna : hasAsync (watchStep cfg sB F.b rest.length o).pend = false := by
    apply hasAsync_false
    intro e he
    rw [hW] at he
    simp only [List.mem_append] at he
    rcases he with he | he
    · exact hp e he
    · rw [(hWe e he).2.1]; exact htag
  unfold entryFinish
  simp only [hna, Bool.false_eq_true, ↓reduceIte]

/-- the exit hook of a call that passes the time filter: record_trace_data -/
theorem exitFinish_record (cfg : ECfg) (sB : ESt) (f f1 : EFrame) (rest : List EFrame) (tf : Nat) (retv : Bool) (o : Obs)
    (hc : durOk cfg.base (subU64 f.b.endT f.b.start) tf = true) (hcm : cfg.base.callerMode = false) :
    exitFinish cfg sB f f1 rest tf retv o =
      ({ watchStep cfg sB f1.b rest.length o with frames := f1 :: rest } : ESt).recorded
        (recordTraceE cfg retv (f1 :: rest) (watchStep cfg sB f1.b rest.length o).pend) := by
  unfold exitFinish
  simp [hc, hcm]

theorem watchStep_hookTime (cfg : ECfg) (s : ESt) (b b' : Frame) (ri : Nat) (o : Obs) (h : hookTime b = hookTime b') :
    watchStep cfg s b ri o = watchStep cfg s b' ri o := by
  unfold watchStep saveWatch
  simp only [h]

theorem markToE_start (fs : List EFrame) : ∀ g ∈ markToE fs, ∃ g' ∈ fs, g.b.start = g'.b.start := by
  induction fs with
  | nil => simp [markToE]
  | cons f r ih =>
    intro g hg
    simp only [markToE] at hg
    split at hg
    · exact ⟨g, hg, rfl⟩
    · simp only [List.mem_cons] at hg
      rcases hg with rfl | hg
      · exact ⟨f, by simp, rfl⟩
      · obtain ⟨g', h1, h2⟩ := ih g hg
        exact ⟨g', by simp [h1], h2⟩

theorem entryFinish_good (cfg : ECfg) (sB : ESt) (F : EFrame) (rest : List EFrame) (o : Obs) (d : Nat)
    (hlen : rest.length = d) (hmax : d + 1 < ASYNC_IDX)
    (h1 : sB.over = 0) (h3 : sB.recordIdx = d + 1) (h4 : sB.enabled = true) (h5 : sB.filt.inCount = 0)
    (h6 : sB.filt.outCount = 0) (h7 : sB.filt.depth = d + 1) (h8 : sB.filt.maxDepth = noMaxDepth)
    (h9 : sB.filt.time = noTime) (h10 : sB.filt.size = 0)
    (hF : F.b.norecord = false ∧ F.b.disabled = false) (hns : NoSkipE rest)
    (hp : ∀ e ∈ sB.pend, e.idx < d + 1) :
    GoodT (entryFinish cfg sB F rest o) (d + 1) := by
  have htag : watchTag cfg rest.length < ASYNC_IDX := by unfold watchTag; split <;> omega
  obtain ⟨a1, a2, a3, a4, a5, a6, W, a7, a8⟩ := entryFinish_spec cfg sB F rest o
    (fun e he => by have := hp e he; omega) htag
  constructor
  · rw [a3, h1]
  · rw [a1]; simp [hlen]
  · rw [a4, h3]
  · rw [a6, h4]
  · rw [a5, h5]
  · rw [a5, h6]
  · rw [a5, h7]
  · rw [a5, h8]
  · rw [a5, h9]
  · rw [a5, h10]
  · rw [a1]
    intro g hg
    simp only [List.mem_cons] at hg
    rcases hg with rfl | hg
    · exact hF
    · exact hns g hg
  · intro e he
    rw [a7] at he
    simp only [List.mem_append] at he
    rcases he with he | he
    · have := hp e he; omega
    · rw [(a8 e he).2.1, hlen]; unfold watchTag; split <;> omega

/-- the thread state mcount_entry_filter_record hands to save_watchpoint for an unfiltered call -/
def entryBase (s : ESt) (d : Nat) (F0 : EFrame) : ESt :=
  { frames := F0 :: s.frames, over := s.over, recordIdx := d + 1,
    filt := { depth := d + 1, svDepth := d, svMaxDepth := noMaxDepth, svTime := noTime },
    enableCached := s.enableCached, finished := s.finished, pend := s.pend, winited := s.winited,
    wcpu := s.wcpu, wcopy := s.wcopy, glob := s.glob, out := s.out }

/-- the filter-free part of the state between hooks at depth `d` -/
structure GoodB (s : ESt) (d : Nat) : Prop where
  over : s.over = 0
  len : s.frames.length = d
  ridx : s.recordIdx = d
  en : s.enabled = true
  inc : s.filt.inCount = 0
  outc : s.filt.outCount = 0
  fdepth : s.filt.depth = d
  fmax : s.filt.maxDepth = noMaxDepth
  ftime : s.filt.time = noTime
  fsize : s.filt.size = 0
  noskip : NoSkipE s.frames

theorem GoodT.toB {s : ESt} {d : Nat} (h : GoodT s d) : GoodB s d :=
  ⟨h.over, h.len, h.ridx, h.en, h.inc, h.outc, h.fdepth, h.fmax, h.ftime, h.fsize, h.noskip⟩

theorem entryE_T_unfold (cfg : ECfg) (hp : PlainT cfg) (k : Kind) (s : ESt) (d f t0 : Nat) (o : Obs)
    (hg : GoodB s d) (hm : d < cfg.base.maxStack) (hd : d < cfg.base.depthOpt) :
    entryE cfg k s f t0 o =
      (entryFinish cfg (entryBase s d { b := { addr := f, start := t0, depth := d, cyg := k == .cyg } })
        (entryFrame cfg k f t0 d o) s.frames o, true) := by
  obtain ⟨h1, h2, h3, h4, h5, h6, h7, h8, h9, h10, h11⟩ := hg
  have hidx : ¬ (s.idx ≥ cfg.base.maxStack) := by simp [ESt.idx, h1, h2]; omega
  have hnd : ¬ (d ≥ cfg.base.depthOpt) := by omega
  cases k <;>
  simp [entryE, entryFilterCheckE, checkRstackE, hidx, hp.optIn, hp.locIn, hp.trig,
    saveFilt, matchFilt, earlyOut, trigFilt, depthLimit, trigEnabled,
    entryFilterRecordE, entryEvents, h3, h4, h5, h6, h7, h8, h9, h10, hnd, h2, entryBase, entryFrame, freshFrame,
    plainFrame, show (Kind.pg == Kind.cyg) = false from rfl, show (Kind.cyg == Kind.pg) = false from rfl]

theorem entryE_T (cfg : ECfg) (hp : PlainT cfg) (k : Kind) (s : ESt) (d f t0 : Nat) (o : Obs)
    (hg : GoodT s d) (hm : d < cfg.base.maxStack) (hd : d < cfg.base.depthOpt) :
    (entryE cfg k s f t0 o).2 = true ∧
    (entryE cfg k s f t0 o).1.out = s.out ∧
    (entryE cfg k s f t0 o).1.frames = entryFrame cfg k f t0 d o :: s.frames ∧
    (∃ W, (entryE cfg k s f t0 o).1.pend = s.pend ++ W ∧
      ∀ e ∈ W, IsWatchEv (watchTime (plainFrame k f t0 d) s.winited) (watchTag cfg d) e) ∧
    GoodT (entryE cfg k s f t0 o).1 (d + 1) := by
  rw [entryE_T_unfold cfg hp k s d f t0 o hg.toB hm hd]
  obtain ⟨h1, h2, h3, h4, h5, h6, h7, h8, h9, h10, h11, h12⟩ := hg
  have hmax := hp.maxs
  have hFb := entryFrame_b cfg k f t0 d o
  have hpa : ∀ e ∈ (entryBase s d { b := { addr := f, start := t0, depth := d, cyg := k == .cyg } }).pend,
      e.idx < ASYNC_IDX := fun e he => by have := h12 e he; omega
  have htag : watchTag cfg s.frames.length < ASYNC_IDX := by unfold watchTag; split <;> omega
  obtain ⟨a1, a2, a3, a4, a5, a6, W, a7, a8⟩ := entryFinish_spec cfg _ (entryFrame cfg k f t0 d o) s.frames o hpa htag
  refine ⟨rfl, a2, a1, ⟨W, a7, ?_⟩, ?_⟩
  · intro e he
    have := a8 e he
    rw [hFb, h2] at this
    exact this
  · exact entryFinish_good cfg _ _ _ o d h2 (by omega) h1 rfl rfl rfl rfl rfl rfl rfl rfl
      (by rw [hFb]; simp [plainFrame]) h11 h12


/-- the state mcount_exit_filter_record hands to save_watchpoint -/
def exitBase (s2 : ESt) (top : EFrame) (rest : List EFrame) : ESt :=
  { s2 with
    frames := top :: rest,
    filt := { s2.filt with
      inCount := if top.b.filtered then s2.filt.inCount - 1 else s2.filt.inCount,
      outCount := if !top.b.filtered && top.b.notrace then s2.filt.outCount - 1 else s2.filt.outCount,
      depth := top.b.sDepth, maxDepth := top.b.sMaxDepth, time := top.b.sTime, size := top.b.sSize },
    recordIdx := s2.recordIdx - 1 }

/-- the exit hook of a recorded frame while tracing is on, up to save_watchpoint -/
theorem exitE_T_unfold (cfg : ECfg) (s2 : ESt) (top : EFrame) (rest : List EFrame) (t1 : Nat) (o : Obs)
    (hfr : s2.frames = top :: rest) (hover : s2.over = 0) (hnr : top.b.norecord = false)
    (hen : s2.enabled = true) (hft : s2.filt.time = noTime) :
    exitE cfg s2 t1 o =
      { exitFinish cfg (exitBase s2 (setEnd top t1) rest) (setEnd top t1)
          (exitArea cfg (setEnd top t1) (rest.length + 1) o) rest cfg.base.threshold (!top.b.cyg && top.retFl) o with
        frames := (exitFinish cfg (exitBase s2 (setEnd top t1) rest) (setEnd top t1)
          (exitArea cfg (setEnd top t1) (rest.length + 1) o) rest cfg.base.threshold (!top.b.cyg && top.retFl) o).frames.tail } := by
  simp [exitE, hover, hfr, hnr, exitFilterRecordE, exitEvents, hft, hen, exitBase]
  repeat' (first | rfl | constructor)

/-- the tail of the exit hook for a call the time filter drops (repaired tag rule): the pending watch
    events of this call and of its callees go, everything older stays, nothing is written -/
theorem exitFinish_drop (cfg : ECfg) (sB : ESt) (f f1 : EFrame) (rest : List EFrame) (tf : Nat) (retv : Bool) (o : Obs)
    (hshort : durOk cfg.base (subU64 f.b.endT f.b.start) tf = false) (hw : f.b.written = false) (htr : f.b.trace = false)
    (p0 W0 : List Ev) (hpend : sB.pend = p0 ++ W0) (h0 : ∀ e ∈ p0, e.idx < rest.length + 1)
    (hW0 : ∀ e ∈ W0, e.idx = rest.length + 1) (hfix : cfg.fixIdx = true) (hmax : rest.length + 1 < ASYNC_IDX) :
    (exitFinish cfg sB f f1 rest tf retv o).pend = p0 ∧
    (exitFinish cfg sB f f1 rest tf retv o).frames = f1 :: rest ∧
    (exitFinish cfg sB f f1 rest tf retv o).out = sB.out ∧
    (exitFinish cfg sB f f1 rest tf retv o).over = sB.over ∧
    (exitFinish cfg sB f f1 rest tf retv o).recordIdx = sB.recordIdx ∧
    (exitFinish cfg sB f f1 rest tf retv o).filt = sB.filt ∧
    (exitFinish cfg sB f f1 rest tf retv o).enabled = sB.enabled := by
  obtain ⟨hs, W, hW, hWe⟩ := watchStep_spec cfg sB f1.b rest.length o
  have htag : watchTag cfg rest.length = rest.length + 1 := by simp [watchTag, hfix]
  have hWi : ∀ e ∈ W0 ++ W, e.idx = rest.length + 1 := by
    intro e he
    simp only [List.mem_append] at he
    rcases he with he | he
    · exact hW0 e he
    · rw [(hWe e he).2.1, htag]
  have hp' : (watchStep cfg sB f1.b rest.length o).pend = p0 ++ (W0 ++ W) := by rw [hW, hpend]; simp
  have hna : hasAsync (watchStep cfg sB f1.b rest.length o).pend = false := by
    apply hasAsync_false
    intro e he
    rw [hp'] at he
    simp only [List.mem_append] at he
    rcases he with he | he
    · have := h0 e he; omega
    · have := hWi e (by simpa using he); omega
  have hks : keepSync (watchStep cfg sB f1.b rest.length o).pend (rest.length + 1) = p0 := by
    rw [hp']
    exact keepSync_split p0 (W0 ++ W) (rest.length + 1) h0 (fun e he => by have := hWi e he; omega)
  have hc : ((durOk cfg.base (subU64 f.b.endT f.b.start) tf && (!cfg.base.callerMode || f.b.caller)) || f.b.written || f.b.trace) = false := by
    simp [hshort, hw, htr]
  unfold exitFinish
  simp only [hc, Bool.false_eq_true, ↓reduceIte, hna]
  by_cases hem : (watchStep cfg sB f1.b rest.length o).pend.isEmpty = true
  · simp only [hem, Bool.not_true, Bool.false_eq_true, ↓reduceIte]
    have : p0 = [] := by
      have h := List.isEmpty_iff.mp hem
      rw [hp'] at h
      simpa using (List.append_eq_nil_iff.mp h).1
    refine ⟨by rw [List.isEmpty_iff.mp hem, this], by first | rfl | trivial, hs.out, hs.over, hs.recordIdx, hs.filt, hs.enabled⟩
  · simp only [hem, Bool.not_false, ↓reduceIte]
    exact ⟨hks, by first | rfl | trivial, hs.out, hs.over, hs.recordIdx, hs.filt, hs.enabled⟩


mutual
  /-- every call of the history is one the time filter -t thr drops: its duration on the 64-bit clock,
      `t1 - t0` modulo 2^64 as the exit hook computes it, is less than `thr` (not longer than `thr`
      for the code before the repair of finding S4, `base.s4fixed = false`).  A call whose exit time
      stamp lies before its entry time stamp is not short: its duration wraps to almost 2^64. -/
  def ECall.short (b : Cfg) (thr : Nat) : ECall → Prop
    | .node _ t0 t1 _ _ kids => durOk b (subU64 t1 t0) thr = false ∧ kids.short b thr
  def ECalls.short (b : Cfg) (thr : Nat) : ECalls → Prop
    | .nil => True
    | .cons c rest => c.short b thr ∧ rest.short b thr
end

theorem exitE_T_drop (cfg : ECfg) (hp : PlainT cfg) (hfix : cfg.fixIdx = true) (k : Kind) (s s2 : ESt)
    (d f t0 t1 : Nat) (F : EFrame) (o : Obs) (W : List Ev)
    (hb : F.b = plainFrame k f t0 d) (hg : GoodT s d) (hg2 : GoodT s2 (d + 1))
    (hfr : s2.frames = F :: s.frames) (hpend : s2.pend = s.pend ++ W) (hW : ∀ e ∈ W, e.idx = d + 1)
    (hout : s2.out = s.out) (hshort : durOk cfg.base (subU64 t1 t0) cfg.base.threshold = false) (hdm : d + 1 < ASYNC_IDX) :
    (exitE cfg s2 t1 o).out = s.out ∧
    (exitE cfg s2 t1 o).pend = s.pend ∧
    (exitE cfg s2 t1 o).frames = s.frames ∧
    GoodT (exitE cfg s2 t1 o) d := by
  have hnr : F.b.norecord = false := by rw [hb]; rfl
  have hu := exitE_T_unfold cfg s2 F s.frames t1 o hfr hg2.over hnr hg2.en hg2.ftime
  have hlen := hg.len
  obtain ⟨a1, a2, a3, a4, a5, a6, a7⟩ := exitFinish_drop cfg (exitBase s2 (setEnd F t1) s.frames) (setEnd F t1)
    (exitArea cfg (setEnd F t1) (s.frames.length + 1) o) s.frames cfg.base.threshold (!F.b.cyg && F.retFl) o
    (by simpa [hb, plainFrame, setEnd] using hshort) (by simp [hb, plainFrame]) (by simp [hb, plainFrame])
    s.pend W (by simp [exitBase, hpend]) (by rw [hlen]; exact hg.pend) (by rw [hlen]; exact hW) hfix
    (by rw [hlen]; exact hdm)
  rw [hu]
  refine ⟨by simp only [a3]; simp [exitBase, hout], by simp only [a1], by simp only [a2]; rfl, ?_⟩
  constructor
  · simp only [a4]; simp [exitBase, hg2.over]
  · simp only [a2]; simpa using hlen
  · simp only [a5]; simp [exitBase, hg2.ridx]
  · simp only [a7]; simp [exitBase, hg2.en]
  · simp only [a6]; simp [exitBase, hb, plainFrame, hg2.inc]
  · simp only [a6]; simp [exitBase, hb, plainFrame, hg2.outc]
  · simp only [a6]; simp [exitBase, hb, plainFrame]
  · simp only [a6]; simp [exitBase, hb, plainFrame]
  · simp only [a6]; simp [exitBase, hb, plainFrame]
  · simp only [a6]; simp [exitBase, hb, plainFrame]
  · simp only [a2]; simpa using hg.noskip
  · simp only [a1]; exact hg.pend

mutual
/-- a call the time filter drops — with everything it calls — leaves no trace: nothing is written,
    the pending events and the open frames are as before (repaired tag rule, `fixIdx`) -/
theorem dropped_call (cfg : ECfg) (hp : PlainT cfg) (hfix : cfg.fixIdx = true) (k : Kind) :
    ∀ (c : ECall) (s : ESt) (d : Nat), GoodT s d → d + c.height ≤ cfg.base.maxStack →
      d + c.height ≤ cfg.base.depthOpt → c.short cfg.base cfg.base.threshold →
      (runECall cfg k s c).out = s.out ∧ (runECall cfg k s c).pend = s.pend ∧
      (runECall cfg k s c).frames = s.frames ∧ GoodT (runECall cfg k s c) d
  | .node f t0 t1 oE oX kids, s, d, hg, hm, hd, hs => by
    simp only [ECall.height] at hm hd
    simp only [ECall.short] at hs
    have hmax := hp.maxs
    obtain ⟨e1, e2, e3, ⟨W, e4, e5⟩, e6⟩ := entryE_T cfg hp k s d f t0 oE hg (by omega) (by omega)
    obtain ⟨k1, k2, k3, k4⟩ := dropped_calls cfg hp hfix k kids (entryE cfg k s f t0 oE).1 (d + 1) e6
      (by omega) (by omega) hs.2
    simp only [runECall, e1, ↓reduceIte]
    have htag : watchTag cfg d = d + 1 := by simp [watchTag, hfix]
    exact exitE_T_drop cfg hp hfix k s _ d f t0 t1 (entryFrame cfg k f t0 d oE) oX W
      (entryFrame_b cfg k f t0 d oE) hg k4 (by rw [k3, e3]) (by rw [k2, e4])
      (fun e he => by rw [(e5 e he).2.1, htag]) (by rw [k1, e2]) hs.1 (by omega)
theorem dropped_calls (cfg : ECfg) (hp : PlainT cfg) (hfix : cfg.fixIdx = true) (k : Kind) :
    ∀ (cs : ECalls) (s : ESt) (d : Nat), GoodT s d → d + cs.height ≤ cfg.base.maxStack →
      d + cs.height ≤ cfg.base.depthOpt → cs.short cfg.base cfg.base.threshold →
      (runECalls cfg k s cs).out = s.out ∧ (runECalls cfg k s cs).pend = s.pend ∧
      (runECalls cfg k s cs).frames = s.frames ∧ GoodT (runECalls cfg k s cs) d
  | .nil, s, d, hg, _, _, _ => by simp [runECalls, hg]
  | .cons c rest, s, d, hg, hm, hd, hs => by
    simp only [ECalls.height] at hm hd
    simp only [ECalls.short] at hs
    obtain ⟨c1, c2, c3, c4⟩ := dropped_call cfg hp hfix k c s d hg (by omega) (by omega) hs.1
    obtain ⟨r1, r2, r3, r4⟩ := dropped_calls cfg hp hfix k rest (runECall cfg k s c) d c4 (by omega) (by omega) hs.2
    simp only [runECalls]
    exact ⟨by rw [r1, c1], by rw [r2, c2], by rw [r3, c3], r4⟩
end

end Uft.Events
