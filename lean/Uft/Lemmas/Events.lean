import Uft.Model.Events
/- helper lemmas for Props/C17 -/
namespace Uft.Events
open Uft.Mcount

theorem takeAsync_append (p : List Ev) (ts : Nat) :
    (takeAsync p ts).1 ++ (takeAsync p ts).2 = p := by
  induction p with
  | nil => rfl
  | cons e r ih =>
    simp only [takeAsync]
    split
    · simp [ih]
    · simp

end Uft.Events
