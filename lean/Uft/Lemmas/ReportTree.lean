/- C08 helper lemmas: tree-defined invocations; what the reader computes on well-timed
   trees; the whole report over forests. -/
import Uft.Lemmas.ReportMerge
namespace Uft.Report
open Uft.Mcount (Call Calls)

/-- duration of a call -/
def durI : Call → Nat
  | .node _ t0 t1 _ => t1 - t0

/-- summed duration of a list of calls -/
def durSum : Calls → Nat
  | .nil => 0
  | .cons c rest => durI c + durSum rest

mutual
  /-- the invocations of a call tree in exit order: function, duration (`total`), duration minus
      the callees' durations (`self`), and whether the same function is among the open callers
      `ctx` (`recursive`) -/
  def invs (ctx : List Nat) : Call → List Upd
    | .node f t0 t1 kids =>
      invsL (ctx ++ [f]) kids ++
        [{ key := f, total := t1 - t0, self := (t1 - t0) - durSum kids, recursive := ctx.any (· == f) }]
  def invsL (ctx : List Nat) : Calls → List Upd
    | .nil => []
    | .cons c rest => invs ctx c ++ invsL ctx rest
end

mutual
  /-- well timed: a call ends no earlier than it starts (before 2^64 ns) and the durations of
      its callees fit into its own; implied by non-decreasing timestamps (`wt_of_sorted`) -/
  def wt : Call → Prop
    | .node _ t0 t1 kids => t0 ≤ t1 ∧ t1 < M64 ∧ durSum kids ≤ t1 - t0 ∧ wtL kids
  def wtL : Calls → Prop
    | .nil => True
    | .cons c rest => wt c ∧ wtL rest
end

theorem sub64_eq (a b : Nat) (h : b ≤ a) (ha : a < M64) : sub64 a b = a - b := by
  simp only [sub64, M64] at *; omega

theorem add64_eq (a b : Nat) (h : a + b < M64) : add64 a b = a + b := by
  simp only [add64, M64] at *; omega

theorem dur_eq : ∀ (c : Call), wt c → dur c = durI c
  | .node _ t0 t1 _, h => by
    simp only [wt] at h
    simp only [dur, durI]; exact sub64_eq _ _ h.1 h.2.1

theorem childTime_eq : ∀ (cs : Calls) (acc : Nat), wtL cs → acc + durSum cs < M64 →
    childTime acc cs = acc + durSum cs
  | .nil, acc, _, _ => by simp [childTime, durSum]
  | .cons c rest, acc, h, hlt => by
    simp only [wtL] at h
    simp only [durSum] at hlt
    simp only [childTime, durSum, dur_eq c h.1]
    rw [add64_eq _ _ (by omega), childTime_eq rest _ h.2 (by omega)]
    omega

mutual
theorem upds_eq : ∀ (c : Call) (ctx : List Nat), wt c → upds ctx c = invs ctx c
  | .node f t0 t1 kids, ctx, h => by
    simp only [wt] at h
    obtain ⟨h1, h2, h3, h4⟩ := h
    have hd : sub64 t1 t0 = t1 - t0 := sub64_eq _ _ h1 h2
    have hc : childTime 0 kids = durSum kids := by
      rw [childTime_eq kids 0 h4 (by omega)]; omega
    have hcl : ¬ (durSum kids > t1 - t0) := by omega
    simp only [upds, invs, hd, hc, hcl, if_false, updsL_eq kids _ h4]
    rw [sub64_eq _ _ h3 (by omega)]
theorem updsL_eq : ∀ (cs : Calls) (ctx : List Nat), wtL cs → updsL ctx cs = invsL ctx cs
  | .nil, _, _ => rfl
  | .cons c rest, ctx, h => by
    simp only [wtL] at h
    simp only [updsL, invsL, upds_eq c ctx h.1, updsL_eq rest ctx h.2]
end

/-- the functions and recursion flags of the invocations do not depend on the timestamps -/
def Upd.tag (u : Upd) : Nat × Bool := (u.key, u.recursive)

mutual
theorem upds_tags : ∀ (c : Call) (ctx : List Nat), (upds ctx c).map Upd.tag = (invs ctx c).map Upd.tag
  | .node f t0 t1 kids, ctx => by
    simp only [upds, invs, List.map_append, updsL_tags kids, List.map_cons, List.map_nil, Upd.tag]
theorem updsL_tags : ∀ (cs : Calls) (ctx : List Nat), (updsL ctx cs).map Upd.tag = (invsL ctx cs).map Upd.tag
  | .nil, _ => rfl
  | .cons c rest, ctx => by
    simp only [updsL, invsL, List.map_append, upds_tags c, updsL_tags rest]
end

mutual
/-- the self times of a call tree add up to its duration -/
theorem self_sum_call : ∀ (c : Call) (ctx : List Nat), wt c → ((invs ctx c).map (·.self)).sum = durI c
  | .node f t0 t1 kids, ctx, h => by
    simp only [wt] at h
    simp only [invs, List.map_append, List.sum_append, self_sum_calls kids _ h.2.2.2, durI,
      List.map_cons, List.map_nil, List.sum_cons, List.sum_nil]
    omega
theorem self_sum_calls : ∀ (cs : Calls) (ctx : List Nat), wtL cs → ((invsL ctx cs).map (·.self)).sum = durSum cs
  | .nil, _, _ => rfl
  | .cons c rest, ctx, h => by
    simp only [wtL] at h
    simp only [invsL, List.map_append, List.sum_append, self_sum_call c ctx h.1, self_sum_calls rest ctx h.2,
      durSum]
end

/-! ### the whole report over forests -/

/-- the data set: task `i` executed the forest `forests[i]` (complete calls, depth 0 upwards) -/
def streamsOf (forests : List Calls) : List (List Rec) := forests.map (evCalls 0)

/-- what the reader's arithmetic makes of the forests (wrap-around and clamp included) -/
def allUpds (forests : List Calls) : List Upd := forests.flatMap (updsL [])

/-- the invocations of the data set -/
def allInvs (forests : List Calls) : List Upd := forests.flatMap (invsL [])

theorem finishF_nil (t : Task) (h : t.sc = 0) : finishF t = [] := by simp [finishF, h]

theorem runT_forest (m : Nat) (cs : Calls) (h : cs.height ≤ m) :
    (runT (Task.init m) (evCalls 0 cs)).2 = updsL [] cs ∧ (runT (Task.init m) (evCalls 0 cs)).1.sc = 0 := by
  have := run_calls cs (Task.init m) 0 0 rfl rfl (Or.inr ⟨rfl, rfl⟩) (by simp [Task.init]; exact h)
  refine ⟨?_, ?_⟩
  · rw [this.1]; simp [ctxOf]
  · rw [this.2.sc]; rfl

theorem map_getD_range {α : Type} (l : List α) (d : α) :
    (List.range l.length).map (fun i => l.getD i d) = l := by
  apply List.ext_getElem?
  intro i
  by_cases h : i < l.length
  · simp [h, List.getD_eq_getElem?_getD]
  · have h' : l.length ≤ i := by omega
    simp [h, List.getElem?_eq_none h']

theorem flatMap_range_getD {α β : Type} (l : List α) (d : α) (g : α → List β) :
    (List.range l.length).flatMap (fun i => g (l.getD i d)) = l.flatMap g := by
  have h := map_getD_range l d
  conv => rhs; rw [← h]
  rw [List.flatMap_map]

theorem foldl_upds_nil (l : List Nat) (ns : Nodes) (g : Nat → List Upd) (h : ∀ i, g i = []) :
    l.foldl (fun ns i => Nodes.upds ns (g i)) ns = ns := by
  induction l generalizing ns with
  | nil => rfl
  | cons a l ih => simp only [List.foldl_cons, h a]; exact ih ns

theorem getD_streamsOf (forests : List Calls) (i : Nat) :
    (streamsOf forests).getD i [] = evCalls 0 (forests.getD i .nil) := by
  simp only [streamsOf, List.getD_eq_getElem?_getD, List.getElem?_map]
  cases forests[i]? <;> simp [evCalls]

theorem height_getD (forests : List Calls) (m : Nat) (h : ∀ cs ∈ forests, cs.height ≤ m) (i : Nat) :
    (forests.getD i .nil).height ≤ m := by
  simp only [List.getD_eq_getElem?_getD]
  cases hg : forests[i]? with
  | none => simp [Calls.height]
  | some cs => simpa using h cs (List.mem_of_getElem? hg)

/-- the function report over complete forests: the node table is the empty table updated with
    the forests' invocations as the reader computes them (task order; any order gives the same) -/
theorem report_forests (m : Nat) (forests : List Calls) (hfit : ∀ cs ∈ forests, cs.height ≤ m) :
    reportNodes false m (streamsOf forests) = Nodes.upds (fun _ => {}) (allUpds forests) := by
  obtain ⟨hproj, hlt⟩ := mergeAll_proj (streamsOf forests)
  have hlen : (streamsOf forests).length = forests.length := by simp [streamsOf]
  obtain ⟨us, hn, hp⟩ := run_nodes (streamsOf forests).length (mergeAll (streamsOf forests)) (St.init m) hlt
  have htask : ∀ i, (run false (St.init m) (mergeAll (streamsOf forests))).tasks i =
      (runT (Task.init m) (evCalls 0 (forests.getD i .nil))).1 := by
    intro i
    rw [run_tasks, hproj i, getD_streamsOf]; rfl
  have hfin : ∀ i, finishF ((run false (St.init m) (mergeAll (streamsOf forests))).tasks i) = [] := by
    intro i
    rw [htask i]
    exact finishF_nil _ (runT_forest m _ (height_getD forests m hfit i)).2
  have hblocks : blocks (streamsOf forests).length (St.init m).tasks (mergeAll (streamsOf forests)) =
      allUpds forests := by
    unfold blocks allUpds
    rw [hlen, ← flatMap_range_getD forests .nil (updsL [])]
    apply flatMap_eq_of_forall
    intro i _
    rw [hproj i, getD_streamsOf]
    exact (runT_forest m _ (height_getD forests m hfit i)).1
  unfold reportNodes
  simp only [Bool.false_eq_true, if_false, finish]
  rw [foldl_upds_nil _ _ _ hfin, hn, Nodes.upds_perm _ (hblocks ▸ hp)]
  rfl

end Uft.Report
