import Uft.Lemmas.Events
/-
C17 — calls dropped by the time filter on *filtered* stacks: frames that are not recorded
(MCOUNT_FL_NORECORD: outside the -F region, the -N function, beyond -D) lie below, between and
above the recorded ones, so the return-stack index of a frame (`rest.length`, what save_watchpoint
tags its events with and what mcount_exit_filter_record compares with `mtdp->idx`) differs from its
record depth (`Frame.depth`, `mtdp->record_idx` at entry).  The model carries both; nothing here
depends on the record depth.
-/
set_option linter.unusedSimpArgs false
set_option linter.unusedVariables false
namespace Uft.Events
open Uft.Mcount

/-- the threshold mcount_exit_filter_record compares with: a `time=` trigger in force, or -t -/
def effThreshold (cfg : ECfg) (s : ESt) : Nat := if s.filt.time = noTime then cfg.base.threshold else s.filt.time

/-- the exit hook of a recorded frame while tracing is on, up to save_watchpoint (any filter state) -/
theorem exitE_unfoldF (cfg : ECfg) (s2 : ESt) (top : EFrame) (rest : List EFrame) (t1 : Nat) (o : Obs)
    (hfr : s2.frames = top :: rest) (hover : s2.over = 0) (hnr : top.b.norecord = false)
    (hen : s2.enabled = true) :
    exitE cfg s2 t1 o =
      { exitFinish cfg (exitBase s2 (setEnd top t1) rest) (setEnd top t1)
          (exitArea cfg (setEnd top t1) (rest.length + 1) o) rest (effThreshold cfg s2) (!top.b.cyg && top.retFl) o with
        frames := (exitFinish cfg (exitBase s2 (setEnd top t1) rest) (setEnd top t1)
          (exitArea cfg (setEnd top t1) (rest.length + 1) o) rest (effThreshold cfg s2) (!top.b.cyg && top.retFl) o).frames.tail } := by
  simp [exitE, hover, hfr, hnr, exitFilterRecordE, exitEvents, hen, exitBase, effThreshold]
  repeat' (first | rfl | constructor)

/-- One exit hook on an arbitrary stack.  `top` is a recorded frame whose call the time filter drops
    (shorter than the threshold in force, ENTRY not written, no `trace` trigger); `rest` — the frames
    below it — is *any* list of frames, recorded or not, in any order, and the record depth of `top` is
    whatever it is.  The pending events are `p0 ++ W0`: `p0` saved by the hooks of frames below
    (tags ≤ `rest.length`, i.e. rstack index + 1 of a caller's frame), `W0` by `top`'s own hooks.  Then
    the hook writes nothing, pops `top`, and keeps exactly `p0`: a pending event of a recorded caller
    survives the drop of the short call, whatever unrecorded frames are on the stack. -/
theorem exitE_drop_filtered (cfg : ECfg) (hfix : cfg.fixIdx = true) (s2 : ESt) (top : EFrame) (rest : List EFrame)
    (t1 : Nat) (o : Obs) (p0 W0 : List Ev)
    (hfr : s2.frames = top :: rest) (hover : s2.over = 0) (hnr : top.b.norecord = false) (hen : s2.enabled = true)
    (hshort : durOk cfg.base (subU64 t1 top.b.start) (effThreshold cfg s2) = false)
    (hw : top.b.written = false) (htr : top.b.trace = false)
    (hpend : s2.pend = p0 ++ W0) (h0 : ∀ e ∈ p0, e.idx < rest.length + 1) (hW0 : ∀ e ∈ W0, e.idx = rest.length + 1)
    (hmax : rest.length + 1 < ASYNC_IDX) :
    (exitE cfg s2 t1 o).pend = p0 ∧ (exitE cfg s2 t1 o).out = s2.out ∧ (exitE cfg s2 t1 o).frames = rest ∧
    (exitE cfg s2 t1 o).over = 0 ∧ (exitE cfg s2 t1 o).enabled = true ∧
    (exitE cfg s2 t1 o).filt.time = top.b.sTime := by
  rw [exitE_unfoldF cfg s2 top rest t1 o hfr hover hnr hen]
  obtain ⟨a1, a2, a3, a4, a5, a6, a7⟩ := exitFinish_drop cfg (exitBase s2 (setEnd top t1) rest) (setEnd top t1)
    (exitArea cfg (setEnd top t1) (rest.length + 1) o) rest (effThreshold cfg s2) (!top.b.cyg && top.retFl) o
    (by simpa [setEnd] using hshort) (by simpa [setEnd] using hw) (by simpa [setEnd] using htr)
    p0 W0 (by simp [exitBase, hpend]) h0 hW0 hfix hmax
  refine ⟨by simp only [a1], by simp only [a3]; simp [exitBase], by simp only [a2]; rfl, ?_, ?_, ?_⟩
  · simp only [a4]; simp [exitBase, hover]
  · simp only [a7]; simp [exitBase, hen]
  · simp only [a6]; simp [exitBase, setEnd]

/-! ### a whole call dropped by the time filter, on a filtered stack -/

/-- option sets with filters: any `filter` (-F / -N), `depth` (-D and depth=), `loc` (-L), `size` (-Z and size=)
    and `caller` actions on any function, any -t; no `time=`, `trace`, `finish`, `trace_on`, `trace_off` action and
    no caller mode (-C) -/
structure FiltT (cfg : ECfg) : Prop where
  caller : cfg.base.callerMode = false
  time : ∀ f, (cfg.base.trig f).time = none
  trace : ∀ f, (cfg.base.trig f).trace = false
  finish : ∀ f, (cfg.base.trig f).finish = false
  ton : ∀ f, (cfg.base.trig f).traceOn = false
  toff : ∀ f, (cfg.base.trig f).traceOff = false
  maxs : cfg.base.maxStack < ASYNC_IDX

/-- the thread state between hooks, whatever the filter counters, the record depth and the kinds of frames on
    the stack are: tracing is on, no `time=` trigger is in force, no asynchronous event is pending and the
    pending watch events were saved by hooks of frames that are on the stack -/
structure InvF (s : ESt) : Prop where
  over : s.over = 0
  en : s.enabled = true
  ftime : s.filt.time = noTime
  pend : ∀ e ∈ s.pend, e.idx < s.frames.length + 1

theorem entryFilterCheckE_F (cfg : ECfg) (hp : FiltT cfg) (s : ESt) (addr : Nat) (hm : s.idx < cfg.base.maxStack) :
    (entryFilterCheckE cfg s addr).1 ≠ .rstack ∧
    (entryFilterCheckE cfg s addr).2.1.frames = s.frames ∧ (entryFilterCheckE cfg s addr).2.1.pend = s.pend ∧
    (entryFilterCheckE cfg s addr).2.1.out = s.out ∧ (entryFilterCheckE cfg s addr).2.1.over = s.over ∧
    (entryFilterCheckE cfg s addr).2.1.enabled = s.enabled ∧
    (entryFilterCheckE cfg s addr).2.1.filt.time = s.filt.time ∧
    (entryFilterCheckE cfg s addr).2.1.filt.svTime = s.filt.time ∧
    (entryFilterCheckE cfg s addr).2.2.finish = false ∧ (entryFilterCheckE cfg s addr).2.2.trace = false ∧
    (entryFilterCheckE cfg s addr).2.2.traceOn = false ∧ (entryFilterCheckE cfg s addr).2.2.traceOff = false := by
  have hidx : ¬ (s.idx ≥ cfg.base.maxStack) := by omega
  have h1 := hp.time addr
  have h2 := hp.trace addr
  have h3 := hp.finish addr
  have h4 := hp.ton addr
  have h5 := hp.toff addr
  unfold entryFilterCheckE checkRstackE
  simp only [hidx, ↓reduceIte, Bool.false_eq_true]
  split
  · simp [saveFilt]
  · split
    · refine ⟨by simp, rfl, rfl, rfl, rfl, rfl, ?_, ?_, h3, h2, h4, h5⟩
      · simp only [matchFilt]; split <;> simp [saveFilt]
      · simp only [matchFilt]; split <;> simp [saveFilt]
    · simp only [traceOffFlushE_of_traceOff_false _ _ _ h5]
      split
      · refine ⟨by simp, rfl, rfl, rfl, rfl, by simp [trigEnabled, h4, h5], ?_, ?_, h3, h2, h4, h5⟩
        · simp only [trigFilt, h1, Option.getD_none, matchFilt]; split <;> split <;> simp [saveFilt]
        · simp only [trigFilt, h1, Option.getD_none, matchFilt]; split <;> split <;> simp [saveFilt]
      · refine ⟨by simp, rfl, rfl, rfl, rfl, by simp [trigEnabled, h4, h5], ?_, ?_, h3, h2, h4, h5⟩
        · simp only [trigFilt, h1, Option.getD_none, matchFilt]; split <;> split <;> simp [saveFilt]
        · simp only [trigFilt, h1, Option.getD_none, matchFilt]; split <;> split <;> simp [saveFilt]

/-- what the entry hook leaves behind, relative to the state `s1` it was called in (frame `f` just pushed on
    `rest`): the frame stays on top — recorded or not —, nothing is written, and only a recorded frame's hook
    appends watch events, tagged with the frame's rstack index + 1 -/
def EntryOk (r s1 : ESt) (f : EFrame) (rest : List EFrame) : Prop :=
  r.out = s1.out ∧ r.over = s1.over ∧ r.enabled = true ∧ r.filt = s1.filt ∧
  ∃ F W, r.frames = F :: rest ∧ r.pend = s1.pend ++ W ∧
    F.b.written = false ∧ F.b.trace = false ∧ F.b.sTime = s1.filt.svTime ∧ F.b.start = f.b.start ∧ F.b.cyg = f.b.cyg ∧
    (F.b.norecord = true → W = []) ∧ (F.b.norecord = false → f.b.norecord = false) ∧
    (∀ e ∈ W, e.idx = rest.length + 1)

theorem entryEvents_ok (cfg : ECfg) (hfix : cfg.fixIdx = true) (s0 s1 : ESt) (f1 f : EFrame) (rest : List EFrame)
    (matched argok : Bool) (o : Obs)
    (h1 : s0.out = s1.out) (h2 : s0.over = s1.over) (h3 : s0.enabled = true) (h4 : s0.filt = s1.filt)
    (h5 : s0.pend = s1.pend) (h6 : f1.b.written = false) (h7 : f1.b.trace = false) (h8 : f1.b.sTime = s1.filt.svTime)
    (h9 : f1.b.start = f.b.start) (h10 : f1.b.norecord = false) (h11 : f1.b.cyg = f.b.cyg)
    (h12 : f.b.norecord = false) (hp : ∀ e ∈ s1.pend, e.idx < rest.length + 1) (hmax : rest.length + 1 < ASYNC_IDX) :
    EntryOk (entryEvents cfg s0 f1 rest matched argok o) s1 f rest := by
  have htag : watchTag cfg rest.length < ASYNC_IDX := by simp [watchTag, hfix]; omega
  obtain ⟨a1, a2, a3, a4, a5, a6, W, a7, a8⟩ := entryFinish_spec cfg s0
    (entryArea cfg f1 matched argok (rest.length + 1) o) rest o
    (fun e he => by rw [h5] at he; have := hp e he; omega) htag
  unfold entryEvents
  refine ⟨a2.trans h1, a3.trans h2, a6.trans h3, a5.trans h4, _, W, a1, by rw [a7, h5], ?_, ?_, ?_, ?_, ?_, ?_, ?_, ?_⟩
  · rw [entryArea_b]; exact h6
  · rw [entryArea_b]; exact h7
  · rw [entryArea_b]; exact h8
  · rw [entryArea_b]; exact h9
  · rw [entryArea_b]; exact h11
  · rw [entryArea_b, h10]; intro h; cases h
  · intro _; exact h12
  · intro e he
    rw [(a8 e he).2.1]
    simp [watchTag, hfix]

/-- mcount_entry_filter_record on the frame just pushed, for a trigger without `finish` / `trace` while tracing
    is on -/
theorem entryFilterRecordE_F (cfg : ECfg) (hfix : cfg.fixIdx = true) (s1 : ESt) (f : EFrame) (rest : List EFrame)
    (tr : Trigger) (matched argok : Bool) (o : Obs)
    (hfr : s1.frames = f :: rest) (hfin : tr.finish = false) (htr : tr.trace = false) (hen : s1.enabled = true)
    (hw : f.b.written = false) (hp : ∀ e ∈ s1.pend, e.idx < rest.length + 1) (hmax : rest.length + 1 < ASYNC_IDX) :
    EntryOk (entryFilterRecordE cfg s1 tr matched argok o) s1 f rest := by
  unfold entryFilterRecordE
  simp only [hfr, hfin, Bool.false_eq_true, ↓reduceIte, hen, Bool.not_true]
  split
  · -- not recorded
    rename_i hnr
    refine ⟨rfl, rfl, by first | exact hen | rfl, rfl, _, [], rfl, by simp, hw, htr, rfl, rfl, rfl, fun _ => rfl, ?_, by simp⟩
    intro h
    simp only [hnr] at h
    cases h
  · rename_i hnr
    refine entryEvents_ok cfg hfix _ s1 _ f rest matched argok o ?_ ?_ ?_ ?_ ?_ ?_ ?_ ?_ ?_ ?_ ?_ ?_ hp hmax
    · rfl
    · rfl
    · first | exact hen | rfl
    · rfl
    · rfl
    · exact hw
    · exact htr
    · rfl
    · rfl
    · simpa using hnr
    · rfl
    · have : (f.b.norecord || decide (s1.filt.outCount > 0) || decide (s1.filt.inCount = 0) && cfg.base.optIn ||
          decide (s1.filt.size > 0) && decide (cfg.base.fsize f.b.addr < s1.filt.size)) = false := by simpa using hnr
      cases hn : f.b.norecord
      · rfl
      · simp [hn] at this

/-- the entry hook in a state between hooks, on any stack below the stack limit -/
theorem entryE_F (cfg : ECfg) (hp : FiltT cfg) (hfix : cfg.fixIdx = true) (k : Kind) (s : ESt) (f t0 : Nat) (o : Obs)
    (hg : InvF s) (hm : s.frames.length < cfg.base.maxStack) :
    (entryE cfg k s f t0 o).1.out = s.out ∧ (entryE cfg k s f t0 o).1.over = 0 ∧
    (entryE cfg k s f t0 o).1.enabled = true ∧ (entryE cfg k s f t0 o).1.filt.time = noTime ∧
    (((entryE cfg k s f t0 o).2 = false ∧ (entryE cfg k s f t0 o).1.frames = s.frames ∧
        (entryE cfg k s f t0 o).1.pend = s.pend) ∨
     ((entryE cfg k s f t0 o).2 = true ∧ ∃ F W, (entryE cfg k s f t0 o).1.frames = F :: s.frames ∧
        (entryE cfg k s f t0 o).1.pend = s.pend ++ W ∧ F.b.written = false ∧ F.b.trace = false ∧ F.b.sTime = noTime ∧
        (F.b.norecord = false → F.b.start = t0) ∧ (F.b.norecord = true → W = []) ∧
        ∀ e ∈ W, e.idx = s.frames.length + 1)) := by
  obtain ⟨hover, hen, hft, hpend⟩ := hg
  have hidx : s.idx < cfg.base.maxStack := by simp [ESt.idx, hover]; exact hm
  obtain ⟨c1, c2, c3, c4, c5, c6, c7, c8, c9, c10, c11, c12⟩ := entryFilterCheckE_F cfg hp s f hidx
  have hmax : s.frames.length + 1 < ASYNC_IDX := by have := hp.maxs; omega
  -- the frame the hook pushes and what mcount_entry_filter_record makes of it
  have push : ∀ (F0 : EFrame) (matched argok : Bool), F0.b.written = false →
      EntryOk (entryFilterRecordE cfg { (entryFilterCheckE cfg s f).2.1 with frames := F0 :: (entryFilterCheckE cfg s f).2.1.frames }
        (entryFilterCheckE cfg s f).2.2 matched argok o)
        { (entryFilterCheckE cfg s f).2.1 with frames := F0 :: (entryFilterCheckE cfg s f).2.1.frames } F0 s.frames := by
    intro F0 matched argok hw
    have := entryFilterRecordE_F cfg hfix
      { (entryFilterCheckE cfg s f).2.1 with frames := F0 :: (entryFilterCheckE cfg s f).2.1.frames } F0 s.frames
      (entryFilterCheckE cfg s f).2.2 matched argok o (by simp [c2]) c9 c10 (by simp [c6, hen]) hw
      (by simpa [c3] using hpend) hmax
    exact this
  unfold entryE
  cases k with
  | pg =>
    simp only
    split
    · exact ⟨c4, by rw [c5, hover], by rw [c6, hen], by rw [c7, hft], Or.inl ⟨rfl, c2, c3⟩⟩
    · obtain ⟨e1, e2, e3, e4, F, W, e5, e6, e7, e8, e9, e10, e11, e12, e13, e14⟩ := push
        { b := { addr := f, start := t0, depth := (entryFilterCheckE cfg s f).2.1.recordIdx,
                 norecord := (entryFilterCheckE cfg s f).1 != .in_ } }
        ((entryFilterCheckE cfg s f).1 == .in_) ((entryFilterCheckE cfg s f).1 == .in_) rfl
      refine ⟨e1.trans c4, by rw [e2]; simp [c5, hover], e3, by rw [e4]; simp [c7, hft], Or.inr ⟨rfl, F, W, e5, ?_, e7, e8, ?_, ?_, e12, e14⟩⟩
      · rw [e6]; simp [c3]
      · rw [e9]; simp [c8, hft]
      · intro _; rw [e10]
  | cyg =>
    simp only
    split
    · rename_i hr
      exact absurd (by simpa using hr) c1
    · obtain ⟨e1, e2, e3, e4, F, W, e5, e6, e7, e8, e9, e10, e11, e12, e13, e14⟩ := push
        { b := { addr := f, start := if (entryFilterCheckE cfg s f).1 == .in_ then t0 else 0,
                 depth := (entryFilterCheckE cfg s f).2.1.recordIdx, cyg := true,
                 norecord := !((entryFilterCheckE cfg s f).1 == .in_) } }
        ((entryFilterCheckE cfg s f).1 == .in_) false rfl
      refine ⟨e1.trans c4, by rw [e2]; simp [c5, hover], e3, by rw [e4]; simp [c7, hft], Or.inr ⟨rfl, F, W, e5, ?_, e7, e8, ?_, ?_, e12, e14⟩⟩
      · rw [e6]; simp [c3]
      · rw [e9]; simp [c8, hft]
      · intro hn
        have := e13 hn
        rw [e10]
        simp only [Bool.not_eq_false'] at this
        simp [this]

/-- the exit hook for a top frame that is not recorded: the filter state it saved is restored, the frame is
    popped, nothing else happens (the hook returns before it looks at events) -/
theorem exitE_norecord (cfg : ECfg) (s2 : ESt) (top : EFrame) (rest : List EFrame) (t1 : Nat) (o : Obs)
    (hfr : s2.frames = top :: rest) (hover : s2.over = 0) (hnr : top.b.norecord = true) :
    (exitE cfg s2 t1 o).out = s2.out ∧ (exitE cfg s2 t1 o).pend = s2.pend ∧ (exitE cfg s2 t1 o).frames = rest ∧
    (exitE cfg s2 t1 o).over = 0 ∧ (exitE cfg s2 t1 o).enabled = s2.enabled ∧
    (exitE cfg s2 t1 o).filt.time = top.b.sTime := by
  unfold exitE
  simp only [hover, Nat.lt_irrefl, ↓reduceIte, hfr, gt_iff_lt]
  cases hc : top.b.cyg <;> simp [exitFilterRecordE, hnr, setEnd, hover]

mutual
/-- a call the time filter drops — with everything it calls, recorded or not — leaves no trace on any stack:
    nothing is written, the pending events and the frames are as before -/
theorem droppedF_call (cfg : ECfg) (hp : FiltT cfg) (hfix : cfg.fixIdx = true) (k : Kind) :
    ∀ (c : ECall) (s : ESt), InvF s → s.frames.length + c.height ≤ cfg.base.maxStack →
      c.short cfg.base cfg.base.threshold →
      (runECall cfg k s c).out = s.out ∧ (runECall cfg k s c).pend = s.pend ∧
      (runECall cfg k s c).frames = s.frames ∧ InvF (runECall cfg k s c)
  | .node f t0 t1 oE oX kids, s, hg, hm, hs => by
    simp only [ECall.height] at hm
    simp only [ECall.short] at hs
    have hmax := hp.maxs
    obtain ⟨e1, e2, e3, e4, e5⟩ := entryE_F cfg hp hfix k s f t0 oE hg (by omega)
    simp only [runECall]
    rcases e5 with ⟨e6, e7, e8⟩ | ⟨e6, F, W, e7, e8, e9, e10, e11, e12, e13, e14⟩
    · -- no frame: the callees run in the caller's state
      have hi : InvF (entryE cfg k s f t0 oE).1 := ⟨e2, e3, e4, by rw [e8, e7]; exact hg.pend⟩
      obtain ⟨k1, k2, k3, k4⟩ := droppedF_calls cfg hp hfix k kids (entryE cfg k s f t0 oE).1 hi (by rw [e7]; omega) hs.2
      simp only [e6, Bool.false_eq_true, ↓reduceIte]
      exact ⟨k1.trans e1, k2.trans e8, k3.trans e7, k4⟩
    · have hi : InvF (entryE cfg k s f t0 oE).1 := by
        refine ⟨e2, e3, e4, ?_⟩
        intro e he
        rw [e8] at he
        rw [e7]
        simp only [List.mem_append] at he
        simp only [List.length_cons]
        rcases he with he | he
        · have := hg.pend e he; omega
        · have := e14 e he; omega
      obtain ⟨k1, k2, k3, k4⟩ := droppedF_calls cfg hp hfix k kids (entryE cfg k s f t0 oE).1 hi
        (by rw [e7]; simp only [List.length_cons]; omega) hs.2
      simp only [e6, ↓reduceIte]
      cases hn : F.b.norecord
      · -- a recorded frame: the time filter drops it
        have hthr : effThreshold cfg (runECalls cfg k (entryE cfg k s f t0 oE).1 kids) = cfg.base.threshold := by
          simp [effThreshold, k4.ftime]
        obtain ⟨x1, x2, x3, x4, x5, x6⟩ := exitE_drop_filtered cfg hfix (runECalls cfg k (entryE cfg k s f t0 oE).1 kids)
          F s.frames t1 oX s.pend W (by rw [k3, e7]) k4.over hn k4.en
          (by rw [hthr, e12 hn]; exact hs.1) e9 e10 (by rw [k2, e8]) hg.pend e14 (by omega)
        exact ⟨x2.trans (k1.trans e1), x1, x3, ⟨x4, x5, by rw [x6, e11], by rw [x1, x3]; exact hg.pend⟩⟩
      · have hW : W = [] := e13 hn
        obtain ⟨x1, x2, x3, x4, x5, x6⟩ := exitE_norecord cfg (runECalls cfg k (entryE cfg k s f t0 oE).1 kids)
          F s.frames t1 oX (by rw [k3, e7]) k4.over hn
        have hpd : (exitE cfg (runECalls cfg k (entryE cfg k s f t0 oE).1 kids) t1 oX).pend = s.pend := by
          rw [x2, k2, e8, hW, List.append_nil]
        exact ⟨x1.trans (k1.trans e1), hpd, x3, ⟨x4, by rw [x5]; exact k4.en, by rw [x6, e11], by rw [hpd, x3]; exact hg.pend⟩⟩
theorem droppedF_calls (cfg : ECfg) (hp : FiltT cfg) (hfix : cfg.fixIdx = true) (k : Kind) :
    ∀ (cs : ECalls) (s : ESt), InvF s → s.frames.length + cs.height ≤ cfg.base.maxStack →
      cs.short cfg.base cfg.base.threshold →
      (runECalls cfg k s cs).out = s.out ∧ (runECalls cfg k s cs).pend = s.pend ∧
      (runECalls cfg k s cs).frames = s.frames ∧ InvF (runECalls cfg k s cs)
  | .nil, s, hg, _, _ => by simp [runECalls, hg]
  | .cons c rest, s, hg, hm, hs => by
    simp only [ECalls.height] at hm
    simp only [ECalls.short] at hs
    obtain ⟨c1, c2, c3, c4⟩ := droppedF_call cfg hp hfix k c s hg (by omega) hs.1
    obtain ⟨r1, r2, r3, r4⟩ := droppedF_calls cfg hp hfix k rest (runECall cfg k s c) c4 (by rw [c3]; omega) hs.2
    simp only [runECalls]
    exact ⟨by rw [r1, c1], by rw [r2, c2], by rw [r3, c3], r4⟩
end

end Uft.Events
