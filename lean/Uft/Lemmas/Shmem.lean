import Uft.Model.Shmem
import Uft.Lemmas.Writers
/- Invariants of the shared-memory hand-off (helper lemmas for Props/C03, C04). -/
namespace Uft.Shmem
open Uft.Writers

/-! ### per-tid view of the global structures -/

/-- REC_START / REC_END of one tid, as bracket tokens -/
inductive Tok where
  | S (i : Nat)
  | E (i : Nat)
  deriving DecidableEq, Repr

def pipeToks (t : Tid) : List Msg → List Tok
  | [] => []
  | .recStart t' i :: l => if t' = t then .S i :: pipeToks t l else pipeToks t l
  | .recEnd t' i :: l => if t' = t then .E i :: pipeToks t l else pipeToks t l
  | _ :: l => pipeToks t l

def shmToks (t : Tid) : List WBuf → List Tok
  | [] => []
  | wb :: l => if wb.tid = t then .S wb.idx :: shmToks t l else shmToks t l

/-- buffers announced by a REC_END that is still in the pipe -/
def ends : List Tok → List Nat
  | [] => []
  | .E i :: l => i :: ends l
  | .S _ :: l => ends l

def clean (l : List Item) : List Item := l.filter (fun i => !i.isTorn)

/-- S i E i S j E j … [S o]: every announced buffer is ended before the next one starts -/
inductive WB : List Tok → Option Nat → Prop where
  | nil : WB [] none
  | opn (o : Nat) : WB [.S o] (some o)
  | pair (i : Nat) {l : List Tok} {o : Option Nat} : WB l o → WB (.S i :: .E i :: l) o

theorem pipeToks_append (t : Tid) (a b : List Msg) : pipeToks t (a ++ b) = pipeToks t a ++ pipeToks t b := by
  induction a with
  | nil => simp [pipeToks]
  | cons m l ih =>
    cases m <;> simp [pipeToks, ih]
    all_goals split <;> simp

theorem shmToks_append (t : Tid) (a b : List WBuf) : shmToks t (a ++ b) = shmToks t a ++ shmToks t b := by
  induction a with
  | nil => simp [shmToks]
  | cons m l ih => simp [shmToks, ih]; split <;> simp

theorem ends_append (a b : List Tok) : ends (a ++ b) = ends a ++ ends b := by
  induction a with
  | nil => simp [ends]
  | cons m l ih => cases m <;> simp [ends, ih]

theorem shmToks_erase_other {t t' : Tid} (h : t' ≠ t) (i : Nat) (l : List WBuf) :
    shmToks t (l.erase ⟨t', i⟩) = shmToks t l := by
  induction l with
  | nil => simp [shmToks]
  | cons wb l ih =>
    rw [List.erase_cons]
    by_cases hb : wb = ⟨t', i⟩
    · subst hb; simp [shmToks, h]
    · simp only [beq_iff_eq, hb, if_false, shmToks, ih]

theorem shmToks_erase_self (t : Tid) (i : Nat) (l : List WBuf) :
    shmToks t (l.erase ⟨t, i⟩) = (shmToks t l).erase (.S i) := by
  induction l with
  | nil => simp [shmToks]
  | cons wb l ih =>
    rw [List.erase_cons]
    by_cases hb : wb = ⟨t, i⟩
    · subst hb; simp [shmToks]
    · simp only [beq_iff_eq, hb, if_false, shmToks]
      by_cases ht : wb.tid = t
      · have : ¬ (Tok.S wb.idx = Tok.S i) := by
          intro e; injection e with e; apply hb; cases wb; simp_all
        simp [ht, List.erase_cons, this, ih]
      · simp [ht, ih]

theorem mem_shmToks {t : Tid} {i : Nat} {l : List WBuf} : (⟨t, i⟩ : WBuf) ∈ l → Tok.S i ∈ shmToks t l := by
  induction l with
  | nil => simp
  | cons wb l ih =>
    intro h
    simp only [List.mem_cons] at h
    rcases h with h | h
    · subst h; simp [shmToks]
    · by_cases ht : wb.tid = t <;> simp [shmToks, ht, ih h]

theorem pipeToks_nil_of_not_any {t : Tid} {l : List Msg} (h : l.any (msgOf t) = false) : pipeToks t l = [] := by
  induction l with
  | nil => simp [pipeToks]
  | cons m l ih =>
    simp only [List.any_cons, Bool.or_eq_false_iff] at h
    cases m <;> simp_all [pipeToks, msgOf]

/-! ### bracket structure -/

theorem WB_send_end {l : List Tok} {o : Nat} (h : WB l (some o)) : WB (l ++ [.E o]) none := by
  generalize ho : some o = x at h
  induction h with
  | nil => simp at ho
  | opn o' => injection ho with ho; subst ho; exact WB.pair _ WB.nil
  | pair i _ ih => exact WB.pair i (ih ho)

theorem WB_send_start {l : List Tok} (o : Nat) (h : WB l none) : WB (l ++ [.S o]) (some o) := by
  generalize ho : (none : Option Nat) = x at h
  induction h with
  | nil => exact WB.opn o
  | opn o' => simp at ho
  | pair i _ ih => exact WB.pair i (ih ho)

/-- the recorder holds at most the last announced buffer of a tid, and a REC_END at the head of
    the pipe ends exactly that one -/
theorem WB_shm_end {shm pt : List Tok} {i : Nat} {o : Option Nat} (hs : ∀ x ∈ shm, ∃ j, x = .S j)
    (h : WB (shm ++ .E i :: pt) o) : shm = [.S i] ∧ WB pt o := by
  match shm, hs, h with
  | [], _, h => cases h
  | [x], hs, h =>
    obtain ⟨j, e⟩ := hs x (by simp)
    subst e
    cases h with
    | pair _ h' => exact ⟨rfl, h'⟩
  | x :: y :: r, hs, h =>
    obtain ⟨j, e⟩ := hs x (by simp)
    obtain ⟨k, e2⟩ := hs y (by simp)
    subst e; subst e2
    cases h

theorem WB_shm_only {shm : List Tok} {o : Option Nat} (hs : ∀ x ∈ shm, ∃ j, x = .S j)
    (h : WB shm o) : (shm = [] ∧ o = none) ∨ (∃ i, shm = [.S i] ∧ o = some i) := by
  match shm, hs, h with
  | [], _, h => cases h; exact Or.inl ⟨rfl, rfl⟩
  | [x], hs, h => cases h; exact Or.inr ⟨_, rfl, rfl⟩
  | x :: y :: r, hs, h =>
    obtain ⟨k, e2⟩ := hs y (by simp)
    subst e2
    cases h

theorem shmToks_allS (t : Tid) (l : List WBuf) : ∀ x ∈ shmToks t l, ∃ j, x = .S j := by
  induction l with
  | nil => simp [shmToks]
  | cons wb l ih =>
    by_cases ht : wb.tid = t
    · simp only [shmToks, ht, if_true, List.mem_cons]
      intro x hx
      rcases hx with hx | hx
      · exact ⟨_, hx⟩
      · exact ih x hx
    · simpa [shmToks, ht] using ih

/-! ### survivors / clean -/

theorem survivors_append (a b : List Ev) : survivors (a ++ b) = survivors a ++ survivors b := by
  induction a with
  | nil => simp [survivors]
  | cons e l ih => cases e <;> simp [survivors, ih]

theorem clean_append (a b : List Item) : clean (a ++ b) = clean a ++ clean b := by
  simp [clean]

/-! ### buffers -/

theorem firstFree_some {bs : List Buf} {i : Nat} (h : firstFree bs = some i) :
    ∃ b, bs[i]? = some b ∧ b.recording = false := by
  induction bs generalizing i with
  | nil => simp [firstFree] at h
  | cons b bs ih =>
    unfold firstFree at h
    by_cases hb : b.recording = true
    · simp only [hb, Bool.not_true, Bool.false_eq_true, if_false] at h
      cases hf : firstFree bs with
      | none => simp [hf] at h
      | some j =>
        simp only [hf, Option.some.injEq] at h
        subst h
        simpa using ih hf
    · simp only [hb, Bool.not_false, if_true, Option.some.injEq] at h
      subst h
      exact ⟨b, by simp, by simpa using hb⟩

/-- shrinking never removes a RECORDING buffer and invents none -/
theorem shrink_cases (l : List Buf) (k : Nat) :
    shrink l k = l ∨ (shrink l k = l.dropLast ∧ ∃ last, l.getLast? = some last ∧ last.recording = false) := by
  unfold shrink
  split
  · split
    · rename_i last hl
      split
      · rename_i hc
        simp only [Bool.and_eq_true, Buf.onlyWritten, Bool.not_eq_eq_eq_not, Bool.not_true] at hc
        exact Or.inr ⟨rfl, last, hl, hc.2.1.2⟩
      · exact Or.inl rfl
    · exact Or.inl rfl
  · exact Or.inl rfl

theorem getElem?_dropLast_of_ne_last {l : List Buf} {i : Nat} {b last : Buf} (hl : l.getLast? = some last)
    (hb : l[i]? = some b) (hne : b.recording ≠ last.recording) : l.dropLast[i]? = some b := by
  have hi : i < l.length := by
    rcases Nat.lt_or_ge i l.length with h | h
    · exact h
    · simp [List.getElem?_eq_none_iff.mpr h] at hb
  rw [List.getLast?_eq_getElem?] at hl
  have : i ≠ l.length - 1 := by
    intro e; rw [e] at hb; rw [hb] at hl; injection hl with hl; exact hne (by rw [hl])
  rw [List.getElem?_dropLast]
  have : i < l.length - 1 := by omega
  simp [this, hb]

theorem shrink_keep {l : List Buf} {k i : Nat} {b : Buf} (hb : l[i]? = some b) (hr : b.recording = true) :
    (shrink l k)[i]? = some b := by
  rcases shrink_cases l k with h | ⟨h, last, hl, hlr⟩
  · rw [h]; exact hb
  · rw [h]; exact getElem?_dropLast_of_ne_last hl hb (by rw [hr, hlr]; simp)

theorem shrink_sub {l : List Buf} {k i : Nat} {b : Buf} (hb : (shrink l k)[i]? = some b) : l[i]? = some b := by
  rcases shrink_cases l k with h | ⟨h, _⟩
  · rw [h] at hb; exact hb
  · rw [h, List.getElem?_dropLast] at hb
    split at hb
    · exact hb
    · simp at hb

theorem dataAt_shrink {l : List Buf} {k i : Nat} {b : Buf} (hb : l[i]? = some b) (hr : b.recording = true) :
    dataAt (shrink l k) i = dataAt l i := by
  simp [dataAt, shrink_keep hb hr, hb]

theorem dataAt_set_ne {l : List Buf} {i j : Nat} (b : Buf) (h : i ≠ j) : dataAt (l.set j b) i = dataAt l i := by
  simp [dataAt, List.getElem?_set_ne (Ne.symm h)]

theorem dataAt_set_eq {l : List Buf} {i : Nat} {b0 : Buf} (b : Buf) (h : l[i]? = some b0) :
    dataAt (l.set i b) i = b.data := by
  have hi : i < l.length := by
    rcases Nat.lt_or_ge i l.length with h' | h'
    · exact h'
    · simp [List.getElem?_eq_none_iff.mpr h'] at h
  simp [dataAt, List.getElem?_set_self hi]

theorem flatMap_dataAt_congr {l l' : List Buf} {c : List Nat} (h : ∀ i ∈ c, dataAt l' i = dataAt l i) :
    c.flatMap (dataAt l') = c.flatMap (dataAt l) := by
  induction c with
  | nil => simp
  | cons x c ih =>
    simp only [List.flatMap_cons]
    rw [h x (by simp), ih (fun i hi => h i (by simp [hi]))]


/-! ### data invariant of one tid
`c` is the chain of buffers handed to the recorder and not yet written, oldest first
(writer's list, writer's passed buffers, write list, REC_ENDs still in the pipe);
`opn` the buffer being filled. -/

structure DInv (bufs : List Buf) (opn : Option Nat) (log : List Ev) (c : List Nat) (f : List Item) : Prop where
  nodup : (c ++ opn.toList).Nodup
  valid : ∀ i ∈ c ++ opn.toList, ∃ b, bufs[i]? = some b ∧ b.recording = true
  free : ∀ (i : Nat) (b : Buf), bufs[i]? = some b → b.recording = false → b.data = []
  eqn : clean (f ++ (c ++ opn.toList).flatMap (dataAt bufs)) = survivors log

/-- common shape of appendData / completeData -/
def modData (bufs : List Buf) (c : Nat) (g : List Item → List Item) : List Buf :=
  match bufs[c]? with
  | none => bufs
  | some b => bufs.set c { b with data := g b.data }

theorem appendData_eq (bufs : List Buf) (c : Nat) (it : Item) :
    appendData bufs c it = modData bufs c (fun d => d ++ [it]) := rfl

theorem completeData_eq (bufs : List Buf) (c : Nat) (r : Rec) :
    completeData bufs c r = modData bufs c (fun d => d.dropLast ++ [.whole r]) := rfl

theorem dataAt_modData_ne {l : List Buf} {i c : Nat} (g : List Item → List Item) (h : i ≠ c) :
    dataAt (modData l c g) i = dataAt l i := by
  unfold modData
  split
  · rfl
  · exact dataAt_set_ne _ h

theorem dataAt_modData_eq {l : List Buf} {c : Nat} {b : Buf} (g : List Item → List Item) (h : l[c]? = some b) :
    dataAt (modData l c g) c = g (dataAt l c) := by
  unfold modData
  simp only [h]
  rw [dataAt_set_eq _ h]
  simp [dataAt, h]

theorem getElem?_modData {l : List Buf} {i c : Nat} {b : Buf} (g : List Item → List Item)
    (h : (modData l c g)[i]? = some b) :
    ∃ b0, l[i]? = some b0 ∧ b0.recording = b.recording ∧ (i ≠ c → b0 = b) := by
  unfold modData at h
  split at h
  · exact ⟨b, h, rfl, fun _ => rfl⟩
  · rename_i b1 hb1
    by_cases hic : i = c
    · subst hic
      have hi : i < l.length := by
        rcases Nat.lt_or_ge i l.length with h' | h'
        · exact h'
        · simp [List.getElem?_eq_none_iff.mpr h'] at hb1
      rw [List.getElem?_set_self hi] at h
      injection h with h
      exact ⟨b1, hb1, by rw [← h], fun hn => absurd rfl hn⟩
    · rw [List.getElem?_set_ne (Ne.symm hic)] at h
      exact ⟨b, h, rfl, fun _ => rfl⟩

theorem modData_keep {l : List Buf} {i c : Nat} {b : Buf} (g : List Item → List Item) (h : l[i]? = some b) :
    ∃ b', (modData l c g)[i]? = some b' ∧ b'.recording = b.recording := by
  unfold modData
  split
  · exact ⟨b, h, rfl⟩
  · rename_i b1 hb1
    by_cases hic : i = c
    · subst hic
      have hi : i < l.length := by
        rcases Nat.lt_or_ge i l.length with h' | h'
        · exact h'
        · simp [List.getElem?_eq_none_iff.mpr h'] at hb1
      rw [hb1] at h; injection h with h; subst h
      exact ⟨_, List.getElem?_set_self hi, rfl⟩
    · rw [List.getElem?_set_ne (Ne.symm hic)]
      exact ⟨b, h, rfl⟩

/-- D1/D2: the data of the open buffer changes (record appended, LOST marker, torn header,
    header completed); `extra` is what the change adds to the whole-record content -/
theorem DInv.modOpen {bufs : List Buf} {o : Nat} {log log' : List Ev} {c : List Nat} {f : List Item}
    (h : DInv bufs (some o) log c f) (g : List Item → List Item) (extra : List Item)
    (hg : clean (g (dataAt bufs o)) = clean (dataAt bufs o) ++ extra)
    (hl : survivors log' = survivors log ++ extra) :
    DInv (modData bufs o g) (some o) log' c f := by
  obtain ⟨bo, hbo, hro⟩ := h.valid o (by simp)
  have hnd := h.nodup
  simp only [Option.toList_some, List.nodup_append, List.nodup_cons, List.mem_cons,
    List.not_mem_nil, or_false] at hnd
  have hoc : ∀ i ∈ c, i ≠ o := fun i hi => hnd.2.2 i hi o rfl
  refine ⟨h.nodup, ?_, ?_, ?_⟩
  · intro i hi
    obtain ⟨b, hb, hr⟩ := h.valid i hi
    obtain ⟨b', hb', hr'⟩ := modData_keep (c := o) g hb
    exact ⟨b', hb', by rw [hr', hr]⟩
  · intro i b hb hr
    obtain ⟨b0, hb0, hr0, he⟩ := getElem?_modData g hb
    by_cases hio : i = o
    · subst hio; rw [hbo] at hb0; injection hb0 with hb0; rw [← hb0, hro] at hr0; rw [← hr0] at hr; simp at hr
    · rw [← he hio]; exact h.free i b0 hb0 (by rw [hr0, hr])
  · have := h.eqn
    simp only [Option.toList_some, List.flatMap_append, List.flatMap_cons, List.flatMap_nil,
      List.append_nil] at this ⊢
    rw [flatMap_dataAt_congr (l' := modData bufs o g) (l := bufs)
      (fun i hi => dataAt_modData_ne g (hoc i hi)), dataAt_modData_eq g hbo, hl, ← this]
    simp only [clean_append, hg, List.append_assoc]

theorem DInv.appendOpen {bufs : List Buf} {o : Nat} {log log' : List Ev} {c : List Nat} {f : List Item}
    (h : DInv bufs (some o) log c f) (it : Item) (hl : survivors log' = survivors log ++ clean [it]) :
    DInv (appendData bufs o it) (some o) log' c f := by
  rw [appendData_eq]
  exact h.modOpen _ (clean [it]) (by simp [clean_append]) hl

theorem DInv.complete {bufs : List Buf} {o : Nat} {log : List Ev} {c : List Nat} {f : List Item} {d : List Item}
    {r : Rec} (h : DInv bufs (some o) log c f) (hd : dataAt bufs o = d ++ [.torn r]) :
    DInv (completeData bufs o r) (some o) (log ++ [.kept r]) c f := by
  rw [completeData_eq]
  refine h.modOpen _ [.whole r] ?_ (by simp [survivors_append, survivors])
  rw [hd]
  simp [clean, Item.isTorn]

/-- D3: REC_END for the open buffer (or the recorder flushes it): it joins the chain at the end -/
theorem DInv.handOver {bufs : List Buf} {o : Nat} {log : List Ev} {c : List Nat} {f : List Item}
    (h : DInv bufs (some o) log c f) : DInv bufs none log (c ++ [o]) f := by
  refine ⟨?_, ?_, h.free, ?_⟩
  · simpa using h.nodup
  · simpa using h.valid
  · simpa using h.eqn

/-- D4: a chain entry whose buffer is empty is dropped (A12) -/
theorem DInv.dropEmpty {bufs : List Buf} {opn : Option Nat} {log : List Ev} {c1 c2 : List Nat} {i : Nat}
    {f : List Item} (h : DInv bufs opn log (c1 ++ i :: c2) f) (he : dataAt bufs i = []) :
    DInv bufs opn log (c1 ++ c2) f := by
  refine ⟨?_, ?_, h.free, ?_⟩
  · have := h.nodup
    refine this.sublist ?_
    simp only [List.append_assoc]
    exact List.Sublist.append (List.Sublist.refl _) (List.sublist_cons_self _ _)
  · intro j hj
    apply h.valid j
    simp only [List.mem_append, List.mem_cons] at hj ⊢
    rcases hj with (hj | hj) | hj
    · exact Or.inl (Or.inl hj)
    · exact Or.inl (Or.inr (Or.inr hj))
    · exact Or.inr hj
  · have := h.eqn
    simpa [he] using this

theorem DInv.dropOpen {bufs : List Buf} {o : Nat} {log : List Ev} {c : List Nat}
    {f : List Item} (h : DInv bufs (some o) log c f) (he : dataAt bufs o = []) :
    DInv bufs none log c f := by
  have := (h.handOver).dropEmpty (c1 := c) (c2 := []) he
  simpa using this

/-- D7: ghost log changes that do not change the survivors -/
theorem DInv.logOnly {bufs : List Buf} {opn : Option Nat} {log log' : List Ev} {c : List Nat} {f : List Item}
    (h : DInv bufs opn log c f) (hl : survivors log' = survivors log) : DInv bufs opn log' c f :=
  ⟨h.nodup, h.valid, h.free, by rw [hl]; exact h.eqn⟩

/-- buffers of the chain are untouched by a change that keeps every RECORDING buffer -/
theorem DInv.rebuf {bufs bufs' : List Buf} {log : List Ev} {c : List Nat} {f : List Item} {o : Nat}
    (h : DInv bufs none log c f)
    (keep : ∀ (i : Nat) (b : Buf), bufs[i]? = some b → b.recording = true → bufs'[i]? = some b)
    (ho : ∃ b, bufs'[o]? = some b ∧ b.recording = true ∧ b.data = [])
    (hoc : o ∉ c)
    (hfree : ∀ (i : Nat) (b : Buf), bufs'[i]? = some b → b.recording = false → b.data = []) :
    DInv bufs' (some o) log c f := by
  obtain ⟨bo, hbo, hro, hdo⟩ := ho
  refine ⟨?_, ?_, hfree, ?_⟩
  · have := h.nodup
    simp only [Option.toList_none, List.append_nil] at this
    simp only [Option.toList_some, List.nodup_append, List.nodup_cons, List.not_mem_nil,
      not_false_eq_true, List.nodup_nil, and_self, List.mem_cons, or_false, true_and]
    exact ⟨this, fun a ha b hb => by rw [hb]; intro e; exact hoc (e ▸ ha)⟩
  · intro i hi
    simp only [Option.toList_some, List.mem_append, List.mem_cons, List.not_mem_nil, or_false] at hi
    rcases hi with hi | hi
    · obtain ⟨b, hb, hr⟩ := h.valid i (by simp [hi])
      exact ⟨b, keep i b hb hr, hr⟩
    · subst hi; exact ⟨bo, hbo, hro⟩
  · have := h.eqn
    simp only [Option.toList_none, List.append_nil, Option.toList_some, List.flatMap_append,
      List.flatMap_cons, List.flatMap_nil] at this ⊢
    have hc : c.flatMap (dataAt bufs') = c.flatMap (dataAt bufs) := by
      apply flatMap_dataAt_congr
      intro i hi
      obtain ⟨b, hb, hr⟩ := h.valid i (by simp [hi])
      simp [dataAt, keep i b hb hr, hb]
    rw [hc, ← this]
    simp [dataAt, hbo, hdo]


/-- D8: the recorder writes the head of the chain to the file and empties the buffer -/
theorem DInv.writeHead {bufs : List Buf} {opn : Option Nat} {log : List Ev} {c : List Nat} {i : Nat}
    {f : List Item} {b b' : Buf} (h : DInv bufs opn log (i :: c) f) (hb : bufs[i]? = some b)
    (hd : b'.data = []) :
    DInv (bufs.set i b') opn log c (f ++ b.data) := by
  have hnd := h.nodup
  simp only [List.cons_append, List.nodup_cons, List.mem_append] at hnd
  have hne : ∀ j ∈ c ++ opn.toList, j ≠ i := by
    intro j hj e; subst e; exact hnd.1 (by simpa using hj)
  refine ⟨hnd.2, ?_, ?_, ?_⟩
  · intro j hj
    obtain ⟨bj, hbj, hr⟩ := h.valid j (by simp at hj ⊢; exact Or.inr hj)
    exact ⟨bj, by rw [List.getElem?_set_ne (Ne.symm (hne j hj))]; exact hbj, hr⟩
  · intro j bj hbj hr
    by_cases hji : j = i
    · subst hji
      have hi : j < bufs.length := by
        rcases Nat.lt_or_ge j bufs.length with h' | h'
        · exact h'
        · simp [List.getElem?_eq_none_iff.mpr h'] at hb
      rw [List.getElem?_set_self hi] at hbj
      injection hbj with hbj; rw [← hbj]; exact hd
    · rw [List.getElem?_set_ne (Ne.symm hji)] at hbj
      exact h.free j bj hbj hr
  · have := h.eqn
    simp only [List.cons_append, List.flatMap_cons] at this
    rw [← this]
    have hc : (c ++ opn.toList).flatMap (dataAt (bufs.set i b')) = (c ++ opn.toList).flatMap (dataAt bufs) :=
      flatMap_dataAt_congr (fun j hj => dataAt_set_ne _ (hne j hj))
    rw [hc]
    simp [dataAt, hb]

/-- D9: prepare_shmem_buffer of a thread that did not exist -/
theorem DInv.prepare {c : List Nat} {f : List Item} (h : DInv [] none [] c f) :
    c = [] ∧ DInv [{ recording := true, isNew := true }, {}] (some 0) [] [] f := by
  have hc : c = [] := by
    cases c with
    | nil => rfl
    | cons x c => obtain ⟨b, hb, _⟩ := h.valid x (by simp); simp at hb
  subst hc
  refine ⟨rfl, ?_, ?_, ?_, ?_⟩
  · simp
  · intro i hi; simp at hi; subst hi; exact ⟨_, rfl, rfl⟩
  · intro i b hb hr
    match i, hb with
    | 0, hb => simp at hb; rw [← hb] at hr; simp at hr
    | 1, hb => simp at hb; rw [← hb]
    | i + 2, hb => simp at hb
  · have := h.eqn
    simpa [dataAt] using this

/-- D5: get_new_shmem_buffer reuses the first buffer without RECORDING -/
theorem DInv.pickReuse {bufs : List Buf} {log : List Ev} {c : List Nat} {f : List Item} {idx : Nat} {b : Buf}
    (h : DInv bufs none log c f) (hb : bufs[idx]? = some b) (hr : b.recording = false) :
    DInv (shrink (bufs.set idx { b with recording := true, data := [] }) idx) (some idx) log c f := by
  have hi : idx < bufs.length := by
    rcases Nat.lt_or_ge idx bufs.length with h' | h'
    · exact h'
    · simp [List.getElem?_eq_none_iff.mpr h'] at hb
  have hoc : idx ∉ c := by
    intro hm
    obtain ⟨b1, hb1, hr1⟩ := h.valid idx (by simp [hm])
    rw [hb] at hb1; injection hb1 with hb1; rw [← hb1, hr] at hr1; simp at hr1
  apply h.rebuf
  · intro i bi hbi hri
    apply shrink_keep _ hri
    have : i ≠ idx := by
      intro e; subst e; rw [hb] at hbi; injection hbi with hbi; rw [← hbi, hr] at hri; simp at hri
    rw [List.getElem?_set_ne (Ne.symm this)]; exact hbi
  · exact ⟨_, shrink_keep (List.getElem?_set_self hi) rfl, rfl, rfl⟩
  · exact hoc
  · intro i bi hbi hri
    have := shrink_sub hbi
    by_cases hii : i = idx
    · subst hii; rw [List.getElem?_set_self hi] at this; injection this with this
      rw [← this] at hri; simp at hri
    · rw [List.getElem?_set_ne (Ne.symm hii)] at this
      exact h.free i bi this hri

/-- D6: … or grows the ring when every buffer is RECORDING -/
theorem DInv.pickGrow {bufs : List Buf} {log : List Ev} {c : List Nat} {f : List Item}
    (h : DInv bufs none log c f) :
    DInv (shrink (bufs ++ [{ recording := true }]) bufs.length) (some bufs.length) log c f := by
  have hoc : bufs.length ∉ c := by
    intro hm
    obtain ⟨b1, hb1, _⟩ := h.valid bufs.length (by simp [hm])
    simp at hb1
  apply h.rebuf
  · intro i bi hbi hri
    apply shrink_keep _ hri
    have hi : i < bufs.length := by
      rcases Nat.lt_or_ge i bufs.length with h' | h'
      · exact h'
      · simp [List.getElem?_eq_none_iff.mpr h'] at hbi
    rw [List.getElem?_append_left hi]; exact hbi
  · exact ⟨({ recording := true } : Buf), shrink_keep (by simp) rfl, rfl, rfl⟩
  · exact hoc
  · intro i bi hbi hri
    have := shrink_sub hbi
    rcases Nat.lt_or_ge i bufs.length with hi | hi
    · rw [List.getElem?_append_left hi] at this; exact h.free i bi this hri
    · rw [List.getElem?_append_right hi] at this
      have : bi = { recording := true } := by
        cases hk : i - bufs.length with
        | zero => rw [hk] at this; simp at this; exact this.symm
        | succ k => rw [hk] at this; simp at this
      rw [this] at hri; simp at hri


/-! ### control invariant of one tid and the per-tid bundle -/

/-- the open buffer as far as the recorder was told (REC_START sent) -/
def sentOpen (p : Prod) : Option Nat :=
  match p.pc with
  | .picked _ => none
  | _ => p.opn

structure CInv (p : Prod) (shm pt : List Tok) (closed : Bool) : Prop where
  wb : WB (shm ++ pt) (sentOpen p)
  unstarted : p.started = false → p.bufs = [] ∧ p.log = [] ∧ p.pc = .idle ∧ p.curr = none ∧ p.opn = none ∧ p.losts = 0
  needBuf : ∀ r, p.pc = .needBuf r → p.opn = none
  live : p.started = true → p.alive = true → p.done = false → closed = false →
    (∀ r, p.pc ≠ .needBuf r) → p.opn = p.curr
  picked : ∀ r, p.pc = .picked r → p.opn = p.curr ∧ ∀ c, p.curr = some c → dataAt p.bufs c = []
  hdr : ∀ r c, p.pc = .hdr r → p.curr = some c → p.opn = some c → ∃ d, dataAt p.bufs c = d ++ [.torn r]

/-- per-tid invariant over the tid's view: producer `p`, REC_STARTs the recorder holds (`shm`),
    the tid's messages in the pipe (`pt`), its queue in the writer pool (`q`), its file (`f`) -/
structure PV (p : Prod) (shm pt : List Tok) (q : List Nat) (f : List Item) (closed : Bool) : Prop where
  d : DInv p.bufs p.opn p.log (q ++ ends pt) f
  c : CInv p shm pt closed

theorem canEmit_iff {s : State} {t : Tid} : s.canEmit t = true ↔
    (s.prod t).started = true ∧ (s.prod t).alive = true ∧ (s.prod t).done = false ∧ s.pipeClosed = false := by
  simp [State.canEmit, and_assoc]

section producer
variable {p : Prod} {shm pt : List Tok} {q : List Nat} {f : List Item}

theorem PV.opn_eq_curr (h : PV p shm pt q f false) (hs : p.started = true) (ha : p.alive = true)
    (hd : p.done = false) (hpc : ∀ r, p.pc ≠ .needBuf r) : p.opn = p.curr :=
  h.c.live hs ha hd rfl hpc

/-- pWrite: only the program counter moves -/
theorem PV.write (h : PV p shm pt q f false) (hpc : p.pc = .idle) (r : Rec) (hs : p.started = true) :
    PV { p with pc := .wrote r } shm pt q f false := by
  refine ⟨h.d, ?_, ?_, ?_, ?_, ?_, ?_⟩
  · have := h.c.wb; simpa [sentOpen, hpc] using this
  · intro hs'; simp [hs] at hs'
  · intro r' hr'; simp at hr'
  · intro hs ha hd _ _; exact h.c.live hs ha hd rfl (by simp [hpc])
  · intro r' hr'; simp at hr'
  · intro r' c hr'; simp at hr'

/-- pBump, whole record -/
theorem PV.bumpWhole (h : PV p shm pt q f false) {r : Rec} {c : Nat} (hpc : p.pc = .wrote r)
    (hc : p.curr = some c) (hs : p.started = true) (ha : p.alive = true) (hd : p.done = false) :
    PV { p with bufs := appendData p.bufs c (.whole r), pc := .idle, log := p.log ++ [.kept r] }
      shm pt q f false := by
  have ho : p.opn = some c := by rw [← hc]; exact h.opn_eq_curr hs ha hd (by simp [hpc])
  have hdi := h.d; rw [ho] at hdi
  refine ⟨?_, ?_, ?_, ?_, ?_, ?_, ?_⟩
  · simp only [ho]
    exact hdi.appendOpen (.whole r) (by simp [survivors_append, survivors, clean, Item.isTorn])
  · have := h.c.wb; simpa [sentOpen, hpc] using this
  · intro hs'; simp [hs] at hs'
  · intro r' hr'; simp at hr'
  · intro _ _ _ _ _; simp [ho, hc]
  · intro r' hr'; simp at hr'
  · intro r' c' hr'; simp at hr'

/-- pBump of a payload record before the repair: only the header is inside `size` -/
theorem PV.bumpTorn (h : PV p shm pt q f false) {r : Rec} {c : Nat} (hpc : p.pc = .wrote r)
    (hc : p.curr = some c) (hs : p.started = true) (ha : p.alive = true) (hd : p.done = false) :
    PV { p with bufs := appendData p.bufs c (.torn r), pc := .hdr r } shm pt q f false := by
  have ho : p.opn = some c := by rw [← hc]; exact h.opn_eq_curr hs ha hd (by simp [hpc])
  have hdi := h.d; rw [ho] at hdi
  obtain ⟨bo, hbo, _⟩ := hdi.valid c (by simp)
  refine ⟨?_, ?_, ?_, ?_, ?_, ?_, ?_⟩
  · simp only [ho]
    exact hdi.appendOpen (.torn r) (by simp [clean, Item.isTorn])
  · have := h.c.wb; simpa [sentOpen, hpc] using this
  · intro hs'; simp [hs] at hs'
  · intro r' hr'; simp at hr'
  · intro _ _ _ _ _; simp [ho, hc]
  · intro r' hr'; simp at hr'
  · intro r' c' hr' hc' _
    simp only [Pc.hdr.injEq] at hr'
    subst hr'
    simp only [hc, Option.some.injEq] at hc'
    subst hc'
    exact ⟨dataAt p.bufs c, by rw [appendData_eq, dataAt_modData_eq _ hbo]⟩

/-- pBump2: the payload is counted too -/
theorem PV.bump2 (h : PV p shm pt q f false) {r : Rec} {c : Nat} (hpc : p.pc = .hdr r)
    (hc : p.curr = some c) (hs : p.started = true) (ha : p.alive = true) (hd : p.done = false) :
    PV { p with bufs := completeData p.bufs c r, pc := .idle, log := p.log ++ [.kept r] } shm pt q f false := by
  have ho : p.opn = some c := by rw [← hc]; exact h.opn_eq_curr hs ha hd (by simp [hpc])
  have hdi := h.d; rw [ho] at hdi
  obtain ⟨d, hdd⟩ := h.c.hdr r c hpc hc ho
  refine ⟨?_, ?_, ?_, ?_, ?_, ?_, ?_⟩
  · simp only [ho]; exact hdi.complete hdd
  · have := h.c.wb; simpa [sentOpen, hpc] using this
  · intro hs'; simp [hs] at hs'
  · intro r' hr'; simp at hr'
  · intro _ _ _ _ _; simp [ho, hc]
  · intro r' hr'; simp at hr'
  · intro r' c' hr'; simp at hr'

/-- pEnd with a current buffer: REC_END goes into the pipe -/
theorem PV.endSome (h : PV p shm pt q f false) {c : Nat} (r : Rec) (hpc : p.pc = .idle)
    (hc : p.curr = some c) (hs : p.started = true) (ha : p.alive = true) (hd : p.done = false) :
    PV { p with pc := .needBuf r, opn := none } shm (pt ++ [.E c]) q f false := by
  have ho : p.opn = some c := by rw [← hc]; exact h.opn_eq_curr hs ha hd (by simp [hpc])
  have hdi := h.d; rw [ho] at hdi
  refine ⟨?_, ?_, ?_, ?_, ?_, ?_, ?_⟩
  · have := hdi.handOver
    simpa [ends_append, ends] using this
  · have := h.c.wb
    simp only [sentOpen, hpc, ho] at this
    have := WB_send_end this
    simpa [sentOpen] using this
  · intro hs'; simp [hs] at hs'
  · intro r' _; rfl
  · intro _ _ _ _ hn; exact absurd rfl (hn r)
  · intro r' hr'; simp at hr'
  · intro r' c' hr'; simp at hr'

/-- pEnd without a current buffer (after an allocation failure) -/
theorem PV.endNone (h : PV p shm pt q f false) (r : Rec) (hpc : p.pc = .idle)
    (hc : p.curr = none) (hs : p.started = true) (ha : p.alive = true) (hd : p.done = false) :
    PV { p with pc := .needBuf r } shm pt q f false := by
  have ho : p.opn = none := by rw [← hc]; exact h.opn_eq_curr hs ha hd (by simp [hpc])
  refine ⟨h.d, ?_, ?_, ?_, ?_, ?_, ?_⟩
  · have := h.c.wb; simpa [sentOpen, hpc] using this
  · intro hs'; simp [hs] at hs'
  · intro r' _; exact ho
  · intro _ _ _ _ hn; exact absurd rfl (hn r)
  · intro r' hr'; simp at hr'
  · intro r' c' hr'; simp at hr'

/-- pPick, reuse -/
theorem PV.pickReuse (h : PV p shm pt q f false) {r : Rec} {idx : Nat} {b : Buf} (hpc : p.pc = .needBuf r)
    (hb : p.bufs[idx]? = some b) (hr : b.recording = false) (hs : p.started = true) :
    PV { p with bufs := shrink (p.bufs.set idx { b with recording := true, data := [] }) idx,
                curr := some idx, opn := some idx, pc := .picked r } shm pt q f false := by
  have ho := h.c.needBuf r hpc
  have hdi := h.d; rw [ho] at hdi
  have hi : idx < p.bufs.length := by
    rcases Nat.lt_or_ge idx p.bufs.length with h' | h'
    · exact h'
    · simp [List.getElem?_eq_none_iff.mpr h'] at hb
  refine ⟨hdi.pickReuse hb hr, ?_, ?_, ?_, ?_, ?_, ?_⟩
  · have := h.c.wb; simpa [sentOpen, hpc, ho] using this
  · intro hs'; simp [hs] at hs'
  · intro r' hr'; simp at hr'
  · intro _ _ _ _ _; rfl
  · intro r' _
    refine ⟨rfl, ?_⟩
    intro c' hc'
    simp only [Option.some.injEq] at hc'; subst hc'
    have hk := shrink_keep (k := idx) (b := { b with recording := true, data := [] })
      (List.getElem?_set_self hi) rfl
    simp [dataAt, hk]
  · intro r' c' hr'; simp at hr'

/-- pPick, grow -/
theorem PV.pickGrow (h : PV p shm pt q f false) {r : Rec} (hpc : p.pc = .needBuf r) (hs : p.started = true) :
    PV { p with bufs := shrink (p.bufs ++ [{ recording := true }]) p.bufs.length,
                curr := some p.bufs.length, opn := some p.bufs.length, pc := .picked r } shm pt q f false := by
  have ho := h.c.needBuf r hpc
  have hdi := h.d; rw [ho] at hdi
  refine ⟨hdi.pickGrow, ?_, ?_, ?_, ?_, ?_, ?_⟩
  · have := h.c.wb; simpa [sentOpen, hpc, ho] using this
  · intro hs'; simp [hs] at hs'
  · intro r' hr'; simp at hr'
  · intro _ _ _ _ _; rfl
  · intro r' _
    refine ⟨rfl, ?_⟩
    intro c' hc'
    simp only [Option.some.injEq] at hc'; subst hc'
    have : (p.bufs ++ [({ recording := true } : Buf)])[p.bufs.length]? = some { recording := true } := by simp
    simp [dataAt, shrink_keep this rfl]
  · intro r' c' hr'; simp at hr'

/-- pPick, allocation failure: the record is dropped, `curr = -1` -/
theorem PV.pickFail (h : PV p shm pt q f false) {r : Rec} (n : Nat) (hpc : p.pc = .needBuf r) (hs : p.started = true) :
    PV { p with losts := p.losts + n, curr := none, pc := .idle, log := p.log ++ [.allocFail, .dropped r] }
      shm pt q f false := by
  have ho := h.c.needBuf r hpc
  refine ⟨h.d.logOnly (by simp [survivors_append, survivors]), ?_, ?_, ?_, ?_, ?_, ?_⟩
  · have := h.c.wb; simpa [sentOpen, hpc, ho] using this
  · intro hs'; simp [hs] at hs'
  · intro r' hr'; simp at hr'
  · intro _ _ _ _ _; exact ho
  · intro r' hr'; simp at hr'
  · intro r' c' hr'; simp at hr'

/-- pStart: REC_START goes into the pipe -/
theorem PV.start (h : PV p shm pt q f false) {r : Rec} {c : Nat} (hpc : p.pc = .picked r)
    (hc : p.curr = some c) (hs : p.started = true) (ha : p.alive = true) (hd : p.done = false) :
    PV { p with pc := .started r } shm (pt ++ [.S c]) q f false := by
  have ho : p.opn = some c := by rw [← hc]; exact h.opn_eq_curr hs ha hd (by simp [hpc])
  refine ⟨?_, ?_, ?_, ?_, ?_, ?_, ?_⟩
  · have := h.d; simpa [ends_append, ends] using this
  · have := h.c.wb
    simp only [sentOpen, hpc] at this
    have := WB_send_start c this
    simpa [sentOpen, ho] using this
  · intro hs'; simp [hs] at hs'
  · intro r' hr'; simp at hr'
  · intro _ _ _ _ _; simp [ho, hc]
  · intro r' hr'; simp at hr'
  · intro r' c' hr'; simp at hr'

/-- pMark with pending losts: LOST record at offset 0 -/
theorem PV.markLost (h : PV p shm pt q f false) {r : Rec} {c : Nat} (hpc : p.pc = .started r)
    (hc : p.curr = some c) (hs : p.started = true) (ha : p.alive = true) (hd : p.done = false) :
    PV { p with bufs := appendData p.bufs c (.lost p.losts), losts := 0, pc := .wrote r,
                log := p.log ++ [.lostMark p.losts], lostMsgs := p.lostMsgs ++ [p.losts] }
      shm pt q f false := by
  have ho : p.opn = some c := by rw [← hc]; exact h.opn_eq_curr hs ha hd (by simp [hpc])
  have hdi := h.d; rw [ho] at hdi
  refine ⟨?_, ?_, ?_, ?_, ?_, ?_, ?_⟩
  · simp only [ho]
    exact hdi.appendOpen (.lost p.losts) (by simp [survivors_append, survivors, clean, Item.isTorn])
  · have := h.c.wb; simpa [sentOpen, hpc] using this
  · intro hs'; simp [hs] at hs'
  · intro r' hr'; simp at hr'
  · intro _ _ _ _ _; simp [ho, hc]
  · intro r' hr'; simp at hr'
  · intro r' c' hr'; simp at hr'

theorem PV.markNone (h : PV p shm pt q f false) {r : Rec} (hpc : p.pc = .started r) (hs : p.started = true) :
    PV { p with pc := .wrote r } shm pt q f false := by
  refine ⟨h.d, ?_, ?_, ?_, ?_, ?_, ?_⟩
  · have := h.c.wb; simpa [sentOpen, hpc] using this
  · intro hs'; simp [hs] at hs'
  · intro r' hr'; simp at hr'
  · intro hs ha hd _ _; exact h.c.live hs ha hd rfl (by simp [hpc])
  · intro r' hr'; simp at hr'
  · intro r' c hr'; simp at hr'

/-- pLostAdd / pDrop: ghost and counter only -/
theorem PV.lostAdd (h : PV p shm pt q f false) (n : Nat) (hs : p.started = true) :
    PV { p with losts := p.losts + n } shm pt q f false :=
  ⟨h.d, ⟨by have := h.c.wb; simpa [sentOpen] using this, by intro hs'; simp [hs] at hs', h.c.needBuf, h.c.live,
    h.c.picked, h.c.hdr⟩⟩

theorem PV.drop (h : PV p shm pt q f false) (r : Rec) (hs : p.started = true) :
    PV { p with log := p.log ++ [.dropped r] } shm pt q f false :=
  ⟨h.d.logOnly (by simp [survivors_append, survivors]),
   ⟨by have := h.c.wb; simpa [sentOpen] using this, by intro hs'; simp [hs] at hs', h.c.needBuf, h.c.live,
    h.c.picked, h.c.hdr⟩⟩


/-- pPrepare: mcount_prepare / prepare_shmem_buffer -/
theorem PV.prepare (h : PV p shm pt q f false) (hs : p.started = false) :
    PV { p with started := true, bufs := [{ recording := true, isNew := true }, {}], curr := some 0, opn := some 0 }
      shm (pt ++ [.S 0]) q f false := by
  obtain ⟨hb, hl, hpc, hc, ho, _⟩ := h.c.unstarted hs
  have hdi := h.d; rw [hb, hl, ho] at hdi
  obtain ⟨hch, hnew⟩ := hdi.prepare
  refine ⟨?_, ?_, ?_, ?_, ?_, ?_, ?_⟩
  · simp only [hl, ends_append, ends, List.append_nil, hch]; exact hnew
  · have := h.c.wb
    simp only [sentOpen, hpc, ho] at this
    have := WB_send_start 0 this
    simpa [sentOpen, hpc] using this
  · intro hs'; simp at hs'
  · intro r' hr'; simp [hpc] at hr'
  · intro _ _ _ _ _; rfl
  · intro r' hr'; simp [hpc] at hr'
  · intro r' c' hr'; simp [hpc] at hr'

/-- mtd_dtor → shmem_finish when no REC_END goes out (no current buffer, or the pipe is closed) -/
theorem PV.finishKeep {closed : Bool} (h : PV p shm pt q f closed) (hpc : p.pc = .idle) (hs : p.started = true) :
    PV { p with done := true, curr := none } shm pt q f closed := by
  refine ⟨h.d, ?_, ?_, ?_, ?_, ?_, ?_⟩
  · have := h.c.wb; simpa [sentOpen, hpc] using this
  · intro hs'; simp [hs] at hs'
  · intro r' hr'; simp [hpc] at hr'
  · intro _ _ hd; simp at hd
  · intro r' hr'; simp [hpc] at hr'
  · intro r' c' hr'; simp [hpc] at hr'

/-- mtd_dtor → shmem_finish → REC_END for the current buffer -/
theorem PV.finishSend (h : PV p shm pt q f false) {c : Nat} (hpc : p.pc = .idle)
    (hc : p.curr = some c) (hs : p.started = true) (ha : p.alive = true) (hd : p.done = false) :
    PV { p with done := true, curr := none, opn := none } shm (pt ++ [.E c]) q f false := by
  have ho : p.opn = some c := by rw [← hc]; exact h.opn_eq_curr hs ha hd (by simp [hpc])
  have hdi := h.d; rw [ho] at hdi
  refine ⟨?_, ?_, ?_, ?_, ?_, ?_, ?_⟩
  · have := hdi.handOver
    simpa [ends_append, ends] using this
  · have := h.c.wb
    simp only [sentOpen, hpc, ho] at this
    have := WB_send_end this
    simpa [sentOpen, hpc] using this
  · intro hs'; simp [hs] at hs'
  · intro r' _; rfl
  · intro _ _ hd'; simp at hd'
  · intro r' hr'; simp [hpc] at hr'
  · intro r' c' hr'; simp [hpc] at hr'

theorem PV.kill {closed : Bool} (h : PV p shm pt q f closed) : PV { p with alive := false } shm pt q f closed := by
  refine ⟨h.d, ?_, h.c.unstarted, h.c.needBuf, ?_, h.c.picked, h.c.hdr⟩
  · have := h.c.wb; simpa [sentOpen] using this
  · intro _ ha; simp at ha

theorem PV.close {closed : Bool} (h : PV p shm pt q f closed) : PV p shm pt q f true :=
  ⟨h.d, h.c.wb, h.c.unstarted, h.c.needBuf, by intro _ _ _ hc; simp at hc, h.c.picked, h.c.hdr⟩

/-! #### recorder side -/

/-- read_record_mmap, REC_START: the id moves from the pipe into shmem_list -/
theorem PV.readStart {closed : Bool} {i : Nat} {pt' : List Tok} (h : PV p shm (.S i :: pt') q f closed) :
    PV p (shm ++ [.S i]) pt' q f closed := by
  refine ⟨?_, ?_, h.c.unstarted, h.c.needBuf, h.c.live, h.c.picked, h.c.hdr⟩
  · have := h.d; simpa [ends] using this
  · have := h.c.wb; simpa using this

/-- read_record_mmap, REC_END: the recorder holds exactly that buffer's REC_START -/
theorem PV.readEnd_shm {closed : Bool} {i : Nat} {pt' : List Tok} (h : PV p shm (.E i :: pt') q f closed)
    (hs : ∀ x ∈ shm, ∃ j, x = .S j) : shm = [.S i] :=
  (WB_shm_end hs h.c.wb).1

/-- … the buffer is queued for writing (copy_to_buffer) -/
theorem PV.readEnd_enq {closed : Bool} {i : Nat} {pt' : List Tok} (h : PV p shm (.E i :: pt') q f closed)
    (hs : ∀ x ∈ shm, ∃ j, x = .S j) : PV p [] pt' (q ++ [i]) f closed := by
  refine ⟨?_, ?_, h.c.unstarted, h.c.needBuf, h.c.live, h.c.picked, h.c.hdr⟩
  · have := h.d; simpa [ends] using this
  · simpa using (WB_shm_end hs h.c.wb).2

/-- … or dropped because it is empty (A12) -/
theorem PV.readEnd_drop {closed : Bool} {i : Nat} {pt' : List Tok} (h : PV p shm (.E i :: pt') q f closed)
    (hs : ∀ x ∈ shm, ∃ j, x = .S j) (he : dataAt p.bufs i = []) : PV p [] pt' q f closed := by
  refine ⟨?_, ?_, h.c.unstarted, h.c.needBuf, h.c.live, h.c.picked, h.c.hdr⟩
  · have := h.d
    simp only [ends] at this
    exact this.dropEmpty he
  · simpa using (WB_shm_end hs h.c.wb).2

theorem PV.chain_recording {closed : Bool} (h : PV p shm pt q f closed) {i : Nat} (hi : i ∈ q ++ ends pt) :
    ∃ b, p.bufs[i]? = some b ∧ b.recording = true :=
  h.d.valid i (List.mem_append_left _ hi)

/-- flush_shmem_list / flush_old_shmem: with nothing of the tid left in the pipe, the one
    REC_START the recorder holds is the buffer the (stopped) thread was filling -/
theorem PV.flush_opn {closed : Bool} {i : Nat} (h : PV p shm [] q f closed)
    (hs : ∀ x ∈ shm, ∃ j, x = .S j) (hi : .S i ∈ shm) : shm = [.S i] ∧ p.opn = some i ∧ ∀ r, p.pc ≠ .picked r := by
  have hw := h.c.wb
  simp only [List.append_nil] at hw
  rcases WB_shm_only hs hw with ⟨e, _⟩ | ⟨j, e, ho⟩
  · rw [e] at hi; simp at hi
  · rw [e] at hi; simp at hi; subst hi
    refine ⟨e, ?_, ?_⟩
    · unfold sentOpen at ho; split at ho
      · simp at ho
      · exact ho
    · intro r hr; simp [sentOpen, hr] at ho

theorem PV.flush_enq {closed : Bool} {i : Nat} (h : PV p shm [] q f closed)
    (hs : ∀ x ∈ shm, ∃ j, x = .S j) (hi : .S i ∈ shm)
    (hstop : p.alive = false ∨ p.done = true ∨ closed = true) :
    PV { p with opn := none } [] [] (q ++ [i]) f closed := by
  obtain ⟨_, ho, hnp⟩ := h.flush_opn hs hi
  have hdi := h.d; rw [ho] at hdi
  refine ⟨?_, ?_, ?_, ?_, ?_, ?_, ?_⟩
  · have := hdi.handOver; simpa [ends] using this
  · have : sentOpen { p with opn := none } = none := by
      unfold sentOpen; split <;> rfl
    rw [this]; exact WB.nil
  · intro hs'; have := h.c.unstarted hs'; simp_all
  · intro _ _; rfl
  · intro _ ha hd hc; rcases hstop with h1 | h1 | h1 <;> simp_all
  · intro r hr; exact absurd hr (hnp r)
  · intro r c _ _ ho'; simp at ho'

theorem PV.flush_drop {closed : Bool} {i : Nat} (h : PV p shm [] q f closed)
    (hs : ∀ x ∈ shm, ∃ j, x = .S j) (hi : .S i ∈ shm) (he : dataAt p.bufs i = [])
    (hstop : p.alive = false ∨ p.done = true ∨ closed = true) :
    PV { p with opn := none } [] [] q f closed := by
  obtain ⟨_, ho, hnp⟩ := h.flush_opn hs hi
  have hdi := h.d; rw [ho] at hdi
  refine ⟨?_, ?_, ?_, ?_, ?_, ?_, ?_⟩
  · have := hdi.dropOpen he; simpa [ends] using this
  · have : sentOpen { p with opn := none } = none := by
      unfold sentOpen; split <;> rfl
    rw [this]; exact WB.nil
  · intro hs'; have := h.c.unstarted hs'; simp_all
  · intro _ _; rfl
  · intro _ ha hd hc; rcases hstop with h1 | h1 | h1 <;> simp_all
  · intro r hr; exact absurd hr (hnp r)
  · intro r c _ _ ho'; simp at ho'

/-- write_buffer (+ `flag = WRITTEN`): the head of the tid's queue goes to the file -/
theorem PV.writeHead {closed : Bool} {i : Nat} {q' : List Nat} {b b' : Buf} (h : PV p shm pt (i :: q') f closed)
    (hb : p.bufs[i]? = some b) (hd : b'.data = []) :
    PV { p with bufs := p.bufs.set i b' } shm pt q' (f ++ b.data) closed := by
  have hdi := h.d
  simp only [List.cons_append] at hdi
  have hnd := hdi.nodup
  simp only [List.cons_append, List.nodup_cons, List.mem_append] at hnd
  have hio : p.opn ≠ some i := by
    intro e; apply hnd.1; right; simp [e]
  refine ⟨hdi.writeHead hb hd, ?_, ?_, h.c.needBuf, h.c.live, ?_, ?_⟩
  · have := h.c.wb; simpa [sentOpen] using this
  · intro hs'; have := h.c.unstarted hs'; rw [this.1] at hb; simp at hb
  · intro r hr
    obtain ⟨h1, h2⟩ := h.c.picked r hr
    refine ⟨h1, ?_⟩
    intro c hc
    have : c ≠ i := by intro e; subst e; rw [← hc] at hio; exact hio h1
    rw [dataAt_set_ne _ this]; exact h2 c hc
  · intro r c hr hc ho
    have : c ≠ i := by intro e; subst e; exact hio ho
    rw [dataAt_set_ne _ this]; exact h.c.hdr r c hr hc ho

theorem survivors_dropped (rs : List Rec) : survivors (rs.map Ev.dropped) = [] := by
  induction rs with
  | nil => rfl
  | cons r l ih => simpa [survivors] using ih

/-- pAbandon: counter and ghost log only -/
theorem PV.abandon (h : PV p shm pt q f false) (n : Nat) (rs : List Rec) (hs : p.started = true) :
    PV { p with losts := p.losts + n, log := p.log ++ rs.map .dropped } shm pt q f false :=
  ⟨h.d.logOnly (by simp [survivors_append, survivors_dropped]),
   ⟨by have := h.c.wb; simpa [sentOpen] using this, by intro hs'; simp [hs] at hs', h.c.needBuf, h.c.live,
    h.c.picked, h.c.hdr⟩⟩

/-- repaired shmem_finish: the pending count goes out as a LOST message -/
theorem PV.reportTail {closed : Bool} (h : PV p shm pt q f closed) (hs : p.started = true) (n : Nat) (ms : List Nat) :
    PV { p with losts := 0, log := p.log ++ [.lostReport n], lostMsgs := ms } shm pt q f closed :=
  ⟨h.d.logOnly (by simp [survivors_append, survivors]),
   ⟨by have := h.c.wb; simpa [sentOpen] using this, by intro hs'; simp [hs] at hs', h.c.needBuf, h.c.live,
    h.c.picked, h.c.hdr⟩⟩

end producer


/-! ### the global invariant -/

def qidx (s : State) (t : Tid) : List Nat := (s.pool.queue t).map (·.idx)

def VInv (s : State) (t : Tid) : Prop :=
  PV (s.prod t) (shmToks t s.shmemList) (pipeToks t s.pipe) (qidx s t) (s.file t) s.pipeClosed

structure Inv (s : State) : Prop where
  pool : WInv s.pool
  view : ∀ t, VInv s t

@[simp] theorem setProd_prod_same (s : State) (t : Tid) (p : Prod) : (s.setProd t p).prod t = p := by
  simp [State.setProd]
theorem setProd_prod_ne (s : State) {t x : Tid} (p : Prod) (h : x ≠ t) : (s.setProd t p).prod x = s.prod x := by
  simp [State.setProd, h]
@[simp] theorem setProd_pipe (s : State) (t : Tid) (p : Prod) : (s.setProd t p).pipe = s.pipe := rfl
@[simp] theorem setProd_shm (s : State) (t : Tid) (p : Prod) : (s.setProd t p).shmemList = s.shmemList := rfl
@[simp] theorem setProd_pool (s : State) (t : Tid) (p : Prod) : (s.setProd t p).pool = s.pool := rfl
@[simp] theorem setProd_file (s : State) (t : Tid) (p : Prod) : (s.setProd t p).file = s.file := rfl
@[simp] theorem setProd_closed (s : State) (t : Tid) (p : Prod) : (s.setProd t p).pipeClosed = s.pipeClosed := rfl
@[simp] theorem setProd_bufDone (s : State) (t : Tid) (p : Prod) : (s.setProd t p).bufDone = s.bufDone := rfl

theorem send_open {s : State} (m : Msg) (h : s.pipeClosed = false) : s.send m = { s with pipe := s.pipe ++ [m] } := by
  simp [State.send, h]
theorem send_closed {s : State} (m : Msg) (h : s.pipeClosed = true) : s.send m = s := by
  simp [State.send, h]

theorem inv_init (nw : Nat) : Inv (State.init nw) := by
  refine ⟨⟨?_, ?_, ?_, ?_, ?_⟩, ?_⟩
  · simp [State.init]
  · intro w hw _; simp [State.init] at hw; rw [hw.2]; exact ⟨rfl, rfl⟩
  · intro w hw t ht; simp [State.init] at hw; rw [hw.2] at ht; simp at ht
  · intro w hw t ht; simp [State.init] at hw; rw [hw.2] at ht; simp at ht
  · simp only [State.init, regs]
    have : (List.replicate nw ({} : Warg)).filterMap (·.tid) = [] := by
      rw [List.filterMap_eq_nil_iff]; intro w hw; simp at hw; rw [hw.2]
    rw [this]; exact List.nodup_nil
  · intro t
    have hq : qidx (State.init nw) t = [] := by
      have : wq t (List.replicate nw ({} : Warg)) = [] := by
        apply wq_nil; simp [regs]
      simp [qidx, Pool.queue, State.init, this]
    unfold VInv
    rw [hq]
    refine ⟨⟨by simp [State.init, pipeToks, ends], ?_, ?_, ?_⟩, ⟨?_, ?_, ?_, ?_, ?_, ?_⟩⟩
    · intro i hi; simp [State.init, shmToks, pipeToks, ends] at hi
    · intro i b hb; simp [State.init] at hb
    · simp [State.init, shmToks, pipeToks, ends, clean, survivors]
    · simp only [State.init, shmToks, pipeToks, sentOpen]; exact WB.nil
    · intro _; simp [State.init]
    · intro r hr; simp [State.init] at hr
    · intro _ _ _ _ _; simp [State.init]
    · intro r hr; simp [State.init] at hr
    · intro r c hr; simp [State.init] at hr

/-- a step of thread `t` that touches only its own producer state and appends messages that
    are invisible to the other tids' views -/
theorem inv_prod {s s' : State} {t : Tid} (h : Inv s) (hpool : s'.pool = s.pool)
    (hshm : s'.shmemList = s.shmemList) (hfile : s'.file = s.file)
    (hprod : ∀ x, x ≠ t → s'.prod x = s.prod x)
    (hpipe : ∃ ms, s'.pipe = s.pipe ++ ms ∧ ∀ x, x ≠ t → pipeToks x ms = [])
    (hcl : s'.pipeClosed = s.pipeClosed ∨ s'.pipeClosed = true) (hv : VInv s' t) : Inv s' := by
  refine ⟨by rw [hpool]; exact h.pool, ?_⟩
  intro x
  by_cases hx : x = t
  · subst hx; exact hv
  · obtain ⟨ms, hms, hms2⟩ := hpipe
    have := h.view x
    unfold VInv at this ⊢
    rw [hprod x hx, hshm, hms, pipeToks_append, hms2 x hx, List.append_nil, hfile]
    have hq : qidx s' x = qidx s x := by simp [qidx, hpool]
    rw [hq]
    rcases hcl with e | e
    · rw [e]; exact this
    · rw [e]; exact this.close


section steps
variable {cfg : Cfg} {s s' : State}

theorem pipeToks_single_S (t : Tid) (i : Nat) : pipeToks t [.recStart t i] = [.S i] := by simp [pipeToks]
theorem pipeToks_single_E (t : Tid) (i : Nat) : pipeToks t [.recEnd t i] = [.E i] := by simp [pipeToks]
theorem pipeToks_single_S_ne {t x : Tid} (i : Nat) (h : x ≠ t) : pipeToks x [.recStart t i] = [] := by
  simp [pipeToks, Ne.symm h]
theorem pipeToks_single_E_ne {t x : Tid} (i : Nat) (h : x ≠ t) : pipeToks x [.recEnd t i] = [] := by
  simp [pipeToks, Ne.symm h]

theorem inv_setProd {t : Tid} (h : Inv s) (p' : Prod)
    (hv : PV p' (shmToks t s.shmemList) (pipeToks t s.pipe) (qidx s t) (s.file t) s.pipeClosed) :
    Inv (s.setProd t p') := by
  refine inv_prod (t := t) h rfl rfl rfl (fun x hx => setProd_prod_ne _ _ hx) ⟨[], by simp, fun _ _ => rfl⟩
    (Or.inl rfl) ?_
  unfold VInv
  simpa [qidx] using hv

theorem inv_setProd_msg {t : Tid} (h : Inv s) (p' : Prod) (m : Msg) (hm : ∀ x, x ≠ t → pipeToks x [m] = [])
    (hv : PV p' (shmToks t s.shmemList) (pipeToks t s.pipe ++ pipeToks t [m]) (qidx s t) (s.file t) s.pipeClosed) :
    Inv { (s.setProd t p') with pipe := s.pipe ++ [m] } := by
  refine inv_prod (t := t) h rfl rfl rfl (fun x hx => setProd_prod_ne _ _ hx) ⟨[m], rfl, hm⟩
    (Or.inl rfl) ?_
  unfold VInv
  simpa [qidx, pipeToks_append] using hv

theorem inv_pWrite {t : Tid} {r : Rec} (h : Inv s) (hs : step cfg s (.pWrite t r) = some s') : Inv s' := by
  simp only [step] at hs
  split at hs
  · rename_i hg
    simp only [Bool.and_eq_true, beq_iff_eq] at hg
    obtain ⟨⟨hce, hpc⟩, _⟩ := hg
    obtain ⟨hst, _, _, hcl⟩ := canEmit_iff.mp hce
    injection hs with hs; subst hs
    apply inv_setProd h
    have := h.view t
    unfold VInv at this
    rw [hcl] at this ⊢
    exact this.write hpc r hst
  · simp at hs

theorem inv_pBump {t : Tid} (h : Inv s) (hs : step cfg s (.pBump t) = some s') : Inv s' := by
  simp only [step] at hs
  split at hs
  · rename_i r c hpc hc
    split at hs
    · simp at hs
    · rename_i hce
      have hce : s.canEmit t = true := by simpa using hce
      obtain ⟨hst, hal, hdn, hcl⟩ := canEmit_iff.mp hce
      have hv := h.view t
      unfold VInv at hv
      rw [hcl] at hv
      split at hs
      · injection hs with hs; subst hs
        apply inv_setProd h
        rw [hcl]
        exact hv.bumpTorn hpc hc hst hal hdn
      · injection hs with hs; subst hs
        apply inv_setProd h
        rw [hcl]
        exact hv.bumpWhole hpc hc hst hal hdn
  · simp at hs

theorem inv_pBump2 {t : Tid} (h : Inv s) (hs : step cfg s (.pBump2 t) = some s') : Inv s' := by
  simp only [step] at hs
  split at hs
  · rename_i r c hpc hc
    split at hs
    · simp at hs
    · rename_i hce
      have hce : s.canEmit t = true := by simpa using hce
      obtain ⟨hst, hal, hdn, hcl⟩ := canEmit_iff.mp hce
      have hv := h.view t
      unfold VInv at hv
      rw [hcl] at hv
      injection hs with hs; subst hs
      apply inv_setProd h
      rw [hcl]
      exact hv.bump2 hpc hc hst hal hdn
  · simp at hs

theorem inv_pEnd {t : Tid} {r : Rec} (h : Inv s) (hs : step cfg s (.pEnd t r) = some s') : Inv s' := by
  simp only [step] at hs
  split at hs
  · rename_i hg
    simp only [Bool.and_eq_true, beq_iff_eq] at hg
    obtain ⟨⟨hce, hpc⟩, _⟩ := hg
    obtain ⟨hst, hal, hdn, hcl⟩ := canEmit_iff.mp hce
    have hv := h.view t
    unfold VInv at hv
    rw [hcl] at hv
    split at hs
    · rename_i c hc
      injection hs with hs; subst hs
      rw [send_open _ (by simpa using hcl)]
      apply inv_setProd_msg h _ _ (fun x hx => pipeToks_single_E_ne c hx)
      rw [hcl, pipeToks_single_E]
      exact hv.endSome r hpc hc hst hal hdn
    · rename_i hc
      injection hs with hs; subst hs
      apply inv_setProd h
      rw [hcl]
      exact hv.endNone r hpc hc hst hal hdn
  · simp at hs

theorem inv_pPick {t : Tid} {ok : Bool} (h : Inv s) (hs : step cfg s (.pPick t ok) = some s') : Inv s' := by
  simp only [step] at hs
  split at hs
  · rename_i r hpc
    split at hs
    · simp at hs
    · rename_i hce
      have hce : s.canEmit t = true := by simpa using hce
      obtain ⟨hst, hal, hdn, hcl⟩ := canEmit_iff.mp hce
      have hv := h.view t
      unfold VInv at hv
      rw [hcl] at hv
      split at hs
      · rename_i idx hff
        obtain ⟨b0, hb0, hr0⟩ := firstFree_some hff
        split at hs
        · rename_i b hb
          rw [hb0] at hb; injection hb with hb; subst hb
          injection hs with hs; subst hs
          apply inv_setProd h
          rw [hcl]
          exact hv.pickReuse hpc hb0 hr0 hst
        · simp at hs
      · split at hs
        · injection hs with hs; subst hs
          apply inv_setProd h
          rw [hcl]
          exact hv.pickGrow hpc hst
        · injection hs with hs; subst hs
          apply inv_setProd h
          rw [hcl]
          exact hv.pickFail _ hpc hst
  · simp at hs

theorem inv_pStart {t : Tid} (h : Inv s) (hs : step cfg s (.pStart t) = some s') : Inv s' := by
  simp only [step] at hs
  split at hs
  · rename_i r c hpc hc
    split at hs
    · simp at hs
    · rename_i hce
      have hce : s.canEmit t = true := by simpa using hce
      obtain ⟨hst, hal, hdn, hcl⟩ := canEmit_iff.mp hce
      have hv := h.view t
      unfold VInv at hv
      rw [hcl] at hv
      injection hs with hs; subst hs
      rw [send_open _ (by simpa using hcl)]
      apply inv_setProd_msg h _ _ (fun x hx => pipeToks_single_S_ne c hx)
      rw [hcl, pipeToks_single_S]
      exact hv.start hpc hc hst hal hdn
  · simp at hs

theorem inv_pMark {t : Tid} (h : Inv s) (hs : step cfg s (.pMark t) = some s') : Inv s' := by
  simp only [step] at hs
  split at hs
  · rename_i r c hpc hc
    split at hs
    · simp at hs
    · rename_i hce
      have hce : s.canEmit t = true := by simpa using hce
      obtain ⟨hst, hal, hdn, hcl⟩ := canEmit_iff.mp hce
      have hv := h.view t
      unfold VInv at hv
      rw [hcl] at hv
      split at hs
      · injection hs with hs; subst hs
        rw [send_open _ (by simpa using hcl)]
        apply inv_setProd_msg h _ _ (fun x _ => by simp [pipeToks])
        have : pipeToks t [Msg.lost t (s.prod t).losts] = [] := by simp [pipeToks]
        rw [hcl, this, List.append_nil]
        exact hv.markLost hpc hc hst hal hdn
      · injection hs with hs; subst hs
        apply inv_setProd h
        rw [hcl]
        exact hv.markNone hpc hst
  · simp at hs

theorem inv_pAbandon {t : Tid} {rs : List Rec} {cn : Bool} (h : Inv s)
    (hs : step cfg s (.pAbandon t rs cn) = some s') : Inv s' := by
  simp only [step] at hs
  split at hs
  · rename_i hg
    simp only [Bool.and_eq_true] at hg
    obtain ⟨⟨⟨hce, _⟩, _⟩, _⟩ := hg
    obtain ⟨hst, _, _, hcl⟩ := canEmit_iff.mp hce
    have hv := h.view t
    unfold VInv at hv
    rw [hcl] at hv
    injection hs with hs; subst hs
    apply inv_setProd h
    rw [hcl]
    exact hv.abandon _ rs hst
  · simp at hs

theorem inv_pPrepare {t : Tid} (h : Inv s) (hs : step cfg s (.pPrepare t) = some s') : Inv s' := by
  simp only [step] at hs
  split at hs
  · simp at hs
  · rename_i hg
    simp only [Bool.or_eq_true, not_or, Bool.not_eq_true] at hg
    obtain ⟨hst, hcl⟩ := hg
    have hv := h.view t
    unfold VInv at hv
    rw [hcl] at hv
    injection hs with hs; subst hs
    rw [send_open _ (by simpa using hcl)]
    apply inv_setProd_msg h _ _ (fun x hx => pipeToks_single_S_ne 0 hx)
    rw [hcl, pipeToks_single_S]
    exact hv.prepare hst

theorem inv_kill {t : Tid} (h : Inv s) (hs : step cfg s (.kill t) = some s') : Inv s' := by
  simp only [step] at hs
  injection hs with hs; subst hs
  apply inv_setProd h
  exact (h.view t).kill

theorem inv_pFinishTrigger {t : Tid} (h : Inv s) (hs : step cfg s (.pFinishTrigger t) = some s') : Inv s' := by
  simp only [step] at hs
  split at hs
  · injection hs with hs; subst hs
    refine ⟨h.pool, fun x => ?_⟩
    have := (h.view x).close
    unfold VInv
    simpa [pipeToks_append, pipeToks, qidx] using this
  · simp at hs

theorem inv_finishCore {t : Tid} (h : Inv s) (hs : finishCore s t = some s') : Inv s' := by
  simp only [finishCore] at hs
  split at hs
  · rename_i hg
    simp only [Bool.and_eq_true, beq_iff_eq, Bool.not_eq_true'] at hg
    obtain ⟨⟨⟨hst, hal⟩, hdn⟩, hpc⟩ := hg
    have hv := h.view t
    unfold VInv at hv
    cases hc : (s.prod t).curr with
    | none =>
      simp only [hc] at hs
      injection hs with hs; subst hs
      apply inv_setProd h
      simpa using hv.finishKeep hpc hst
    | some c =>
      simp only [hc] at hs
      by_cases hcl : s.pipeClosed = true
      · -- nothing is sent any more
        have key : ∀ (cond : Bool) (X : State) (m : Msg), X.pipeClosed = true →
            (if cond = true then some (X.send m) else some X) = some X := by
          intro cond X m hX; rw [send_closed m hX]; split <;> rfl
        have hs' : s' = s.setProd t { s.prod t with done := true, curr := none } := by
          simp only [hcl, Bool.not_true, Bool.and_false, Bool.false_eq_true, if_false] at hs
          rw [key _ _ _ (by simpa using hcl)] at hs
          injection hs with hs; exact hs.symm
        rw [hs']
        apply inv_setProd h
        exact hv.finishKeep hpc hst
      · have hcl : s.pipeClosed = false := by simpa using hcl
        rw [hcl] at hv
        have ho : (s.prod t).opn = some c := by
          rw [← hc]; exact hv.opn_eq_curr hst hal hdn (by simp [hpc])
        obtain ⟨b, hb, hr⟩ := hv.d.valid c (by simp [ho])
        simp only [hb, hr, if_true, hcl, Bool.not_false, Bool.and_self] at hs
        injection hs with hs; subst hs
        rw [send_open _ (by simpa using hcl)]
        apply inv_setProd_msg h _ _ (fun x hx => pipeToks_single_E_ne c hx)
        rw [hcl, pipeToks_single_E]
        exact hv.finishSend hpc hc hst hal hdn
  · simp at hs

theorem send_prod (X : State) (m : Msg) : (X.send m).prod = X.prod := by
  unfold State.send; split <;> rfl

theorem inv_reportTail {t : Tid} (h : Inv s) (hst : (s.prod t).started = true) : Inv (reportTail cfg t s) := by
  unfold reportTail
  simp only []
  split
  · rename_i hg
    simp only [Bool.and_eq_true, Bool.not_eq_true'] at hg
    have hcl := hg.2
    rw [send_open _ (by simpa using hcl)]
    apply inv_setProd_msg h _ _ (fun x _ => by simp [pipeToks])
    have : pipeToks t [Msg.lost t (s.prod t).losts] = [] := by simp [pipeToks]
    rw [this, List.append_nil]
    exact (h.view t).reportTail hst _ _
  · exact h

theorem finishCore_started {t : Tid} (hs : finishCore s t = some s') : (s'.prod t).started = true := by
  simp only [finishCore] at hs
  split at hs
  · rename_i hg
    simp only [Bool.and_eq_true] at hg
    have hst := hg.1.1.1
    have ite_some : ∀ (c : Prop) [Decidable c] (A B : State),
        (if c then some A else some B) = some s' → s' = A ∨ s' = B := by
      intro c _ A B h; split at h <;> injection h with h <;> simp [h]
    cases hc : (s.prod t).curr with
    | none => simp only [hc] at hs; injection hs with hs; subst hs; simpa using hst
    | some c =>
      simp only [hc] at hs
      rcases ite_some _ _ _ hs with e | e <;> subst e <;> simp [send_prod, hst]
  · simp at hs

theorem inv_pFinish {t : Tid} (h : Inv s) (hs : step cfg s (.pFinish t) = some s') : Inv s' := by
  simp only [step] at hs
  split at hs
  · rename_i s1 h1
    injection hs with hs; subst hs
    exact inv_reportTail (inv_finishCore h h1) (finishCore_started h1)
  · simp at hs

theorem vinv_congr {x : Tid} (hv : VInv s x) (hp : s'.prod x = s.prod x)
    (hshm : shmToks x s'.shmemList = shmToks x s.shmemList) (hpipe : pipeToks x s'.pipe = pipeToks x s.pipe)
    (hq : qidx s' x = qidx s x) (hf : s'.file x = s.file x) (hc : s'.pipeClosed = s.pipeClosed) : VInv s' x := by
  unfold VInv at *
  rw [hp, hshm, hpipe, hq, hf, hc]; exact hv

theorem qidx_enqueue (hw : WInv s.pool) (wb : WBuf) (x : Tid) :
    ((s.pool.enqueue wb).queue x).map (·.idx) = qidx s x ++ (if wb.tid = x then [wb.idx] else []) := by
  rw [enqueue_queue wb hw x]
  by_cases h : wb.tid = x <;> simp [qidx, h]

theorem inv_rRead (h : Inv s) (hs : step cfg s .rRead = some s') : Inv s' := by
  simp only [step] at hs
  split at hs
  · simp at hs
  · -- REC_START
    rename_i t i rest hp
    injection hs with hs; subst hs
    refine ⟨h.pool, fun x => ?_⟩
    have hv := h.view x
    by_cases hx : t = x
    · subst hx
      unfold VInv at hv ⊢
      simp only [hp, pipeToks, if_true] at hv
      simp only [shmToks_append, shmToks, if_true, qidx]
      exact hv.readStart
    · refine vinv_congr hv ?_ ?_ ?_ ?_ ?_ ?_
      · rfl
      · simp [shmToks_append, shmToks, hx]
      · simp [hp, pipeToks, hx]
      · rfl
      · rfl
      · rfl
  · -- REC_END
    rename_i t i rest hp
    injection hs with hs; subst hs
    have hvt := h.view t
    unfold VInv at hvt
    simp only [hp, pipeToks, if_true] at hvt
    have hshm := hvt.readEnd_shm (shmToks_allS t s.shmemList)
    obtain ⟨b, hb, hr⟩ := hvt.chain_recording (i := i) (by simp [ends])
    have hsh' : shmToks t (s.shmemList.erase ⟨t, i⟩) = [] := by
      rw [shmToks_erase_self, hshm]; simp
    have hother : ∀ x, t ≠ x → VInv { s with pipe := rest, shmemList := s.shmemList.erase ⟨t, i⟩ } x := by
      intro x hx
      refine vinv_congr (h.view x) ?_ ?_ ?_ ?_ ?_ ?_
      · rfl
      · exact shmToks_erase_other hx i _
      · simp [hp, pipeToks, hx]
      · rfl
      · rfl
      · rfl
    unfold recordMmap
    simp only [hb]
    split
    · rename_i hne
      simp only [hr, Bool.true_and, Bool.not_eq_eq_eq_not, Bool.not_true] at hne
      refine ⟨enqueue_inv _ h.pool, fun x => ?_⟩
      by_cases hx : t = x
      · subst hx
        unfold VInv
        simp only [hsh', qidx]
        have := qidx_enqueue (s := s) h.pool ⟨t, i⟩ t
        simp only [if_true] at this
        rw [this]
        exact hvt.readEnd_enq (shmToks_allS t s.shmemList)
      · have := hother x hx
        unfold VInv at this ⊢
        have hq := qidx_enqueue (s := s) h.pool ⟨t, i⟩ x
        simp only [hx, if_false, List.append_nil] at hq
        simp only [qidx] at this ⊢
        rw [hq]; exact this
    · rename_i hne
      have hne : b.data = [] := by
        cases hd : b.data with
        | nil => rfl
        | cons a l => simp [hr, hd] at hne
      refine ⟨h.pool, fun x => ?_⟩
      by_cases hx : t = x
      · subst hx
        unfold VInv
        simp only [hsh']
        exact hvt.readEnd_drop (shmToks_allS t s.shmemList) (by simp [dataAt, hb, hne])
      · exact hother x hx
  · -- LOST
    rename_i t n rest hp
    injection hs with hs; subst hs
    refine ⟨h.pool, fun x => ?_⟩
    refine vinv_congr (h.view x) ?_ ?_ ?_ ?_ ?_ ?_ <;> first | rfl | simp [hp, pipeToks]
  · -- FINISH
    rename_i rest hp
    injection hs with hs; subst hs
    refine ⟨h.pool, fun x => ?_⟩
    refine vinv_congr (h.view x) ?_ ?_ ?_ ?_ ?_ ?_ <;> first | rfl | simp [hp, pipeToks]

theorem inv_rStop (h : Inv s) (hs : step cfg s .rStop = some s') : Inv s' := by
  simp only [step] at hs
  injection hs with hs; subst hs
  refine ⟨h.pool, fun x => ?_⟩
  refine vinv_congr (h.view x) ?_ ?_ ?_ ?_ ?_ ?_ <;> rfl

theorem inv_wPick {w : Nat} (h : Inv s) (hs : step cfg s (.wPick w) = some s') : Inv s' := by
  simp only [step] at hs
  split at hs
  · rename_i pool hp
    injection hs with hs; subst hs
    refine ⟨pick_inv h.pool hp, fun x => ?_⟩
    refine vinv_congr (h.view x) ?_ ?_ ?_ ?_ ?_ ?_ <;> first | rfl | simp [qidx, pick_queue h.pool hp]
  · simp at hs

theorem inv_wSplice {w : Nat} (h : Inv s) (hs : step cfg s (.wSplice w) = some s') : Inv s' := by
  simp only [step] at hs
  split at hs
  · rename_i pool hp
    injection hs with hs; subst hs
    refine ⟨splice_inv h.pool hp, fun x => ?_⟩
    refine vinv_congr (h.view x) ?_ ?_ ?_ ?_ ?_ ?_ <;> first | rfl | simp [qidx, splice_queue h.pool hp]
  · simp at hs

/-- the common part of wWrite and rRemaining: `wb` is the head of its tid's queue -/
theorem inv_writeOut {pool : Pool} {wb : WBuf} {fl : Bool} (h : Inv s) (hw : WInv pool)
    (hq : s.pool.queue wb.tid = wb :: pool.queue wb.tid)
    (hq2 : ∀ t, t ≠ wb.tid → pool.queue t = s.pool.queue t) :
    Inv (writeOut { s with pool := pool } wb fl) := by
  have hvt := h.view wb.tid
  unfold VInv at hvt
  have hqi : qidx s wb.tid = wb.idx :: (pool.queue wb.tid).map (·.idx) := by simp [qidx, hq]
  rw [hqi] at hvt
  obtain ⟨b, hb, hr⟩ := hvt.chain_recording (i := wb.idx) (by simp)
  unfold writeOut
  simp only [hb]
  refine ⟨hw, fun x => ?_⟩
  by_cases hx : x = wb.tid
  · subst hx
    unfold VInv
    simp only [setProd_prod_same, setProd_shm, setProd_pipe, setProd_closed, qidx, setProd_pool, if_true]
    apply hvt.writeHead hb
    split <;> rfl
  · have := h.view x
    unfold VInv at this ⊢
    simp only [State.setProd, hx, if_false, qidx, hq2 x hx] at this ⊢
    exact this

theorem inv_wWrite {w : Nat} (h : Inv s) (hs : step cfg s (.wWrite w) = some s') : Inv s' := by
  simp only [step] at hs
  split at hs
  · rename_i pool wb hp
    injection hs with hs; subst hs
    have := popHead_queue h.pool hp
    exact inv_writeOut h (popHead_inv h.pool hp) this.1 this.2
  · simp at hs

theorem inv_rRemaining (h : Inv s) (hs : step cfg s .rRemaining = some s') : Inv s' := by
  simp only [step] at hs
  split at hs
  · simp at hs
  · split at hs
    · rename_i pool wb hp
      injection hs with hs; subst hs
      have := popRemaining_queue hp
      exact inv_writeOut h (popRemaining_inv h.pool hp) this.1 this.2
    · simp at hs


theorem inv_rFlush {t : Tid} {i : Nat} (h : Inv s) (hs : step cfg s (.rFlush t i) = some s') : Inv s' := by
  simp only [step] at hs
  split at hs
  · rename_i hg
    simp only [Bool.and_eq_true, List.contains_iff_mem, Bool.or_eq_true, Bool.not_eq_true',
      Bool.not_eq_eq_eq_not, Bool.not_true] at hg
    obtain ⟨⟨hmem, hstop⟩, hany⟩ := hg
    injection hs with hs; subst hs
    have hvt := h.view t
    unfold VInv at hvt
    rw [pipeToks_nil_of_not_any hany] at hvt
    have hS := mem_shmToks hmem
    have hall := shmToks_allS t s.shmemList
    obtain ⟨hshm, ho, _⟩ := hvt.flush_opn hall hS
    obtain ⟨b, hb, hr⟩ := hvt.d.valid i (by simp [ho])
    have hstop' : (s.prod t).alive = false ∨ (s.prod t).done = true ∨ s.pipeClosed = true := by
      rcases hstop with (h1 | h1) | h1
      · exact Or.inl h1
      · exact Or.inr (Or.inl h1)
      · exact Or.inr (Or.inr h1)
    have hsh' : shmToks t (s.shmemList.erase ⟨t, i⟩) = [] := by
      rw [shmToks_erase_self, hshm]; simp
    simp only [ho, if_true]
    -- the other tids see nothing of it
    have hother : ∀ (pool : Pool) x, x ≠ t → (∀ y, y ≠ t → pool.queue y = s.pool.queue y) →
        VInv { ({ s with shmemList := s.shmemList.erase ⟨t, i⟩ } : State).setProd t
                 { s.prod t with opn := none } with pool := pool } x := by
      intro pool x hx hq
      have := h.view x
      unfold VInv at this ⊢
      simp only [State.setProd, hx, if_false, qidx, hq x hx, shmToks_erase_other (Ne.symm hx) i] at this ⊢
      exact this
    unfold recordMmap
    simp only [setProd_prod_same, hb]
    split
    · refine ⟨enqueue_inv _ h.pool, fun x => ?_⟩
      by_cases hx : x = t
      · subst hx
        unfold VInv
        simp only [setProd_prod_same, setProd_shm, setProd_pipe, setProd_closed, setProd_file, qidx,
          setProd_pool, hsh', pipeToks_nil_of_not_any hany]
        have := qidx_enqueue (s := s) h.pool ⟨x, i⟩ x
        simp only [if_true] at this
        rw [this]
        exact hvt.flush_enq hall hS hstop'
      · apply hother _ x hx
        intro y hy
        have := enqueue_queue (p := s.pool) ⟨t, i⟩ h.pool y
        simpa [Ne.symm hy] using this
    · rename_i hne
      have hne : b.data = [] := by
        cases hd : b.data with
        | nil => rfl
        | cons a l => simp [hr, hd] at hne
      refine ⟨h.pool, fun x => ?_⟩
      by_cases hx : x = t
      · subst hx
        unfold VInv
        simp only [setProd_prod_same, setProd_shm, setProd_pipe, setProd_closed, setProd_file, qidx,
          setProd_pool, hsh', pipeToks_nil_of_not_any hany]
        exact hvt.flush_drop hall hS (by simp [dataAt, hb, hne]) hstop'
      · exact hother s.pool x hx (fun _ _ => rfl)
  · simp at hs

/-- every step keeps the invariant -/
theorem inv_step {a : Action} (h : Inv s) (hs : step cfg s a = some s') : Inv s' := by
  cases a with
  | pPrepare t => exact inv_pPrepare h hs
  | pWrite t r => exact inv_pWrite h hs
  | pBump t => exact inv_pBump h hs
  | pBump2 t => exact inv_pBump2 h hs
  | pEnd t r => exact inv_pEnd h hs
  | pPick t ok => exact inv_pPick h hs
  | pStart t => exact inv_pStart h hs
  | pMark t => exact inv_pMark h hs
  | pAbandon t rs cn => exact inv_pAbandon h hs
  | pFinish t => exact inv_pFinish h hs
  | pFinishTrigger t => exact inv_pFinishTrigger h hs
  | kill t => exact inv_kill h hs
  | rRead => exact inv_rRead h hs
  | rFlush t i => exact inv_rFlush h hs
  | rStop => exact inv_rStop h hs
  | rRemaining => exact inv_rRemaining h hs
  | wPick w => exact inv_wPick h hs
  | wWrite w => exact inv_wWrite h hs
  | wSplice w => exact inv_wSplice h hs

end steps

theorem inv_reachable {cfg : Cfg} {nw : Nat} {s : State} (h : Reachable cfg nw s) : Inv s := by
  induction h with
  | init => exact inv_init nw
  | step a _ hs ih => exact inv_step ih hs

/-! ### the identity machine (tid cache and buffer ownership) -/

/-- invariant: the cache is empty or holds the thread's own tid, the thread fills its own buffers, and what a vfork
    in flight has put aside for the parent are the parent's own buffers -/
def IdInv (s : Ident) : Prop :=
  (s.cache = 0 ∨ s.cache = s.ktid) ∧ s.bufs = s.ktid ∧ ∀ p k b, s.saved = some (p, k, b) → b = k

theorem idInv_own {s : Ident} (h : IdInv s) : s.msgTid = s.ktid ∧ s.bufs = s.ktid := by
  obtain ⟨hc, hb, _⟩ := h
  refine ⟨?_, hb⟩
  unfold Ident.msgTid
  rcases hc with hc | hc
  · simp [hc]
  · split <;> simp_all

theorem idStep_inv {s : Ident} (h : IdInv s) (o : IdOp) : IdInv (idStep {} s o) := by
  obtain ⟨hc, hb, hs⟩ := h
  cases o with
  | gettid =>
    refine ⟨?_, hb, hs⟩
    right
    exact (idInv_own ⟨hc, hb, hs⟩).1
  | vfork c =>
    refine ⟨Or.inr rfl, rfl, ?_⟩
    intro p k b e
    have e' : (s.pid, s.ktid, s.bufs) = (p, k, b) := by simpa [idStep] using e
    injection e' with _ e'
    injection e' with e2 e3
    rw [← e2, ← e3]; exact hb
  | vforkDone stale =>
    simp only [idStep]
    cases hsv : s.saved with
    | none => exact ⟨hc, hb, hs⟩
    | some x =>
      obtain ⟨p, k, b⟩ := x
      have hbk := hs p k b hsv
      simp only [Bool.not_true, Bool.and_false, Bool.false_eq_true, if_false]
      exact ⟨Or.inl rfl, hbk, by intro _ _ _ e; simp at e⟩
  | fork c => exact ⟨Or.inr rfl, rfl, by intro _ _ _ e; simp [idStep] at e⟩
  | exec => exact ⟨Or.inl rfl, rfl, by intro _ _ _ e; simp [idStep] at e⟩
  | otherVfork a =>
    have : idStep {} s (.otherVfork a) = s := by simp [idStep]
    rw [this]; exact ⟨hc, hb, hs⟩

theorem idRun_inv : ∀ (ops : List IdOp) {s : Ident}, IdInv s → IdInv (idRun {} s ops)
  | [], _, h => h
  | o :: os, _, h => idRun_inv os (idStep_inv h o)

end Uft.Shmem
