/- C08 helper lemmas: `report_diff_nodes` of a node table against itself. -/
import Uft.Model.Report
namespace Uft.Report

theorem insertDRow_perm (cmp : DRow → DRow → Int) (node : DRow) (l : List DRow) :
    (insertDRow cmp node l).Perm (node :: l) := by
  induction l with
  | nil => exact List.Perm.refl _
  | cons iter rest ih =>
    simp only [insertDRow]
    split
    · exact List.Perm.refl _
    · exact (List.Perm.cons iter ih).trans (List.Perm.swap node iter rest)

theorem foldl_insertDRow_perm (cmp : DRow → DRow → Int) (mk : Row → DRow) (bs : List Row) :
    ∀ acc : List DRow, (bs.foldl (fun acc b => insertDRow cmp (mk b) acc) acc).Perm ((bs.map mk).reverse ++ acc) := by
  induction bs with
  | nil => intro acc; exact List.Perm.refl _
  | cons b bs ih =>
    intro acc
    simp only [List.foldl_cons, List.map_cons, List.reverse_cons, List.append_assoc, List.singleton_append]
    exact (ih _).trans (List.Perm.append_left _ (insertDRow_perm cmp (mk b) acc))

theorem find_self (rows : List Row) (hnd : (rows.map (·.key)).Nodup) (b : Row) (hb : b ∈ rows) :
    rows.find? (fun p => p.key = b.key) = some b := by
  induction rows with
  | nil => cases hb
  | cons r rows ih =>
    simp only [List.map_cons, List.nodup_cons] at hnd
    rcases List.mem_cons.mp hb with e | e
    · subst e; simp
    · have hne : ¬ r.key = b.key := by
        intro h; exact hnd.1 (h ▸ List.mem_map_of_mem e)
      simp only [List.find?_cons, hne, decide_false]
      exact ih hnd.2 e

theorem filter_unused_self (rows : List Row) :
    rows.filter (fun p => !(rows.any (fun b => b.key = p.key))) = [] := by
  apply List.filter_eq_nil_iff.mpr
  intro p hp
  simp only [Bool.not_eq_true', Bool.not_eq_false', List.any_eq_true, decide_eq_true_eq, Bool.not_eq_eq_eq_not,
    Bool.not_true, Bool.not_eq_false]
  exact ⟨p, hp, rfl⟩

/-- a node table diffed against itself: every row is paired with itself, no row is added -/
theorem diffRows_self (cmp : DRow → DRow → Int) (rows : List Row) (hnd : (rows.map (·.key)).Nodup) :
    (diffRows cmp rows rows).Perm (rows.map (fun b => { base := b, pair := b })) := by
  unfold diffRows
  simp only [filter_unused_self, List.foldl_nil]
  refine (foldl_insertDRow_perm cmp _ rows []).trans ?_
  simp only [List.append_nil]
  refine (List.reverse_perm _).trans ?_
  apply List.Perm.of_eq
  apply List.map_congr_left
  intro b hb
  rw [find_self rows hnd b hb]; rfl

theorem diff64_self (x : Nat) : diff64 x x = 0 := by
  have h : sub64 x x = 0 := by simp only [sub64, M64]; omega
  simp [diff64, h, M64]

end Uft.Report
