import Uft.Model.MemRegion
/-
Lemmas about the repaired check_mem_region / copy loop (`fixed = true`) of Uft.Model.MemRegion.
-/
namespace Uft.MemRegion

theorem pageOf_idem (a : Nat) : pageOf (pageOf a) = pageOf a := by
  unfold pageOf PAGE; omega

theorem pageOf_of_mod {a : Nat} (h : a % PAGE = 0) : pageOf a = a := by
  unfold pageOf; unfold PAGE at *; omega

theorem pageOf_succ {a : Nat} (h : (a + 1) % PAGE ≠ 0) : pageOf (a + 1) = pageOf a := by
  unfold pageOf; unfold PAGE at *; omega

/-- protections are per page -/
theorem has_page_eq (m : Mapping) (hs : m.start % PAGE = 0) (he : m.stop % PAGE = 0) {a b : Nat}
    (hab : pageOf a = pageOf b) : m.has a = m.has b := by
  unfold Mapping.has
  unfold pageOf at hab
  unfold PAGE at *
  have h1 : (m.start ≤ a) = (m.start ≤ b) := by
    apply propext; constructor <;> intro h <;> omega
  have h2 : (a < m.stop) = (b < m.stop) := by
    apply propext; constructor <;> intro h <;> omega
  simp only [h1, h2]

theorem readable_page_eq {sp : Space} (hal : Aligned sp) {a b : Nat} (hab : pageOf a = pageOf b) :
    readable sp a = readable sp b := by
  unfold readable
  induction sp with
  | nil => rfl
  | cons m r ih =>
    have hm := hal m (by simp)
    simp only [List.any_cons]
    rw [has_page_eq m hm.1 hm.2 hab, ih (fun x hx => hal x (by simp [hx]))]

/-- on a page-granular address space the probe is exact -/
theorem probe_eq_readable {sp : Space} (hal : Aligned sp) (a : Nat) : probe sp a = readable sp a := by
  unfold probe
  exact readable_page_eq hal (pageOf_idem a)

/-! ### the copy loop loads readable bytes only -/

/-- loop invariant: the byte loaded last (or, at the beginning, the byte the check looked at) is readable -/
def LoopInv (sp : Space) (p i : Nat) : Prop :=
  (i = 0 → readable sp p = true) ∧ (0 < i → readable sp (p + i - 1) = true)

theorem loopFrom_readable {sp : Space} (hal : Aligned sp) (get : Nat → MByte) (p room : Nat) :
    ∀ (fuel i : Nat), LoopInv sp p i → ∀ a ∈ loopFrom true sp get p room fuel i, readable sp a = true := by
  intro fuel
  induction fuel with
  | zero => intro i _ a ha; simp [loopFrom] at ha
  | succ n ih =>
    intro i hinv a ha
    unfold loopFrom at ha
    split at ha
    · split at ha
      · simp at ha
      · rename_i hroom hstop
        -- the byte at p + i is readable
        have hri : readable sp (p + i) = true := by
          by_cases hi0 : i = 0
          · subst hi0; simpa using hinv.1 rfl
          · have hpos : 0 < i := Nat.pos_of_ne_zero hi0
            by_cases hpg : (p + i) % PAGE = 0
            · -- first byte of a page: the probe was made and passed
              have hp : probe sp (p + i) ≠ false := by
                intro hf
                exact hstop ⟨rfl, hpos, hpg, hf⟩
              have : probe sp (p + i) = true := by
                cases h : probe sp (p + i) <;> simp_all
              rwa [probe_eq_readable hal] at this
            · -- same page as the byte before
              have hprev := hinv.2 hpos
              have hpe : pageOf (p + i) = pageOf (p + i - 1) := by
                have : p + i = (p + i - 1) + 1 := by omega
                rw [this] at hpg ⊢
                simpa using pageOf_succ hpg
              rw [readable_page_eq hal hpe]; exact hprev
        simp only [List.mem_cons] at ha
        rcases ha with rfl | ha
        · exact hri
        · split at ha
          · simp at ha
          · exact ih (i + 1) ⟨by omega, fun _ => by simpa using hri⟩ a ha
    · simp at ha

theorem firstFault_none {sp : Space} {rs : List Nat} (h : ∀ a ∈ rs, readable sp a = true) : firstFault sp rs = none := by
  unfold firstFault
  rw [List.find?_eq_none]
  intro a ha
  simp [h a ha]

theorem firstFault_some {sp : Space} {rs : List Nat} {a : Nat} (h : firstFault sp rs = some a) :
    a ∈ rs ∧ readable sp a = false := by
  unfold firstFault at h
  have h1 := List.mem_of_find?_eq_some h
  have h2 := List.find?_some h
  exact ⟨h1, by simpa using h2⟩

/-- the repaired `char *` path never loads from an address that is not readable now -/
theorem strCall_fixed_reads {sp : Space} (hal : Aligned sp) (get : Nat → MByte) (p room : Nat)
    (hchk : probe sp p = true) : ∀ a ∈ loopReads true sp get p room, readable sp a = true := by
  unfold loopReads
  apply loopFrom_readable hal
  refine ⟨fun _ => ?_, fun h => absurd h (by omega)⟩
  rwa [probe_eq_readable hal] at hchk

theorem strCall_fixed_no_fault {sp : Space} (hal : Aligned sp) (c : Cache) (get : Nat → MByte) (p room : Nat) :
    isFault (strCall true c sp get p room).1 = false ∧ (strCall true c sp get p room).2 = c := by
  unfold strCall check
  simp only [if_true]
  split
  · exact ⟨rfl, rfl⟩
  · split
    · exact ⟨rfl, rfl⟩
    · rename_i hne hk
      have hchk : probe sp p = true := by
        cases h : probe sp p <;> simp_all
      rw [firstFault_none (strCall_fixed_reads hal get p room hchk)]
      exact ⟨rfl, rfl⟩

/-- 16 bytes whose first and last byte lie in readable pages are readable -/
theorem range_readable {sp : Space} (hal : Aligned sp) (a n : Nat) (hn : n ≤ PAGE + 1)
    (h1 : probe sp a = true) (h2 : n = 0 ∨ probe sp (a + n - 1) = true) :
    ∀ j, j < n → readable sp (a + j) = true := by
  intro j hj
  rcases h2 with h2 | h2
  · omega
  · rw [probe_eq_readable hal] at h1 h2
    have : pageOf (a + j) = pageOf a ∨ pageOf (a + j) = pageOf (a + n - 1) := by
      unfold pageOf; unfold PAGE at *; omega
    rcases this with h | h
    · rw [readable_page_eq hal h]; exact h1
    · rw [readable_page_eq hal h]; exact h2

theorem objReads_mem {base a : Nat} (h : a ∈ objReads base) : ∃ j, j < 16 ∧ a = base + j := by
  unfold objReads at h
  simp only [List.mem_map, List.mem_range] at h
  obtain ⟨j, hj, rfl⟩ := h
  exact ⟨j, hj, rfl⟩

theorem objCall_fixed_no_fault {sp : Space} (hal : Aligned sp) (c : Cache) (get : Nat → MByte) (b room : Nat) :
    isFault (objCall true c sp get b room).1 = false ∧ (objCall true c sp get b room).2 = c := by
  unfold objCall check
  simp only [if_true]
  split
  · rename_i hok
    simp only [Bool.and_eq_true] at hok
    have hall : ∀ a ∈ objReads b, readable sp a = true := by
      intro a ha
      obtain ⟨j, hj, rfl⟩ := objReads_mem ha
      exact range_readable hal b 16 (by unfold PAGE; omega) hok.1 (Or.inr (by simpa using hok.2)) j hj
    rw [firstFault_none hall]
    exact strCall_fixed_no_fault hal c get _ room
  · split
    · exact ⟨rfl, rfl⟩
    · exact ⟨rfl, rfl⟩

/-- no history makes the repaired code fault -/
theorem run_fixed_no_fault (c : Cache) :
    ∀ (evs : List Ev) (sp : Space) (get : Nat → MByte), AlignedHist sp evs →
      ∀ o ∈ run true c sp get evs, isFault o = false := by
  intro evs
  induction evs with
  | nil => intro sp get _ o ho; simp [run] at ho
  | cons e r ih =>
    intro sp get hal o ho
    cases e with
    | space sp' get' =>
      simp only [run] at ho
      exact ih sp' get' hal.2 o ho
    | str p room =>
      have hal' : AlignedHist sp r := hal
      have hsp : Aligned sp := by
        clear ho ih
        induction r generalizing sp with
        | nil => exact hal'
        | cons e' r' ih' =>
          cases e' with
          | space _ _ => exact hal'.1
          | str _ _ => exact ih' sp hal' hal'
          | obj _ _ => exact ih' sp hal' hal'
      have hs := strCall_fixed_no_fault hsp c get p room
      simp only [run, hs.1, hs.2, Bool.false_eq_true, if_false, List.mem_cons] at ho
      rcases ho with rfl | ho
      · exact hs.1
      · exact ih sp get hal' o ho
    | obj b room =>
      have hal' : AlignedHist sp r := hal
      have hsp : Aligned sp := by
        clear ho ih
        induction r generalizing sp with
        | nil => exact hal'
        | cons e' r' ih' =>
          cases e' with
          | space _ _ => exact hal'.1
          | str _ _ => exact ih' sp hal' hal'
          | obj _ _ => exact ih' sp hal' hal'
      have hs := objCall_fixed_no_fault hsp c get b room
      simp only [run, hs.1, hs.2, Bool.false_eq_true, if_false, List.mem_cons] at ho
      rcases ho with rfl | ho
      · exact hs.1
      · exact ih sp get hal' o ho

end Uft.MemRegion

namespace Uft.MemRegion

/-! ### what the repaired code captures -/

/-- the `n` bytes at `p` -/
def bytesAt (get : Nat → MByte) (p n : Nat) : List MByte := (List.range' p n).map get

/-- the loop goes on while nothing stops it -/
def Goes (sp : Space) (get : Nat → MByte) (p room j : Nat) : Prop :=
  j < room ∧ j ≠ STR_MAX ∧ get (p + j) ≠ 0 ∧ ¬ (0 < j ∧ (p + j) % PAGE = 0 ∧ probe sp (p + j) = false)

theorem loopFrom_goes (sp : Space) (get : Nat → MByte) (p room : Nat) :
    ∀ (k fuel i : Nat), k ≤ fuel → (∀ j, i ≤ j → j < i + k → Goes sp get p room j) →
      loopFrom true sp get p room fuel i = List.range' (p + i) k ++ loopFrom true sp get p room (fuel - k) (i + k) := by
  intro k
  induction k with
  | zero => intro fuel i _ _; simp
  | succ k ih =>
    intro fuel i hk hg
    obtain ⟨f, rfl⟩ : ∃ f, fuel = f + 1 := ⟨fuel - 1, by omega⟩
    have h0 := hg i (Nat.le_refl _) (by omega)
    obtain ⟨hroom, h98, hnz, hpg⟩ := h0
    rw [loopFrom]
    rw [if_pos hroom, if_neg (by intro h; exact hpg ⟨h.2.1, h.2.2.1, h.2.2.2⟩)]
    rw [if_neg (by intro h; rcases h with h | h; exact h98 h; exact hnz h)]
    rw [ih f (i + 1) (by omega) (fun j h1 h2 => hg j (by omega) (by omega))]
    rw [List.range'_succ]
    have e1 : p + i + 1 = p + (i + 1) := by omega
    have e2 : f + 1 - (k + 1) = f - k := by omega
    have e3 : i + 1 + k = i + (k + 1) := by omega
    rw [e1, e2, e3]
    rfl

theorem copied_append_nul (get : Nat → MByte) (l : List Nat) (a : Nat) (hl : ∀ x ∈ l, get x ≠ 0) (ha : get a = 0) :
    copied get (l ++ [a]) = l.map get := by
  unfold copied
  induction l with
  | nil => simp [ha]
  | cons x r ih =>
    have hx := hl x (by simp)
    simp only [List.cons_append, List.map_cons]
    rw [List.takeWhile_cons_of_pos (by simpa using hx)]
    rw [ih (fun y hy => hl y (by simp [hy]))]

theorem copied_all (get : Nat → MByte) (l : List Nat) (hl : ∀ x ∈ l, get x ≠ 0) : copied get l = l.map get := by
  unfold copied
  induction l with
  | nil => rfl
  | cons x r ih =>
    have hx := hl x (by simp)
    simp only [List.map_cons]
    rw [List.takeWhile_cons_of_pos (by simpa using hx)]
    rw [ih (fun y hy => hl y (by simp [hy]))]

theorem mem_range'_1 {a s n : Nat} (h : a ∈ List.range' s n) : s ≤ a ∧ a < s + n := by
  rw [List.mem_range'_1] at h; exact h

/-- a pointer whose first byte cannot be read is shown as an address; nothing is loaded
    (whatever is cached: there is no cache) -/
theorem strCall_fixed_unreadable {sp : Space} (hal : Aligned sp) (c : Cache) (get : Nat → MByte) (p room : Nat)
    (hp : p ≠ 0) (hr : readable sp p = false) : strCall true c sp get p room = (.bad p, c) := by
  unfold strCall check
  rw [if_neg hp]
  simp only [if_true]
  rw [if_pos (by rw [probe_eq_readable hal]; exact hr)]

/-- a NUL-terminated string of `n ≤ 98` bytes whose bytes (and terminator) can all be read is captured
    as exactly these bytes -/
theorem strCall_fixed_cstring {sp : Space} (hal : Aligned sp) (c : Cache) (get : Nat → MByte) (p room n : Nat)
    (hp : p ≠ 0) (hn : n ≤ STR_MAX) (hroom : n < room)
    (hr : ∀ j, j ≤ n → readable sp (p + j) = true) (hnz : ∀ j, j < n → get (p + j) ≠ 0) (hz : get (p + n) = 0) :
    strCall true c sp get p room = (.str (bytesAt get p n), c) := by
  have hprobe : ∀ j, j ≤ n → probe sp (p + j) = true := fun j hj => by
    rw [probe_eq_readable hal]; exact hr j hj
  have hreads : loopReads true sp get p room = List.range' p n ++ [p + n] := by
    unfold loopReads
    rw [loopFrom_goes sp get p room n 100 0 (by unfold STR_MAX at hn; omega)
      (fun j _ hj => ⟨by omega, by unfold STR_MAX at *; omega, hnz j (by omega),
        fun h => by have := hprobe j (by omega); rw [this] at h; exact absurd h.2.2 (by decide)⟩)]
    obtain ⟨f, hf⟩ : ∃ f, 100 - n = f + 1 := ⟨100 - n - 1, by unfold STR_MAX at hn; omega⟩
    rw [hf]
    simp only [Nat.add_zero, Nat.zero_add]
    rw [loopFrom, if_pos hroom, if_neg (by
      intro h; have := hprobe n (Nat.le_refl _); rw [this] at h; exact absurd h.2.2.2 (by decide))]
    rw [if_pos (Or.inr hz)]
  unfold strCall check
  rw [if_neg hp]
  simp only [if_true]
  have h0 := hprobe 0 (Nat.zero_le _)
  simp only [Nat.add_zero] at h0
  rw [if_neg (by rw [h0]; decide)]
  rw [hreads]
  rw [firstFault_none (by
    intro a ha
    simp only [List.mem_append, List.mem_singleton] at ha
    rcases ha with ha | rfl
    · have := mem_range'_1 ha
      have e : a = p + (a - p) := by omega
      rw [e]; exact hr _ (by omega)
    · exact hr n (Nat.le_refl _))]
  rw [copied_append_nul get _ _ (by
    intro x hx
    have := mem_range'_1 hx
    have e : x = p + (x - p) := by omega
    rw [e]; exact hnz _ (by omega)) hz]
  rfl

/-- a string of at least 99 readable non-NUL bytes: exactly the first 99 are handed to the packer
    (which stores 95 of them and "...") and nothing beyond them is loaded -/
theorem strCall_fixed_long {sp : Space} (hal : Aligned sp) (c : Cache) (get : Nat → MByte) (p room : Nat)
    (hp : p ≠ 0) (hroom : STR_MAX < room)
    (hr : ∀ j, j ≤ STR_MAX → readable sp (p + j) = true) (hnz : ∀ j, j ≤ STR_MAX → get (p + j) ≠ 0) :
    strCall true c sp get p room = (.str (bytesAt get p (STR_MAX + 1)), c) ∧
    loopReads true sp get p room = List.range' p (STR_MAX + 1) := by
  have hprobe : ∀ j, j ≤ STR_MAX → probe sp (p + j) = true := fun j hj => by
    rw [probe_eq_readable hal]; exact hr j hj
  have hreads : loopReads true sp get p room = List.range' p (STR_MAX + 1) := by
    unfold loopReads
    rw [loopFrom_goes sp get p room STR_MAX 100 0 (by unfold STR_MAX; omega)
      (fun j _ hj => ⟨by omega, by omega, hnz j (by omega),
        fun h => by have := hprobe j (by omega); rw [this] at h; exact absurd h.2.2 (by decide)⟩)]
    have hf : 100 - STR_MAX = 1 + 1 := by unfold STR_MAX; rfl
    rw [hf]
    simp only [Nat.add_zero, Nat.zero_add]
    rw [loopFrom, if_pos hroom, if_neg (by
      intro h; have := hprobe STR_MAX (Nat.le_refl _); rw [this] at h; exact absurd h.2.2.2 (by decide))]
    rw [if_pos (Or.inl rfl)]
    rw [List.range'_concat]
    simp
  refine ⟨?_, hreads⟩
  unfold strCall check
  rw [if_neg hp]
  simp only [if_true]
  have h0 := hprobe 0 (Nat.zero_le _)
  simp only [Nat.add_zero] at h0
  rw [if_neg (by rw [h0]; decide)]
  rw [hreads]
  rw [firstFault_none (by
    intro a ha
    have := mem_range'_1 ha
    have e : a = p + (a - p) := by omega
    rw [e]; exact hr _ (by omega))]
  rw [copied_all get _ (by
    intro x hx
    have := mem_range'_1 hx
    have e : x = p + (x - p) := by omega
    rw [e]; exact hnz _ (by omega))]
  rfl

/-- a string that runs into a page that cannot be read is captured up to the end of the readable page -/
theorem strCall_fixed_cut {sp : Space} (hal : Aligned sp) (c : Cache) (get : Nat → MByte) (p room n : Nat)
    (hp : p ≠ 0) (hn0 : 0 < n) (hn : n ≤ STR_MAX) (hroom : n < room)
    (hr : ∀ j, j < n → readable sp (p + j) = true) (hnz : ∀ j, j < n → get (p + j) ≠ 0)
    (hpg : (p + n) % PAGE = 0) (hun : readable sp (p + n) = false) :
    strCall true c sp get p room = (.str (bytesAt get p n), c) ∧ loopReads true sp get p room = List.range' p n := by
  have hprobe : ∀ j, j < n → probe sp (p + j) = true := fun j hj => by
    rw [probe_eq_readable hal]; exact hr j hj
  have hreads : loopReads true sp get p room = List.range' p n := by
    unfold loopReads
    rw [loopFrom_goes sp get p room n 100 0 (by unfold STR_MAX at hn; omega)
      (fun j _ hj => ⟨by omega, by unfold STR_MAX at *; omega, hnz j (by omega),
        fun h => by have := hprobe j (by omega); rw [this] at h; exact absurd h.2.2 (by decide)⟩)]
    obtain ⟨f, hf⟩ : ∃ f, 100 - n = f + 1 := ⟨100 - n - 1, by unfold STR_MAX at hn; omega⟩
    rw [hf]
    simp only [Nat.add_zero, Nat.zero_add]
    rw [loopFrom, if_pos hroom, if_pos ⟨rfl, hn0, hpg, by rw [probe_eq_readable hal]; exact hun⟩]
    simp
  refine ⟨?_, hreads⟩
  unfold strCall check
  rw [if_neg hp]
  simp only [if_true]
  have h0 := hprobe 0 hn0
  simp only [Nat.add_zero] at h0
  rw [if_neg (by rw [h0]; decide)]
  rw [hreads]
  rw [firstFault_none (by
    intro a ha
    have := mem_range'_1 ha
    have e : a = p + (a - p) := by omega
    rw [e]; exact hr _ (by omega))]
  rw [copied_all get _ (by
    intro x hx
    have := mem_range'_1 hx
    have e : x = p + (x - p) := by omega
    rw [e]; exact hnz _ (by omega))]
  rfl

end Uft.MemRegion
