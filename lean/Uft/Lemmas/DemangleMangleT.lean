import Uft.Lemmas.DemangleMangle
/-!
# C13 — demangle ∘ mangle for nested names whose components carry template arguments
(builtin types, integer literals, `L_Z…E` references, `XadL_Z…EE` addresses)
-/
namespace Uft.Demangle
open Uft.Gen.DemangleTables

/-- an identifier inside template arguments only has to be parseable (it is skipped, not printed) -/
structure IdSkipOk (id : List UInt8) : Prop where
  ne : id ≠ []
  len : id.length < 2 ^ 31
  head : isDigit (id.getD 0 0) = false
  nodollar : (36 : UInt8) ∉ id

theorem IdOk.skip {id : List UInt8} (h : IdOk id) : IdSkipOk id := ⟨h.ne, h.len, h.head, h.nodollar⟩

/-- `dd_source_name` inside template arguments (`templates != 0`): the name is skipped -/
theorem sourceName_plain {e : Env} {st : St} (id rest : List UInt8) (hfx : e.fx = Fixes.all) (hl : st.len = e.n)
    (h : Rest e st.pos (srcName id ++ rest)) (hid : IdSkipOk id) (htm : st.templates ≠ 0) :
    sourceName e st = .ok 0 { st with pos := st.pos + (srcName id).length } := by
  obtain ⟨c0, idt, hidc⟩ : ∃ c0 idt, id = c0 :: idt := by
    cases id with
    | nil => exact absurd rfl hid.ne
    | cons a t => exact ⟨a, t, rfl⟩
  have hc0 : isDigit c0 = false := by simpa [hidc] using hid.head
  have hk1 : 1 ≤ id.length := by rw [hidc]; simp
  have hrest : srcName id ++ rest = decimal id.length ++ c0 :: (idt ++ rest) := by simp [srcName, hidc]
  have hnum := number_eq (st := st) id.length c0 (idt ++ rest) hl (by rw [← hrest]; exact h) hk1 hid.len hc0
  let st1 : St := { st with pos := st.pos + (decimal id.length).length }
  have hnum' : number e st = .ok (id.length : Int) st1 := hnum
  have h1 : Rest e st1.pos (id ++ rest) := by
    have := h.drop (decimal id.length).length (by simp [srcName])
    simpa [srcName, List.append_assoc] using this
  have hl1 : st1.len = e.n := hl
  have heof : eof e st1 = .ok false st1 := by
    rw [eof_eq hl1 h1]
    simp [hidc]
  have hov : (!e.fx.intOvf && decide (st1.pos + (id.length : Int).toNat > 2147483647)) = false := by
    simp [hfx, Fixes.all]
  have hfit : ¬ (st1.pos + (id.length : Int).toNat > st1.len) := by
    have := h1.1
    simp only [List.length_append] at this
    simp only [Int.toNat_natCast]
    omega
  have hcons : consumeN (id.length : Int).toNat e st1 = .ok ((id ++ rest).getD 0 0) { st1 with pos := st1.pos + id.length } := by
    simp only [Int.toNat_natCast]
    exact consumeN_eq id.length hl1 h1 (by simp)
  have hnn : ¬ ((id.length : Int) < 0) := by omega
  have htm' : (st1.templates != 0) = true := by simpa [st1] using htm
  unfold sourceName
  by_cases hty : (st1.type != 0 && !st1.typeInfo) = true
  · simp only [bind_def, hnum', hnn, ↓reduceIte, getEnv, getSt, heof, Bool.false_eq_true, hov, hfit, hty, hcons, pure_def]
    simp [st1, srcName, Nat.add_assoc]
  · have hty' : (st1.type != 0 && !st1.typeInfo) = false := by simpa using hty
    simp only [bind_def, hnum', hnn, ↓reduceIte, getEnv, getSt, heof, Bool.false_eq_true, hov, hfit, hty', htm', hcons,
      pure_def]
    simp [st1, srcName, Nat.add_assoc]


theorem unqualifiedName_plain {e : Env} {st : St} (rec : Fn → M Int) (id rest : List UInt8) (hfx : e.fx = Fixes.all)
    (hl : st.len = e.n) (h : Rest e st.pos (srcName id ++ rest)) (hid : IdSkipOk id)
    (hB : rest.getD 0 0 ≠ 66) (htm : st.templates ≠ 0) :
    bUnqualifiedName rec e st = .ok 0 { st with pos := st.pos + (srcName id).length } := by
  have hd := srcName_head_digit id
  have hsn := sourceName_plain (st := st) id rest hfx hl h hid htm
  have hne : (srcName id ++ rest).length ≠ 0 := by
    have := srcName_ne_nil id
    simp only [List.length_append, ne_eq, Nat.add_eq_zero_iff, List.length_eq_zero_iff, not_and]
    intro h'
    exact absurd h' this
  have hc0 : (srcName id ++ rest).getD 0 0 = (srcName id).getD 0 0 := getD0_append_left _ _ (srcName_ne_nil id)
  have h' : Rest e (st.pos + (srcName id).length) rest := by
    have := h.drop (srcName id).length (by simp)
    simpa using this
  have hcur' : curr e { st with pos := st.pos + (srcName id).length } = .ok (rest.getD 0 0) { st with pos := st.pos + (srcName id).length } :=
    curr_eq (st := { st with pos := st.pos + (srcName id).length }) hl h'
  have hB' : (rest.getD 0 0 == 66) = false := by simpa using hB
  unfold bUnqualifiedName
  simp only [bind_def, curr_eq hl h, peek_eq 1 hl h, eof_eq hl h, hne, decide_false, Bool.false_eq_true, ↓reduceIte,
    hc0, digit_beq hd 67 rfl, digit_beq hd 68 rfl, digit_beq hd 85 rfl, digit_beq hd 76 rfl, digit_not_lower hd,
    Bool.or_self, hsn, pure_def, hcur', hB']

/-- `dd_name` on an unscoped source name that is not followed by template arguments, inside template arguments -/
theorem name_plain {e : Env} {st : St} (F : Nat) (id rest : List UInt8) (hfx : e.fx = Fixes.all)
    (hl : st.len = e.n) (h : Rest e st.pos (srcName id ++ rest)) (hid : IdSkipOk id)
    (hB : rest.getD 0 0 ≠ 66) (hI : rest.getD 0 0 ≠ 73) (htm : st.templates ≠ 0) :
    run (F + 2) .name e st = .ok 0 { st with pos := st.pos + (srcName id).length } := by
  show bName (run (F + 1)) e st = _
  have hd := srcName_head_digit id
  have hne : (srcName id ++ rest).length ≠ 0 := by
    have := srcName_ne_nil id
    simp only [List.length_append, ne_eq, Nat.add_eq_zero_iff, List.length_eq_zero_iff, not_and]
    intro h'
    exact absurd h' this
  have hc0 : (srcName id ++ rest).getD 0 0 = (srcName id).getD 0 0 := getD0_append_left _ _ (srcName_ne_nil id)
  have hun : run (F + 1) .unqualifiedName e st = .ok 0 { st with pos := st.pos + (srcName id).length } :=
    unqualifiedName_plain (run F) id rest hfx hl h hid hB htm
  have h' : Rest e (st.pos + (srcName id).length) rest := by
    have := h.drop (srcName id).length (by simp)
    simpa using this
  have hcur' : curr e { st with pos := st.pos + (srcName id).length } = .ok (rest.getD 0 0) { st with pos := st.pos + (srcName id).length } :=
    curr_eq (st := { st with pos := st.pos + (srcName id).length }) hl h'
  have hI' : (rest.getD 0 0 == 73) = false := by simpa using hI
  unfold bName
  simp only [bind_def, curr_eq hl h, eof_eq hl h, hne, decide_false, Bool.false_eq_true, ↓reduceIte, hc0,
    digit_beq hd 78 rfl, digit_beq hd 90 rfl, digit_beq hd 83 rfl, hun, Int.lt_irrefl, hcur', hI', pure_def]

/-- the parameter-type loop of dd_encoding stops at the `E` that closes an `L_Z…E` primary -/
theorem encLoop_builtins_E {e : Env} (F : Nat) (hF : 2 ≤ F) (rest : List UInt8) : ∀ (params : List UInt8) (st : St),
    (∀ c ∈ params, types.any (fun t => t.1 == c) = true) → st.len = e.n → Rest e st.pos (params ++ 69 :: rest) →
    run (F + params.length + 1) .encLoop e st = .ok 0 { st with pos := st.pos + params.length } := by
  intro params
  induction params with
  | nil =>
    intro st _ hl h
    show bEncLoop (run (F + 0)) e st = _
    unfold bEncLoop
    simp [bind_def, eof_eq hl h, curr_eq hl h, strchrB, encEnd, pure_def]
  | cons c params ih =>
    intro st hb hl h
    have hc := hb c List.mem_cons_self
    obtain ⟨_, _, _, _, _, _, _, _, _, _, _, _, _, _, b15, _⟩ := builtin_facts c hc
    show bEncLoop (run (F + (c :: params).length)) e st = _
    have h : Rest e st.pos (c :: (params ++ 69 :: rest)) := by simpa using h
    have hne : (c :: (params ++ 69 :: rest)).length ≠ 0 := by simp
    have hty : run (F + (c :: params).length) .type e st = .ok 0 { st with pos := st.pos + 1 } := by
      have : F + (c :: params).length = (F + (c :: params).length - 2) + 2 := by simp; omega
      rw [this]
      exact type_builtin _ c (params ++ 69 :: rest) hc hl h
    have h' : Rest e (st.pos + 1) (params ++ 69 :: rest) := by simpa using h.drop 1 (by simp)
    have hrec := ih { st with pos := st.pos + 1 } (fun x hx => hb x (List.mem_cons_of_mem _ hx)) hl h'
    have hfl : F + (c :: params).length = F + params.length + 1 := by simp; omega
    unfold bEncLoop
    simp only [bind_def, eof_eq hl h, hne, decide_false, Bool.false_eq_true, ↓reduceIte, curr_eq hl h,
      List.getD_cons_zero, b15, hty, Int.lt_irrefl, pure_def]
    rw [hfl, hrec]
    congr 1
    simp only [List.length_cons]
    congr 1
    omega

/-- `dd_encoding` on the inner encoding `<source-name> <builtin-type>*` of an `L_Z…E` primary -/
theorem encoding_inner {e : Env} {st : St} (F : Nat) (hF : 2 ≤ F) (id params rest : List UInt8) (hfx : e.fx = Fixes.all)
    (hl : st.len = e.n) (hpos : st.pos ≠ 0) (h : Rest e st.pos (srcName id ++ params ++ 69 :: rest)) (hid : IdSkipOk id)
    (hb : ∀ c ∈ params, types.any (fun t => t.1 == c) = true) (htm : st.templates ≠ 0) :
    run (F + params.length + 2) .encoding e st = .ok 0 { st with pos := st.pos + (srcName id).length + params.length } := by
  show bEncoding (run (F + params.length + 1)) e st = _
  have hd := srcName_head_digit id
  have hrest : srcName id ++ params ++ 69 :: rest = srcName id ++ (params ++ 69 :: rest) := by simp
  rw [hrest] at h
  have hne : (srcName id ++ (params ++ 69 :: rest)).length ≠ 0 := by simp
  have hc0 : (srcName id ++ (params ++ 69 :: rest)).getD 0 0 = (srcName id).getD 0 0 :=
    getD0_append_left _ _ (srcName_ne_nil id)
  have hnext : (params ++ 69 :: rest).getD 0 0 ≠ 66 ∧ (params ++ 69 :: rest).getD 0 0 ≠ 73 := by
    cases params with
    | nil => simp
    | cons c ps =>
      obtain ⟨_, _, _, _, _, _, _, _, _, _, b11, _⟩ := builtin_facts c (hb c List.mem_cons_self)
      have hB : ¬ c = 66 := by
        intro h66; subst h66
        have := hb 66 List.mem_cons_self
        revert this; decide
      simp only [List.cons_append, List.getD_cons_zero, ne_eq]
      exact ⟨hB, by simpa using b11⟩
  let st1 : St := { st with level := st.level + 1 }
  have hinc : incLevel e st = .ok () st1 := rfl
  have h1 : Rest e st1.pos (srcName id ++ (params ++ 69 :: rest)) := h
  have hname : run (F + params.length + 1) .name e st1 = .ok 0 { st1 with pos := st1.pos + (srcName id).length } := by
    have : F + params.length + 1 = (F + params.length - 1) + 2 := by omega
    rw [this]
    exact name_plain _ id _ hfx hl h1 hid hnext.1 hnext.2 htm
  let st2 : St := { st1 with pos := st1.pos + (srcName id).length }
  have hname' : run (F + params.length + 1) .name e st1 = .ok 0 st2 := hname
  have h2 : Rest e st2.pos (params ++ 69 :: rest) := by
    have := h.drop (srcName id).length (by simp)
    simpa using this
  have henc : run (F + params.length + 1) .encLoop e st2 = .ok 0 { st2 with pos := st2.pos + params.length } :=
    encLoop_builtins_E F hF rest params st2 hb hl h2
  let st3 : St := { st2 with pos := st2.pos + params.length }
  have henc' : run (F + params.length + 1) .encLoop e st2 = .ok 0 st3 := henc
  have h3 : Rest e st3.pos (69 :: rest) := by
    have := h2.drop params.length (by simp)
    simpa using this
  have hcur3 : curr e st3 = .ok 69 st3 := by
    have := curr_eq (st := st3) hl h3
    simpa using this
  have hp0 : (st.pos == 0) = false := by simpa using hpos
  unfold bEncoding
  simp only [bind_def, eof_eq hl h, hne, decide_false, Bool.false_eq_true, ↓reduceIte, getSt, hp0, hinc,
    curr_eq (st := st1) hl h1, hc0, digit_beq hd 84 rfl, digit_beq hd 71 rfl, Bool.or_self, hname', Int.lt_irrefl, henc',
    hcur3, show ((69 : UInt8) == 46) = false from rfl, show ((69 : UInt8) == 64) = false from rfl, decLevel, modifySt,
    pure_def]
  simp [st3, st2, st1, Nat.add_assoc]


/-- `dd_expr_primary` on `L_Z <source-name> <builtin-type>* E` (reference to a global / function) -/
theorem exprPrimary_ref {e : Env} {st : St} (F : Nat) (hF : 2 ≤ F) (id params rest : List UInt8) (hfx : e.fx = Fixes.all)
    (hl : st.len = e.n) (h : Rest e st.pos (76 :: 95 :: 90 :: (srcName id ++ params ++ 69 :: rest))) (hid : IdSkipOk id)
    (hb : ∀ c ∈ params, types.any (fun t => t.1 == c) = true) (htm : st.templates ≠ 0) :
    run (F + params.length + 3) .exprPrimary e st =
      .ok 0 { st with pos := st.pos + (3 + (srcName id).length + params.length + 1) } := by
  show bExprPrimary (run (F + params.length + 2)) e st = _
  have hne : (76 :: 95 :: 90 :: (srcName id ++ params ++ 69 :: rest)).length ≠ 0 := by simp
  let st1 : St := { st with pos := st.pos + 1 }
  let st2 : St := { st1 with type := st1.type + 1 }
  let st3 : St := { st2 with level := st2.level + 1 }
  have hdc : debugConsume 76 e st = .ok true st1 := debugConsume_eq 76 hl h
  have hi1 : incType e st1 = .ok () st2 := rfl
  have hi2 : incLevel e st2 = .ok () st3 := rfl
  have h3 : Rest e st3.pos (95 :: 90 :: (srcName id ++ params ++ 69 :: rest)) := by simpa using h.drop 1 (by simp)
  let st4 : St := { st3 with pos := st3.pos + 2 }
  have hcons : consumeN 2 e st3 = .ok 95 st4 := by
    have := consumeN_eq (st := st3) 2 hl h3 (by simp)
    simpa using this
  have h4 : Rest e st4.pos (srcName id ++ params ++ 69 :: rest) := by simpa using h3.drop 2 (by simp)
  have henc := encoding_inner (st := st4) F hF id params rest hfx hl (by show st.pos + 1 + 2 ≠ 0; omega) h4 hid hb htm
  let st5 : St := { st4 with pos := st4.pos + (srcName id).length + params.length }
  have henc' : run (F + params.length + 2) .encoding e st4 = .ok 0 st5 := henc
  have h5 : Rest e st5.pos (69 :: rest) := by
    have := h4.drop ((srcName id).length + params.length) (by simp)
    have hd : List.drop ((srcName id).length + params.length) (srcName id ++ params ++ 69 :: rest) = 69 :: rest := by
      rw [List.drop_append_of_le_length (by simp)]
      simp
    rw [hd] at this
    simpa [st5, Nat.add_assoc] using this
  have hdc2 := debugConsume_eq (st := st5) 69 hl h5
  unfold bExprPrimary
  simp only [bind_def, eof_eq hl h, hne, decide_false, Bool.false_eq_true, ↓reduceIte, hdc, Bool.not_true, hi1, hi2,
    curr_eq (st := st3) hl h3, peek_eq (st := st3) 1 hl h3, List.getD_cons_zero, List.getD_cons_succ, beq_self_eq_true,
    Bool.and_self, hcons, henc', Int.lt_irrefl, hdc2, decLevel, decType, modifySt, pure_def]
  simp [st5, st4, st3, st2, st1]
  omega

/-- `dd_expr_primary` on an integer literal `L <builtin-type> <number> E` -/
theorem exprPrimary_lit {e : Env} {st : St} (F : Nat) (c : UInt8) (k : Nat) (rest : List UInt8)
    (hc : types.any (fun t => t.1 == c) = true) (hk : 1 ≤ k) (hk2 : k < 2 ^ 31) (hfx : e.fx = Fixes.all)
    (hl : st.len = e.n) (h : Rest e st.pos (76 :: c :: (decimal k ++ 69 :: rest))) :
    run (F + 3) .exprPrimary e st = .ok 0 { st with pos := st.pos + (2 + (decimal k).length + 1) } := by
  show bExprPrimary (run (F + 2)) e st = _
  have hne : (76 :: c :: (decimal k ++ 69 :: rest)).length ≠ 0 := by simp
  let st1 : St := { st with pos := st.pos + 1 }
  let st2 : St := { st1 with type := st1.type + 1 }
  let st3 : St := { st2 with level := st2.level + 1 }
  have hdc : debugConsume 76 e st = .ok true st1 := debugConsume_eq 76 hl h
  have hi1 : incType e st1 = .ok () st2 := rfl
  have hi2 : incLevel e st2 = .ok () st3 := rfl
  have h3 : Rest e st3.pos (c :: (decimal k ++ 69 :: rest)) := by simpa using h.drop 1 (by simp)
  have hc95 : (c == 95) = false := by
    have : ¬ c = 95 := by
      intro h95; subst h95
      revert hc; decide
    simpa using this
  let st4 : St := { st3 with pos := st3.pos + 1 }
  have hty : run (F + 2) .type e st3 = .ok 0 st4 := type_builtin F c _ hc hl h3
  have h4 : Rest e st4.pos (decimal k ++ 69 :: rest) := by simpa using h3.drop 1 (by simp)
  let st5 : St := { st4 with pos := st4.pos + (decimal k).length }
  have hnum : number e st4 = .ok (k : Int) st5 := number_eq k 69 rest hl h4 hk hk2 rfl
  have h5 : Rest e st5.pos (69 :: rest) := by simpa using h4.drop (decimal k).length (by simp)
  have hdc2 := debugConsume_eq (st := st5) 69 hl h5
  have hcur5 : curr e st5 = .ok 69 st5 := by
    have := curr_eq (st := st5) hl h5
    simpa using this
  have hgf : getFixes e st5 = .ok Fixes.all st5 := by simp [getFixes, hfx]
  have hge : getEnv e st5 = .ok e st5 := rfl
  -- F10k: the literal's digits are followed by 'E', which is not a lowercase hex digit
  have hhex : hexSkip (e.n + 1) e st5 = .ok () st5 := by
    unfold hexSkip
    simp only [bind_def, hcur5, show isLowHex (69 : UInt8) = false from rfl, Bool.false_eq_true, ↓reduceIte, pure_def]
  unfold bExprPrimary
  simp only [bind_def, eof_eq hl h, hne, decide_false, Bool.false_eq_true, ↓reduceIte, hdc, Bool.not_true, hi1, hi2,
    curr_eq (st := st3) hl h3, peek_eq (st := st3) 1 hl h3, List.getD_cons_zero, hc95, Bool.false_and, hty, hnum, hcur5,
    hgf, hge, hhex, Fixes.all,
    show ((69 : UInt8) == 95) = false from rfl, hdc2, decLevel, decType, modifySt, pure_def]
  simp [st5, st4, st3, st2, st1]
  omega


theorem findUnary_ad {e : Env} {st : St} (p : Nat) (r : List UInt8) (h : Rest e p (97 :: 100 :: r)) :
    findUnary p (unaryOpsFx Fixes.all) e st = .ok (some 2) st := by
  have h0 : rdAt p e st = .ok 97 st := by
    have := rdAt_eq (st := st) p 0 h (by simp)
    simpa using this
  have h1 : rdAt (p + 1) e st = .ok 100 st := by
    have := rdAt_eq (st := st) p 1 h (by simp)
    simpa using this
  simp [unaryOpsFx, Fixes.all, unaryOps, findUnary, matchAt, bind_def, h0, h1, pure_def]

/-- `dd_expression` on `ad L_Z <source-name> <builtin-type>* E` (address of a function / global) -/
theorem expression_addr {e : Env} {st : St} (F : Nat) (hF : 2 ≤ F) (id params rest : List UInt8) (hfx : e.fx = Fixes.all)
    (hl : st.len = e.n) (h : Rest e st.pos (97 :: 100 :: 76 :: 95 :: 90 :: (srcName id ++ params ++ 69 :: rest)))
    (hid : IdSkipOk id) (hb : ∀ c ∈ params, types.any (fun t => t.1 == c) = true) (htm : st.templates ≠ 0) :
    run (F + params.length + 5) .expression e st =
      .ok 0 { st with pos := st.pos + (2 + (3 + (srcName id).length + params.length + 1)) } := by
  show bExpression (run (F + params.length + 4)) e st = _
  have hne : (97 :: 100 :: 76 :: 95 :: 90 :: (srcName id ++ params ++ 69 :: rest)).length ≠ 0 := by simp
  let st1 : St := { st with pos := st.pos + 2 }
  have hcons : consumeN 2 e st = .ok 97 st1 := by
    have := consumeN_eq (st := st) 2 hl h (by simp)
    simpa using this
  have h1 : Rest e st1.pos (76 :: 95 :: 90 :: (srcName id ++ params ++ 69 :: rest)) := by simpa using h.drop 2 (by simp)
  have hne1 : (76 :: 95 :: 90 :: (srcName id ++ params ++ 69 :: rest)).length ≠ 0 := by simp
  have hprim := exprPrimary_ref (st := st1) F hF id params rest hfx hl h1 hid hb htm
  -- the inner expression: a primary
  have hinner : run (F + params.length + 4) .expression e st1 =
      .ok 0 { st1 with pos := st1.pos + (3 + (srcName id).length + params.length + 1) } := by
    show bExpression (run (F + params.length + 3)) e st1 = _
    unfold bExpression
    simp only [bind_def, peek_eq (st := st1) 0 hl h1, peek_eq (st := st1) 1 hl h1, getSt, eof_eq (st := st1) hl h1, hne1,
      decide_false, Bool.false_eq_true, ↓reduceIte, List.getD_cons_zero, List.getD_cons_succ,
      show ((76 : UInt8) == 103 && (95 : UInt8) == 115) = false from rfl, pure_def]
    unfold bExprA
    simp only [bind_def, beq_self_eq_true, ↓reduceIte, hprim, pure_def]
  unfold bExpression
  simp only [bind_def, peek_eq (st := st) 0 hl h, peek_eq (st := st) 1 hl h, getSt, eof_eq hl h, hne,
    decide_false, Bool.false_eq_true, ↓reduceIte, List.getD_cons_zero, List.getD_cons_succ,
    show ((97 : UInt8) == 103 && (100 : UInt8) == 115) = false from rfl, pure_def]
  have hgf : getFixes e st = .ok Fixes.all st := by simp [getFixes, hfx]
  unfold bExprA
  simp only [bind_def, show ((97 : UInt8) == 76) = false from rfl, Bool.false_eq_true, ↓reduceIte, hgf,
    findUnary_ad st.pos _ h, hcons, hinner, pure_def]
  simp [st1, Nat.add_assoc]


/-! ## template arguments -/

/-- a template argument covered by the round-trip theorem -/
inductive TArg
  | ty (c : UInt8)                                   -- builtin type
  | lit (c : UInt8) (k : Nat)                        -- integer literal `L <type> <k> E`
  | ref (id : List UInt8)                            -- reference to a global: `L_Z <name> E`
  | addr (id : List UInt8) (params : List UInt8)     -- address of a function / global: `X ad L_Z <name> <types> E E`

def TArg.bytes : TArg → List UInt8
  | .ty c => [c]
  | .lit c k => 76 :: c :: (decimal k ++ [69])
  | .ref id => 76 :: 95 :: 90 :: (srcName id ++ [69])
  | .addr id ps => 88 :: 97 :: 100 :: 76 :: 95 :: 90 :: (srcName id ++ ps ++ [69, 69])

def TArg.Ok : TArg → Prop
  | .ty c => types.any (fun t => t.1 == c) = true
  | .lit c k => types.any (fun t => t.1 == c) = true ∧ 1 ≤ k ∧ k < 2 ^ 31
  | .ref id => IdSkipOk id
  | .addr id ps => IdSkipOk id ∧ ∀ c ∈ ps, types.any (fun t => t.1 == c) = true

/-- fuel (call depth) that one argument needs -/
def TArg.need : TArg → Nat
  | .addr _ ps => ps.length + 8
  | _ => 8

/-- `dd_template_arg` on an argument of the theorem's shape -/
theorem templateArg_eq {e : Env} {st : St} (a : TArg) (ha : a.Ok) (F : Nat) (hF : a.need ≤ F) (rest : List UInt8)
    (hfx : e.fx = Fixes.all) (hl : st.len = e.n) (h : Rest e st.pos (a.bytes ++ rest)) (htm : st.templates ≠ 0) :
    run (F + 1) .templateArg e st = .ok 0 { st with pos := st.pos + a.bytes.length } := by
  show bTemplateArg (run F) e st = _
  cases a with
  | ty c =>
    have hc : types.any (fun t => t.1 == c) = true := ha
    obtain ⟨_, _, _, _, _, _, _, _, _, _, _, _, _, _, _, _, _, _, _⟩ := builtin_facts c hc
    have h : Rest e st.pos (c :: rest) := h
    have hne : (c :: rest).length ≠ 0 := by simp
    have hX : (c == 88) = false := by
      have : ¬ c = 88 := by intro hh; subst hh; revert hc; decide
      simpa using this
    have hL : (c == 76) = false := by
      have : ¬ c = 76 := by intro hh; subst hh; revert hc; decide
      simpa using this
    have hJ : (c == 74) = false := by
      have : ¬ c = 74 := by intro hh; subst hh; revert hc; decide
      simpa using this
    have hty : run F .type e st = .ok 0 { st with pos := st.pos + 1 } := by
      have hF8 : 8 ≤ F := hF
      have : F = (F - 2) + 2 := by omega
      rw [this]
      exact type_builtin _ c rest hc hl h
    unfold bTemplateArg
    simp only [bind_def, curr_eq hl h, eof_eq hl h, hne, decide_false, Bool.false_eq_true, ↓reduceIte,
      List.getD_cons_zero, hX, hL, hJ, hty, Int.lt_irrefl, pure_def]
    rfl
  | lit c k =>
    obtain ⟨hc, hk1, hk2⟩ : types.any (fun t => t.1 == c) = true ∧ 1 ≤ k ∧ k < 2 ^ 31 := ha
    have h : Rest e st.pos (76 :: c :: (decimal k ++ 69 :: rest)) := by
      simpa [TArg.bytes, List.append_assoc] using h
    have hne : (76 :: c :: (decimal k ++ 69 :: rest)).length ≠ 0 := by simp
    have hp : run F .exprPrimary e st = .ok 0 { st with pos := st.pos + (2 + (decimal k).length + 1) } := by
      have hF8 : 8 ≤ F := hF
      have : F = (F - 3) + 3 := by omega
      rw [this]
      exact exprPrimary_lit _ c k rest hc hk1 hk2 hfx hl h
    unfold bTemplateArg
    simp only [bind_def, curr_eq hl h, eof_eq hl h, hne, decide_false, Bool.false_eq_true, ↓reduceIte,
      List.getD_cons_zero, show ((76 : UInt8) == 88) = false from rfl, beq_self_eq_true, hp, Int.lt_irrefl, pure_def]
    simp [TArg.bytes]
    omega
  | ref id =>
    have hid : IdSkipOk id := ha
    have h : Rest e st.pos (76 :: 95 :: 90 :: (srcName id ++ [] ++ 69 :: rest)) := by
      simpa [TArg.bytes, List.append_assoc] using h
    have hne : (76 :: 95 :: 90 :: (srcName id ++ [] ++ 69 :: rest)).length ≠ 0 := by simp
    have hp : run F .exprPrimary e st = .ok 0 { st with pos := st.pos + (3 + (srcName id).length + ([] : List UInt8).length + 1) } := by
      have hF8 : 8 ≤ F := hF
      have : F = (F - 3) + ([] : List UInt8).length + 3 := by simp; omega
      rw [this]
      exact exprPrimary_ref _ (by omega) id [] rest hfx hl h hid (by simp) htm
    unfold bTemplateArg
    simp only [bind_def, curr_eq hl h, eof_eq hl h, hne, decide_false, Bool.false_eq_true, ↓reduceIte,
      List.getD_cons_zero, show ((76 : UInt8) == 88) = false from rfl, beq_self_eq_true, hp, Int.lt_irrefl, pure_def]
    simp [TArg.bytes]
    omega
  | addr id ps =>
    obtain ⟨hid, hps⟩ : IdSkipOk id ∧ ∀ c ∈ ps, types.any (fun t => t.1 == c) = true := ha
    have h : Rest e st.pos (88 :: 97 :: 100 :: 76 :: 95 :: 90 :: (srcName id ++ ps ++ 69 :: 69 :: rest)) := by
      simpa [TArg.bytes, List.append_assoc] using h
    have hne : (88 :: 97 :: 100 :: 76 :: 95 :: 90 :: (srcName id ++ ps ++ 69 :: 69 :: rest)).length ≠ 0 := by simp
    let st1 : St := { st with pos := st.pos + 1 }
    let st2 : St := { st1 with level := st1.level + 1 }
    have hc1 : consume e st = .ok 88 st1 := by
      have := consume_eq (st := st) hl h (by simp)
      simpa using this
    have hi : incLevel e st1 = .ok () st2 := rfl
    have h2 : Rest e st2.pos (97 :: 100 :: 76 :: 95 :: 90 :: (srcName id ++ ps ++ 69 :: 69 :: rest)) := by
      simpa using h.drop 1 (by simp)
    have hF8 : ps.length + 8 ≤ F := hF
    have hex : run F .expression e st2 = .ok 0 { st2 with pos := st2.pos + (2 + (3 + (srcName id).length + ps.length + 1)) } := by
      have : F = (F - ps.length - 5) + ps.length + 5 := by omega
      rw [this]
      exact expression_addr _ (by omega) id ps (69 :: rest) hfx hl h2 hid hps htm
    let st3 : St := { st2 with pos := st2.pos + (2 + (3 + (srcName id).length + ps.length + 1)) }
    have hex' : run F .expression e st2 = .ok 0 st3 := hex
    have h3 : Rest e st3.pos (69 :: rest) := by
      have := h2.drop (2 + (3 + (srcName id).length + ps.length + 1)) (by simp; omega)
      have hd : List.drop (2 + (3 + (srcName id).length + ps.length + 1))
          (97 :: 100 :: 76 :: 95 :: 90 :: (srcName id ++ ps ++ 69 :: 69 :: rest)) = 69 :: rest := by
        have : 2 + (3 + (srcName id).length + ps.length + 1) = ((srcName id).length + ps.length + 1) + 5 := by omega
        rw [this, List.drop_succ_cons, List.drop_succ_cons, List.drop_succ_cons, List.drop_succ_cons, List.drop_succ_cons]
        have : (srcName id).length + ps.length + 1 = (srcName id ++ ps ++ [69]).length := by simp; omega
        rw [this]
        have hh : srcName id ++ ps ++ 69 :: 69 :: rest = (srcName id ++ ps ++ [69]) ++ 69 :: rest := by simp
        rw [hh, List.drop_left]
      rw [hd] at this
      exact this
    have hdc := debugConsume_eq (st := st3) 69 hl h3
    unfold bTemplateArg
    simp only [bind_def, curr_eq hl h, eof_eq hl h, hne, decide_false, Bool.false_eq_true, ↓reduceIte,
      List.getD_cons_zero, beq_self_eq_true, hc1, hi, hex', hdc, Bool.not_true, decLevel, modifySt, pure_def]
    simp [TArg.bytes, st3, st2, st1]
    omega


def argsBytes (args : List TArg) : List UInt8 := args.flatMap TArg.bytes

/-- fuel that a list of arguments needs -/
def argsNeed : List TArg → Nat
  | [] => 0
  | a :: l => max a.need (argsNeed l)

theorem argsNeed_ge {a : TArg} {l : List TArg} (h : a ∈ l) : a.need ≤ argsNeed l := by
  induction l with
  | nil => cases h
  | cons b l ih =>
    simp only [argsNeed]
    rcases List.mem_cons.1 h with rfl | h
    · exact Nat.le_max_left _ _
    · exact Nat.le_trans (ih h) (Nat.le_max_right _ _)

theorem TArg.bytes_head (a : TArg) (ha : a.Ok) (rest : List UInt8) : (a.bytes ++ rest).getD 0 0 ≠ 69 := by
  cases a with
  | ty c =>
    have hc : types.any (fun t => t.1 == c) = true := ha
    simp only [TArg.bytes, List.cons_append, List.nil_append, List.getD_cons_zero, ne_eq]
    intro hh; subst hh; revert hc; decide
  | lit c k => simp [TArg.bytes]
  | ref id => simp [TArg.bytes]
  | addr id ps => simp [TArg.bytes]

/-- the argument loop of dd_template_args -/
theorem argLoop_eq {e : Env} (hfx : e.fx = Fixes.all) (rest : List UInt8) : ∀ (args : List TArg) (F : Nat) (st : St),
    (∀ a ∈ args, a.Ok) → argsNeed args ≤ F → st.len = e.n → st.templates ≠ 0 →
    Rest e st.pos (argsBytes args ++ 69 :: rest) →
    run (F + args.length + 1) .argLoop e st = .ok 0 { st with pos := st.pos + (argsBytes args).length } := by
  intro args
  induction args with
  | nil =>
    intro F st _ _ hl _ h
    show bArgLoop (run (F + 0)) e st = _
    have h : Rest e st.pos (69 :: rest) := by simpa [argsBytes] using h
    unfold bArgLoop
    simp [bind_def, curr_eq hl h, pure_def, argsBytes]
  | cons a args ih =>
    intro F st hok hF hl htm h
    have ha := hok a List.mem_cons_self
    have hFa : a.need ≤ F := Nat.le_trans (Nat.le_max_left _ _) hF
    have hFl : argsNeed args ≤ F := Nat.le_trans (Nat.le_max_right _ _) hF
    have hb : argsBytes (a :: args) ++ 69 :: rest = a.bytes ++ (argsBytes args ++ 69 :: rest) := by
      simp [argsBytes, List.append_assoc]
    rw [hb] at h
    have hhead : ((a.bytes ++ (argsBytes args ++ 69 :: rest)).getD 0 0 == 69) = false := by
      simpa using TArg.bytes_head a ha _
    have hfl : F + (a :: args).length + 1 = (F + args.length + 1) + 1 := by simp; omega
    rw [hfl]
    show bArgLoop (run (F + args.length + 1)) e st = _
    have harg : run (F + args.length + 1) .templateArg e st = .ok 0 { st with pos := st.pos + a.bytes.length } :=
      templateArg_eq a ha (F + args.length) (by omega) _ hfx hl h htm
    have h' : Rest e (st.pos + a.bytes.length) (argsBytes args ++ 69 :: rest) := by
      simpa using h.drop a.bytes.length (by simp)
    have hrec := ih F { st with pos := st.pos + a.bytes.length } (fun x hx => hok x (List.mem_cons_of_mem _ hx)) hFl hl htm h'
    unfold bArgLoop
    simp only [bind_def, curr_eq hl h, hhead, Bool.false_eq_true, ↓reduceIte, harg, Int.lt_irrefl, hrec]
    simp [argsBytes, Nat.add_assoc]

/-- `I <arg>+ E` -/
def targsBytes (args : List TArg) : List UInt8 := 73 :: (argsBytes args ++ [69])

/-- `dd_template_args` -/
theorem templateArgs_eq {e : Env} {st : St} (hfx : e.fx = Fixes.all) (args : List TArg) (F : Nat) (rest : List UInt8)
    (hok : ∀ a ∈ args, a.Ok) (hF : argsNeed args ≤ F) (hl : st.len = e.n) (htm : st.templates = 0)
    (h : Rest e st.pos (targsBytes args ++ rest)) :
    run (F + args.length + 2) .templateArgs e st = .ok 0 { st with pos := st.pos + (targsBytes args).length } := by
  show bTemplateArgs (run (F + args.length + 1)) e st = _
  have h : Rest e st.pos (73 :: (argsBytes args ++ 69 :: rest)) := by simpa [targsBytes, List.append_assoc] using h
  have hne : (73 :: (argsBytes args ++ 69 :: rest)).length ≠ 0 := by simp
  let st1 : St := { st with pos := st.pos + 1 }
  let st2 : St := { st1 with templates := st1.templates + 1 }
  let st3 : St := { st2 with level := st2.level + 1 }
  have hdc : debugConsume 73 e st = .ok true st1 := debugConsume_eq 73 hl h
  have hm : (modifySt fun s => { s with templates := s.templates + 1 }) e st1 = .ok () st2 := rfl
  have hi : incLevel e st2 = .ok () st3 := rfl
  have h3 : Rest e st3.pos (argsBytes args ++ 69 :: rest) := by simpa using h.drop 1 (by simp)
  have htm3 : st3.templates ≠ 0 := by show st.templates + 1 ≠ 0; rw [htm]; decide
  have hloop := argLoop_eq hfx rest args F st3 hok hF hl htm3 h3
  let st4 : St := { st3 with pos := st3.pos + (argsBytes args).length }
  have hloop' : run (F + args.length + 1) .argLoop e st3 = .ok 0 st4 := hloop
  have h4 : Rest e st4.pos (69 :: rest) := by simpa using h3.drop (argsBytes args).length (by simp)
  let st5 : St := { st4 with pos := st4.pos + 1 }
  let st6 : St := { st5 with level := st5.level - 1 }
  let st7 : St := { st6 with templates := st6.templates - 1 }
  have hdc2 : debugConsume 69 e st4 = .ok true st5 := debugConsume_eq (st := st4) 69 hl h4
  have hd : decLevel e st5 = .ok () st6 := rfl
  have hm2 : (modifySt fun s => { s with templates := s.templates - 1 }) e st6 = .ok () st7 := rfl
  unfold bTemplateArgs
  simp only [bind_def, eof_eq hl h, hne, decide_false, Bool.false_eq_true, ↓reduceIte, hdc, Bool.not_true, hm, hi, hloop',
    Int.lt_irrefl, hdc2, hd, hm2, pure_def]
  simp [st7, st6, st5, st4, st3, st2, st1, targsBytes, htm]
  omega


/-! ## name components with template arguments -/

/-- a component of a nested name: an identifier, optionally followed by template arguments -/
structure Comp where
  id : List UInt8
  args : List TArg

def Comp.tail (c : Comp) : List UInt8 := if c.args = [] then [] else targsBytes c.args
def Comp.bytes (c : Comp) : List UInt8 := srcName c.id ++ c.tail
def Comp.Ok (c : Comp) : Prop := IdOk c.id ∧ ∀ a ∈ c.args, a.Ok
def Comp.need (c : Comp) : Nat := argsNeed c.args + c.args.length + 3
def Comp.steps (c : Comp) : Nat := if c.args = [] then 1 else 2

/-- the effect of one component on the parser state: the identifier is appended, the arguments are skipped -/
def appComp (st : St) (c : Comp) : St :=
  { appName st c.id with pos := (appName st c.id).pos + c.tail.length }

theorem TArg.no_dollar (a : TArg) (ha : a.Ok) : (36 : UInt8) ∉ a.bytes := by
  cases a with
  | ty c =>
    have hc : types.any (fun t => t.1 == c) = true := ha
    simp only [TArg.bytes, List.mem_singleton]
    intro hh; rw [← hh] at hc; revert hc; decide
  | lit c k =>
    obtain ⟨hc, _, _⟩ : types.any (fun t => t.1 == c) = true ∧ 1 ≤ k ∧ k < 2 ^ 31 := ha
    simp only [TArg.bytes, List.mem_cons, List.mem_append, List.mem_singleton, not_or]
    refine ⟨by decide, ?_, decimal_no_dollar k, by decide⟩
    intro hh; rw [← hh] at hc; revert hc; decide
  | ref id =>
    have hid : IdSkipOk id := ha
    simp only [TArg.bytes, srcName, List.mem_cons, List.mem_append, List.mem_singleton, not_or]
    exact ⟨by decide, by decide, by decide, ⟨decimal_no_dollar _, hid.nodollar⟩, by decide⟩
  | addr id ps =>
    obtain ⟨hid, hps⟩ : IdSkipOk id ∧ ∀ c ∈ ps, types.any (fun t => t.1 == c) = true := ha
    simp only [TArg.bytes, srcName, List.mem_cons, List.mem_append, List.not_mem_nil, or_false, not_or]
    exact ⟨by decide, by decide, by decide, by decide, by decide, by decide,
      ⟨⟨decimal_no_dollar _, hid.nodollar⟩, builtin_no_dollar hps⟩, by decide, by decide⟩

theorem Comp.tail_no_dollar (c : Comp) (hc : c.Ok) : (36 : UInt8) ∉ c.tail := by
  unfold Comp.tail
  split
  · simp
  · simp only [targsBytes, argsBytes, List.mem_cons, List.mem_append, List.mem_flatMap, List.mem_singleton, not_or,
      not_exists, not_and]
    exact ⟨by decide, fun a ha => TArg.no_dollar a (hc.2 a ha), by decide⟩

theorem Comp.bytes_no_dollar (c : Comp) (hc : c.Ok) : (36 : UInt8) ∉ c.bytes := by
  unfold Comp.bytes
  simp only [List.mem_append, not_or]
  exact ⟨srcName_no_dollar hc.1, c.tail_no_dollar hc⟩

theorem Comp.bytes_head (c : Comp) (rest : List UInt8) : isDigit ((c.bytes ++ rest).getD 0 0) = true := by
  have : (c.bytes ++ rest).getD 0 0 = (srcName c.id).getD 0 0 := by
    unfold Comp.bytes
    rw [List.append_assoc]
    exact getD0_append_left _ _ (srcName_ne_nil _)
  rw [this]
  exact srcName_head_digit _

theorem appComp_facts (st : St) (c : Comp) : (appComp st c).len = st.len ∧ (appComp st c).type = st.type ∧
    (appComp st c).templates = st.templates ∧ (appComp st c).level = st.level ∧
    (appComp st c).pos = st.pos + c.bytes.length ∧ (appComp st c).out = some (sepOut st ++ c.id) ∧
    (appComp st c).firstName = false := by
  refine ⟨rfl, rfl, rfl, rfl, ?_, rfl, rfl⟩
  simp [appComp, appName, Comp.bytes, Nat.add_assoc]

/-- one component: source name, then (if present) the template arguments -/
theorem nestedLoop_comp {e : Env} {st : St} (hfx : e.fx = Fixes.all) (c : Comp) (hc : c.Ok) (N : Nat) (hN : c.need ≤ N)
    (rest : List UInt8) (hdollar : (36 : UInt8) ∉ rest) (hB : rest.getD 0 0 ≠ 66) (hl : st.len = e.n) (ht : st.type = 0)
    (htm : st.templates = 0) (h : Rest e st.pos (c.bytes ++ rest)) :
    run (N + c.steps) .nestedLoop e st = run N .nestedLoop e (appComp st c) := by
  have hN3 : 3 ≤ N := by unfold Comp.need at hN; omega
  have hd := srcName_head_digit c.id
  have hbytes : c.bytes ++ rest = srcName c.id ++ (c.tail ++ rest) := by simp [Comp.bytes, List.append_assoc]
  rw [hbytes] at h
  have hne : (srcName c.id ++ (c.tail ++ rest)).length ≠ 0 := by
    have := srcName_ne_nil c.id
    simp only [List.length_append, ne_eq, Nat.add_eq_zero_iff, List.length_eq_zero_iff, not_and]
    intro h'
    exact absurd h' this
  have hc0 : (srcName c.id ++ (c.tail ++ rest)).getD 0 0 = (srcName c.id).getD 0 0 :=
    getD0_append_left _ _ (srcName_ne_nil _)
  have hdollar' : (36 : UInt8) ∉ c.tail ++ rest := by
    simp only [List.mem_append, not_or]
    exact ⟨c.tail_no_dollar hc, hdollar⟩
  have hB' : (c.tail ++ rest).getD 0 0 ≠ 66 := by
    unfold Comp.tail
    split
    · simpa using hB
    · simp [targsBytes]
  -- first loop iteration: the source name
  have step1 : ∀ M, 1 ≤ M → run (M + 1) .nestedLoop e st = run M .nestedLoop e (appName st c.id) := by
    intro M hM
    show bNestedLoop (run M) e st = _
    have hun : run M .unqualifiedName e st = .ok 0 (appName st c.id) := by
      have : M = (M - 1) + 1 := by omega
      rw [this]
      show bUnqualifiedName (run (M - 1)) e st = _
      exact unqualifiedName_src _ c.id _ hfx hl h hc.1 hdollar' hB' ht htm
    unfold bNestedLoop
    simp only [bind_def, curr_eq hl h, peek_eq 1 hl h, eof_eq hl h, hne, decide_false, Bool.false_eq_true, ↓reduceIte,
      hc0, digit_beq hd 69 rfl, digit_beq hd 68 rfl, digit_beq hd 67 rfl, Bool.false_and, Bool.or_self, hd,
      Bool.or_true, hun, pure_def]
    simp
  by_cases hargs : c.args = []
  · have hs : c.steps = 1 := by simp [Comp.steps, hargs]
    have htl : c.tail = [] := by simp [Comp.tail, hargs]
    rw [hs, step1 N (by omega)]
    congr 1
    simp [appComp, htl]
  · have hs : c.steps = 2 := by simp [Comp.steps, hargs]
    have htl : c.tail = targsBytes c.args := by simp [Comp.tail, hargs]
    rw [hs, show N + 2 = (N + 1) + 1 from rfl, step1 (N + 1) (by omega)]
    -- second iteration: the template arguments
    let s1 := appName st c.id
    have hl1 : s1.len = e.n := hl
    have h1 : Rest e s1.pos (73 :: (argsBytes c.args ++ 69 :: rest)) := by
      have := h.drop (srcName c.id).length (by simp)
      simpa [s1, appName, htl, targsBytes, List.append_assoc] using this
    have hne1 : (73 :: (argsBytes c.args ++ 69 :: rest)).length ≠ 0 := by simp
    have hta : run N .templateArgs e s1 = .ok 0 { s1 with pos := s1.pos + (targsBytes c.args).length } := by
      have hNe : N = (N - c.args.length - 2) + c.args.length + 2 := by unfold Comp.need at hN; omega
      rw [hNe]
      refine templateArgs_eq hfx c.args _ rest hc.2 (by unfold Comp.need at hN; omega) hl1 htm ?_
      simpa [targsBytes, List.append_assoc] using h1
    show bNestedLoop (run N) e s1 = _
    unfold bNestedLoop
    simp only [bind_def, curr_eq (st := s1) hl1 h1, peek_eq (st := s1) 1 hl1 h1, eof_eq (st := s1) hl1 h1, hne1,
      decide_false, Bool.false_eq_true, ↓reduceIte, List.getD_cons_zero,
      show ((73 : UInt8) == 69) = false from rfl, show ((73 : UInt8) == 68) = false from rfl,
      show ((73 : UInt8) == 67) = false from rfl, show ((73 : UInt8) == 85) = false from rfl,
      show isLower (73 : UInt8) = false from rfl, show isDigit (73 : UInt8) = false from rfl,
      show ((73 : UInt8) == 84) = false from rfl, Bool.false_and, Bool.or_self, beq_self_eq_true, hta, pure_def]
    simp [appComp, htl, s1]


def compsBytes (comps : List Comp) : List UInt8 := comps.flatMap Comp.bytes
def compsSteps (comps : List Comp) : Nat := (comps.map Comp.steps).sum

theorem compsBytes_no_dollar {comps : List Comp} (h : ∀ c ∈ comps, c.Ok) : (36 : UInt8) ∉ compsBytes comps := by
  simp only [compsBytes, List.mem_flatMap, not_exists, not_and]
  intro c hc
  exact c.bytes_no_dollar (h c hc)

/-- unrolling the loop of dd_nested_name over components with template arguments -/
theorem nestedLoop_unrollT {e : Env} (hfx : e.fx = Fixes.all) (F : Nat) (rest : List UInt8)
    (hdollar : (36 : UInt8) ∉ rest) (hB : rest.getD 0 0 ≠ 66) :
    ∀ (comps : List Comp) (st : St), (∀ c ∈ comps, c.Ok ∧ c.need ≤ F) → st.len = e.n → st.type = 0 → st.templates = 0 →
    Rest e st.pos (compsBytes comps ++ rest) →
    run (F + compsSteps comps) .nestedLoop e st = run F .nestedLoop e (comps.foldl appComp st) := by
  intro comps
  induction comps with
  | nil => intro st _ _ _ _ _; rfl
  | cons c comps ih =>
    intro st hok hl ht htm h
    obtain ⟨hc, hcn⟩ := hok c List.mem_cons_self
    have hok' : ∀ x ∈ comps, x.Ok ∧ x.need ≤ F := fun x hx => hok x (List.mem_cons_of_mem _ hx)
    have hrest : compsBytes (c :: comps) ++ rest = c.bytes ++ (compsBytes comps ++ rest) := by
      simp [compsBytes, List.append_assoc]
    rw [hrest] at h
    have hdollar' : (36 : UInt8) ∉ compsBytes comps ++ rest := by
      simp only [List.mem_append, not_or]
      exact ⟨compsBytes_no_dollar (fun x hx => (hok' x hx).1), hdollar⟩
    have hB' : (compsBytes comps ++ rest).getD 0 0 ≠ 66 := by
      cases comps with
      | nil => simpa [compsBytes] using hB
      | cons c2 comps2 =>
        have hd2 := Comp.bytes_head c2 (compsBytes comps2 ++ rest)
        have : compsBytes (c2 :: comps2) ++ rest = c2.bytes ++ (compsBytes comps2 ++ rest) := by
          simp [compsBytes, List.append_assoc]
        rw [this]
        intro h66
        rw [h66] at hd2
        cases hd2
    have hsteps : F + compsSteps (c :: comps) = (F + compsSteps comps) + c.steps := by
      simp [compsSteps]; omega
    rw [hsteps, nestedLoop_comp hfx c hc (F + compsSteps comps) (by omega) _ hdollar' hB' hl ht htm h]
    obtain ⟨a1, a2, a3, _, a5, _, _⟩ := appComp_facts st c
    have h' : Rest e (appComp st c).pos (compsBytes comps ++ rest) := by
      rw [a5]
      simpa using h.drop c.bytes.length (by simp)
    have := ih (appComp st c) hok' (by rw [a1]; exact hl) (by rw [a2]; exact ht) (by rw [a3]; exact htm) h'
    simpa using this

theorem foldl_appComp_facts : ∀ (comps : List Comp) (st : St),
    (comps.foldl appComp st).len = st.len ∧ (comps.foldl appComp st).type = st.type ∧
    (comps.foldl appComp st).templates = st.templates ∧ (comps.foldl appComp st).level = st.level ∧
    (comps.foldl appComp st).pos = st.pos + (compsBytes comps).length := by
  intro comps
  induction comps with
  | nil => intro st; simp [compsBytes]
  | cons c comps ih =>
    intro st
    obtain ⟨h1, h2, h3, h4, h7⟩ := ih (appComp st c)
    obtain ⟨a1, a2, a3, a4, a5, _, _⟩ := appComp_facts st c
    simp only [List.foldl_cons]
    refine ⟨by rw [h1, a1], by rw [h2, a2], by rw [h3, a3], by rw [h4, a4], ?_⟩
    rw [h7, a5]
    simp [compsBytes, Nat.add_assoc]

/-- the output buffer after a sequence of components: the identifiers joined by `::` -/
theorem foldl_appComp_out : ∀ (comps : List Comp) (st : St) (o : List UInt8), st.out = some o → st.firstName = false →
    (comps.foldl appComp st).out = some (o ++ comps.flatMap (fun c => [58, 58] ++ c.id)) ∧
    (comps.foldl appComp st).firstName = false := by
  intro comps
  induction comps with
  | nil => intro st o ho hf; simp [ho, hf]
  | cons c comps ih =>
    intro st o ho hf
    have h1 : (appComp st c).out = some (o ++ [58, 58] ++ c.id) := by simp [appComp, appName, sepOut, ho, hf]
    obtain ⟨i1, i2⟩ := ih (appComp st c) _ h1 rfl
    simp only [List.foldl_cons, List.flatMap_cons]
    exact ⟨by rw [i1]; simp [List.append_assoc], i2⟩

theorem foldl_appComp_out0 (c : Comp) (comps : List Comp) (st : St) (ho : st.out = none) (hf : st.firstName = true) :
    ((c :: comps).foldl appComp st).out = some (joinNames ((c :: comps).map Comp.id)) ∧
    ((c :: comps).foldl appComp st).firstName = false := by
  have h1 : (appComp st c).out = some c.id := by simp [appComp, appName, sepOut, ho, hf]
  obtain ⟨i1, i2⟩ := foldl_appComp_out comps (appComp st c) c.id h1 rfl
  refine ⟨?_, i2⟩
  simp only [List.foldl_cons, i1, joinNames, List.map_cons]
  congr 1
  have := intercalate_flatMap [58, 58] (comps.map Comp.id) c.id
  rw [← this, List.flatMap_map]


theorem argsBytes_length_ge (args : List TArg) (hok : ∀ a ∈ args, a.Ok) :
    args.length ≤ (argsBytes args).length ∧ argsNeed args ≤ (argsBytes args).length + 8 := by
  induction args with
  | nil => simp [argsBytes, argsNeed]
  | cons a args ih =>
    obtain ⟨i1, i2⟩ := ih (fun x hx => hok x (List.mem_cons_of_mem _ hx))
    have hb : (argsBytes (a :: args)).length = a.bytes.length + (argsBytes args).length := by simp [argsBytes]
    have ha : 1 ≤ a.bytes.length ∧ a.need ≤ a.bytes.length + 8 := by
      cases a with
      | ty c => simp [TArg.bytes, TArg.need]
      | lit c k => simp [TArg.bytes, TArg.need]
      | ref id => simp [TArg.bytes, TArg.need]
      | addr id ps => simp [TArg.bytes, TArg.need]; omega
    rw [hb]
    simp only [List.length_cons, argsNeed]
    refine ⟨by omega, ?_⟩
    rw [Nat.max_le]
    omega

theorem Comp.need_le (c : Comp) (hc : c.Ok) : c.need ≤ 2 * c.bytes.length + 11 ∧ c.steps ≤ 2 * c.bytes.length := by
  obtain ⟨h1, h2⟩ := argsBytes_length_ge c.args hc.2
  have hs : 1 ≤ (srcName c.id).length := by
    have := srcName_ne_nil c.id
    cases h : srcName c.id with
    | nil => exact absurd h this
    | cons a t => simp
  unfold Comp.need Comp.steps Comp.bytes Comp.tail
  split
  · rename_i hnil
    simp [hnil, argsNeed]
    omega
  · simp only [targsBytes, List.length_append, List.length_cons, List.length_nil]
    omega

theorem compsSteps_le (comps : List Comp) : compsSteps comps ≤ 2 * comps.length := by
  induction comps with
  | nil => simp [compsSteps]
  | cons c comps ih =>
    have : c.steps ≤ 2 := by unfold Comp.steps; split <;> omega
    simp only [compsSteps, List.map_cons, List.sum_cons, List.length_cons] at ih ⊢
    omega

theorem compsBytes_length_ge (comps : List Comp) : comps.length ≤ (compsBytes comps).length := by
  induction comps with
  | nil => simp [compsBytes]
  | cons c comps ih =>
    have : 1 ≤ c.bytes.length := by
      have := srcName_ne_nil c.id
      unfold Comp.bytes
      cases h : srcName c.id with
      | nil => exact absurd h this
      | cons a t => simp
    simp only [compsBytes, List.flatMap_cons, List.length_append, List.length_cons] at ih ⊢
    omega

theorem Comp.need_le_bytes (comps : List Comp) (c : Comp) (hc : c ∈ comps) (hok : ∀ x ∈ comps, x.Ok) :
    c.need ≤ 2 * (compsBytes comps).length + 11 := by
  have h1 := (c.need_le (hok c hc)).1
  have h2 : c.bytes.length ≤ (compsBytes comps).length := by
    induction comps with
    | nil => cases hc
    | cons d comps ih =>
      simp only [compsBytes, List.flatMap_cons, List.length_append]
      rcases List.mem_cons.1 hc with rfl | hc'
      · omega
      · have := ih hc' (fun x hx => hok x (List.mem_cons_of_mem _ hx))
        simp only [compsBytes] at this
        omega
  omega

/-- `dd_nested_name` on `N <source-name>* <leaf> E` where the loop's behaviour on `<leaf> E` is given:
    it turns the state `s2` (after the source names) into `s3` positioned at the `E` -/
theorem nestedName_genT {e : Env} {st : St} (hfx : e.fx = Fixes.all) (F : Nat) (comps : List Comp)
    (leaf rest : List UInt8) (hok : ∀ c ∈ comps, c.Ok ∧ c.need ≤ F) (hdollar : (36 : UInt8) ∉ leaf ++ 69 :: rest)
    (hB : (leaf ++ 69 :: rest).getD 0 0 ≠ 66) (hl : st.len = e.n)
    (ht : st.type = 0) (htm : st.templates = 0)
    (h : Rest e st.pos (78 :: (compsBytes comps ++ (leaf ++ 69 :: rest))))
    (s3 : St)
    (hleaf : run F .nestedLoop e (comps.foldl appComp { st with pos := st.pos + 1, level := st.level + 1 }) = .ok 0 s3)
    (h3l : s3.len = st.len) (h3p : s3.pos = st.pos + 1 + (compsBytes comps).length + leaf.length) :
    run (F + compsSteps comps + 1) .nestedName e st = .ok 0 { s3 with pos := s3.pos + 1, level := s3.level - 1 } := by
  show bNestedName (run (F + compsSteps comps)) e st = _
  let st1 : St := { st with pos := st.pos + 1 }
  let st2 : St := { st1 with level := st1.level + 1 }
  have hne : (78 :: (compsBytes comps ++ (leaf ++ 69 :: rest))).length ≠ 0 := by simp
  have hdc : debugConsume 78 e st = .ok true st1 := debugConsume_eq 78 hl h
  have hinc : incLevel e st1 = .ok () st2 := rfl
  have h2 : Rest e st2.pos (compsBytes comps ++ (leaf ++ 69 :: rest)) := by
    have := h.drop 1 (by simp)
    simpa using this
  have hloop : run (F + compsSteps comps) .nestedLoop e st2 = .ok 0 s3 := by
    rw [nestedLoop_unrollT hfx F (leaf ++ 69 :: rest) hdollar hB comps st2 hok hl ht htm h2]
    exact hleaf
  have h3 : Rest e s3.pos (69 :: rest) := by
    have := h2.drop ((compsBytes comps).length + leaf.length) (by simp)
    rw [h3p]
    have hd : List.drop ((compsBytes comps).length + leaf.length) (compsBytes comps ++ (leaf ++ 69 :: rest)) =
        69 :: rest := by
      rw [← List.append_assoc, List.drop_append_of_le_length (by simp)]
      simp
    rw [hd] at this
    have hp : st.pos + 1 + (compsBytes comps).length + leaf.length =
        st2.pos + ((compsBytes comps).length + leaf.length) := by
      show _ = st.pos + 1 + _
      omega
    rw [hp]
    exact this
  have hdc2 := debugConsume_eq (st := s3) 69 (by rw [h3l]; exact hl) h3
  unfold bNestedName
  simp only [bind_def, eof_eq hl h, hne, decide_false, Bool.false_eq_true, ↓reduceIte, hdc, Bool.not_true, hinc, hloop,
    hdc2, decLevel, modifySt, pure_def]


/-- `_ZN <source-name>+ <leaf> E <builtin-type>+` -/
def mangleLeafT (comps : List Comp) (leaf params : List UInt8) : List UInt8 :=
  [95, 90, 78] ++ compsBytes comps ++ leaf ++ [69] ++ params

/-- the state of `demangle_simple` after `_ZN` -/
def stNT (l : List UInt8) : St := { pos := 3, len := l.toArray.size, level := 2 }

/-- **demangle ∘ mangle, generic part**: if the loop of dd_nested_name turns the state after the source
    names into `s3` (positioned at the closing `E`, output `X`), the whole name demangles to `X`. -/
theorem demangle_nested_genT (comps : List Comp) (leaf params : List UInt8) (hok : ∀ c ∈ comps, c.Ok)
    (hb : ∀ c ∈ params, types.any (fun t => t.1 == c) = true)
    (hdl : (36 : UInt8) ∉ leaf) (hB : (leaf ++ 69 :: params).getD 0 0 ≠ 66) (hll : leaf.length ≤ 2)
    (s3 : St) (X : List UInt8)
    (hleaf : ∀ F, 3 ≤ F → run F .nestedLoop { s := (mangleLeafT comps leaf params).toArray, fx := Fixes.all }
        (comps.foldl appComp (stNT (mangleLeafT comps leaf params))) = .ok 0 s3)
    (h3l : s3.len = (mangleLeafT comps leaf params).toArray.size)
    (h3p : s3.pos = 3 + (compsBytes comps).length + leaf.length) (h3v : s3.level = 2) (h3o : s3.out = some X) :
    demangle Fixes.all (mangleLeafT comps leaf params).toArray = .str X := by
  let l := mangleLeafT comps leaf params
  let e : Env := { s := l.toArray, fx := Fixes.all }
  let st0 : St := { pos := 0, len := l.toArray.size }
  have hlen := compsSteps_le comps
  have hneed := fun c hc => Comp.need_le_bytes comps c hc hok
  have hblen := compsBytes_length_ge comps
  have hsz : l.toArray.size = 3 + (compsBytes comps).length + leaf.length + 1 + params.length := by
    simp [l, mangleLeafT]
    omega
  have hR : Rest e 0 l := Rest.of_list l Fixes.all
  have hl0 : st0.len = e.n := rfl
  have hlcons : l = 95 :: 90 :: 78 :: (compsBytes comps ++ (leaf ++ 69 :: params)) := by
    simp [l, mangleLeafT, List.append_assoc]
  have hne : l.length ≠ 0 := by rw [hlcons]; simp
  let G := 8 * (l.toArray.size + 2) - 1
  have hG : G + 1 = fuelFor l.toArray := by simp only [G, fuelFor]; omega
  let st1 : St := { st0 with pos := 2 }
  let st2 : St := { st1 with level := st1.level + 1 }
  have hcons : consumeN 2 e st0 = .ok 95 st1 := by
    have := consumeN_eq (st := st0) 2 hl0 hR (by rw [hlcons]; simp)
    rw [this]
    congr 1
  have hinc : incLevel e st1 = .ok () st2 := rfl
  have h2 : Rest e st2.pos (78 :: (compsBytes comps ++ (leaf ++ 69 :: params))) := by
    have := hR.drop 2 (by rw [hlcons]; simp)
    rw [hlcons] at this
    simpa using this
  have hl2 : st2.len = e.n := rfl
  have hdollar : (36 : UInt8) ∉ leaf ++ 69 :: params := by
    simp only [List.mem_append, List.mem_cons, not_or]
    exact ⟨hdl, by decide, builtin_no_dollar hb⟩
  -- dd_nested_name
  let F := G - compsSteps comps - 2
  have hF : 3 ≤ F := by simp only [F, G]; omega
  have hokF : ∀ c ∈ comps, c.Ok ∧ c.need ≤ F := fun c hc => ⟨hok c hc, by have := hneed c hc; simp only [F, G]; omega⟩
  have hnn := nestedName_genT (st := st2) rfl F comps leaf params hokF hdollar hB hl2 rfl rfl h2 s3
    (hleaf F hF) h3l (by rw [h3p])
  have hFe : F + compsSteps comps + 1 = G - 1 := by simp only [F, G]; omega
  rw [hFe] at hnn
  let st3 : St := { s3 with pos := s3.pos + 1, level := s3.level - 1 }
  have hname : run G .name e st2 = .ok 0 st3 := by
    have : G = (G - 1) + 1 := by simp only [G]; omega
    rw [this]
    show bName (run (G - 1)) e st2 = _
    have hne2 : (78 :: (compsBytes comps ++ (leaf ++ 69 :: params))).length ≠ 0 := by simp
    unfold bName
    simp only [bind_def, curr_eq (st := st2) hl2 h2, eof_eq (st := st2) hl2 h2, hne2, decide_false, Bool.false_eq_true,
      ↓reduceIte, List.getD_cons_zero, beq_self_eq_true, hnn, pure_def]
    rfl
  have hl3 : st3.len = e.n := h3l
  have h3 : Rest e st3.pos params := by
    have ha : Rest e (st2.pos + 1) (compsBytes comps ++ (leaf ++ 69 :: params)) := by
      simpa using h2.drop 1 (by simp)
    have hb' : Rest e (st2.pos + 1 + (compsBytes comps).length) (leaf ++ 69 :: params) := by
      simpa using ha.drop (compsBytes comps).length (by simp)
    have hc : Rest e (st2.pos + 1 + (compsBytes comps).length + leaf.length) (69 :: params) := by
      simpa using hb'.drop leaf.length (by simp)
    have hd : Rest e (st2.pos + 1 + (compsBytes comps).length + leaf.length + 1) params := by
      simpa using hc.drop 1 (by simp)
    have hp : st3.pos = st2.pos + 1 + (compsBytes comps).length + leaf.length + 1 := by
      show s3.pos + 1 = 2 + 1 + _ + _ + 1
      rw [h3p]
    rw [hp]
    exact hd
  have henc := encLoop_builtins (e := e) (G - params.length - 1) (by simp only [G]; omega) params st3 hb hl3 h3
  have hGe2 : G - params.length - 1 + params.length + 1 = G := by simp only [G]; omega
  rw [hGe2] at henc
  let st4 : St := { st3 with pos := st3.pos + params.length }
  have henc' : run G .encLoop e st3 = .ok 0 st4 := henc
  have h4 : Rest e st4.pos [] := by
    have := h3.drop params.length (by simp)
    simpa using this
  have hl4 : st4.len = e.n := hl3
  have hcur4 : curr e st4 = .ok 0 st4 := by
    have := curr_eq (st := st4) hl4 h4
    simpa using this
  have hrun : run (fuelFor l.toArray) .encoding e st0 = .ok 0 { st4 with level := st4.level - 1 } := by
    rw [← hG]
    show bEncoding (run G) e st0 = _
    unfold bEncoding
    simp only [bind_def, eof_eq hl0 hR, hne, decide_false, Bool.false_eq_true, ↓reduceIte, getSt, hcons, hinc,
      curr_eq (st := st2) hl2 h2, List.getD_cons_zero, show ((78 : UInt8) == 84 || (78 : UInt8) == 71) = false from rfl,
      hname, Int.lt_irrefl, henc', hcur4, show ((0 : UInt8) == 46) = false from rfl, show ((0 : UInt8) == 64) = false from rfl,
      decLevel, modifySt, pure_def, beq_self_eq_true, show (st0.pos == 0) = true from rfl]
  have hpre : globalPrefix.isPrefixOf l = false := by
    rw [hlcons]
    simp [globalPrefix, List.isPrefixOf]
  have hg0 : l.toArray.getD 0 0 = 95 := by rw [hlcons]; simp
  have hg1 : l.toArray.getD 1 0 = 90 := by rw [hlcons]; simp
  have hpos : st4.pos = st4.len := by
    have := h4.1
    simp only [List.length_nil, Nat.add_zero] at this
    rw [hl4]
    exact this
  have hlev : st4.level - 1 = 0 := by
    show s3.level - 1 - 1 = 0
    rw [h3v]; rfl
  show demangle Fixes.all l.toArray = .str X
  unfold demangle demangleWith
  simp only [List.toList_toArray, hpre, Bool.false_eq_true, ↓reduceIte]
  have hrun' : run (fuelFor l.toArray) .encoding { s := l.toArray, fx := Fixes.all } { pos := 0, len := l.toArray.size } =
      .ok 0 { st4 with level := st4.level - 1 } := hrun
  have hout : st4.out = some X := h3o
  unfold demangleCore
  simp only [hg0, hg1, beq_self_eq_true, Bool.and_self, Bool.not_true, Bool.false_eq_true, ↓reduceIte, hrun',
    Int.lt_irrefl, decide_false, hlev, bne_self_eq_false, Bool.or_self, hpos, ge_iff_le, Nat.le_refl, hout]



/-- a C++ declaration whose scopes (and innermost class / function) may be templates:
    `scope₁<args>::…::name<args>` plus what `leaf` says, taking builtin-type parameters -/
structure DeclT where
  scope : List Comp
  name : Comp
  leaf : Leaf
  params : List UInt8

def DeclT.path (d : DeclT) : List Comp := d.scope ++ [d.name]

/-- `_ZN (<source-name> [I <template-arg>+ E])+ [C<k> | D<k> | <operator-code>] E <builtin-type>*` -/
def mangleT (d : DeclT) : List UInt8 := mangleLeafT d.path d.leaf.bytes d.params

/-- the qualified name without parameter and template-argument lists -/
def qualifiedNameT (d : DeclT) : List UInt8 := joinNames (d.path.map Comp.id) ++ leafSuffix d.name.id d.leaf

structure DeclT.Ok (d : DeclT) : Prop where
  ids : ∀ c ∈ d.path, c.Ok
  nocolon : (58 : UInt8) ∉ d.name.id
  leaf : d.leaf.Ok
  params : ∀ c ∈ d.params, types.any (fun t => t.1 == c) = true

theorem demangle_mangleT (d : DeclT) (h : d.Ok) :
    demangle Fixes.all (mangleT d).toArray = .str (qualifiedNameT d) := by
  obtain ⟨scope, name, leaf, params⟩ := d
  obtain ⟨hids, hnc, hleaf, hpar⟩ := h
  simp only [DeclT.path] at hids
  simp only at hnc hleaf hpar
  -- the state after the source names
  have hpath : ∃ p0 pt, scope ++ [name] = p0 :: pt := by
    cases scope with
    | nil => exact ⟨name, [], rfl⟩
    | cons a t => exact ⟨a, t ++ [name], rfl⟩
  obtain ⟨p0, pt, hp⟩ := hpath
  let l := mangleLeafT (scope ++ [name]) leaf.bytes params
  let S := (scope ++ [name]).foldl appComp (stNT l)
  obtain ⟨f1, f2, f3, f4, f7⟩ := foldl_appComp_facts (scope ++ [name]) (stNT l)
  have hSout : S.out = some (joinNames ((scope ++ [name]).map Comp.id)) ∧ S.firstName = false := by
    have := foldl_appComp_out0 p0 pt (stNT l) rfl rfl
    rw [← hp] at this
    exact this
  have hSlen : S.len = l.toArray.size := f1
  have hStype : S.type = 0 := f2
  have hSlevel : S.level = 2 := f4
  have hSpos : S.pos = 3 + (compsBytes (scope ++ [name])).length := f7
  have hsz : l.toArray.size = 3 + (compsBytes (scope ++ [name])).length + leaf.bytes.length + 1 + params.length := by
    simp [l, mangleLeafT]
    omega
  have hlcons : l = 95 :: 90 :: 78 :: (compsBytes (scope ++ [name]) ++ (leaf.bytes ++ 69 :: params)) := by
    simp [l, mangleLeafT, List.append_assoc]
  have hR : Rest { s := l.toArray, fx := Fixes.all } 0 l := Rest.of_list l Fixes.all
  have hRS : Rest { s := l.toArray, fx := Fixes.all } S.pos (leaf.bytes ++ 69 :: params) := by
    have := hR.drop (3 + (compsBytes (scope ++ [name])).length) (by rw [hlcons]; simp; omega)
    rw [hSpos]
    have hd : List.drop (3 + (compsBytes (scope ++ [name])).length) l = leaf.bytes ++ 69 :: params := by
      rw [hlcons, Nat.add_comm, List.drop_succ_cons, List.drop_succ_cons, List.drop_succ_cons,
        List.drop_append_of_le_length (by simp)]
      simp
    rw [hd] at this
    simpa using this
  have hSl : S.len = ({ s := l.toArray, fx := Fixes.all } : Env).n := hSlen
  have hlast : lastComponent (joinNames ((scope ++ [name]).map Comp.id)) = name.id := by
    rw [List.map_append]
    exact lastComponent_join (scope.map Comp.id) name.id hnc
  show demangle Fixes.all l.toArray = _
  cases leaf with
  | fn =>
    refine demangle_nested_genT (scope ++ [name]) [] params hids hpar (by simp) (by simp) (by simp) S _ ?_ hSlen
      (by rw [hSpos]; simp) hSlevel (by rw [hSout.1]; simp [qualifiedNameT, leafSuffix, DeclT.path])
    intro F hF
    have : F = (F - 1) + 1 := by omega
    rw [this]
    exact nestedLoop_end (F - 1) params hSl hRS
  | ctor k =>
    have hk : isDigit k = true := hleaf
    refine demangle_nested_genT (scope ++ [name]) [67, k] params hids hpar ?_ (by simp) (by simp)
      { S with pos := S.pos + 2, out := some (joinNames ((scope ++ [name]).map Comp.id) ++ (if (67 : UInt8) = 67 then [58, 58] else [58, 58, 126]) ++ lastComponent (joinNames ((scope ++ [name]).map Comp.id))) } _ ?_ hSlen
      (by show S.pos + 2 = _; rw [hSpos]; simp) hSlevel ?_
    · simp only [List.mem_cons, List.not_mem_nil, or_false, not_or]
      refine ⟨by decide, ?_⟩
      intro h36
      rw [← h36] at hk
      cases hk
    · intro F hF
      have : F = (F - 2) + 2 := by omega
      rw [this]
      exact nestedLoop_ctor rfl (F - 2) 67 k (Or.inl rfl) hk params hSl hStype _ hSout.1 hRS
    · simp only [↓reduceIte, qualifiedNameT, leafSuffix, DeclT.path, hlast]
      simp [List.append_assoc]
  | dtor k =>
    have hk : isDigit k = true := hleaf
    refine demangle_nested_genT (scope ++ [name]) [68, k] params hids hpar ?_ (by simp) (by simp)
      { S with pos := S.pos + 2, out := some (joinNames ((scope ++ [name]).map Comp.id) ++ (if (68 : UInt8) = 67 then [58, 58] else [58, 58, 126]) ++ lastComponent (joinNames ((scope ++ [name]).map Comp.id))) } _ ?_ hSlen
      (by show S.pos + 2 = _; rw [hSpos]; simp) hSlevel ?_
    · simp only [List.mem_cons, List.not_mem_nil, or_false, not_or]
      refine ⟨by decide, ?_⟩
      intro h36
      rw [← h36] at hk
      cases hk
    · intro F hF
      have : F = (F - 2) + 2 := by omega
      rw [this]
      exact nestedLoop_ctor rfl (F - 2) 68 k (Or.inr rfl) hk params hSl hStype _ hSout.1 hRS
    · simp only [qualifiedNameT, leafSuffix, DeclT.path, hlast]
      simp [List.append_assoc]
  | op o =>
    obtain ⟨ho, hcv, hli⟩ := hleaf
    obtain ⟨g1, g2, g3, g4, g5, g6, g7, g8, g9⟩ := ops_facts_all o ho
    have hsep : sepOut S = joinNames ((scope ++ [name]).map Comp.id) ++ [58, 58] := by simp [sepOut, hSout.1, hSout.2]
    refine demangle_nested_genT (scope ++ [name]) [o.1, o.2.1] params hids hpar ?_ ?_ (by simp)
      { S with pos := S.pos + 2, out := some (sepOut S ++ bs%"operator" ++ o.2.2), firstName := false } _ ?_ hSlen
      (by show S.pos + 2 = _; rw [hSpos]; simp) hSlevel ?_
    · simp only [List.mem_cons, List.not_mem_nil, or_false, not_or]
      have g7' : ¬ o.1 = 36 := by simpa using g7
      have g8' : ¬ o.2.1 = 36 := by simpa using g8
      exact ⟨fun h => g7' h.symm, fun h => g8' h.symm⟩
    · simpa using g9
    · intro F hF
      have : F = (F - 3) + 3 := by omega
      rw [this]
      exact nestedLoop_op (F - 3) o ho hcv hli params hSl hStype hRS
    · simp only [hsep, qualifiedNameT, leafSuffix, DeclT.path]
      simp [List.append_assoc]


end Uft.Demangle
