import Uft.Model.DirGuard
/- helper lemmas for Props/C20 -/
namespace Uft.DirGuard

@[simp] theorem get_erase_eq : ∀ (es : Ents) (n : String), (es.erase n).get n = none
  | .nil, n => by simp [Ents.erase, Ents.get]
  | .cons m x r, n => by
    unfold Ents.erase
    split
    · exact get_erase_eq r n
    · rename_i h; simp [Ents.get, h, get_erase_eq r n]

theorem get_erase_ne : ∀ (es : Ents) {n x : String}, x ≠ n → (es.erase n).get x = es.get x
  | .nil, n, x, _ => by simp [Ents.erase, Ents.get]
  | .cons m y r, n, x, h => by
    unfold Ents.erase
    split
    · rename_i hm
      have : m ≠ x := by intro hx; exact h (hx.symm.trans hm)
      simp [Ents.get, this, get_erase_ne r h]
    · simp [Ents.get, get_erase_ne r h]

@[simp] theorem get_set_eq (es : Ents) (n : String) (v : Node) : (es.set n v).get n = some v := by
  simp [Ents.set, Ents.get]

theorem get_set_ne (es : Ents) {n x : String} (v : Node) (h : x ≠ n) :
    (es.set n v).get x = es.get x := by
  have : n ≠ x := fun hx => h hx.symm
  simp [Ents.set, Ents.get, this, get_erase_ne es h]

/-- With an empty fault list no call ever fails, and the list stays empty. -/
theorem tick_nofault (e : Env) (s : Sys) (h : e.faults = []) :
    (e.tick s).2 = false ∧ (e.tick s).1.faults = [] := by
  simp [Env.tick, h]


theorem tick_faults (e : Env) (s : Sys) : (e.tick s).1.faults = e.faults := by
  simp [Env.tick]

/- Without faults, remove_directory removes a directory completely and
   returns 0 (mutual induction over the tree). -/
mutual
theorem rmNode_nofault : ∀ (n : Node) (e : Env), e.faults = [] →
    (∀ es, n = .dir es → (rmNode e n).2.1 = none ∧ (rmNode e n).2.2 = true) ∧
    (rmNode e n).1.faults = []
  | .file d, e, h => by simp [rmNode, h]
  | .link t, e, h => by simp [rmNode, h]
  | .dir es, e, h => by
    obtain ⟨h1, h2, h3⟩ := rmEnts_nofault es e h
    have t := tick_nofault (rmEnts e es).1 .rmdir h3
    constructor
    · intro es' _
      simp [rmNode, h1, h2, t.1, Ents.isNil]
    · simp [rmNode, h1, t.1, Ents.isNil, tick_faults, h3]
theorem rmEnts_nofault : ∀ (es : Ents) (e : Env), e.faults = [] →
    (rmEnts e es).2.1 = .nil ∧ (rmEnts e es).2.2 = true ∧ (rmEnts e es).1.faults = []
  | .nil, e, h => by simp [rmEnts, h]
  | .cons name (.file d) rest, e, h => by
    have t := tick_nofault e .stat h
    have t2 := tick_nofault (e.tick .stat).1 .unlink t.2
    have := rmEnts_nofault rest ((e.tick .stat).1.tick .unlink).1 t2.2
    simp [rmEnts, t.1, t2.1, this]
  | .cons name (.link tg) rest, e, h => by
    have t := tick_nofault e .stat h
    have t2 := tick_nofault (e.tick .stat).1 .unlink t.2
    have := rmEnts_nofault rest ((e.tick .stat).1.tick .unlink).1 t2.2
    simp [rmEnts, t.1, t2.1, this]
  | .cons name (.dir es) rest, e, h => by
    have t := tick_nofault e .stat h
    obtain ⟨hn, hf⟩ := rmNode_nofault (.dir es) (e.tick .stat).1 t.2
    obtain ⟨hn1, hn2⟩ := hn es rfl
    have := rmEnts_nofault rest (rmNode (e.tick .stat).1 (.dir es)).1 hf
    simp only [rmEnts, t.1]
    rw [show (rmNode (e.tick .stat).1 (.dir es)) =
      ((rmNode (e.tick .stat).1 (.dir es)).1, (rmNode (e.tick .stat).1 (.dir es)).2.1,
       (rmNode (e.tick .stat).1 (.dir es)).2.2) from rfl]
    simp only [hn1, hn2]
    simpa using this
end

end Uft.DirGuard
