import Uft.Lemmas.Events
/- C17: the read events of the entry hook and the diff events of the exit hook, exactly
   (existence, uniqueness, pairing) — repaired save_trigger_read (finding F17e, `fixPair`) -/
set_option linter.unusedSimpArgs false
set_option linter.unusedVariables false
namespace Uft.Events
open Uft.Mcount

/-- the READ event the entry hook makes from the reading `v` of a source -/
def readEvOf (now midx : Nat) (src : ReadSrc) (v : List Nat) : Ev :=
  { id := src.idRead, time := now, idx := midx, dsize := src.dsize, data := v.map (· % u64) }

/-- the DIFF event the exit hook makes from the reading `vX` and the READ event `old` -/
def diffEvOf (now midx : Nat) (src : ReadSrc) (vX : List Nat) (old : Ev) : Ev :=
  { id := src.idDiff, time := now, idx := midx, dsize := src.dsize, data := zipSub vX old.data }

/-- the read events of an entry hook with room, oldest first: one per selected source whose reading
    succeeds, in table order -/
def specReads (now midx : Nat) (o : Obs) (mask : Nat) : List ReadSrc → List Ev
  | [] => []
  | s :: r =>
    (if mask &&& s.bit == 0 then [] else
      match o.reads s.bit with
      | none => []
      | some v => [readEvOf now midx s v]) ++ specReads now midx o mask r

/-- the diff events of the exit hook, oldest first: one per selected source that has a read event in
    `base` (the frame's events after the entry hook) and whose reading succeeds again -/
def specDiffs (now midx : Nat) (o : Obs) (mask : Nat) (base : List Ev) : List ReadSrc → List Ev
  | [] => []
  | s :: r =>
    (if mask &&& s.bit == 0 then [] else
      match base.find? (fun x => x.id == s.idRead) with
      | none => []
      | some old =>
        match o.reads s.bit with
        | none => []
        | some v => [diffEvOf now midx s v old]) ++ specDiffs now midx o mask base r

theorem mkReadEv_entry (f : EFrame) (now midx : Nat) (src : ReadSrc) (v : List Nat) :
    mkReadEv f now midx false src v = readEvOf now midx src v := by
  simp [mkReadEv, readEvOf]

theorem mkReadEv_exit (f : EFrame) (now midx : Nat) (src : ReadSrc) (v : List Nat) (old : Ev)
    (h : f.evs.find? (fun o => o.id == src.idRead) = some old) :
    mkReadEv f now midx true src v = diffEvOf now midx src v old := by
  simp [mkReadEv, diffEvOf, h]

theorem readNeed_cons_set (mask : Nat) (s : ReadSrc) (r : List ReadSrc) (h : (mask &&& s.bit == 0) = false) :
    readNeed mask (s :: r) = s.evsize + readNeed mask r := by
  simp [readNeed, h]

theorem readNeed_cons_clear (mask : Nat) (s : ReadSrc) (r : List ReadSrc) (h : (mask &&& s.bit == 0) = true) :
    readNeed mask (s :: r) = readNeed mask r := by
  simp [readNeed, h]

/-! ### the entry hook's loop, exactly -/

/-- with room for the events of all selected sources the loop stores exactly `specReads` -/
theorem saveReadL_entry_exact (pair : Bool) (off now midx : Nat) (o : Obs) (mask : Nat) (srcs : List ReadSrc) :
    ∀ f : EFrame, off + readNeed mask srcs ≤ f.eventIdx →
      (saveReadL pair off now midx false o mask srcs f).evs = (specReads now midx o mask srcs).reverse ++ f.evs ∧
      f.eventIdx ≤ (saveReadL pair off now midx false o mask srcs f).eventIdx + readNeed mask srcs ∧
      (saveReadL pair off now midx false o mask srcs f).eventIdx ≤ f.eventIdx := by
  induction srcs with
  | nil => intro f _; simp [saveReadL, specReads, readNeed]
  | cons s r ih =>
    intro f hroom
    simp only [saveReadL, specReads]
    by_cases h1 : (mask &&& s.bit == 0) = true
    · have : saveReadOne pair off now midx false o mask f s = f := by simp [saveReadOne, h1]
      rw [this]
      rw [readNeed_cons_clear mask s r h1] at hroom ⊢
      obtain ⟨a, b, c⟩ := ih f hroom
      exact ⟨by rw [a]; simp [h1], b, c⟩
    · have h1' : (mask &&& s.bit == 0) = false := by simpa using h1
      rw [readNeed_cons_set mask s r h1'] at hroom ⊢
      have h2 : ¬ f.eventIdx < s.evsize + off := by omega
      cases h3 : o.reads s.bit with
      | none =>
        have : saveReadOne pair off now midx false o mask f s = f := by
          simp only [saveReadOne, h1', h2, h3, Bool.false_eq_true, ↓reduceIte, Bool.and_false, Bool.false_and]
        rw [this]
        obtain ⟨a, b, c⟩ := ih f (by omega)
        exact ⟨by rw [a]; simp [h1', h3], by omega, c⟩
      | some v =>
        have he : (saveReadOne pair off now midx false o mask f s).evs = readEvOf now midx s v :: f.evs := by
          simp only [saveReadOne, h1', h2, h3, Bool.false_eq_true, ↓reduceIte, Bool.and_false, Bool.false_and, mkReadEv_entry]
        have hi : (saveReadOne pair off now midx false o mask f s).eventIdx = f.eventIdx - s.evsize := by
          simp only [saveReadOne, h1', h2, h3, Bool.false_eq_true, ↓reduceIte, Bool.and_false, Bool.false_and]
        obtain ⟨a, b, c⟩ := ih (saveReadOne pair off now midx false o mask f s) (by rw [hi]; omega)
        refine ⟨?_, ?_, ?_⟩
        · rw [a, he]; simp [h1', h3]
        · rw [hi] at b; omega
        · rw [hi] at c; omega

/-! ### the exit hook's loop (repaired), exactly -/

theorem find_append_pre (pre base : List Ev) (id : Nat) (h : ∀ e ∈ pre, e.id ≠ id) :
    (pre ++ base).find? (fun x => x.id == id) = base.find? (fun x => x.id == id) := by
  rw [List.find?_append, find_pre_none pre id h]
  simp

/-- the repaired loop of the exit hook stores exactly `specDiffs`: a source without a read event in
    `base` is skipped whatever the room; the others need room for their events -/
theorem saveReadL_exit_exact (off now midx : Nat) (o : Obs) (mask : Nat) (base : List Ev) (srcs : List ReadSrc) :
    (srcs.map (·.idRead)).Nodup → (∀ s ∈ srcs, ∀ s' ∈ srcs, s.idDiff ≠ s'.idRead) →
    ∀ (f : EFrame) (pre : List Ev), f.evs = pre ++ base → (∀ e ∈ pre, ∀ s ∈ srcs, e.id ≠ s.idRead) →
      (base ≠ [] → off + readNeed mask srcs ≤ f.eventIdx) →
      (saveReadL true off now midx true o mask srcs f).evs = (specDiffs now midx o mask base srcs).reverse ++ f.evs := by
  induction srcs with
  | nil => intro _ _ f pre _ _ _; simp [saveReadL, specDiffs]
  | cons s r ih =>
    intro hnd hdr f pre hf hpre hroom
    have hnd2 : s.idRead ∉ r.map (·.idRead) ∧ (r.map (·.idRead)).Nodup := by
      have := hnd
      simp only [List.map_cons] at this
      exact List.nodup_cons.mp this
    have hsr : ∀ s' ∈ r, s.idRead ≠ s'.idRead := by
      intro s' hs' heq
      exact hnd2.1 (List.mem_map.mpr ⟨s', hs', heq.symm⟩)
    have hdr' : ∀ a ∈ r, ∀ b ∈ r, a.idDiff ≠ b.idRead :=
      fun a ha b hb => hdr a (by simp [ha]) b (by simp [hb])
    have hpre' : ∀ e ∈ pre, ∀ s' ∈ r, e.id ≠ s'.idRead := fun e he s' hs' => hpre e he s' (by simp [hs'])
    have hfind : f.evs.find? (fun x => x.id == s.idRead) = base.find? (fun x => x.id == s.idRead) := by
      rw [hf]; exact find_append_pre pre base s.idRead (fun e he => hpre e he s (by simp))
    simp only [saveReadL, specDiffs]
    by_cases h1 : (mask &&& s.bit == 0) = true
    · have : saveReadOne true off now midx true o mask f s = f := by simp [saveReadOne, h1]
      rw [this]
      have hroom' : base ≠ [] → off + readNeed mask r ≤ f.eventIdx := by
        intro hb; have := hroom hb; rw [readNeed_cons_clear mask s r h1] at this; exact this
      rw [ih hnd2.2 hdr' f pre hf hpre' hroom']
      simp [h1]
    · have h1' : (mask &&& s.bit == 0) = false := by simpa using h1
      have hroom' : base ≠ [] → off + s.evsize + readNeed mask r ≤ f.eventIdx := by
        intro hb; have := hroom hb; rw [readNeed_cons_set mask s r h1'] at this; omega
      cases hb : base.find? (fun x => x.id == s.idRead) with
      | none =>
        have hh : hasRead f s = false := by simp [hasRead, hfind, hb]
        have : saveReadOne true off now midx true o mask f s = f := by
          simp only [saveReadOne, h1', hh, Bool.false_eq_true, ↓reduceIte, Bool.and_true, Bool.not_false, Bool.true_and]
        rw [this, ih hnd2.2 hdr' f pre hf hpre' (fun hb' => by have := hroom' hb'; omega)]
        simp [h1', hb]
      | some old =>
        have hne : base ≠ [] := by
          intro h0; rw [h0] at hb; simp at hb
        have hh : hasRead f s = true := by simp [hasRead, hfind, hb]
        have h2 : ¬ f.eventIdx < s.evsize + off := by have := hroom' hne; omega
        cases h3 : o.reads s.bit with
        | none =>
          have : saveReadOne true off now midx true o mask f s = f := by
            simp only [saveReadOne, h1', hh, h2, h3, Bool.false_eq_true, ↓reduceIte, Bool.and_true, Bool.not_true,
              Bool.true_and, Bool.and_false]
          rw [this, ih hnd2.2 hdr' f pre hf hpre' (fun hb' => by have := hroom' hb'; omega)]
          simp [h1', hb, h3]
        | some v =>
          have hfe : f.evs.find? (fun o => o.id == s.idRead) = some old := by rw [hfind, hb]
          have he : (saveReadOne true off now midx true o mask f s).evs = diffEvOf now midx s v old :: f.evs := by
            simp only [saveReadOne, h1', hh, h2, h3, Bool.false_eq_true, ↓reduceIte, Bool.and_true, Bool.not_true,
              Bool.true_and, Bool.and_false, mkReadEv_exit f now midx s v old hfe]
          have hi : (saveReadOne true off now midx true o mask f s).eventIdx = f.eventIdx - s.evsize := by
            simp only [saveReadOne, h1', hh, h2, h3, Bool.false_eq_true, ↓reduceIte, Bool.and_true, Bool.not_true,
              Bool.true_and, Bool.and_false]
          rw [ih hnd2.2 hdr' (saveReadOne true off now midx true o mask f s) (diffEvOf now midx s v old :: pre)
            (by rw [he, hf]; simp)
            (by
              intro e he' s' hs'
              simp only [List.mem_cons] at he'
              rcases he' with rfl | he'
              · exact hdr s (by simp) s' (by simp [hs'])
              · exact hpre' e he' s' hs')
            (fun hb' => by rw [hi]; have := hroom' hb'; omega)]
          rw [he]
          simp [h1', hb, h3]

/-! ### membership and uniqueness in the specified lists -/

theorem mem_specReads (now midx : Nat) (o : Obs) (mask : Nat) (srcs : List ReadSrc) (e : Ev) :
    e ∈ specReads now midx o mask srcs ↔
      ∃ s ∈ srcs, (mask &&& s.bit == 0) = false ∧ ∃ v, o.reads s.bit = some v ∧ e = readEvOf now midx s v := by
  induction srcs with
  | nil => simp [specReads]
  | cons s r ih =>
    simp only [specReads, List.mem_append, ih, List.mem_cons]
    constructor
    · rintro (h | ⟨s', hs', h⟩)
      · by_cases h1 : (mask &&& s.bit == 0) = true
        · simp [h1] at h
        · have h1' : (mask &&& s.bit == 0) = false := by simpa using h1
          cases h3 : o.reads s.bit with
          | none => simp [h1', h3] at h
          | some v =>
            simp [h1', h3] at h
            exact ⟨s, Or.inl rfl, h1', v, h3, h⟩
      · exact ⟨s', Or.inr hs', h⟩
    · rintro ⟨s', hs' | hs', h1, v, hv, he⟩
      · subst hs'
        left
        simp [h1, hv, he]
      · exact Or.inr ⟨s', hs', h1, v, hv, he⟩

theorem mem_specDiffs (now midx : Nat) (o : Obs) (mask : Nat) (base : List Ev) (srcs : List ReadSrc) (e : Ev) :
    e ∈ specDiffs now midx o mask base srcs ↔
      ∃ s ∈ srcs, (mask &&& s.bit == 0) = false ∧ ∃ old, base.find? (fun x => x.id == s.idRead) = some old ∧
        ∃ v, o.reads s.bit = some v ∧ e = diffEvOf now midx s v old := by
  induction srcs with
  | nil => simp [specDiffs]
  | cons s r ih =>
    simp only [specDiffs, List.mem_append, ih, List.mem_cons]
    constructor
    · rintro (h | ⟨s', hs', h⟩)
      · by_cases h1 : (mask &&& s.bit == 0) = true
        · simp [h1] at h
        · have h1' : (mask &&& s.bit == 0) = false := by simpa using h1
          cases hb : base.find? (fun x => x.id == s.idRead) with
          | none => simp [h1', hb] at h
          | some old =>
            cases h3 : o.reads s.bit with
            | none => simp [h1', hb, h3] at h
            | some v =>
              simp [h1', hb, h3] at h
              exact ⟨s, Or.inl rfl, h1', old, hb, v, h3, h⟩
      · exact ⟨s', Or.inr hs', h⟩
    · rintro ⟨s', hs' | hs', h1, old, hb, v, hv, he⟩
      · subst hs'
        left
        simp [h1, hb, hv, he]
      · exact Or.inr ⟨s', hs', h1, old, hb, v, hv, he⟩

theorem specReads_ids_sublist (now midx : Nat) (o : Obs) (mask : Nat) (srcs : List ReadSrc) :
    ((specReads now midx o mask srcs).map (·.id)).Sublist (srcs.map (·.idRead)) := by
  induction srcs with
  | nil => simp [specReads]
  | cons s r ih =>
    simp only [specReads, List.map_append, List.map_cons]
    by_cases h1 : (mask &&& s.bit == 0) = true
    · simp only [h1, ↓reduceIte, List.map_nil, List.nil_append]
      exact List.Sublist.cons _ ih
    · have h1' : (mask &&& s.bit == 0) = false := by simpa using h1
      cases h3 : o.reads s.bit with
      | none =>
        simp only [h1', Bool.false_eq_true, ↓reduceIte, List.map_nil, List.nil_append]
        exact List.Sublist.cons _ ih
      | some v =>
        simp only [h1', Bool.false_eq_true, ↓reduceIte, List.map_cons, List.map_nil, List.cons_append, List.nil_append,
          readEvOf]
        exact List.Sublist.cons₂ _ ih

theorem specDiffs_ids_sublist (now midx : Nat) (o : Obs) (mask : Nat) (base : List Ev) (srcs : List ReadSrc) :
    ((specDiffs now midx o mask base srcs).map (·.id)).Sublist (srcs.map (·.idDiff)) := by
  induction srcs with
  | nil => simp [specDiffs]
  | cons s r ih =>
    simp only [specDiffs, List.map_append, List.map_cons]
    by_cases h1 : (mask &&& s.bit == 0) = true
    · simp only [h1, ↓reduceIte, List.map_nil, List.nil_append]
      exact List.Sublist.cons _ ih
    · have h1' : (mask &&& s.bit == 0) = false := by simpa using h1
      cases hb : base.find? (fun x => x.id == s.idRead) with
      | none =>
        simp only [h1', Bool.false_eq_true, ↓reduceIte, List.map_nil, List.nil_append]
        exact List.Sublist.cons _ ih
      | some old =>
        cases h3 : o.reads s.bit with
        | none =>
          simp only [h1', Bool.false_eq_true, ↓reduceIte, List.map_nil, List.nil_append]
          exact List.Sublist.cons _ ih
        | some v =>
          simp only [h1', Bool.false_eq_true, ↓reduceIte, List.map_cons, List.map_nil, List.cons_append,
            List.nil_append, diffEvOf]
          exact List.Sublist.cons₂ _ ih

theorem specReads_mask0 (now midx : Nat) (o : Obs) (srcs : List ReadSrc) : specReads now midx o 0 srcs = [] := by
  induction srcs with
  | nil => rfl
  | cons s r ih => simp [specReads, ih]

theorem specDiffs_mask0 (now midx : Nat) (o : Obs) (base : List Ev) (srcs : List ReadSrc) :
    specDiffs now midx o 0 base srcs = [] := by
  induction srcs with
  | nil => rfl
  | cons s r ih => simp [specDiffs, ih]

theorem specDiffs_base_nil (now midx : Nat) (o : Obs) (mask : Nat) (srcs : List ReadSrc) :
    specDiffs now midx o mask [] srcs = [] := by
  induction srcs with
  | nil => rfl
  | cons s r ih => simp [specDiffs, ih]

/-! ### the frame after the entry hook and after the exit hook (repaired F17c and F17e) -/

/-- where the argument data of a call of `f` ends in its slice: 4 + size when -A applies -/
def argOff (cfg : ECfg) (k : Kind) (f : Nat) : Nat :=
  match argPayload cfg k f with
  | some n => 4 + n
  | none => 0

/-- the frame's slice has room for the read events and the diff events of all selected sources
    above the argument data (the test of the repaired save_trigger_read at entry) -/
def ReadRoom (cfg : ECfg) (k : Kind) (f : Nat) : Prop :=
  2 * readNeed (cfg.read f) readEvents + argOff cfg k f ≤ ARGBUF_SIZE

instance (cfg : ECfg) (k : Kind) (f : Nat) : Decidable (ReadRoom cfg k f) := by unfold ReadRoom; infer_instance

/-- the frame save_trigger_read sees at entry -/
def argFrame (cfg : ECfg) (k : Kind) (f t0 d : Nat) : EFrame :=
  if (k == .pg) then saveArgument cfg (freshFrame cfg k f t0 d) else freshFrame cfg k f t0 d

theorem argFrame_facts (cfg : ECfg) (hfa : cfg.fixArg = true) (k : Kind) (f t0 d probe : Nat) :
    (argFrame cfg k f t0 d).evs = [] ∧ (argFrame cfg k f t0 d).eventIdx = ARGBUF_SIZE ∧
    (argFrame cfg k f t0 d).b = plainFrame k f t0 d ∧
    argDataOff cfg (argFrame cfg k f t0 d) probe = argOff cfg k f := by
  unfold argFrame argOff argPayload argDataOff
  cases k
  · have haddr : (freshFrame cfg Kind.pg f t0 d).b.addr = f := rfl
    simp only [beq_self_eq_true, ↓reduceIte, hfa, saveArgument, haddr]
    cases hs : cfg.argSize f with
    | none => simp [freshFrame]
    | some n => by_cases h : n ≤ ARG_MAX <;> simp [h, freshFrame]
  · simp [hfa, freshFrame, show (Kind.cyg == Kind.pg) = false from rfl]

theorem entryFrame_eq (cfg : ECfg) (k : Kind) (f t0 d : Nat) (o : Obs) :
    entryFrame cfg k f t0 d o =
      (if cfg.read f != 0 then setReadFl (saveRead cfg (argFrame cfg k f t0 d) (cfg.read f) (d + 1) false o)
       else argFrame cfg k f t0 d) := by
  unfold entryFrame entryArea argFrame
  have : (freshFrame cfg k f t0 d).b.addr = f := rfl
  simp only [this, ↓reduceIte]

/-- the event area after the entry hook: the specified read events if there is room for them and
    their diff events, nothing otherwise -/
theorem entryFrame_exact (cfg : ECfg) (hfa : cfg.fixArg = true) (hfp : cfg.fixPair = true) (k : Kind) (f t0 d : Nat)
    (o : Obs) :
    (entryFrame cfg k f t0 d o).evs =
      (if ReadRoom cfg k f then (specReads t0 (d + 1) o (cfg.read f) readEvents).reverse else []) ∧
    (ReadRoom cfg k f → ARGBUF_SIZE ≤ (entryFrame cfg k f t0 d o).eventIdx + readNeed (cfg.read f) readEvents) ∧
    (entryFrame cfg k f t0 d o).readFl = (cfg.read f != 0) ∧
    (∀ probe, argDataOff cfg (entryFrame cfg k f t0 d o) probe = argOff cfg k f) := by
  obtain ⟨a1, a2, a3, _⟩ := argFrame_facts cfg hfa k f t0 d 0
  have a4 : ∀ probe, argDataOff cfg (argFrame cfg k f t0 d) probe = argOff cfg k f :=
    fun probe => (argFrame_facts cfg hfa k f t0 d probe).2.2.2
  have hfl : (argFrame cfg k f t0 d).readFl = false := by
    unfold argFrame
    split
    · rw [(saveArgument_b cfg _).2.2.2]; rfl
    · rfl
  have hoff : ∀ (g : EFrame) probe, g.argFl = (argFrame cfg k f t0 d).argFl → g.argSz = (argFrame cfg k f t0 d).argSz →
      argDataOff cfg g probe = argOff cfg k f := by
    intro g probe h1 h2
    rw [← a4 probe]
    simp [argDataOff, hfa, h1, h2]
  have hht : hookTime (argFrame cfg k f t0 d).b = t0 := by rw [a3]; simp [hookTime, plainFrame]
  rw [entryFrame_eq]
  by_cases hm : (cfg.read f != 0) = true
  · simp only [hm, ↓reduceIte]
    have hsb := saveRead_b cfg (argFrame cfg k f t0 d) (cfg.read f) (d + 1) false o
    by_cases hr : ReadRoom cfg k f
    · have hnr : ¬ ((argFrame cfg k f t0 d).eventIdx < 2 * readNeed (cfg.read f) readEvents + argOff cfg k f) := by
        rw [a2]; unfold ReadRoom at hr; omega
      have hsr : saveRead cfg (argFrame cfg k f t0 d) (cfg.read f) (d + 1) false o =
          saveReadL true (argOff cfg k f) t0 (d + 1) false o (cfg.read f) readEvents (argFrame cfg k f t0 d) := by
        simp only [saveRead, hfp, hnr, a4, hht, Bool.not_false, Bool.and_true, Bool.true_and, decide_false,
          Bool.false_eq_true, ↓reduceIte]
      obtain ⟨e1, e2, e3⟩ := saveReadL_entry_exact true (argOff cfg k f) t0 (d + 1) o (cfg.read f) readEvents
        (argFrame cfg k f t0 d) (by rw [a2]; unfold ReadRoom at hr; omega)
      refine ⟨?_, ?_, rfl, ?_⟩
      · simp only [setReadFl, hsr, e1, a1, hr, ↓reduceIte, List.append_nil]
      · intro _
        simp only [setReadFl, hsr]
        rw [a2] at e2
        exact e2
      · intro probe
        exact hoff _ probe hsb.2.1 hsb.2.2.1
    · have hlt : (argFrame cfg k f t0 d).eventIdx < 2 * readNeed (cfg.read f) readEvents + argOff cfg k f := by
        rw [a2]; unfold ReadRoom at hr; omega
      have hsr : saveRead cfg (argFrame cfg k f t0 d) (cfg.read f) (d + 1) false o = argFrame cfg k f t0 d := by
        simp only [saveRead, hfp, a4, hlt, Bool.not_false, Bool.and_true, decide_true, ↓reduceIte]
      refine ⟨?_, fun h => absurd h hr, rfl, ?_⟩
      · simp only [setReadFl, hsr, a1, hr, ↓reduceIte]
      · intro probe
        exact hoff _ probe (by rw [hsr]; rfl) (by rw [hsr]; rfl)
  · have hm0 : cfg.read f = 0 := by simpa using hm
    simp only [hm, Bool.false_eq_true, ↓reduceIte]
    refine ⟨?_, ?_, ?_, a4⟩
    · rw [a1, hm0, specReads_mask0]; simp
    · intro _; rw [a2]; omega
    · rw [hfl]

/-- the event area after the exit hook: the specified diff events on top of the entry hook's events -/
theorem exitFrame_exact (cfg : ECfg) (hfa : cfg.fixArg = true) (hfp : cfg.fixPair = true) (k : Kind) (f t0 t1 d : Nat)
    (oE oX : Obs) (ht1 : t1 ≠ 0) :
    (exitFrame cfg (entryFrame cfg k f t0 d oE) t1 d oX).evs =
      (specDiffs t1 (d + 1) oX (cfg.read f) (entryFrame cfg k f t0 d oE).evs readEvents).reverse ++
        (entryFrame cfg k f t0 d oE).evs := by
  obtain ⟨e1, e2, e3, e4⟩ := entryFrame_exact cfg hfa hfp k f t0 d oE
  have hb := entryFrame_b cfg k f t0 d oE
  have haddr : (setEnd (entryFrame cfg k f t0 d oE) t1).b.addr = f := by simp [hb, plainFrame]
  unfold exitFrame exitArea
  simp only [setEnd_readFl, e3, haddr]
  by_cases hm : (cfg.read f != 0) = true
  · simp only [hm, ↓reduceIte]
    rw [saveRead_exit, hfp]
    have hoff : argDataOff cfg (setEnd (entryFrame cfg k f t0 d oE) t1) oX.probe = argOff cfg k f := by
      rw [← e4 oX.probe]; simp only [argDataOff, hfa, ↓reduceIte, setEnd_argFl, setEnd_argSz]; rfl
    rw [hoff, hookTime_setEnd _ t1 ht1]
    have := saveReadL_exit_exact (argOff cfg k f) t1 (d + 1) oX (cfg.read f) (entryFrame cfg k f t0 d oE).evs readEvents
      readEvents_distinct.1 readEvents_distinct.2 (setEnd (entryFrame cfg k f t0 d oE) t1) [] (by simp) (by simp)
      (by
        intro hne
        have hr : ReadRoom cfg k f := by
          by_cases hr : ReadRoom cfg k f
          · exact hr
          · rw [e1] at hne; simp [hr] at hne
        have := e2 hr
        unfold ReadRoom at hr
        show argOff cfg k f + readNeed (cfg.read f) readEvents ≤ (entryFrame cfg k f t0 d oE).eventIdx
        omega)
    rw [this]; rfl
  · have hm0 : cfg.read f = 0 := by simpa using hm
    simp only [hm, Bool.false_eq_true, ↓reduceIte]
    rw [hm0, specDiffs_mask0]; simp

end Uft.Events
