import Uft.Model.NonLocal
/-
C11 — definitions of the invariants (`Inv`, `TraceInv`), `WellFormedOp`, and
helper lemmas about the shadow-stack operations.
-/
namespace Uft.NonLocal

/-! ### memory -/

@[simp] theorem upd_same (m : Mem) (a v : Nat) : upd m a v a = v := by simp [upd]
theorem upd_other (m : Mem) {a b : Nat} (v : Nat) (h : b ≠ a) : upd m a v b = m b := by simp [upd, h]

@[simp] theorem isTramp_hv (b : Bool) : isTramp (hv b) = true := by cases b <;> decide
@[simp] theorem isTramp_TRAMP : isTramp TRAMP = true := by decide
@[simp] theorem isTramp_PTRAMP : isTramp PTRAMP = true := by decide

theorem not_tramp_ne {v : Nat} (h : isTramp v = false) : v ≠ TRAMP ∧ v ≠ PTRAMP := by
  simp [isTramp] at h; exact h

theorem hv_eq_tramp (b : Bool) : hv b = TRAMP ↔ b = false := by cases b <;> decide
theorem hv_eq_ptramp (b : Bool) : hv b = PTRAMP ↔ b = true := by cases b <;> decide

/-! ### what the shadow stack must look like for a given real stack -/

def Link.ctl (slot ip : Nat) (l : Link) : Ctl := ⟨slot, ip, l.child, l.plt, false, false⟩

/-- the saved return address of a chain element: the trampoline of the element below it,
    or the frame's real return address for the first one -/
def belowIp (orig : Nat) : List Link → Nat
  | [] => orig
  | l :: _ => hv l.plt

def expChain (slot orig : Nat) : List Link → List Ctl
  | [] => []
  | l :: r => l.ctl slot (belowIp orig r) :: expChain slot orig r

def expFrames : List Frame → List Ctl
  | [] => []
  | f :: fs => expChain f.slot f.orig f.chain ++ expFrames fs

/-- number of hooked logical calls that are open -/
def logicalDepth : List Frame → Nat
  | [] => 0
  | f :: fs => f.chain.length + logicalDepth fs

@[simp] theorem expChain_length (slot orig : Nat) (c : List Link) : (expChain slot orig c).length = c.length := by
  induction c <;> simp_all [expChain]

theorem expFrames_length (fs : List Frame) : (expFrames fs).length = logicalDepth fs := by
  induction fs <;> simp_all [expFrames, logicalDepth]

theorem expChain_loc {slot orig : Nat} {c : List Link} {x : Ctl} (h : x ∈ expChain slot orig c) : x.loc = slot := by
  induction c with
  | nil => simp [expChain] at h
  | cons l r ih =>
    simp only [expChain, List.mem_cons] at h
    rcases h with h | h
    · subst h; rfl
    · exact ih h

theorem expFrames_loc {fs : List Frame} {x : Ctl} (h : x ∈ expFrames fs) : ∃ f ∈ fs, x.loc = f.slot := by
  induction fs with
  | nil => simp [expFrames] at h
  | cons f fs ih =>
    simp only [expFrames, List.mem_append] at h
    rcases h with h | h
    · exact ⟨f, by simp, expChain_loc h⟩
    · obtain ⟨g, hg, e⟩ := ih h
      exact ⟨g, by simp [hg], e⟩

theorem expChain_flags {slot orig : Nat} {c : List Link} {x : Ctl} (h : x ∈ expChain slot orig c) :
    x.ljmp = false ∧ x.vfork = false := by
  induction c with
  | nil => simp [expChain] at h
  | cons l r ih =>
    simp only [expChain, List.mem_cons] at h
    rcases h with h | h
    · subst h; exact ⟨rfl, rfl⟩
    · exact ih h

/-- the top hooked frame holds the trampoline of its current function -/
def TopOk (fs : List Frame) (m : Mem) : Prop :=
  ∀ p ps, expFrames fs = p :: ps → m p.loc = hv p.plt

/-- every live return slot holds the real return address or the trampoline of its function -/
def MemOk (fs : List Frame) (m : Mem) : Prop :=
  ∀ f ∈ fs, m f.slot = f.orig ∨ (∃ l r, f.chain = l :: r ∧ m f.slot = hv l.plt)

def setjmpCtl (jb : RJb) : Ctl := ⟨jb.sslot, jb.sorig, jb.schild, true, false, false⟩

def JbOk (sh : Sh) (j : Nat) (jb : RJb) : Prop :=
  ∃ srs sidx, sh.jbs.lookup j = some (srs, sidx) ∧
    srs.map Ent.c = setjmpCtl jb :: expFrames jb.frames ∧
    jb.pc = PTRAMP ∧ isTramp jb.sorig = false ∧ (∀ f ∈ jb.frames, jb.sslot < f.slot)

/-- entries left on the shadow stack by frames that the unwinder has dropped -/
def deadPart (m : M) : List Ent := m.sh.rs.take (m.sh.rs.length - (expFrames m.fs).length)

/-- "in step": the shadow stack is exactly what the live hooked frames account for
    (plus, while an exception is in flight, the entries of already unwound frames on top),
    every live return slot holds the real return address or the trampoline of its function,
    the top hooked slot is hooked, and every jmp_buf has its copy. -/
structure Inv (m : M) : Prop where
  nh : m.halted = false
  nd : m.sh.dead = false
  vf : m.sh.vf = none
  ctl : ∃ dead, m.sh.rs.map Ent.c = dead ++ expFrames m.fs ∧ (m.sh.inExc = false → dead = [])
  sorted : m.fs.Pairwise (fun a b => a.slot < b.slot)
  origs : ∀ f ∈ m.fs, isTramp f.orig = false
  memOk : MemOk m.fs m.sh.mem
  top : m.sh.inExc = false → TopOk m.fs m.sh.mem
  exc : m.sh.inExc = true → ∀ f ∈ m.fs, m.sh.mem f.slot = f.orig
  jb : ∀ j jb, m.rjb.lookup j = some jb → JbOk m.sh j jb

/-- a halted machine (after exit) is trivially in step: nothing returns any more -/
def InStep (m : M) : Prop := m.halted = true ∨ Inv m

/-! ### basic facts about the record writer: it never touches control data -/

theorem writeEntries_c (tid : Nat) (l : List Ent) : (writeEntries tid l).1.map Ent.c = l.map Ent.c := by
  induction l with
  | nil => rfl
  | cons e r ih =>
    simp only [writeEntries]
    split
    · rfl
    · simp [ih]

theorem writeEntries_depth (tid : Nat) (l : List Ent) :
    (writeEntries tid l).1.map Ent.depth = l.map Ent.depth := by
  induction l with
  | nil => rfl
  | cons e r ih =>
    simp only [writeEntries]
    split
    · rfl
    · simp [ih]

theorem writeEntries_length (tid : Nat) (l : List Ent) : (writeEntries tid l).1.length = l.length := by
  have := congrArg List.length (writeEntries_c tid l)
  simp only [List.length_map] at this
  exact this

section record
variable (s : Sh) (b : Bool)

@[simp] theorem record_c : (s.record b).rs.map Ent.c = s.rs.map Ent.c := by
  unfold Sh.record
  split
  · rfl
  · rename_i e r h
    exact writeEntries_c _ _
@[simp] theorem record_depth : (s.record b).rs.map Ent.depth = s.rs.map Ent.depth := by
  unfold Sh.record
  split
  · rfl
  · rename_i e r h
    exact writeEntries_depth _ _
@[simp] theorem record_mem : (s.record b).mem = s.mem := by unfold Sh.record; split <;> rfl
@[simp] theorem record_recIdx : (s.record b).recIdx = s.recIdx := by unfold Sh.record; split <;> rfl
@[simp] theorem record_inExc : (s.record b).inExc = s.inExc := by unfold Sh.record; split <;> rfl
@[simp] theorem record_jbs : (s.record b).jbs = s.jbs := by unfold Sh.record; split <;> rfl
@[simp] theorem record_vf : (s.record b).vf = s.vf := by unfold Sh.record; split <;> rfl
@[simp] theorem record_dead : (s.record b).dead = s.dead := by unfold Sh.record; split <;> rfl
@[simp] theorem record_pid : (s.record b).pid = s.pid := by unfold Sh.record; split <;> rfl
@[simp] theorem record_child : (s.record b).child = s.child := by unfold Sh.record; split <;> rfl
@[simp] theorem record_length : (s.record b).rs.length = s.rs.length := by
  have := congrArg List.length (record_c s b)
  simp only [List.length_map] at this
  exact this

@[simp] theorem efr_c : (exitFilterRecord s b).rs.map Ent.c = s.rs.map Ent.c := by simp [exitFilterRecord]
@[simp] theorem efr_depth : (exitFilterRecord s b).rs.map Ent.depth = s.rs.map Ent.depth := by
  simp [exitFilterRecord]
@[simp] theorem efr_mem : (exitFilterRecord s b).mem = s.mem := by simp [exitFilterRecord]
@[simp] theorem efr_recIdx : (exitFilterRecord s b).recIdx = s.recIdx - 1 := by simp [exitFilterRecord]
@[simp] theorem efr_inExc : (exitFilterRecord s b).inExc = s.inExc := by simp [exitFilterRecord]
@[simp] theorem efr_jbs : (exitFilterRecord s b).jbs = s.jbs := by simp [exitFilterRecord]
@[simp] theorem efr_vf : (exitFilterRecord s b).vf = s.vf := by simp [exitFilterRecord]
@[simp] theorem efr_dead : (exitFilterRecord s b).dead = s.dead := by simp [exitFilterRecord]
@[simp] theorem efr_length : (exitFilterRecord s b).rs.length = s.rs.length := by simp [exitFilterRecord]
end record

end Uft.NonLocal

namespace Uft.NonLocal

/-! ### WellFormedOp: what C / the ABI guarantee about the program's next step -/

def Kind.hooked : Kind → Bool
  | .none => false
  | _ => true

/-- `fa` separates the entries of unwound frames from the live hooked frames -/
def Separates (m : M) (fa : Nat) : Prop :=
  (∀ d ∈ deadPart m, d.c.loc ≤ fa) ∧ (∀ f ∈ m.fs, f.chain ≠ [] → fa < f.slot)

/-- the frame address __mcount_entry derives from `parent_loc[-1]` (repaired fallback) -/
def entryFa (slot fpw : Nat) : Nat := if fpw < slot then slot else fpw

def WellFormedOp (m : M) : Op → Prop
  | .call k _ slot orig fpw =>
    -- a new frame below every live frame; the return address is a real code address;
    -- in a landing pad, the callee's frame pointer word separates dead from live frames
    1 ≤ slot ∧ (∀ f ∈ m.fs, slot < f.slot) ∧ isTramp orig = false ∧
    (m.sh.inExc = true → k = .mcount → Separates m (entryFa slot fpw)) ∧
    (m.sh.inExc = true → k = .plt → Separates m slot)
  | .ret =>
    -- only code that is not being unwound returns: during unwinding only unhooked helpers run
    m.fs ≠ [] ∧ (m.sh.inExc = true → ∀ f ∈ m.fs.head?, f.chain = [])
  | .tailcall k _ => m.fs ≠ [] ∧ m.sh.inExc = false ∧ k.hooked = true
  | .setjmp _ _ slot orig => (∀ f ∈ m.fs, slot < f.slot) ∧ isTramp orig = false ∧ m.sh.inExc = false
  | .longjmp j _ slot orig =>
    -- the target is a live setjmp frame, as C requires
    (∀ f ∈ m.fs, slot < f.slot) ∧ isTramp orig = false ∧ m.sh.inExc = false ∧
    ∃ jb, m.rjb.lookup j = some jb ∧ jb.frames <:+ m.fs
  | .throw => m.sh.inExc = false
  | .unwind => m.sh.inExc = true ∧ m.fs ≠ []
  | .resume => ∀ d ∈ deadPart m, ∀ f ∈ m.fs, d.c.loc ≠ f.slot
  | .catch_ fa => m.sh.inExc = true → Separates m fa
  | .pthreadExit _ slot orig => (∀ f ∈ m.fs, slot < f.slot) ∧ isTramp orig = false ∧ m.sh.inExc = false
  | .exit _ slot orig => (∀ f ∈ m.fs, slot < f.slot) ∧ isTramp orig = false ∧ m.sh.inExc = false
  | .vforkExec _ slot orig _ eorig =>
    (∀ f ∈ m.fs, slot < f.slot) ∧ isTramp orig = false ∧ isTramp eorig = false ∧ m.sh.inExc = false
  | .mtdDtor => m.sh.inExc = false ∧ ∀ f ∈ m.fs, f.chain = []
  | .fork _ _ slot orig => (∀ f ∈ m.fs, slot < f.slot) ∧ isTramp orig = false ∧ m.sh.inExc = false
  | .exec _ slot orig => (∀ f ∈ m.fs, slot < f.slot) ∧ isTramp orig = false ∧ m.sh.inExc = false

end Uft.NonLocal

namespace Uft.NonLocal

/-! ### shape facts about `expFrames` -/

theorem belowIp_tramp_of_ne {orig : Nat} {r : List Link} (h : r ≠ []) : isTramp (belowIp orig r) = true := by
  cases r with
  | nil => exact absurd rfl h
  | cons l r => simp [belowIp]

theorem sorted_tail {f : Frame} {fs : List Frame} (h : (f :: fs).Pairwise (fun a b => a.slot < b.slot)) :
    fs.Pairwise (fun a b => a.slot < b.slot) := (List.pairwise_cons.mp h).2

theorem sorted_head {f : Frame} {fs : List Frame} (h : (f :: fs).Pairwise (fun a b => a.slot < b.slot)) :
    ∀ g ∈ fs, f.slot < g.slot := (List.pairwise_cons.mp h).1

theorem expFrames_loc_gt {f : Frame} {fs : List Frame}
    (h : (f :: fs).Pairwise (fun a b => a.slot < b.slot)) {x : Ctl} (hx : x ∈ expFrames fs) : f.slot < x.loc := by
  obtain ⟨g, hg, e⟩ := expFrames_loc hx
  rw [e]; exact sorted_head h g hg

theorem expFrames_loc_ne {f : Frame} {fs : List Frame}
    (h : (f :: fs).Pairwise (fun a b => a.slot < b.slot)) {x : Ctl} (hx : x ∈ expFrames fs) : x.loc ≠ f.slot :=
  Nat.ne_of_gt (expFrames_loc_gt h hx)

/-- the head of `expFrames` is the current function of the top hooked frame -/
theorem expFrames_head {fs : List Frame} {p : Ctl} {ps : List Ctl} (h : expFrames fs = p :: ps) :
    ∃ g ∈ fs, ∃ l r, g.chain = l :: r ∧ p = l.ctl g.slot (belowIp g.orig r) := by
  induction fs with
  | nil => simp [expFrames] at h
  | cons f fs ih =>
    cases hc : f.chain with
    | nil =>
      simp only [expFrames, hc, expChain, List.nil_append] at h
      obtain ⟨g, hg, rest⟩ := ih h
      exact ⟨g, by simp [hg], rest⟩
    | cons l r =>
      simp only [expFrames, hc, expChain, List.cons_append, List.cons.injEq] at h
      exact ⟨f, by simp, l, r, hc, h.1.symm⟩

/-! ### mcount_rstack_restore -/

theorem restoreMem_append (l1 l2 : List Ent) (m : Mem) :
    restoreMem (l1 ++ l2) m = restoreMem l2 (restoreMem l1 m) := by
  induction l1 generalizing m with
  | nil => rfl
  | cons e r ih => simp [restoreMem, ih]

theorem restoreMem_other {l : List Ent} {a : Nat} (h : ∀ e ∈ l, e.c.loc ≠ a) (m : Mem) :
    restoreMem l m a = m a := by
  induction l generalizing m with
  | nil => rfl
  | cons e r ih =>
    simp only [restoreMem]
    rw [ih (fun x hx => h x (by simp [hx]))]
    split
    · rfl
    · exact upd_other _ _ (fun hh => h e (by simp) hh.symm)

/-- restoring a tail-call chain puts the frame's real return address back -/
theorem restoreMem_chain {slot orig : Nat} (ho : isTramp orig = false) :
    ∀ (ch : List Link) (l : List Ent) (m : Mem), l.map Ent.c = expChain slot orig ch → ch ≠ [] →
      restoreMem l m slot = orig := by
  intro ch
  induction ch with
  | nil => intro l m _ h; exact absurd rfl h
  | cons lk r ih =>
    intro l m hl _
    obtain ⟨e, l', rfl, he, hl'⟩ := List.map_eq_cons_iff.mp hl
    simp only [restoreMem]
    cases r with
    | nil =>
      have hl0 : l' = [] := by simpa [expChain] using hl'
      subst hl0
      have hip : e.c.ip = orig := by rw [he]; rfl
      have hloc : e.c.loc = slot := by rw [he]; rfl
      simp [restoreMem, hip, ho, hloc]
    | cons l2 r2 =>
      exact ih l' _ hl' (by simp)

/-! ### mcount_rstack_rehook (repaired order) -/

theorem rehookBottomUp_append (l1 l2 : List Ent) (m : Mem) :
    rehookBottomUp (l1 ++ l2) m = rehookBottomUp l1 (rehookBottomUp l2 m) := by
  induction l1 with
  | nil => rfl
  | cons e r ih => simp [rehookBottomUp, ih]

theorem rehookBottomUp_other {l : List Ent} {a : Nat} (h : ∀ e ∈ l, e.c.loc ≠ a) (m : Mem) :
    rehookBottomUp l m a = m a := by
  induction l with
  | nil => rfl
  | cons e r ih =>
    simp only [rehookBottomUp]
    rw [upd_other _ _ (fun hh => h e (by simp) hh.symm)]
    exact ih (fun x hx => h x (by simp [hx]))

/-! ### mcount_auto_restore: which entry gets its return address back -/

/-- the first entry of the first chain with a real return address -/
theorem firstReal_exp : ∀ (fs : List Frame) (l : List Ent), l.map Ent.c = expFrames fs →
    (∀ f ∈ fs, isTramp f.orig = false) →
    (expFrames fs = [] ∧ firstReal l = none) ∨
    (∃ g ∈ fs, g.chain ≠ [] ∧ (∀ p ps, expFrames fs = p :: ps → p.loc = g.slot) ∧
      ∃ e, firstReal l = some e ∧ e.c.loc = g.slot ∧ e.c.ip = g.orig) := by
  intro fs
  induction fs with
  | nil =>
    intro l hl _
    left
    have : l = [] := by simpa [expFrames] using hl
    subst this
    exact ⟨rfl, rfl⟩
  | cons f fs ih =>
    intro l hl ho
    cases hc : f.chain with
    | nil =>
      simp only [expFrames, hc, expChain, List.nil_append] at hl
      rcases ih l hl (fun g hg => ho g (by simp [hg])) with h | ⟨g, hg, h1, h2, h3⟩
      · left; simpa [expFrames, hc, expChain] using h
      · right
        refine ⟨g, by simp [hg], h1, ?_, h3⟩
        intro p ps hp
        simp only [expFrames, hc, expChain, List.nil_append] at hp
        exact h2 p ps hp
    | cons lk r =>
      right
      refine ⟨f, by simp, by simp [hc], ?_, ?_⟩
      · intro p ps hp
        simp only [expFrames, hc, expChain, List.cons_append, List.cons.injEq] at hp
        rw [← hp.1]; rfl
      · -- walk down the chain
        have hof := ho f (by simp)
        simp only [expFrames, hc] at hl
        clear hc ih ho
        induction r generalizing lk l with
        | nil =>
          obtain ⟨e, l', rfl, he, _⟩ := List.map_eq_cons_iff.mp hl
          refine ⟨e, ?_, by rw [he]; rfl, by rw [he]; rfl⟩
          have : e.c.ip = f.orig := by rw [he]; rfl
          simp [firstReal, this, hof]
        | cons l2 r2 ih2 =>
          obtain ⟨e, l', rfl, he, hl'⟩ := List.map_eq_cons_iff.mp hl
          have : isTramp e.c.ip = true := by rw [he]; simp [Link.ctl, belowIp]
          simp only [firstReal, this, ↓reduceIte]
          exact ih2 l' l2 hl'

end Uft.NonLocal

namespace Uft.NonLocal

/-! ### entry hooks -/

theorem mcountEntry_noexc (fx : Fix) {s : Sh} (h : s.inExc = false) (loc child : Nat) :
    mcountEntry fx s loc child = pushHook s loc child false := by
  simp [mcountEntry, h]

theorem mcountEntry_exc (fx : Fix) {s : Sh} (h : s.inExc = true) (loc child : Nat) :
    mcountEntry fx s loc child = pushHook (excPre fx s (entryFrameAddr fx s loc)) loc child false := by
  simp [mcountEntry, h]

theorem plthookEntry_plain_noexc (fx : Fix) {s : Sh} (h : s.inExc = false) (loc child a : Nat) :
    plthookEntry fx s loc child .plain a = pushHook s loc child true := by
  simp [plthookEntry, h, Sym.flushes, pltSpecial]

theorem plthookEntry_plain_exc {s : Sh} (h : s.inExc = true) (loc child a : Nat) :
    plthookEntry Fix.all s loc child .plain a = pushHook (excPre Fix.all s loc) loc child true := by
  simp [plthookEntry, h, Sym.flushes, Fix.all, pltSpecial]

section autoRestore
variable (s : Sh)
@[simp] theorem autoRestore_rs : (autoRestore s).rs = s.rs := by
  unfold autoRestore; split <;> (try split) <;> (try split) <;> (try split) <;> rfl
@[simp] theorem autoRestore_recIdx : (autoRestore s).recIdx = s.recIdx := by
  unfold autoRestore; split <;> (try split) <;> (try split) <;> (try split) <;> rfl
@[simp] theorem autoRestore_inExc : (autoRestore s).inExc = s.inExc := by
  unfold autoRestore; split <;> (try split) <;> (try split) <;> (try split) <;> rfl
@[simp] theorem autoRestore_jbs : (autoRestore s).jbs = s.jbs := by
  unfold autoRestore; split <;> (try split) <;> (try split) <;> (try split) <;> rfl
@[simp] theorem autoRestore_vf : (autoRestore s).vf = s.vf := by
  unfold autoRestore; split <;> (try split) <;> (try split) <;> (try split) <;> rfl
@[simp] theorem autoRestore_dead : (autoRestore s).dead = s.dead := by
  unfold autoRestore; split <;> (try split) <;> (try split) <;> (try split) <;> rfl
@[simp] theorem autoRestore_out : (autoRestore s).out = s.out := by
  unfold autoRestore; split <;> (try split) <;> (try split) <;> (try split) <;> rfl
@[simp] theorem autoRestore_pid : (autoRestore s).pid = s.pid := by
  unfold autoRestore; split <;> (try split) <;> (try split) <;> (try split) <;> rfl
@[simp] theorem autoRestore_child : (autoRestore s).child = s.child := by
  unfold autoRestore; split <;> (try split) <;> (try split) <;> (try split) <;> rfl
@[simp] theorem autoRestore_oob : (autoRestore s).oob = s.oob := by
  unfold autoRestore; split <;> (try split) <;> (try split) <;> (try split) <;> rfl
end autoRestore

section pushHook
variable (s : Sh) (loc child : Nat) (plt : Bool)
@[simp] theorem pushHook_rs : (pushHook s loc child plt).rs = mkEnt loc (s.mem loc) child plt s.recIdx :: s.rs := by
  simp [pushHook]
@[simp] theorem pushHook_recIdx : (pushHook s loc child plt).recIdx = s.recIdx + 1 := by simp [pushHook]
@[simp] theorem pushHook_inExc : (pushHook s loc child plt).inExc = s.inExc := by simp [pushHook]
@[simp] theorem pushHook_jbs : (pushHook s loc child plt).jbs = s.jbs := by simp [pushHook]
@[simp] theorem pushHook_vf : (pushHook s loc child plt).vf = s.vf := by simp [pushHook]
@[simp] theorem pushHook_dead : (pushHook s loc child plt).dead = s.dead := by simp [pushHook]
@[simp] theorem pushHook_out : (pushHook s loc child plt).out = s.out := by simp [pushHook]
@[simp] theorem pushHook_pid : (pushHook s loc child plt).pid = s.pid := by simp [pushHook]
@[simp] theorem pushHook_child : (pushHook s loc child plt).child = s.child := by simp [pushHook]
end pushHook

/-- the memory after an entry hook: the new slot is hooked and, unless this is a tail call on the
    same slot, the first chain below gets its real return address back -/
theorem pushHook_mem {s : Sh} {fs : List Frame} (loc child : Nat) (plt : Bool)
    (hx : s.inExc = false) (hc : s.rs.map Ent.c = expFrames fs) (ho : ∀ f ∈ fs, isTramp f.orig = false) :
    (expFrames fs = [] → (pushHook s loc child plt).mem = upd s.mem loc (hv plt)) ∧
    (∀ p ps, expFrames fs = p :: ps → p.loc = loc → (pushHook s loc child plt).mem = upd s.mem loc (hv plt)) ∧
    (∀ p ps, expFrames fs = p :: ps → p.loc ≠ loc →
      ∃ g ∈ fs, g.chain ≠ [] ∧ p.loc = g.slot ∧
        (pushHook s loc child plt).mem = upd (upd s.mem loc (hv plt)) g.slot g.orig) := by
  refine ⟨?_, ?_, ?_⟩
  · intro he
    have : s.rs = [] := by simpa [he] using hc
    simp [pushHook, autoRestore, this]
  · intro p ps hp hl
    rw [hp] at hc
    obtain ⟨e, r, hr, he, _⟩ := List.map_eq_cons_iff.mp hc
    have : e.c.loc = loc := by rw [he]; exact hl
    simp [pushHook, autoRestore, hr, hx, mkEnt, this]
  · intro p ps hp hl
    rcases firstReal_exp fs s.rs hc ho with ⟨h0, _⟩ | ⟨g, hg, hgc, hgl, e, he, hel, hei⟩
    · rw [hp] at h0; cases h0
    · refine ⟨g, hg, hgc, hgl p ps hp, ?_⟩
      rw [hp] at hc
      obtain ⟨e0, r, hr, he0, _⟩ := List.map_eq_cons_iff.mp hc
      have hne : ¬ loc = e0.c.loc := by rw [he0]; exact fun h => hl h.symm
      have he' : firstReal (e0 :: r) = some e := by rw [← hr]; exact he
      simp [pushHook, autoRestore, hr, hx, mkEnt, hne, he', hel, hei]

end Uft.NonLocal

namespace Uft.NonLocal

/-! ### exit hooks -/

section autoRehook
variable (s : Sh)
@[simp] theorem autoRehook_rs : (autoRehook s).rs = s.rs := by
  unfold autoRehook; split <;> (try split) <;> (try split) <;> rfl
@[simp] theorem autoRehook_recIdx : (autoRehook s).recIdx = s.recIdx := by
  unfold autoRehook; split <;> (try split) <;> (try split) <;> rfl
@[simp] theorem autoRehook_inExc : (autoRehook s).inExc = s.inExc := by
  unfold autoRehook; split <;> (try split) <;> (try split) <;> rfl
@[simp] theorem autoRehook_jbs : (autoRehook s).jbs = s.jbs := by
  unfold autoRehook; split <;> (try split) <;> (try split) <;> rfl
@[simp] theorem autoRehook_vf : (autoRehook s).vf = s.vf := by
  unfold autoRehook; split <;> (try split) <;> (try split) <;> rfl
@[simp] theorem autoRehook_dead : (autoRehook s).dead = s.dead := by
  unfold autoRehook; split <;> (try split) <;> (try split) <;> rfl
end autoRehook

/-- the memory after the exit of the top entry -/
def exitMem (inExc : Bool) (m : Mem) (x : Ctl) (xs : List Ctl) : Mem :=
  match xs with
  | [] => m
  | p :: _ => if inExc then m else if x.loc = p.loc then m else upd m p.loc (hv p.plt)

theorem exitTop_spec {s : Sh} {x : Ctl} {xs : List Ctl} (h : s.rs.map Ent.c = x :: xs) :
    (exitTop s).2 = x.ip ∧ (exitTop s).1.rs.map Ent.c = xs ∧
    (exitTop s).1.mem = exitMem s.inExc s.mem x xs ∧
    (exitTop s).1.recIdx = s.recIdx - 1 ∧ (exitTop s).1.inExc = s.inExc ∧ (exitTop s).1.jbs = s.jbs ∧
    (exitTop s).1.vf = s.vf ∧ (exitTop s).1.dead = s.dead ∧
    (exitTop s).1.rs.map Ent.depth = (s.rs.map Ent.depth).tail := by
  obtain ⟨e, r, hr, he, hxs⟩ := List.map_eq_cons_iff.mp h
  have h1 : (exitFilterRecord s true).rs.map Ent.c = x :: xs := by rw [efr_c]; exact h
  obtain ⟨e1, r1, hr1, he1, hxs1⟩ := List.map_eq_cons_iff.mp h1
  have hd : (exitFilterRecord s true).rs.map Ent.depth = s.rs.map Ent.depth := efr_depth s true
  simp only [exitTop, hr]
  refine ⟨congrArg Ctl.ip he, ?_, ?_, ?_, ?_, ?_, ?_, ?_, ?_⟩
  · simp [hr1, hxs1]
  · simp only [autoRehook, hr1]
    cases r1 with
    | nil =>
      have : xs = [] := by simpa using hxs1.symm
      subst this; simp [exitMem]
    | cons p1 r2 =>
      obtain ⟨p, ps, rfl⟩ : ∃ p ps, xs = p :: ps := by
        cases xs with
        | nil => simp at hxs1
        | cons p ps => exact ⟨p, ps, rfl⟩
      simp only [List.map_cons, List.cons.injEq] at hxs1
      simp only [exitMem, efr_inExc, efr_mem]
      rw [← he1, ← hxs1.1]
      split <;> (try split) <;> simp_all
  · simp
  · simp
  · simp
  · simp
  · simp
  · simp only [autoRehook_rs]
    rw [hr] at hd
    rw [← hd, hr1]; simp

theorem plthookExit_eq_exitTop {s : Sh} {x : Ctl} {xs : List Ctl} (h : s.rs.map Ent.c = x :: xs)
    (hp : x.plt = true) (hl : x.ljmp = false) (hv' : x.vfork = false) (hvf : s.vf = none) :
    plthookExit s = exitTop s := by
  obtain ⟨e, r, hr, he, _⟩ := List.map_eq_cons_iff.mp h
  have h1 : e.c.ljmp = false := by rw [he]; exact hl
  have h2 : e.c.vfork = false := by rw [he]; exact hv'
  have h3 : e.c.plt = true := by rw [he]; exact hp
  simp [plthookExit, plthookExitCore, hr, h1, h2, h3, hvf]

theorem retLoop_succ_tramp (n : Nat) (s : Sh) :
    retLoop (n + 1) s TRAMP = retLoop n (exitTop s).1 (exitTop s).2 := by simp [retLoop, mcountExit]

theorem retLoop_succ_ptramp (n : Nat) (s : Sh) :
    retLoop (n + 1) s PTRAMP = retLoop n (plthookExit s).1 (plthookExit s).2 := by
  have : PTRAMP ≠ TRAMP := by decide
  simp [retLoop, this]

theorem retLoop_stop {v : Nat} (h : isTramp v = false) (k : Nat) (t : Sh) : retLoop k t v = (t, v) := by
  have hnt := not_tramp_ne h
  cases k with
  | zero => rfl
  | succ k => simp [retLoop, hnt.1, hnt.2]

theorem retLoop_succ_hv {s : Sh} {x : Ctl} {xs : List Ctl} (n : Nat) (h : s.rs.map Ent.c = x :: xs)
    (hl : x.ljmp = false) (hv' : x.vfork = false) (hvf : s.vf = none) :
    retLoop (n + 1) s (hv x.plt) = retLoop n (exitTop s).1 (exitTop s).2 := by
  cases hp : x.plt with
  | false => exact retLoop_succ_tramp n s
  | true =>
    have : hv true = PTRAMP := by decide
    rw [this, retLoop_succ_ptramp, plthookExit_eq_exitTop h hp hl hv' hvf]

/-- returning through a tail-call chain: one exit per chain element, then the real return address -/
theorem retLoop_chain {slot orig : Nat} (ho : isTramp orig = false) :
    ∀ (ch : List Link) (lk : Link) (s : Sh) (rest : List Ctl) (n : Nat),
      s.rs.map Ent.c = expChain slot orig (lk :: ch) ++ rest → s.inExc = false → s.vf = none →
      (∀ p ps, rest = p :: ps → p.loc ≠ slot) → ch.length + 1 ≤ n →
      (retLoop n s (hv lk.plt)).2 = orig ∧
      (retLoop n s (hv lk.plt)).1.rs.map Ent.c = rest ∧
      (retLoop n s (hv lk.plt)).1.mem =
        (match rest with | [] => s.mem | p :: _ => upd s.mem p.loc (hv p.plt)) ∧
      (retLoop n s (hv lk.plt)).1.recIdx = s.recIdx - (ch.length + 1) ∧
      (retLoop n s (hv lk.plt)).1.inExc = false ∧ (retLoop n s (hv lk.plt)).1.jbs = s.jbs ∧
      (retLoop n s (hv lk.plt)).1.vf = none ∧ (retLoop n s (hv lk.plt)).1.dead = s.dead ∧
      (retLoop n s (hv lk.plt)).1.rs.map Ent.depth = (s.rs.map Ent.depth).drop (ch.length + 1) := by
  intro ch
  induction ch with
  | nil =>
    intro lk s rest n hc hx hvf hrest hn
    obtain ⟨n, rfl⟩ : ∃ k, n = k + 1 := ⟨n - 1, by omega⟩
    simp only [expChain, List.cons_append, List.nil_append] at hc
    have hs := exitTop_spec hc
    have hr : retLoop (n + 1) s (hv lk.plt) = retLoop n (exitTop s).1 (exitTop s).2 :=
      retLoop_succ_hv (x := lk.ctl slot (belowIp orig [])) n hc rfl rfl hvf
    rw [hr, hs.1]
    have hip : (lk.ctl slot (belowIp orig [])).ip = orig := rfl
    rw [hip]
    rw [retLoop_stop ho]
    refine ⟨rfl, hs.2.1, ?_, by simp [hs.2.2.2.1], by rw [hs.2.2.2.2.1]; exact hx, hs.2.2.2.2.2.1,
      by rw [hs.2.2.2.2.2.2.1]; exact hvf, hs.2.2.2.2.2.2.2.1, by simp [hs.2.2.2.2.2.2.2.2]⟩
    rw [hs.2.2.1]
    cases rest with
    | nil => rfl
    | cons p ps =>
      have : (lk.ctl slot (belowIp orig [])).loc ≠ p.loc := fun h => hrest p ps rfl h.symm
      simp [exitMem, hx, this]
  | cons l2 r ih =>
    intro lk s rest n hc hx hvf hrest hn
    obtain ⟨n, rfl⟩ : ∃ k, n = k + 1 := ⟨n - 1, by simp at hn; omega⟩
    simp only [expChain, List.cons_append] at hc
    have hs := exitTop_spec hc
    have hr : retLoop (n + 1) s (hv lk.plt) = retLoop n (exitTop s).1 (exitTop s).2 :=
      retLoop_succ_hv (x := lk.ctl slot (belowIp orig (l2 :: r))) n hc rfl rfl hvf
    rw [hr, hs.1]
    have hip : (lk.ctl slot (belowIp orig (l2 :: r))).ip = hv l2.plt := rfl
    rw [hip]
    have hc' : (exitTop s).1.rs.map Ent.c = expChain slot orig (l2 :: r) ++ rest := by
      rw [hs.2.1]; simp [expChain]
    have hx' : (exitTop s).1.inExc = false := by rw [hs.2.2.2.2.1]; exact hx
    have hvf' : (exitTop s).1.vf = none := by rw [hs.2.2.2.2.2.2.1]; exact hvf
    have := ih l2 (exitTop s).1 rest n hc' hx' hvf' hrest (by simp at hn; omega)
    obtain ⟨a1, a2, a3, a4, a5, a6, a7, a8, a9⟩ := this
    have hmem : (exitTop s).1.mem = s.mem := by
      rw [hs.2.2.1]
      simp [exitMem, hx, Link.ctl]
    refine ⟨a1, a2, ?_, ?_, a5, by rw [a6, hs.2.2.2.2.2.1], a7, by rw [a8, hs.2.2.2.2.2.2.2.1], ?_⟩
    · rw [a3, hmem]
    · rw [a4, hs.2.2.2.1]; simp; omega
    · rw [a9, hs.2.2.2.2.2.2.2.2]; simp [List.drop_tail] <;> rfl

end Uft.NonLocal

namespace Uft.NonLocal

/-! ### restore / rehook over a whole in-step stack -/

abbrev Sorted (fs : List Frame) : Prop := fs.Pairwise (fun a b => a.slot < b.slot)

theorem chain_locs {slot orig : Nat} {ch : List Link} {l : List Ent} (h : l.map Ent.c = expChain slot orig ch) :
    ∀ e ∈ l, e.c.loc = slot := by
  intro e he
  have : e.c ∈ l.map Ent.c := List.mem_map_of_mem he
  rw [h] at this
  exact expChain_loc this

theorem frames_locs_ne {f : Frame} {fs : List Frame} (hs : Sorted (f :: fs)) {l : List Ent}
    (h : l.map Ent.c = expFrames fs) : ∀ e ∈ l, e.c.loc ≠ f.slot := by
  intro e he
  have : e.c ∈ l.map Ent.c := List.mem_map_of_mem he
  rw [h] at this
  exact expFrames_loc_ne hs this

theorem restoreMem_frames : ∀ (fs : List Frame) (l : List Ent) (m : Mem), l.map Ent.c = expFrames fs →
    Sorted fs → (∀ f ∈ fs, isTramp f.orig = false) →
    ∀ f ∈ fs, restoreMem l m f.slot = (match f.chain with | [] => m f.slot | _ :: _ => f.orig) := by
  intro fs
  induction fs with
  | nil => intro l m _ _ _ f hf; cases hf
  | cons g fs ih =>
    intro l m hl hs ho f hf
    simp only [expFrames] at hl
    obtain ⟨l1, l2, rfl, h1, h2⟩ := List.map_eq_append_iff.mp hl
    rw [restoreMem_append]
    rcases List.mem_cons.mp hf with rfl | hf'
    · rw [restoreMem_other (frames_locs_ne hs h2)]
      cases hc : f.chain with
      | nil =>
        have : l1 = [] := by simpa [hc, expChain] using h1
        subst this; rfl
      | cons lk r =>
        simp only
        exact restoreMem_chain (ho f (by simp)) f.chain l1 m h1 (by simp [hc])
    · rw [ih l2 _ h2 (sorted_tail hs) (fun x hx => ho x (by simp [hx])) f hf']
      have hne : f.slot ≠ g.slot := Nat.ne_of_gt (sorted_head hs f hf')
      rw [restoreMem_other (fun e he => by rw [chain_locs h1 e he]; exact hne.symm)]

theorem restoreMem_frames_other {fs : List Frame} {l : List Ent} (h : l.map Ent.c = expFrames fs) {a : Nat}
    (ha : ∀ f ∈ fs, f.slot ≠ a) (m : Mem) : restoreMem l m a = m a := by
  apply restoreMem_other
  intro e he
  have : e.c ∈ l.map Ent.c := List.mem_map_of_mem he
  rw [h] at this
  obtain ⟨f, hf, e1⟩ := expFrames_loc this
  rw [e1]; exact ha f hf

theorem rehookBottomUp_frames : ∀ (fs : List Frame) (l : List Ent) (m : Mem), l.map Ent.c = expFrames fs →
    Sorted fs →
    ∀ f ∈ fs, rehookBottomUp l m f.slot = (match f.chain with | [] => m f.slot | lk :: _ => hv lk.plt) := by
  intro fs
  induction fs with
  | nil => intro l m _ _ f hf; cases hf
  | cons g fs ih =>
    intro l m hl hs f hf
    simp only [expFrames] at hl
    obtain ⟨l1, l2, rfl, h1, h2⟩ := List.map_eq_append_iff.mp hl
    rw [rehookBottomUp_append]
    rcases List.mem_cons.mp hf with rfl | hf'
    · cases hc : f.chain with
      | nil =>
        have : l1 = [] := by simpa [hc, expChain] using h1
        subst this
        simp only [rehookBottomUp]
        exact rehookBottomUp_other (frames_locs_ne hs h2) m
      | cons lk r =>
        rw [hc] at h1
        obtain ⟨e, l1', rfl, he, _⟩ := List.map_eq_cons_iff.mp h1
        simp only [rehookBottomUp]
        have h1 : e.c.loc = f.slot := by rw [he]; rfl
        have h2 : e.c.plt = lk.plt := by rw [he]; rfl
        rw [h1, upd_same, h2]
    · have hne : f.slot ≠ g.slot := Nat.ne_of_gt (sorted_head hs f hf')
      rw [rehookBottomUp_other (fun e he => by rw [chain_locs h1 e he]; exact hne.symm)]
      exact ih l2 m h2 (sorted_tail hs) f hf'

theorem rehookBottomUp_frames_other {fs : List Frame} {l : List Ent} (h : l.map Ent.c = expFrames fs) {a : Nat}
    (ha : ∀ f ∈ fs, f.slot ≠ a) (m : Mem) : rehookBottomUp l m a = m a := by
  apply rehookBottomUp_other
  intro e he
  have : e.c ∈ l.map Ent.c := List.mem_map_of_mem he
  rw [h] at this
  obtain ⟨f, hf, e1⟩ := expFrames_loc this
  rw [e1]; exact ha f hf

/-! ### mcount_rstack_rehook_exception -/

theorem popDead_spec (tid fa : Nat) : ∀ (dead : List Ctl) (n : Nat) (l : List Ent) (live : List Ctl) (ri : Nat)
    (out : List Rec), l.map Ent.c = dead ++ live → (∀ d ∈ dead, d.loc ≤ fa) →
    (∀ p ps, live = p :: ps → fa < p.loc) → dead.length ≤ n →
    (popDead tid fa n l ri out).1.map Ent.c = live ∧ (popDead tid fa n l ri out).2.1 = ri - dead.length ∧
    (popDead tid fa n l ri out).1.map Ent.depth = (l.map Ent.depth).drop dead.length := by
  intro dead
  induction dead with
  | nil =>
    intro n l live ri out hl _ hlive _
    simp only [List.nil_append] at hl
    cases n with
    | zero => simp [popDead, hl]
    | succ n =>
      cases l with
      | nil => simp [popDead, ← hl]
      | cons e r =>
        have : fa < e.c.loc := by
          cases live with
          | nil => simp at hl
          | cons p ps =>
            simp only [List.map_cons, List.cons.injEq] at hl
            rw [hl.1]; exact hlive p ps rfl
        simp [popDead, this, ← hl]
  | cons d ds ih =>
    intro n l live ri out hl hd hlive hn
    obtain ⟨n, rfl⟩ : ∃ k, n = k + 1 := ⟨n - 1, by simp at hn; omega⟩
    simp only [List.cons_append] at hl
    obtain ⟨e, r, rfl, he, hr⟩ := List.map_eq_cons_iff.mp hl
    have hle : ¬ fa < e.c.loc := by rw [he]; exact Nat.not_lt.mpr (hd d (by simp))
    simp only [popDead, hle, ↓reduceIte]
    have hw := writeEntries_c tid (e :: r)
    have hwd := writeEntries_depth tid (e :: r)
    obtain ⟨e', r', hr', _, hrc⟩ := List.map_eq_cons_iff.mp hw
    have hrd : r'.map Ent.depth = r.map Ent.depth := by
      rw [hr'] at hwd; simpa using (List.cons.inj hwd).2
    rw [hr']
    simp only [List.tail_cons]
    have key := fun o => ih n r' live (ri - 1) o (by rw [hrc, hr]) (fun x hx => hd x (by simp [hx])) hlive
      (by simp at hn; omega)
    refine ⟨(key _).1, ?_, ?_⟩
    · rw [(key _).2.1]; simp; omega
    · rw [(key _).2.2, hrd]; simp

theorem ent_ip_eta (e : Ent) : ({ e with c := { e.c with ip := e.c.ip } } : Ent) = e := by
  cases e with | mk c d w j => cases c; rfl

theorem fixChain_id {slot orig : Nat} (m : Mem) (hm : m slot = orig) :
    ∀ (ch : List Link) (lk : Link) (l : List Ent) (rest : List Ctl),
      l.map Ent.c = expChain slot orig (lk :: ch) ++ rest → (∀ p ps, rest = p :: ps → p.loc ≠ slot) →
      fixChain m l = l := by
  intro ch
  induction ch with
  | nil =>
    intro lk l rest hl hrest
    simp only [expChain, List.cons_append, List.nil_append] at hl
    obtain ⟨e, r, rfl, he, hr⟩ := List.map_eq_cons_iff.mp hl
    have hloc : e.c.loc = slot := by rw [he]; rfl
    have hip : e.c.ip = orig := by rw [he]; rfl
    have hfix : ({ e with c := { e.c with ip := m e.c.loc } } : Ent) = e := by
      rw [hloc, hm, ← hip]
    cases r with
    | nil => simp [fixChain, hfix]
    | cons e2 r2 =>
      have : e.c.loc ≠ e2.c.loc := by
        cases rest with
        | nil => simp at hr
        | cons p ps =>
          simp only [List.map_cons, List.cons.injEq] at hr
          rw [hloc, hr.1]; exact fun h => hrest p ps rfl h.symm
      simp [fixChain, this, hfix]
  | cons l2 ch ih =>
    intro lk l rest hl hrest
    simp only [expChain, List.cons_append] at hl
    obtain ⟨e, r, rfl, he, hr⟩ := List.map_eq_cons_iff.mp hl
    obtain ⟨e2, r2, rfl, he2, hr2⟩ := List.map_eq_cons_iff.mp hr
    have : e.c.loc = e2.c.loc := by rw [he, he2]; rfl
    simp only [fixChain, this, ↓reduceIte]
    have := ih l2 (e2 :: r2) rest (by simpa [expChain] using hr) hrest
    rw [this]

/-- on a stack of restored frames "do not overwrite the current return address" changes nothing -/
theorem fixChain_frames : ∀ (fs : List Frame) (l : List Ent) (m : Mem), l.map Ent.c = expFrames fs →
    Sorted fs → (∀ f ∈ fs, m f.slot = f.orig) → fixChain m l = l := by
  intro fs
  induction fs with
  | nil =>
    intro l m hl _ _
    have : l = [] := by simpa [expFrames] using hl
    subst this; rfl
  | cons f fs ih =>
    intro l m hl hs hm
    cases hc : f.chain with
    | nil =>
      simp only [expFrames, hc, expChain, List.nil_append] at hl
      exact ih l m hl (sorted_tail hs) (fun g hg => hm g (by simp [hg]))
    | cons lk ch =>
      simp only [expFrames, hc] at hl
      exact fixChain_id m (hm f (by simp)) ch lk l (expFrames fs) hl
        (fun p ps hp => expFrames_loc_ne hs (by rw [hp]; simp))

structure RehookSpec (s r : Sh) (fs : List Frame) (ndead : Nat) : Prop where
  c : r.rs.map Ent.c = expFrames fs
  hooked : ∀ f ∈ fs, r.mem f.slot = (match f.chain with | [] => s.mem f.slot | lk :: _ => hv lk.plt)
  other : ∀ a, (∀ f ∈ fs, f.slot ≠ a) → r.mem a = s.mem a
  recIdx : r.recIdx = s.recIdx - ndead
  inExc : r.inExc = s.inExc
  jbs : r.jbs = s.jbs
  vf : r.vf = s.vf
  dead : r.dead = s.dead
  depth : r.rs.map Ent.depth = (s.rs.map Ent.depth).drop ndead

theorem rehookException_spec {s : Sh} {fs : List Frame} {dead : List Ctl} {fa : Nat}
    (hc : s.rs.map Ent.c = dead ++ expFrames fs) (hs : Sorted fs) (hm : ∀ f ∈ fs, s.mem f.slot = f.orig)
    (hd : ∀ d ∈ dead, d.loc ≤ fa) (hl : ∀ f ∈ fs, f.chain ≠ [] → fa < f.slot) :
    RehookSpec s (rehookException Fix.all s fa) fs dead.length := by
  have hlive : ∀ p ps, expFrames fs = p :: ps → fa < p.loc := by
    intro p ps hp
    obtain ⟨g, hg, l, r, hgc, rfl⟩ := expFrames_head hp
    exact hl g hg (by simp [hgc])
  have hp := popDead_spec s.tid fa dead s.rs.length s.rs (expFrames fs) s.recIdx s.out hc hd hlive (by
    have := congrArg List.length hc
    simp at this; omega)
  have hfix := fixChain_frames fs _ s.mem hp.1 hs hm
  refine ⟨?_, ?_, ?_, ?_, rfl, rfl, rfl, rfl, ?_⟩
  · simp only [rehookException]; rw [hfix]; exact hp.1
  · intro f hf
    simp only [rehookException, rehookMem, Fix.all, ↓reduceIte]
    rw [hfix]
    exact rehookBottomUp_frames fs _ s.mem hp.1 hs f hf
  · intro a ha
    simp only [rehookException, rehookMem, Fix.all, ↓reduceIte]
    rw [hfix]
    exact rehookBottomUp_frames_other hp.1 ha s.mem
  · simp only [rehookException]; exact hp.2.1
  · simp only [rehookException]; rw [hfix]; exact hp.2.2

end Uft.NonLocal

namespace Uft.NonLocal

/-! ### small facts used by the per-op proofs -/

theorem sorted_slot_inj {fs : List Frame} (hs : Sorted fs) {f g : Frame} (hf : f ∈ fs) (hg : g ∈ fs)
    (h : f.slot = g.slot) : f = g := by
  induction fs with
  | nil => cases hf
  | cons a fs ih =>
    rcases List.mem_cons.mp hf with rfl | hf' <;> rcases List.mem_cons.mp hg with rfl | hg'
    · rfl
    · have := sorted_head hs g hg'; omega
    · have := sorted_head hs f hf'; omega
    · exact ih (sorted_tail hs) hf' hg'

theorem deadPart_c {m : M} {dead : List Ctl} (h : m.sh.rs.map Ent.c = dead ++ expFrames m.fs) :
    (deadPart m).map Ent.c = dead := by
  have hl := congrArg List.length h
  simp only [List.length_map, List.length_append] at hl
  simp only [deadPart]
  rw [hl, List.map_take, h]
  simp

theorem TopOk_of_nil {fs : List Frame} {m : Mem} (h : expFrames fs = []) : TopOk fs m := by
  intro p ps hp; rw [h] at hp; cases hp

theorem MemOk.mono {fs : List Frame} {m m' : Mem} (h : MemOk fs m) (he : ∀ f ∈ fs, m' f.slot = m f.slot) :
    MemOk fs m' := by
  intro f hf
  rw [he f hf]; exact h f hf

theorem expFrames_cons_nil (slot orig : Nat) (fs : List Frame) :
    expFrames (⟨slot, orig, []⟩ :: fs) = expFrames fs := by simp [expFrames, expChain]

theorem expFrames_cons_one (slot orig child : Nat) (plt : Bool) (fs : List Frame) :
    expFrames (⟨slot, orig, [⟨child, plt⟩]⟩ :: fs) = ⟨slot, orig, child, plt, false, false⟩ :: expFrames fs := by
  simp [expFrames, expChain, Link.ctl, belowIp]

/-- pushing a hooked frame below an in-step stack keeps it in step -/
theorem push_frame_ok {fs : List Frame} {s : Sh} {slot orig child : Nat} {plt : Bool}
    (hc : s.rs.map Ent.c = expFrames fs) (hx : s.inExc = false) (hs : Sorted fs)
    (ho : ∀ f ∈ fs, isTramp f.orig = false) (hlt : ∀ f ∈ fs, slot < f.slot) (hm : s.mem slot = orig)
    (hmo : MemOk fs s.mem) :
    (pushHook s slot child plt).rs.map Ent.c = expFrames (⟨slot, orig, [⟨child, plt⟩]⟩ :: fs) ∧
    MemOk (⟨slot, orig, [⟨child, plt⟩]⟩ :: fs) (pushHook s slot child plt).mem ∧
    TopOk (⟨slot, orig, [⟨child, plt⟩]⟩ :: fs) (pushHook s slot child plt).mem := by
  obtain ⟨h0, _, h2⟩ := pushHook_mem slot child plt hx hc ho
  have hnew : (pushHook s slot child plt).mem slot = hv plt := by
    cases he : expFrames fs with
    | nil => rw [h0 he]; simp
    | cons p ps =>
      have hne : p.loc ≠ slot := by
        obtain ⟨g, hg, e⟩ := expFrames_loc (by rw [he]; simp : p ∈ expFrames fs)
        rw [e]; exact Nat.ne_of_gt (hlt g hg)
      obtain ⟨g, hg, _, _, hmem⟩ := h2 p ps he hne
      rw [hmem, upd_other _ _ (Nat.ne_of_lt (hlt g hg)), upd_same]
  refine ⟨?_, ?_, ?_⟩
  · rw [pushHook_rs, expFrames_cons_one]
    simp [mkEnt, hm, hc]
  · intro f hf
    rcases List.mem_cons.mp hf with rfl | hf'
    · right; exact ⟨⟨child, plt⟩, [], rfl, hnew⟩
    · have hfs : f.slot ≠ slot := Nat.ne_of_gt (hlt f hf')
      cases he : expFrames fs with
      | nil => rw [h0 he, upd_other _ _ hfs]; exact hmo f hf'
      | cons p ps =>
        have hne : p.loc ≠ slot := by
          obtain ⟨g, hg, e⟩ := expFrames_loc (by rw [he]; simp : p ∈ expFrames fs)
          rw [e]; exact Nat.ne_of_gt (hlt g hg)
        obtain ⟨g, hg, _, _, hmem⟩ := h2 p ps he hne
        rw [hmem]
        by_cases hfg : f.slot = g.slot
        · have := sorted_slot_inj hs hf' hg hfg
          subst this
          left; simp
        · rw [upd_other _ _ hfg, upd_other _ _ hfs]; exact hmo f hf'
  · intro p ps hp
    rw [expFrames_cons_one] at hp
    simp only [List.cons.injEq] at hp
    rw [← hp.1]; exact hnew

end Uft.NonLocal

namespace Uft.NonLocal

/-! ### preservation of `Inv`, one op at a time (repaired code: `Fix.all`) -/

theorem hookEntry_hooked_noexc (fx : Fix) {s : Sh} (h : s.inExc = false) {k : Kind} (hk : k ≠ .none)
    (slot child : Nat) : hookEntry fx s k slot child = pushHook s slot child (decide (k = .plt)) := by
  cases k with
  | none => exact absurd rfl hk
  | mcount => simp [hookEntry, mcountEntry_noexc fx h]
  | plt => simp [hookEntry, plthookEntry_plain_noexc fx h]

theorem chainOf_hooked {k : Kind} (hk : k ≠ .none) (child : Nat) :
    chainOf k child = [⟨child, decide (k = .plt)⟩] := by
  cases k <;> simp_all [chainOf]

theorem jbOk_of_jbs {s s' : Sh} (h : s'.jbs = s.jbs) {j : Nat} {jb : RJb} (hj : JbOk s j jb) : JbOk s' j jb := by
  obtain ⟨srs, sidx, h1, h2⟩ := hj
  exact ⟨srs, sidx, by rw [h]; exact h1, h2⟩

/-- the call instruction's own writes: the return address, and the word below it -/
def progWrite (s : Sh) (slot orig fpw : Nat) : Sh :=
  { s with mem := upd (upd s.mem slot orig) (slot - 1) fpw }

section progWrite
variable (s : Sh) (slot orig fpw : Nat)
@[simp] theorem progWrite_rs : (progWrite s slot orig fpw).rs = s.rs := rfl
@[simp] theorem progWrite_recIdx : (progWrite s slot orig fpw).recIdx = s.recIdx := rfl
@[simp] theorem progWrite_inExc : (progWrite s slot orig fpw).inExc = s.inExc := rfl
@[simp] theorem progWrite_jbs : (progWrite s slot orig fpw).jbs = s.jbs := rfl
@[simp] theorem progWrite_vf : (progWrite s slot orig fpw).vf = s.vf := rfl
@[simp] theorem progWrite_dead : (progWrite s slot orig fpw).dead = s.dead := rfl
theorem progWrite_slot (h : 1 ≤ slot) : (progWrite s slot orig fpw).mem slot = orig := by
  simp only [progWrite]; rw [upd_other _ _ (by omega), upd_same]
theorem progWrite_below : (progWrite s slot orig fpw).mem (slot - 1) = fpw := upd_same _ _ _
theorem progWrite_above {a : Nat} (h : slot < a) : (progWrite s slot orig fpw).mem a = s.mem a := by
  simp only [progWrite]; rw [upd_other _ _ (by omega), upd_other _ _ (by omega)]
end progWrite

theorem inv_call {m : M} (hi : Inv m) {k : Kind} {child slot orig fpw : Nat}
    (hw : WellFormedOp m (.call k child slot orig fpw)) :
    Inv (step Fix.all m (.call k child slot orig fpw)) := by
  obtain ⟨h1, hlt, hor, hsm, hsp⟩ := hw
  obtain ⟨dead, hc, hd0⟩ := hi.ctl
  have hslot := progWrite_slot m.sh slot orig fpw h1
  have hfp := progWrite_below m.sh slot orig fpw
  have hkeep : ∀ f ∈ m.fs, (progWrite m.sh slot orig fpw).mem f.slot = m.sh.mem f.slot :=
    fun f hf => progWrite_above m.sh slot orig fpw (hlt f hf)
  have hsorted : ∀ ch, Sorted (⟨slot, orig, ch⟩ :: m.fs) :=
    fun ch => List.pairwise_cons.mpr ⟨fun g hg => hlt g hg, hi.sorted⟩
  have horigs : ∀ ch, ∀ f ∈ (⟨slot, orig, ch⟩ :: m.fs : List Frame), isTramp f.orig = false := by
    intro ch f hf
    rcases List.mem_cons.mp hf with rfl | hf'
    · exact hor
    · exact hi.origs f hf'
  have hstep : step Fix.all m (.call k child slot orig fpw) =
      { m with fs := ⟨slot, orig, chainOf k child⟩ :: m.fs,
               sh := hookEntry Fix.all (progWrite m.sh slot orig fpw) k slot child } := by
    simp [step, hi.nh, progWrite]
  rw [hstep]
  by_cases hk : k = .none
  · -- an unhooked callee: the shadow stack does not move
    subst hk
    refine ⟨hi.nh, hi.nd, hi.vf, ⟨dead, ?_, hd0⟩, hsorted _, horigs _, ?_, ?_, ?_, ?_⟩
    · simpa [hookEntry, chainOf, expFrames_cons_nil] using hc
    · intro f hf
      rcases List.mem_cons.mp hf with rfl | hf'
      · left; exact hslot
      · exact hi.memOk.mono hkeep f hf'
    · intro hx p ps hp
      simp only [chainOf, expFrames_cons_nil] at hp
      obtain ⟨g, hg, e⟩ := expFrames_loc (by rw [hp]; simp : p ∈ expFrames m.fs)
      show (progWrite m.sh slot orig fpw).mem p.loc = hv p.plt
      rw [e, hkeep g hg, ← e]
      exact hi.top hx p ps hp
    · intro hx f hf
      rcases List.mem_cons.mp hf with rfl | hf'
      · exact hslot
      · show (progWrite m.sh slot orig fpw).mem f.slot = f.orig
        rw [hkeep f hf']; exact hi.exc hx f hf'
    · intro j jb hj
      exact jbOk_of_jbs rfl (hi.jb j jb hj)
  · -- a hooked callee
    rw [chainOf_hooked hk]
    rcases Bool.eq_false_or_eq_true m.sh.inExc with hx | hx
    rotate_left
    · have hd : dead = [] := hd0 hx
      subst hd
      simp only [List.nil_append] at hc
      rw [hookEntry_hooked_noexc _ (by exact hx) hk]
      obtain ⟨a1, a2, a3⟩ := push_frame_ok (s := progWrite m.sh slot orig fpw)
        (slot := slot) (orig := orig) (child := child) (plt := decide (k = .plt)) hc hx hi.sorted hi.origs hlt hslot
        (hi.memOk.mono hkeep)
      refine ⟨hi.nh, by simpa using hi.nd, by simpa using hi.vf, ⟨[], by simpa using a1, fun _ => rfl⟩, hsorted _,
        horigs _, a2, fun _ => a3, ?_, ?_⟩
      · intro h; simp [hx] at h
      · intro j jb hj
        exact jbOk_of_jbs (by simp) (hi.jb j jb hj)
    · -- called from a landing pad: the entries of the unwound frames go first
      have hmem0 : ∀ f ∈ m.fs, (progWrite m.sh slot orig fpw).mem f.slot = f.orig := by
        intro f hf; rw [hkeep f hf]; exact hi.exc hx f hf
      have hdp := deadPart_c hc
      have key : ∀ fa, Separates m fa →
          RehookSpec (progWrite m.sh slot orig fpw)
            (rehookException Fix.all (progWrite m.sh slot orig fpw) fa) m.fs dead.length := by
        intro fa hsep
        apply rehookException_spec (s := progWrite m.sh slot orig fpw) (dead := dead) hc hi.sorted hmem0
        · intro d hd
          rw [← hdp] at hd
          obtain ⟨e, he, rfl⟩ := List.mem_map.mp hd
          exact hsep.1 e he
        · exact hsep.2
      have fin : ∀ (r : Sh) (plt : Bool),
          RehookSpec (progWrite m.sh slot orig fpw) r m.fs dead.length →
          Inv { m with fs := ⟨slot, orig, [⟨child, plt⟩]⟩ :: m.fs,
                       sh := pushHook { r with inExc := false } slot child plt } := by
        intro r plt sp
        have hmo : MemOk m.fs r.mem := by
          intro f hf
          rw [sp.hooked f hf]
          cases hcf : f.chain with
          | nil => left; exact hmem0 f hf
          | cons l rr => right; exact ⟨l, rr, rfl, rfl⟩
        have hrs : r.mem slot = orig := by
          rw [sp.other slot (fun f hf => Nat.ne_of_gt (hlt f hf))]; exact hslot
        obtain ⟨a1, a2, a3⟩ := push_frame_ok (s := { r with inExc := false }) (slot := slot) (orig := orig)
          (child := child) (plt := plt) sp.c rfl hi.sorted hi.origs hlt hrs hmo
        refine ⟨hi.nh, ?_, ?_, ⟨[], by simpa using a1, fun _ => rfl⟩, hsorted _, horigs _, a2, fun _ => a3, ?_, ?_⟩
        · show (pushHook { r with inExc := false } slot child plt).dead = false
          rw [pushHook_dead]; show r.dead = false; rw [sp.dead]; exact hi.nd
        · show (pushHook { r with inExc := false } slot child plt).vf = none
          rw [pushHook_vf]; show r.vf = none; rw [sp.vf]; exact hi.vf
        · intro h; simp at h
        · intro j jb hj
          refine jbOk_of_jbs ?_ (hi.jb j jb hj)
          show (pushHook { r with inExc := false } slot child plt).jbs = m.sh.jbs
          rw [pushHook_jbs]; show r.jbs = m.sh.jbs; rw [sp.jbs]; rfl
      cases k with
      | none => exact absurd rfl hk
      | mcount =>
        have hsep := hsm hx rfl
        simp only [hookEntry]
        rw [mcountEntry_exc Fix.all (by exact hx)]
        have hfa : entryFrameAddr Fix.all (progWrite m.sh slot orig fpw) slot = entryFa slot fpw := by
          simp only [entryFrameAddr]
          rw [hfp]; simp [entryFa, Fix.all]
        rw [hfa]
        exact fin _ false (key _ hsep)
      | plt =>
        have hsep := hsp hx rfl
        simp only [hookEntry]
        rw [plthookEntry_plain_exc (by exact hx)]
        exact fin _ true (key _ hsep)

end Uft.NonLocal

namespace Uft.NonLocal

theorem step_ret_eq (fx : Fix) {m : M} (hn : m.halted = false) {f : Frame} {fs : List Frame} (hf : m.fs = f :: fs) :
    step fx m .ret =
      { m with fs := fs, sh := (retLoop (m.sh.rs.length + 1) m.sh (m.sh.mem f.slot)).1,
               last := (retLoop (m.sh.rs.length + 1) m.sh (m.sh.mem f.slot)).2 } := by
  simp [step, hn, hf]

/-- `ret`: the machine stays in step and control reaches the real caller -/
theorem ret_spec {m : M} (hi : Inv m) (hw : WellFormedOp m .ret) {f : Frame} {fs : List Frame}
    (hf : m.fs = f :: fs) : Inv (step Fix.all m .ret) ∧ (step Fix.all m .ret).last = f.orig := by
  obtain ⟨_, hwx⟩ := hw
  obtain ⟨dead, hc, hd0⟩ := hi.ctl
  rw [step_ret_eq _ hi.nh hf]
  have hsorted : Sorted (f :: fs) := hf ▸ hi.sorted
  have hof : isTramp f.orig = false := hi.origs f (by rw [hf]; simp)
  have hsub : ∀ g ∈ fs, g ∈ m.fs := fun g hg => by rw [hf]; simp [hg]
  cases hch : f.chain with
  | nil =>
    -- not hooked: the slot holds the real return address, no hook runs
    have hm : m.sh.mem f.slot = f.orig := by
      rcases hi.memOk f (by rw [hf]; simp) with h | ⟨l, r, h, _⟩
      · exact h
      · rw [hch] at h; cases h
    rw [hm, retLoop_stop hof]
    have hexp : expFrames m.fs = expFrames fs := by rw [hf]; simp [expFrames, hch, expChain]
    refine ⟨⟨hi.nh, hi.nd, hi.vf, ⟨dead, by rw [← hexp]; exact hc, hd0⟩, sorted_tail hsorted,
      fun g hg => hi.origs g (hsub g hg), fun g hg => hi.memOk g (hsub g hg), ?_,
      fun hx g hg => hi.exc hx g (hsub g hg), hi.jb⟩, rfl⟩
    intro hx p ps hp
    exact hi.top hx p ps (by rw [hexp]; exact hp)
  | cons lk ch =>
    have hx : m.sh.inExc = false := by
      rcases Bool.eq_false_or_eq_true m.sh.inExc with h | h
      · have := hwx h f (by rw [hf]; simp)
        rw [hch] at this; cases this
      · exact h
    have hd : dead = [] := hd0 hx
    subst hd
    have hc' : m.sh.rs.map Ent.c = expChain f.slot f.orig (lk :: ch) ++ expFrames fs := by
      rw [hc, hf]; simp [expFrames, hch]
    have hm : m.sh.mem f.slot = hv lk.plt := by
      have := hi.top hx (lk.ctl f.slot (belowIp f.orig ch)) (expChain f.slot f.orig ch ++ expFrames fs)
        (by rw [hf]; simp [expFrames, hch, expChain])
      exact this
    have hlen : ch.length + 1 ≤ m.sh.rs.length + 1 := by
      have := congrArg List.length hc'
      simp at this; omega
    obtain ⟨r1, r2, r3, _, r5, r6, r7, r8, _⟩ := retLoop_chain hof ch lk m.sh (expFrames fs) _ hc' hx hi.vf
      (fun p ps hp => expFrames_loc_ne hsorted (by rw [hp]; simp)) hlen
    rw [hm]
    refine ⟨⟨hi.nh, by rw [r8]; exact hi.nd, r7, ⟨[], by simpa using r2, fun _ => rfl⟩, sorted_tail hsorted,
      fun g hg => hi.origs g (hsub g hg), ?_, ?_, ?_, ?_⟩, r1⟩
    · intro g hg
      show (retLoop _ m.sh (hv lk.plt)).1.mem g.slot = g.orig ∨ _
      rw [r3]
      cases hexp : expFrames fs with
      | nil => exact hi.memOk g (hsub g hg)
      | cons p ps =>
        obtain ⟨g0, hg0, l, r, hgc, rfl⟩ := expFrames_head hexp
        by_cases hgg : g.slot = g0.slot
        · have := sorted_slot_inj (sorted_tail hsorted) hg hg0 hgg
          subst this
          right; exact ⟨l, r, hgc, by simp [Link.ctl]⟩
        · simp only [Link.ctl]
          rw [upd_other _ _ hgg]; exact hi.memOk g (hsub g hg)
    · intro _ p ps hp
      show (retLoop _ m.sh (hv lk.plt)).1.mem p.loc = hv p.plt
      rw [r3, hp]; simp
    · intro h; rw [r5] at h; cases h
    · intro j jb hj
      exact jbOk_of_jbs r6 (hi.jb j jb hj)

end Uft.NonLocal

namespace Uft.NonLocal

theorem inv_tailcall {m : M} (hi : Inv m) {k : Kind} {child : Nat} (hw : WellFormedOp m (.tailcall k child)) :
    Inv (step Fix.all m (.tailcall k child)) := by
  obtain ⟨hne, hx, hk⟩ := hw
  obtain ⟨dead, hc, hd0⟩ := hi.ctl
  have hd : dead = [] := hd0 hx
  subst hd
  simp only [List.nil_append] at hc
  obtain ⟨f, fs, hf⟩ : ∃ f fs, m.fs = f :: fs := by
    cases h : m.fs with
    | nil => exact absurd h hne
    | cons f fs => exact ⟨f, fs, rfl⟩
  have hkn : k ≠ .none := by intro h; subst h; cases hk
  have hstep : step Fix.all m (.tailcall k child) =
      { m with fs := { f with chain := ⟨child, decide (k = .plt)⟩ :: f.chain } :: fs,
               sh := pushHook m.sh f.slot child (decide (k = .plt)) } := by
    simp [step, hi.nh, hf, chainOf_hooked hkn, hookEntry_hooked_noexc _ hx hkn]
  rw [hstep]
  have hsorted : Sorted (f :: fs) := hf ▸ hi.sorted
  have hsub : ∀ g ∈ fs, g ∈ m.fs := fun g hg => by rw [hf]; simp [hg]
  have hfm : f ∈ m.fs := by rw [hf]; simp
  -- the saved return address is what the slot holds: the trampoline of the tail-calling function,
  -- or the real return address when this frame was not hooked so far
  have hip : m.sh.mem f.slot = belowIp f.orig f.chain := by
    cases hch : f.chain with
    | nil =>
      rcases hi.memOk f hfm with h | ⟨l, r, h, _⟩
      · exact h
      · rw [hch] at h; cases h
    | cons l r =>
      exact hi.top hx (l.ctl f.slot (belowIp f.orig r)) (expChain f.slot f.orig r ++ expFrames fs)
        (by rw [hf]; simp [expFrames, hch, expChain])
  obtain ⟨h0, hsame, hdiff⟩ := pushHook_mem f.slot child (decide (k = .plt)) hx hc hi.origs
  have hnew : (pushHook m.sh f.slot child (decide (k = .plt))).mem f.slot = hv (decide (k = .plt)) := by
    cases he : expFrames m.fs with
    | nil => rw [h0 he]; simp
    | cons p ps =>
      by_cases hpl : p.loc = f.slot
      · rw [hsame p ps he hpl]; simp
      · obtain ⟨g, hg, _, hgl, hmem⟩ := hdiff p ps he hpl
        rw [hmem, upd_other _ _ (by rw [← hgl]; exact fun h => hpl h.symm), upd_same]
  have hexp : expFrames ({ f with chain := ⟨child, decide (k = .plt)⟩ :: f.chain } :: fs) =
      ⟨f.slot, belowIp f.orig f.chain, child, decide (k = .plt), false, false⟩ :: expFrames m.fs := by
    rw [hf]; simp [expFrames, expChain, Link.ctl]
  refine ⟨hi.nh, by simpa using hi.nd, by simpa using hi.vf, ⟨[], ?_, fun _ => rfl⟩, ?_, ?_, ?_, ?_, ?_, ?_⟩
  · rw [hexp]; simp [mkEnt, hip, hc]
  · exact List.pairwise_cons.mpr ⟨fun g hg => sorted_head hsorted g hg, sorted_tail hsorted⟩
  · intro g hg
    rcases List.mem_cons.mp hg with rfl | hg'
    · exact hi.origs f hfm
    · exact hi.origs g (hsub g hg')
  · intro g hg
    rcases List.mem_cons.mp hg with rfl | hg'
    · right; exact ⟨_, _, rfl, hnew⟩
    · have hgs : g.slot ≠ f.slot := Nat.ne_of_gt (sorted_head hsorted g hg')
      show (pushHook m.sh f.slot child (decide (k = .plt))).mem g.slot = g.orig ∨ _
      cases he : expFrames m.fs with
      | nil => rw [h0 he, upd_other _ _ hgs]; exact hi.memOk g (hsub g hg')
      | cons p ps =>
        by_cases hpl : p.loc = f.slot
        · rw [hsame p ps he hpl, upd_other _ _ hgs]; exact hi.memOk g (hsub g hg')
        · obtain ⟨g0, hg0, _, _, hmem⟩ := hdiff p ps he hpl
          rw [hmem]
          by_cases hgg : g.slot = g0.slot
          · have := sorted_slot_inj hi.sorted (hsub g hg') hg0 hgg
            subst this
            left; simp
          · rw [upd_other _ _ hgg, upd_other _ _ hgs]; exact hi.memOk g (hsub g hg')
  · intro _ p ps hp
    rw [hexp] at hp
    simp only [List.cons.injEq] at hp
    rw [← hp.1]; exact hnew
  · intro h; simp [hx] at h
  · intro j jb hj
    exact jbOk_of_jbs (by simp) (hi.jb j jb hj)

/-- memory after mcount_rstack_restore on an in-step stack (with dead entries on top) -/
theorem restore_all {m : M} (hi : Inv m) {dead : List Ctl} (hc : m.sh.rs.map Ent.c = dead ++ expFrames m.fs)
    (hdl : ∀ d ∈ deadPart m, ∀ f ∈ m.fs, d.c.loc ≠ f.slot) :
    ∀ f ∈ m.fs, restoreMem m.sh.rs m.sh.mem f.slot = f.orig := by
  intro f hf
  obtain ⟨l1, l2, hl, h1, h2⟩ := List.map_eq_append_iff.mp hc
  have hdp : deadPart m = l1 := by
    have hlen : l2.length = (expFrames m.fs).length := by rw [← h2]; simp
    simp only [deadPart, hl, List.length_append, hlen]
    simp
  rw [hl, restoreMem_append, restoreMem_frames m.fs l2 _ h2 hi.sorted hi.origs f hf]
  have hl1 : restoreMem l1 m.sh.mem f.slot = m.sh.mem f.slot :=
    restoreMem_other (fun e he => hdl e (by rw [hdp]; exact he) f hf) _
  cases hch : f.chain with
  | nil =>
    simp only
    rw [hl1]
    rcases hi.memOk f hf with h | ⟨l, r, h, _⟩
    · exact h
    · rw [hch] at h; cases h
  | cons l r => rfl

theorem inv_throw_like {m : M} (hi : Inv m) (hdl : ∀ d ∈ deadPart m, ∀ f ∈ m.fs, d.c.loc ≠ f.slot) :
    Inv { m with sh := cxaThrow m.sh } := by
  obtain ⟨dead, hc, hd0⟩ := hi.ctl
  have hr := restore_all hi hc hdl
  refine ⟨hi.nh, hi.nd, hi.vf, ⟨dead, hc, ?_⟩, hi.sorted, hi.origs, ?_, ?_, ?_, hi.jb⟩
  · intro h; simp [cxaThrow] at h
  · intro f hf; left; exact hr f hf
  · intro h; simp [cxaThrow] at h
  · intro _ f hf; exact hr f hf

theorem inv_throw {m : M} (hi : Inv m) (hw : WellFormedOp m .throw) : Inv (step Fix.all m .throw) := by
  have hstep : step Fix.all m .throw = { m with sh := cxaThrow m.sh } := by simp [step, hi.nh]
  rw [hstep]
  apply inv_throw_like hi
  obtain ⟨dead, hc, hd0⟩ := hi.ctl
  have hd : dead = [] := hd0 hw
  subst hd
  have := deadPart_c hc
  intro d hd
  have : deadPart m = [] := by simpa using this
  rw [this] at hd; cases hd

theorem inv_resume {m : M} (hi : Inv m) (hw : WellFormedOp m .resume) : Inv (step Fix.all m .resume) := by
  have hstep : step Fix.all m .resume = { m with sh := cxaThrow m.sh } := by simp [step, hi.nh]
  rw [hstep]
  exact inv_throw_like hi hw

theorem inv_unwind {m : M} (hi : Inv m) (hw : WellFormedOp m .unwind) : Inv (step Fix.all m .unwind) := by
  obtain ⟨hx, hne⟩ := hw
  obtain ⟨dead, hc, hd0⟩ := hi.ctl
  obtain ⟨f, fs, hf⟩ : ∃ f fs, m.fs = f :: fs := by
    cases h : m.fs with
    | nil => exact absurd h hne
    | cons f fs => exact ⟨f, fs, rfl⟩
  have hstep : step Fix.all m .unwind = { m with fs := fs } := by simp [step, hi.nh, hf]
  rw [hstep]
  have hsorted : Sorted (f :: fs) := hf ▸ hi.sorted
  have hsub : ∀ g ∈ fs, g ∈ m.fs := fun g hg => by rw [hf]; simp [hg]
  refine ⟨hi.nh, hi.nd, hi.vf, ⟨dead ++ expChain f.slot f.orig f.chain, ?_, ?_⟩, sorted_tail hsorted,
    fun g hg => hi.origs g (hsub g hg), fun g hg => hi.memOk g (hsub g hg), ?_,
    fun h g hg => hi.exc h g (hsub g hg), hi.jb⟩
  · rw [hc, hf]; simp [expFrames]
  · intro h; rw [hx] at h; cases h
  · intro h; rw [hx] at h; cases h

theorem inv_catch {m : M} (hi : Inv m) {fa : Nat} (hw : WellFormedOp m (.catch_ fa)) :
    Inv (step Fix.all m (.catch_ fa)) := by
  have hstep : step Fix.all m (.catch_ fa) = { m with sh := beginCatch Fix.all m.sh fa } := by simp [step, hi.nh]
  rw [hstep]
  rcases Bool.eq_false_or_eq_true m.sh.inExc with hx | hx
  rotate_left
  · have : beginCatch Fix.all m.sh fa = m.sh := by simp [beginCatch, hx]
    rw [this]; exact hi
  · obtain ⟨dead, hc, _⟩ := hi.ctl
    have hsep := hw hx
    have hdp := deadPart_c hc
    have sp : RehookSpec m.sh (rehookException Fix.all m.sh fa) m.fs dead.length := by
      apply rehookException_spec (dead := dead) hc hi.sorted (hi.exc hx)
      · intro d hd
        rw [← hdp] at hd
        obtain ⟨e, he, rfl⟩ := List.mem_map.mp hd
        exact hsep.1 e he
      · exact hsep.2
    have hbc : beginCatch Fix.all m.sh fa = { rehookException Fix.all m.sh fa with inExc := false } := by
      simp [beginCatch, hx]
    rw [hbc]
    refine ⟨hi.nh, by show (rehookException Fix.all m.sh fa).dead = false; rw [sp.dead]; exact hi.nd,
      by show (rehookException Fix.all m.sh fa).vf = none; rw [sp.vf]; exact hi.vf,
      ⟨[], by simpa using sp.c, fun _ => rfl⟩, hi.sorted, hi.origs, ?_, ?_, ?_, ?_⟩
    · intro f hf
      show (rehookException Fix.all m.sh fa).mem f.slot = f.orig ∨ _
      rw [sp.hooked f hf]
      cases hcf : f.chain with
      | nil => left; exact hi.exc hx f hf
      | cons l rr => right; exact ⟨l, rr, rfl, rfl⟩
    · intro _ p ps hp
      obtain ⟨g, hg, l, r, hgc, rfl⟩ := expFrames_head hp
      show (rehookException Fix.all m.sh fa).mem g.slot = hv l.plt
      rw [sp.hooked g hg, hgc]
    · intro h; simp at h
    · intro j jb hj
      exact jbOk_of_jbs (by show (rehookException Fix.all m.sh fa).jbs = m.sh.jbs; rw [sp.jbs]) (hi.jb j jb hj)

end Uft.NonLocal

namespace Uft.NonLocal

/-! ### jmp_buf tables -/

theorem lookup_filter_ne {β : Type} (l : List (Nat × β)) {a b : Nat} (h : b ≠ a) :
    (l.filter (fun p => p.1 != a)).lookup b = l.lookup b := by
  induction l with
  | nil => rfl
  | cons x xs ih =>
    by_cases hx : x.1 = a
    · have hb : (b == a) = false := by simp [h]
      simp [List.filter, hx, List.lookup, hb, ih]
    · have : (x.1 != a) = true := by simp [hx]
      simp only [List.filter, this, List.lookup]
      split <;> simp_all

theorem jbSet_lookup_same (l : List (Nat × (List Ent × Nat))) (a : Nat) (v : List Ent × Nat) :
    (jbSet l a v).lookup a = some v := by simp [jbSet, List.lookup]

theorem jbSet_lookup_other (l : List (Nat × (List Ent × Nat))) {a b : Nat} (v : List Ent × Nat) (h : b ≠ a) :
    (jbSet l a v).lookup b = l.lookup b := by
  have hb : (b == a) = false := by simp [h]
  simp only [jbSet, List.lookup, hb]
  exact lookup_filter_ne l h

theorem rjbSet_lookup_same (l : List (Nat × RJb)) (a : Nat) (v : RJb) : (rjbSet l a v).lookup a = some v := by
  simp [rjbSet, List.lookup]

theorem rjbSet_lookup_other (l : List (Nat × RJb)) {a b : Nat} (v : RJb) (h : b ≠ a) :
    (rjbSet l a v).lookup b = l.lookup b := by
  have hb : (b == a) = false := by simp [h]
  simp only [rjbSet, List.lookup, hb]
  exact lookup_filter_ne l h

/-- the plain store of the return address by a call instruction -/
def progStore (s : Sh) (slot orig : Nat) : Sh := { s with mem := upd s.mem slot orig }

section progStore
variable (s : Sh) (slot orig : Nat)
@[simp] theorem progStore_rs : (progStore s slot orig).rs = s.rs := rfl
@[simp] theorem progStore_recIdx : (progStore s slot orig).recIdx = s.recIdx := rfl
@[simp] theorem progStore_inExc : (progStore s slot orig).inExc = s.inExc := rfl
@[simp] theorem progStore_jbs : (progStore s slot orig).jbs = s.jbs := rfl
@[simp] theorem progStore_vf : (progStore s slot orig).vf = s.vf := rfl
@[simp] theorem progStore_dead : (progStore s slot orig).dead = s.dead := rfl
@[simp] theorem progStore_pid : (progStore s slot orig).pid = s.pid := rfl
@[simp] theorem progStore_child : (progStore s slot orig).child = s.child := rfl
@[simp] theorem progStore_out : (progStore s slot orig).out = s.out := rfl
theorem progStore_slot : (progStore s slot orig).mem slot = orig := upd_same _ _ _
theorem progStore_above {a : Nat} (h : slot < a) : (progStore s slot orig).mem a = s.mem a :=
  upd_other _ _ (by omega)
end progStore

theorem plthookEntry_setjmp {s : Sh} (h : s.inExc = false) (loc child j : Nat) :
    plthookEntry Fix.all s loc child .setjmp j = setupJmpbuf Fix.all (pushHook s loc child true) j := by
  simp [plthookEntry, h, Sym.flushes, pltSpecial]

/-- a PLT-hooked callee pushed on an in-step machine (no exception in flight) -/
theorem inv_push_plt {m : M} (hi : Inv m) {slot orig child : Nat} (hlt : ∀ f ∈ m.fs, slot < f.slot)
    (hor : isTramp orig = false) (hx : m.sh.inExc = false) :
    (pushHook (progStore m.sh slot orig) slot child true).rs.map Ent.c =
        expFrames (⟨slot, orig, [⟨child, true⟩]⟩ :: m.fs) ∧
    MemOk (⟨slot, orig, [⟨child, true⟩]⟩ :: m.fs) (pushHook (progStore m.sh slot orig) slot child true).mem ∧
    TopOk (⟨slot, orig, [⟨child, true⟩]⟩ :: m.fs) (pushHook (progStore m.sh slot orig) slot child true).mem := by
  obtain ⟨dead, hc, hd0⟩ := hi.ctl
  have hd : dead = [] := hd0 hx
  subst hd
  simp only [List.nil_append] at hc
  exact push_frame_ok (s := progStore m.sh slot orig) hc hx hi.sorted hi.origs hlt (progStore_slot _ _ _)
    (hi.memOk.mono (fun f hf => progStore_above _ _ _ (hlt f hf)))

theorem inv_setjmp {m : M} (hi : Inv m) {j child slot orig : Nat} (hw : WellFormedOp m (.setjmp j child slot orig)) :
    Inv (step Fix.all m (.setjmp j child slot orig)) ∧ (step Fix.all m (.setjmp j child slot orig)).last = orig := by
  obtain ⟨hlt, hor, hx⟩ := hw
  obtain ⟨a1, a2, a3⟩ := inv_push_plt (child := child) hi hlt hor hx
  -- the machine while setjmp itself runs
  let sh1 := setupJmpbuf Fix.all (pushHook (progStore m.sh slot orig) slot child true) j
  let S : Frame := ⟨slot, orig, [⟨child, true⟩]⟩
  let jb : RJb := ⟨m.fs, slot, orig, child, sh1.mem slot⟩
  let m1 : M := { m with fs := S :: m.fs, sh := sh1, rjb := rjbSet m.rjb j jb }
  have hpc : sh1.mem slot = PTRAMP := a3 _ _ (expFrames_cons_one slot orig child true m.fs)
  have hi1 : Inv m1 := by
    refine ⟨hi.nh, by simpa [m1, sh1, setupJmpbuf] using hi.nd, by simpa [m1, sh1, setupJmpbuf] using hi.vf,
      ⟨[], by simpa [m1, sh1, setupJmpbuf] using a1, fun _ => rfl⟩,
      List.pairwise_cons.mpr ⟨fun g hg => hlt g hg, hi.sorted⟩, ?_, a2, fun _ => a3, ?_, ?_⟩
    · intro f hf
      rcases List.mem_cons.mp hf with rfl | hf'
      · exact hor
      · exact hi.origs f hf'
    · intro h; simp [m1, sh1, setupJmpbuf, hx] at h
    · intro j' jb' hj'
      by_cases hjj : j' = j
      · subst hjj
        have : jb' = jb := by
          have := rjbSet_lookup_same m.rjb j' jb
          simp only [m1] at hj'; rw [this] at hj'; exact (Option.some.inj hj').symm
        subst this
        refine ⟨(pushHook (progStore m.sh slot orig) slot child true).rs,
          (pushHook (progStore m.sh slot orig) slot child true).recIdx, ?_, ?_, hpc, hor, hlt⟩
        · simp only [m1, sh1, setupJmpbuf]; exact jbSet_lookup_same _ _ _
        · rw [a1, expFrames_cons_one]; rfl
      · have h1 : m.rjb.lookup j' = some jb' := by
          simp only [m1] at hj'; rw [rjbSet_lookup_other _ _ hjj] at hj'; exact hj'
        obtain ⟨srs, sidx, h2, h3⟩ := hi.jb j' jb' h1
        refine ⟨srs, sidx, ?_, h3⟩
        simp only [m1, sh1, setupJmpbuf]
        rw [jbSet_lookup_other _ _ hjj]; simpa using h2
  have hpe : plthookEntry Fix.all (progStore m.sh slot orig) slot child .setjmp j = sh1 :=
    plthookEntry_setjmp (s := progStore m.sh slot orig) hx slot child j
  have hstep : step Fix.all m (.setjmp j child slot orig) = step Fix.all m1 .ret := by
    have h1 : step Fix.all m1 .ret = _ := step_ret_eq Fix.all (m := m1) hi.nh (f := S) (fs := m.fs) rfl
    have e1 : step Fix.all m (.setjmp j child slot orig) =
        { m with
          sh := (retLoop ((plthookEntry Fix.all (progStore m.sh slot orig) slot child .setjmp j).rs.length + 1)
                  (plthookEntry Fix.all (progStore m.sh slot orig) slot child .setjmp j)
                  ((plthookEntry Fix.all (progStore m.sh slot orig) slot child .setjmp j).mem slot)).1,
          last := (retLoop ((plthookEntry Fix.all (progStore m.sh slot orig) slot child .setjmp j).rs.length + 1)
                  (plthookEntry Fix.all (progStore m.sh slot orig) slot child .setjmp j)
                  ((plthookEntry Fix.all (progStore m.sh slot orig) slot child .setjmp j).mem slot)).2,
          rjb := rjbSet m.rjb j ⟨m.fs, slot, orig, child,
                  (plthookEntry Fix.all (progStore m.sh slot orig) slot child .setjmp j).mem slot⟩ } := by
      simp only [step, hi.nh, Bool.false_eq_true, ↓reduceIte]
      rfl
    rw [e1, h1, hpe]
  rw [hstep]
  exact ret_spec hi1 ⟨by simp [m1], fun h => by simp [m1, sh1, setupJmpbuf, hx] at h⟩ rfl

end Uft.NonLocal

namespace Uft.NonLocal

theorem plthookEntry_longjmp {s : Sh} (h : s.inExc = false) (loc child j : Nat) :
    plthookEntry Fix.all s loc child .longjmp j =
      { (pushHook s loc child true).record false with
        rs := setTop ((pushHook s loc child true).record false).rs
                fun e => { e with c := { e.c with ljmp := true }, jb := j } } := by
  simp [plthookEntry, h, Sym.flushes, pltSpecial]

theorem plthookEntry_vfork {s : Sh} (h : s.inExc = false) (loc child : Nat) :
    plthookEntry Fix.all s loc child .vfork 0 =
      prepareVfork { (pushHook s loc child true).record false with
        rs := setTop ((pushHook s loc child true).record false).rs
                fun e => { e with c := { e.c with vfork := true } } } := by
  simp [plthookEntry, h, Sym.flushes, pltSpecial]

theorem plthookEntry_flush {s : Sh} (h : s.inExc = false) (loc child : Nat) :
    plthookEntry Fix.all s loc child .flush 0 = (pushHook s loc child true).record false := by
  simp [plthookEntry, h, Sym.flushes, pltSpecial]

def markWritten (l : List Ent) : List Ent := l.map (fun e => { e with written := true })

theorem markWritten_c (l : List Ent) : (markWritten l).map Ent.c = l.map Ent.c := by
  simp [markWritten, List.map_map, Function.comp_def]

theorem markWritten_depth (l : List Ent) : (markWritten l).map Ent.depth = l.map Ent.depth := by
  simp [markWritten, List.map_map, Function.comp_def]

/-- __plthook_exit when the top entry is the longjmp: swap in the setjmp-time copy, leave through setjmp -/
theorem plthookExit_ljmp {s : Sh} {e : Ent} {r srs : List Ent} {sidx : Nat} {x : Ctl} {xs : List Ctl}
    (hr : s.rs = e :: r) (hl : e.c.ljmp = true) (hj : s.jbs.lookup e.jb = some (srs, sidx))
    (hs : srs.map Ent.c = x :: xs) (hp : x.plt = true) (hxl : x.ljmp = false) (hxv : x.vfork = false)
    (hvf : s.vf = none) :
    plthookExit s = exitTop { s with rs := markWritten srs, recIdx := sidx } := by
  have hs' : (markWritten srs).map Ent.c = x :: xs := by rw [markWritten_c]; exact hs
  obtain ⟨e0, r0, hr0, he0, _⟩ := List.map_eq_cons_iff.mp hs'
  have h1 : e0.c.ljmp = false := by rw [he0]; exact hxl
  have h2 : e0.c.vfork = false := by rw [he0]; exact hxv
  have h3 : e0.c.plt = true := by rw [he0]; exact hp
  have hmw : List.map (fun e => ({ e with written := true } : Ent)) srs = e0 :: r0 := hr0
  simp [plthookExit, hr, hl, restoreJmpbuf, hj, plthookExitCore, hmw, h1, h2, h3, hvf, markWritten]

theorem suffix_mem {α : Type} {a b : List α} (h : a <:+ b) {x : α} (hx : x ∈ a) : x ∈ b := by
  obtain ⟨t, rfl⟩ := h
  simp [hx]

theorem inv_longjmp {m : M} (hi : Inv m) {j child slot orig : Nat} (hw : WellFormedOp m (.longjmp j child slot orig)) :
    ∃ jb, m.rjb.lookup j = some jb ∧
      Inv (step Fix.all m (.longjmp j child slot orig)) ∧
      (step Fix.all m (.longjmp j child slot orig)).last = jb.sorig ∧
      (step Fix.all m (.longjmp j child slot orig)).fs = jb.frames := by
  obtain ⟨hlt, hor, hx, jb, hjb, hsuf⟩ := hw
  refine ⟨jb, hjb, ?_⟩
  obtain ⟨a1, a2, _⟩ := inv_push_plt (child := child) hi hlt hor hx
  obtain ⟨srs, sidx, hlk, hsc, hpc, hso, hsl⟩ := hi.jb j jb hjb
  -- the state when the real longjmp runs
  let s1 := pushHook (progStore m.sh slot orig) slot child true
  let sh1 : Sh := { s1.record false with
        rs := setTop (s1.record false).rs fun e => { e with c := { e.c with ljmp := true }, jb := j } }
  have hpe : plthookEntry Fix.all (progStore m.sh slot orig) slot child .longjmp j = sh1 :=
    plthookEntry_longjmp (s := progStore m.sh slot orig) hx slot child j
  have hrc : (s1.record false).rs.map Ent.c = expFrames (⟨slot, orig, [⟨child, true⟩]⟩ :: m.fs) := by
    rw [record_c]; exact a1
  rw [expFrames_cons_one] at hrc
  obtain ⟨e, r, hr, he, _⟩ := List.map_eq_cons_iff.mp hrc
  have hrs1 : sh1.rs = { e with c := { e.c with ljmp := true }, jb := j } :: r := by
    simp only [sh1, hr, setTop]
  have hjbs : sh1.jbs = m.sh.jbs := by simp [sh1, s1]
  -- the exit through plthook_return
  let sR : Sh := { sh1 with rs := markWritten srs, recIdx := sidx }
  have hexit : plthookExit sh1 = exitTop sR :=
    plthookExit_ljmp (x := setjmpCtl jb) hrs1 rfl (by rw [hjbs]; exact hlk) hsc rfl rfl rfl
      (by simpa [sh1, s1] using hi.vf)
  have hsRc : sR.rs.map Ent.c = setjmpCtl jb :: expFrames jb.frames := by
    show (markWritten srs).map Ent.c = _; rw [markWritten_c]; exact hsc
  have hs := exitTop_spec hsRc
  have hstep : step Fix.all m (.longjmp j child slot orig) =
      { m with fs := jb.frames, sh := (exitTop sR).1, last := jb.sorig } := by
    have e1 : step Fix.all m (.longjmp j child slot orig) =
        { m with
          fs := jb.frames
          sh := (retLoop (ljFuel (plthookEntry Fix.all (progStore m.sh slot orig) slot child .longjmp j) j)
                  (plthookEntry Fix.all (progStore m.sh slot orig) slot child .longjmp j) jb.pc).1
          last := (retLoop (ljFuel (plthookEntry Fix.all (progStore m.sh slot orig) slot child .longjmp j) j)
                  (plthookEntry Fix.all (progStore m.sh slot orig) slot child .longjmp j) jb.pc).2 } := by
      simp only [step, hi.nh, Bool.false_eq_true, ↓reduceIte, hjb]
      rfl
    rw [e1, hpe, hpc]
    have hfuel : ∀ n, retLoop (n + 2) sh1 PTRAMP = ((exitTop sR).1, jb.sorig) := by
      intro n
      rw [show n + 2 = (n + 1) + 1 from rfl, retLoop_succ_ptramp, hexit, hs.1]
      exact retLoop_stop hso _ _
    rw [show ljFuel sh1 j = (sh1.rs.length + (sh1.jbs.lookup j).elim 0 (fun x => x.1.length)) + 2 from rfl, hfuel]
  rw [hstep]
  refine ⟨?_, rfl, rfl⟩
  have hsub : ∀ g ∈ jb.frames, g ∈ m.fs := fun g hg => suffix_mem hsuf hg
  have hsorted : Sorted jb.frames := hi.sorted.sublist hsuf.sublist
  have hmR : sR.mem = s1.mem := by simp [sR, sh1]
  have hmo : MemOk jb.frames s1.mem := fun g hg => a2 g (by simp [hsub g hg])
  refine ⟨hi.nh, ?_, ?_, ⟨[], by simpa using hs.2.1, fun _ => rfl⟩, hsorted, fun g hg => hi.origs g (hsub g hg),
    ?_, ?_, ?_, ?_⟩
  · show (exitTop sR).1.dead = false
    rw [hs.2.2.2.2.2.2.2.1]; simpa [sR, sh1, s1] using hi.nd
  · show (exitTop sR).1.vf = none
    rw [hs.2.2.2.2.2.2.1]; simpa [sR, sh1, s1] using hi.vf
  · intro g hg
    show (exitTop sR).1.mem g.slot = g.orig ∨ _
    rw [hs.2.2.1, hmR]
    have hxR : sR.inExc = false := by simpa [sR, sh1, s1] using hx
    cases hexp : expFrames jb.frames with
    | nil => exact hmo g hg
    | cons p ps =>
      obtain ⟨g0, hg0, l, rr, hgc, rfl⟩ := expFrames_head hexp
      have hne : (setjmpCtl jb).loc ≠ (l.ctl g0.slot (belowIp g0.orig rr)).loc :=
        Nat.ne_of_lt (hsl g0 hg0)
      simp only [exitMem, hxR, hne, Bool.false_eq_true, ↓reduceIte]
      by_cases hgg : g.slot = g0.slot
      · have := sorted_slot_inj hsorted hg hg0 hgg
        subst this
        right; exact ⟨l, rr, hgc, by simp [Link.ctl]⟩
      · simp only [Link.ctl]
        rw [upd_other _ _ hgg]; exact hmo g hg
  · intro _ p ps hp
    show (exitTop sR).1.mem p.loc = hv p.plt
    rw [hs.2.2.1, hp]
    have hxR : sR.inExc = false := by simpa [sR, sh1, s1] using hx
    obtain ⟨g0, hg0, e0⟩ := expFrames_loc (by rw [hp]; simp : p ∈ expFrames jb.frames)
    have hne : (setjmpCtl jb).loc ≠ p.loc := by rw [e0]; exact Nat.ne_of_lt (hsl g0 hg0)
    simp [exitMem, hxR, hne]
  · intro h
    have : (exitTop sR).1.inExc = false := by rw [hs.2.2.2.2.1]; simpa [sR, sh1, s1] using hx
    rw [this] at h; cases h
  · intro j' jb' hj'
    refine jbOk_of_jbs ?_ (hi.jb j' jb' hj')
    show (exitTop sR).1.jbs = m.sh.jbs
    rw [hs.2.2.2.2.2.1]; simp [sR, sh1, s1]

end Uft.NonLocal

namespace Uft.NonLocal

theorem inv_pthreadExit {m : M} (hi : Inv m) {child slot orig : Nat}
    (hw : WellFormedOp m (.pthreadExit child slot orig)) :
    Inv (step Fix.all m (.pthreadExit child slot orig)) := by
  obtain ⟨_, _, hx⟩ := hw
  have hpe : plthookEntry Fix.all (progStore m.sh slot orig) slot child .plain 0 =
      pushHook (progStore m.sh slot orig) slot child true :=
    plthookEntry_plain_noexc Fix.all (s := progStore m.sh slot orig) hx slot child 0
  have hstep : step Fix.all m (.pthreadExit child slot orig) =
      { m with fs := [], sh := pthreadExitW Fix.all (pushHook (progStore m.sh slot orig) slot child true) } := by
    rw [← hpe]
    simp only [step, hi.nh, Bool.false_eq_true, ↓reduceIte]
    rfl
  rw [hstep]
  have hrs : (pushHook (progStore m.sh slot orig) slot child true).rs =
      mkEnt slot ((progStore m.sh slot orig).mem slot) child true (progStore m.sh slot orig).recIdx :: m.sh.rs := by
    simp
  have hw : pthreadExitW Fix.all (pushHook (progStore m.sh slot orig) slot child true) =
      { exitFilterRecord (pushHook (progStore m.sh slot orig) slot child true) false with
        mem := restoreMem (exitFilterRecord (pushHook (progStore m.sh slot orig) slot child true) false).rs
                (exitFilterRecord (pushHook (progStore m.sh slot orig) slot child true) false).mem,
        rs := [] } := by
    simp only [pthreadExitW, hrs, Fix.all, ↓reduceIte]
  rw [hw]
  refine ⟨hi.nh, by simpa using hi.nd, by simpa using hi.vf, ⟨[], rfl, fun _ => rfl⟩, List.Pairwise.nil,
    (fun f hf => by cases hf), (fun f hf => by cases hf), (fun _ => TopOk_of_nil (fs := []) rfl),
    (fun _ f hf => by cases hf), ?_⟩
  intro j jb hj
  exact jbOk_of_jbs (by simp) (hi.jb j jb hj)

theorem instep_exit {m : M} (child slot orig : Nat) : InStep (step Fix.all m (.exit child slot orig)) := by
  by_cases h : m.halted = true
  · left; simp [step, h]
  · left; simp [step, h]

theorem inv_mtdDtor {m : M} (hi : Inv m) (hw : WellFormedOp m .mtdDtor) : Inv (step Fix.all m .mtdDtor) := by
  obtain ⟨hx, hch⟩ := hw
  obtain ⟨dead, hc, hd0⟩ := hi.ctl
  have hd : dead = [] := hd0 hx
  subst hd
  have hexp : expFrames m.fs = [] := by
    have : ∀ fs : List Frame, (∀ f ∈ fs, f.chain = []) → expFrames fs = [] := by
      intro fs
      induction fs with
      | nil => intro _; rfl
      | cons f fs ih =>
        intro h
        simp [expFrames, h f (by simp), expChain, ih (fun g hg => h g (by simp [hg]))]
    exact this m.fs hch
  have hrs : m.sh.rs = [] := by simpa [hexp] using hc
  have hstep : step Fix.all m .mtdDtor = { m with sh := { m.sh with mem := m.sh.mem, rs := [] } } := by
    simp [step, hi.nh, mtdDtor, hrs, restoreMem]
  rw [hstep]
  exact ⟨hi.nh, hi.nd, hi.vf, ⟨[], by simp [hexp], fun _ => rfl⟩, hi.sorted, hi.origs, hi.memOk, hi.top, hi.exc,
    fun j jb hj => jbOk_of_jbs rfl (hi.jb j jb hj)⟩

end Uft.NonLocal

namespace Uft.NonLocal

/-! ### the depth bookkeeping (`record_idx`, `rstack->depth`) -/

/-- n-1, …, 1, 0 -/
def descFrom : Nat → List Nat
  | 0 => []
  | n + 1 => n :: descFrom n

@[simp] theorem descFrom_length (n : Nat) : (descFrom n).length = n := by
  induction n <;> simp_all [descFrom]

theorem descFrom_tail (n : Nat) : (descFrom n).tail = descFrom (n - 1) := by
  cases n <;> rfl

theorem descFrom_drop (n k : Nat) : (descFrom n).drop k = descFrom (n - k) := by
  induction k generalizing n with
  | zero => rfl
  | succ k ih =>
    cases n with
    | zero => simp [descFrom]
    | succ n => simp only [descFrom, List.drop_succ_cons]; rw [ih]; congr 1; omega

/-- every entry's depth is the number of entries below it, `record_idx` is the number of entries,
    and so it was when each jmp_buf copy was taken -/
structure TraceInv (s : Sh) : Prop where
  idx : s.recIdx = s.rs.length
  depths : s.rs.map Ent.depth = descFrom s.rs.length
  jbs : ∀ j srs sidx, s.jbs.lookup j = some (srs, sidx) → sidx = srs.length ∧ srs.map Ent.depth = descFrom srs.length

theorem TraceInv.of_eq {s t : Sh} (h : TraceInv s) (h1 : t.recIdx = s.recIdx)
    (h2 : t.rs.map Ent.depth = s.rs.map Ent.depth) (h3 : t.jbs = s.jbs) : TraceInv t := by
  have hl : t.rs.length = s.rs.length := by
    have := congrArg List.length h2; simpa using this
  exact ⟨by rw [h1, hl]; exact h.idx, by rw [h2, hl]; exact h.depths, by rw [h3]; exact h.jbs⟩

theorem trace_record {s : Sh} (h : TraceInv s) (b : Bool) : TraceInv (s.record b) :=
  h.of_eq (by simp) (by simp) (by simp)

theorem trace_pushHook {s : Sh} (h : TraceInv s) (loc child : Nat) (plt : Bool) :
    TraceInv (pushHook s loc child plt) := by
  refine ⟨by simp [h.idx], ?_, by simpa using h.jbs⟩
  simp [mkEnt, h.depths, h.idx, descFrom]

theorem trace_pop {s t : Sh} (h : TraceInv s) (hne : s.rs ≠ []) (h1 : t.recIdx = s.recIdx - 1)
    (h2 : t.rs.map Ent.depth = (s.rs.map Ent.depth).tail) (h3 : t.jbs = s.jbs) : TraceInv t := by
  have hl : t.rs.length = s.rs.length - 1 := by
    have := congrArg List.length h2; simpa using this
  refine ⟨by rw [h1, hl, h.idx], ?_, by rw [h3]; exact h.jbs⟩
  rw [h2, h.depths, descFrom_tail, hl]

theorem trace_exitTop {s : Sh} (h : TraceInv s) : TraceInv (exitTop s).1 := by
  cases hr : s.rs with
  | nil => exact h.of_eq (by simp [exitTop, hr]) (by simp [exitTop, hr]) (by simp [exitTop, hr])
  | cons e r =>
    have hs := exitTop_spec (s := s) (x := e.c) (xs := r.map Ent.c) (by rw [hr]; rfl)
    exact trace_pop h (by rw [hr]; simp) hs.2.2.2.1 hs.2.2.2.2.2.2.2.2 hs.2.2.2.2.2.1

theorem trace_dead {s : Sh} (h : TraceInv s) : TraceInv { s with dead := true } := h.of_eq rfl rfl rfl

theorem exitTop_vf (s : Sh) : (exitTop s).1.vf = s.vf := by
  cases hr : s.rs with
  | nil => simp [exitTop, hr]
  | cons e r => simp [exitTop, hr]

theorem trace_plthookExitCore {s : Sh} (h : TraceInv s) (hvf : s.vf = none) :
    TraceInv (plthookExitCore s).1 ∧ (plthookExitCore s).1.vf = none := by
  have hrv : restoreVfork s = s := by simp [restoreVfork, hvf]
  unfold plthookExitCore
  simp only [hrv, ite_self]
  split
  · exact ⟨h.of_eq rfl rfl rfl, hvf⟩
  · rename_i e r hr
    split
    · exact ⟨h.of_eq rfl rfl rfl, hvf⟩
    · have hvf1 : (if e.c.vfork = true then { s with child := true } else s).vf = none := by split <;> exact hvf
      have ht1 : TraceInv (if e.c.vfork = true then { s with child := true } else s) := by
        split
        · exact h.of_eq rfl rfl rfl
        · exact h
      simp only [hvf1, Option.isSome_none, Bool.false_eq_true, ↓reduceIte]
      split
      · exact ⟨ht1.of_eq rfl rfl rfl, by first | rfl | exact hvf1⟩
      · split
        · exact ⟨ht1.of_eq rfl rfl rfl, by first | rfl | exact hvf1⟩
        · exact ⟨trace_exitTop ht1, by rw [exitTop_vf]; exact hvf1⟩

theorem trace_restoreJmpbuf {s : Sh} (h : TraceInv s) (a : Nat) : TraceInv (restoreJmpbuf s a) := by
  simp only [restoreJmpbuf]
  cases hl : s.jbs.lookup a with
  | none => exact trace_dead h
  | some v =>
    obtain ⟨srs, sidx⟩ := v
    obtain ⟨h1, h2⟩ := h.jbs a srs sidx hl
    refine ⟨by simp [h1], ?_, h.jbs⟩
    show (markWritten srs).map Ent.depth = descFrom (markWritten srs).length
    rw [markWritten_depth, h2]; simp [markWritten]

theorem trace_plthookExit {s : Sh} (h : TraceInv s) (hvf : s.vf = none) :
    TraceInv (plthookExit s).1 ∧ (plthookExit s).1.vf = none := by
  unfold plthookExit
  split
  · rename_i e r hr
    split
    · apply trace_plthookExitCore
      · apply trace_restoreJmpbuf
        refine ⟨by simp [h.idx, hr], ?_, h.jbs⟩
        have := h.depths
        rw [hr] at this
        simpa using this
      · simp only [restoreJmpbuf]; split <;> exact hvf
    · exact trace_plthookExitCore h hvf
  · exact trace_plthookExitCore h hvf

theorem trace_retLoop : ∀ (n : Nat) (s : Sh) (v : Nat), TraceInv s → s.vf = none →
    TraceInv (retLoop n s v).1 ∧ (retLoop n s v).1.vf = none := by
  intro n
  induction n with
  | zero => intro s v h hvf; exact ⟨h, hvf⟩
  | succ n ih =>
    intro s v h hvf
    simp only [retLoop]
    split
    · exact ih _ _ (trace_exitTop h) (by rw [mcountExit, exitTop_vf]; exact hvf)
    · split
      · exact ih _ _ (trace_plthookExit h hvf).1 (trace_plthookExit h hvf).2
      · exact ⟨h, hvf⟩

theorem fixChain_depth (m : Mem) : ∀ l : List Ent, (fixChain m l).map Ent.depth = l.map Ent.depth := by
  intro l
  induction l with
  | nil => rfl
  | cons e r ih =>
    cases r with
    | nil => simp [fixChain]
    | cons e2 r2 =>
      simp only [fixChain]
      split
      · simp only [List.map_cons, List.cons.injEq, true_and]; exact ih
      · rfl

theorem trace_popDead (tid fa : Nat) : ∀ (n : Nat) (l : List Ent) (ri : Nat) (out : List Rec),
    ri = l.length → l.map Ent.depth = descFrom l.length →
    (popDead tid fa n l ri out).2.1 = (popDead tid fa n l ri out).1.length ∧
    (popDead tid fa n l ri out).1.map Ent.depth = descFrom (popDead tid fa n l ri out).1.length := by
  intro n
  induction n with
  | zero => intro l ri out h1 h2; exact ⟨h1, h2⟩
  | succ n ih =>
    intro l ri out h1 h2
    cases l with
    | nil => exact ⟨h1, h2⟩
    | cons e r =>
      simp only [popDead]
      split
      · exact ⟨h1, h2⟩
      · have hwd := writeEntries_depth tid (e :: r)
        have hwl := writeEntries_length tid (e :: r)
        obtain ⟨e', r', hr'⟩ : ∃ e' r', (writeEntries tid (e :: r)).1 = e' :: r' := by
          cases hh : (writeEntries tid (e :: r)).1 with
          | nil => rw [hh] at hwl; simp at hwl
          | cons a b => exact ⟨a, b, rfl⟩
        rw [hr'] at hwd hwl
        simp only [hr', List.tail_cons]
        have hrl : r'.length = r.length := by simpa using hwl
        apply ih
        · rw [h1, hrl]; simp
        · have := (List.cons.inj (by simpa using hwd : e'.depth :: r'.map Ent.depth = e.depth :: r.map Ent.depth)).2
          rw [this, hrl]
          have := h2
          simp only [List.map_cons, List.length_cons, descFrom, List.cons.injEq] at this
          exact this.2

theorem trace_rehookException (fx : Fix) {s : Sh} (h : TraceInv s) (fa : Nat) :
    TraceInv (rehookException fx s fa) := by
  have hp := trace_popDead s.tid fa s.rs.length s.rs s.recIdx s.out h.idx h.depths
  have hfl : (fixChain s.mem (popDead s.tid fa s.rs.length s.rs s.recIdx s.out).1).length =
      (popDead s.tid fa s.rs.length s.rs s.recIdx s.out).1.length := by
    have := congrArg List.length (fixChain_depth s.mem (popDead s.tid fa s.rs.length s.rs s.recIdx s.out).1)
    simpa using this
  refine ⟨?_, ?_, h.jbs⟩
  · simp only [rehookException]; rw [hfl]; exact hp.1
  · simp only [rehookException]; rw [fixChain_depth, hfl]; exact hp.2

theorem trace_excPre (fx : Fix) {s : Sh} (h : TraceInv s) (fa : Nat) : TraceInv (excPre fx s fa) :=
  (trace_rehookException fx h fa).of_eq rfl rfl rfl

theorem trace_mcountEntry (fx : Fix) {s : Sh} (h : TraceInv s) (loc child : Nat) :
    TraceInv (mcountEntry fx s loc child) := by
  simp only [mcountEntry]
  apply trace_pushHook
  split
  · exact trace_excPre fx h _
  · exact h

theorem setTop_depth (l : List Ent) (f : Ent → Ent) (hf : ∀ e, (f e).depth = e.depth) :
    (setTop l f).map Ent.depth = l.map Ent.depth := by
  cases l <;> simp [setTop, hf]

theorem trace_pltSpecial (fx : Fix) {s4 : Sh} (h4 : TraceInv s4) (sym : Sym) (a : Nat) :
    TraceInv (pltSpecial fx s4 sym a) := by
  cases sym with
  | setjmp =>
    refine ⟨h4.idx, h4.depths, ?_⟩
    intro j srs sidx hj
    simp only [pltSpecial, setupJmpbuf] at hj
    by_cases hja : j = a
    · subst hja
      rw [jbSet_lookup_same] at hj
      cases hj
      exact ⟨h4.idx, h4.depths⟩
    · rw [jbSet_lookup_other _ _ hja] at hj
      exact h4.jbs j srs sidx hj
  | longjmp => exact h4.of_eq rfl (setTop_depth _ _ (fun _ => rfl)) rfl
  | vfork =>
    have h5 : TraceInv { s4 with rs := setTop s4.rs fun e => { e with c := { e.c with vfork := true } } } :=
      h4.of_eq rfl (setTop_depth _ _ (fun _ => rfl)) rfl
    simp only [pltSpecial, prepareVfork]
    split
    · exact h5
    · exact h5.of_eq rfl rfl rfl
  | except => exact h4.of_eq rfl rfl rfl
  | plain => exact h4
  | flush => exact h4
  | skip => exact h4

theorem trace_plthookEntry (fx : Fix) {s : Sh} (h : TraceInv s) (loc child : Nat) (sym : Sym) (a : Nat) :
    TraceInv (plthookEntry fx s loc child sym a) := by
  simp only [plthookEntry]
  split
  · exact h
  · apply trace_pltSpecial
    have h3 : TraceInv (pushHook (if (fx.excPlt && s.inExc && sym != Sym.except) = true then excPre fx s loc else s)
        loc child true) := by
      apply trace_pushHook
      split
      · exact trace_excPre fx h _
      · exact h
    split
    · exact trace_record h3 false
    · exact h3

end Uft.NonLocal

namespace Uft.NonLocal

/-! ### fork and exec -/

theorem inv_child_flag {m : M} (hi : Inv m) (b : Bool) (p : Nat) :
    Inv { m with sh := { m.sh with child := b, pid := p } } :=
  ⟨hi.nh, hi.nd, hi.vf, hi.ctl, hi.sorted, hi.origs, hi.memOk, hi.top, hi.exc,
    fun j jb hj => jbOk_of_jbs rfl (hi.jb j jb hj)⟩

/-- fork@plt and its return, in the parent and in the child (which owns a copy of everything) -/
theorem inv_fork {m : M} (hi : Inv m) {inChild : Bool} {child slot orig : Nat}
    (hw : WellFormedOp m (.fork inChild child slot orig)) :
    Inv (step Fix.all m (.fork inChild child slot orig)) ∧
    (step Fix.all m (.fork inChild child slot orig)).last = orig := by
  obtain ⟨hlt, hor, hx⟩ := hw
  obtain ⟨a1, a2, a3⟩ := inv_push_plt (child := child) hi hlt hor hx
  let s1 := (pushHook (progStore m.sh slot orig) slot child true).record false
  let F : Frame := ⟨slot, orig, [⟨child, true⟩]⟩
  let m1 : M := { m with fs := F :: m.fs, sh := forkSide inChild s1 }
  have hpe : plthookEntry Fix.all (progStore m.sh slot orig) slot child .flush 0 = s1 :=
    plthookEntry_flush (s := progStore m.sh slot orig) hx slot child
  have hs1 : Inv { m with fs := F :: m.fs, sh := s1 } := by
    refine ⟨hi.nh, by simpa [s1] using hi.nd, by simpa [s1] using hi.vf,
      ⟨[], by simpa [s1] using a1, fun _ => rfl⟩,
      List.pairwise_cons.mpr ⟨fun g hg => hlt g hg, hi.sorted⟩, ?_, ?_, ?_, ?_, ?_⟩
    · intro f hf
      rcases List.mem_cons.mp hf with rfl | hf'
      · exact hor
      · exact hi.origs f hf'
    · show MemOk (F :: m.fs) s1.mem
      simp only [s1, record_mem]; exact a2
    · intro _
      show TopOk (F :: m.fs) s1.mem
      simp only [s1, record_mem]; exact a3
    · intro h; simp [s1, hx] at h
    · intro j jb hj
      exact jbOk_of_jbs (by simp [s1]) (hi.jb j jb hj)
  have hi1 : Inv m1 := by
    cases inChild with
    | false => exact hs1
    | true => exact inv_child_flag hs1 true (s1.pid + 1)
  have hstep : step Fix.all m (.fork inChild child slot orig) = step Fix.all m1 .ret := by
    have h1 : step Fix.all m1 .ret = _ := step_ret_eq Fix.all (m := m1) hi.nh (f := F) (fs := m.fs) rfl
    have e1 : step Fix.all m (.fork inChild child slot orig) =
        { m with
          sh := (retLoop ((forkSide inChild (plthookEntry Fix.all (progStore m.sh slot orig) slot child .flush 0)).rs.length + 1)
                  (forkSide inChild (plthookEntry Fix.all (progStore m.sh slot orig) slot child .flush 0))
                  ((forkSide inChild (plthookEntry Fix.all (progStore m.sh slot orig) slot child .flush 0)).mem slot)).1
          last := (retLoop ((forkSide inChild (plthookEntry Fix.all (progStore m.sh slot orig) slot child .flush 0)).rs.length + 1)
                  (forkSide inChild (plthookEntry Fix.all (progStore m.sh slot orig) slot child .flush 0))
                  ((forkSide inChild (plthookEntry Fix.all (progStore m.sh slot orig) slot child .flush 0)).mem slot)).2 } := by
      simp only [step, hi.nh, Bool.false_eq_true, ↓reduceIte]
      rfl
    rw [e1, h1, hpe]
  rw [hstep]
  have hx1 : m1.sh.inExc = false := by
    cases inChild <;> simp [m1, forkSide, s1, hx]
  exact ret_spec hi1 ⟨by simp [m1], fun h => by rw [hx1] at h; cases h⟩ rfl

/-- exec: whatever the shadow stack held is gone with the process image; the new image starts in step -/
theorem inv_exec {m : M} (hi : Inv m) (child slot orig : Nat) : Inv (step Fix.all m (.exec child slot orig)) := by
  have hstep : step Fix.all m (.exec child slot orig) =
      { M.init with
        sh := { Sh.init with
                out := (plthookEntry Fix.all (progStore m.sh slot orig) slot child .flush 0).out,
                pid := (plthookEntry Fix.all (progStore m.sh slot orig) slot child .flush 0).pid,
                child := (plthookEntry Fix.all (progStore m.sh slot orig) slot child .flush 0).child },
        last := m.last } := by
    simp only [step, hi.nh, Bool.false_eq_true, ↓reduceIte]
    rfl
  rw [hstep]
  exact ⟨rfl, rfl, rfl, ⟨[], rfl, fun _ => rfl⟩, List.Pairwise.nil, (fun _ h => by cases h), (fun _ h => by cases h),
    (fun _ => TopOk_of_nil (fs := []) rfl), (fun _ _ h => by cases h), (fun _ _ h => by cases h)⟩

end Uft.NonLocal

namespace Uft.NonLocal

/-! ### TraceInv along machine steps -/

/-- ops after which nothing is claimed about record depths: the thread or process ends
    (pthread_exit, exit), or the depth theorem is not proved (vforkExec: H1/H5 only) -/
def Op.noDepthClaim : Op → Bool
  | .pthreadExit .. | .exit .. | .vforkExec .. => true
  | _ => false

theorem step_halted (fx : Fix) {m : M} (h : m.halted = true) (op : Op) : step fx m op = m := by
  cases op <;> simp [step, h]

theorem trace_step {m : M} (hi : Inv m) (ht : TraceInv m.sh) {op : Op} (hw : WellFormedOp m op)
    (hnt : op.noDepthClaim = false) : TraceInv (step Fix.all m op).sh := by
  cases op with
  | call k child slot orig fpw =>
    simp only [step, hi.nh, Bool.false_eq_true, ↓reduceIte]
    have h0 : TraceInv { m.sh with mem := upd (upd m.sh.mem slot orig) (slot - 1) fpw } := ht.of_eq rfl rfl rfl
    cases k with
    | none => exact h0
    | mcount => exact trace_mcountEntry _ h0 _ _
    | plt => exact trace_plthookEntry _ h0 _ _ _ _
  | ret =>
    simp only [step, hi.nh, Bool.false_eq_true, ↓reduceIte]
    split
    · exact ht
    · exact (trace_retLoop _ _ _ ht hi.vf).1
  | tailcall k child =>
    simp only [step, hi.nh, Bool.false_eq_true, ↓reduceIte]
    split
    · exact ht
    · cases k with
      | none => exact ht
      | mcount => exact trace_mcountEntry _ ht _ _
      | plt => exact trace_plthookEntry Fix.all ht _ child .plain 0
  | setjmp j child slot orig =>
    simp only [step, hi.nh, Bool.false_eq_true, ↓reduceIte]
    have h0 : TraceInv { m.sh with mem := upd m.sh.mem slot orig } := ht.of_eq rfl rfl rfl
    have h1 := trace_plthookEntry Fix.all h0 slot child .setjmp j
    have hvf : (plthookEntry Fix.all { m.sh with mem := upd m.sh.mem slot orig } slot child .setjmp j).vf = none := by
      rw [show ({ m.sh with mem := upd m.sh.mem slot orig } : Sh) = progStore m.sh slot orig from rfl,
        plthookEntry_setjmp (s := progStore m.sh slot orig) hw.2.2]
      simpa [setupJmpbuf] using hi.vf
    exact (trace_retLoop _ _ _ h1 hvf).1
  | longjmp j child slot orig =>
    simp only [step, hi.nh, Bool.false_eq_true, ↓reduceIte]
    have h0 : TraceInv { m.sh with mem := upd m.sh.mem slot orig } := ht.of_eq rfl rfl rfl
    have h1 := trace_plthookEntry Fix.all h0 slot child .longjmp j
    have hvf : (plthookEntry Fix.all { m.sh with mem := upd m.sh.mem slot orig } slot child .longjmp j).vf = none := by
      rw [show ({ m.sh with mem := upd m.sh.mem slot orig } : Sh) = progStore m.sh slot orig from rfl,
        plthookEntry_longjmp (s := progStore m.sh slot orig) hw.2.2.1]
      simpa using hi.vf
    split
    · exact h1
    · exact (trace_retLoop _ _ _ h1 hvf).1
  | throw => simp only [step, hi.nh, Bool.false_eq_true, ↓reduceIte]; exact ht.of_eq rfl rfl rfl
  | unwind => simp only [step, hi.nh, Bool.false_eq_true, ↓reduceIte]; exact ht
  | resume => simp only [step, hi.nh, Bool.false_eq_true, ↓reduceIte]; exact ht.of_eq rfl rfl rfl
  | catch_ fa =>
    simp only [step, hi.nh, Bool.false_eq_true, ↓reduceIte, beginCatch]
    split
    · exact trace_excPre _ ht _
    · exact ht
  | pthreadExit child slot orig => simp [Op.noDepthClaim] at hnt
  | exit child slot orig => simp [Op.noDepthClaim] at hnt
  | vforkExec a b c d e => simp [Op.noDepthClaim] at hnt
  | fork inChild child slot orig =>
    simp only [step, hi.nh, Bool.false_eq_true, ↓reduceIte]
    have h0 : TraceInv { m.sh with mem := upd m.sh.mem slot orig } := ht.of_eq rfl rfl rfl
    have h1 := trace_plthookEntry Fix.all h0 slot child .flush 0
    have hvf : (plthookEntry Fix.all { m.sh with mem := upd m.sh.mem slot orig } slot child .flush 0).vf = none := by
      rw [show ({ m.sh with mem := upd m.sh.mem slot orig } : Sh) = progStore m.sh slot orig from rfl,
        plthookEntry_flush (s := progStore m.sh slot orig) hw.2.2]
      simpa using hi.vf
    cases inChild with
    | false => exact (trace_retLoop _ _ _ h1 hvf).1
    | true => exact (trace_retLoop _ _ _ (h1.of_eq (t := forkSide true _) rfl rfl rfl) hvf).1
  | exec child slot orig =>
    simp only [step, hi.nh, Bool.false_eq_true, ↓reduceIte]
    exact ⟨rfl, rfl, fun _ _ _ h => by cases h⟩
  | mtdDtor =>
    -- nothing is hooked any more: the shadow stack is already empty
    have hi' := inv_mtdDtor hi hw
    obtain ⟨hx, hch⟩ := hw
    obtain ⟨dead, hc, hd0⟩ := hi.ctl
    have hd : dead = [] := hd0 hx
    subst hd
    have hrs : m.sh.rs = [] := by
      obtain ⟨dead', hc', _⟩ := hi'.ctl
      have hexp : expFrames m.fs = [] := by
        have : (step Fix.all m .mtdDtor).fs = m.fs := by simp [step, hi.nh]
        have h2 : (step Fix.all m .mtdDtor).sh.rs = [] := by simp [step, hi.nh, mtdDtor]
        rw [h2, this] at hc'
        simp at hc'
        exact hc'.2
      simpa [hexp] using hc
    simp only [step, hi.nh, Bool.false_eq_true, ↓reduceIte, mtdDtor]
    exact ht.of_eq rfl (by simp [hrs]) rfl

end Uft.NonLocal

namespace Uft.NonLocal

/-! ### replay: display depth on coherent streams -/

structure RInv (r : RSt) (c : CSt) : Prop where
  set : r.set = c.started
  dd : c.started = true → r.dd = c.cur
  tab : ∀ d, c.seen d = true → r.tab d = d + 1
  pend : r.pend = c.afterLj

theorem rstep_coherent {r : RSt} {c : CSt} {x : RRec} (h : RInv r c) (hc : cok c x = true) :
    RInv (rstep true r x).1 (cnext c x) ∧ (rstep true r x).2 = x.depth := by
  obtain ⟨hset, hdd, htab, hpend⟩ := h
  by_cases ht : x.typ = 0
  · simp only [cok, ht, ↓reduceIte, Bool.and_eq_true, Bool.not_eq_true', beq_iff_eq] at hc
    obtain ⟨hlj, hdep⟩ := hc
    -- the display depth before this record is the record depth
    have hdd0 : (if r.set = true then r else { r with dd := x.depth, set := true }).dd = x.depth := by
      rw [hset]
      by_cases hs : c.started = true
      · simp only [hs, ↓reduceIte] at hdep ⊢
        rw [hdd hs, ← hdep]
      · simp [hs]
    have htab0 : (if r.set = true then r else { r with dd := x.depth, set := true }).tab = r.tab := by
      split <;> rfl
    cases hk : x.kind with
    | plain =>
      simp only [rstep, cnext, ht, ↓reduceIte, hk]
      refine ⟨⟨by split <;> simp_all, ?_, ?_, ?_⟩, hdd0⟩
      · intro _; simp only []; rw [hdd0]; simp
      · intro d hd; simp at hd; simp only []; rw [htab0]; exact htab d hd
      · simp; split <;> simp_all
    | setjmp =>
      simp only [rstep, cnext, ht, ↓reduceIte, hk]
      refine ⟨⟨by split <;> simp_all, ?_, ?_, ?_⟩, hdd0⟩
      · intro _; simp only []; rw [hdd0]; simp
      · intro d hd
        simp only [↓reduceIte] at hd
        by_cases hdx : d = x.depth
        · subst hdx; simp only [↓reduceIte]; rw [hdd0]
        · simp only [hdx, ↓reduceIte] at hd ⊢
          rw [htab0]; exact htab d hd
      · simp; split <;> simp_all
    | longjmp =>
      simp only [rstep, cnext, ht, ↓reduceIte, hk]
      refine ⟨⟨by split <;> simp_all, ?_, ?_, ?_⟩, hdd0⟩
      · intro _; simp only []; rw [hdd0]; simp
      · intro d hd; simp at hd; simp only []; rw [htab0]; exact htab d hd
      · simp
    | exec =>
      simp only [rstep, cnext, ht, ↓reduceIte, hk]
      refine ⟨⟨by split <;> simp_all, ?_, ?_, ?_⟩, hdd0⟩
      · intro _; rfl
      · intro d hd; simp at hd; simp only []; rw [htab0]; exact htab d hd
      · simp; split <;> simp_all
  · have hcur : (if r.set = true then r else { r with dd := x.depth + 1, set := true }).dd =
        (if c.started = true then c.cur else x.depth + 1) := by
      rw [hset]
      by_cases hs : c.started = true
      · simp only [hs, ↓reduceIte]; exact hdd hs
      · simp [hs]
    have hp0 : (if r.set = true then r else { r with dd := x.depth + 1, set := true }).pend = c.afterLj := by
      split <;> simpa using hpend
    have htab0 : (if r.set = true then r else { r with dd := x.depth + 1, set := true }).tab = r.tab := by
      split <;> rfl
    have hset0 : (if r.set = true then r else { r with dd := x.depth + 1, set := true }).set = true := by
      split <;> simp_all
    by_cases hlj : c.afterLj = true
    · simp only [cok, ht, ↓reduceIte, hlj, Bool.and_eq_true, decide_eq_true_eq] at hc
      have : r.tab x.depth = x.depth + 1 := htab _ hc.2
      simp only [rstep, cnext, ht, ↓reduceIte, Bool.true_and, hp0, hlj, htab0]
      refine ⟨⟨by simpa using hset0, ?_, ?_, by simp⟩, by simp [this]⟩
      · intro _; simp [this]
      · intro d hd; exact htab d hd
    · have hlj' : c.afterLj = false := by simpa using hlj
      simp only [cok, ht, ↓reduceIte, hlj', Bool.false_eq_true, beq_iff_eq] at hc
      simp only [rstep, cnext, ht, ↓reduceIte, Bool.true_and, hp0, hlj', Bool.false_eq_true, hcur]
      refine ⟨⟨by simpa using hset0, ?_, ?_, by simp [hp0, hlj']⟩, by omega⟩
      · intro _; show _ - 1 = x.depth; omega
      · intro d hd; simp only []; rw [htab0]; exact htab d hd

theorem rrun_coherent : ∀ (l : List RRec) (r : RSt) (c : CSt), RInv r c → coherent c l = true →
    rrun true r l = l.map (·.depth) := by
  intro l
  induction l with
  | nil => intro r c _ _; rfl
  | cons x xs ih =>
    intro r c h hc
    simp only [coherent, cstep] at hc
    by_cases hk : cok c x = true
    · simp only [hk, ↓reduceIte] at hc
      obtain ⟨h', hd⟩ := rstep_coherent h hk
      simp only [rrun, List.map_cons, hd]
      rw [ih _ _ h' hc]
    · simp [hk] at hc

/-! ### replay as it is (one global setjmp_depth) on streams whose longjmps land in the latest setjmp -/

structure RInvA (r : RSt) (c : CSt) : Prop where
  set : r.set = c.started
  dd : c.started = true → c.afterLj = false → r.dd = c.cur
  lj : c.afterLj = true → ∀ d, c.lastSj = some d → r.dd = d + 1
  last : ∀ d, c.lastSj = some d → r.last = d + 1

theorem rstep_asis {r : RSt} {c : CSt} {x : RRec} (h : RInvA r c) (hc : cok c x = true)
    (hl : latestOk c x = true) :
    RInvA (rstep false r x).1 (cnext c x) ∧ (rstep false r x).2 = x.depth := by
  obtain ⟨hset, hdd, hlj, hlast⟩ := h
  by_cases ht : x.typ = 0
  · simp only [cok, ht, ↓reduceIte, Bool.and_eq_true, Bool.not_eq_true', beq_iff_eq] at hc
    obtain ⟨haf, hdep⟩ := hc
    have hdd0 : (if r.set = true then r else { r with dd := x.depth, set := true }).dd = x.depth := by
      rw [hset]
      by_cases hs : c.started = true
      · simp only [hs, ↓reduceIte] at hdep ⊢
        rw [hdd hs haf, ← hdep]
      · simp [hs]
    have hlast0 : (if r.set = true then r else { r with dd := x.depth, set := true }).last = r.last := by
      split <;> rfl
    cases hk : x.kind with
    | plain =>
      simp only [rstep, cnext, ht, ↓reduceIte, hk]
      refine ⟨⟨by split <;> simp_all, ?_, ?_, ?_⟩, hdd0⟩
      · intro _ _; simp only []; rw [hdd0]; simp
      · intro h; simp at h
      · intro d hd; simp at hd; simp only []; rw [hlast0]; exact hlast d hd
    | setjmp =>
      simp only [rstep, cnext, ht, ↓reduceIte, hk]
      refine ⟨⟨by split <;> simp_all, ?_, ?_, ?_⟩, hdd0⟩
      · intro _ _; simp only []; rw [hdd0]; simp
      · intro h; simp at h
      · intro d hd
        simp only [↓reduceIte, Option.some.injEq] at hd
        subst hd
        simp only []; rw [hdd0]
    | longjmp =>
      simp only [rstep, cnext, ht, ↓reduceIte, hk]
      refine ⟨⟨by simp only [Bool.false_eq_true, ↓reduceIte]; split <;> simp_all, ?_, ?_, ?_⟩, hdd0⟩
      · intro _ h; simp at h
      · intro _ d hd
        simp at hd
        simp only [Bool.false_eq_true, ↓reduceIte]
        rw [hlast0]; exact hlast d hd
      · intro d hd; simp at hd; simp only [Bool.false_eq_true, ↓reduceIte]; rw [hlast0]; exact hlast d hd
    | exec =>
      simp only [rstep, cnext, ht, ↓reduceIte, hk]
      refine ⟨⟨by split <;> simp_all, ?_, ?_, ?_⟩, hdd0⟩
      · intro _ _; rfl
      · intro h; simp at h
      · intro d hd; simp at hd; simp only []; rw [hlast0]; exact hlast d hd
  · have hset0 : (if r.set = true then r else { r with dd := x.depth + 1, set := true }).set = true := by
      split <;> simp_all
    have hlast0 : (if r.set = true then r else { r with dd := x.depth + 1, set := true }).last = r.last := by
      split <;> rfl
    by_cases haf : c.afterLj = true
    · simp only [latestOk, ht, haf, ne_eq, not_false_eq_true, and_self, ↓reduceIte, beq_iff_eq] at hl
      have hcur : (if r.set = true then r else { r with dd := x.depth + 1, set := true }).dd = x.depth + 1 := by
        split
        · exact hlj haf x.depth hl
        · rfl
      simp only [rstep, cnext, ht, ↓reduceIte, Bool.false_and, Bool.false_eq_true, hcur]
      refine ⟨⟨by simpa using hset0, ?_, ?_, ?_⟩, by simp⟩
      · intro _ _; simp
      · intro h; simp at h
      · intro d hd; simp only []; rw [hlast0]; exact hlast d hd
    · have haf' : c.afterLj = false := by simpa using haf
      simp only [cok, ht, ↓reduceIte, haf', Bool.false_eq_true, beq_iff_eq] at hc
      have hcur : (if r.set = true then r else { r with dd := x.depth + 1, set := true }).dd =
          (if c.started = true then c.cur else x.depth + 1) := by
        rw [hset]
        by_cases hs : c.started = true
        · simp only [hs, ↓reduceIte]; exact hdd hs haf'
        · simp [hs]
      simp only [rstep, cnext, ht, ↓reduceIte, Bool.false_and, Bool.false_eq_true, hcur]
      refine ⟨⟨by simpa using hset0, ?_, ?_, ?_⟩, by omega⟩
      · intro _ _; show _ - 1 = x.depth; omega
      · intro h; simp at h
      · intro d hd; simp only []; rw [hlast0]; exact hlast d hd

theorem rrun_asis : ∀ (l : List RRec) (r : RSt) (c : CSt), RInvA r c → coherent c l = true →
    latestOnly c l = true → rrun false r l = l.map (·.depth) := by
  intro l
  induction l with
  | nil => intro r c _ _ _; rfl
  | cons x xs ih =>
    intro r c h hc hl
    simp only [coherent, cstep] at hc
    simp only [latestOnly, Bool.and_eq_true] at hl
    by_cases hk : cok c x = true
    · simp only [hk, ↓reduceIte] at hc
      obtain ⟨h', hd⟩ := rstep_asis h hk hl.1
      simp only [rrun, List.map_cons, hd]
      rw [ih _ _ h' hc hl.2]
    · simp [hk] at hc

end Uft.NonLocal

namespace Uft.NonLocal

/-! ### a call and its return leave the rest of the state alone (signal handlers) -/

theorem call_frame {m : M} (hi : Inv m) (hx : m.sh.inExc = false) {k : Kind} {child slot orig fpw : Nat}
    (hw : WellFormedOp m (.call k child slot orig fpw)) :
    (step Fix.all m (.call k child slot orig fpw)).fs = ⟨slot, orig, chainOf k child⟩ :: m.fs ∧
    (step Fix.all m (.call k child slot orig fpw)).sh.inExc = false ∧
    (step Fix.all m (.call k child slot orig fpw)).sh.jbs = m.sh.jbs ∧
    (step Fix.all m (.call k child slot orig fpw)).rjb = m.rjb ∧
    (step Fix.all m (.call k child slot orig fpw)).sh.recIdx = m.sh.recIdx + (chainOf k child).length ∧
    ∀ a, a ≠ slot → a ≠ slot - 1 → (∀ p ps, expFrames m.fs = p :: ps → a ≠ p.loc) →
      (step Fix.all m (.call k child slot orig fpw)).sh.mem a = m.sh.mem a := by
  obtain ⟨h1, hlt, hor, _, _⟩ := hw
  obtain ⟨dead, hc, hd0⟩ := hi.ctl
  have hd : dead = [] := hd0 hx
  subst hd
  simp only [List.nil_append] at hc
  have hstep : step Fix.all m (.call k child slot orig fpw) =
      { m with fs := ⟨slot, orig, chainOf k child⟩ :: m.fs,
               sh := hookEntry Fix.all (progWrite m.sh slot orig fpw) k slot child } := by
    simp [step, hi.nh, progWrite]
  rw [hstep]
  have hpw : ∀ a, a ≠ slot → a ≠ slot - 1 → (progWrite m.sh slot orig fpw).mem a = m.sh.mem a := by
    intro a h1 h2
    simp only [progWrite]; rw [upd_other _ _ h2, upd_other _ _ h1]
  by_cases hk : k = .none
  · subst hk
    exact ⟨rfl, hx, rfl, rfl, rfl, fun a h1 h2 _ => hpw a h1 h2⟩
  · have hhe := hookEntry_hooked_noexc Fix.all (s := progWrite m.sh slot orig fpw) hx hk slot child
    refine ⟨rfl, ?_, ?_, rfl, ?_, ?_⟩
    · show (hookEntry Fix.all (progWrite m.sh slot orig fpw) k slot child).inExc = false
      rw [hhe]; simpa using hx
    · show (hookEntry Fix.all (progWrite m.sh slot orig fpw) k slot child).jbs = m.sh.jbs
      rw [hhe]; simp
    · show (hookEntry Fix.all (progWrite m.sh slot orig fpw) k slot child).recIdx = _
      rw [hhe, chainOf_hooked hk]; simp
    · intro a ha1 ha2 ha3
      show (hookEntry Fix.all (progWrite m.sh slot orig fpw) k slot child).mem a = m.sh.mem a
      rw [hhe]
      obtain ⟨h0, _, h2⟩ := pushHook_mem (s := progWrite m.sh slot orig fpw) slot child (decide (k = .plt)) hx hc hi.origs
      cases he : expFrames m.fs with
      | nil => rw [h0 he, upd_other _ _ ha1]; exact hpw a ha1 ha2
      | cons p ps =>
        have hne : p.loc ≠ slot := by
          obtain ⟨g, hg, e⟩ := expFrames_loc (by rw [he]; simp : p ∈ expFrames m.fs)
          rw [e]; exact Nat.ne_of_gt (hlt g hg)
        obtain ⟨g, hg, _, hgl, hmem⟩ := h2 p ps he hne
        rw [hmem, upd_other _ _ (by rw [← hgl]; exact ha3 p ps he), upd_other _ _ ha1]
        exact hpw a ha1 ha2

theorem ret_frame {m : M} (hi : Inv m) (hx : m.sh.inExc = false) (hw : WellFormedOp m .ret) {f : Frame}
    {fs : List Frame} (hf : m.fs = f :: fs) :
    (step Fix.all m .ret).sh.inExc = false ∧ (step Fix.all m .ret).sh.jbs = m.sh.jbs ∧
    (step Fix.all m .ret).rjb = m.rjb ∧
    (step Fix.all m .ret).sh.recIdx = m.sh.recIdx - f.chain.length ∧
    ∀ a, (∀ p ps, expFrames fs = p :: ps → a ≠ p.loc) → (step Fix.all m .ret).sh.mem a = m.sh.mem a := by
  obtain ⟨dead, hc, hd0⟩ := hi.ctl
  have hd : dead = [] := hd0 hx
  subst hd
  rw [step_ret_eq _ hi.nh hf]
  have hsorted : Sorted (f :: fs) := hf ▸ hi.sorted
  have hof : isTramp f.orig = false := hi.origs f (by rw [hf]; simp)
  cases hch : f.chain with
  | nil =>
    have hm : m.sh.mem f.slot = f.orig := by
      rcases hi.memOk f (by rw [hf]; simp) with h | ⟨l, r, h, _⟩
      · exact h
      · rw [hch] at h; cases h
    rw [hm, retLoop_stop hof]
    exact ⟨hx, rfl, rfl, by simp, fun _ _ => rfl⟩
  | cons lk ch =>
    have hc' : m.sh.rs.map Ent.c = expChain f.slot f.orig (lk :: ch) ++ expFrames fs := by
      rw [hc, hf]; simp [expFrames, hch]
    have hm : m.sh.mem f.slot = hv lk.plt :=
      hi.top hx (lk.ctl f.slot (belowIp f.orig ch)) (expChain f.slot f.orig ch ++ expFrames fs)
        (by rw [hf]; simp [expFrames, hch, expChain])
    have hlen : ch.length + 1 ≤ m.sh.rs.length + 1 := by
      have := congrArg List.length hc'
      simp at this; omega
    obtain ⟨_, _, r3, r4, r5, r6, _, _, _⟩ := retLoop_chain hof ch lk m.sh (expFrames fs) _ hc' hx hi.vf
      (fun p ps hp => expFrames_loc_ne hsorted (by rw [hp]; simp)) hlen
    rw [hm]
    refine ⟨r5, r6, rfl, by rw [r4]; simp, ?_⟩
    intro a ha
    show (retLoop _ m.sh (hv lk.plt)).1.mem a = m.sh.mem a
    rw [r3]
    cases hexp : expFrames fs with
    | nil => rfl
    | cons p ps => exact upd_other _ _ (ha p ps hexp)

end Uft.NonLocal

namespace Uft.NonLocal

/-! ### vfork + exec -/

/-- the exit of a PLT entry that sits on top of an in-step stack (not through a return slot of the
    model's real stack: setjmp's second return, vfork's two returns) -/
theorem pop_frame_ok {fs : List Frame} {s : Sh} {x : Ctl} (hc : s.rs.map Ent.c = x :: expFrames fs)
    (hx : s.inExc = false) (hs : Sorted fs) (hlt : ∀ f ∈ fs, x.loc < f.slot) (hmo : MemOk fs s.mem) :
    (exitTop s).2 = x.ip ∧ (exitTop s).1.rs.map Ent.c = expFrames fs ∧ MemOk fs (exitTop s).1.mem ∧
    TopOk fs (exitTop s).1.mem ∧ (exitTop s).1.inExc = false ∧ (exitTop s).1.jbs = s.jbs ∧
    (exitTop s).1.vf = s.vf ∧ (exitTop s).1.dead = s.dead := by
  have h := exitTop_spec hc
  refine ⟨h.1, h.2.1, ?_, ?_, by rw [h.2.2.2.2.1]; exact hx, h.2.2.2.2.2.1, h.2.2.2.2.2.2.1, h.2.2.2.2.2.2.2.1⟩
  · intro g hg
    rw [h.2.2.1]
    cases hexp : expFrames fs with
    | nil => exact hmo g hg
    | cons p ps =>
      obtain ⟨g0, hg0, l, rr, hgc, rfl⟩ := expFrames_head hexp
      have hne : x.loc ≠ (l.ctl g0.slot (belowIp g0.orig rr)).loc := Nat.ne_of_lt (hlt g0 hg0)
      simp only [exitMem, hx, hne, Bool.false_eq_true, ↓reduceIte]
      by_cases hgg : g.slot = g0.slot
      · have := sorted_slot_inj hs hg hg0 hgg
        subst this
        right; exact ⟨l, rr, hgc, by simp [Link.ctl]⟩
      · simp only [Link.ctl]
        rw [upd_other _ _ hgg]; exact hmo g hg
  · intro p ps hp
    rw [h.2.2.1, hp]
    obtain ⟨g0, hg0, e0⟩ := expFrames_loc (by rw [hp]; simp : p ∈ expFrames fs)
    have hne : x.loc ≠ p.loc := by rw [e0]; exact Nat.ne_of_lt (hlt g0 hg0)
    simp [exitMem, hx, hne]

/-- __plthook_exit in the vfork child: new shmem, leave through the vfork entry -/
theorem plthookExit_vfork_child {s : Sh} {e : Ent} {r : List Ent} {v : VSave} (hr : s.rs = e :: r)
    (hl : e.c.ljmp = false) (hvk : e.c.vfork = true) (hp : e.c.plt = true) (hvf : s.vf = some v)
    (hpid : s.pid ≠ v.parent) : plthookExit s = exitTop { s with child := true } := by
  simp [plthookExit, plthookExitCore, hr, hl, hvk, hp, hvf, restoreVfork, hpid]

/-- __plthook_exit in the parent after the child is gone: the saved vfork entry comes back -/
theorem plthookExit_vfork_parent {s : Sh} {e : Ent} {r : List Ent} {v : VSave} (hr : s.rs = e :: r)
    (hl : e.c.ljmp = false) (hvk : e.c.vfork = false) (hvf : s.vf = some v) (hpid : s.pid = v.parent)
    (hidx : v.idx - 1 = r.length) (hp : v.ent.c.plt = true) :
    plthookExit s = exitTop { s with child := false, rs := v.ent :: r, recIdx := v.recIdx, vf := none } := by
  have hle : v.idx - 1 ≤ r.length + 1 := by omega
  have hd : List.drop (r.length + 1 - (v.idx - 1)) (e :: r) = r := by
    rw [hidx]; simp
  simp [plthookExit, plthookExitCore, hr, hl, hvk, hvf, restoreVfork, hpid, hle, hd, hp]

theorem inv_vforkExec {m : M} (hi : Inv m) {child slot orig echild eorig : Nat}
    (hw : WellFormedOp m (.vforkExec child slot orig echild eorig)) :
    Inv (step Fix.all m (.vforkExec child slot orig echild eorig)) ∧
    (step Fix.all m (.vforkExec child slot orig echild eorig)).last = orig := by
  obtain ⟨hlt, hor, heor, hx⟩ := hw
  obtain ⟨a1, a2, a3⟩ := inv_push_plt (child := child) hi hlt hor hx
  -- vfork@plt in the parent
  let s1 := pushHook (progStore m.sh slot orig) slot child true
  have hrc : (s1.record false).rs.map Ent.c = ⟨slot, orig, child, true, false, false⟩ :: expFrames m.fs := by
    rw [record_c, ← expFrames_cons_one]; exact a1
  obtain ⟨e, r, hr, he, hrr⟩ := List.map_eq_cons_iff.mp hrc
  let ev : Ent := { e with c := { e.c with vfork := true } }
  let v : VSave := ⟨m.sh.pid, r.length + 1, s1.recIdx, { ev with written := true }⟩
  let sh1 : Sh := { s1.record false with rs := ev :: r, vf := some v }
  have hpe : plthookEntry Fix.all (progStore m.sh slot orig) slot child .vfork 0 = sh1 := by
    rw [plthookEntry_vfork (s := progStore m.sh slot orig) hx]
    simp [prepareVfork, hr, setTop, sh1, v, ev, s1]
  have hsaved : sh1.mem slot = PTRAMP := by
    show (s1.record false).mem slot = PTRAMP
    rw [record_mem]; exact a3 _ _ (expFrames_cons_one slot orig child true m.fs)
  have hmem1 : sh1.mem = s1.mem := by show (s1.record false).mem = s1.mem; exact record_mem _ _
  -- the child returns from vfork
  let sC : Sh := { sh1 with pid := sh1.pid + 1 }
  have hpidC : sC.pid ≠ v.parent := by
    show (s1.record false).pid + 1 ≠ m.sh.pid
    have : (s1.record false).pid = m.sh.pid := by simp [s1, pushHook, progStore]
    omega
  have hexC : plthookExit sC = exitTop { sC with child := true } :=
    plthookExit_vfork_child (e := ev) (r := r) (v := v) rfl (by simp [ev, he]) rfl (by simp [ev, he]) rfl hpidC
  have hcC : ({ sC with child := true } : Sh).rs.map Ent.c = ⟨slot, orig, child, true, false, true⟩ :: expFrames m.fs := by
    show (ev :: r).map Ent.c = _
    simp [ev, he, hrr]
  have hmoC : MemOk m.fs ({ sC with child := true } : Sh).mem := by
    show MemOk m.fs sh1.mem
    rw [hmem1]; exact fun g hg => a2 g (by simp [hg])
  have hxC : ({ sC with child := true } : Sh).inExc = false := by
    show (s1.record false).inExc = false
    simpa [s1] using hx
  obtain ⟨c1, c2, c3, c4, c5, c6, c7, c8⟩ := pop_frame_ok (x := ⟨slot, orig, child, true, false, true⟩) hcC hxC hi.sorted
    hlt hmoC
  -- the child calls exec
  let sA := (exitTop { sC with child := true }).1
  have hpidA : sA.pid = m.sh.pid + 1 := by
    show (exitTop { sC with child := true }).1.pid = _
    have : ∀ t : Sh, (exitTop t).1.pid = t.pid := by
      intro t; cases ht : t.rs <;> simp [exitTop, ht, exitFilterRecord, autoRehook] <;> (repeat' split) <;> simp
    rw [this]; simp [sC, sh1, s1, pushHook, progStore]
  have hcE := push_frame_ok (s := progStore sA slot eorig) (slot := slot) (orig := eorig) (child := echild)
    (plt := true) c2 c5 hi.sorted hi.origs hlt (progStore_slot _ _ _)
    (c3.mono (fun f hf => progStore_above _ _ _ (hlt f hf)))
  obtain ⟨d1, d2, d3⟩ := hcE
  let s3 := (pushHook (progStore sA slot eorig) slot echild true).record false
  have hpe3 : plthookEntry Fix.all (progStore sA slot eorig) slot echild .flush 0 = s3 :=
    plthookEntry_flush (s := progStore sA slot eorig) c5 slot echild
  have hc3 : s3.rs.map Ent.c = ⟨slot, eorig, echild, true, false, false⟩ :: expFrames m.fs := by
    show ((pushHook (progStore sA slot eorig) slot echild true).record false).rs.map Ent.c = _
    rw [record_c, ← expFrames_cons_one]; exact d1
  obtain ⟨e3, r3, hr3, he3, hrr3⟩ := List.map_eq_cons_iff.mp hc3
  -- exec: the parent returns from vfork
  let sP : Sh := { s3 with pid := s3.pid - 1 }
  have hvf3 : s3.vf = some v := by
    show ((pushHook (progStore sA slot eorig) slot echild true).record false).vf = some v
    simp only [record_vf, pushHook_vf, progStore_vf]
    show (exitTop { sC with child := true }).1.vf = some v
    rw [c7]
  have hpid3 : s3.pid = m.sh.pid + 1 := by
    show ((pushHook (progStore sA slot eorig) slot echild true).record false).pid = _
    rw [record_pid]
    simp only [pushHook, autoRestore_pid]
    exact hpidA
  have hlen3 : r3.length = r.length := by
    have h1 := congrArg List.length hrr3
    have h2 := congrArg List.length hrr
    simp at h1 h2; omega
  have hexP : plthookExit sP =
      exitTop { sP with child := false, rs := v.ent :: r3, recIdx := v.recIdx, vf := none } :=
    plthookExit_vfork_parent (e := e3) (r := r3) (v := v) hr3 (by simp [he3]) (by simp [he3]) hvf3
      (by show s3.pid - 1 = m.sh.pid; rw [hpid3]; simp) (by show r.length + 1 - 1 = r3.length; omega)
      (by simp [v, ev, he])
  let sQ : Sh := { sP with child := false, rs := v.ent :: r3, recIdx := v.recIdx, vf := none }
  have hcQ : sQ.rs.map Ent.c = ⟨slot, orig, child, true, false, true⟩ :: expFrames m.fs := by
    show (v.ent :: r3).map Ent.c = _
    simp [v, ev, he, hrr3]
  have hmoQ : MemOk m.fs sQ.mem := by
    show MemOk m.fs s3.mem
    show MemOk m.fs ((pushHook (progStore sA slot eorig) slot echild true).record false).mem
    rw [record_mem]; exact fun g hg => d2 g (by simp [hg])
  have hxQ : sQ.inExc = false := by
    show ((pushHook (progStore sA slot eorig) slot echild true).record false).inExc = false
    simpa using c5
  obtain ⟨q1, q2, q3, q4, q5, q6, q7, q8⟩ := pop_frame_ok (x := ⟨slot, orig, child, true, false, true⟩) hcQ hxQ hi.sorted
    hlt hmoQ
  have hstep : step Fix.all m (.vforkExec child slot orig echild eorig) =
      { m with sh := (exitTop sQ).1, last := orig } := by
    have e1 : step Fix.all m (.vforkExec child slot orig echild eorig) =
        { m with
          sh := (retLoop ((plthookEntry Fix.all (progStore (retLoop (sh1.rs.length + 1) sC (sh1.mem slot)).1 slot eorig)
                            slot echild .flush 0).rs.length + 1)
                  { plthookEntry Fix.all (progStore (retLoop (sh1.rs.length + 1) sC (sh1.mem slot)).1 slot eorig)
                      slot echild .flush 0 with
                    pid := (plthookEntry Fix.all (progStore (retLoop (sh1.rs.length + 1) sC (sh1.mem slot)).1 slot eorig)
                      slot echild .flush 0).pid - 1 } (sh1.mem slot)).1
          last := (retLoop ((plthookEntry Fix.all (progStore (retLoop (sh1.rs.length + 1) sC (sh1.mem slot)).1 slot eorig)
                            slot echild .flush 0).rs.length + 1)
                  { plthookEntry Fix.all (progStore (retLoop (sh1.rs.length + 1) sC (sh1.mem slot)).1 slot eorig)
                      slot echild .flush 0 with
                    pid := (plthookEntry Fix.all (progStore (retLoop (sh1.rs.length + 1) sC (sh1.mem slot)).1 slot eorig)
                      slot echild .flush 0).pid - 1 } (sh1.mem slot)).2 } := by
      simp only [step, hi.nh, Bool.false_eq_true, ↓reduceIte]
      rw [show ({ m.sh with mem := upd m.sh.mem slot orig } : Sh) = progStore m.sh slot orig from rfl, hpe]
      rfl
    rw [e1, hsaved]
    have hA : retLoop (sh1.rs.length + 1) sC PTRAMP = (sA, orig) := by
      rw [retLoop_succ_ptramp, hexC, c1]
      exact retLoop_stop hor _ _
    rw [hA]
    show ({ m with
        sh := (retLoop ((plthookEntry Fix.all (progStore sA slot eorig) slot echild .flush 0).rs.length + 1)
                { plthookEntry Fix.all (progStore sA slot eorig) slot echild .flush 0 with
                  pid := (plthookEntry Fix.all (progStore sA slot eorig) slot echild .flush 0).pid - 1 } PTRAMP).1
        last := (retLoop ((plthookEntry Fix.all (progStore sA slot eorig) slot echild .flush 0).rs.length + 1)
                { plthookEntry Fix.all (progStore sA slot eorig) slot echild .flush 0 with
                  pid := (plthookEntry Fix.all (progStore sA slot eorig) slot echild .flush 0).pid - 1 } PTRAMP).2 } : M) = _
    rw [hpe3]
    have hB : retLoop (s3.rs.length + 1) sP PTRAMP = ((exitTop sQ).1, orig) := by
      rw [retLoop_succ_ptramp, hexP, q1]
      exact retLoop_stop hor _ _
    rw [hB]
  rw [hstep]
  refine ⟨⟨hi.nh, ?_, ?_, ⟨[], by simpa using q2, fun _ => rfl⟩, hi.sorted, hi.origs, q3, fun _ => q4, ?_, ?_⟩, rfl⟩
  · show (exitTop sQ).1.dead = false
    rw [q8]
    show s3.dead = false
    show ((pushHook (progStore sA slot eorig) slot echild true).record false).dead = false
    simp only [record_dead, pushHook_dead, progStore_dead]
    show (exitTop { sC with child := true }).1.dead = false
    rw [c8]
    show (s1.record false).dead = false
    simpa [s1] using hi.nd
  · show (exitTop sQ).1.vf = none
    rw [q7]
  · intro h
    have : (exitTop sQ).1.inExc = false := q5
    rw [this] at h; cases h
  · intro j jb hj
    refine jbOk_of_jbs ?_ (hi.jb j jb hj)
    show (exitTop sQ).1.jbs = m.sh.jbs
    rw [q6]
    show ((pushHook (progStore sA slot eorig) slot echild true).record false).jbs = m.sh.jbs
    simp only [record_jbs, pushHook_jbs, progStore_jbs]
    show (exitTop { sC with child := true }).1.jbs = m.sh.jbs
    rw [c6]
    show (s1.record false).jbs = m.sh.jbs
    simp [s1]

end Uft.NonLocal

namespace Uft.NonLocal

/-! ### the record side writes a coherent stream -/

/-- the coherence checker as a fold -/
def crun : CSt → List RRec → Option CSt
  | c, [] => some c
  | c, r :: rs => match cstep c r with
    | none => none
    | some c' => crun c' rs

theorem coherent_iff_crun (c : CSt) (l : List RRec) : coherent c l = (crun c l).isSome := by
  induction l generalizing c with
  | nil => rfl
  | cons r rs ih =>
    simp only [coherent, crun]
    cases cstep c r with
    | none => rfl
    | some c' => exact ih c'

theorem crun_append (c : CSt) (a b : List RRec) : crun c (a ++ b) = (crun c a).bind (fun c' => crun c' b) := by
  induction a generalizing c with
  | nil => rfl
  | cons r rs ih =>
    simp only [List.cons_append, crun]
    cases cstep c r with
    | none => rfl
    | some c' => exact ih c'

theorem crun_snoc {c c1 : CSt} {a : List RRec} {r : RRec} (h : crun c a = some c1) (hk : cok c1 r = true) :
    crun c (a ++ [r]) = some (cnext c1 r) := by
  rw [crun_append, h]
  simp [crun, cstep, hk]

def toRRecs (l : List Rec) : List RRec := l.map toRRec

theorem taskStream_append_tid0 (out new : List Rec) (h : ∀ r ∈ new, r.tid = 0) :
    taskStream (out ++ new) = taskStream out ++ toRRecs new := by
  simp only [taskStream, List.filter_append, List.map_append, toRRecs]
  congr 2
  apply List.filter_eq_self.mpr
  intro r hr
  simp [h r hr]

/-- number of entries whose ENTRY record is out -/
def wc : List Ent → Nat
  | [] => 0
  | e :: r => (if e.written then 1 else 0) + wc r

def AllW (l : List Ent) : Prop := ∀ e ∈ l, e.written = true

/-- WRITTEN is downward closed -/
def WOk : List Ent → Prop
  | [] => True
  | e :: r => (e.written = true → AllW r) ∧ WOk r

/-- no entry on the stack is a longjmp or an exec: those never stay on the stack between two steps -/
def NoJump (l : List Ent) : Prop := ∀ e ∈ l, symKind e.c.child ≠ .longjmp ∧ symKind e.c.child ≠ .exec

theorem wc_allW {l : List Ent} (h : AllW l) : wc l = l.length := by
  induction l with
  | nil => rfl
  | cons e r ih =>
    simp only [wc, h e (by simp), ↓reduceIte, List.length_cons]
    rw [ih (fun x hx => h x (by simp [hx]))]; omega

theorem WOk_allW {l : List Ent} (h : AllW l) : WOk l := by
  induction l with
  | nil => trivial
  | cons e r ih =>
    exact ⟨fun _ x hx => h x (by simp [hx]), ih (fun x hx => h x (by simp [hx]))⟩

def SeenLe (c c' : CSt) : Prop := ∀ d, c.seen d = true → c'.seen d = true

theorem SeenLe.refl (c : CSt) : SeenLe c c := fun _ h => h
theorem SeenLe.trans {a b c : CSt} (h1 : SeenLe a b) (h2 : SeenLe b c) : SeenLe a c := fun d h => h2 d (h1 d h)

/-- the checker state `c` after the records so far fits the stack `l` -/
structure Sync (c : CSt) (l : List Ent) : Prop where
  af : c.afterLj = false
  cur : c.cur = wc l
  st : c.started = false → wc l = 0
  wok : WOk l
  dep : l.map Ent.depth = descFrom l.length

theorem Sync.tail {c : CSt} {e : Ent} {r : List Ent} (h : Sync c (e :: r)) (he : e.written = false) : Sync c r := by
  refine ⟨h.af, ?_, ?_, h.wok.2, ?_⟩
  · rw [h.cur]; simp [wc, he]
  · intro hs; have := h.st hs; simpa [wc, he] using this
  · have := h.dep
    simp only [List.map_cons, List.length_cons, descFrom, List.cons.injEq] at this
    exact this.2

theorem Sync.head_depth {c : CSt} {e : Ent} {r : List Ent} (h : Sync c (e :: r)) : e.depth = r.length := by
  have := h.dep
  simp only [List.map_cons, List.length_cons, descFrom, List.cons.injEq] at this
  exact this.1

theorem cnext_entry_props (c : CSt) (e : Ent) :
    (cnext c (toRRec (entryRec 0 e))).started = true ∧
    (cnext c (toRRec (entryRec 0 e))).afterLj = decide (symKind e.c.child = .longjmp) ∧
    (cnext c (toRRec (entryRec 0 e))).cur = (if symKind e.c.child = .exec then 0 else e.depth + 1) ∧
    SeenLe c (cnext c (toRRec (entryRec 0 e))) ∧
    (symKind e.c.child = .setjmp → (cnext c (toRRec (entryRec 0 e))).seen e.depth = true) := by
  refine ⟨by simp [cnext, toRRec, entryRec], rfl, rfl, ?_, ?_⟩
  · intro d hd
    simp only [cnext, toRRec, entryRec, ↓reduceIte]
    by_cases hk : symKind e.c.child = .setjmp
    · simp only [hk, ↓reduceIte]; by_cases hde : d = e.depth <;> simp [hde, hd]
    · simp only [hk, ↓reduceIte]; exact hd
  · intro hk
    simp [cnext, toRRec, entryRec, hk]

/-- record_trace_data's ENTRY part on a stack that fits the stream: afterwards everything is written and
    the checker has accepted every new record -/
theorem writeEntries_stream : ∀ (l : List Ent) (c : CSt), Sync c l → NoJump l →
    ∃ c', crun c (toRRecs (writeEntries 0 l).2) = some c' ∧ c'.afterLj = false ∧ c'.cur = l.length ∧
      SeenLe c c' ∧ (c.started = true → c'.started = true) ∧ AllW (writeEntries 0 l).1 ∧
      (∀ e r, l = e :: r → e.written = false → c'.started = true ∧
        (symKind e.c.child = .setjmp → c'.seen e.depth = true)) := by
  intro l
  induction l with
  | nil =>
    intro c h _
    exact ⟨c, rfl, h.af, by rw [h.cur]; rfl, SeenLe.refl c, id, (fun _ h => by cases h), (fun _ _ h => by cases h)⟩
  | cons e r ih =>
    intro c h hn
    by_cases hw : e.written = true
    · have hall : AllW (e :: r) := by
        intro x hx
        rcases List.mem_cons.mp hx with rfl | hx'
        · exact hw
        · exact h.wok.1 hw x hx'
      refine ⟨c, by simp [writeEntries, hw, toRRecs, crun], h.af, by rw [h.cur, wc_allW hall], SeenLe.refl c, id, ?_, ?_⟩
      · simpa [writeEntries, hw] using hall
      · intro e' r' he hf
        cases he; rw [hw] at hf; cases hf
    · have hw' : e.written = false := by simpa using hw
      obtain ⟨c1, h1, haf1, hcur1, hs1, hst1, hall1, _⟩ := ih c (h.tail hw') (fun x hx => hn x (by simp [hx]))
      have hd := h.head_depth
      have hk : cok c1 (toRRec (entryRec 0 e)) = true := by
        simp only [cok, toRRec, entryRec, ↓reduceIte, haf1, Bool.not_false, Bool.true_and, beq_iff_eq]
        split
        · rw [hcur1, hd]
        · rfl
      obtain ⟨p1, p2, p3, p4, p5⟩ := cnext_entry_props c1 e
      have hne := hn e (by simp)
      refine ⟨cnext c1 (toRRec (entryRec 0 e)), ?_, ?_, ?_, hs1.trans p4, fun _ => p1, ?_, ?_⟩
      · simp only [writeEntries, hw', Bool.false_eq_true, ↓reduceIte, toRRecs, List.map_append, List.map_cons,
          List.map_nil]
        exact crun_snoc h1 hk
      · rw [p2]; simp [hne.1]
      · rw [p3]; simp [hne.2, hd]
      · simp only [writeEntries, hw', Bool.false_eq_true, ↓reduceIte]
        intro x hx
        rcases List.mem_cons.mp hx with rfl | hx'
        · rfl
        · exact hall1 x hx'
      · intro e' r' he _
        cases he
        exact ⟨p1, p5⟩

end Uft.NonLocal

namespace Uft.NonLocal

theorem wc_congr : ∀ {l l' : List Ent}, l.map Ent.written = l'.map Ent.written → wc l = wc l' := by
  intro l
  induction l with
  | nil => intro l' h; cases l' with
    | nil => rfl
    | cons a b => simp at h
  | cons e r ih =>
    intro l' h
    cases l' with
    | nil => simp at h
    | cons a b =>
      simp only [List.map_cons, List.cons.injEq] at h
      simp only [wc, h.1, ih h.2]

theorem AllW_congr {l l' : List Ent} (h : l.map Ent.written = l'.map Ent.written) (ha : AllW l) : AllW l' := by
  intro e he
  have : e.written ∈ l'.map Ent.written := List.mem_map_of_mem he
  rw [← h] at this
  obtain ⟨x, hx, e1⟩ := List.mem_map.mp this
  rw [← e1]; exact ha x hx

theorem WOk_congr : ∀ {l l' : List Ent}, l.map Ent.written = l'.map Ent.written → WOk l → WOk l' := by
  intro l
  induction l with
  | nil => intro l' h _; cases l' with
    | nil => trivial
    | cons a b => simp at h
  | cons e r ih =>
    intro l' h hw
    cases l' with
    | nil => simp at h
    | cons a b =>
      simp only [List.map_cons, List.cons.injEq] at h
      exact ⟨fun ha => AllW_congr h.2 (hw.1 (by rw [h.1]; exact ha)), ih h.2 hw.2⟩

theorem Sync.congr {c : CSt} {l l' : List Ent} (h : Sync c l) (hw : l.map Ent.written = l'.map Ent.written)
    (hd : l.map Ent.depth = l'.map Ent.depth) : Sync c l' := by
  have hl : l'.length = l.length := by
    have := congrArg List.length hd; simp at this; exact this.symm
  exact ⟨h.af, by rw [h.cur, wc_congr hw], fun hs => by rw [← wc_congr hw]; exact h.st hs, WOk_congr hw h.wok,
    by rw [← hd, hl]; exact h.dep⟩

theorem NoJump.congr {l l' : List Ent} (h : NoJump l) (hc : l.map Ent.c = l'.map Ent.c) : NoJump l' := by
  intro e he
  have : e.c ∈ l'.map Ent.c := List.mem_map_of_mem he
  rw [← hc] at this
  obtain ⟨x, hx, e1⟩ := List.mem_map.mp this
  rw [← e1]; exact h x hx

theorem Sync_allW {c : CSt} {l : List Ent} (haf : c.afterLj = false) (hall : AllW l) (hcur : c.cur = l.length)
    (hst : c.started = true) (hd : l.map Ent.depth = descFrom l.length) : Sync c l :=
  ⟨haf, by rw [hcur, wc_allW hall], (fun h => by rw [hst] at h; cases h), WOk_allW hall, hd⟩

theorem entryRec_tid (t : Nat) (e : Ent) : (entryRec t e).tid = t := rfl
theorem exitRec_tid (t : Nat) (e : Ent) : (exitRec t e).tid = t := rfl

theorem writeEntries_tid (t : Nat) : ∀ l : List Ent, ∀ r ∈ (writeEntries t l).2, r.tid = t := by
  intro l
  induction l with
  | nil => intro r hr; simp [writeEntries] at hr
  | cons e rs ih =>
    intro r hr
    simp only [writeEntries] at hr
    split at hr
    · simp at hr
    · simp only [List.mem_append, List.mem_cons, List.not_mem_nil, or_false] at hr
      rcases hr with hr | hr
      · exact ih r hr
      · rw [hr]; rfl

/-- the records written so far are accepted by the checker, whose state fits the shadow stack -/
structure SOk (s : Sh) (c : CSt) : Prop where
  child : s.child = false
  run : crun CSt.init (taskStream s.out) = some c
  sync : Sync c s.rs
  idx : s.recIdx = s.rs.length

theorem cok_exit {c : CSt} {e : Ent} {n : Nat} (haf : c.afterLj = false) (hcur : c.cur = n + 1) (hd : e.depth = n)
    (hst : c.started = true) : cok c (toRRec (exitRec 0 e)) = true := by
  simp [cok, toRRec, exitRec, haf, hst, hcur, hd]

theorem cnext_exit_props (c : CSt) (e : Ent) :
    (cnext c (toRRec (exitRec 0 e))).started = true ∧ (cnext c (toRRec (exitRec 0 e))).afterLj = false ∧
    (cnext c (toRRec (exitRec 0 e))).cur = e.depth ∧ (cnext c (toRRec (exitRec 0 e))).seen = c.seen := by
  simp [cnext, toRRec, exitRec]

theorem autoRehook_child (t : Sh) : (autoRehook t).child = t.child := by
  unfold autoRehook; split <;> (try split) <;> (try split) <;> rfl
theorem autoRehook_out (t : Sh) : (autoRehook t).out = t.out := by
  unfold autoRehook; split <;> (try split) <;> (try split) <;> rfl

/-- the exit of the top entry (mcount_exit / plthook_exit after `again:`) -/
theorem stream_exitTop {s : Sh} {c : CSt} (h : SOk s c) (hn : NoJump s.rs) {e : Ent} {r : List Ent}
    (hr : s.rs = e :: r) :
    ∃ c', SOk (exitTop s).1 c' ∧ SeenLe c c' ∧ c'.started = true ∧ NoJump (exitTop s).1.rs ∧
      (symKind e.c.child = .setjmp → c'.seen e.depth = true ∨ e.written = true) := by
  have htid : s.tid = 0 := by simp [Sh.tid, h.child]
  have hsync : Sync c (e :: r) := hr ▸ h.sync
  have hn' : NoJump (e :: r) := hr ▸ hn
  obtain ⟨c1, h1, haf1, hcur1, hs1, hst1, hall1, hhead⟩ := writeEntries_stream (e :: r) c hsync hn'
  have hwc := writeEntries_c 0 (e :: r)
  have hwd := writeEntries_depth 0 (e :: r)
  obtain ⟨e', r', hr', he', hrc'⟩ := List.map_eq_cons_iff.mp hwc
  have hd : e.depth = r.length := hsync.head_depth
  have hrl : r'.length = r.length := by
    have := congrArg List.length hrc'; simpa using this
  have hst : c1.started = true := by
    by_cases hw : e.written = true
    · apply hst1
      rcases Bool.eq_false_or_eq_true c.started with hs | hs
      · exact hs
      · have := hsync.st hs
        simp [wc, hw] at this
    · exact (hhead e r rfl (by simpa using hw)).1
  have hk : cok c1 (toRRec (exitRec 0 e)) = true := cok_exit haf1 (by rw [hcur1]; rfl) hd hst
  obtain ⟨q1, q2, q3, q4⟩ := cnext_exit_props c1 e
  have hefr : (exitFilterRecord s true).rs = e' :: r' := by
    simp only [exitFilterRecord, Sh.record, hr, htid]; exact hr'
  have hout : (exitTop s).1.out = s.out ++ ((writeEntries 0 (e :: r)).2 ++ [exitRec 0 e]) := by
    simp only [exitTop, hr, autoRehook_out]
    simp [exitFilterRecord, Sh.record, hr, htid]
  have hrs : (exitTop s).1.rs = r' := by
    simp only [exitTop, hr, autoRehook_rs, hefr, List.tail_cons]
  have hallr : AllW r' := fun x hx => hall1 x (by rw [hr']; simp [hx])
  have hdr : r'.map Ent.depth = descFrom r'.length := by
    have h2 : (e' :: r').map Ent.depth = (e :: r).map Ent.depth := by rw [← hr', hwd]
    have h3 := hsync.dep
    simp only [List.map_cons, List.length_cons, descFrom, List.cons.injEq] at h2 h3
    rw [h2.2, h3.2, hrl]
  have hnr : NoJump r := fun x hx => hn' x (by simp [hx])
  refine ⟨cnext c1 (toRRec (exitRec 0 e)), ⟨?_, ?_, ?_, ?_⟩, ?_, q1, ?_, ?_⟩
  · have : (exitTop s).1.child = s.child := by
      simp only [exitTop, hr, autoRehook_child]
      simp [exitFilterRecord]
    rw [this]; exact h.child
  · rw [hout, taskStream_append_tid0 _ _ (by
      intro x hx
      rcases List.mem_append.mp hx with hx | hx
      · exact writeEntries_tid 0 _ x hx
      · simp at hx; rw [hx]; rfl)]
    rw [crun_append, h.run]
    simp only [Option.bind_some, toRRecs, List.map_append, List.map_cons, List.map_nil]
    exact crun_snoc h1 hk
  · rw [hrs]; exact Sync_allW q2 hallr (by rw [q3, hd, hrl]) q1 hdr
  · have : (exitTop s).1.recIdx = s.recIdx - 1 := by
      simp [exitTop, hr, exitFilterRecord]
    rw [this, hrs, h.idx, hr, hrl]; simp
  · intro d hd'; rw [q4]; exact hs1 d hd'
  · rw [hrs]; exact NoJump.congr hnr hrc'.symm
  · intro hk'
    by_cases hw : e.written = true
    · right; exact hw
    · left; rw [q4]; exact (hhead e r rfl (by simpa using hw)).2 hk'

end Uft.NonLocal

namespace Uft.NonLocal

theorem SOk.of_eq {s t : Sh} {c : CSt} (h : SOk s c) (h1 : t.child = s.child) (h2 : t.out = s.out) (h3 : t.rs = s.rs)
    (h4 : t.recIdx = s.recIdx) : SOk t c :=
  ⟨by rw [h1]; exact h.child, by rw [h2]; exact h.run, by rw [h3]; exact h.sync, by rw [h4, h3]; exact h.idx⟩

theorem NoJump.cons {e : Ent} {l : List Ent} (he : symKind e.c.child ≠ .longjmp ∧ symKind e.c.child ≠ .exec)
    (h : NoJump l) : NoJump (e :: l) := by
  intro x hx
  rcases List.mem_cons.mp hx with rfl | hx'
  · exact he
  · exact h x hx'

theorem NoJump.tail {e : Ent} {l : List Ent} (h : NoJump (e :: l)) : NoJump l := fun x hx => h x (by simp [hx])

theorem Sync.push {c : CSt} {l : List Ent} (h : Sync c l) {e : Ent} (hw : e.written = false) (hd : e.depth = l.length) :
    Sync c (e :: l) := by
  refine ⟨h.af, by rw [h.cur]; simp [wc, hw], (fun hs => by simpa [wc, hw] using h.st hs),
    ⟨(fun hh => by rw [hw] at hh; cases hh), h.wok⟩, ?_⟩
  simp [descFrom, hd, h.dep]

theorem stream_pushHook {s : Sh} {c : CSt} (h : SOk s c) (loc child : Nat) (plt : Bool) :
    SOk (pushHook s loc child plt) c := by
  refine ⟨by simp [pushHook, h.child], by simp [h.run], ?_, by simp [h.idx]⟩
  rw [pushHook_rs]
  exact h.sync.push rfl (by simp [mkEnt, h.idx])

/-- a forced flush (record_trace_data without an EXIT) when the top entry is still unwritten -/
theorem stream_flush {s : Sh} {c : CSt} (h : SOk s c) {e : Ent} {r : List Ent} (hr : s.rs = e :: r)
    (hw : e.written = false) (hn : NoJump r) :
    ∃ c1, crun CSt.init (taskStream (s.record false).out) = some (cnext c1 (toRRec (entryRec 0 e))) ∧
      c1.afterLj = false ∧ c1.cur = r.length ∧ SeenLe c c1 ∧ AllW (s.record false).rs := by
  have htid : s.tid = 0 := by simp [Sh.tid, h.child]
  have hsync : Sync c (e :: r) := hr ▸ h.sync
  obtain ⟨c1, h1, haf1, hcur1, hs1, _, hall1, _⟩ := writeEntries_stream r c (hsync.tail hw) hn
  have hk : cok c1 (toRRec (entryRec 0 e)) = true := by
    simp only [cok, toRRec, entryRec, ↓reduceIte, haf1, Bool.not_false, Bool.true_and, beq_iff_eq]
    split
    · rw [hcur1, hsync.head_depth]
    · rfl
  refine ⟨c1, ?_, haf1, hcur1, hs1, ?_⟩
  · have hout : (s.record false).out = s.out ++ ((writeEntries 0 r).2 ++ [entryRec 0 e]) := by
      simp [Sh.record, hr, htid, writeEntries, hw]
    rw [hout, taskStream_append_tid0 _ _ (by
      intro x hx
      rcases List.mem_append.mp hx with hx | hx
      · exact writeEntries_tid 0 _ x hx
      · simp at hx; rw [hx]; rfl)]
    rw [crun_append, h.run]
    simp only [Option.bind_some, toRRecs, List.map_append, List.map_cons, List.map_nil]
    exact crun_snoc h1 hk
  · have hrs : (s.record false).rs = { e with written := true } :: (writeEntries 0 r).1 := by
      simp [Sh.record, hr, htid, writeEntries, hw]
    rw [hrs]
    intro x hx
    rcases List.mem_cons.mp hx with rfl | hx'
    · rfl
    · exact hall1 x hx'

/-- the loop of mcount_rstack_rehook_exception, on the stream -/
theorem stream_popDead (fa : Nat) : ∀ (n : Nat) (l : List Ent) (ri : Nat) (out : List Rec) (c : CSt),
    crun CSt.init (taskStream out) = some c → Sync c l → NoJump l → ri = l.length →
    ∃ c', crun CSt.init (taskStream (popDead 0 fa n l ri out).2.2) = some c' ∧
      Sync c' (popDead 0 fa n l ri out).1 ∧ NoJump (popDead 0 fa n l ri out).1 ∧
      (popDead 0 fa n l ri out).2.1 = (popDead 0 fa n l ri out).1.length ∧ SeenLe c c' := by
  intro n
  induction n with
  | zero => intro l ri out c hrun hs hn hri; exact ⟨c, hrun, hs, hn, hri, SeenLe.refl c⟩
  | succ n ih =>
    intro l ri out c hrun hs hn hri
    cases l with
    | nil => exact ⟨c, hrun, hs, hn, hri, SeenLe.refl c⟩
    | cons e r =>
      simp only [popDead]
      split
      · exact ⟨c, hrun, hs, hn, hri, SeenLe.refl c⟩
      · -- one dead entry: its ENTRY (and those below) if still owed, then its EXIT
        obtain ⟨c1, h1, haf1, hcur1, hs1, hst1, hall1, hhead⟩ := writeEntries_stream (e :: r) c hs hn
        have hwc := writeEntries_c 0 (e :: r)
        have hwd := writeEntries_depth 0 (e :: r)
        obtain ⟨e', r', hr', he', hrc'⟩ := List.map_eq_cons_iff.mp hwc
        have hd : e.depth = r.length := hs.head_depth
        have hrl : r'.length = r.length := by
          have := congrArg List.length hrc'; simpa using this
        have hst : c1.started = true := by
          by_cases hw : e.written = true
          · apply hst1
            rcases Bool.eq_false_or_eq_true c.started with hs' | hs'
            · exact hs'
            · have := hs.st hs'
              simp [wc, hw] at this
          · exact (hhead e r rfl (by simpa using hw)).1
        have hk : cok c1 (toRRec (exitRec 0 e)) = true := cok_exit haf1 (by rw [hcur1]; rfl) hd hst
        obtain ⟨q1, q2, q3, q4⟩ := cnext_exit_props c1 e
        have hallr : AllW r' := fun x hx => hall1 x (by rw [hr']; simp [hx])
        have hdr : r'.map Ent.depth = descFrom r'.length := by
          have h2 : (e' :: r').map Ent.depth = (e :: r).map Ent.depth := by rw [← hr', hwd]
          have h3 := hs.dep
          simp only [List.map_cons, List.length_cons, descFrom, List.cons.injEq] at h2 h3
          rw [h2.2, h3.2, hrl]
        rw [hr']
        simp only [List.tail_cons]
        have hrun' : crun CSt.init (taskStream (out ++ (writeEntries 0 (e :: r)).2 ++ [exitRec 0 e])) =
            some (cnext c1 (toRRec (exitRec 0 e))) := by
          rw [List.append_assoc, taskStream_append_tid0 _ _ (by
            intro x hx
            rcases List.mem_append.mp hx with hx | hx
            · exact writeEntries_tid 0 _ x hx
            · simp at hx; rw [hx]; rfl)]
          rw [crun_append, hrun]
          simp only [Option.bind_some, toRRecs, List.map_append, List.map_cons, List.map_nil]
          exact crun_snoc h1 hk
        obtain ⟨c', a1, a2, a3, a4, a5⟩ := ih r' (ri - 1) _ _ hrun'
          (Sync_allW q2 hallr (by rw [q3, hd, hrl]) q1 hdr)
          (NoJump.congr hn.tail hrc'.symm) (by rw [hri, hrl]; simp)
        refine ⟨c', a1, a2, a3, a4, ?_⟩
        intro d hd'
        exact a5 d (by rw [q4]; exact hs1 d hd')

end Uft.NonLocal

namespace Uft.NonLocal

def NoFlags (l : List Ent) : Prop := ∀ e ∈ l, e.c.ljmp = false ∧ e.c.vfork = false

theorem NoFlags.congr {l l' : List Ent} (h : NoFlags l) (hc : l.map Ent.c = l'.map Ent.c) : NoFlags l' := by
  intro e he
  have : e.c ∈ l'.map Ent.c := List.mem_map_of_mem he
  rw [← hc] at this
  obtain ⟨x, hx, e1⟩ := List.mem_map.mp this
  rw [← e1]; exact h x hx

theorem NoFlags.tail {e : Ent} {l : List Ent} (h : NoFlags (e :: l)) : NoFlags l := fun x hx => h x (by simp [hx])

theorem NoFlags_of_exp {l : List Ent} {fs : List Frame} (h : l.map Ent.c = expFrames fs) : NoFlags l := by
  intro e he
  have : e.c ∈ l.map Ent.c := List.mem_map_of_mem he
  rw [h] at this
  clear he h
  induction fs with
  | nil => simp [expFrames] at this
  | cons f fs ih =>
    simp only [expFrames, List.mem_append] at this
    rcases this with h | h
    · exact expChain_flags h
    · exact ih h

theorem plthookExit_plain {s : Sh} {e : Ent} {r : List Ent} (hr : s.rs = e :: r) (hl : e.c.ljmp = false)
    (hv : e.c.vfork = false) (hvf : s.vf = none) :
    plthookExit s = if e.c.plt then exitTop s else ({ s with dead := true }, 0) := by
  by_cases hp : e.c.plt = true <;> simp [plthookExit, plthookExitCore, hr, hl, hv, hvf, restoreVfork, hp]

theorem plthookExit_nil {s : Sh} (hr : s.rs = []) (hvf : s.vf = none) : plthookExit s = ({ s with dead := true }, 0) := by
  simp [plthookExit, plthookExitCore, hr, hvf, restoreVfork]

theorem exitTop_nil {s : Sh} (hr : s.rs = []) : exitTop s = ({ s with dead := true }, 0) := by
  simp [exitTop, hr]

/-- the return stubs, on the stream -/
theorem stream_retLoop : ∀ (n : Nat) (s : Sh) (v : Nat) (c : CSt), SOk s c → NoJump s.rs → NoFlags s.rs → s.vf = none →
    ∃ c', SOk (retLoop n s v).1 c' ∧ SeenLe c c' ∧ NoJump (retLoop n s v).1.rs ∧ NoFlags (retLoop n s v).1.rs ∧
      (retLoop n s v).1.vf = none ∧ (retLoop n s v).1.jbs = s.jbs := by
  intro n
  induction n with
  | zero => intro s v c h hn hf hvf; exact ⟨c, h, SeenLe.refl c, hn, hf, hvf, rfl⟩
  | succ n ih =>
    intro s v c h hn hf hvf
    have dead_case : ∀ t : Sh, t = { s with dead := true } →
        ∃ c', SOk (retLoop n t 0).1 c' ∧ SeenLe c c' ∧ NoJump (retLoop n t 0).1.rs ∧ NoFlags (retLoop n t 0).1.rs ∧
          (retLoop n t 0).1.vf = none ∧ (retLoop n t 0).1.jbs = s.jbs := by
      intro t ht
      subst ht
      have hz : isTramp 0 = false := by decide
      rw [retLoop_stop hz]
      exact ⟨c, h.of_eq rfl rfl rfl rfl, SeenLe.refl c, hn, hf, hvf, rfl⟩
    have exit_case : ∀ (e : Ent) (r : List Ent), s.rs = e :: r →
        ∃ c', SOk (retLoop n (exitTop s).1 (exitTop s).2).1 c' ∧ SeenLe c c' ∧
          NoJump (retLoop n (exitTop s).1 (exitTop s).2).1.rs ∧ NoFlags (retLoop n (exitTop s).1 (exitTop s).2).1.rs ∧
          (retLoop n (exitTop s).1 (exitTop s).2).1.vf = none ∧
          (retLoop n (exitTop s).1 (exitTop s).2).1.jbs = s.jbs := by
      intro e r hr
      obtain ⟨c1, a1, a2, _, a4, _⟩ := stream_exitTop h hn hr
      have hspec := exitTop_spec (s := s) (x := e.c) (xs := r.map Ent.c) (by rw [hr]; rfl)
      have hf1 : NoFlags (exitTop s).1.rs := (hr ▸ hf : NoFlags (e :: r)).tail.congr hspec.2.1.symm
      obtain ⟨c', b1, b2, b3, b4, b5, b6⟩ := ih _ _ c1 a1 a4 hf1 (by rw [exitTop_vf]; exact hvf)
      exact ⟨c', b1, a2.trans b2, b3, b4, b5, by rw [b6, hspec.2.2.2.2.2.1]⟩
    simp only [retLoop]
    split
    · -- mcount_return
      simp only [mcountExit]
      cases hr : s.rs with
      | nil => rw [exitTop_nil hr]; exact dead_case _ rfl
      | cons e r => exact exit_case e r hr
    · split
      · -- plthook_return
        cases hr : s.rs with
        | nil => rw [plthookExit_nil hr hvf]; exact dead_case _ rfl
        | cons e r =>
          have hfe := hf e (by rw [hr]; simp)
          rw [plthookExit_plain hr hfe.1 hfe.2 hvf]
          split
          · exact exit_case e r hr
          · exact dead_case _ rfl
      · exact ⟨c, h, SeenLe.refl c, hn, hf, hvf, rfl⟩

theorem fixChain_written (m : Mem) : ∀ l : List Ent, (fixChain m l).map Ent.written = l.map Ent.written := by
  intro l
  induction l with
  | nil => rfl
  | cons e r ih =>
    cases r with
    | nil => simp [fixChain]
    | cons e2 r2 =>
      simp only [fixChain]
      split
      · simp only [List.map_cons, List.cons.injEq, true_and]; exact ih
      · rfl

theorem fixChain_child (m : Mem) : ∀ l : List Ent, (fixChain m l).map (fun e => e.c.child) = l.map (fun e => e.c.child) := by
  intro l
  induction l with
  | nil => rfl
  | cons e r ih =>
    cases r with
    | nil => simp [fixChain]
    | cons e2 r2 =>
      simp only [fixChain]
      split
      · simp only [List.map_cons, List.cons.injEq, true_and]; exact ih
      · rfl

theorem NoJump.congr_child {l l' : List Ent} (h : NoJump l)
    (hc : l.map (fun e => e.c.child) = l'.map (fun e => e.c.child)) : NoJump l' := by
  intro e he
  have : e.c.child ∈ l'.map (fun e => e.c.child) := List.mem_map_of_mem (f := fun e => e.c.child) he
  rw [← hc] at this
  obtain ⟨x, hx, e1⟩ := List.mem_map.mp this
  rw [← e1]; exact h x hx

/-- `if (in_exception) { mcount_rstack_rehook_exception(); in_exception = false; }` on the stream -/
theorem stream_excPre (fx : Fix) {s : Sh} {c : CSt} (h : SOk s c) (hn : NoJump s.rs) (fa : Nat) :
    ∃ c', SOk (excPre fx s fa) c' ∧ SeenLe c c' ∧ NoJump (excPre fx s fa).rs := by
  have htid : s.tid = 0 := by simp [Sh.tid, h.child]
  obtain ⟨c', a1, a2, a3, a4, a5⟩ := stream_popDead fa s.rs.length s.rs s.recIdx s.out c h.run h.sync hn h.idx
  have hlen : (fixChain s.mem (popDead 0 fa s.rs.length s.rs s.recIdx s.out).1).length =
      (popDead 0 fa s.rs.length s.rs s.recIdx s.out).1.length := by
    have := congrArg List.length (fixChain_depth s.mem (popDead 0 fa s.rs.length s.rs s.recIdx s.out).1)
    simpa using this
  refine ⟨c', ⟨h.child, ?_, ?_, ?_⟩, a5, ?_⟩
  · simp only [excPre, rehookException, htid]; exact a1
  · simp only [excPre, rehookException, htid]
    exact a2.congr (fixChain_written _ _).symm (fixChain_depth _ _).symm
  · simp only [excPre, rehookException, htid]; rw [hlen]; exact a4
  · simp only [excPre, rehookException, htid]
    exact a3.congr_child (fixChain_child _ _).symm

end Uft.NonLocal

namespace Uft.NonLocal

/-! ### the record stream along machine steps -/

theorem exitTop_written_top {s : Sh} {e : Ent} {r : List Ent} (hr : s.rs = e :: r) (hw : e.written = true)
    (htid : s.tid = 0) :
    (exitTop s).1.out = s.out ++ [exitRec 0 e] ∧ (exitTop s).1.rs = r ∧ (exitTop s).1.recIdx = s.recIdx - 1 ∧
    (exitTop s).1.child = s.child := by
  refine ⟨?_, ?_, ?_, ?_⟩
  · simp only [exitTop, hr, autoRehook_out]
    simp [exitFilterRecord, Sh.record, hr, htid, writeEntries, hw]
  · simp only [exitTop, hr, autoRehook_rs]
    simp [exitFilterRecord, Sh.record, hr, htid, writeEntries, hw]
  · simp [exitTop, hr, exitFilterRecord]
  · simp only [exitTop, hr, autoRehook_child]
    simp [exitFilterRecord]

def okKind (child : Nat) : Prop := symKind child ≠ .longjmp ∧ symKind child ≠ .exec

/-- the symbols of the program are what replay takes them for: setjmp/longjmp/exec* are called through
    their own ops only; the ops without a depth claim are not part of such a history -/
def SymOk : Op → Prop
  | .call k child _ _ _ => k ≠ .none → okKind child
  | .tailcall _ child => okKind child
  | .setjmp _ child _ _ => symKind child = .setjmp
  | .longjmp _ child _ _ => symKind child = .longjmp
  | .fork inChild child _ _ => inChild = false ∧ okKind child
  | .exec child _ _ => symKind child = .exec
  | .pthreadExit .. => False
  | .exit .. => False
  | .vforkExec .. => False
  | _ => True

structure StreamInv (m : M) (c : CSt) : Prop where
  ok : SOk m.sh c
  nj : NoJump m.sh.rs
  jb : ∀ j srs sidx, m.sh.jbs.lookup j = some (srs, sidx) →
        ∃ e r, srs = e :: r ∧ c.seen r.length = true ∧ NoJump r

theorem StreamInv.jb_mono {m : M} {c c' : CSt} (h : StreamInv m c) (hs : SeenLe c c') {jbs : List (Nat × (List Ent × Nat))}
    (hj : jbs = m.sh.jbs) :
    ∀ j srs sidx, jbs.lookup j = some (srs, sidx) → ∃ e r, srs = e :: r ∧ c'.seen r.length = true ∧ NoJump r := by
  intro j srs sidx hl
  rw [hj] at hl
  obtain ⟨e, r, h1, h2, h3⟩ := h.jb j srs sidx hl
  exact ⟨e, r, h1, hs _ h2, h3⟩

theorem mkEnt_nojump {loc ip child : Nat} {plt : Bool} {d : Nat} (h : okKind child) :
    symKind (mkEnt loc ip child plt d).c.child ≠ .longjmp ∧ symKind (mkEnt loc ip child plt d).c.child ≠ .exec := h

theorem logicalDepth_suffix {a b : List Frame} (h : a <:+ b) : logicalDepth a ≤ logicalDepth b := by
  obtain ⟨t, rfl⟩ := h
  induction t with
  | nil => exact Nat.le_refl _
  | cons f t ih => simp only [List.cons_append, logicalDepth]; omega

theorem stream_step {m : M} {c : CSt} (hi : Inv m) (ht : TraceInv m.sh) (hs : StreamInv m c) {op : Op}
    (hw : WellFormedOp m op) (hk : SymOk op) :
    ∃ c', StreamInv (step Fix.all m op) c' ∧ SeenLe c c' := by
  cases op with
  | call k child slot orig fpw =>
    have hstep : (step Fix.all m (.call k child slot orig fpw)).sh =
        hookEntry Fix.all (progWrite m.sh slot orig fpw) k slot child := by simp [step, hi.nh, progWrite]
    have h0 : SOk (progWrite m.sh slot orig fpw) c := hs.ok.of_eq rfl rfl rfl rfl
    cases k with
    | none =>
      exact ⟨c, ⟨by rw [hstep]; exact h0, by rw [hstep]; exact hs.nj, by rw [hstep]; exact hs.jb⟩, SeenLe.refl c⟩
    | mcount =>
      have hok : okKind child := hk (by simp)
      rw [show hookEntry Fix.all (progWrite m.sh slot orig fpw) .mcount slot child =
        mcountEntry Fix.all (progWrite m.sh slot orig fpw) slot child from rfl] at hstep
      rcases Bool.eq_false_or_eq_true m.sh.inExc with hx | hx
      · rw [mcountEntry_exc Fix.all (s := progWrite m.sh slot orig fpw) hx] at hstep
        obtain ⟨c', a1, a2, a3⟩ := stream_excPre Fix.all h0 hs.nj (entryFrameAddr Fix.all (progWrite m.sh slot orig fpw) slot)
        refine ⟨c', ⟨by rw [hstep]; exact stream_pushHook a1 _ _ _, ?_, ?_⟩, a2⟩
        · rw [hstep, pushHook_rs]; exact NoJump.cons (mkEnt_nojump hok) a3
        · rw [hstep]; exact hs.jb_mono a2 (by simp [excPre, rehookException])
      · rw [mcountEntry_noexc Fix.all (s := progWrite m.sh slot orig fpw) hx] at hstep
        refine ⟨c, ⟨by rw [hstep]; exact stream_pushHook h0 _ _ _, ?_, ?_⟩, SeenLe.refl c⟩
        · rw [hstep, pushHook_rs]; exact NoJump.cons (mkEnt_nojump hok) hs.nj
        · rw [hstep]; exact hs.jb_mono (SeenLe.refl c) (by simp)
    | plt =>
      have hok : okKind child := hk (by simp)
      rw [show hookEntry Fix.all (progWrite m.sh slot orig fpw) .plt slot child =
        plthookEntry Fix.all (progWrite m.sh slot orig fpw) slot child .plain 0 from rfl] at hstep
      rcases Bool.eq_false_or_eq_true m.sh.inExc with hx | hx
      · rw [plthookEntry_plain_exc (s := progWrite m.sh slot orig fpw) hx] at hstep
        obtain ⟨c', a1, a2, a3⟩ := stream_excPre Fix.all h0 hs.nj slot
        refine ⟨c', ⟨by rw [hstep]; exact stream_pushHook a1 _ _ _, ?_, ?_⟩, a2⟩
        · rw [hstep, pushHook_rs]; exact NoJump.cons (mkEnt_nojump hok) a3
        · rw [hstep]; exact hs.jb_mono a2 (by simp [excPre, rehookException])
      · rw [plthookEntry_plain_noexc Fix.all (s := progWrite m.sh slot orig fpw) hx] at hstep
        refine ⟨c, ⟨by rw [hstep]; exact stream_pushHook h0 _ _ _, ?_, ?_⟩, SeenLe.refl c⟩
        · rw [hstep, pushHook_rs]; exact NoJump.cons (mkEnt_nojump hok) hs.nj
        · rw [hstep]; exact hs.jb_mono (SeenLe.refl c) (by simp)
  | ret =>
    obtain ⟨f, fs, hf⟩ : ∃ f fs, m.fs = f :: fs := by
      cases h : m.fs with
      | nil => exact absurd h hw.1
      | cons f fs => exact ⟨f, fs, rfl⟩
    have hstep : (step Fix.all m .ret).sh = (retLoop (m.sh.rs.length + 1) m.sh (m.sh.mem f.slot)).1 := by
      rw [step_ret_eq _ hi.nh hf]
    rcases Bool.eq_false_or_eq_true m.sh.inExc with hx | hx
    · -- only unhooked helpers return while the stack is being unwound: no hook runs
      have hch : f.chain = [] := hw.2 hx f (by rw [hf]; simp)
      have hm : m.sh.mem f.slot = f.orig := hi.exc hx f (by rw [hf]; simp)
      rw [hm, retLoop_stop (hi.origs f (by rw [hf]; simp))] at hstep
      exact ⟨c, ⟨by rw [hstep]; exact hs.ok, by rw [hstep]; exact hs.nj, by rw [hstep]; exact hs.jb⟩, SeenLe.refl c⟩
    · obtain ⟨dead, hc, hd0⟩ := hi.ctl
      have hd : dead = [] := hd0 hx
      subst hd
      simp only [List.nil_append] at hc
      obtain ⟨c', a1, a2, a3, _, _, a6⟩ := stream_retLoop (m.sh.rs.length + 1) m.sh (m.sh.mem f.slot) c hs.ok hs.nj
        (NoFlags_of_exp hc) hi.vf
      exact ⟨c', ⟨by rw [hstep]; exact a1, by rw [hstep]; exact a3, by rw [hstep]; exact hs.jb_mono a2 a6⟩, a2⟩
  | tailcall k child =>
    obtain ⟨hne, hx, hkk⟩ := hw
    obtain ⟨f, fs, hf⟩ : ∃ f fs, m.fs = f :: fs := by
      cases h : m.fs with
      | nil => exact absurd h hne
      | cons f fs => exact ⟨f, fs, rfl⟩
    have hkn : k ≠ .none := by intro h; subst h; cases hkk
    have hstep : (step Fix.all m (.tailcall k child)).sh = pushHook m.sh f.slot child (decide (k = .plt)) := by
      simp [step, hi.nh, hf, hookEntry_hooked_noexc _ hx hkn]
    refine ⟨c, ⟨by rw [hstep]; exact stream_pushHook hs.ok _ _ _, ?_, ?_⟩, SeenLe.refl c⟩
    · rw [hstep, pushHook_rs]; exact NoJump.cons (mkEnt_nojump hk) hs.nj
    · rw [hstep]; exact hs.jb_mono (SeenLe.refl c) (by simp)
  | setjmp j child slot orig =>
    obtain ⟨hlt, hor, hx⟩ := hw
    obtain ⟨a1, a2, a3⟩ := inv_push_plt (child := child) hi hlt hor hx
    let s1 := pushHook (progStore m.sh slot orig) slot child true
    let sh1 := setupJmpbuf Fix.all s1 j
    have hpe : plthookEntry Fix.all (progStore m.sh slot orig) slot child .setjmp j = sh1 :=
      plthookEntry_setjmp (s := progStore m.sh slot orig) hx slot child j
    have hpc : sh1.mem slot = PTRAMP := a3 _ _ (expFrames_cons_one slot orig child true m.fs)
    have hc1 : sh1.rs.map Ent.c = ⟨slot, orig, child, true, false, false⟩ :: expFrames m.fs := by
      show s1.rs.map Ent.c = _
      rw [a1, expFrames_cons_one]
    have hvf1 : sh1.vf = none := by simpa [sh1, s1, setupJmpbuf] using hi.vf
    have hret : retLoop (sh1.rs.length + 1) sh1 (sh1.mem slot) = ((exitTop sh1).1, orig) := by
      rw [hpc, retLoop_succ_ptramp, plthookExit_eq_exitTop hc1 rfl rfl rfl hvf1, (exitTop_spec hc1).1]
      exact retLoop_stop hor _ _
    have hstep : (step Fix.all m (.setjmp j child slot orig)).sh = (exitTop sh1).1 := by
      have e1 : (step Fix.all m (.setjmp j child slot orig)).sh =
          (retLoop ((plthookEntry Fix.all (progStore m.sh slot orig) slot child .setjmp j).rs.length + 1)
            (plthookEntry Fix.all (progStore m.sh slot orig) slot child .setjmp j)
            ((plthookEntry Fix.all (progStore m.sh slot orig) slot child .setjmp j).mem slot)).1 := by
        simp only [step, hi.nh, Bool.false_eq_true, ↓reduceIte]
        rfl
      rw [e1, hpe, hret]
    have h0 : SOk (progStore m.sh slot orig) c := hs.ok.of_eq rfl rfl rfl rfl
    have hs1 : SOk sh1 c := (stream_pushHook h0 slot child true).of_eq rfl rfl rfl rfl
    have hrs1 : sh1.rs = mkEnt slot ((progStore m.sh slot orig).mem slot) child true (progStore m.sh slot orig).recIdx ::
        m.sh.rs := by simp [sh1, s1, setupJmpbuf]
    have hkk : symKind child = .setjmp := hk
    have hnj1 : NoJump sh1.rs := by
      rw [hrs1]
      exact NoJump.cons (show symKind child ≠ .longjmp ∧ symKind child ≠ .exec by rw [hkk]; decide) hs.nj
    obtain ⟨c', b1, b2, _, b4, b5⟩ := stream_exitTop hs1 hnj1 hrs1
    have hseen : c'.seen m.sh.rs.length = true := by
      rcases b5 hkk with h | h
      · simpa [mkEnt, hs.ok.idx] using h
      · simp [mkEnt] at h
    refine ⟨c', ⟨by rw [hstep]; exact b1, by rw [hstep]; exact b4, ?_⟩, b2⟩
    rw [hstep]
    have hjbs : (exitTop sh1).1.jbs = jbSet m.sh.jbs j (s1.rs, s1.recIdx) := by
      rw [(exitTop_spec hc1).2.2.2.2.2.1]
      simp [sh1, setupJmpbuf, s1]
    intro j' srs sidx hl
    rw [hjbs] at hl
    by_cases hjj : j' = j
    · subst hjj
      rw [jbSet_lookup_same] at hl
      cases hl
      exact ⟨mkEnt slot ((progStore m.sh slot orig).mem slot) child true (progStore m.sh slot orig).recIdx, m.sh.rs,
        by show s1.rs = _; simp [s1], hseen, hs.nj⟩
    · rw [jbSet_lookup_other _ _ hjj] at hl
      obtain ⟨e, r, h1, h2, h3⟩ := hs.jb j' srs sidx hl
      exact ⟨e, r, h1, b2 _ h2, h3⟩
  | longjmp j child slot orig =>
    obtain ⟨hlt, hor, hx, jb, hjb, hsuf⟩ := hw
    obtain ⟨a1, a2, _⟩ := inv_push_plt (child := child) hi hlt hor hx
    obtain ⟨srs, sidx, hlk, hsc, hpc, hso, hsl⟩ := hi.jb j jb hjb
    obtain ⟨e0, r0, hsr, hseen0, hnj0⟩ := hs.jb j srs sidx hlk
    obtain ⟨hsidx, hsdep⟩ := ht.jbs j srs sidx hlk
    let s1 := pushHook (progStore m.sh slot orig) slot child true
    let sh1 : Sh := { s1.record false with
          rs := setTop (s1.record false).rs fun e => { e with c := { e.c with ljmp := true }, jb := j } }
    have hpe : plthookEntry Fix.all (progStore m.sh slot orig) slot child .longjmp j = sh1 :=
      plthookEntry_longjmp (s := progStore m.sh slot orig) hx slot child j
    have hrc : (s1.record false).rs.map Ent.c = ⟨slot, orig, child, true, false, false⟩ :: expFrames m.fs := by
      rw [record_c, ← expFrames_cons_one]; exact a1
    obtain ⟨e, r, hr, he, _⟩ := List.map_eq_cons_iff.mp hrc
    have hrs1 : sh1.rs = { e with c := { e.c with ljmp := true }, jb := j } :: r := by
      simp only [sh1, hr, setTop]
    have hjbs : sh1.jbs = m.sh.jbs := by simp [sh1, s1]
    let sR : Sh := { sh1 with rs := markWritten srs, recIdx := sidx }
    have hexit : plthookExit sh1 = exitTop sR :=
      plthookExit_ljmp (x := setjmpCtl jb) hrs1 rfl (by rw [hjbs]; exact hlk) hsc rfl rfl rfl
        (by simpa [sh1, s1] using hi.vf)
    have hsRc : sR.rs.map Ent.c = setjmpCtl jb :: expFrames jb.frames := by
      show (markWritten srs).map Ent.c = _; rw [markWritten_c]; exact hsc
    have hstep : (step Fix.all m (.longjmp j child slot orig)).sh = (exitTop sR).1 := by
      have e1 : (step Fix.all m (.longjmp j child slot orig)).sh =
          (retLoop (ljFuel (plthookEntry Fix.all (progStore m.sh slot orig) slot child .longjmp j) j)
            (plthookEntry Fix.all (progStore m.sh slot orig) slot child .longjmp j) jb.pc).1 := by
        simp only [step, hi.nh, Bool.false_eq_true, ↓reduceIte, hjb]
        rfl
      rw [e1, hpe, hpc]
      rw [show ljFuel sh1 j = (sh1.rs.length + (sh1.jbs.lookup j).elim 0 (fun x => x.1.length) + 1) + 1 from rfl,
        retLoop_succ_ptramp, hexit, (exitTop_spec hsRc).1]
      rw [retLoop_stop (v := (setjmpCtl jb).ip) hso]
    -- the stream: flush up to and including the longjmp ENTRY, then setjmp's EXIT
    have h0 : SOk (progStore m.sh slot orig) c := hs.ok.of_eq rfl rfl rfl rfl
    have hp : SOk s1 c := stream_pushHook h0 slot child true
    have hrs0 : s1.rs = mkEnt slot ((progStore m.sh slot orig).mem slot) child true (progStore m.sh slot orig).recIdx ::
        m.sh.rs := by simp [s1]
    obtain ⟨c1, f1, f2, f3, f4, _⟩ := stream_flush hp hrs0 rfl hs.nj
    obtain ⟨p1, p2, p3, p4, _⟩ := cnext_entry_props c1
      (mkEnt slot ((progStore m.sh slot orig).mem slot) child true (progStore m.sh slot orig).recIdx)
    have hkk : symKind child = .longjmp := hk
    -- lengths
    have hlen : m.sh.rs.length = logicalDepth m.fs := by
      obtain ⟨dead, hc, hd0⟩ := hi.ctl
      have hd : dead = [] := hd0 hx
      subst hd
      have := congrArg List.length hc
      simpa [expFrames_length] using this
    have hslen : r0.length = logicalDepth jb.frames := by
      have := congrArg List.length hsc
      rw [hsr] at this
      simpa [expFrames_length] using this
    have hle : r0.length ≤ m.sh.rs.length := by rw [hlen, hslen]; exact logicalDepth_suffix hsuf
    -- the exit of the saved setjmp entry
    let c2 := cnext c1 (toRRec (entryRec 0 (mkEnt slot ((progStore m.sh slot orig).mem slot) child true
      (progStore m.sh slot orig).recIdx)))
    let e0w : Ent := { e0 with written := true }
    have hmw : markWritten srs = e0w :: markWritten r0 := by simp [markWritten, hsr, e0w]
    have hd0 : e0w.depth = r0.length := by
      have := hsdep
      rw [hsr] at this
      simp only [List.map_cons, List.length_cons, descFrom, List.cons.injEq] at this
      exact this.1
    have hk2 : cok c2 (toRRec (exitRec 0 e0w)) = true := by
      have haf : c2.afterLj = true := by rw [show c2.afterLj = _ from p2]; simp [mkEnt, hkk]
      have hcur : c2.cur = m.sh.rs.length + 1 := by
        rw [show c2.cur = _ from p3]
        have : symKind child ≠ .exec := by rw [hkk]; decide
        simp [mkEnt, this, hs.ok.idx]
      have hsn : c2.seen r0.length = true := p4 _ (f4 _ hseen0)
      simp only [cok, toRRec, exitRec, haf, ↓reduceIte, show c2.started = true from p1, hcur, hd0, hsn,
        Bool.and_true, decide_eq_true_eq]
      simp
      omega
    obtain ⟨q1, q2, q3, q4⟩ := cnext_exit_props c2 e0w
    have htid : sR.tid = 0 := by simp [Sh.tid, sR, sh1, s1, hs.ok.child]
    obtain ⟨hout, hrsF, hrecF, hchF⟩ := exitTop_written_top (s := sR) (e := e0w) (r := markWritten r0) hmw rfl htid
    have hallF : AllW (markWritten r0) := by
      intro x hx
      simp only [markWritten, List.mem_map] at hx
      obtain ⟨y, _, rfl⟩ := hx
      rfl
    have hdepF : (markWritten r0).map Ent.depth = descFrom (markWritten r0).length := by
      rw [markWritten_depth]
      have := hsdep
      rw [hsr] at this
      simp only [List.map_cons, List.length_cons, descFrom, List.cons.injEq] at this
      simp [markWritten, this.2]
    refine ⟨cnext c2 (toRRec (exitRec 0 e0w)), ⟨⟨?_, ?_, ?_, ?_⟩, ?_, ?_⟩, ?_⟩
    · rw [hstep, hchF]; simp [sR, sh1, s1, hs.ok.child]
    · rw [hstep, hout, taskStream_append_tid0 _ _ (by intro x hx; simp at hx; rw [hx]; rfl)]
      rw [crun_append]
      rw [show sR.out = (s1.record false).out from rfl, f1]
      show crun c2 [toRRec (exitRec 0 e0w)] = some (cnext c2 (toRRec (exitRec 0 e0w)))
      simp only [crun, cstep, hk2, ↓reduceIte]
    · rw [hstep, hrsF]
      exact Sync_allW q2 hallF (by rw [q3, hd0]; simp [markWritten]) q1 hdepF
    · rw [hstep, hrsF]
      rw [hrecF, show sR.recIdx = sidx from rfl, hsidx, hsr]; simp [markWritten]
    · rw [hstep, hrsF]
      exact NoJump.congr hnj0 (markWritten_c r0).symm
    · rw [hstep]
      have hj2 : (exitTop sR).1.jbs = m.sh.jbs := by
        rw [(exitTop_spec hsRc).2.2.2.2.2.1]; simp [sR, sh1, s1]
      intro j' srs' sidx' hl
      rw [hj2] at hl
      obtain ⟨e', r', h1, h2, h3⟩ := hs.jb j' srs' sidx' hl
      exact ⟨e', r', h1, by rw [q4]; exact p4 _ (f4 _ h2), h3⟩
    · intro d hd; rw [q4]; exact p4 _ (f4 _ hd)
  | throw =>
    have hstep : (step Fix.all m .throw).sh = cxaThrow m.sh := by simp [step, hi.nh]
    exact ⟨c, ⟨by rw [hstep]; exact hs.ok.of_eq rfl rfl rfl rfl, by rw [hstep]; exact hs.nj, by rw [hstep]; exact hs.jb⟩,
      SeenLe.refl c⟩
  | unwind =>
    have hstep : (step Fix.all m .unwind).sh = m.sh := by simp [step, hi.nh]
    exact ⟨c, ⟨by rw [hstep]; exact hs.ok, by rw [hstep]; exact hs.nj, by rw [hstep]; exact hs.jb⟩, SeenLe.refl c⟩
  | resume =>
    have hstep : (step Fix.all m .resume).sh = cxaThrow m.sh := by simp [step, hi.nh]
    exact ⟨c, ⟨by rw [hstep]; exact hs.ok.of_eq rfl rfl rfl rfl, by rw [hstep]; exact hs.nj, by rw [hstep]; exact hs.jb⟩,
      SeenLe.refl c⟩
  | catch_ fa =>
    have hstep : (step Fix.all m (.catch_ fa)).sh = beginCatch Fix.all m.sh fa := by simp [step, hi.nh]
    rcases Bool.eq_false_or_eq_true m.sh.inExc with hx | hx
    · have hb : beginCatch Fix.all m.sh fa = excPre Fix.all m.sh fa := by simp [beginCatch, hx, excPre]
      obtain ⟨c', a1, a2, a3⟩ := stream_excPre Fix.all hs.ok hs.nj fa
      refine ⟨c', ⟨by rw [hstep, hb]; exact a1, by rw [hstep, hb]; exact a3, ?_⟩, a2⟩
      rw [hstep, hb]; exact hs.jb_mono a2 (by simp [excPre, rehookException])
    · have hb : beginCatch Fix.all m.sh fa = m.sh := by simp [beginCatch, hx]
      exact ⟨c, ⟨by rw [hstep, hb]; exact hs.ok, by rw [hstep, hb]; exact hs.nj, by rw [hstep, hb]; exact hs.jb⟩,
        SeenLe.refl c⟩
  | pthreadExit child slot orig => exact absurd hk id
  | exit child slot orig => exact absurd hk id
  | vforkExec a b c d e => exact absurd hk id
  | mtdDtor =>
    have hstep : (step Fix.all m .mtdDtor).sh = mtdDtor m.sh := by simp [step, hi.nh]
    obtain ⟨hx, hch⟩ := hw
    obtain ⟨dead, hc, hd0⟩ := hi.ctl
    have hd : dead = [] := hd0 hx
    subst hd
    have hexp : expFrames m.fs = [] := by
      have : ∀ fs : List Frame, (∀ f ∈ fs, f.chain = []) → expFrames fs = [] := by
        intro fs
        induction fs with
        | nil => intro _; rfl
        | cons f fs ih =>
          intro h
          simp [expFrames, h f (by simp), expChain, ih (fun g hg => h g (by simp [hg]))]
      exact this m.fs hch
    have hrs : m.sh.rs = [] := by simpa [hexp] using hc
    refine ⟨c, ⟨by rw [hstep]; exact hs.ok.of_eq rfl rfl (by simp [mtdDtor, hrs]) rfl, ?_, ?_⟩, SeenLe.refl c⟩
    · rw [hstep]; intro x hx'; simp [mtdDtor] at hx'
    · rw [hstep]; exact hs.jb
  | fork inChild child slot orig =>
    obtain ⟨hic, hok⟩ := hk
    subst hic
    obtain ⟨hlt, hor, hx⟩ := hw
    obtain ⟨dead, hc, hd0⟩ := hi.ctl
    have hd : dead = [] := hd0 hx
    subst hd
    simp only [List.nil_append] at hc
    let s1 := pushHook (progStore m.sh slot orig) slot child true
    have hpe : plthookEntry Fix.all (progStore m.sh slot orig) slot child .flush 0 = s1.record false :=
      plthookEntry_flush (s := progStore m.sh slot orig) hx slot child
    have hstep : (step Fix.all m (.fork false child slot orig)).sh =
        (retLoop ((s1.record false).rs.length + 1) (s1.record false) ((s1.record false).mem slot)).1 := by
      have e1 : (step Fix.all m (.fork false child slot orig)).sh =
          (retLoop ((forkSide false (plthookEntry Fix.all (progStore m.sh slot orig) slot child .flush 0)).rs.length + 1)
            (forkSide false (plthookEntry Fix.all (progStore m.sh slot orig) slot child .flush 0))
            ((forkSide false (plthookEntry Fix.all (progStore m.sh slot orig) slot child .flush 0)).mem slot)).1 := by
        simp only [step, hi.nh, Bool.false_eq_true, ↓reduceIte]
        rfl
      rw [e1, hpe]; rfl
    have h0 : SOk (progStore m.sh slot orig) c := hs.ok.of_eq rfl rfl rfl rfl
    have hp : SOk s1 c := stream_pushHook h0 slot child true
    have hrs0 : s1.rs = mkEnt slot ((progStore m.sh slot orig).mem slot) child true (progStore m.sh slot orig).recIdx ::
        m.sh.rs := by simp [s1]
    obtain ⟨c1, f1, f2, f3, f4, f5⟩ := stream_flush hp hrs0 rfl hs.nj
    obtain ⟨p1, p2, p3, p4, _⟩ := cnext_entry_props c1
      (mkEnt slot ((progStore m.sh slot orig).mem slot) child true (progStore m.sh slot orig).recIdx)
    have hrl : (s1.record false).rs.length = m.sh.rs.length + 1 := by simp [s1]
    have hsok : SOk (s1.record false) (cnext c1 (toRRec (entryRec 0
        (mkEnt slot ((progStore m.sh slot orig).mem slot) child true (progStore m.sh slot orig).recIdx)))) := by
      refine ⟨by simp [s1, pushHook, hs.ok.child], f1, ?_, by simp [s1, hs.ok.idx]⟩
      apply Sync_allW _ f5 _ p1
      · have := record_depth s1 false
        rw [this, hrl]
        have := hp.sync.dep
        rw [this]; simp [s1]
      · rw [p2]; simp [mkEnt, hok.1]
      · rw [p3, hrl]; simp [mkEnt, hok.2, hs.ok.idx]
    have hnj1 : NoJump (s1.record false).rs :=
      NoJump.congr (l := s1.rs) (by rw [hrs0]; exact NoJump.cons (mkEnt_nojump hok) hs.nj) (record_c s1 false).symm
    have hnf1 : NoFlags (s1.record false).rs := by
      apply NoFlags.congr (l := s1.rs) _ (record_c s1 false).symm
      rw [hrs0]
      intro x hx'
      rcases List.mem_cons.mp hx' with rfl | hx''
      · exact ⟨rfl, rfl⟩
      · exact NoFlags_of_exp hc x hx''
    obtain ⟨c', b1, b2, b3, _, _, b6⟩ := stream_retLoop ((s1.record false).rs.length + 1) (s1.record false)
      ((s1.record false).mem slot) _ hsok hnj1 hnf1 (by simpa [s1] using hi.vf)
    have hle : SeenLe c c' := fun d hd => b2 d (p4 d (f4 d hd))
    refine ⟨c', ⟨by rw [hstep]; exact b1, by rw [hstep]; exact b3, ?_⟩, hle⟩
    rw [hstep]; exact hs.jb_mono hle (by rw [b6]; simp [s1])
  | exec child slot orig =>
    obtain ⟨hlt, hor, hx⟩ := hw
    let s1 := pushHook (progStore m.sh slot orig) slot child true
    have hpe : plthookEntry Fix.all (progStore m.sh slot orig) slot child .flush 0 = s1.record false :=
      plthookEntry_flush (s := progStore m.sh slot orig) hx slot child
    have hstep : (step Fix.all m (.exec child slot orig)).sh =
        { Sh.init with out := (s1.record false).out, pid := (s1.record false).pid, child := (s1.record false).child } := by
      have e1 : (step Fix.all m (.exec child slot orig)).sh =
          { Sh.init with
            out := (plthookEntry Fix.all (progStore m.sh slot orig) slot child .flush 0).out,
            pid := (plthookEntry Fix.all (progStore m.sh slot orig) slot child .flush 0).pid,
            child := (plthookEntry Fix.all (progStore m.sh slot orig) slot child .flush 0).child } := by
        simp only [step, hi.nh, Bool.false_eq_true, ↓reduceIte]
        rfl
      rw [e1, hpe]
    have h0 : SOk (progStore m.sh slot orig) c := hs.ok.of_eq rfl rfl rfl rfl
    have hp : SOk s1 c := stream_pushHook h0 slot child true
    have hrs0 : s1.rs = mkEnt slot ((progStore m.sh slot orig).mem slot) child true (progStore m.sh slot orig).recIdx ::
        m.sh.rs := by simp [s1]
    obtain ⟨c1, f1, f2, f3, f4, _⟩ := stream_flush hp hrs0 rfl hs.nj
    obtain ⟨p1, p2, p3, p4, _⟩ := cnext_entry_props c1
      (mkEnt slot ((progStore m.sh slot orig).mem slot) child true (progStore m.sh slot orig).recIdx)
    have hkk : symKind child = .exec := hk
    refine ⟨_, ⟨⟨?_, ?_, ?_, ?_⟩, ?_, ?_⟩, fun d hd => p4 d (f4 d hd)⟩
    · rw [hstep]; simp [s1, pushHook, hs.ok.child]
    · rw [hstep]; exact f1
    · rw [hstep]
      refine ⟨?_, ?_, fun _ => rfl, trivial, rfl⟩
      · rw [p2]; simp [mkEnt, hkk]
      · rw [p3]; simp [mkEnt, hkk, wc, Sh.init]
    · rw [hstep]; rfl
    · rw [hstep]; intro x hx'; simp [Sh.init] at hx'
    · rw [hstep]; intro j' srs sidx hl; simp [Sh.init] at hl

end Uft.NonLocal

namespace Uft.NonLocal

/-! ### the statements for the repaired libmcount (`Fix.all`); Props/C11.lean restates them for `Fix.current` -/

/-- Main invariant: whatever the program does next — call (hooked by mcount/fentry, through
    the PLT, or not at all; also from a landing pad), return, tail call, setjmp, longjmp to any
    live jmp_buf, throw, one step of unwinding, _Unwind_Resume, catch, pthread_exit, exit, the
    thread destructor — a machine that is in step stays in step.  (A signal handler is a `call`
    at an arbitrary point, see `rep_signal_transparent`.)  `vforkExec` is in the executable model
    and in the correspondence harness only. -/
theorem rep_instep_invariant {m : M} {op : Op} (hi : InStep m) (hw : WellFormedOp m op)
    (hv : ∀ a b c d e, op ≠ .vforkExec a b c d e) : InStep (step Fix.all m op) := by
  rcases hi with hh | hi
  · left; rw [step_halted _ hh]; exact hh
  · cases op with
    | call k child slot orig fpw => right; exact inv_call hi hw
    | ret =>
      right
      obtain ⟨f, fs, hf⟩ : ∃ f fs, m.fs = f :: fs := by
        cases h : m.fs with
        | nil => exact absurd h hw.1
        | cons f fs => exact ⟨f, fs, rfl⟩
      exact (ret_spec hi hw hf).1
    | tailcall k child => right; exact inv_tailcall hi hw
    | setjmp j child slot orig => right; exact (inv_setjmp hi hw).1
    | longjmp j child slot orig =>
      right
      obtain ⟨jb, _, h, _⟩ := inv_longjmp hi hw
      exact h
    | throw => right; exact inv_throw hi hw
    | unwind => right; exact inv_unwind hi hw
    | resume => right; exact inv_resume hi hw
    | catch_ fa => right; exact inv_catch hi hw
    | pthreadExit child slot orig => right; exact inv_pthreadExit hi hw
    | exit child slot orig => exact instep_exit child slot orig
    | vforkExec a b c d e => right; exact (inv_vforkExec hi hw).1
    | mtdDtor => right; exact inv_mtdDtor hi hw
    | fork ic child slot orig => right; exact (inv_fork hi hw).1
    | exec child slot orig => right; exact inv_exec hi child slot orig

/-- vfork + exec: the parent comes back from vfork to its caller although the child used the shared
    shadow stack in between (prepare_vfork / setup_vfork / restore_vfork) -/
theorem rep_vfork_returns {m : M} (hi : Inv m) {child slot orig echild eorig : Nat}
    (hw : WellFormedOp m (.vforkExec child slot orig echild eorig)) :
    (step Fix.all m (.vforkExec child slot orig echild eorig)).last = orig := (inv_vforkExec hi hw).2

/-- non-terminal steps keep the machine running and in step -/
theorem inv_step_nonterminal {m : M} {op : Op} (hi : Inv m) (hw : WellFormedOp m op) (hnt : op.noDepthClaim = false) :
    Inv (step Fix.all m op) := by
  cases op with
  | call k child slot orig fpw => exact inv_call hi hw
  | ret =>
    obtain ⟨f, fs, hf⟩ : ∃ f fs, m.fs = f :: fs := by
      cases h : m.fs with
      | nil => exact absurd h hw.1
      | cons f fs => exact ⟨f, fs, rfl⟩
    exact (ret_spec hi hw hf).1
  | tailcall k child => exact inv_tailcall hi hw
  | setjmp j child slot orig => exact (inv_setjmp hi hw).1
  | longjmp j child slot orig =>
    obtain ⟨jb, _, h, _⟩ := inv_longjmp hi hw
    exact h
  | throw => exact inv_throw hi hw
  | unwind => exact inv_unwind hi hw
  | resume => exact inv_resume hi hw
  | catch_ fa => exact inv_catch hi hw
  | pthreadExit child slot orig => simp [Op.noDepthClaim] at hnt
  | exit child slot orig => simp [Op.noDepthClaim] at hnt
  | vforkExec a b c d e => simp [Op.noDepthClaim] at hnt
  | mtdDtor => exact inv_mtdDtor hi hw
  | fork ic child slot orig => exact (inv_fork hi hw).1
  | exec child slot orig => exact inv_exec hi child slot orig

/-- the invariant is not vacuous: the initial machine is in step and so is a machine inside
    two nested hooked calls with a setjmp taken -/
example : Inv M.init :=
  ⟨rfl, rfl, rfl, ⟨[], rfl, fun _ => rfl⟩, List.Pairwise.nil, (fun _ h => by cases h), (fun _ h => by cases h),
    (fun _ => TopOk_of_nil (fs := []) rfl), (fun _ _ h => by cases h), (fun _ _ h => by cases h)⟩

/-- Under the invariant a return goes to the real caller: the program behaves as untraced.
    (Through a tail-call chain this takes one exit hook per chain element.) -/
theorem rep_every_return_reaches_caller {m : M} (hi : Inv m) (hw : WellFormedOp m .ret) {f : Frame} {fs : List Frame}
    (hf : m.fs = f :: fs) :
    (step Fix.all m .ret).last = f.orig ∧ (step Fix.all m .ret).fs = fs := by
  refine ⟨(ret_spec hi hw hf).2, ?_⟩
  rw [step_ret_eq _ hi.nh hf]

/-- longjmp lands behind the setjmp call of the target jmp_buf, with exactly the frames of
    that moment, and the shadow stack follows (by `c11_instep_invariant`) -/
theorem rep_longjmp_reaches_setjmp {m : M} (hi : Inv m) {j child slot orig : Nat}
    (hw : WellFormedOp m (.longjmp j child slot orig)) :
    ∃ jb, m.rjb.lookup j = some jb ∧ (step Fix.all m (.longjmp j child slot orig)).last = jb.sorig ∧
      (step Fix.all m (.longjmp j child slot orig)).fs = jb.frames := by
  obtain ⟨jb, h1, _, h3, h4⟩ := inv_longjmp hi hw
  exact ⟨jb, h1, h3, h4⟩

/-- setjmp itself returns to its caller -/
theorem rep_setjmp_returns {m : M} (hi : Inv m) {j child slot orig : Nat}
    (hw : WellFormedOp m (.setjmp j child slot orig)) :
    (step Fix.all m (.setjmp j child slot orig)).last = orig := (inv_setjmp hi hw).2

/-- While an exception is in flight every live return slot holds the real return address:
    the C++ unwinder, which walks the stack through these slots, sees the untraced stack. -/
theorem rep_unwinder_sees_real_addresses {m : M} (hi : Inv m) (hw : WellFormedOp m .throw) :
    ∀ f ∈ (step Fix.all m .throw).fs, (step Fix.all m .throw).sh.mem f.slot = f.orig :=
  (inv_throw hi hw).exc (by simp [step, hi.nh, cxaThrow])

/-- The depth bookkeeping survives every non-terminal step: `record_idx` is the number of
    shadow entries and every entry's `depth` is the number of entries below it (also in every
    jmp_buf copy). -/
theorem rep_trace_depth_invariant {m : M} {op : Op} (hi : Inv m) (ht : TraceInv m.sh) (hw : WellFormedOp m op)
    (hnt : op.noDepthClaim = false) : TraceInv (step Fix.all m op).sh :=
  trace_step hi ht hw hnt

/-- After a longjmp or a catch (or any other non-terminal step that leaves no exception in
    flight) the depth counter is the true nesting depth — the number of hooked logical calls that
    are open on the real stack — and the depths stored in the shadow entries are
    n-1, …, 0; so the records of every later call (entryRec/exitRec copy `depth`) carry the true depth. -/
theorem rep_trace_depth_after_jump {m : M} {op : Op} (hi : Inv m) (ht : TraceInv m.sh) (hw : WellFormedOp m op)
    (hnt : op.noDepthClaim = false) (hx : (step Fix.all m op).sh.inExc = false) :
    (step Fix.all m op).sh.recIdx = logicalDepth (step Fix.all m op).fs ∧
    (step Fix.all m op).sh.rs.map Ent.depth = descFrom (logicalDepth (step Fix.all m op).fs) := by
  have ht' := trace_step hi ht hw hnt
  have hi' := inv_step_nonterminal hi hw hnt
  obtain ⟨dead, hc, hd0⟩ := hi'.ctl
  have hd : dead = [] := hd0 hx
  subst hd
  have hl : (step Fix.all m op).sh.rs.length = logicalDepth (step Fix.all m op).fs := by
    have := congrArg List.length hc
    simpa [expFrames_length] using this
  exact ⟨by rw [ht'.idx, hl], by rw [ht'.depths, hl]⟩

/-- the entry pushed by a hooked call carries the true nesting depth -/
theorem rep_entry_depth_true {m : M} {k : Kind} {child slot orig fpw : Nat} (hi : Inv m) (ht : TraceInv m.sh)
    (hw : WellFormedOp m (.call k child slot orig fpw)) (hk : k ≠ .none) :
    ((step Fix.all m (.call k child slot orig fpw)).sh.rs.head?).map Ent.depth = some (logicalDepth m.fs) := by
  have hx : (step Fix.all m (.call k child slot orig fpw)).sh.inExc = false := by
    have hstep : (step Fix.all m (.call k child slot orig fpw)).sh =
        hookEntry Fix.all (progWrite m.sh slot orig fpw) k slot child := by
      simp [step, hi.nh, progWrite]
    rw [hstep]
    rcases Bool.eq_false_or_eq_true (progWrite m.sh slot orig fpw).inExc with he | he
    · cases k with
      | none => exact absurd rfl hk
      | mcount => simp only [hookEntry]; rw [mcountEntry_exc _ he]; simp [excPre]
      | plt => simp only [hookEntry]; rw [plthookEntry_plain_exc he]; simp [excPre]
    · cases k with
      | none => exact absurd rfl hk
      | mcount => simp only [hookEntry]; rw [mcountEntry_noexc _ he]; simpa using he
      | plt => simp only [hookEntry]; rw [plthookEntry_plain_noexc _ he]; simpa using he
  obtain ⟨_, h2⟩ := rep_trace_depth_after_jump hi ht hw rfl hx
  have hfs : (step Fix.all m (.call k child slot orig fpw)).fs = ⟨slot, orig, chainOf k child⟩ :: m.fs := by
    simp [step, hi.nh]
  rw [hfs] at h2
  have hld : logicalDepth (⟨slot, orig, chainOf k child⟩ :: m.fs) = logicalDepth m.fs + 1 := by
    rw [chainOf_hooked hk]; simp [logicalDepth]; omega
  rw [hld] at h2
  cases hr : (step Fix.all m (.call k child slot orig fpw)).sh.rs with
  | nil => rw [hr] at h2; simp [descFrom] at h2
  | cons e r =>
    rw [hr] at h2
    simp only [List.map_cons, descFrom, List.cons.injEq] at h2
    simp [h2.1]

/-- Replay (repaired fix-up): on every record stream that is locally coherent — which is how the
    shadow stack emits it: calls nest, returns close the innermost call, and the record after a
    longjmp ENTRY is the second EXIT of a setjmp whose ENTRY was seen at that depth — every record
    is displayed at its record depth, also after a longjmp to a jmp_buf that is not the latest. -/
theorem rep_replay_depth_coherent (l : List RRec) (h : coherent CSt.init l = true) :
    rrun true RSt.init l = l.map (·.depth) :=
  rrun_coherent l RSt.init CSt.init ⟨rfl, (fun h => by cases h), (fun _ h => by cases h), rfl⟩ h

/-! ### signal handlers: a balanced history at an arbitrary point -/

/-- well-nested calls and returns: what a (traced or untraced) signal handler and everything it
    calls do between the arrival of the signal and sigreturn -/
inductive Balanced : List Op → Prop
  | nil : Balanced []
  | wrap {k : Kind} {child slot orig fpw : Nat} {h1 h2 : List Op} :
      Balanced h1 → Balanced h2 → Balanced (.call k child slot orig fpw :: h1 ++ .ret :: h2)

/-- every op of the history is well formed in the state it is executed in -/
def WFRun (m : M) : List Op → Prop
  | [] => True
  | op :: r => WellFormedOp m op ∧ WFRun (step Fix.all m op) r

theorem run_append (fx : Fix) (m : M) (a b : List Op) : run fx m (a ++ b) = run fx (run fx m a) b := by
  simp [run, List.foldl_append]

theorem WFRun_append {m : M} {a b : List Op} (h : WFRun m (a ++ b)) : WFRun m a ∧ WFRun (run Fix.all m a) b := by
  induction a generalizing m with
  | nil => exact ⟨trivial, h⟩
  | cons op r ih =>
    obtain ⟨h1, h2⟩ := h
    obtain ⟨h3, h4⟩ := ih h2
    exact ⟨⟨h1, h3⟩, h4⟩

/-- everything that later steps can depend on is the same -/
structure SameState (m m' : M) : Prop where
  fs : m'.fs = m.fs
  ctl : m'.sh.rs.map Ent.c = m.sh.rs.map Ent.c
  mem : ∀ f ∈ m.fs, m'.sh.mem f.slot = m.sh.mem f.slot
  recIdx : m'.sh.recIdx = m.sh.recIdx
  inExc : m'.sh.inExc = m.sh.inExc
  jbs : m'.sh.jbs = m.sh.jbs
  rjb : m'.rjb = m.rjb

theorem SameState.trans {a b c : M} (h1 : SameState a b) (h2 : SameState b c) : SameState a c :=
  ⟨h2.fs.trans h1.fs, h2.ctl.trans h1.ctl,
    fun f hf => (h2.mem f (by rw [h1.fs]; exact hf)).trans (h1.mem f hf),
    h2.recIdx.trans h1.recIdx, h2.inExc.trans h1.inExc, h2.jbs.trans h1.jbs, h2.rjb.trans h1.rjb⟩

/-- A balanced history inserted at any point (a signal handler interrupting traced code, itself
    traced or not, calling whatever it likes as long as everything returns) leaves the machine in
    step and the state unchanged: same frames, same shadow entries, same content of every live
    return slot, same depth counter, same jmp_buf copies. -/
theorem rep_signal_transparent {h : List Op} (hb : Balanced h) :
    ∀ {m : M}, Inv m → m.sh.inExc = false → WFRun m h →
      Inv (run Fix.all m h) ∧ SameState m (run Fix.all m h) := by
  induction hb with
  | nil => intro m hi _ _; exact ⟨hi, ⟨rfl, rfl, fun _ _ => rfl, rfl, rfl, rfl, rfl⟩⟩
  | @wrap k child slot orig fpw h1 h2 _ _ ih1 ih2 =>
    intro m hi hx hw
    obtain ⟨hwc, hw'⟩ := hw
    obtain ⟨hw1, hw''⟩ := WFRun_append hw'
    obtain ⟨hwr, hw2⟩ := hw''
    have hrun : run Fix.all m (.call k child slot orig fpw :: h1 ++ .ret :: h2) =
        run Fix.all (step Fix.all (run Fix.all (step Fix.all m (.call k child slot orig fpw)) h1) .ret) h2 := by
      show run Fix.all (step Fix.all m _) (h1 ++ .ret :: h2) = _
      rw [run_append]; rfl
    rw [hrun]
    -- the call
    have hi1 := inv_call hi hwc
    obtain ⟨c1, c2, c3, c4, c5, c6⟩ := call_frame hi hx hwc
    -- the nested history
    obtain ⟨hi2, s12⟩ := ih1 hi1 c2 hw1
    have hx2 : (run Fix.all (step Fix.all m (.call k child slot orig fpw)) h1).sh.inExc = false := by
      rw [s12.inExc]; exact c2
    have hf2 : (run Fix.all (step Fix.all m (.call k child slot orig fpw)) h1).fs =
        ⟨slot, orig, chainOf k child⟩ :: m.fs := by rw [s12.fs]; exact c1
    -- the return
    obtain ⟨hi3, _⟩ := ret_spec hi2 hwr hf2
    obtain ⟨r1, r2, r3, r4, r5⟩ := ret_frame hi2 hx2 hwr hf2
    have hfs3 : (step Fix.all (run Fix.all (step Fix.all m (.call k child slot orig fpw)) h1) .ret).fs = m.fs := by
      rw [step_ret_eq _ hi2.nh hf2]
    have s03 : SameState m (step Fix.all (run Fix.all (step Fix.all m (.call k child slot orig fpw)) h1) .ret) := by
      obtain ⟨d0, hc0, hd0⟩ := hi.ctl
      obtain ⟨d3, hc3, hd3⟩ := hi3.ctl
      have e0 : d0 = [] := hd0 hx
      have e3 : d3 = [] := hd3 r1
      subst e0; subst e3
      refine ⟨hfs3, ?_, ?_, ?_, by rw [r1, hx], by rw [r2, s12.jbs, c3], by rw [r3, s12.rjb, c4]⟩
      · rw [hc3, hc0, hfs3]
      · intro g hg
        have hgs : slot < g.slot := hwc.2.1 g hg
        by_cases htop : ∃ p ps, expFrames m.fs = p :: ps ∧ g.slot = p.loc
        · -- the top hooked frame: hooked before and after
          obtain ⟨p, ps, hp, hgp⟩ := htop
          rw [hgp, hi3.top r1 p ps (by rw [hfs3]; exact hp), hi.top hx p ps hp]
        · have hne : ∀ p ps, expFrames m.fs = p :: ps → g.slot ≠ p.loc :=
            fun p ps hp h => htop ⟨p, ps, hp, h⟩
          rw [r5 g.slot hne, s12.mem g (by rw [c1]; simp [hg]), c6 g.slot (by omega) (by omega) hne]
      · rw [r4, s12.recIdx, c5]; simp
    -- the rest of the history
    have hx3 : (step Fix.all (run Fix.all (step Fix.all m (.call k child slot orig fpw)) h1) .ret).sh.inExc = false := r1
    obtain ⟨hi4, s34⟩ := ih2 hi3 hx3 hw2
    exact ⟨hi4, s03.trans s34⟩

/-- the theorem is not vacuous: a handler calling a traced and a PLT function on top of main -/
example : Balanced [.call .mcount 5 20 3000 29, .call .plt 100 10 3001 0, .ret, .ret] :=
  Balanced.wrap (h1 := [.call .plt 100 10 3001 0, .ret]) (h2 := [])
    (Balanced.wrap (h1 := []) (h2 := []) Balanced.nil Balanced.nil) Balanced.nil


end Uft.NonLocal

namespace Uft.NonLocal

/-! ### whole histories -/

/-- a program history: every step is well formed in the state it is executed in and uses the fix-up
    symbols only through their own ops -/
def History (m : M) : List Op → Prop
  | [] => True
  | op :: r => WellFormedOp m op ∧ SymOk op ∧ History (step Fix.current m op) r

theorem symOk_depthClaim {op : Op} (h : SymOk op) : op.noDepthClaim = false := by
  cases op <;> simp_all [SymOk, Op.noDepthClaim]

theorem streamInv_init : StreamInv M.init CSt.init :=
  ⟨⟨rfl, rfl, ⟨rfl, rfl, fun _ => rfl, trivial, rfl⟩, rfl⟩, (fun _ h => by cases h), (fun _ _ _ h => by cases h)⟩

theorem traceInv_init : TraceInv M.init.sh := ⟨rfl, rfl, fun _ _ _ h => by cases h⟩

theorem inv_init : Inv M.init :=
  ⟨rfl, rfl, rfl, ⟨[], rfl, fun _ => rfl⟩, List.Pairwise.nil, (fun _ h => by cases h), (fun _ h => by cases h),
    (fun _ => TopOk_of_nil (fs := []) rfl), (fun _ _ h => by cases h), (fun _ _ h => by cases h)⟩

/-- everything the theorems need, kept along a history -/
theorem history_run : ∀ (ops : List Op) (m : M) (c : CSt), Inv m → TraceInv m.sh → StreamInv m c → History m ops →
    ∃ c', Inv (run Fix.current m ops) ∧ TraceInv (run Fix.current m ops).sh ∧ StreamInv (run Fix.current m ops) c' ∧
      SeenLe c c' := by
  intro ops
  induction ops with
  | nil => intro m c hi ht hs _; exact ⟨c, hi, ht, hs, SeenLe.refl c⟩
  | cons op r ih =>
    intro m c hi ht hs hh
    obtain ⟨hw, hk, hr⟩ := hh
    have hi' : Inv (step Fix.current m op) := inv_step_nonterminal hi hw (symOk_depthClaim hk)
    have ht' : TraceInv (step Fix.current m op).sh := trace_step hi ht hw (symOk_depthClaim hk)
    obtain ⟨c1, hs', hle⟩ := stream_step hi ht hs hw hk
    obtain ⟨c', a1, a2, a3, a4⟩ := ih (step Fix.current m op) c1 hi' ht' hs' hr
    exact ⟨c', a1, a2, a3, hle.trans a4⟩

def rfinal (fixed : Bool) : RSt → List RRec → RSt
  | s, [] => s
  | s, r :: rs => rfinal fixed (rstep fixed s r).1 rs

theorem rfinal_coherent : ∀ (l : List RRec) (r : RSt) (c c' : CSt), RInv r c → crun c l = some c' →
    RInv (rfinal true r l) c' := by
  intro l
  induction l with
  | nil => intro r c c' h hc; simp [crun] at hc; rw [← hc]; exact h
  | cons x xs ih =>
    intro r c c' h hc
    simp only [crun, cstep] at hc
    by_cases hk : cok c x = true
    · simp only [hk, ↓reduceIte] at hc
      exact ih _ _ _ (rstep_coherent h hk).1 hc
    · simp [hk] at hc

theorem rfinal_asis : ∀ (l : List RRec) (r : RSt) (c c' : CSt), RInvA r c → crun c l = some c' →
    latestOnly c l = true → RInvA (rfinal false r l) c' := by
  intro l
  induction l with
  | nil => intro r c c' h hc _; simp [crun] at hc; rw [← hc]; exact h
  | cons x xs ih =>
    intro r c c' h hc hl
    simp only [crun, cstep] at hc
    simp only [latestOnly, Bool.and_eq_true] at hl
    by_cases hk : cok c x = true
    · simp only [hk, ↓reduceIte] at hc
      exact ih _ _ _ (rstep_asis h hk hl.1).1 hc hl.2
    · simp [hk] at hc

theorem rinv_init : RInv RSt.init CSt.init := ⟨rfl, (fun h => by cases h), (fun _ h => by cases h), rfl⟩
theorem rinvA_init : RInvA RSt.init CSt.init :=
  ⟨rfl, (fun h => by cases h), (fun h => by cases h), (fun _ h => by cases h)⟩

theorem wc_le_length (l : List Ent) : wc l ≤ l.length := by
  induction l with
  | nil => exact Nat.le_refl _
  | cons e r ih => simp only [wc, List.length_cons]; split <;> omega

end Uft.NonLocal
